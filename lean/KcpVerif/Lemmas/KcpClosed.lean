/-
C04 (after a timeout): with congestion control on and no fast-resend threshold configured
(`fastresend ≤ 0`, the default), a closed congestion window (`cwnd ≤` segments in flight) stays
closed — and nothing new is admitted — for as long as `snd_una` does not move, whatever operations
run and whatever a peer sends.  After a timeout retransmission the window IS closed (`cwnd = 1`).
Core Lean only.
-/
import KcpVerif.Lemmas.KcpFrames
import KcpVerif.Lemmas.KcpAdmit
import KcpVerif.Lemmas.KcpCwnd

namespace KcpVerif.Kcp
open KcpVerif KcpVerif.Gen

/-- the congestion window is closed: congestion control on, no fast-resend threshold, something in
flight, and `cwnd` at most the number of segments in flight -/
structure Closed (k : Kcp) : Prop where
  cc : k.nocwnd = 0
  nofast : k.fastresend.sle 0 = true
  inflight : k.snd_buf ≠ []
  closed : k.cwnd.toNat ≤ k.snd_buf.length

instance (k : Kcp) : Decidable (Closed k) :=
  decidable_of_iff (k.nocwnd = 0 ∧ k.fastresend.sle 0 = true ∧ k.snd_buf ≠ [] ∧ k.cwnd.toNat ≤ k.snd_buf.length)
    ⟨fun ⟨a, b, c, d⟩ => ⟨a, b, c, d⟩, fun ⟨a, b, c, d⟩ => ⟨a, b, c, d⟩⟩

/-- `Closed` only reads `snd_una snd_nxt cwnd nocwnd fastresend` and (through `Inv`) the length of `snd_buf` -/
theorem Closed.transfer {k k' : Kcp} (hc : Closed k) (hi : Inv k) (hi' : Inv k')
    (hu : k'.snd_una = k.snd_una) (hn : k'.snd_nxt = k.snd_nxt) (hcw : k'.cwnd = k.cwnd)
    (hcc : k'.nocwnd = 0) (hf : k'.fastresend.sle 0 = true) :
    Closed k' ∧ k'.snd_buf.length = k.snd_buf.length := by
  have h1 := hi.snd.inflight
  have h2 := hi'.snd.inflight
  rw [hu, hn] at h2
  have hlen : k'.snd_buf.length = k.snd_buf.length := by omega
  refine ⟨⟨hcc, hf, ?_, ?_⟩, hlen⟩
  · intro he
    have := hc.inflight
    rw [he] at hlen
    exact this (List.eq_nil_of_length_eq_zero hlen.symm)
  · rw [hcw, hlen]; exact hc.closed

theorem effCwnd_le_cwnd (k : Kcp) (h : k.nocwnd = 0) : (effCwnd k).toNat ≤ k.cwnd.toNat := by
  unfold effCwnd; rw [if_pos h]; split
  · exact Nat.le_refl _
  · rename_i hh; bv_omega

/-- phase 6 cannot open a closed window when no fast-resend threshold is configured:
after a fast retransmit `cwnd = ssthresh + 0xFFFFFFFF = max(inflight/2, 2) - 1 ≤ inflight` -/
theorem phase6_closed (k5 : Kcp) (cwnd : U32) (change lost len : Nat) (hn : k5.nocwnd = 0)
    (hlen : (k5.snd_nxt - k5.snd_una).toNat = len) (h1 : 1 ≤ len) (h31 : len < 2^31) (hc : k5.cwnd.toNat ≤ len) :
    (phase6 k5 cwnd 0xFFFFFFFF#32 change lost).cwnd.toNat ≤ len := by
  unfold phase6
  rw [if_pos hn]
  have ha : (p6change k5 0xFFFFFFFF#32 change).cwnd.toNat ≤ len := by
    unfold p6change
    split
    · show ((if (k5.snd_nxt - k5.snd_una) / 2 ≥ u32 IKCP_THRESH_MIN then (k5.snd_nxt - k5.snd_una) / 2 else u32 IKCP_THRESH_MIN)
        + 0xFFFFFFFF#32).toNat ≤ len
      have e2 : u32 IKCP_THRESH_MIN = 2#32 := by decide
      rw [e2]
      generalize hd : (k5.snd_nxt - k5.snd_una) = d at hlen
      have hdiv : (d / 2).toNat = d.toNat / 2 := by simp [BitVec.toNat_udiv]
      generalize d / 2 = half at hdiv
      split <;> bv_omega
    · exact hc
  have hb : (p6lost (p6change k5 0xFFFFFFFF#32 change) cwnd lost).cwnd.toNat ≤ len := by
    unfold p6lost
    split
    · exact h1
    · exact ha
  unfold p6floor
  split
  · exact h1
  · exact hb

theorem resentOf_nofast (k : Kcp) (h : k.fastresend.sle 0 = true) : resentOf k = 0xFFFFFFFF#32 := by
  unfold resentOf; rw [if_pos h]

theorem flush_una (k : Kcp) (full : Bool) (now : U32) : (flush k full now).k.snd_una = k.snd_una := by
  obtain ⟨_, _, _, _, _, _, _, hk, _⟩ := flush_k k full now
  rw [hk]

/-- a flush from a closed window admits nothing and leaves the window closed -/
theorem closed_flush (k : Kcp) (full : Bool) (now : U32) (hi : Inv k) (hc : Closed k) :
    Closed (flush k full now).k ∧ (flush k full now).k.snd_nxt = k.snd_nxt ∧
    (flush k full now).k.snd_una = k.snd_una := by
  have hfl := hi.snd.inflight
  have hfull : ¬ (k.snd_nxt - k.snd_una) < effCwnd k := by
    have := effCwnd_le_cwnd k hc.cc
    have := hc.closed
    intro hlt; bv_omega
  obtain ⟨hnxt, _, hlen⟩ := flush_window_full k full now hi hfull
  obtain ⟨pw, tp, st, ss, cw, inc, done, hk, _⟩ := flush_k k full now
  have huna : (flush k full now).k.snd_una = k.snd_una := by rw [hk]
  have hcc : (flush k full now).k.nocwnd = 0 := by rw [hk]; exact hc.cc
  have hfr : (flush k full now).k.fastresend.sle 0 = true := by rw [hk]; exact hc.nofast
  refine ⟨⟨hcc, hfr, ?_, ?_⟩, hnxt, huna⟩
  · intro he
    rw [he] at hlen
    exact hc.inflight (List.eq_nil_of_length_eq_zero hlen.symm)
  · rw [hlen]
    obtain ⟨k5, change, lost, e, h1, h2, h3, h4, _, _⟩ := flush_phase6x k full now
    rw [e, resentOf_nofast k hc.nofast]
    have hadn : (flushAd k now).nxt = k.snd_nxt := by
      have : (flush k full now).k.snd_nxt = (flushAd k now).nxt := by rw [hk]
      rw [← this]; exact hnxt
    apply phase6_closed
    · rw [h1]; exact hc.cc
    · rw [h3, h4, hadn]; exact hfl
    · exact List.length_pos_iff.2 hc.inflight
    · have := hi.snd.len_le; have := hi.snd.small; omega
    · rw [h2]; exact hc.closed

/-- `Input` of ANY byte string: if `snd_una` is where it was afterwards, the window is still closed
and nothing was admitted -/
theorem closed_input (k : Kcp) (data : Bytes) (regular ackNoDelay : Bool) (now : U32) (hi : Inv k) (hc : Closed k)
    (hu : (input k data regular ackNoDelay now).k.snd_una = k.snd_una) :
    Closed (input k data regular ackNoDelay now).k ∧ (input k data regular ackNoDelay now).k.snd_nxt = k.snd_nxt := by
  rw [input_eq] at hu ⊢
  split
  · exact ⟨hc, rfl⟩
  · rename_i h0
    rw [if_neg h0] at hu
    have his := inputLoop_preserves Inv regular (inBody_inv regular) (data.length / IKCP_OVERHEAD + 1) data { k := k } hi
    obtain ⟨rw', sb, su, al, rq, rb, rn, pr, hs⟩ := inputLoop_shape regular (data.length / IKCP_OVERHEAD + 1) data { k := k }
    generalize inputLoop regular (data.length / IKCP_OVERHEAD + 1) data { k := k } = st at hu his hs ⊢
    have hs' : st.k = { k with rmt_wnd := rw', snd_buf := sb, snd_una := su, acklist := al, rcv_queue := rq,
                               rcv_buf := rb, rcv_nxt := rn, probe := pr } := hs
    have hnxt : st.k.snd_nxt = k.snd_nxt := by rw [hs']
    have hcw : st.k.cwnd = k.cwnd := by rw [hs']
    have hcc : st.k.nocwnd = 0 := by rw [hs']; exact hc.cc
    have hfr : st.k.fastresend.sle 0 = true := by rw [hs']; exact hc.nofast
    unfold inputTail at hu ⊢
    split
    · rename_i hp; rw [if_pos hp] at hu
      exact ⟨(hc.transfer hi his hu hnxt hcw hcc hfr).1, hnxt⟩
    · rename_i hp; rw [if_neg hp] at hu
      split
      · rename_i hr; rw [if_pos hr] at hu
        exact ⟨(hc.transfer hi his hu hnxt hcw hcc hfr).1, hnxt⟩
      · rename_i hr; rw [if_neg hr] at hu
        -- the RTT update touches nothing relevant
        have hi1 : Inv (inputK1 st regular now) := by
          unfold inputK1; split
          · exact updateAck_inv _ _ his
          · exact his
        have hk1 : ∃ a b c, inputK1 st regular now = { st.k with rx_srtt := a, rx_rttvar := b, rx_rto := c } := by
          unfold inputK1; split
          · exact updateAck_shape _ _
          · exact ⟨st.k.rx_srtt, st.k.rx_rttvar, st.k.rx_rto, rfl⟩
        obtain ⟨a, b, c, hk1⟩ := hk1
        generalize inputK1 st regular now = k1 at hu hi1 hk1 ⊢
        -- every later step keeps snd_una, so it is still the entry value
        have hfin : (inputFin (cwndOnAck k1 k.snd_una) st.flushSeg ackNoDelay now).k.snd_una = (cwndOnAck k1 k.snd_una).snd_una := by
          unfold inputFin
          split; · exact flush_una _ _ _
          split; · exact flush_una _ _ _
          split; · exact flush_una _ _ _
          rfl
        obtain ⟨cw, inc, hcwa⟩ := cwndOnAck_shape k1 k.snd_una
        have hu1 : k1.snd_una = k.snd_una := by
          rw [hfin, hcwa] at hu; exact hu
        have hid : cwndOnAck k1 k.snd_una = k1 := by
          rw [cwndOnAck_eq, if_neg]
          intro hh
          have := hh.2.1
          rw [hu1] at this
          unfold itimediff at this
          simp at this
        rw [hid] at hu ⊢
        have hc1 : Closed k1 := by
          refine (hc.transfer hi hi1 hu1 ?_ ?_ ?_ ?_).1
          · rw [hk1]; exact hnxt
          · rw [hk1]; exact hcw
          · rw [hk1]; exact hcc
          · rw [hk1]; exact hfr
        have hn1 : k1.snd_nxt = k.snd_nxt := by rw [hk1]; exact hnxt
        unfold inputFin
        split
        · have := closed_flush k1 true now hi1 hc1; exact ⟨this.1, this.2.1.trans hn1⟩
        split
        · have := closed_flush k1 false now hi1 hc1; exact ⟨this.1, this.2.1.trans hn1⟩
        split
        · have := closed_flush k1 false now hi1 hc1; exact ⟨this.1, this.2.1.trans hn1⟩
        exact ⟨hc1, hn1⟩

/-- every operation: if afterwards congestion control is still on, still no fast-resend threshold is
configured (only `noDelay` can change either) and `snd_una` is where it was, then the window is still
closed and nothing was admitted -/
theorem closed_step (k : Kcp) (op : Op) (hok : op.ok k) (hi : Inv k) (hc : Closed k)
    (hcc : (step k op).nocwnd = 0) (hfr : (step k op).fastresend.sle 0 = true)
    (hu : (step k op).snd_una = k.snd_una) :
    Closed (step k op) ∧ (step k op).snd_nxt = k.snd_nxt := by
  have hi' := step_inv k op hok hi
  cases op with
  | send b =>
    obtain ⟨q, e⟩ := send_shape k b
    have e' : step k (.send b) = { k with snd_queue := q } := e
    rw [e']; exact ⟨⟨hc.cc, hc.nofast, hc.inflight, hc.closed⟩, rfl⟩
  | recv n =>
    obtain ⟨q, b, x, p, e⟩ := recv_shape k n
    have e' : step k (.recv n) = { k with rcv_queue := q, rcv_buf := b, rcv_nxt := x, probe := p } := e
    rw [e']; exact ⟨⟨hc.cc, hc.nofast, hc.inflight, hc.closed⟩, rfl⟩
  | input d reg nd now => exact closed_input k d reg nd now hi hc hu
  | flush full now => have := closed_flush k full now hi hc; exact ⟨this.1, this.2.1⟩
  | update now =>
    obtain ⟨u, t, e | e⟩ := update_shape k now
    · have e' : step k (.update now) = { k with updated := u, ts_flush := t } := e
      rw [e']; exact ⟨⟨hc.cc, hc.nofast, hc.inflight, hc.closed⟩, rfl⟩
    · have e' : step k (.update now) = (flush { k with updated := u, ts_flush := t } true now).k := e
      rw [e']
      have := closed_flush { k with updated := u, ts_flush := t } true now ⟨hi.win, hi.rq, hi.snd⟩
        ⟨hc.cc, hc.nofast, hc.inflight, hc.closed⟩
      exact ⟨this.1, this.2.1⟩
  | setMtu m =>
    obtain ⟨a, b, c, e⟩ := setMtu_shape k m
    have e' : step k (.setMtu m) = { k with mtu := a, mss := b, bufLen := c } := e
    rw [e']; exact ⟨⟨hc.cc, hc.nofast, hc.inflight, hc.closed⟩, rfl⟩
  | noDelay a b c d =>
    obtain ⟨nd, mr, iv, fr, nc, e⟩ := noDelay_shape k a b c d
    have e' : step k (.noDelay a b c d) = { k with nodelay := nd, rx_minrto := mr, interval := iv, fastresend := fr, nocwnd := nc } := e
    rw [e'] at hcc hfr ⊢
    exact ⟨⟨hcc, hfr, hc.inflight, hc.closed⟩, rfl⟩
  | wndSize s r =>
    obtain ⟨sw, rw', e⟩ := wndSize_shape k s r
    have e' : step k (.wndSize s r) = { k with snd_wnd := sw, rcv_wnd := rw' } := e
    rw [e']; exact ⟨⟨hc.cc, hc.nofast, hc.inflight, hc.closed⟩, rfl⟩
  | setStream v => exact ⟨⟨hc.cc, hc.nofast, hc.inflight, hc.closed⟩, rfl⟩

/-- every state of the run (after each operation) satisfies `P` -/
def allAfter (P : Kcp → Prop) (k : Kcp) : List Op → Prop
  | [] => True
  | op :: rest => P (step k op) ∧ allAfter P (step k op) rest

instance allAfterDec (P : Kcp → Prop) [DecidablePred P] : (k : Kcp) → (ops : List Op) → Decidable (allAfter P k ops)
  | _, [] => isTrue trivial
  | k, op :: rest =>
    have : Decidable (allAfter P (step k op) rest) := allAfterDec P (step k op) rest
    (inferInstance : Decidable (P (step k op) ∧ allAfter P (step k op) rest))

/-- a run from a closed window during which congestion control stays on, no fast-resend threshold is
configured and `snd_una` does not move: the window stays closed and `snd_nxt` does not move — nothing
new is admitted -/
theorem closed_run (k : Kcp) (ops : List Op) (hok : okRun k ops) (hi : Inv k) (hc : Closed k)
    (hq : allAfter (fun k' => k'.nocwnd = 0 ∧ k'.fastresend.sle 0 = true ∧ k'.snd_una = k.snd_una) k ops) :
    Closed (run k ops) ∧ (run k ops).snd_nxt = k.snd_nxt := by
  induction ops generalizing k with
  | nil => exact ⟨hc, rfl⟩
  | cons op rest ih =>
    obtain ⟨⟨h1, h2, h3⟩, hrest⟩ := hq
    have hs := closed_step k op hok.1 hi hc h1 h2 h3
    have := ih (step k op) hok.2 (step_inv k op hok.1 hi) hs.1 (by rw [h3]; exact hrest)
    exact ⟨this.1, this.2.trans hs.2⟩

/-- a full flush that retransmits by timeout closes the window (`cwnd = 1`, something in flight) -/
theorem closed_after_rto (k : Kcp) (now : U32) (hn : k.nocwnd = 0) (hf : k.fastresend.sle 0 = true)
    (hl : flushLost k now > 0) : Closed (flush k true now).k := by
  obtain ⟨pw, tp, st, ss, cw, inc, done, hk, hd⟩ := flush_k k true now
  have hcw := flush_rto_collapse k now hn hl
  have hlen : (flush k true now).k.snd_buf.length = (flushAd k now).buf.length := by
    rw [hk]; show done.length = _
    have := congrArg List.length hd
    simpa using this
  have hpos : 0 < (flushAd k now).buf.length := by
    unfold flushLost at hl
    exact Nat.lt_of_lt_of_le hl List.countP_le_length
  refine ⟨by rw [hk]; exact hn, by rw [hk]; exact hf, ?_, ?_⟩
  · intro he; rw [he] at hlen; simp at hlen; omega
  · rw [hcw, hlen]; exact hpos

end KcpVerif.Kcp
