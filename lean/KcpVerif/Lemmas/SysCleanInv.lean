/-
The clean-path invariant of the closed system (C18 Tier 2) and its preservation by the two halves
of the sender's events: processing a datagram of acknowledgements, and a FULL flush.

Ghost data: for each link the list of (arrival time, frames) whose encodings are the datagrams in
flight.  Sequence numbers are compared through their offset `o base ·` from the first sequence
number of the run; the run hypothesis `NoWrap` keeps the offsets below 2^31.
-/
import KcpVerif.Model.Sys
import KcpVerif.Lemmas.SysCleanB
import KcpVerif.Lemmas.KcpLiveOps

namespace KcpVerif.SysC
open KcpVerif KcpVerif.Gen KcpVerif.Kcp KcpVerif.Live KcpVerif.Wire KcpVerif.SysW KcpVerif.Sys

structure Par where
  base : U32      -- first sequence number of the run
  conv : U32
  M    : Nat      -- A's minimum RTO
  I    : Nat      -- B's flush interval
  W    : Nat      -- B's receive window

abbrev GLink := List (Nat × List Frm)

def encL (g : GLink) : List Dgram := g.map (fun d => ⟨d.1, encFrames d.2⟩)

def allFrs (g : GLink) : List Frm := (g.map (fun d => d.2)).flatten

/-- where the acknowledgement of the segment `sn` transmitted at time `t` is: its PUSH is on the way
to B; or B has listed the ACK and will flush it by `t + D + I`; or a frame whose `una` covers it is
on the way back and arrives by `t + 2D + I` -/
def Loc (p : Par) (s : State) (gab gba : GLink) (sn : U32) (t : Nat) : Prop :=
  (∃ d ∈ gab, d.1 = t + s.D ∧ ∃ fr ∈ d.2, fr.cmd.toNat = IKCP_CMD_PUSH ∧ fr.sn = sn) ∨
  ((∃ a ∈ s.B.acklist, a.sn = sn) ∧ s.nfB ≤ t + s.D + p.I) ∨
  (∃ d ∈ gba, d.1 ≤ t + 2 * s.D + p.I ∧ ∃ fr ∈ d.2, o p.base sn < o p.base fr.una)

def SegOk (p : Par) (s : State) (gab gba : GLink) (x : Seg) : Prop :=
  x.acked = false ∧ x.xmit = 1 ∧ x.fastack = 0 ∧ x.resendts = x.ts + x.rto ∧ p.M ≤ x.rto.toNat ∧
  x.rto.toNat ≤ 60000 ∧ ∃ t, x.ts = clk t ∧ t ≤ s.now ∧ Loc p s gab gba x.sn t

structure Clean (p : Par) (s : State) (gab gba : GLink) : Prop where
  hab : s.ab = encL gab
  hba : s.ba = encL gba
  tab : ∀ d ∈ gab, s.now ≤ d.1
  tba : ∀ d ∈ gba, s.now ≤ d.1
  tnf : s.now ≤ s.nfB ∧ s.nfB ≤ s.now + p.I
  par : 2 * s.D + p.I < p.M
  np  : s.panic = false
  aK  : Total.InvK s.A
  aconv : s.A.conv = p.conv
  aack : s.A.acklist = []
  amin : s.A.rx_minrto.toNat = p.M
  arto : p.M ≤ s.A.rx_rto.toNat ∧ s.A.rx_rto.toNat ≤ 60000
  aq  : ∀ x ∈ s.A.snd_queue, Fresh x
  asort : Sorted p.base s.A.snd_buf
  abnd : ∀ x ∈ s.A.snd_buf, o p.base x.sn < o p.base s.A.snd_nxt
  aseg : ∀ x ∈ s.A.snd_buf, SegOk p s gab gba x
  bK  : Total.InvK s.B
  bconv : s.B.conv = p.conv
  bsb : s.B.snd_buf = []
  bsq : s.B.snd_queue = []
  brb : s.B.rcv_buf = []
  bint : s.B.interval.toNat = p.I
  bw  : s.B.rcv_wnd.toNat = p.W ∧ p.W < 2 ^ 31
  back : ∀ a ∈ s.B.acklist, o p.base a.sn < o p.base s.B.rcv_nxt
  fab : ∀ d ∈ gab, ∀ fr ∈ d.2, fr.conv = p.conv ∧ DataLike fr
  fba : ∀ d ∈ gba, ∀ fr ∈ d.2, fr.conv = p.conv ∧ fr.data = [] ∧ AckLike p.base s.B.rcv_nxt fr
  ord : (pushes (allFrs gab)).map (fun fr => o p.base fr.sn) =
          List.range' (o p.base s.B.rcv_nxt) (pushes (allFrs gab)).length ∧
        o p.base s.B.rcv_nxt + (pushes (allFrs gab)).length = o p.base s.A.snd_nxt

/-- run hypothesis 1: fewer than 2^31 segments are queued over the whole run -/
def NoWrap (base : U32) (s : State) : Prop := o base s.A.snd_nxt + s.A.snd_queue.length < 2 ^ 31

/-- run hypothesis 2: the receive queue has room for everything A has sent and B has not yet taken
(what the window precondition of the property is there to guarantee) -/
def RoomOk (s : State) : Prop :=
  s.B.rcv_queue.length + (s.A.snd_nxt - s.B.rcv_nxt).toNat ≤ s.B.rcv_wnd.toNat

/-! ### small helpers -/

theorem quiet_of_age (now t : Nat) (rto : U32) (h1 : t ≤ now) (h2 : now - t < rto.toNat) (h3 : rto.toNat ≤ 60000) :
    itimediff (clk now) (clk t + rto) < 0 := by
  unfold itimediff clk
  simp only [BitVec.toInt_eq_toNat_cond]
  have e : (BitVec.ofNat 32 now - (BitVec.ofNat 32 t + rto)).toNat =
      (now % 2 ^ 32 + 2 ^ 32 - (t % 2 ^ 32 + rto.toNat) % 2 ^ 32) % 2 ^ 32 := by
    simp only [BitVec.toNat_sub, BitVec.toNat_add, BitVec.toNat_ofNat]; omega
  rw [e]
  split <;> omega

theorem encL_append (a b : GLink) : encL (a ++ b) = encL a ++ encL b := by simp [encL]

theorem stamp_groups (t : Nat) (gs : List (List Frm)) :
    stamp t (gs.map encFrames) = encL (gs.map (fun g => (t, g))) := by
  simp [stamp, encL, List.map_map]

theorem allFrs_append (a b : GLink) : allFrs (a ++ b) = allFrs a ++ allFrs b := by simp [allFrs]

theorem allFrs_groups (t : Nat) (gs : List (List Frm)) : allFrs (gs.map (fun g => (t, g))) = gs.flatten := by
  simp [allFrs, List.map_map, Function.comp_def]

theorem allFrs_cons (d : Nat × List Frm) (g : GLink) : allFrs (d :: g) = d.2 ++ allFrs g := by simp [allFrs]

theorem pushes_append (a b : List Frm) : pushes (a ++ b) = pushes a ++ pushes b := by simp [pushes]

theorem mem_groups {t : Nat} {gs : List (List Frm)} {fr : Frm} (h : fr ∈ gs.flatten) :
    ∃ d ∈ gs.map (fun g => (t, g)), d.1 = t ∧ fr ∈ d.2 := by
  obtain ⟨g, hg, hfr⟩ := List.mem_flatten.mp h
  exact ⟨(t, g), List.mem_map.mpr ⟨g, hg, rfl⟩, rfl, hfr⟩

theorem groups_mem {t : Nat} {gs : List (List Frm)} {d : Nat × List Frm} (h : d ∈ gs.map (fun g => (t, g))) :
    d.1 = t ∧ ∀ fr ∈ d.2, fr ∈ gs.flatten := by
  obtain ⟨g, hg, rfl⟩ := List.mem_map.mp h
  exact ⟨rfl, fun fr hfr => List.mem_flatten.mpr ⟨g, hg, hfr⟩⟩

/-- the age bound: an un-acknowledged transmitted segment is never older than `2D + I` -/
theorem Clean.age {p : Par} {s : State} {gab gba : GLink} (h : Clean p s gab gba) {x : Seg} (hx : SegOk p s gab gba x) :
    Quiet (clk s.now) x := by
  obtain ⟨h1, h2, h3, h4, h5, h6, t, ht, htn, hloc⟩ := hx
  have hage : s.now ≤ t + 2 * s.D + p.I := by
    rcases hloc with ⟨d, hd, hd1, _⟩ | ⟨_, hn⟩ | ⟨d, hd, hd1, _⟩
    · have := h.tab d hd; omega
    · have := h.tnf.1; omega
    · have := h.tba d hd; omega
  refine ⟨h1, h2, h3, ?_⟩
  rw [h4, ht]
  have := h.par
  exact quiet_of_age s.now t x.rto htn (by omega) h6

theorem Loc.mono {p : Par} {s s' : State} {gab gba gab' gba' : GLink} {sn : U32} {t : Nat}
    (h : Loc p s gab gba sn t) (hD : s'.D = s.D) (h1 : ∀ d ∈ gab, d ∈ gab') (h2 : ∀ d ∈ gba, d ∈ gba')
    (h3 : (∃ a ∈ s.B.acklist, a.sn = sn) ∧ s.nfB ≤ t + s.D + p.I →
          (∃ a ∈ s'.B.acklist, a.sn = sn) ∧ s'.nfB ≤ t + s.D + p.I) : Loc p s' gab' gba' sn t := by
  unfold Loc at *
  rw [hD]
  rcases h with ⟨d, hd, r⟩ | hb | ⟨d, hd, r⟩
  · exact Or.inl ⟨d, h1 d hd, r⟩
  · exact Or.inr (Or.inl (h3 hb))
  · exact Or.inr (Or.inr ⟨d, h2 d hd, r⟩)

/-! ### the segments a flush admits -/

theorem o_succ (base x : U32) (h : o base x + 1 < 2 ^ 32) : o base (x + 1) = o base x + 1 := by
  unfold o at *; bv_omega

/-- facts about the freshly admitted and transmitted segments -/
theorem stamp_facts (base : U32) (k : Kcp) (now : U32) : ∀ (l : List Seg) (nxt : U32),
    o base nxt + l.length < 2 ^ 31 →
    Sorted base ((stampSegs k.conv now nxt l).map (sendInit k now)) ∧
    (∀ y ∈ (stampSegs k.conv now nxt l).map (sendInit k now),
      o base nxt ≤ o base y.sn ∧ o base y.sn < o base nxt + l.length ∧ y.conv = k.conv ∧
      y.cmd = BitVec.ofNat 8 IKCP_CMD_PUSH ∧ y.ts = now ∧ y.rto = k.rx_rto ∧ y.resendts = now + k.rx_rto ∧
      ∃ q ∈ l, y.data = q.data ∧ y.xmit = q.xmit + 1 ∧ y.fastack = q.fastack ∧ y.acked = q.acked) ∧
    ((stampSegs k.conv now nxt l).map (sendInit k now)).map (fun y => o base y.sn) = List.range' (o base nxt) l.length := by
  intro l
  induction l with
  | nil => intro nxt _; simp [stampSegs, Sorted]
  | cons s r ih =>
    intro nxt hn
    simp only [List.length_cons] at hn
    have hs := o_succ base nxt (by omega)
    obtain ⟨i1, i2, i3⟩ := ih (nxt + 1) (by rw [hs]; omega)
    unfold stampSegs
    simp only [List.map_cons, List.length_cons]
    refine ⟨?_, ?_, ?_⟩
    · apply List.pairwise_cons.mpr
      refine ⟨fun y hy => ?_, i1⟩
      have := (i2 y hy).1
      show o base nxt < o base y.sn
      omega
    · intro y hy
      rcases List.mem_cons.mp hy with rfl | hy
      · exact ⟨Nat.le_refl _, by show o base nxt < _; omega, rfl, rfl, rfl, rfl, rfl,
          s, List.mem_cons_self .., rfl, rfl, rfl, rfl⟩
      · obtain ⟨a1, a2, a3, a4, a5, a6, a7, q, hq, a8⟩ := i2 y hy
        exact ⟨by omega, by omega, a3, a4, a5, a6, a7, q, List.mem_cons_of_mem _ hq, a8⟩
    · rw [i3, hs, List.range'_succ]
      rfl

/-! ### P2: a FULL flush of A -/

/-- the state after A flushes at the current time (the next-flush time is not part of the invariant) -/
def afterFlushA (s : State) (nf : Nat) : State :=
  { s with A := (s.A.flush true (clk s.now)).k, nfA := nf,
           ab := s.ab ++ stamp (s.now + s.D) (s.A.flush true (clk s.now)).outs,
           panic := s.panic || (s.A.flush true (clk s.now)).panic }

theorem clean_flushA {p : Par} {s : State} {gab gba : GLink} (h : Clean p s gab gba) (hnw : NoWrap p.base s) (nf : Nat) :
    ∃ gab', Clean p (afterFlushA s nf) gab' gba ∧
      (flX s.A true (clk s.now)).lost = 0 ∧ (flX s.A true (clk s.now)).change = 0 := by
  have hquiet : ∀ x ∈ s.A.snd_buf, Quiet (clk s.now) x := fun x hx => h.age (h.aseg x hx)
  obtain ⟨m, hm, f1, f2, f3, f4, f5, f6⟩ := flush_clean s.A (clk s.now) h.aq hquiet h.aack
  obtain ⟨hpan, hK, hal, hcfg⟩ := Total.flush_total h.aK true (clk s.now)
  obtain ⟨gs, hgs, hfl⟩ := flush_frames s.A true (clk s.now) hpan
  obtain ⟨pw, tp, st, ss, cw, inc, hk⟩ := flush_frame s.A true (clk s.now)
  unfold NoWrap at hnw
  have hlen : (s.A.snd_queue.take m).length = m := by rw [List.length_take]; omega
  obtain ⟨n1, n2, n3⟩ := stamp_facts p.base s.A (clk s.now) (s.A.snd_queue.take m) s.A.snd_nxt (by rw [hlen]; omega)
  rw [hlen] at n2 n3
  have hnxt : o p.base (s.A.snd_nxt + u32 m) = o p.base s.A.snd_nxt + m := o_add _ _ _ (by omega)
  -- names
  generalize hnew : (stampSegs s.A.conv (clk s.now) s.A.snd_nxt (s.A.snd_queue.take m)).map (sendInit s.A (clk s.now)) = new
    at f1 f4 n1 n2 n3
  have hpp : pushes (probeFrs s.A (clk s.now)) = [] := by
    unfold pushes
    apply List.filter_eq_nil_iff.mpr
    intro fr hfr
    have := (probeFrs_mem s.A (clk s.now) fr hfr).2.1
    simp only [decide_eq_true_eq]
    unfold IKCP_CMD_PUSH; unfold IKCP_CMD_WASK IKCP_CMD_WINS at this; omega
  have hpn : pushes (new.map frmOf) = new.map frmOf := by
    unfold pushes
    apply List.filter_eq_self.mpr
    intro fr hfr
    obtain ⟨y, hy, rfl⟩ := List.mem_map.mp hfr
    have := (n2 y hy).2.2.2.1
    simp only [decide_eq_true_eq]
    show y.cmd.toNat = _
    rw [this]; decide
  refine ⟨gab ++ gs.map (fun g => (s.now + s.D, g)), ?_, f5, f6⟩
  have hsub : ∀ d ∈ gab, d ∈ gab ++ gs.map (fun g => (s.now + s.D, g)) := fun d hd => List.mem_append_left _ hd
  constructor
  · show s.ab ++ stamp (s.now + s.D) (s.A.flush true (clk s.now)).outs = _
    rw [hgs, stamp_groups, encL_append, h.hab]
  · exact h.hba
  · intro d hd
    rcases List.mem_append.mp hd with hd | hd
    · exact h.tab d hd
    · have := (groups_mem hd).1
      show s.now ≤ d.1
      omega
  · exact h.tba
  · exact h.tnf
  · exact h.par
  · show (s.panic || (s.A.flush true (clk s.now)).panic) = false
    rw [h.np, hpan]; rfl
  · exact hK
  · show (s.A.flush true (clk s.now)).k.conv = _
    rw [hk]; exact h.aconv
  · exact hal
  · show (s.A.flush true (clk s.now)).k.rx_minrto.toNat = _
    rw [hk]; exact h.amin
  · show _ ≤ (s.A.flush true (clk s.now)).k.rx_rto.toNat ∧ (s.A.flush true (clk s.now)).k.rx_rto.toNat ≤ _
    rw [hk]; exact h.arto
  · show ∀ x ∈ (s.A.flush true (clk s.now)).k.snd_queue, Fresh x
    rw [f2]; exact fun x hx => h.aq x (List.mem_of_mem_drop hx)
  · show Sorted p.base (s.A.flush true (clk s.now)).k.snd_buf
    rw [f1]
    apply List.pairwise_append.mpr
    refine ⟨h.asort, n1, fun a ha b hb => ?_⟩
    have := h.abnd a ha
    have := (n2 b hb).1
    omega
  · show ∀ x ∈ (s.A.flush true (clk s.now)).k.snd_buf, o p.base x.sn < o p.base (s.A.flush true (clk s.now)).k.snd_nxt
    rw [f1, f3, hnxt]
    intro x hx
    rcases List.mem_append.mp hx with hx | hx
    · have := h.abnd x hx; omega
    · have := (n2 x hx).2.1; omega
  · show ∀ x ∈ (s.A.flush true (clk s.now)).k.snd_buf, SegOk p (afterFlushA s nf) _ gba x
    rw [f1]
    intro x hx
    rcases List.mem_append.mp hx with hx | hx
    · obtain ⟨a1, a2, a3, a4, a5, a6, t, ht, htn, hloc⟩ := h.aseg x hx
      exact ⟨a1, a2, a3, a4, a5, a6, t, ht, htn, hloc.mono rfl hsub (fun d hd => hd) id⟩
    · obtain ⟨b1, b2, b3, b4, b5, b6, b7, q, hq, c1, c2, c3, c4⟩ := n2 x hx
      have hfq := h.aq q (List.mem_of_mem_take hq)
      refine ⟨by rw [c4]; exact hfq.2.2, by rw [c2, hfq.1]; rfl, by rw [c3]; exact hfq.2.1, by rw [b7, b5, b6],
        by rw [b6]; exact h.arto.1, by rw [b6]; exact h.arto.2, s.now, b5, Nat.le_refl _, ?_⟩
      have hfr : frmOf x ∈ gs.flatten := by
        rw [hfl, f4]
        exact List.mem_append_right _ (List.mem_map.mpr ⟨x, hx, rfl⟩)
      obtain ⟨d, hd, hd1, hd2⟩ := mem_groups (t := s.now + s.D) hfr
      exact Or.inl ⟨d, List.mem_append_right _ hd, hd1, frmOf x, hd2, by show x.cmd.toNat = _; rw [b4]; decide, rfl⟩
  · exact h.bK
  · exact h.bconv
  · exact h.bsb
  · exact h.bsq
  · exact h.brb
  · exact h.bint
  · exact h.bw
  · exact h.back
  · intro d hd fr hfr
    rcases List.mem_append.mp hd with hd | hd
    · exact h.fab d hd fr hfr
    · have hin := (groups_mem hd).2 fr hfr
      rw [hfl, f4] at hin
      rcases List.mem_append.mp hin with hin | hin
      · obtain ⟨e1, e2, _, e4⟩ := probeFrs_mem s.A (clk s.now) fr hin
        exact ⟨by rw [e1]; exact h.aconv, Or.inr e2, by rw [e4]; simp⟩
      · obtain ⟨y, hy, rfl⟩ := List.mem_map.mp hin
        obtain ⟨b1, b2, b3, b4, b5, b6, b7, q, hq, c1, c2, c3, c4⟩ := n2 y hy
        refine ⟨by show y.conv = _; rw [b3]; exact h.aconv, Or.inl (by show y.cmd.toNat = _; rw [b4]; decide), ?_⟩
        show y.data.length ≤ mtuLimit
        rw [c1]
        exact Nat.le_trans (h.aK.sndq q (List.mem_of_mem_take hq)) h.aK.mss_le
  · exact h.fba
  · show (pushes (allFrs (gab ++ gs.map (fun g => (s.now + s.D, g))))).map (fun fr => o p.base fr.sn) = _ ∧
      _ = o p.base (s.A.flush true (clk s.now)).k.snd_nxt
    rw [show (afterFlushA s nf).B = s.B from rfl]
    rw [allFrs_append, allFrs_groups, hfl, f4, pushes_append, pushes_append, hpp, hpn, List.nil_append, f3, hnxt,
      List.map_append, List.length_append, List.map_map, List.length_map]
    have hl : new.length = m := by
      have := congrArg List.length n3
      simpa using this
    constructor
    · rw [h.ord.1]
      have : (fun fr => o p.base fr.sn) ∘ frmOf = fun y => o p.base y.sn := rfl
      rw [this, n3, hl, ← h.ord.2, List.range'_append_1]
    · have := h.ord.2
      rw [hl]
      omega

end KcpVerif.SysC
