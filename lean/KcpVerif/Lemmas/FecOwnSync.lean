/-
C15 (ownership, FEC decoder): erasure.  The decoder state, the recovered shards and the panic flag
of the instrumented `decodeO` are those of `Fec.Decoder.decode`, and forgetting the buffer ids of the
instrumented shard sets gives the model's shard sets.  Core Lean only.
-/
import KcpVerif.Lemmas.FecOwn

namespace KcpVerif.FecOwn
open KcpVerif KcpVerif.Gen KcpVerif.Fec KcpVerif.Own KcpVerif.Pool

theorem lookup_er (id : BitVec 32) (l : List SetO) : lookup id (erSets l) = (lookupO id l).map erS := by
  induction l with
  | nil => rfl
  | cons s rest ih =>
    show lookup id (erS s :: erSets rest) = _
    unfold lookup lookupO
    show (if s.id == id then _ else _) = _
    split
    · rfl
    · exact ih

theorem store_er (s : SetO) (l : List SetO) : store (erS s) (erSets l) = erSets (storeO s l) := by
  induction l with
  | nil => rfl
  | cons t rest ih =>
    show store (erS s) (erS t :: erSets rest) = _
    unfold store storeO
    show (if t.id == s.id then _ else _) = _
    split
    · rfl
    · show erS t :: store (erS s) (erSets rest) = erS t :: erSets (storeO s rest)
      rw [ih]

theorem discard_er (n : Nat) (newest : BitVec 32) (l : List SetO) (g : Ghost) :
    Fec.discard n newest (erSets l) = erSets (discardO n newest l g).sets := by
  induction l generalizing g with
  | nil => rfl
  | cons s rest ih =>
    unfold discardO
    show Fec.discard n newest (erS s :: erSets rest) = _
    unfold Fec.discard
    rw [List.filter_cons]
    show (if keeps n newest s.id = true then _ else _) = _
    split
    · show erS s :: Fec.discard n newest (erSets rest) = erS s :: erSets (discardO n newest rest g).sets
      rw [ih]
    · exact ih _

theorem getD_er (x : Option SetO) (id : BitVec 32) :
    (x.map erS).getD { id := id, pkts := [] } = erS (x.getD { id := id, pkts := [] }) := by
  cases x <;> rfl

theorem retune_sets (C : CodecNew) (dec : Decoder) (seq : BitVec 32) :
    (retune C dec seq).sets = if retuneChanges dec = true then [] else dec.sets := by
  unfold retune retuneChanges
  simp only []
  by_cases h1 : 0 < dec.tune.findPeriod true ∧ 0 < dec.tune.findPeriod false ∧
      dec.tune.findPeriod true + dec.tune.findPeriod false < 256
  · rw [if_pos h1]
    by_cases h2 : dec.tune.findPeriod true ≠ dec.d ∨ dec.tune.findPeriod false ≠ dec.p
    · rw [if_pos h2, if_pos (by simp only [decide_eq_true_eq]; exact ⟨h1.1, h1.2.1, h1.2.2, h2⟩)]
    · rw [if_neg h2, if_neg (by simp only [decide_eq_true_eq]; exact fun h => h2 h.2.2.2)]
  · rw [if_neg h1, if_neg (by simp only [decide_eq_true_eq]; exact fun h => h1 ⟨h.1, h.2.1, h.2.2.1⟩)]

theorem map_p_er (s : SetO) : (erS s).pkts = s.pkts.map (·.p) := rfl

/-- **Erasure of `decode`**: state, recovered shards and panic flag are the model's; the instrumented
shard sets are the model's with buffer ids attached. -/
theorem decodeO_er (C : CodecNew) (o : DecO) (inp : Fec.Bytes) (hs : o.dec.sets = erSets o.sets) :
    (decodeO C o inp).o.dec = (o.dec.decode C inp).st ∧
    (decodeO C o inp).recovered = (o.dec.decode C inp).recovered ∧
    (decodeO C o inp).panic = (o.dec.decode C inp).panic ∧
    (o.dec.decode C inp).st.sets = erSets (decodeO C o inp).o.sets := by
  unfold decodeO
  simp only []
  by_cases c1 : inp.length < fecHeaderSize
  · have hm : o.dec.decode C inp = { st := o.dec, recovered := [], panic := true } := by
      unfold Decoder.decode; rw [if_pos c1]
    rw [if_pos c1, hm]; exact ⟨rfl, rfl, rfl, hs⟩
  rw [if_neg c1]
  by_cases c2 : (seqid inp).toNat ≥ o.dec.paws.toNat
  · have hm : o.dec.decode C inp =
        { st := { o.dec with tune := o.dec.tune.sample (flag inp == typeData) (seqid inp) }, recovered := [] } := by
      unfold Decoder.decode; simp only []; rw [if_neg c1, if_pos c2]
    rw [if_pos c2, hm]; exact ⟨rfl, rfl, rfl, hs⟩
  rw [if_neg c2]
  by_cases c3 : (mismatch { o.dec with tune := o.dec.tune.sample (flag inp == typeData) (seqid inp) } inp ||
      o.dec.shouldTune) = true
  · have hm : o.dec.decode C inp =
        { st := retune C { o.dec with tune := o.dec.tune.sample (flag inp == typeData) (seqid inp) } (seqid inp),
          recovered := [] } := by
      unfold Decoder.decode; simp only []; rw [if_neg c1, if_neg c2, if_pos c3]
    rw [if_pos c3]
    have hr := retune_sets C { o.dec with tune := o.dec.tune.sample (flag inp == typeData) (seqid inp) } (seqid inp)
    split
    · rename_i hc
      rw [if_pos hc] at hr
      rw [hm]; exact ⟨rfl, rfl, rfl, hr⟩
    · rename_i hc
      rw [if_neg hc] at hr
      rw [hm]; exact ⟨rfl, rfl, rfl, hr.trans hs⟩
  rw [if_neg c3]
  -- the set the packet belongs to
  have hlk : (lookup (seqid inp / u32 o.dec.n) o.dec.sets).getD { id := seqid inp / u32 o.dec.n, pkts := [] } =
      erS ((lookupO (seqid inp / u32 o.dec.n) o.sets).getD { id := seqid inp / u32 o.dec.n, pkts := [] }) := by
    rw [hs, lookup_er, getD_er]
  generalize hset : (lookupO (seqid inp / u32 o.dec.n) o.sets).getD { id := seqid inp / u32 o.dec.n, pkts := [] } = set at hlk
  have hany : (erS set).pkts.any (fun q => seqid q == seqid inp) = set.pkts.any (fun q => seqid q.p == seqid inp) := by
    rw [map_p_er, List.any_map]; rfl
  by_cases c4 : set.pkts.any (fun q => seqid q.p == seqid inp) = true
  · have hm : o.dec.decode C inp =
        { st := { o.dec with tune := o.dec.tune.sample (flag inp == typeData) (seqid inp),
                             newest := if o.dec.sets.isEmpty then seqid inp / u32 o.dec.n else o.dec.newest },
          recovered := [] } := by
      unfold Decoder.decode; simp only []; rw [if_neg c1, if_neg c2, if_neg c3, hlk, hany, if_pos c4]
    rw [if_pos c4, hm]; exact ⟨rfl, rfl, rfl, hs⟩
  rw [if_neg c4]
  have hpl : (erS set).pkts ++ [inp] = (set.pkts ++ [(⟨inp, o.gh.next⟩ : PktO)]).map (·.p) := by
    rw [map_p_er, List.map_append]; rfl
  have hlen : ((erS set).pkts ++ [inp]).length = (set.pkts ++ [(⟨inp, o.gh.next⟩ : PktO)]).length := by
    rw [hpl, List.length_map]
  have hemp : o.dec.sets.isEmpty = o.sets.isEmpty := by
    rw [hs]; unfold erSets; cases o.sets <;> rfl
  -- the model's result in this branch
  have hm : o.dec.decode C inp =
      { st := { o.dec with
                tune := o.dec.tune.sample (flag inp == typeData) (seqid inp),
                sets := Fec.discard o.dec.n (newestAfter o.dec.n o.dec.sets.isEmpty (seqid inp / u32 o.dec.n) o.dec.newest)
                  (store { id := seqid inp / u32 o.dec.n,
                           pkts := if decide (((erS set).pkts ++ [inp]).length ≥ o.dec.d) = true then [] else (erS set).pkts ++ [inp] }
                    o.dec.sets),
                newest := newestAfter o.dec.n o.dec.sets.isEmpty (seqid inp / u32 o.dec.n) o.dec.newest },
        recovered := if decide (((erS set).pkts ++ [inp]).length ≥ o.dec.d) = true
          then recover { o.dec with tune := o.dec.tune.sample (flag inp == typeData) (seqid inp) } ((erS set).pkts ++ [inp]) else [],
        panic := decide (inp.length > mtuLimit) ||
          (decide (((erS set).pkts ++ [inp]).length ≥ o.dec.d) &&
            recoverPanics { o.dec with tune := o.dec.tune.sample (flag inp == typeData) (seqid inp) } ((erS set).pkts ++ [inp])) } := by
    unfold Decoder.decode; simp only []; rw [if_neg c1, if_neg c2, if_neg c3, hlk, hany, if_neg c4]; rfl
  have hsets_full : ∀ g, (o.dec.decode C inp).st.sets = erSets (discardO o.dec.n (newestAfter o.dec.n o.sets.isEmpty (seqid inp / u32 o.dec.n) o.dec.newest)
      (storeO { id := seqid inp / u32 o.dec.n, pkts := [] } o.sets) g).sets ∨
      ¬ (set.pkts ++ [(⟨inp, o.gh.next⟩ : PktO)]).length ≥ o.dec.d := by
    intro g
    by_cases hf : (set.pkts ++ [(⟨inp, o.gh.next⟩ : PktO)]).length ≥ o.dec.d
    · left
      rw [hm]
      show Fec.discard _ _ (store _ o.dec.sets) = _
      rw [hlen, if_pos (decide_eq_true hf), hemp, hs]
      rw [← discard_er _ _ _ g, ← store_er]; rfl
    · right; exact hf
  split
  · rename_i hf
    have hS := fun g => (hsets_full g).resolve_right (fun hn => hn hf)
    split
    · exact ⟨rfl, rfl, rfl, hS _⟩
    · split
      · exact ⟨rfl, rfl, rfl, hS _⟩
      · exact ⟨rfl, rfl, rfl, hS _⟩
  · rename_i hf
    refine ⟨rfl, rfl, rfl, ?_⟩
    rw [hm]
    show Fec.discard _ _ (store _ o.dec.sets) = _
    rw [hlen, if_neg (fun h => hf (of_decide_eq_true h)), hemp, hs, hpl]
    rw [← discard_er _ _ _ o.gh.get, ← store_er]; rfl

end KcpVerif.FecOwn
