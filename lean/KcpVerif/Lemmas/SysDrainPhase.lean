/-
The phases of the progress step of C02 on the repaired model, each for an ARBITRARY consistent state
(`Cons`) of the closed system:

* D — a frame whose `una` is beyond A's `snd_una` is input by A: `snd_una` moves at least to that `una`;
* C — B flushes with a non-empty ack list: a frame with `una = rcv_nxt` is on its way, arriving `D` later;
* A — A flushes when the timer of an un-acknowledged segment is due (or the segment was never sent):
  its PUSH is on its way, arriving `D` later.
-/
import KcpVerif.Lemmas.SysWedgeRepaired

namespace KcpVerif.SysC
open KcpVerif KcpVerif.Gen KcpVerif.Kcp KcpVerif.Live KcpVerif.Wire KcpVerif.SysW KcpVerif.Sys

/-! ### phase D: the cumulative acknowledgement arrives -/

/-- after dropping `n` leading segments and shrinking, `snd_una` is at least `n` further -/
theorem shrink_una_ge (base : U32) (k : Kcp) (n : Nat) (hn : n ≤ k.snd_buf.length) (hc : Contig base k) :
    o base k.snd_una + n ≤ o base (shrinkBuf { k with snd_buf := k.snd_buf.drop n }).snd_una := by
  obtain ⟨n2, hn2, e2, _⟩ := dropAcked_drop (k.snd_buf.drop n)
  rw [List.length_drop] at hn2
  have eD : dropAcked (k.snd_buf.drop n) = k.snd_buf.drop (n + n2) := by rw [e2, List.drop_drop]
  have hmapD : (k.snd_buf.drop (n + n2)).map (fun x => o base x.sn) =
      List.range' (o base k.snd_una + (n + n2)) (k.snd_buf.length - (n + n2)) := by
    rw [List.map_drop, hc.1, List.drop_range']; simp
  have hsu : o base (match k.snd_buf.drop (n + n2) with | s :: _ => s.sn | [] => k.snd_nxt) =
      o base k.snd_una + (n + n2) := by
    cases hd : k.snd_buf.drop (n + n2) with
    | nil =>
      simp only
      have hl := congrArg List.length hd
      simp only [List.length_drop, List.length_nil] at hl
      have := hc.2; omega
    | cons s t =>
      simp only
      rw [hd] at hmapD
      have hl := congrArg List.length hmapD
      simp only [List.map_cons, List.length_cons, List.length_range'] at hl
      have e : k.snd_buf.length - (n + n2) = (k.snd_buf.length - (n + n2) - 1) + 1 := by omega
      rw [e, List.map_cons, List.range'_succ, List.cons.injEq] at hmapD
      exact hmapD.1
  have hK : (shrinkBuf { k with snd_buf := k.snd_buf.drop n }).snd_una =
      match k.snd_buf.drop (n + n2) with | s :: _ => s.sn | [] => k.snd_nxt := by
    rw [shrinkBuf_eq]
    simp only [eD]
    rfl
  rw [hK, hsu]; omega

/-- one frame: `snd_una` ends at or beyond the frame's `una` -/
theorem inFr_snd_una_ge (base conv : U32) (hasP : U32 → Prop) (st : InLoop) (fr : Frm)
    (h : SndOk base conv hasP st.k) (hN : o base st.k.snd_nxt < 2 ^ 31)
    (hcmd : fr.cmd.toNat = IKCP_CMD_ACK ∨ fr.cmd.toNat = IKCP_CMD_WASK ∨ fr.cmd.toNat = IKCP_CMD_WINS)
    (hu : o base fr.una ≤ o base st.k.snd_nxt) (huna : ∀ sn, o base sn < o base fr.una → hasP sn)
    (hack : fr.cmd.toNat = IKCP_CMD_ACK → hasP fr.sn) :
    o base fr.una ≤ o base (inFr true st fr).k.snd_una := by
  by_cases hst : o base fr.una ≤ o base st.k.snd_una
  · have := (inFr_snd_gen base conv hasP st fr h hN hcmd (by omega) huna hack).2.2.1
    omega
  · have hcnt := unaCount_contig base fr.una st.k.snd_buf (o base st.k.snd_una) h.con.1 (by omega)
      (by have := h.con.2; omega) (by have := h.con.2; omega)
    have hP : inPre true fr.wnd fr.una st.k =
        shrinkBuf { ({ st.k with rmt_wnd := fr.wnd.setWidth 32 } : Kcp) with
          snd_buf := st.k.snd_buf.drop (unaCount fr.una st.k.snd_buf) } := rfl
    have h1 := shrink_una_ge base { st.k with rmt_wnd := fr.wnd.setWidth 32 } (unaCount fr.una st.k.snd_buf)
      (unaCount_le' _ _) h.con
    rw [← hP] at h1
    have h1' : o base st.k.snd_una + unaCount fr.una st.k.snd_buf ≤ o base (inPre true fr.wnd fr.una st.k).snd_una := h1
    -- the rest of the step only moves `snd_una` forward: apply the general lemma to the state after the prologue
    have hk : (inFr true st fr).k =
        if fr.cmd.toNat = IKCP_CMD_ACK then
          (parseFastack (shrinkBuf (parseAck (inPre true fr.wnd fr.una st.k) fr.sn)) fr.sn fr.ts).1
        else if fr.cmd.toNat = IKCP_CMD_WASK then
          { inPre true fr.wnd fr.una st.k with probe := (inPre true fr.wnd fr.una st.k).probe ||| u32 IKCP_ASK_TELL }
        else inPre true fr.wnd fr.una st.k := by
      unfold inFr
      rw [inStep_k]
      by_cases hA : fr.cmd.toNat = IKCP_CMD_ACK
      · rw [if_pos hA, if_pos hA]
      · have hP' : ¬ fr.cmd.toNat = IKCP_CMD_PUSH := by
          unfold IKCP_CMD_PUSH; unfold IKCP_CMD_ACK IKCP_CMD_WASK IKCP_CMD_WINS at hcmd; omega
        rw [if_neg hA, if_neg hP', if_neg hA]
    rw [hk]
    by_cases hA : fr.cmd.toNat = IKCP_CMD_ACK
    · rw [if_pos hA]
      obtain ⟨b, eb, mb⟩ := parseAck_rel (inPre true fr.wnd fr.una st.k) fr.sn
      obtain ⟨f1, _⟩ := mb.facts
      have hmap : b.map (fun x => o base x.sn) = (inPre true fr.wnd fr.una st.k).snd_buf.map (fun x => o base x.sn) := by
        have := congrArg (List.map (o base)) f1
        simpa [List.map_map, Function.comp_def] using this
      have hlen : b.length = (inPre true fr.wnd fr.una st.k).snd_buf.length := by
        have := congrArg List.length f1
        simpa using this
      -- Contig of the state after the prologue
      have hK1 : SndOk base conv hasP { st.k with rmt_wnd := fr.wnd.setWidth 32 } := ⟨h.con, h.tag, h.akd, h.rel⟩
      have hpre : ∀ x ∈ st.k.snd_buf.take (unaCount fr.una st.k.snd_buf), hasP x.sn := by
        intro x hx
        have h1 := unaCount_take fr.una st.k.snd_buf x hx
        have h2 := h.con.mem (List.mem_of_mem_take hx)
        have := itd base fr.una x.sn (by omega) (by omega)
        exact huna x.sn (by omega)
      obtain ⟨p1, _, _⟩ := hK1.shrink hN (unaCount fr.una st.k.snd_buf) (unaCount_le' _ _) hpre
      rw [← hP] at p1
      have hcb : Contig base ({ inPre true fr.wnd fr.una st.k with snd_buf := b } : Kcp) := by
        have := p1.con
        unfold Contig at this ⊢
        show b.map _ = List.range' (o base (inPre true fr.wnd fr.una st.k).snd_una) b.length ∧
          o base (inPre true fr.wnd fr.una st.k).snd_una + b.length = o base (inPre true fr.wnd fr.una st.k).snd_nxt
        rw [hmap, hlen]; exact this
      have h2 := shrink_una_ge base { inPre true fr.wnd fr.una st.k with snd_buf := b } 0 (Nat.zero_le _) hcb
      have e0 : shrinkBuf { ({ inPre true fr.wnd fr.una st.k with snd_buf := b } : Kcp) with
          snd_buf := ({ inPre true fr.wnd fr.una st.k with snd_buf := b } : Kcp).snd_buf.drop 0 } =
          shrinkBuf (parseAck (inPre true fr.wnd fr.una st.k) fr.sn) := by rw [eb]; rfl
      rw [e0] at h2
      obtain ⟨b2, eb2, _⟩ := parseFastack_rel fr.sn (shrinkBuf (parseAck (inPre true fr.wnd fr.una st.k) fr.sn)) fr.sn fr.ts
      rw [eb2]
      show _ ≤ o base (shrinkBuf (parseAck (inPre true fr.wnd fr.una st.k) fr.sn)).snd_una
      have h2' : o base (inPre true fr.wnd fr.una st.k).snd_una ≤
          o base (shrinkBuf (parseAck (inPre true fr.wnd fr.una st.k) fr.sn)).snd_una := by
        have : o base ({ inPre true fr.wnd fr.una st.k with snd_buf := b } : Kcp).snd_una + 0 ≤ _ := h2
        exact this
      omega
    · rw [if_neg hA]
      split
      · show _ ≤ o base (inPre true fr.wnd fr.una st.k).snd_una; omega
      · omega

/-- a whole datagram: `snd_una` ends at or beyond the `una` of every frame -/
theorem inFrs_snd_una_ge (base conv : U32) (hasP : U32 → Prop) (frs : List Frm) : ∀ (st : InLoop),
    SndOk base conv hasP st.k → o base st.k.snd_nxt < 2 ^ 31 → st.panic = false →
    (∀ fr ∈ frs, (fr.cmd.toNat = IKCP_CMD_ACK ∨ fr.cmd.toNat = IKCP_CMD_WASK ∨ fr.cmd.toNat = IKCP_CMD_WINS) ∧
      o base fr.una ≤ o base st.k.snd_nxt ∧ (∀ sn, o base sn < o base fr.una → hasP sn) ∧
      (fr.cmd.toNat = IKCP_CMD_ACK → hasP fr.sn)) →
    ∀ fr ∈ frs, o base fr.una ≤ o base (inFrs true frs st).k.snd_una := by
  induction frs with
  | nil => intro st _ _ _ _ fr hfr; simp at hfr
  | cons f rest ih =>
    intro st h hN hp hall fr hfr
    obtain ⟨c1, c2, c3, c4⟩ := hall f (List.mem_cons_self ..)
    obtain ⟨a1, a2, a3, a4, a5⟩ := inFr_snd_gen base conv hasP st f h hN c1 (by omega) c3 c4
    have hnx : (inFr true st f).k.snd_nxt = st.k.snd_nxt := by
      obtain ⟨r, sb, su, pr, e⟩ := a2
      rw [e]
    have hrest : ∀ x ∈ rest, (x.cmd.toNat = IKCP_CMD_ACK ∨ x.cmd.toNat = IKCP_CMD_WASK ∨ x.cmd.toNat = IKCP_CMD_WINS) ∧
        o base x.una < 2 ^ 31 ∧ (∀ sn, o base sn < o base x.una → hasP sn) ∧ (x.cmd.toNat = IKCP_CMD_ACK → hasP x.sn) := by
      intro x hx
      obtain ⟨d1, d2, d3, d4⟩ := hall x (List.mem_cons_of_mem _ hx)
      exact ⟨d1, by omega, d3, d4⟩
    obtain ⟨b1, b2, b3, b4, b5⟩ := inFrs_snd_gen base conv hasP rest (inFr true st f) a1 (by rw [hnx]; exact hN)
      (by rw [a4]; exact hp) hrest
    unfold inFrs
    rw [if_neg (by rw [a4, hp]; simp)]
    rcases List.mem_cons.mp hfr with rfl | hfr
    · have := inFr_snd_una_ge base conv hasP st fr h hN c1 c2 c3 c4
      omega
    · exact ih (inFr true st f) a1 (by rw [hnx]; exact hN) (by rw [a4]; exact hp)
        (fun x hx => by rw [hnx]; exact hall x (List.mem_cons_of_mem _ hx)) fr hfr

theorem inA_una (k0 : Kcp) (st : InLoop) (k1 : Kcp) (hk1 : k1 = st.k ∨ ∃ rtt, k1 = updateAck st.k rtt) (u : U32) :
    (cwndOnAck k1 u).snd_una = st.k.snd_una := by
  obtain ⟨cw, inc, hcw⟩ := cwndOnAck_shape' k1 u
  rw [hcw]
  rcases hk1 with rfl | ⟨rtt, rfl⟩
  · rfl
  · obtain ⟨a, b, r, he⟩ := updateAck_shape' st.k rtt
    rw [he]

theorem flush_una (k : Kcp) (full : Bool) (now : U32) : (flush k full now).k.snd_una = k.snd_una := by
  obtain ⟨pw, tp, st, ss, cw, inc, hk⟩ := flush_frame k full now
  rw [hk]

/-- **Phase D.**  In any consistent state, when A inputs the head datagram of the link B → A, its
`snd_una` ends at or beyond the `una` of every frame of that datagram — whatever else the datagram
contains, whatever the closing flush does. -/
theorem phase_D {p : Par} {s : State} {t0 : Nat} {frs : List Frm} {gab grest : GLink}
    (h : Cons p s gab ((t0, frs) :: grest)) (hnw : NoWrap p.base s) (hdue : t0 ≤ s.now) :
    ∀ fr ∈ frs, o p.base fr.una ≤ o p.base (Sys.step s .dlvA).A.snd_una := by
  intro fr hfr
  have hba : s.ba = ⟨t0, encFrames frs⟩ :: encL grest := h.hba
  rw [step_dlvA_cons s _ _ hba, if_pos hdue]
  have hne : frs ≠ [] := by intro hc; rw [hc] at hfr; simp at hfr
  have hd0 : ((t0, frs) : Nat × List Frm) ∈ (t0, frs) :: grest := List.mem_cons_self ..
  unfold NoWrap at hnw
  have hok : SndOk p.base p.conv (Has p.base s.B.rcv_nxt s.B.rcv_buf) s.A := ⟨h.acon, h.atag, h.ahas, h.arel⟩
  have hge := inFrs_snd_una_ge p.base p.conv (Has p.base s.B.rcv_nxt s.B.rcv_buf) frs { k := s.A } hok
    (by show o p.base s.A.snd_nxt < 2 ^ 31; omega) rfl (by
      intro x hx
      obtain ⟨_, _, e3, e4, e5⟩ := h.fba (t0, frs) hd0 x hx
      have := h.bub
      exact ⟨e3, by show _ ≤ o p.base s.A.snd_nxt; omega, fun sn hsn => Or.inl (by omega), e5⟩) fr hfr
  obtain ⟨hv, hp, hr, _, _, _, _⟩ := cons_inA h (by unfold NoWrap; exact hnw) (inFrs true frs { k := s.A }).k (Or.inl rfl)
  obtain ⟨k1, hk1, himp⟩ := inputA_cases s.A frs s.ndA (clk s.now) hv hp hr
  obtain ⟨_, _, _, hal, _, _, hclean⟩ := cons_inA h (by unfold NoWrap; exact hnw) k1 hk1
  have hu := inA_una s.A (inFrs true frs { k := s.A }) k1 hk1 s.A.snd_una
  rcases himp hal hclean.aK with hin | hin | ⟨hnil, _⟩
  · simp only [hin]
    show _ ≤ o p.base (cwndOnAck k1 s.A.snd_una).snd_una
    rw [hu]; exact hge
  · simp only [hin]
    show _ ≤ o p.base (flush (cwndOnAck k1 s.A.snd_una) true (clk s.now)).k.snd_una
    rw [flush_una, hu]; exact hge
  · exact absurd hnil hne

/-! ### phase C: B's flush carries `una = rcv_nxt` -/

/-- **Phase C.**  In any consistent state in which B owes an acknowledgement, B's flush (the scheduled
FULL one) appends a datagram to the link B → A that arrives `D` later and contains a frame with
`una = rcv_nxt` of B. -/
theorem phase_C {p : Par} {s : State} {gab gba : GLink} (h : Cons p s gab gba) (hack : s.B.acklist ≠ []) :
    ∃ fr0 frs0 pre post, (Sys.step s .flushB).ba = s.ba ++ pre ++ [⟨s.now + s.D, encFrames frs0⟩] ++ post ∧
      fr0 ∈ frs0 ∧ fr0.una = s.B.rcv_nxt := by
  obtain ⟨hfr, _⟩ := flush_empty s.B true (clk s.now) h.bsb h.bsq
  obtain ⟨hpan, _, _, _⟩ := Total.flush_total h.bK true (clk s.now)
  obtain ⟨gs, hgs, hfl⟩ := flush_frames s.B true (clk s.now) hpan
  rw [hfr] at hfl
  obtain ⟨fr0, rest0, hf0⟩ := List.exists_cons_of_ne_nil (ackFrsOf_ne_nil s.B hack)
  have hm0 : fr0 ∈ ackFrsOf s.B := by rw [hf0]; exact List.mem_cons_self ..
  have hin : fr0 ∈ gs.flatten := by rw [hfl]; exact List.mem_append_left _ hm0
  obtain ⟨g, hg, hfg⟩ := List.mem_flatten.mp hin
  obtain ⟨pre, post, hsplit⟩ := List.append_of_mem hg
  refine ⟨fr0, g, stamp (s.now + s.D) (pre.map encFrames), stamp (s.now + s.D) (post.map encFrames), ?_, hfg,
    (ackFrsOf_mem s.B fr0 hm0).2.2.1⟩
  show s.ba ++ stamp (s.now + s.D) (s.B.flush true (clk s.now)).outs = _
  rw [hgs, hsplit]
  simp [stamp, List.append_assoc]

/-! ### phase A: the retransmission is emitted -/

/-- **Phase A.**  In any consistent state, a FULL flush of A at a time when the timer of an
un-acknowledged segment of its send buffer is due — or the segment has never been sent — puts a
datagram on the link A → B that arrives `D` later and contains the PUSH of that segment.  No window,
no counter, no other segment can prevent it. -/
theorem phase_A {p : Par} {s : State} {gab gba : GLink} (h : Cons p s gab gba) (x : Seg) (hx : x ∈ s.A.snd_buf)
    (hna : x.acked = false) (hdue : x.xmit = 0 ∨ itimediff (clk s.now) x.resendts ≥ 0) :
    ∃ fr0 frs0 pre post, (Sys.step s .flushA).ab = s.ab ++ pre ++ [⟨s.now + s.D, encFrames frs0⟩] ++ post ∧
      fr0 ∈ frs0 ∧ fr0.cmd.toNat = IKCP_CMD_PUSH ∧ fr0.sn = x.sn := by
  obtain ⟨hpan, _, _, _⟩ := Total.flush_total h.aK true (clk s.now)
  obtain ⟨gs, hgs, hfl⟩ := flush_frames s.A true (clk s.now) hpan
  obtain ⟨t, ht⟩ := flAd_prefix s.A (clk s.now)
  have hxb : x ∈ (flAd s.A (clk s.now)).buf := by rw [ht]; exact List.mem_append_left _ hx
  have hc : cause (clk s.now) (resentOf s.A) (flAd s.A (clk s.now)).count x ≠ .none := by
    rcases hdue with h0 | hd
    · rw [(cause_initial_iff _ _ _ x).mpr h0]; exact fun c => by cases c
    · by_cases h0 : x.xmit = 0
      · rw [(cause_initial_iff _ _ _ x).mpr h0]; exact fun c => by cases c
      · rcases cause_due (clk s.now) (resentOf s.A) (flAd s.A (clk s.now)).count x h0 hd with e | e | e <;> rw [e] <;>
          exact fun c => by cases c
  have hsent : sentB (clk s.now) (resentOf s.A) (flAd s.A (clk s.now)).count x = true := by
    unfold sentB
    simp [hna, hc]
  have hfrm : frmOf (segAfter (clk s.now) (resentOf s.A) (wndUnused s.A) s.A.rcv_nxt (flAd s.A (clk s.now)).count
      s.A.rx_rto s.A.nodelay x) ∈ flushFrs s.A true (clk s.now) := by
    unfold flushFrs pushFrs
    simp only [↓reduceIte]
    apply List.mem_append_right
    exact List.mem_map.mpr ⟨x, List.mem_filter.mpr ⟨hxb, hsent⟩, rfl⟩
  rw [← hfl] at hfrm
  obtain ⟨g, hg, hfg⟩ := List.mem_flatten.mp hfrm
  obtain ⟨pre, post, hsplit⟩ := List.append_of_mem hg
  obtain ⟨i1, _, _, i4, _⟩ := segAfter_id (clk s.now) (resentOf s.A) (wndUnused s.A) s.A.rcv_nxt
    (flAd s.A (clk s.now)).count s.A.rx_rto s.A.nodelay x
  refine ⟨_, g, stamp (s.now + s.D) (pre.map encFrames), stamp (s.now + s.D) (post.map encFrames), ?_, hfg, ?_, i1⟩
  · show s.ab ++ stamp (s.now + s.D) (s.A.flush true (clk s.now)).outs = _
    rw [hgs, hsplit]
    simp [stamp, List.append_assoc]
  · show (segAfter _ _ _ _ _ _ _ x).cmd.toNat = _
    rw [i4, (h.atag x hx).2]; decide

end KcpVerif.SysC
