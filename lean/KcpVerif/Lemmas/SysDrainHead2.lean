/-
The progress step of C02 for the head segment in general, composed (repaired model, arbitrary
consistent states, B not behind A's head): the return path with `Owe` / `Rel`.
-/
import KcpVerif.Lemmas.SysDrainHead

namespace KcpVerif.SysC
open KcpVerif KcpVerif.Gen KcpVerif.Kcp KcpVerif.Live KcpVerif.Wire KcpVerif.SysW KcpVerif.Sys

/-- a PUSH of the segment `U` anywhere in the datagram, at a receiver that is not behind `U` and has a
window of at least one segment: after the loop the ack list holds an entry for `U` -/
theorem inFrs_head_push_listed (base : U32) (U N : Nat) (hN : N < 2 ^ 30) (frs : List Frm) : ∀ (st : InLoop),
    st.k.snd_buf = [] → (∀ fr ∈ frs, DataLike fr ∧ (fr.cmd.toNat = IKCP_CMD_PUSH → o base fr.sn < N)) →
    o base st.k.rcv_nxt ≤ N → (∀ x ∈ st.k.rcv_buf, o base x.sn < N) → st.panic = false →
    st.k.rcv_wnd.toNat < 2 ^ 30 → 0 < st.k.rcv_wnd.toNat → U ≤ o base st.k.rcv_nxt →
    (∃ fr ∈ frs, fr.cmd.toNat = IKCP_CMD_PUSH ∧ o base fr.sn = U) →
    ∃ a ∈ (inFrs true frs st).k.acklist, o base a.sn = U := by
  induction frs with
  | nil => intro st _ _ _ _ _ _ _ _ ⟨fr, hfr, _⟩; simp at hfr
  | cons f rest ih =>
    intro st h1 hall h2 h3 hp hw hw0 hU ⟨fr, hfr, hpush, hsn⟩
    obtain ⟨hdl, hsnb⟩ := hall f (List.mem_cons_self ..)
    obtain ⟨s1, s2⟩ := inFr_rcv_gen base N (by omega) st f h1 hdl hsnb h2 h3 hp
    unfold inFrs
    rw [if_neg (by rw [s2]; simp)]
    rcases List.mem_cons.mp hfr with rfl | hfr
    · have hwin : itimediff fr.sn (st.k.rcv_nxt + st.k.rcv_wnd) < 0 := by
        have e : o base (st.k.rcv_nxt + st.k.rcv_wnd) = o base st.k.rcv_nxt + st.k.rcv_wnd.toNat := by
          have := o_add base st.k.rcv_nxt st.k.rcv_wnd.toNat (by omega)
          unfold u32 at this
          rw [BitVec.ofNat_toNat, BitVec.setWidth_eq] at this
          exact this
        have := itd base fr.sn (st.k.rcv_nxt + st.k.rcv_wnd) (by omega) (by rw [e]; omega)
        rw [e] at this
        omega
      have hl : (inFr true st fr).k.acklist = st.k.acklist ++ [⟨fr.sn, fr.ts⟩] :=
        inStep_push_acklist _ _ _ _ _ _ _ _ _ _ hpush hwin
      obtain ⟨t, ht⟩ := inFrs_acklist_mono rest (inFr true st fr)
      refine ⟨⟨fr.sn, fr.ts⟩, ?_, hsn⟩
      rw [ht, hl]
      simp
    · exact ih (inFr true st f) s1.sb (fun x hx => hall x (List.mem_cons_of_mem _ hx)) s1.hi s1.bnd s2
        (by rw [s1.rw]; exact hw) (by rw [s1.rw]; exact hw0) (by have := s1.lo; omega) ⟨fr, hfr, hpush, hsn⟩

/-- `Owe` survives the parse loop -/
theorem owe_inFrs (base : U32) (U N : Nat) (hN : N < 2 ^ 31) (frs : List Frm) (k : Kcp) (h1 : k.snd_buf = [])
    (hall : ∀ fr ∈ frs, DataLike fr ∧ (fr.cmd.toNat = IKCP_CMD_PUSH → o base fr.sn < N))
    (h2 : o base k.rcv_nxt ≤ N) (h3 : ∀ x ∈ k.rcv_buf, o base x.sn < N) (ho : Owe base U k) :
    Owe base U (inFrs true frs { k := k }).k := by
  obtain ⟨r1, _, _, _, _⟩ := inFrs_rcv_gen base N hN frs { k := k } h1 hall h2 h3 rfl
  obtain ⟨t, ht⟩ := inFrs_acklist_mono frs { k := k }
  have hlo : o base k.rcv_nxt ≤ o base (inFrs true frs { k := k }).k.rcv_nxt := r1.lo
  rcases ho with ⟨a1, a2⟩ | ⟨a, ha, hau⟩
  · left
    refine ⟨by omega, ?_⟩
    rw [ht]
    intro hc
    exact a2 (List.append_eq_nil_iff.mp hc).1
  · right
    exact ⟨a, by rw [ht]; exact List.mem_append_left _ ha, hau⟩

/-- B's `Input` of the head datagram, given that B owes for `U` after the parse loop: it still owes, or
the frame that releases `U` is on its way -/
theorem dlvB_owe {p : Par} {s : State} {t0 : Nat} {frs : List Frm} {grest gba : GLink}
    (h : Cons p s ((t0, frs) :: grest) gba) (hnw : NoWrap p.base s) (U : Nat)
    (hloop : Owe p.base U (inFrs true frs { k := s.B }).k) (hU : U ≤ o p.base s.B.rcv_nxt) :
    (U ≤ o p.base (s.B.input (encFrames frs) true s.ndB (clk s.now)).k.rcv_nxt ∧
      Owe p.base U (s.B.input (encFrames frs) true s.ndB (clk s.now)).k ∧
      (s.B.input (encFrames frs) true s.ndB (clk s.now)).outs = []) ∨
    (∃ g, ⟨s.now + s.D, encFrames g⟩ ∈ stamp (s.now + s.D) (s.B.input (encFrames frs) true s.ndB (clk s.now)).outs ∧
      (∀ fr ∈ g, fr.data.length ≤ mtuLimit) ∧ ∃ fr ∈ g, Rel p.base U fr) := by
  have hnw' := hnw
  unfold NoWrap at hnw'
  have hN : o p.base s.A.snd_nxt < 2 ^ 31 := by omega
  have hd0 : ((t0, frs) : Nat × List Frm) ∈ (t0, frs) :: grest := List.mem_cons_self ..
  have hv : ∀ fr ∈ frs, FrValid s.B.conv fr := by
    intro fr hfr
    obtain ⟨e1, e2, _⟩ := h.fab (t0, frs) hd0 fr hfr
    refine ⟨by rw [e1, h.bconv], ?_, e2.2⟩
    unfold Live.validCmd
    rcases e2.1 with e | e | e
    · exact Or.inl e
    · exact Or.inr (Or.inr (Or.inl e))
    · exact Or.inr (Or.inr (Or.inr e))
  obtain ⟨r1, r2, r3, r4, r5⟩ := inFrs_rcv_gen p.base (o p.base s.A.snd_nxt) hN frs { k := s.B } h.bsb
    (fun fr hfr => ⟨(h.fab (t0, frs) hd0 fr hfr).2.1, (h.fab (t0, frs) hd0 fr hfr).2.2⟩) h.bub h.bbuf rfl
  obtain ⟨cw, inc, hcw⟩ := cwndOnAck_shape' (inFrs true frs { k := s.B }).k s.B.snd_una
  have hK2o : Owe p.base U (cwndOnAck (inFrs true frs { k := s.B }).k s.B.snd_una) := by rw [hcw]; exact hloop
  have hK2n : U ≤ o p.base (cwndOnAck (inFrs true frs { k := s.B }).k s.B.snd_una).rcv_nxt := by
    rw [hcw]
    show U ≤ o p.base (inFrs true frs { k := s.B }).k.rcv_nxt
    have : o p.base s.B.rcv_nxt ≤ o p.base (inFrs true frs { k := s.B }).k.rcv_nxt := r1.lo
    omega
  have hK2sb : (cwndOnAck (inFrs true frs { k := s.B }).k s.B.snd_una).snd_buf = [] := by rw [hcw]; exact r1.sb
  have hK2sq : (cwndOnAck (inFrs true frs { k := s.B }).k s.B.snd_una).snd_queue = [] := by
    rw [hcw]; exact r1.sq.trans h.bsq
  have hKl : Total.InvK (inFrs true frs { k := s.B }).k := by
    have := (Total.inputLoop_ok true ((encFrames frs).length / IKCP_OVERHEAD + 1) (encFrames frs) { k := s.B } rfl rfl).2.2
    have e := inSt_encFrames s.B frs true hv
    unfold inSt at e
    rw [e] at this
    exact h.bK.of_pres this
  have hKm : Total.InvK (cwndOnAck (inFrs true frs { k := s.B }).k s.B.snd_una) :=
    hKl.of_pres (Total.cwndOnAck_pres _ _)
  rcases inputB_cases s.B frs s.ndB (clk s.now) hv r2 r3 r4 r5 with hin | hin | ⟨rfl, hin⟩
  · left
    rw [hin]; exact ⟨hK2n, hK2o, rfl⟩
  · right
    rw [hin]
    generalize cwndOnAck (inFrs true frs { k := s.B }).k s.B.snd_una = K2 at hK2o hK2n hK2sb hK2sq hKm
    obtain ⟨hfr, _⟩ := flush_empty K2 false (clk s.now) hK2sb hK2sq
    obtain ⟨hpan, _, _, _⟩ := Total.flush_total hKm false (clk s.now)
    obtain ⟨gs, hgs, hfl⟩ := flush_frames K2 false (clk s.now) hpan
    rw [hfr] at hfl
    obtain ⟨fr0, hm0, hrel0⟩ := owe_flush p.base U K2 hK2o hK2n
    have hin' : fr0 ∈ gs.flatten := by rw [hfl]; exact List.mem_append_left _ hm0
    obtain ⟨g, hg, hfg⟩ := List.mem_flatten.mp hin'
    refine ⟨g, ?_, ?_, fr0, hfg, hrel0⟩
    · show _ ∈ stamp (s.now + s.D) (flush K2 false (clk s.now)).outs
      rw [hgs]
      unfold stamp
      exact List.mem_map.mpr ⟨encFrames g, List.mem_map.mpr ⟨g, hg, rfl⟩, rfl⟩
    · intro fr hfr'
      have : fr ∈ gs.flatten := List.mem_flatten.mpr ⟨g, hg, hfr'⟩
      rw [hfl] at this
      rcases List.mem_append.mp this with hx | hx
      · rw [(ackFrsOf_mem K2 fr hx).2.2.2.1]; simp
      · rw [(probeFrs_mem K2 (clk s.now) fr hx).2.2.2]; simp
  · left
    rw [hin]
    exact ⟨hU, hloop, rfl⟩

/-- a datagram on its way to A, arriving by `T`, with a frame that releases `U` -/
def CarrierH (base : U32) (U T : Nat) (s : State) : Prop :=
  ∃ d ∈ s.ba, d.arr ≤ T ∧ ∃ frs, d.data = encFrames frs ∧ (∀ fr ∈ frs, fr.data.length ≤ mtuLimit) ∧
    ∃ fr ∈ frs, Rel base U fr

def RetH (p : Par) (U T : Nat) (s : State) : Prop :=
  U < o p.base s.A.snd_una ∨
  (U ≤ o p.base s.B.rcv_nxt ∧ Owe p.base U s.B ∧ s.nfB ≤ T ∧ s.now ≤ T) ∨
  (CarrierH p.base U (T + s.D) s ∧ s.now ≤ T + s.D)

theorem retH_step {p : Par} {s : State} {gab gba : GLink} (h : Cons p s gab gba) (hnw : NoWrap p.base s) (U T : Nat)
    (hUa : U ≤ o p.base s.A.snd_una) (hr : RetH p U T s) (ev : Ev) : RetH p U T (Sys.step s ev) := by
  have hD : (Sys.step s ev).D = s.D := step_D s ev
  have hmono := una_mono_step h hnw ev
  unfold RetH at hr ⊢
  rw [hD]
  rcases hr with hG | hP3 | hP4
  · exact Or.inl (by omega)
  · obtain ⟨q1, q2, q3, q4⟩ := hP3
    cases ev with
    | tick =>
      rw [show Sys.step s .tick = (if quiet s then { s with now := s.now + 1 } else s) from rfl]
      split
      · rename_i hq
        unfold quiet at hq
        simp only [Bool.and_eq_true, List.all_eq_true, decide_eq_true_eq] at hq
        exact Or.inr (Or.inl ⟨q1, q2, q3, by show s.now + 1 ≤ T; omega⟩)
      · exact Or.inr (Or.inl ⟨q1, q2, q3, q4⟩)
    | send b => exact Or.inr (Or.inl ⟨q1, q2, q3, q4⟩)
    | read =>
      rw [show Sys.step s .read = (if (s.B.recv s.B.peekSize.toNat).n < 0 then s
        else { s with B := (s.B.recv s.B.peekSize.toNat).k, got := s.got ++ (s.B.recv s.B.peekSize.toNat).data }) from rfl]
      split
      · exact Or.inr (Or.inl ⟨q1, q2, q3, q4⟩)
      · have hnw' := hnw
        unfold NoWrap at hnw'
        have hs := recv_rcvStep p.base (o p.base s.A.snd_nxt) (by omega) s.B s.B.peekSize.toNat h.bsb h.bub h.bbuf
        have hlo := hs.lo
        refine Or.inr (Or.inl ⟨?_, ?_, q3, q4⟩)
        · show U ≤ o p.base (s.B.recv s.B.peekSize.toNat).k.rcv_nxt; omega
        · show Owe p.base U (s.B.recv s.B.peekSize.toNat).k
          unfold Owe at q2 ⊢
          rw [recv_acklist]
          rcases q2 with ⟨a1, a2⟩ | hx
          · exact Or.inl ⟨by omega, a2⟩
          · exact Or.inr hx
    | flushA => exact Or.inr (Or.inl ⟨q1, q2, q3, q4⟩)
    | flushB =>
      obtain ⟨hfr, _⟩ := flush_empty s.B true (clk s.now) h.bsb h.bsq
      obtain ⟨hpan, _, _, _⟩ := Total.flush_total h.bK true (clk s.now)
      obtain ⟨gs, hgs, hfl⟩ := flush_frames s.B true (clk s.now) hpan
      rw [hfr] at hfl
      obtain ⟨fr0, hm0, hrel0⟩ := owe_flush p.base U s.B q2 q1
      have hin' : fr0 ∈ gs.flatten := by rw [hfl]; exact List.mem_append_left _ hm0
      obtain ⟨g, hg, hfg⟩ := List.mem_flatten.mp hin'
      refine Or.inr (Or.inr ⟨⟨⟨s.now + s.D, encFrames g⟩, ?_, by show s.now + s.D ≤ T + s.D; omega, g, rfl, ?_, fr0, hfg,
        hrel0⟩, by show s.now ≤ T + s.D; omega⟩)
      · show _ ∈ s.ba ++ stamp (s.now + s.D) (s.B.flush true (clk s.now)).outs
        rw [hgs]
        apply List.mem_append_right
        unfold stamp
        exact List.mem_map.mpr ⟨encFrames g, List.mem_map.mpr ⟨g, hg, rfl⟩, rfl⟩
      · intro fr hfr'
        have : fr ∈ gs.flatten := List.mem_flatten.mpr ⟨g, hg, hfr'⟩
        rw [hfl] at this
        rcases List.mem_append.mp this with hx | hx
        · rw [(ackFrsOf_mem s.B fr hx).2.2.2.1]; simp
        · rw [(probeFrs_mem s.B (clk s.now) fr hx).2.2.2]; simp
    | dlvB =>
      cases gab with
      | nil =>
        have : Sys.step s .dlvB = s := by simp only [Sys.step, h.hab, encL, List.map_nil]
        rw [this]; exact Or.inr (Or.inl ⟨q1, q2, q3, q4⟩)
      | cons d0 grest =>
        obtain ⟨t0, frs⟩ := d0
        have hab : s.ab = ⟨t0, encFrames frs⟩ :: encL grest := h.hab
        rw [step_dlvB_cons s _ _ hab]
        split
        · have hnw' := hnw
          unfold NoWrap at hnw'
          have hd0 : ((t0, frs) : Nat × List Frm) ∈ (t0, frs) :: grest := List.mem_cons_self ..
          have hloop := owe_inFrs p.base U (o p.base s.A.snd_nxt) (by omega) frs s.B h.bsb
            (fun fr hfr => ⟨(h.fab (t0, frs) hd0 fr hfr).2.1, (h.fab (t0, frs) hd0 fr hfr).2.2⟩) h.bub h.bbuf q2
          rcases dlvB_owe h hnw U hloop q1 with ⟨c1, c2, c3⟩ | ⟨g, c1, c2, c3⟩
          · exact Or.inr (Or.inl ⟨c1, c2, q3, q4⟩)
          · exact Or.inr (Or.inr ⟨⟨⟨s.now + s.D, encFrames g⟩, List.mem_append_right _ c1,
              by show s.now + s.D ≤ T + s.D; omega, g, rfl, c2, c3⟩, by show s.now ≤ T + s.D; omega⟩)
        · exact Or.inr (Or.inl ⟨q1, q2, q3, q4⟩)
    | dlvA =>
      cases hba : s.ba with
      | nil =>
        have : Sys.step s .dlvA = s := by simp only [Sys.step, hba]
        rw [this]; exact Or.inr (Or.inl ⟨q1, q2, q3, q4⟩)
      | cons d rest =>
        rw [step_dlvA_cons s _ _ hba]
        split
        · exact Or.inr (Or.inl ⟨q1, q2, q3, q4⟩)
        · exact Or.inr (Or.inl ⟨q1, q2, q3, q4⟩)
  · obtain ⟨hc, hn⟩ := hP4
    have keep : ∀ s' : State, (∀ d ∈ s.ba, d ∈ s'.ba) → s'.now = s.now →
        U < o p.base s'.A.snd_una ∨ (U ≤ o p.base s'.B.rcv_nxt ∧ Owe p.base U s'.B ∧ s'.nfB ≤ T ∧ s'.now ≤ T) ∨
          (CarrierH p.base U (T + s.D) s' ∧ s'.now ≤ T + s.D) := by
      intro s' hsub hnow
      obtain ⟨d, hd, r⟩ := hc
      exact Or.inr (Or.inr ⟨⟨d, hsub d hd, r⟩, by rw [hnow]; exact hn⟩)
    cases ev with
    | tick =>
      rw [show Sys.step s .tick = (if quiet s then { s with now := s.now + 1 } else s) from rfl]
      split
      · rename_i hq
        unfold quiet at hq
        simp only [Bool.and_eq_true, List.all_eq_true, decide_eq_true_eq] at hq
        obtain ⟨d, hd, hda, r⟩ := hc
        have := hq.1.1.1.2 d hd
        exact Or.inr (Or.inr ⟨⟨d, hd, hda, r⟩, by show s.now + 1 ≤ T + s.D; omega⟩)
      · exact keep s (fun d hd => hd) rfl
    | send b => exact keep _ (fun d hd => hd) rfl
    | read =>
      rw [show Sys.step s .read = (if (s.B.recv s.B.peekSize.toNat).n < 0 then s
        else { s with B := (s.B.recv s.B.peekSize.toNat).k, got := s.got ++ (s.B.recv s.B.peekSize.toNat).data }) from rfl]
      split
      · exact keep s (fun d hd => hd) rfl
      · exact keep _ (fun d hd => hd) rfl
    | flushA => exact keep _ (fun d hd => hd) rfl
    | flushB => exact keep _ (fun d hd => List.mem_append_left _ hd) rfl
    | dlvB =>
      cases hab : s.ab with
      | nil =>
        have : Sys.step s .dlvB = s := by simp only [Sys.step, hab]
        rw [this]; exact keep s (fun d hd => hd) rfl
      | cons d rest =>
        rw [step_dlvB_cons s _ _ hab]
        split
        · exact keep _ (fun d hd => List.mem_append_left _ hd) rfl
        · exact keep s (fun d hd => hd) rfl
    | dlvA =>
      cases gba with
      | nil =>
        have : Sys.step s .dlvA = s := by simp only [Sys.step, h.hba, encL, List.map_nil]
        rw [this]; exact keep s (fun d hd => hd) rfl
      | cons d0 grest =>
        obtain ⟨t0, frs⟩ := d0
        have hba : s.ba = ⟨t0, encFrames frs⟩ :: encL grest := h.hba
        by_cases hdue : t0 ≤ s.now
        · obtain ⟨d, hd, hda, frs', hdd, hval, fr, hfr, hfu⟩ := hc
          rw [hba] at hd
          rcases List.mem_cons.mp hd with rfl | hd
          · have hfe : frs' = frs := by
              apply encFrames_inj frs' frs hval
              · intro x hx
                rw [(h.fba (t0, frs) (List.mem_cons_self ..) x hx).2.1]; simp
              · exact hdd.symm
            rw [hfe] at hfr
            exact Or.inl (phase_D_rel h hnw hdue U hUa ⟨fr, hfr, hfu⟩)
          · rw [step_dlvA_cons s _ _ hba, if_pos hdue]
            exact Or.inr (Or.inr ⟨⟨d, hd, hda, frs', hdd, hval, fr, hfr, hfu⟩, hn⟩)
        · rw [step_dlvA_cons s _ _ hba, if_neg hdue]
          exact keep s (fun d hd => hd) rfl

end KcpVerif.SysC
