/-
Semantics of the list-based rows and matrices of `Model/RS` over the field `GF` of
`Lemmas/GF256Field`: entries (`ent`), `scaleRow`, `addRow`, `elim`, `combine` as linear
operations, and the Mathlib matrix `toM r c m` of a list matrix.
-/
import KcpVerif.Model.RS
import KcpVerif.Lemmas.GF256Field
import Mathlib.LinearAlgebra.Matrix.NonsingularInverse

namespace KcpVerif.Lemmas.RSRows
open KcpVerif.RS KcpVerif.GF256
open KcpVerif.Lemmas.GF256 (GF)

/-- entry `j` of a row as a field element (`0` outside the row) -/
def ent (r : List UInt8) (j : Nat) : GF := GF.of (r.getD j 0)

theorem ent_of_le {r : List UInt8} {j : Nat} (h : r.length ≤ j) : ent r j = 0 := by
  unfold ent; rw [List.getD_eq_getElem?_getD, List.getElem?_eq_none h]; rfl

theorem ent_nil (j : Nat) : ent [] j = 0 := rfl

@[simp] theorem ent_cons_zero (a : UInt8) (r : List UInt8) : ent (a :: r) 0 = GF.of a := rfl
@[simp] theorem ent_cons_succ (a : UInt8) (r : List UInt8) (j : Nat) : ent (a :: r) (j + 1) = ent r j := rfl

theorem ext_ent {r s : List UInt8} (hl : r.length = s.length) (h : ∀ j < r.length, ent r j = ent s j) :
    r = s := by
  apply List.ext_getElem hl
  intro j h1 h2
  have := h j h1
  unfold ent at this
  rw [List.getD_eq_getElem?_getD, List.getD_eq_getElem?_getD, List.getElem?_eq_getElem h1,
    List.getElem?_eq_getElem h2] at this
  exact this

@[simp] theorem length_scaleRow (a : UInt8) (r : Row) : (scaleRow a r).length = r.length := by
  simp [scaleRow]

theorem length_addRow (r s : Row) : (addRow r s).length = min r.length s.length := by
  simp [addRow]

theorem length_addRow_eq {r s : Row} (h : r.length = s.length) : (addRow r s).length = r.length := by
  rw [length_addRow, h, Nat.min_self]

theorem ent_scaleRow (a : UInt8) (r : Row) (j : Nat) : ent (scaleRow a r) j = GF.of a * ent r j := by
  unfold ent scaleRow
  rw [List.getD_eq_getElem?_getD, List.getD_eq_getElem?_getD, List.getElem?_map]
  cases r[j]? with
  | none => exact (KcpVerif.Lemmas.GF256.mul_zero a).symm
  | some x => rfl

theorem ent_addRow {r s : Row} (h : r.length = s.length) (j : Nat) :
    ent (addRow r s) j = ent r j + ent s j := by
  unfold ent addRow
  rw [List.getD_eq_getElem?_getD, List.getD_eq_getElem?_getD, List.getD_eq_getElem?_getD,
    List.getElem?_zipWith]
  by_cases hj : j < r.length
  · rw [List.getElem?_eq_getElem hj, List.getElem?_eq_getElem (h ▸ hj)]; rfl
  · rw [List.getElem?_eq_none (by omega), List.getElem?_eq_none (by omega)]; rfl

theorem length_elim {c : Nat} {piv r : Row} (h : r.length = piv.length) :
    (elim c piv r).length = r.length := by
  unfold elim
  split
  · rfl
  · rw [length_addRow_eq (by rw [length_scaleRow]; exact h)]

/-- `elim` subtracts (= adds, characteristic 2) the multiple of the pivot row that clears column `c` -/
theorem ent_elim {c : Nat} {piv r : Row} (h : r.length = piv.length) (j : Nat) :
    ent (elim c piv r) j = ent r j + ent r c * ent piv j := by
  unfold elim
  split
  · rename_i h0
    have : ent r c = 0 := by
      unfold ent; rw [beq_iff_eq] at h0; rw [h0]; rfl
    rw [this, zero_mul, add_zero]
  · rw [ent_addRow (by rw [length_scaleRow]; exact h), ent_scaleRow]; rfl

/-! ### `combine` -/

theorem length_combine (len : Nat) (a : Row) (ss : List Shard) (h : ∀ s ∈ ss, s.length = len) :
    (combine len a ss).length = len := by
  induction a generalizing ss with
  | nil => simp [combine]
  | cons x a ih =>
    cases ss with
    | nil => simp [combine]
    | cons s ss =>
      have hs : s.length = len := h s (by simp)
      have hss : ∀ t ∈ ss, t.length = len := fun t ht => h t (by simp [ht])
      simp only [combine]
      split
      · exact ih ss hss
      · rw [length_addRow_eq (by rw [length_scaleRow, ih ss hss, hs]), length_scaleRow, hs]

/-- `combine len a ss` is `Σ_j a_j · ss_j`, entry by entry -/
theorem ent_combine (len : Nat) (a : Row) (ss : List Shard) (h : ∀ s ∈ ss, s.length = len)
    (l : Nat) :
    ent (combine len a ss) l
      = ∑ j ∈ Finset.range (min a.length ss.length), ent a j * ent (ss.getD j []) l := by
  induction a generalizing ss with
  | nil =>
    simp only [combine, List.length_nil, Nat.zero_min, Finset.range_zero, Finset.sum_empty]
    unfold ent; rw [List.getD_eq_getElem?_getD, List.getElem?_replicate]; split <;> rfl
  | cons x a ih =>
    cases ss with
    | nil =>
      simp only [combine, List.length_nil, Nat.min_zero, Finset.range_zero, Finset.sum_empty]
      unfold ent; rw [List.getD_eq_getElem?_getD, List.getElem?_replicate]; split <;> rfl
    | cons s ss =>
      have hs : s.length = len := h s (by simp)
      have hss : ∀ t ∈ ss, t.length = len := fun t ht => h t (by simp [ht])
      have hmin : min (x :: a).length (s :: ss).length = min a.length ss.length + 1 := by
        simp only [List.length_cons]; omega
      rw [hmin, Finset.sum_range_succ']
      simp only [ent_cons_succ, ent_cons_zero, List.getD_cons_succ, List.getD_cons_zero]
      simp only [combine]
      split
      · rename_i h0
        rw [beq_iff_eq] at h0
        rw [ih ss hss, h0]
        have : GF.of 0 = 0 := rfl
        rw [this, zero_mul, add_zero]
      · rw [ent_addRow (by rw [length_scaleRow, length_combine len a ss hss, hs]), ent_scaleRow,
          ih ss hss, add_comm]

/-! ### Mathlib matrices -/

/-- the `r × c` Mathlib matrix of a list matrix -/
def toM (r c : Nat) (m : Matrix) : _root_.Matrix (Fin r) (Fin c) GF :=
  fun i j => ent (m.getD i.val []) j.val

/-- `r` rows of length `c` -/
def Shaped (r c : Nat) (m : Matrix) : Prop := m.length = r ∧ ∀ row ∈ m, row.length = c

end KcpVerif.Lemmas.RSRows
