/-
Receive side of C01 (DESIGN.md 7.1 item 3): the invariant `InvR` of the receive half of the KCP core
(`rcv_nxt`, `rcv_queue`, `rcv_buf`) and its preservation by `moveLoop`, `heapInsert`, `parseData`,
`popMsg`/`recv`.

Formulation.  `G : U32 → Content` is the *genuine content function*: the `(frg, data)` pair the
sending endpoint assigned to the segment with 32-bit sequence number `sn`.  That `G` is a *function*
of the 32-bit `sn` IS the range hypothesis of DESIGN 7.1 item 4 ("no two different segments that are
alive at the same time share a 32-bit sequence number", i.e. fewer than 2^32 segments between the
oldest datagram the network may still replay and the newest one).  Without such a hypothesis the
property is false for every protocol with 32-bit sequence numbers.
-/
import KcpVerif.Model.Kcp
import KcpVerif.Lemmas.KcpFrame

namespace KcpVerif.Recv
open KcpVerif KcpVerif.Gen KcpVerif.Kcp KcpVerif.Frame

/-- what the application cares about in a segment: the fragment countdown and the payload -/
abbrev Content := BitVec 8 × Bytes

def content (s : Seg) : Content := (s.frg, s.data)

/-- `[G sn0, G (sn0+1), …, G (sn0+n-1)]` -/
def gRange (G : U32 → Content) (sn0 : U32) (n : Nat) : List Content :=
  (List.range n).map (fun i => G (sn0 + BitVec.ofNat 32 i))

theorem gRange_succ (G : U32 → Content) (sn0 : U32) (n : Nat) :
    gRange G sn0 (n + 1) = gRange G sn0 n ++ [G (sn0 + BitVec.ofNat 32 n)] := by
  unfold gRange
  rw [List.range_succ, List.map_append]
  rfl

theorem gRange_length (G : U32 → Content) (sn0 : U32) (n : Nat) : (gRange G sn0 n).length = n := by
  unfold gRange; simp

theorem gRange_take (G : U32 → Content) (sn0 : U32) (n m : Nat) (h : m ≤ n) :
    (gRange G sn0 n).take m = gRange G sn0 m := by
  unfold gRange
  rw [← List.map_take, List.take_range, Nat.min_eq_left h]

/-- offset of a sequence number above `nxt` (meaningful when `0 ≤ itimediff sn nxt`) -/
def off (nxt sn : U32) : Nat := (sn - nxt).toNat

theorem itimediff_nonneg_iff (a b : U32) : 0 ≤ itimediff a b ↔ (a - b).toNat < 2 ^ 31 := by
  unfold itimediff
  simp only [BitVec.toInt_eq_toNat_cond]
  have := (a - b).isLt
  split <;> omega

/-- for two sequence numbers in the half-space above `nxt`, the `_itimediff` order is the order of offsets -/
theorem itimediff_pos_iff_off (nxt a b : U32) (ha : 0 ≤ itimediff a nxt) (hb : 0 ≤ itimediff b nxt) :
    0 < itimediff b a ↔ off nxt a < off nxt b := by
  rw [itimediff_nonneg_iff] at ha hb
  unfold itimediff off
  simp only [BitVec.toInt_eq_toNat_cond]
  have h1 : (b - a).toNat = ((b - nxt).toNat + 2 ^ 32 - (a - nxt).toNat) % 2 ^ 32 := by bv_omega
  have := (b - nxt).isLt
  have := (a - nxt).isLt
  split <;> omega

theorem off_eq_iff (nxt a b : U32) : off nxt a = off nxt b ↔ a = b := by
  unfold off
  constructor
  · intro h; bv_omega
  · intro h; rw [h]

theorem off_zero_iff (nxt a : U32) : off nxt a = 0 ↔ a = nxt := by
  unfold off
  constructor
  · intro h; bv_omega
  · intro h; rw [h]; simp

/-- stepping `nxt` forward by one lowers every positive offset by one -/
theorem off_succ (nxt a : U32) (h : 0 < off nxt a) : off (nxt + 1) a = off nxt a - 1 := by
  unfold off at *
  bv_omega

/-! ### the state of `rcv_buf` -/

/-- every buffered segment is genuine and lies in the half-space at or above `nxt`;
the buffer is strictly sorted by `_itimediff` (so the sequence numbers are pairwise distinct
and the head is the minimum) -/
structure BufOk (G : U32 → Content) (nxt : U32) (buf : List Seg) : Prop where
  gen : ∀ s ∈ buf, content s = G s.sn
  ge  : ∀ s ∈ buf, 0 ≤ itimediff s.sn nxt
  srt : buf.Pairwise (fun a b => 0 < itimediff b.sn a.sn)

theorem BufOk.nil (G : U32 → Content) (nxt : U32) : BufOk G nxt [] :=
  ⟨by simp, by simp, List.Pairwise.nil⟩

theorem BufOk.tail {G : U32 → Content} {nxt : U32} {s : Seg} {rest : List Seg}
    (h : BufOk G nxt (s :: rest)) : BufOk G nxt rest :=
  ⟨fun x hx => h.gen x (List.mem_cons_of_mem _ hx), fun x hx => h.ge x (List.mem_cons_of_mem _ hx),
   (List.pairwise_cons.mp h.srt).2⟩

/-- in a good buffer, offsets are strictly increasing -/
theorem BufOk.off_sorted {G : U32 → Content} {nxt : U32} {buf : List Seg} (h : BufOk G nxt buf) :
    buf.Pairwise (fun a b => off nxt a.sn < off nxt b.sn) := by
  have hs := h.srt
  have hg := h.ge
  clear h
  induction buf with
  | nil => exact List.Pairwise.nil
  | cons s rest ih =>
    rw [List.pairwise_cons] at hs ⊢
    refine ⟨fun b hb => ?_, ih hs.2 (fun x hx => hg x (List.mem_cons_of_mem _ hx))⟩
    exact (itimediff_pos_iff_off nxt s.sn b.sn (hg s (List.mem_cons_self ..))
      (hg b (List.mem_cons_of_mem _ hb))).mp (hs.1 b hb)

/-- after removing the head `s` with `s.sn = nxt`, the rest is good for `nxt + 1` -/
theorem BufOk.advance {G : U32 → Content} {nxt : U32} {s : Seg} {rest : List Seg}
    (h : BufOk G nxt (s :: rest)) (hs : s.sn = nxt) : BufOk G (nxt + 1) rest := by
  refine ⟨h.tail.gen, fun x hx => ?_, h.tail.srt⟩
  have h1 : 0 < itimediff x.sn s.sn := (List.pairwise_cons.mp h.srt).1 x hx
  rw [hs] at h1
  have h0 := h.ge x (List.mem_cons_of_mem _ hx)
  rw [itimediff_nonneg_iff] at h0 ⊢
  have h2 : 0 < (x.sn - nxt).toNat := by
    unfold itimediff at h1
    simp only [BitVec.toInt_eq_toNat_cond] at h1
    split at h1 <;> omega
  bv_omega

/-! ### heapInsert -/

theorem mem_heapInsert (s x : Seg) (l : List Seg) : x ∈ heapInsert s l ↔ x = s ∨ x ∈ l := by
  induction l with
  | nil => simp [heapInsert]
  | cons h t ih =>
    unfold heapInsert
    split
    · simp
    · simp only [List.mem_cons, ih]
      constructor
      · rintro (h1 | h1 | h1)
        · exact Or.inr (Or.inl h1)
        · exact Or.inl h1
        · exact Or.inr (Or.inr h1)
      · rintro (h1 | h1 | h1)
        · exact Or.inr (Or.inl h1)
        · exact Or.inl h1
        · exact Or.inr (Or.inr h1)

theorem heapInsert_length (s : Seg) (l : List Seg) : (heapInsert s l).length = l.length + 1 := by
  induction l with
  | nil => rfl
  | cons h t ih =>
    unfold heapInsert
    split
    · rfl
    · simp [ih]

/-- inserting a genuine, not yet buffered segment of the half-space keeps the buffer good -/
theorem BufOk.insert {G : U32 → Content} {nxt : U32} {buf : List Seg} (h : BufOk G nxt buf) (s : Seg)
    (hgen : content s = G s.sn) (hge : 0 ≤ itimediff s.sn nxt)
    (hnew : ∀ x ∈ buf, x.sn ≠ s.sn) : BufOk G nxt (heapInsert s buf) := by
  refine ⟨fun x hx => ?_, fun x hx => ?_, ?_⟩
  · rcases (mem_heapInsert s x buf).mp hx with h1 | h1
    · rw [h1]; exact hgen
    · exact h.gen x h1
  · rcases (mem_heapInsert s x buf).mp hx with h1 | h1
    · rw [h1]; exact hge
    · exact h.ge x h1
  · induction buf with
    | nil => simp [heapInsert]
    | cons a t ih =>
      unfold heapInsert
      have ha := h.ge a (List.mem_cons_self ..)
      have hsrt := List.pairwise_cons.mp h.srt
      split
      · rename_i hlt
        rw [List.pairwise_cons]
        refine ⟨fun b hb => ?_, h.srt⟩
        rcases List.mem_cons.mp hb with h1 | h1
        · rw [h1]; exact hlt
        · have hb0 := h.ge b (List.mem_cons_of_mem _ h1)
          have h2 := (itimediff_pos_iff_off nxt a.sn b.sn ha hb0).mp (hsrt.1 b h1)
          have h3 := (itimediff_pos_iff_off nxt s.sn a.sn hge ha).mp hlt
          exact (itimediff_pos_iff_off nxt s.sn b.sn hge hb0).mpr (by omega)
      · rename_i hnlt
        rw [List.pairwise_cons]
        refine ⟨fun b hb => ?_, ih h.tail (fun x hx => hnew x (List.mem_cons_of_mem _ hx))⟩
        rcases (mem_heapInsert s b t).mp hb with h1 | h1
        · rw [h1]
          have h3 : ¬ off nxt s.sn < off nxt a.sn := fun hc =>
            hnlt ((itimediff_pos_iff_off nxt s.sn a.sn hge ha).mpr hc)
          have h4 : off nxt a.sn ≠ off nxt s.sn := fun hc =>
            hnew a (List.mem_cons_self ..) ((off_eq_iff nxt a.sn s.sn).mp hc)
          exact (itimediff_pos_iff_off nxt a.sn s.sn ha hge).mpr (by omega)
        · exact hsrt.1 b h1

/-! ### the receive-side invariant -/

/-- `InvR G sn0 k dl n`: `n` segments have been moved to the delivery side so far; `dl` is the ghost
list of the contents of the segments already popped by `recv` -/
structure InvR (G : U32 → Content) (sn0 : U32) (k : Kcp) (dl : List Content) (n : Nat) : Prop where
  nxt : k.rcv_nxt = sn0 + BitVec.ofNat 32 n
  pre : dl ++ k.rcv_queue.map content = gRange G sn0 n
  buf : BufOk G k.rcv_nxt k.rcv_buf

/-- the invariant only looks at the three receive-side fields -/
theorem InvR.congr {G : U32 → Content} {sn0 : U32} {k k' : Kcp} {dl : List Content} {n : Nat}
    (h : InvR G sn0 k dl n) (h1 : k'.rcv_nxt = k.rcv_nxt) (h2 : k'.rcv_queue = k.rcv_queue)
    (h3 : k'.rcv_buf = k.rcv_buf) : InvR G sn0 k' dl n :=
  ⟨by rw [h1]; exact h.nxt, by rw [h2]; exact h.pre, by rw [h1, h3]; exact h.buf⟩

theorem InvR.count {G : U32 → Content} {sn0 : U32} {k : Kcp} {dl : List Content} {n : Nat}
    (h : InvR G sn0 k dl n) : n = dl.length + k.rcv_queue.length := by
  have := congrArg List.length h.pre
  simp [gRange_length] at this
  omega

theorem InvR.init (G : U32 → Content) (conv : U32) : InvR G 0 (Kcp.new conv) [] 0 :=
  ⟨by simp [Kcp.new], by simp [Kcp.new, gRange], BufOk.nil _ _⟩

/-- the move loop: every segment it moves is the genuine segment `rcv_nxt`, in order; and it does
not stop early: afterwards either the queue is full or `rcv_nxt` is not in the buffer -/
theorem moveLoop_inv (G : U32 → Content) (sn0 : U32) (wnd : Nat) :
    ∀ (buf q : List Seg) (nxt : U32) (dl : List Content) (n : Nat),
      nxt = sn0 + BitVec.ofNat 32 n → dl ++ q.map content = gRange G sn0 n → BufOk G nxt buf →
      ∃ n', n ≤ n' ∧ (moveLoop wnd buf q nxt).nxt = sn0 + BitVec.ofNat 32 n' ∧
        dl ++ (moveLoop wnd buf q nxt).q.map content = gRange G sn0 n' ∧
        BufOk G (moveLoop wnd buf q nxt).nxt (moveLoop wnd buf q nxt).buf ∧
        (wnd ≤ (moveLoop wnd buf q nxt).q.length ∨
          ∀ s ∈ (moveLoop wnd buf q nxt).buf, s.sn ≠ (moveLoop wnd buf q nxt).nxt) := by
  intro buf
  induction buf with
  | nil =>
    intro q nxt dl n h1 h2 h3
    exact ⟨n, Nat.le_refl _, h1, h2, h3, Or.inr (by simp [moveLoop])⟩
  | cons s rest ih =>
    intro q nxt dl n h1 h2 h3
    unfold moveLoop
    by_cases hc : s.sn = nxt ∧ q.length < wnd
    · rw [if_pos hc]
      have hn : nxt + 1 = sn0 + BitVec.ofNat 32 (n + 1) := by
        rw [h1]; simp only [BitVec.ofNat_add, BitVec.add_assoc]; rfl
      have hq : dl ++ (q ++ [s]).map content = gRange G sn0 (n + 1) := by
        rw [gRange_succ, List.map_append, ← List.append_assoc, h2]
        have : content s = G (sn0 + BitVec.ofNat 32 n) := by
          rw [h3.gen s (List.mem_cons_self ..), hc.1, h1]
        simp [this]
      obtain ⟨n', hle, r1, r2, r3, r4⟩ := ih (q ++ [s]) (nxt + 1) dl (n + 1) hn hq (h3.advance hc.1)
      exact ⟨n', by omega, r1, r2, r3, r4⟩
    · rw [if_neg hc]
      refine ⟨n, Nat.le_refl _, h1, h2, h3, ?_⟩
      by_cases hw : q.length < wnd
      · right
        have hne : s.sn ≠ nxt := fun h => hc ⟨h, hw⟩
        intro x hx
        show x.sn ≠ nxt
        rcases List.mem_cons.mp hx with h4 | h4
        · rw [h4]; exact hne
        · intro hxe
          have hp := (List.pairwise_cons.mp h3.off_sorted).1 x h4
          rw [hxe] at hp
          have : off nxt nxt = 0 := (off_zero_iff nxt nxt).mpr rfl
          omega
      · left; show wnd ≤ q.length; omega

theorem moveReady_inv {G : U32 → Content} {sn0 : U32} {k : Kcp} {dl : List Content} {n : Nat}
    (h : InvR G sn0 k dl n) :
    ∃ n', n ≤ n' ∧ InvR G sn0 (moveReady k) dl n' ∧
      (k.rcv_wnd.toNat ≤ (moveReady k).rcv_queue.length ∨
        ∀ s ∈ (moveReady k).rcv_buf, s.sn ≠ (moveReady k).rcv_nxt) := by
  obtain ⟨n', hle, r1, r2, r3, r4⟩ :=
    moveLoop_inv G sn0 k.rcv_wnd.toNat k.rcv_buf k.rcv_queue k.rcv_nxt dl n h.nxt h.pre h.buf
  exact ⟨n', hle, ⟨r1, r2, r3⟩, r4⟩

/-- `parse_data` with a genuine segment -/
theorem parseData_inv {G : U32 → Content} {sn0 : U32} {k : Kcp} {dl : List Content} {n : Nat}
    (h : InvR G sn0 k dl n) (s : Seg) (hgen : content s = G s.sn) :
    ∃ n', n ≤ n' ∧ InvR G sn0 (parseData k s).k dl n' := by
  unfold parseData
  split
  · exact ⟨n, Nat.le_refl _, h⟩
  · rename_i hwin
    split
    · obtain ⟨n', hle, hi, _⟩ := moveReady_inv h
      exact ⟨n', hle, hi⟩
    · rename_i hdup
      split
      · exact ⟨n, Nat.le_refl _, h⟩
      · have hge : 0 ≤ itimediff s.sn k.rcv_nxt := by
          have : ¬ itimediff s.sn k.rcv_nxt < 0 := fun hc => hwin (Or.inr hc)
          omega
        have hnew : ∀ x ∈ k.rcv_buf, x.sn ≠ s.sn := by
          intro x hx hxe
          apply hdup
          rw [List.any_eq_true]
          exact ⟨x, hx, by simp [hxe]⟩
        have h' : InvR G sn0 { k with rcv_buf := heapInsert s k.rcv_buf } dl n :=
          ⟨h.nxt, h.pre, h.buf.insert s hgen hge hnew⟩
        obtain ⟨n', hle, hi, _⟩ := moveReady_inv h'
        exact ⟨n', hle, hi⟩

/-! ### popMsg / recv -/

theorem Props_popMsg_length (q : List Seg) : (popMsg q).data.length = peekSum q := by
  induction q with
  | nil => rfl
  | cons s rest ih =>
    unfold popMsg peekSum
    split
    · rfl
    · simp only [List.length_append, ih]

/-- number of segments the merge loop of `Recv` pops: up to and including the first `frg = 0` -/
def popCount : List Seg → Nat
  | [] => 0
  | s :: rest => if s.frg = 0 then 1 else 1 + popCount rest

theorem popCount_le (q : List Seg) : popCount q ≤ q.length := by
  induction q with
  | nil => exact Nat.le_refl _
  | cons s rest ih => unfold popCount; split <;> simp <;> omega

theorem popCount_pos (q : List Seg) (h : q ≠ []) : 0 < popCount q := by
  cases q with
  | nil => exact absurd rfl h
  | cons s rest => unfold popCount; split <;> omega

theorem popMsg_data (q : List Seg) :
    (popMsg q).data = ((q.take (popCount q)).map (·.data)).flatten := by
  induction q with
  | nil => rfl
  | cons s rest ih =>
    unfold popMsg popCount
    split
    · simp
    · simp only [ih]; rw [Nat.add_comm]; simp

theorem popMsg_rest (q : List Seg) : (popMsg q).rest = q.drop (popCount q) := by
  induction q with
  | nil => rfl
  | cons s rest ih =>
    unfold popMsg popCount
    split
    · simp
    · simp only [ih]; rw [Nat.add_comm]; simp

/-- all popped segments but the last have `frg ≠ 0` -/
theorem popCount_frg_ne (q : List Seg) (i : Nat) (hi : i + 1 < popCount q) :
    ∃ s, q[i]? = some s ∧ s.frg ≠ 0 := by
  induction q generalizing i with
  | nil => simp [popCount] at hi
  | cons s rest ih =>
    unfold popCount at hi
    split at hi
    · omega
    · rename_i hne
      cases i with
      | zero => exact ⟨s, rfl, hne⟩
      | succ j =>
        obtain ⟨x, hx, hx0⟩ := ih j (by omega)
        exact ⟨x, by simpa using hx, hx0⟩

/-- the last popped segment has `frg = 0`, unless the loop ran off the end of the queue -/
theorem popCount_last (q : List Seg) (h : q ≠ []) :
    (∃ s, q[popCount q - 1]? = some s ∧ s.frg = 0) ∨
      (popCount q = q.length ∧ ∀ s ∈ q, s.frg ≠ 0) := by
  induction q with
  | nil => exact absurd rfl h
  | cons s rest ih =>
    unfold popCount
    split
    · rename_i h0; left; exact ⟨s, rfl, h0⟩
    · rename_i hne
      cases rest with
      | nil =>
        right
        refine ⟨rfl, ?_⟩
        intro x hx
        rw [List.mem_singleton.mp hx]; exact hne
      | cons t rest' =>
        rcases ih (by simp) with ⟨x, hx, hx0⟩ | ⟨hl, hall⟩
        · left
          refine ⟨x, ?_, hx0⟩
          have hp := popCount_pos (t :: rest') (by simp)
          have : 1 + popCount (t :: rest') - 1 = (popCount (t :: rest') - 1) + 1 := by omega
          rw [this]; simpa using hx
        · right
          refine ⟨by simp [hl]; omega, ?_⟩
          intro x hx
          rcases List.mem_cons.mp hx with h1 | h1
          · rw [h1]; exact hne
          · exact hall x h1

theorem peekSize_neg_of_nil (k : Kcp) (h : k.rcv_queue = []) : k.peekSize < 0 := by
  unfold peekSize; rw [h]; decide

theorem peekSize_eq (k : Kcp) (h : ¬ k.peekSize < 0) :
    k.peekSize = ((popMsg k.rcv_queue).data.length : Int) := by
  unfold peekSize at h ⊢
  cases hq : k.rcv_queue with
  | nil => rw [hq] at h; exact absurd (by decide) h
  | cons s rest =>
    rw [hq] at h
    simp only [] at h ⊢
    split
    · rename_i h0; unfold popMsg; rw [if_pos h0]
    · rename_i h0
      rw [if_neg h0] at h
      split
      · rename_i h1; rw [if_pos h1] at h; exact absurd (by decide) h
      · rw [Props_popMsg_length]

/-- the state after a successful `Recv` -/
def recvK (k : Kcp) : Kcp :=
  let k1 := moveReady { k with rcv_queue := (popMsg k.rcv_queue).rest }
  if k1.rcv_queue.length < k1.rcv_wnd.toNat ∧ decide (k.rcv_queue.length ≥ k.rcv_wnd.toNat) = true
  then { k1 with probe := k1.probe ||| u32 IKCP_ASK_TELL } else k1

theorem recv_fail1 (k : Kcp) (buflen : Nat) (h : k.peekSize < 0) : recv k buflen = ⟨k, -1, []⟩ := by
  unfold recv; simp only [h, ↓reduceIte]

theorem recv_fail2 (k : Kcp) (buflen : Nat) (h1 : ¬ k.peekSize < 0) (h2 : k.peekSize > (buflen : Int)) :
    recv k buflen = ⟨k, -2, []⟩ := by
  unfold recv; simp only [h1, h2, ↓reduceIte]

theorem recv_ok (k : Kcp) (buflen : Nat) (h1 : ¬ k.peekSize < 0) (h2 : ¬ k.peekSize > (buflen : Int)) :
    recv k buflen = ⟨recvK k, (popMsg k.rcv_queue).data.length, (popMsg k.rcv_queue).data⟩ := by
  unfold recv recvK; simp only [h1, h2, ↓reduceIte]

theorem recvK_inv {G : U32 → Content} {sn0 : U32} {k : Kcp} {dl : List Content} {n : Nat}
    (h : InvR G sn0 k dl n) :
    ∃ n', n ≤ n' ∧ InvR G sn0 (recvK k) (dl ++ (k.rcv_queue.take (popCount k.rcv_queue)).map content) n' := by
  have h' : InvR G sn0 { k with rcv_queue := (popMsg k.rcv_queue).rest }
      (dl ++ (k.rcv_queue.take (popCount k.rcv_queue)).map content) n := by
    refine ⟨h.nxt, ?_, h.buf⟩
    show _ ++ (popMsg k.rcv_queue).rest.map content = _
    rw [popMsg_rest, List.append_assoc, ← List.map_append, List.take_append_drop]
    exact h.pre
  obtain ⟨n', hle, hi, _⟩ := moveReady_inv h'
  refine ⟨n', hle, ?_⟩
  unfold recvK
  simp only []
  split
  · exact hi.congr rfl rfl rfl
  · exact hi

/-- `Recv`: either it fails (−1 nothing complete, −2 buffer too small) and changes nothing, or it
pops `popCount` segments from the queue, returns the concatenation of their payloads and refills
the queue from the buffer; the invariant carries over with the popped contents appended to the
ghost `delivered` list -/
theorem recv_inv {G : U32 → Content} {sn0 : U32} {k : Kcp} {dl : List Content} {n : Nat}
    (h : InvR G sn0 k dl n) (buflen : Nat) :
    ((recv k buflen).n < 0 ∧ (recv k buflen).k = k ∧ (recv k buflen).data = []) ∨
    (0 ≤ (recv k buflen).n ∧ k.rcv_queue ≠ [] ∧
      (recv k buflen).data = ((k.rcv_queue.take (popCount k.rcv_queue)).map (·.data)).flatten ∧
      (recv k buflen).n = (recv k buflen).data.length ∧ (recv k buflen).data.length ≤ buflen ∧
      ∃ n', n ≤ n' ∧
        InvR G sn0 (recv k buflen).k
          (dl ++ (k.rcv_queue.take (popCount k.rcv_queue)).map content) n') := by
  by_cases h1 : k.peekSize < 0
  · left; rw [recv_fail1 k buflen h1]; exact ⟨show (-1 : Int) < 0 by decide, rfl, rfl⟩
  · by_cases h2 : k.peekSize > (buflen : Int)
    · left; rw [recv_fail2 k buflen h1 h2]; exact ⟨show (-2 : Int) < 0 by decide, rfl, rfl⟩
    · right
      rw [recv_ok k buflen h1 h2]
      have hne : k.rcv_queue ≠ [] := fun hc => h1 (peekSize_neg_of_nil k hc)
      have hlen := peekSize_eq k h1
      refine ⟨Int.natCast_nonneg _, hne, popMsg_data _, rfl, ?_, recvK_inv h⟩
      show (popMsg k.rcv_queue).data.length ≤ buflen
      omega

theorem InvR.same {G : U32 → Content} {sn0 : U32} {k k' : Kcp} {dl : List Content} {n : Nat}
    (h : InvR G sn0 k dl n) (hs : RcvSame k k') : InvR G sn0 k' dl n :=
  h.congr hs.rcv_nxt hs.rcv_queue hs.rcv_buf

/-! ### Input -/

/-- every PUSH frame that the parse loop of `Input` reaches in `data` (same framing, same early
exits: short data, foreign `conv`, bad length, unknown command) carries the genuine content of its
sequence number.  Nothing is required of ACK / WASK / WINS frames, of the other header fields of a
PUSH frame, or of anything behind an early exit. -/
def GenuineFrames (G : U32 → Content) (conv : U32) : Nat → Bytes → Prop
  | 0, _ => True
  | fuel + 1, data =>
    if data.length < IKCP_OVERHEAD then True else
    if (parseHdr data).conv ≠ conv then True else
    if (data.drop IKCP_OVERHEAD).length < (parseHdr data).len ∨ (parseHdr data).len > mtuLimit then True else
    if ¬ validCmd (parseHdr data).cmd then True else
    ((parseHdr data).cmd.toNat = IKCP_CMD_PUSH →
        content (pushSeg (parseHdr data) (data.drop IKCP_OVERHEAD)) = G (parseHdr data).sn) ∧
      GenuineFrames G conv fuel ((data.drop IKCP_OVERHEAD).drop (parseHdr data).len)

/-- a datagram whose PUSH segments are all genuine: the adversary may drop, duplicate, reorder,
delay and replay datagrams, and inject arbitrary ACK/WASK/WINS segments, but cannot forge payload -/
def GenuineIn (G : U32 → Content) (conv : U32) (d : Bytes) : Prop :=
  GenuineFrames G conv (d.length / IKCP_OVERHEAD + 1) d

instance decGenuineFrames (G : U32 → Content) (conv : U32) :
    ∀ (fuel : Nat) (data : Bytes), Decidable (GenuineFrames G conv fuel data)
  | 0, _ => isTrue trivial
  | fuel + 1, data => by
    unfold GenuineFrames
    have := decGenuineFrames G conv fuel
    infer_instance

instance (G : U32 → Content) (conv : U32) (d : Bytes) : Decidable (GenuineIn G conv d) := by
  unfold GenuineIn; infer_instance

theorem inSt2_inv {G : U32 → Content} {sn0 : U32} {st1 : InLoop} {dl : List Content} {n : Nat}
    (h : InvR G sn0 st1.k dl n) (hd : Hdr) (body : Bytes)
    (hgen : hd.cmd.toNat = IKCP_CMD_PUSH → content (pushSeg hd body) = G hd.sn) :
    (inSt2 st1 hd body).k.conv = st1.k.conv ∧ ∃ n', n ≤ n' ∧ InvR G sn0 (inSt2 st1 hd body).k dl n' := by
  unfold inSt2
  simp only []
  split
  · have hs := ((parseAck_rcvSame st1.k hd.sn).trans (shrinkBuf_rcvSame _)).trans
      (parseFastack_rcvSame (shrinkBuf (parseAck st1.k hd.sn)) hd.sn hd.ts)
    exact ⟨hs.conv, n, Nat.le_refl _, h.same hs⟩
  · split
    · rename_i hpush
      split
      · split
        · have h' : InvR G sn0 { st1.k with acklist := st1.k.acklist ++ [⟨hd.sn, hd.ts⟩] } dl n :=
            h.congr rfl rfl rfl
          obtain ⟨n', hle, hi⟩ := parseData_inv h' (pushSeg hd body) (hgen hpush)
          exact ⟨parseData_conv _ _, n', hle, hi⟩
        · exact ⟨rfl, n, Nat.le_refl _, h.congr rfl rfl rfl⟩
      · exact ⟨rfl, n, Nat.le_refl _, h⟩
    · split
      · exact ⟨rfl, n, Nat.le_refl _, h.congr rfl rfl rfl⟩
      · exact ⟨rfl, n, Nat.le_refl _, h⟩

/-- the parse loop of `Input` on a datagram with genuine PUSH frames -/
theorem inputLoop_inv (G : U32 → Content) (sn0 : U32) (regular : Bool) (dl : List Content) :
    ∀ (fuel : Nat) (data : Bytes) (st : InLoop) (n : Nat),
      InvR G sn0 st.k dl n → GenuineFrames G st.k.conv fuel data →
      ∃ n', n ≤ n' ∧ InvR G sn0 (inputLoop regular fuel data st).k dl n' := by
  intro fuel
  induction fuel with
  | zero => intro data st n h _; exact ⟨n, Nat.le_refl _, h⟩
  | succ fuel ih =>
    intro data st n h hg
    rw [inputLoop_succ]
    unfold GenuineFrames at hg
    by_cases c1 : data.length < IKCP_OVERHEAD
    · rw [if_pos c1]; exact ⟨n, Nat.le_refl _, h⟩
    · rw [if_neg c1] at hg ⊢
      by_cases c2 : (parseHdr data).conv ≠ st.k.conv
      · rw [if_pos c2]; exact ⟨n, Nat.le_refl _, h⟩
      · rw [if_neg c2] at hg ⊢
        by_cases c3 : (data.drop IKCP_OVERHEAD).length < (parseHdr data).len ∨ (parseHdr data).len > mtuLimit
        · rw [if_pos c3]; exact ⟨n, Nat.le_refl _, h⟩
        · rw [if_neg c3] at hg ⊢
          by_cases c4 : ¬ validCmd (parseHdr data).cmd
          · rw [if_pos c4]; exact ⟨n, Nat.le_refl _, h⟩
          · rw [if_neg c4] at hg ⊢
            have h1 : InvR G sn0 (inSt1 regular st (parseHdr data)).k dl n := h.same (inSt1_rcvSame _ _ _)
            obtain ⟨hconv, n1, hle1, h2⟩ := inSt2_inv h1 (parseHdr data) (data.drop IKCP_OVERHEAD) hg.1
            split
            · exact ⟨n1, hle1, h2⟩
            · have hc : (inSt2 (inSt1 regular st (parseHdr data)) (parseHdr data) (data.drop IKCP_OVERHEAD)).k.conv
                  = st.k.conv := hconv.trans (inSt1_rcvSame _ _ _).conv
              obtain ⟨n2, hle2, h3⟩ := ih _ _ n1 h2 (by rw [hc]; exact hg.2)
              exact ⟨n2, by omega, h3⟩

/-- `Input` with any datagram whose PUSH frames are genuine, any clock, any flags -/
theorem input_inv {G : U32 → Content} {sn0 : U32} {k : Kcp} {dl : List Content} {n : Nat}
    (h : InvR G sn0 k dl n) (data : Bytes) (regular ackNoDelay : Bool) (now : U32)
    (hg : GenuineIn G k.conv data) :
    ∃ n', n ≤ n' ∧ InvR G sn0 (input k data regular ackNoDelay now).k dl n' := by
  rw [input_eq]
  split
  · exact ⟨n, Nat.le_refl _, h⟩
  · obtain ⟨n', hle, hi⟩ := inputLoop_inv G sn0 regular dl _ data { k := k } n h hg
    refine ⟨n', hle, ?_⟩
    rcases inputTail_cases k (inputLoop regular (data.length / IKCP_OVERHEAD + 1) data { k := k })
      regular ackNoDelay now with h1 | h1 | ⟨full, h1⟩
    · rw [h1.1]; exact hi
    · rw [h1.1]; exact hi.same (inputK2_same _ _ _ _).1
    · rw [h1.1]; exact hi.same ((inputK2_same _ _ _ _).1.trans (flush_keep _ _ _).rcvSame)

/-! ### message boundaries -/

/-- the fragment countdown of the first `n` genuine segments is well formed: never 255 (the
sender cuts a message into at most 255 fragments, numbered 254 … 0) and each non-final fragment is
followed by the fragment with the next lower number -/
def FrgOk (G : U32 → Content) (sn0 : U32) (n : Nat) : Prop :=
  ∀ i, i < n → (G (sn0 + BitVec.ofNat 32 i)).1 ≠ 255 ∧
    (i + 1 < n → (G (sn0 + BitVec.ofNat 32 i)).1 ≠ 0 →
      (G (sn0 + BitVec.ofNat 32 (i + 1))).1 = (G (sn0 + BitVec.ofNat 32 i)).1 - 1)

/-- in a queue with a well-formed countdown that is long enough for its first message, the merge
loop stops at a `frg = 0` -/
theorem popCount_countdown (q : List Seg) (s0 : Seg) (h0 : q[0]? = some s0)
    (hcd : ∀ i a b, q[i]? = some a → q[i + 1]? = some b → a.frg ≠ 0 → b.frg = a.frg - 1)
    (hlen : s0.frg.toNat + 1 ≤ q.length) :
    ∃ s, q[popCount q - 1]? = some s ∧ s.frg = 0 ∧ popCount q = s0.frg.toNat + 1 := by
  induction q generalizing s0 with
  | nil => simp at h0
  | cons a rest ih =>
    have ha : a = s0 := by simpa using h0
    subst ha
    unfold popCount
    split
    · rename_i hz; exact ⟨a, rfl, hz, by rw [hz]; rfl⟩
    · rename_i hnz
      have hfpos : 0 < a.frg.toNat := by
        have : a.frg.toNat ≠ 0 := fun hc => hnz (by bv_omega)
        omega
      cases rest with
      | nil => simp at hlen; omega
      | cons b rest' =>
        have hb : b.frg = a.frg - 1 := hcd 0 a b rfl rfl hnz
        have hbn : b.frg.toNat = a.frg.toNat - 1 := by rw [hb]; bv_omega
        obtain ⟨s, hs, hs0, hpc⟩ := ih b rfl
          (fun i x y hx hy hxn => hcd (i + 1) x y (by simpa using hx) (by simpa using hy) hxn)
          (by simp at hlen ⊢; omega)
        have hp := popCount_pos (b :: rest') (by simp)
        refine ⟨s, ?_, hs0, by omega⟩
        have : 1 + popCount (b :: rest') - 1 = (popCount (b :: rest') - 1) + 1 := by omega
        rw [this]; simpa using hs

theorem peekSize_len (k : Kcp) (s : Seg) (rest : List Seg) (hq : k.rcv_queue = s :: rest)
    (h : ¬ k.peekSize < 0) (hnz : s.frg ≠ 0) : ¬ k.rcv_queue.length < (s.frg + 1).toNat := by
  unfold peekSize at h
  rw [hq] at h
  simp only [] at h
  rw [if_neg hnz] at h
  intro hc
  rw [hq] at hc
  rw [if_pos hc] at h
  exact h (by decide)

/-- under `InvR` the queue is the segment of the genuine stream behind the delivered part -/
theorem InvR.queue_get {G : U32 → Content} {sn0 : U32} {k : Kcp} {dl : List Content} {n : Nat}
    (h : InvR G sn0 k dl n) (i : Nat) (s : Seg) (hs : k.rcv_queue[i]? = some s) :
    content s = G (sn0 + BitVec.ofNat 32 (dl.length + i)) ∧ dl.length + i < n := by
  have hi : i < k.rcv_queue.length := by
    rcases Nat.lt_or_ge i k.rcv_queue.length with h1 | h1
    · exact h1
    · rw [List.getElem?_eq_none h1] at hs; cases hs
  have hn := h.count
  have h1 : (dl ++ k.rcv_queue.map content)[dl.length + i]? = some (content s) := by
    rw [List.getElem?_append_right (by omega)]
    simp [hs]
  rw [h.pre] at h1
  unfold gRange at h1
  rw [List.getElem?_map] at h1
  have h2 : (List.range n)[dl.length + i]? = some (dl.length + i) := by
    rw [List.getElem?_range (by omega)]
  rw [h2] at h1
  simp at h1
  exact ⟨h1.symm, by omega⟩

/-- a successful `Recv` in a state with a well-formed countdown returns exactly one message: the
payloads of the genuine segments `m … m + f` where `m` segments had been delivered before, `f` is
the fragment number of segment `m`, segments `m … m+f-1` have `frg ≠ 0` and segment `m+f` has `frg = 0` -/
theorem recv_msg {G : U32 → Content} {sn0 : U32} {k : Kcp} {dl : List Content} {n : Nat}
    (h : InvR G sn0 k dl n) (hf : FrgOk G sn0 n) (buflen : Nat) (hok : 0 ≤ (recv k buflen).n) :
    ∃ j, 1 ≤ j ∧ dl.length + j ≤ n ∧ popCount k.rcv_queue = j ∧
      j = (G (sn0 + BitVec.ofNat 32 dl.length)).1.toNat + 1 ∧
      (recv k buflen).data = ((k.rcv_queue.take j).map (·.data)).flatten ∧
      (k.rcv_queue.take j).map content = (gRange G sn0 (dl.length + j)).drop dl.length ∧
      (∀ i, i + 1 < j → (G (sn0 + BitVec.ofNat 32 (dl.length + i))).1 ≠ 0) ∧
      (G (sn0 + BitVec.ofNat 32 (dl.length + j - 1))).1 = 0 := by
  rcases recv_inv h buflen with ⟨hneg, _, _⟩ | ⟨_, hne, hdata, _, _, _⟩
  · omega
  · have h1 : ¬ k.peekSize < 0 := by
      intro hc; rw [recv_fail1 k buflen hc] at hok
      exact absurd hok (show ¬ (0 : Int) ≤ -1 by decide)
    obtain ⟨s0, rest, hq⟩ := List.exists_cons_of_ne_nil hne
    · skip
      have hs0 := h.queue_get 0 s0 (by rw [hq]; rfl)
      have hfrg0 : s0.frg = (G (sn0 + BitVec.ofNat 32 dl.length)).1 := by
        have := congrArg Prod.fst hs0.1; simpa [content] using this
      have hcd : ∀ i a b, k.rcv_queue[i]? = some a → k.rcv_queue[i + 1]? = some b → a.frg ≠ 0 →
          b.frg = a.frg - 1 := by
        intro i a b ha hb hnz
        have ga := h.queue_get i a ha
        have gb := h.queue_get (i + 1) b hb
        have fa : a.frg = (G (sn0 + BitVec.ofNat 32 (dl.length + i))).1 := by
          have := congrArg Prod.fst ga.1; simpa [content] using this
        have fb : b.frg = (G (sn0 + BitVec.ofNat 32 (dl.length + i + 1))).1 := by
          have := congrArg Prod.fst gb.1; simpa [content, Nat.add_assoc] using this
        rw [fa, fb]
        exact (hf (dl.length + i) ga.2).2 (by have := gb.2; omega) (by rw [← fa]; exact hnz)
      have hlen : s0.frg.toNat + 1 ≤ k.rcv_queue.length := by
        by_cases hz : s0.frg = 0
        · rw [hz, hq]; simp
        · have h255 : s0.frg ≠ 255 := by rw [hfrg0]; exact (hf dl.length (by have := hs0.2; omega)).1
          have := peekSize_len k s0 rest hq h1 hz
          have h2 : (s0.frg + 1).toNat = s0.frg.toNat + 1 := by
            have : s0.frg.toNat ≠ 255 := fun hc => h255 (by bv_omega)
            bv_omega
          omega
      obtain ⟨sl, hsl, hsl0, hpc⟩ := popCount_countdown k.rcv_queue s0 (by rw [hq]; rfl) hcd hlen
      have hple := popCount_le k.rcv_queue
      have hcnt := h.count
      refine ⟨popCount k.rcv_queue, by omega, by omega, rfl, by rw [hpc, hfrg0], ?_, ?_, ?_, ?_⟩
      · exact hdata
      · have e1 : (gRange G sn0 (dl.length + popCount k.rcv_queue)) =
            (gRange G sn0 n).take (dl.length + popCount k.rcv_queue) := (gRange_take G sn0 n _ (by omega)).symm
        rw [e1, ← h.pre, List.take_length_add_append, List.drop_left, List.map_take]
      · intro i hi
        obtain ⟨x, hx, hxn⟩ := popCount_frg_ne k.rcv_queue i hi
        have gx := h.queue_get i x hx
        have : x.frg = (G (sn0 + BitVec.ofNat 32 (dl.length + i))).1 := by
          have := congrArg Prod.fst gx.1; simpa [content] using this
        rw [← this]; exact hxn
      · have gl := h.queue_get (popCount k.rcv_queue - 1) sl hsl
        have : sl.frg = (G (sn0 + BitVec.ofNat 32 (dl.length + (popCount k.rcv_queue - 1)))).1 := by
          have := congrArg Prod.fst gl.1; simpa [content] using this
        have e : dl.length + popCount k.rcv_queue - 1 = dl.length + (popCount k.rcv_queue - 1) := by omega
        rw [e, ← this]; exact hsl0

end KcpVerif.Recv
