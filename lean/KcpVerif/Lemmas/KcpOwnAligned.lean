/-
C15 (ownership, protocol core): alignment of the buffer ids with the segments.  In every reachable
state a segment of snd_buf has lost its buffer exactly if it is marked acked (`seg.data == nil ↔
seg.acked == 1`), and every segment of snd_queue, rcv_buf and rcv_queue has one.  Consequences: the
read sites never meet a recycled segment — phase 5 of flush skips acked segments, so every segment
it transmits still owns its buffer; Recv copies out of segments that own theirs — i.e. no `use` of
the instrumented model is silently dropped because the position holds `none`.  Core Lean only.
-/
import KcpVerif.Lemmas.KcpOwnOps

namespace KcpVerif.Own
open KcpVerif KcpVerif.Gen KcpVerif.Kcp KcpVerif.Pool

/-- a queued, not yet transmitted segment: owns a buffer, is not acked -/
def QOk (x : SegO) : Prop := x.buf ≠ none ∧ x.s.acked = false
/-- a segment of snd_buf: recycled exactly if acked -/
def SbOk (x : SegO) : Prop := x.buf = none ↔ x.s.acked = true
/-- a received segment: owns a buffer -/
def Has (x : SegO) : Prop := x.buf ≠ none

structure Aligned (o : KcpO) : Prop where
  sq : ∀ x ∈ o.sq, QOk x
  sb : ∀ x ∈ o.sb, SbOk x
  rb : ∀ x ∈ o.rb, Has x
  rq : ∀ x ∈ o.rq, Has x

theorem QOk.sbOk {x : SegO} (h : QOk x) : SbOk x := by
  unfold SbOk
  constructor
  · intro hn; exact absurd hn h.1
  · intro ha; rw [h.2] at ha; cases ha

/-! ### the model's in-place rewrites keep the acked flags -/

theorem fastLoop_acked (sn ts fr : U32) (l : List Seg) :
    (fastLoop sn ts fr l).buf.map (·.acked) = l.map (·.acked) := by
  induction l with
  | nil => rfl
  | cons s rest ih =>
    unfold fastLoop
    split
    · rfl
    · split
      · simp only [List.map_cons, ih]
      · simp only [List.map_cons, ih]

theorem admitSegs_acked (conv una cwnd now : U32) (q buf : List Seg) (nxt : U32) (c : Nat) :
    (admitSegs conv una cwnd now q buf nxt c).buf.map (·.acked) =
      buf.map (·.acked) ++ (q.take ((admitSegs conv una cwnd now q buf nxt c).count - c)).map (·.acked) := by
  induction q generalizing buf nxt c with
  | nil => simp [admitSegs]
  | cons s rest ih =>
    unfold admitSegs
    split
    · simp
    · obtain ⟨n, h1, _, _, _⟩ := admitSegs_shape conv una cwnd now rest
        (buf ++ [{ s with conv := conv, cmd := BitVec.ofNat 8 IKCP_CMD_PUSH, sn := nxt, ts := now, resendts := now }]) (nxt + 1) (c + 1)
      rw [ih, h1]
      have e1 : c + 1 + n - (c + 1) = n := by omega
      have e2 : c + 1 + n - c = n + 1 := by omega
      rw [e1, e2]
      simp [List.take_succ_cons]

theorem xmitOne_done_acked (now resent : U32) (wnd : BitVec 16) (una : U32) (n : Nat) (st : XmitSt) (s : Seg) :
    ∃ s', (xmitOne now resent wnd una n st s).done = st.done ++ [s'] ∧ s'.acked = s.acked := by
  rw [xmitOne_eq]
  split
  · exact ⟨s, rfl, rfl⟩
  · refine ⟨_, rfl, ?_⟩
    unfold xmitStamp xmitDec
    repeat' split
    all_goals rfl

theorem xmitFold_acked (now resent : U32) (wnd : BitVec 16) (una : U32) (n : Nat) (l : List Seg) (st : XmitSt) :
    (l.foldl (xmitOne now resent wnd una n) st).done.map (·.acked) = st.done.map (·.acked) ++ l.map (·.acked) := by
  induction l generalizing st with
  | nil => simp
  | cons s r ih =>
    simp only [List.foldl_cons]
    obtain ⟨s', hs', ha⟩ := xmitOne_done_acked now resent wnd una n st s
    rw [ih, hs']; simp [ha]

theorem flush_acked (k : Kcp) (full : Bool) (now : U32) :
    (flush k full now).k.snd_buf.map (·.acked) = (flushAd k now).buf.map (·.acked) := by
  rw [flush_eq]
  simp only []
  obtain ⟨pw, tp, h3⟩ := flushP3_k k now
  generalize flushP3 k now = f3 at h3
  obtain ⟨ss, cw, inc, h6⟩ := phase6_shape
    { (flushX (flushP4 f3 now) full now k.wndUnused k.rcv_nxt (flushAd f3.k now).count).f.k with
      snd_buf := (flushX (flushP4 f3 now) full now k.wndUnused k.rcv_nxt (flushAd f3.k now).count).done }
    (effCwnd f3.k) (resentOf (flushP4 f3 now).k)
    (flushX (flushP4 f3 now) full now k.wndUnused k.rcv_nxt (flushAd f3.k now).count).change
    (flushX (flushP4 f3 now) full now k.wndUnused k.rcv_nxt (flushAd f3.k now).count).lost
  rw [h6]
  show (flushX (flushP4 f3 now) full now k.wndUnused k.rcv_nxt (flushAd f3.k now).count).done.map (·.acked) = _
  have hx : (flushX (flushP4 f3 now) full now k.wndUnused k.rcv_nxt (flushAd f3.k now).count).done.map (·.acked) =
      (flushP4 f3 now).k.snd_buf.map (·.acked) := by
    unfold flushX
    split
    · rw [xmitFold_acked]; simp
    · rfl
  rw [hx]
  unfold flushP4
  simp only []
  rw [h3]
  rfl

/-! ### instrumented list functions -/

theorem reattach_sbOk (new : List Seg) (old : List SegO) (hl : new.length = old.length)
    (ha : new.map (·.acked) = old.map (·.s.acked)) (h : ∀ x ∈ old, SbOk x) : ∀ x ∈ reattach new old, SbOk x := by
  induction new generalizing old with
  | nil => cases old with
    | nil => intro x hx; cases hx
    | cons y old => simp at hl
  | cons s new ih => cases old with
    | nil => simp at hl
    | cons y old =>
      simp only [List.length_cons, Nat.add_right_cancel_iff] at hl
      simp only [List.map_cons, List.cons.injEq] at ha
      intro x hx
      have hx' : x = { y with s := s } ∨ x ∈ reattach new old := List.mem_cons.1 hx
      rcases hx' with rfl | hm
      · have hy := h y (List.mem_cons_self ..)
        unfold SbOk at hy ⊢
        show y.buf = none ↔ s.acked = true
        rw [ha.1]; exact hy
      · exact ih old hl ha.2 (fun z hz => h z (List.mem_cons_of_mem _ hz)) x hm

theorem reattach_acked (new : List Seg) (old : List SegO) (hl : new.length = old.length) :
    (reattach new old).map (·.s.acked) = new.map (·.acked) := by
  have := er_reattach new old hl
  have h2 : (er (reattach new old)).map (·.acked) = new.map (·.acked) := by rw [this]
  rw [← h2]; unfold er; rw [List.map_map]; rfl

theorem popMsgO_mem (l : List SegO) (g : Ghost) : ∀ x ∈ (popMsgO l g).rest, x ∈ l := by
  induction l generalizing g with
  | nil => intro x hx; exact hx
  | cons y rest ih =>
    unfold popMsgO
    split
    · intro x hx; exact List.mem_cons_of_mem _ hx
    · intro x hx; exact List.mem_cons_of_mem _ (ih _ x hx)

theorem moveLoopO_mem (wnd : Nat) (buf q : List SegO) (nxt : U32) :
    (∀ x ∈ (moveLoopO wnd buf q nxt).buf, x ∈ buf) ∧
    (∀ x ∈ (moveLoopO wnd buf q nxt).q, x ∈ q ∨ x ∈ buf) := by
  induction buf generalizing q nxt with
  | nil => exact ⟨fun x hx => hx, fun x hx => Or.inl hx⟩
  | cons y rest ih =>
    unfold moveLoopO
    split
    · obtain ⟨h1, h2⟩ := ih (q ++ [y]) (nxt + 1)
      refine ⟨fun x hx => List.mem_cons_of_mem _ (h1 x hx), fun x hx => ?_⟩
      rcases h2 x hx with hq | hr
      · rcases List.mem_append.1 hq with hq | hy
        · exact Or.inl hq
        · rw [List.mem_singleton.1 hy]; exact Or.inr (List.mem_cons_self ..)
      · exact Or.inr (List.mem_cons_of_mem _ hr)
    · exact ⟨fun x hx => hx, fun x hx => Or.inl hx⟩

theorem mkSegsO_qOk (mss : Nat) (stream : Bool) (n : Nat) (buf : Bytes) (g : Ghost) :
    ∀ x ∈ (mkSegsO mss stream n buf g).l, QOk x := by
  induction n generalizing buf g with
  | zero => intro x hx; cases hx
  | succ c ih =>
    unfold mkSegsO
    intro x hx
    rcases List.mem_cons.1 hx with rfl | hm
    · exact ⟨by simp, rfl⟩
    · exact ih _ _ x hm

theorem appendLastO_qOk (q : List SegO) (extra : Bytes) (h : ∀ x ∈ q, QOk x) : ∀ x ∈ appendLastO q extra, QOk x := by
  unfold appendLastO
  split
  · rename_i y hy
    intro x hx
    rcases List.mem_append.1 hx with hd | hl
    · exact h x (List.dropLast_subset _ hd)
    · rw [List.mem_singleton.1 hl]
      exact h y (List.mem_of_getLast? hy)
  · exact h

theorem unaO_mem (una : U32) (l : List SegO) (g : Ghost) : ∀ x ∈ (unaO una l g).l, x ∈ l := by
  induction l generalizing g with
  | nil => intro x hx; exact hx
  | cons y rest ih =>
    unfold unaO
    split
    · intro x hx; exact List.mem_cons_of_mem _ (ih _ x hx)
    · intro x hx; exact hx

theorem ackLoopO_sbOk (sn : U32) (l : List SegO) (g : Ghost) (h : ∀ x ∈ l, SbOk x) :
    ∀ x ∈ (ackLoopO sn l g).l, SbOk x := by
  induction l generalizing g with
  | nil => intro x hx; cases hx
  | cons y rest ih =>
    unfold ackLoopO
    split
    · intro x hx
      rcases List.mem_cons.1 hx with rfl | hm
      · exact ⟨fun _ => rfl, fun _ => rfl⟩
      · exact h x (List.mem_cons_of_mem _ hm)
    · split
      · exact h
      · intro x hx
        rcases List.mem_cons.1 hx with rfl | hm
        · exact h _ (List.mem_cons_self ..)
        · exact ih g (fun z hz => h z (List.mem_cons_of_mem _ hz)) x hm

theorem heapInsertO_mem (y : SegO) (l : List SegO) : ∀ x ∈ heapInsertO y l, x = y ∨ x ∈ l := by
  induction l with
  | nil => intro x hx; exact Or.inl (List.mem_singleton.1 hx)
  | cons h t ih =>
    unfold heapInsertO
    split
    · intro x hx
      rcases List.mem_cons.1 hx with rfl | hm
      · exact Or.inl rfl
      · exact Or.inr hm
    · intro x hx
      rcases List.mem_cons.1 hx with rfl | hm
      · exact Or.inr (List.mem_cons_self ..)
      · rcases ih x hm with rfl | ht
        · exact Or.inl rfl
        · exact Or.inr (List.mem_cons_of_mem _ ht)

theorem parseDataO_has (k : Kcp) (s : Seg) (rb rq : List SegO) (g : Ghost)
    (hb : ∀ x ∈ rb, Has x) (hq : ∀ x ∈ rq, Has x) :
    (∀ x ∈ (parseDataO k s rb rq g).rb, Has x) ∧ (∀ x ∈ (parseDataO k s rb rq g).rq, Has x) := by
  unfold parseDataO
  split
  · exact ⟨hb, hq⟩
  · split
    · obtain ⟨m1, m2⟩ := moveLoopO_mem k.rcv_wnd.toNat rb rq k.rcv_nxt
      exact ⟨fun x hx => hb x (m1 x hx), fun x hx => (m2 x hx).elim (hq x) (hb x)⟩
    · split
      · exact ⟨hb, hq⟩
      · obtain ⟨m1, m2⟩ := moveLoopO_mem k.rcv_wnd.toNat (heapInsertO { s := s, buf := some g.next } rb) rq k.rcv_nxt
        have hi : ∀ x ∈ heapInsertO { s := s, buf := some g.next } rb, Has x := by
          intro x hx
          rcases heapInsertO_mem _ _ x hx with rfl | hr
          · unfold Has; simp
          · exact hb x hr
        exact ⟨fun x hx => hi x (m1 x hx), fun x hx => (m2 x hx).elim (hq x) (hi x)⟩

/-! ### operations -/

theorem Aligned.new (conv : U32) : Aligned (KcpO.new conv) :=
  ⟨fun _ h => (by cases h), fun _ h => (by cases h), fun _ h => (by cases h), fun _ h => (by cases h)⟩

theorem Aligned.setK {o : KcpO} (h : Aligned o) (k' : Kcp) : Aligned { o with k := k' } := ⟨h.sq, h.sb, h.rb, h.rq⟩

theorem recvO_al {o : KcpO} (h : Aligned o) (n : Nat) : Aligned (recvO o n).o := by
  unfold recvO
  simp only []
  split
  · exact h
  · split
    · exact h
    · obtain ⟨m1, m2⟩ := moveLoopO_mem o.k.rcv_wnd.toNat o.rb (popMsgO o.rq o.gh).rest o.k.rcv_nxt
      exact ⟨h.sq, h.sb, fun x hx => h.rb x (m1 x hx),
        fun x hx => (m2 x hx).elim (fun hq => h.rq x (popMsgO_mem _ _ x hq)) (h.rb x)⟩

theorem sendO_al {o : KcpO} (h : Aligned o) (b : Bytes) : Aligned (sendO o b).o := by
  have h1 : ∀ x ∈ (if sendExt o.k b > 0 then appendLastO o.sq (b.take (sendExt o.k b)) else o.sq), QOk x := by
    split
    · exact appendLastO_qOk _ _ h.sq
    · exact h.sq
  unfold sendO
  simp only []
  split; · exact h
  split; · exact h
  split; · exact h
  split; · exact ⟨h1, h.sb, h.rb, h.rq⟩
  split; · exact ⟨h1, h.sb, h.rb, h.rq⟩
  refine ⟨?_, h.sb, h.rb, h.rq⟩
  intro x hx
  rcases List.mem_append.1 hx with hq | hn
  · exact h1 x hq
  · exact mkSegsO_qOk _ _ _ _ _ x hn

theorem map_acked_er (l : List SegO) : (er l).map (·.acked) = l.map (·.s.acked) := by
  unfold er; rw [List.map_map]; rfl

theorem flushO_al {o : KcpO} (hs : Sync o) (h : Aligned o) (full : Bool) (now : U32) :
    Aligned (flushO o full now).o := by
  obtain ⟨l1, l2⟩ := flushO_lens hs full now
  have hold : ∀ x ∈ o.sb ++ o.sq.take (flushAd o.k now).count, SbOk x := by
    intro x hx
    rcases List.mem_append.1 hx with hb | hq
    · exact h.sb x hb
    · exact (h.sq x (List.mem_of_mem_take hq)).sbOk
  have ha4 : (flushAd o.k now).buf.map (·.acked) = (o.sb ++ o.sq.take (flushAd o.k now).count).map (·.s.acked) := by
    have := admitSegs_acked o.k.conv o.k.snd_una (effCwnd o.k) now o.k.snd_queue o.k.snd_buf o.k.snd_nxt 0
    have e : (flushAd o.k now).count - 0 = (flushAd o.k now).count := Nat.sub_zero _
    unfold flushAd at e ⊢
    rw [this, e, hs.sb, hs.sq, ← er_take, map_acked_er, map_acked_er, List.map_append]
  have h4 := reattach_sbOk _ _ l1 ha4 hold
  have ha5 : (o.k.flush full now).k.snd_buf.map (·.acked) =
      (reattach (flushAd o.k now).buf (o.sb ++ o.sq.take (flushAd o.k now).count)).map (·.s.acked) := by
    rw [flush_acked, reattach_acked _ _ l1]
  have h5 := reattach_sbOk _ _ l2 ha5 h4
  unfold flushO
  simp only []
  exact ⟨fun x hx => h.sq x (List.mem_of_mem_drop hx), h5, h.rb, h.rq⟩

/-- alignment of the loop state of Input -/
structure AlignedL (st : InLoopO) : Prop where
  sb : ∀ x ∈ st.sb, SbOk x
  rb : ∀ x ∈ st.rb, Has x
  rq : ∀ x ∈ st.rq, Has x

theorem dropAckedO_mem (l : List SegO) (g : Ghost) : ∀ x ∈ (dropAckedO l g).l, x ∈ l := by
  induction l generalizing g with
  | nil => intro x hx; exact hx
  | cons y rest ih =>
    unfold dropAckedO
    split
    · intro x hx; exact List.mem_cons_of_mem _ (ih _ x hx)
    · intro x hx; exact hx

theorem inAck_acked (m1 : InLoop) (sn ts : U32) :
    (inAck m1 sn ts).k.snd_buf.map (·.acked) = (dropAcked (parseAck m1.k sn).snd_buf).map (·.acked) := by
  obtain ⟨_, b2, _, _⟩ := shrinkBuf_queues (parseAck m1.k sn)
  unfold inAck
  simp only []
  rw [← b2]
  unfold parseFastack
  split
  · rfl
  · exact fastLoop_acked _ _ _ _

theorem inBodyO_al (regular : Bool) (data : Bytes) {st : InLoopO} (hs : SyncL st) (h : AlignedL st) :
    AlignedL (inBodyO regular data st) := by
  have hu : ∀ x ∈ (dropAckedO (unaO (rd32 data 16) st.sb st.gh).l (unaO (rd32 data 16) st.sb st.gh).g).l, SbOk x :=
    fun x hx => h.sb x (unaO_mem _ _ _ x (dropAckedO_mem _ _ x hx))
  have hue := unaShrinkO_er regular (rd16 data 6) (rd32 data 16) hs.sb
  unfold inBodyO
  simp only []
  generalize dropAckedO (unaO (rd32 data 16) st.sb st.gh).l (unaO (rd32 data 16) st.sb st.gh).g = u at hu hue ⊢
  split
  · -- ACK
    rename_i hc
    have hb : inBody regular data st.m = inAck (inSt1 regular (rd16 data 6) (rd32 data 16) st.m) (rd32 data 12) (rd32 data 8) := by
      unfold inBody; simp only []; rw [if_pos hc]
    obtain ⟨_, _, _, a4⟩ := inAck_queues (inSt1 regular (rd16 data 6) (rd32 data 16) st.m) (rd32 data 12) (rd32 data 8)
    have hae := ackO_er (inSt1 regular (rd16 data 6) (rd32 data 16) st.m).k (rd32 data 12) u hue
    have hl := congrArg List.length hae
    rw [er_length] at hl
    have hak := inAck_acked (inSt1 regular (rd16 data 6) (rd32 data 16) st.m) (rd32 data 12) (rd32 data 8)
    rw [← hb, ← hae, map_acked_er] at hak
    have ha0 : ∀ x ∈ (if itimediff (rd32 data 12) (inSt1 regular (rd16 data 6) (rd32 data 16) st.m).k.snd_una < 0 ∨
          itimediff (rd32 data 12) (inSt1 regular (rd16 data 6) (rd32 data 16) st.m).k.snd_nxt ≥ 0
          then u else ackLoopO (rd32 data 12) u.l u.g).l, SbOk x := by
      split
      · exact hu
      · exact ackLoopO_sbOk _ _ _ hu
    refine ⟨?_, h.rb, h.rq⟩
    show ∀ x ∈ reattach (inBody regular data st.m).k.snd_buf _, SbOk x
    exact reattach_sbOk _ _ (by rw [hb, a4, hl]) hak (fun x hx => ha0 x (dropAckedO_mem _ _ x hx))
  · split
    · split
      · obtain ⟨d1, d2⟩ := parseDataO_has (inSt1 regular (rd16 data 6) (rd32 data 16) st.m).k
          { conv := rd32 data 0, cmd := BitVec.ofNat 8 (byteAt data 4), frg := BitVec.ofNat 8 (byteAt data 5), wnd := rd16 data 6,
            ts := rd32 data 8, sn := rd32 data 12, una := rd32 data 16,
            data := (data.drop IKCP_OVERHEAD).take (rd32 data 20).toNat }
          st.rb st.rq u.g h.rb h.rq
        exact ⟨hu, d1, d2⟩
      · exact ⟨hu, h.rb, h.rq⟩
    · exact ⟨hu, h.rb, h.rq⟩

theorem inputLoopO_al (regular : Bool) (fuel : Nat) (data : Bytes) {st : InLoopO} (hs : SyncL st) (h : AlignedL st) :
    AlignedL (inputLoopO regular fuel data st) := by
  induction fuel generalizing data st with
  | zero => exact h
  | succ fuel ih =>
    unfold inputLoopO
    split; · exact h
    split; · exact ⟨h.sb, h.rb, h.rq⟩
    split; · exact ⟨h.sb, h.rb, h.rq⟩
    split; · exact ⟨h.sb, h.rb, h.rq⟩
    split
    · exact inBodyO_al regular data hs h
    · exact ih _ (inBodyO_sync regular data hs) (inBodyO_al regular data hs h)

theorem inputO_al {o : KcpO} (hs : Sync o) (h : Aligned o) (data : Bytes) (regular ackNoDelay : Bool) (now : U32) :
    Aligned (inputO o data regular ackNoDelay now).o := by
  unfold inputO
  simp only []
  split
  · exact h
  have hl : SyncL (inputLoopO regular (data.length / IKCP_OVERHEAD + 1) data
      { m := { k := o.k }, sb := o.sb, rb := o.rb, rq := o.rq, gh := o.gh }) :=
    inputLoopO_sync regular _ data ⟨hs.sb, hs.rb, hs.rq⟩
  have hq : (inputLoopO regular (data.length / IKCP_OVERHEAD + 1) data
      { m := { k := o.k }, sb := o.sb, rb := o.rb, rq := o.rq, gh := o.gh }).m.k.snd_queue = er o.sq := by
    rw [inputLoopO_m, inputLoop_snd_queue]; exact hs.sq
  have ha := inputLoopO_al regular (data.length / IKCP_OVERHEAD + 1) data
    (st := { m := { k := o.k }, sb := o.sb, rb := o.rb, rq := o.rq, gh := o.gh })
    ⟨hs.sb, hs.rb, hs.rq⟩ ⟨h.sb, h.rb, h.rq⟩
  generalize inputLoopO regular (data.length / IKCP_OVERHEAD + 1) data
      { m := { k := o.k }, sb := o.sb, rb := o.rb, rq := o.rq, gh := o.gh } = st at hl hq ha
  have h1 : Aligned { k := st.m.k, sq := o.sq, sb := st.sb, rb := st.rb, rq := st.rq, gh := st.gh } :=
    ⟨h.sq, ha.sb, ha.rb, ha.rq⟩
  have s1 : Sync { k := st.m.k, sq := o.sq, sb := st.sb, rb := st.rb, rq := st.rq, gh := st.gh } :=
    ⟨hq, hl.sb, hl.rb, hl.rq⟩
  split; · exact h1
  split; · exact h1
  obtain ⟨a1, a2, a3, a4⟩ := inputK1_queues st.m regular now
  obtain ⟨b1, b2, b3, b4⟩ := cwndOnAck_queues (inputK1 st.m regular now) o.k.snd_una
  have s2 : Sync { k := cwndOnAck (inputK1 st.m regular now) o.k.snd_una, sq := o.sq, sb := st.sb, rb := st.rb,
                     rq := st.rq, gh := st.gh } :=
    s1.setK (b1.trans a1) (b2.trans a2) (b3.trans a3) (b4.trans a4)
  have h2 : Aligned { k := cwndOnAck (inputK1 st.m regular now) o.k.snd_una, sq := o.sq, sb := st.sb, rb := st.rb,
                        rq := st.rq, gh := st.gh } := h1.setK _
  split; · exact flushO_al s2 h2 _ _
  split; · exact flushO_al s2 h2 _ _
  split; · exact flushO_al s2 h2 _ _
  exact h2

theorem updateO_al {o : KcpO} (hs : Sync o) (h : Aligned o) (now : U32) : Aligned (updateO o now).o := by
  obtain ⟨u, t, hk⟩ := updK2_shape o.k now
  unfold updateO
  split
  · apply flushO_al _ (h.setK _)
    apply hs.setK <;> (rw [hk])
  · exact h.setK _

end KcpVerif.Own
