/-
C05 (FEC part) — the FEC decoder cannot crash or bloat on ARBITRARY (forged) packets.

Object: `Model/Fec.Decoder.decode` (fec.go `fecDecoder.decode`).  Core Lean only.

Contents
0. `length_le_of_keys`: pigeonhole (keys `< m`, pairwise different ⇒ at most `m` elements).
1. `slot`, `slot_le`, `slot_inj`: the arithmetic of the discard window.  A shard set with id `j`
   (non-wrapping product `P = j·n < 2^32`) whose age `(A − P) mod 2^32` lies in `[0, K·n]` occupies
   one of `K + 1` slots, and two sets in the same slot have the same id — for ANY horizon `A`
   (`newest·n` is a wrapping product, `newest` may be any 32-bit value).
2. `InvDec`, `heldBytes`, `heldPackets`, `run`.
3. `store`/`lookup`/`discard` lemmas.
4. `inv_new`, `inv_sample`, `inv_retune`, `inv_store_discard`, `decode_total`, `decode_short`.
5. `sets_le`, `held_le`, `heldBytes_le`, `ring_in_range`.
6. `inv_run`, `run_never_panics`.
-/
import KcpVerif.Model.Fec
import KcpVerif.Lemmas.AutoTune

namespace KcpVerif.Lemmas.FecBound
open KcpVerif.Gen KcpVerif.AutoTune KcpVerif.Fec KcpVerif.Lemmas.AutoTune

/-! ## 0. pigeonhole -/

/-- a list whose elements carry pairwise different keys `< m` has at most `m` elements -/
theorem length_le_of_keys {α : Type} (l : List α) (f : α → Nat) (m : Nat)
    (hb : ∀ x ∈ l, f x < m) (hinj : l.Pairwise (fun a b => f a ≠ f b)) : l.length ≤ m := by
  have hnd : (l.map f).Nodup := List.pairwise_map.2 hinj
  have hsub : l.map f ⊆ List.range m := by
    intro k hk
    obtain ⟨x, hx, rfl⟩ := List.mem_map.1 hk
    exact List.mem_range.2 (hb x hx)
  have := hnd.length_le_of_subset hsub
  simpa only [List.length_map, List.length_range] using this

/-- `sum (map f l) ≤ |l| · b` when every `f x ≤ b` -/
theorem sum_map_le {α : Type} (f : α → Nat) (b : Nat) :
    ∀ (l : List α), (∀ x ∈ l, f x ≤ b) → (l.map f).sum ≤ l.length * b
  | [], _ => by simp only [List.map_nil, List.sum_nil, List.length_nil, Nat.zero_mul, Nat.le_refl]
  | x :: rest, h => by
    have h1 := h x (List.mem_cons_self ..)
    have h2 := sum_map_le f b rest (fun y hy => h y (List.mem_cons_of_mem _ hy))
    simp only [List.map_cons, List.sum_cons, List.length_cons, Nat.succ_mul]
    omega

/-! ## 1. the discard window, arithmetically -/

/-- the age `(A − P) mod 2^32` of a product `P` seen from the horizon `A` -/
def ageNat (A P : Nat) : Nat := (2 ^ 32 - P + A) % 2 ^ 32

/-- slot of the non-wrapping product `P = id·n` in the window of ages `[0, K·n]` that ends at the
    horizon `A`: products `≤ A` count down from `A`, products `> A` (seen across the 2^32 wrap)
    count down from `2^32 − 1` and come after them -/
def slot (N A P : Nat) : Nat :=
  if P ≤ A then (A - P) / N else A / N + 1 + (2 ^ 32 - 1 - P) / N

theorem slot_le {N K A j : Nat} (hN : 0 < N) (hA : A < 2 ^ 32) (hP : j * N < 2 ^ 32)
    (hage : ageNat A (j * N) ≤ K * N) : slot N A (j * N) ≤ K := by
  unfold slot
  unfold ageNat at hage
  generalize j * N = P at *
  split
  · next h =>
    have : A - P ≤ K * N := by omega
    calc (A - P) / N ≤ K * N / N := Nat.div_le_div_right this
      _ = K := Nat.mul_div_cancel _ hN
  · next h =>
    have hq := Nat.div_mul_le_self A N
    have hAK : A < K * N := by omega
    have hqK : A / N < K := (Nat.div_lt_iff_lt_mul hN).2 hAK
    have : (2 ^ 32 - 1 - P) / N < K - A / N := by
      rw [Nat.div_lt_iff_lt_mul hN, Nat.sub_mul]
      omega
    omega

theorem eq_of_div_mod {x y N : Nat} (hd : x / N = y / N) (hm : x % N = y % N) : x = y := by
  rw [← Nat.div_add_mod x N, ← Nat.div_add_mod y N, hd, hm]

theorem sub_mul_mod' {x k N : Nat} (h : k * N ≤ x) : (x - k * N) % N = x % N := by
  rw [Nat.mul_comm] at h ⊢
  exact Nat.sub_mul_mod h

theorem slot_inj {N A i j : Nat} (hN : 0 < N) (hi : i * N < 2 ^ 32) (hj : j * N < 2 ^ 32)
    (h : slot N A (i * N) = slot N A (j * N)) : i = j := by
  apply Nat.eq_of_mul_eq_mul_right hN
  unfold slot at h
  have low : ∀ k, (A - k * N) / N ≤ A / N := fun k => Nat.div_le_div_right (Nat.sub_le _ _)
  split at h <;> split at h
  · next h1 h2 =>
    have := eq_of_div_mod h ((sub_mul_mod' h1).trans (sub_mul_mod' h2).symm)
    omega
  · have := low i
    have := Nat.zero_le ((2 ^ 32 - 1 - j * N) / N)
    omega
  · have := low j
    have := Nat.zero_le ((2 ^ 32 - 1 - i * N) / N)
    omega
  · have h' : (2 ^ 32 - 1 - i * N) / N = (2 ^ 32 - 1 - j * N) / N := by omega
    have := eq_of_div_mod h'
      ((sub_mul_mod' (x := 2 ^ 32 - 1) (by omega)).trans (sub_mul_mod' (x := 2 ^ 32 - 1) (by omega)).symm)
    omega

theorem u32_toNat {n : Nat} (hn : n ≤ 256) : (u32 n).toNat = n := by
  simp only [u32, BitVec.toNat_ofNat]; omega

theorem mul_u32_toNat {n : Nat} (hn : n ≤ 256) (x : BitVec 32) (h : x.toNat * n < 2 ^ 32) :
    (x * u32 n).toNat = x.toNat * n := by
  rw [BitVec.toNat_mul, u32_toNat hn, Nat.mod_eq_of_lt h]

/-- a signed age in `[0, K·n]` is the unsigned difference `(newest·n − id·n) mod 2^32` -/
theorem age_toNat {n K : Nat} (hn : n ≤ 256) (nw id : BitVec 32)
    (hid : id.toNat * n < 2 ^ 32)
    (h0 : 0 ≤ itimediff (nw * u32 n) (id * u32 n))
    (h1 : itimediff (nw * u32 n) (id * u32 n) ≤ ((K * n : Nat) : Int)) :
    ageNat (nw * u32 n).toNat (id.toNat * n) ≤ K * n := by
  unfold itimediff at h0 h1
  rw [BitVec.toInt_eq_toNat_cond, BitVec.toNat_sub, mul_u32_toNat hn id hid] at h0 h1
  unfold ageNat
  generalize (nw * u32 n).toNat = A at h0 h1 ⊢
  generalize id.toNat * n = P at h0 h1 hid ⊢
  generalize K * n = B at h0 h1 ⊢
  split at h1 <;> omega

/-! ## 2. the invariant -/

/-- the size/shape invariant of a decoder state; contains the bounds that make "cannot bloat" a
    theorem.  Nothing is assumed about `newest` (any 32-bit value, `newest·n` may wrap). -/
structure InvDec (dec : Decoder) : Prop where
  d_pos : 0 < dec.d
  p_pos : 0 < dec.p
  n_eq : dec.n = dec.d + dec.p
  n_le : dec.n ≤ 256
  paws_eq : dec.paws = pawsOf dec.n
  tune_wf : dec.tune.WF
  ids_distinct : dec.sets.Pairwise (fun a b => a.id ≠ b.id)
  id_small : ∀ s ∈ dec.sets, s.id.toNat * dec.n < 2 ^ 32
  age : ∀ s ∈ dec.sets, 0 ≤ itimediff (dec.newest * u32 dec.n) (s.id * u32 dec.n) ∧
        itimediff (dec.newest * u32 dec.n) (s.id * u32 dec.n) ≤ ((maxShardSets * dec.n : Nat) : Int)
  pkt_count : ∀ s ∈ dec.sets, s.pkts.length < dec.d
  pkt_size : ∀ s ∈ dec.sets, ∀ q ∈ s.pkts, fecHeaderSize ≤ q.length ∧ q.length ≤ mtuLimit

/-- bytes held in shard sets -/
def heldBytes (dec : Decoder) : Nat := (dec.sets.map fun s => (s.pkts.map List.length).sum).sum

/-- packets held -/
def heldPackets (dec : Decoder) : Nat := (dec.sets.map fun s => s.pkts.length).sum

/-- feeding packets, ignoring what is returned -/
def run (C : CodecNew) (dec : Decoder) (pkts : List Bytes) : Decoder :=
  pkts.foldl (fun s q => (s.decode C q).st) dec

theorem InvDec.n_pos {dec : Decoder} (h : InvDec dec) : 0 < dec.n := by
  have := h.d_pos; have := h.n_eq; omega

theorem InvDec.d_le {dec : Decoder} (h : InvDec dec) : dec.d ≤ 255 := by
  have := h.p_pos; have := h.n_eq; have := h.n_le; omega

/-! ## 3. `store`, `lookup`, `discard` -/

theorem mem_store {x s : ShardSet} : ∀ {l : List ShardSet}, s ∈ store x l → s = x ∨ s ∈ l
  | [], h => by
    simp only [store, List.mem_singleton] at h
    exact Or.inl h
  | t :: rest, h => by
    by_cases hc : t.id = x.id
    · simp only [store, hc, beq_self_eq_true, if_true, List.mem_cons] at h
      rcases h with h | h
      · exact Or.inl h
      · exact Or.inr (List.mem_cons_of_mem _ h)
    · have hb : (t.id == x.id) = false := beq_false_of_ne hc
      simp only [store, hb, Bool.false_eq_true, if_false, List.mem_cons] at h
      rcases h with h | h
      · exact Or.inr (h ▸ List.mem_cons_self ..)
      · rcases mem_store h with h | h
        · exact Or.inl h
        · exact Or.inr (List.mem_cons_of_mem _ h)

theorem store_distinct (x : ShardSet) : ∀ {l : List ShardSet},
    l.Pairwise (fun a b => a.id ≠ b.id) → (store x l).Pairwise (fun a b => a.id ≠ b.id)
  | [], _ => by
    simp only [store]
    exact List.pairwise_singleton _ _
  | t :: rest, h => by
    obtain ⟨h1, h2⟩ := List.pairwise_cons.1 h
    by_cases hc : t.id = x.id
    · simp only [store, hc, beq_self_eq_true, if_true]
      exact List.pairwise_cons.2 ⟨fun b hb => hc ▸ h1 b hb, h2⟩
    · have hb : (t.id == x.id) = false := beq_false_of_ne hc
      simp only [store, hb, Bool.false_eq_true, if_false]
      refine List.pairwise_cons.2 ⟨fun b hb => ?_, store_distinct x h2⟩
      rcases mem_store hb with hb | hb
      · rw [hb]; exact hc
      · exact h1 b hb

theorem lookup_mem {id : BitVec 32} {s : ShardSet} : ∀ {l : List ShardSet}, lookup id l = some s → s ∈ l
  | [], h => by simp only [lookup] at h; exact nomatch h
  | t :: rest, h => by
    simp only [lookup] at h
    split at h
    · rw [← Option.some.inj h]; exact List.mem_cons_self ..
    · exact List.mem_cons_of_mem _ (lookup_mem h)

/-- the packets of the set found or created for a shard id are packets of an existing set -/
theorem getD_pkts {id : BitVec 32} {l : List ShardSet} {q : Bytes}
    (h : q ∈ ((lookup id l).getD { id := id, pkts := [] }).pkts) : ∃ s ∈ l, q ∈ s.pkts := by
  cases hl : lookup id l with
  | none => rw [hl] at h; simp only [Option.getD_none, List.not_mem_nil] at h
  | some s => rw [hl] at h; exact ⟨s, lookup_mem hl, h⟩

theorem mem_discard {n : Nat} {nw : BitVec 32} {l : List ShardSet} {s : ShardSet} :
    s ∈ discard n nw l ↔ s ∈ l ∧ 0 ≤ itimediff (nw * u32 n) (s.id * u32 n) ∧
      itimediff (nw * u32 n) (s.id * u32 n) ≤ ((maxShardSets * n : Nat) : Int) := by
  unfold Fec.discard
  simp only [List.mem_filter, Bool.not_eq_true', Bool.or_eq_false_iff, decide_eq_false_iff_not,
    gt_iff_lt, Int.not_lt]
  exact ⟨fun ⟨a, b, c⟩ => ⟨a, c, b⟩, fun ⟨a, b, c⟩ => ⟨a, c, b⟩⟩

/-! ## 4. the step -/

theorem fec_le_mtu : fecHeaderSize ≤ mtuLimit := by decide

theorem maxBody_bound : ∀ (pkts : List Bytes), (∀ q ∈ pkts, q.length ≤ mtuLimit) →
    maxBody pkts + fecHeaderSize ≤ mtuLimit
  | [], _ => by have := fec_le_mtu; simp only [maxBody]; omega
  | q :: rest, h => by
    have h1 := h q (List.mem_cons_self ..)
    have h2 := maxBody_bound rest (fun y hy => h y (List.mem_cons_of_mem _ hy))
    have := fec_le_mtu
    simp only [maxBody, body, List.length_drop]
    omega

/-- the re-slice of the recovery block stays inside a pool buffer while every popped packet is
    at most `mtuLimit` bytes -/
theorem recoverPanics_false (dec : Decoder) (pkts : List Bytes) (h : ∀ q ∈ pkts, q.length ≤ mtuLimit) :
    recoverPanics dec pkts = false := by
  have := maxBody_bound pkts h
  unfold recoverPanics
  rw [Bool.and_eq_false_iff]
  right
  simp only [decide_eq_false_iff_not, gt_iff_lt, Nat.not_lt]
  exact this

theorem inv_new {C : CodecNew} {d p : Nat} {dec : Decoder} (h : Decoder.new C d p = some dec) :
    InvDec dec := by
  unfold Decoder.new at h
  split at h
  · exact nomatch h
  · next hc =>
    have := Option.some.inj h
    subst this
    exact {
      d_pos := by dsimp only; omega
      p_pos := by dsimp only; omega
      n_eq := rfl
      n_le := by dsimp only; omega
      paws_eq := rfl
      tune_wf := wf_init
      ids_distinct := List.Pairwise.nil
      id_small := fun s hs => absurd hs List.not_mem_nil
      age := fun s hs => absurd hs List.not_mem_nil
      pkt_count := fun s hs => absurd hs List.not_mem_nil
      pkt_size := fun s hs => absurd hs List.not_mem_nil }

/-- `Sample` touches the ring only -/
theorem inv_sample {dec : Decoder} (h : InvDec dec) (b : Bool) (q : BitVec 32) :
    InvDec { dec with tune := dec.tune.sample b q } :=
  { h with tune_wf := wf_sample b q h.tune_wf }

/-- a decoder without shard sets: the set clauses are vacuous -/
theorem inv_of_sets_nil {dec : Decoder} (hd : 0 < dec.d) (hp : 0 < dec.p) (hn : dec.n = dec.d + dec.p)
    (hle : dec.n ≤ 256) (hpaws : dec.paws = pawsOf dec.n) (hw : dec.tune.WF) (hs : dec.sets = []) :
    InvDec dec :=
  { d_pos := hd, p_pos := hp, n_eq := hn, n_le := hle, paws_eq := hpaws, tune_wf := hw
    ids_distinct := by rw [hs]; exact List.Pairwise.nil
    id_small := fun s h => by rw [hs] at h; exact absurd h List.not_mem_nil
    age := fun s h => by rw [hs] at h; exact absurd h List.not_mem_nil
    pkt_count := fun s h => by rw [hs] at h; exact absurd h List.not_mem_nil
    pkt_size := fun s h => by rw [hs] at h; exact absurd h List.not_mem_nil }

/-- the tuning branch re-establishes the invariant: same configuration, or a new ratio with
    `0 < d`, `0 < p`, `d + p < 256` and no shard sets -/
theorem inv_retune (C : CodecNew) {dec : Decoder} (h : InvDec dec) (seq : BitVec 32) :
    InvDec (retune C dec seq) := by
  unfold retune
  dsimp only
  split
  · next hc =>
    obtain ⟨h1, h2, h3⟩ := hc
    split
    · exact inv_of_sets_nil (by dsimp only; omega) (by dsimp only; omega) rfl (by dsimp only; omega)
        rfl h.tune_wf rfl
    · exact { h with }
  · exact { h with }

/-- the duplicate branch: `newest := base` -/
theorem inv_rebase {dec : Decoder} (h : InvDec dec) (sid : BitVec 32) :
    InvDec { dec with newest := if dec.sets.isEmpty then sid else dec.newest } := by
  by_cases he : dec.sets.isEmpty = true
  · exact inv_of_sets_nil h.d_pos h.p_pos h.n_eq h.n_le h.paws_eq h.tune_wf (List.isEmpty_iff.1 he)
  · have hb : dec.sets.isEmpty = false := by simpa only [Bool.not_eq_true] using he
    simp only [hb, Bool.false_eq_true, if_false]
    exact { h with }

/-- the shard id `seq / n` times `n` does not wrap -/
theorem shardId_small {n : Nat} (hn : n ≤ 256) (seq : BitVec 32) :
    (seq / u32 n).toNat * n < 2 ^ 32 := by
  rw [BitVec.toNat_udiv, u32_toNat hn]
  have := Nat.div_mul_le_self seq.toNat n
  have := seq.isLt
  omega

/-- the store branch: store the (emptied or extended) set under its id, move the horizon to ANY
    value `nw`, discard by age -/
theorem inv_store_discard {dec : Decoder} (h : InvDec dec) (sid nw : BitVec 32) (pk : List Bytes)
    (hsid : sid.toNat * dec.n < 2 ^ 32) (hcount : pk.length < dec.d)
    (hsize : ∀ q ∈ pk, fecHeaderSize ≤ q.length ∧ q.length ≤ mtuLimit) :
    InvDec { dec with sets := discard dec.n nw (store { id := sid, pkts := pk } dec.sets), newest := nw } :=
  { d_pos := h.d_pos, p_pos := h.p_pos, n_eq := h.n_eq, n_le := h.n_le, paws_eq := h.paws_eq
    tune_wf := h.tune_wf
    ids_distinct := List.Pairwise.filter _ (store_distinct _ h.ids_distinct)
    id_small := fun s hs => by
      rcases mem_store (mem_discard.1 hs).1 with e | e
      · rw [e]; exact hsid
      · exact h.id_small s e
    age := fun s hs => (mem_discard.1 hs).2
    pkt_count := fun s hs => by
      rcases mem_store (mem_discard.1 hs).1 with e | e
      · rw [e]; exact hcount
      · exact h.pkt_count s e
    pkt_size := fun s hs => by
      rcases mem_store (mem_discard.1 hs).1 with e | e
      · rw [e]; exact hsize
      · exact h.pkt_size s e }

/-- O3: fewer than `fecHeaderSize` bytes panic (the header reads), the state is untouched — the
    callers' length guard is necessary -/
theorem decode_short (C : CodecNew) (dec : Decoder) (inp : Bytes) (h : inp.length < fecHeaderSize) :
    (dec.decode C inp).panic = true ∧ (dec.decode C inp).st = dec := by
  unfold Decoder.decode
  rw [if_pos h]
  exact ⟨rfl, rfl⟩

/-- the main step: ANY byte string of admissible length, ANY state satisfying the invariant, ANY
    codec constructor — no panic, and the invariant holds again -/
theorem decode_total (C : CodecNew) (dec : Decoder) (inp : Bytes) (h : InvDec dec)
    (h1 : fecHeaderSize ≤ inp.length) (h2 : inp.length ≤ mtuLimit) :
    (dec.decode C inp).panic = false ∧ InvDec (dec.decode C inp).st := by
  have hs := inv_sample h (flag inp == typeData) (seqid inp)
  unfold Decoder.decode
  split
  · omega
  · dsimp only
    split
    · exact ⟨rfl, hs⟩
    · split
      · exact ⟨rfl, inv_retune C hs _⟩
      · split
        · exact ⟨rfl, inv_rebase hs _⟩
        · -- sizes of the packets of the (found or created) set plus the new one
          have hsz : ∀ q ∈ ((lookup (seqid inp / u32 dec.n) dec.sets).getD
              { id := seqid inp / u32 dec.n, pkts := [] }).pkts ++ [inp],
              fecHeaderSize ≤ q.length ∧ q.length ≤ mtuLimit := by
            intro q hq
            rcases List.mem_append.1 hq with hq | hq
            · obtain ⟨s, hs', hq'⟩ := getD_pkts hq
              exact h.pkt_size s hs' q hq'
            · rw [List.mem_singleton.1 hq]; exact ⟨h1, h2⟩
          refine ⟨?_, inv_store_discard hs _ _ _ (shardId_small h.n_le _) ?_ ?_⟩
          · rw [Bool.or_eq_false_iff]
            refine ⟨decide_eq_false (by omega), ?_⟩
            rw [Bool.and_eq_false_iff]
            right
            exact recoverPanics_false _ _ (fun q hq => (hsz q hq).2)
          · split
            · exact h.d_pos
            · next hf => simpa only [ge_iff_le, decide_eq_true_eq, Nat.not_le] using hf
          · split
            · exact fun q hq => absurd hq List.not_mem_nil
            · exact hsz

/-! ## 5. the bounds contained in the invariant -/

/-- at most `maxShardSets + 1` shard sets, whatever `newest` is -/
theorem sets_le {dec : Decoder} (h : InvDec dec) : dec.sets.length ≤ maxShardSets + 1 := by
  have hN := h.n_pos
  apply length_le_of_keys dec.sets
    (fun s => slot dec.n (dec.newest * u32 dec.n).toNat (s.id.toNat * dec.n))
  · intro s hs
    obtain ⟨a0, a1⟩ := h.age s hs
    exact Nat.lt_succ_of_le (slot_le hN (dec.newest * u32 dec.n).isLt (h.id_small s hs)
      (age_toNat h.n_le _ _ (h.id_small s hs) a0 a1))
  · refine h.ids_distinct.imp_of_mem ?_
    intro a b ha hb hne heq
    exact hne (BitVec.eq_of_toNat_eq (slot_inj hN (h.id_small a ha) (h.id_small b hb) heq))

/-- held packets: fewer than `d` per set -/
theorem held_le {dec : Decoder} (h : InvDec dec) :
    heldPackets dec ≤ (maxShardSets + 1) * (dec.d - 1) := by
  have h1 := sum_map_le (fun s : ShardSet => s.pkts.length) (dec.d - 1) dec.sets
    (fun s hs => by have := h.pkt_count s hs; omega)
  exact Nat.le_trans h1 (Nat.mul_le_mul_right _ (sets_le h))

theorem held_le_const {dec : Decoder} (h : InvDec dec) : heldPackets dec ≤ (maxShardSets + 1) * 255 :=
  Nat.le_trans (held_le h) (Nat.mul_le_mul_left _ (by have := h.d_le; omega))

/-- held bytes: every packet is at most `mtuLimit` bytes -/
theorem heldBytes_le {dec : Decoder} (h : InvDec dec) :
    heldBytes dec ≤ (maxShardSets + 1) * 255 * mtuLimit := by
  have hset : ∀ s ∈ dec.sets, (s.pkts.map List.length).sum ≤ 255 * mtuLimit := by
    intro s hs
    have h1 := sum_map_le (fun q : Bytes => q.length) mtuLimit s.pkts
      (fun q hq => (h.pkt_size s hs q hq).2)
    have h2 : s.pkts.length ≤ 255 := by have := h.pkt_count s hs; have := h.d_le; omega
    exact Nat.le_trans h1 (Nat.mul_le_mul_right _ h2)
  have h1 := sum_map_le (fun s : ShardSet => (s.pkts.map List.length).sum) (255 * mtuLimit) dec.sets hset
  rw [Nat.mul_assoc]
  exact Nat.le_trans h1 (Nat.mul_le_mul_right _ (sets_le h))

/-- the auto-tune ring: fixed size, and every index the copy loop of `FindPeriod` uses is in range -/
theorem ring_in_range {dec : Decoder} (h : InvDec dec) :
    dec.tune.pulses.length = maxAutoTuneSamples ∧ dec.tune.count ≤ maxAutoTuneSamples ∧
    ∀ i < dec.tune.count, (dec.tune.head + i) % maxAutoTuneSamples < dec.tune.pulses.length := by
  obtain ⟨hlen, _, _, hcount, _⟩ := h.tune_wf
  refine ⟨hlen, hcount, fun i _ => ?_⟩
  rw [hlen]
  exact Nat.mod_lt _ maxAutoTuneSamples_pos

/-! ## 6. histories -/

theorem run_nil (C : CodecNew) (dec : Decoder) : run C dec [] = dec := rfl

theorem run_cons (C : CodecNew) (dec : Decoder) (q : Bytes) (rest : List Bytes) :
    run C dec (q :: rest) = run C (dec.decode C q).st rest := rfl

theorem run_append (C : CodecNew) (dec : Decoder) (l1 l2 : List Bytes) :
    run C dec (l1 ++ l2) = run C (run C dec l1) l2 := by
  simp only [run, List.foldl_append]

/-- the invariant holds along every history of packets of admissible length -/
theorem inv_run (C : CodecNew) {dec : Decoder} (h : InvDec dec) :
    ∀ (pkts : List Bytes), (∀ q ∈ pkts, fecHeaderSize ≤ q.length ∧ q.length ≤ mtuLimit) →
      InvDec (run C dec pkts) := by
  intro pkts
  induction pkts generalizing dec with
  | nil => intro _; exact h
  | cons q rest ih =>
    intro hp
    have hq := hp q (List.mem_cons_self ..)
    rw [run_cons]
    exact ih (decode_total C dec q h hq.1 hq.2).2 (fun r hr => hp r (List.mem_cons_of_mem _ hr))

/-- no call panics along the way: after any prefix of the history the next call returns normally -/
theorem run_never_panics (C : CodecNew) {dec : Decoder} (h : InvDec dec) (pkts : List Bytes)
    (hp : ∀ q ∈ pkts, fecHeaderSize ≤ q.length ∧ q.length ≤ mtuLimit)
    (pre : List Bytes) (q : Bytes) (post : List Bytes) (hsplit : pkts = pre ++ q :: post) :
    ((run C dec pre).decode C q).panic = false := by
  have hpre : ∀ r ∈ pre, fecHeaderSize ≤ r.length ∧ r.length ≤ mtuLimit :=
    fun r hr => hp r (by rw [hsplit]; exact List.mem_append_left _ hr)
  have hq := hp q (by rw [hsplit]; exact List.mem_append_right _ (List.mem_cons_self ..))
  exact (decode_total C _ q (inv_run C h pre hpre) hq.1 hq.2).1

/-- the same with the panic flags accumulated in the fold -/
def runPanics (C : CodecNew) (dec : Decoder) (pkts : List Bytes) : Bool :=
  (pkts.foldl (fun (acc : Decoder × Bool) q =>
    ((acc.1.decode C q).st, acc.2 || (acc.1.decode C q).panic)) (dec, false)).2

theorem runPanics_aux (C : CodecNew) : ∀ (pkts : List Bytes) (dec : Decoder) (b : Bool), InvDec dec →
    (∀ q ∈ pkts, fecHeaderSize ≤ q.length ∧ q.length ≤ mtuLimit) →
    (pkts.foldl (fun (acc : Decoder × Bool) q =>
      ((acc.1.decode C q).st, acc.2 || (acc.1.decode C q).panic)) (dec, b)).2 = b
  | [], _, _, _, _ => rfl
  | q :: rest, dec, b, h, hp => by
    have hq := hp q (List.mem_cons_self ..)
    obtain ⟨e1, e2⟩ := decode_total C dec q h hq.1 hq.2
    simp only [List.foldl_cons, e1, Bool.or_false]
    exact runPanics_aux C rest _ b e2 (fun r hr => hp r (List.mem_cons_of_mem _ hr))

theorem runPanics_false (C : CodecNew) {dec : Decoder} (h : InvDec dec) (pkts : List Bytes)
    (hp : ∀ q ∈ pkts, fecHeaderSize ≤ q.length ∧ q.length ≤ mtuLimit) :
    runPanics C dec pkts = false :=
  runPanics_aux C pkts dec false h hp

end KcpVerif.Lemmas.FecBound
