/-
Drain of C02 for the sub-case "the writer has stopped, the send queue is empty" (repaired model,
arbitrary reachable states): with an empty queue no event other than `Send` numbers a new segment
(`idleq_step`), so once `snd_una` has passed the last numbered segment nothing is waiting.
-/
import KcpVerif.Lemmas.SysDrainHead4

namespace KcpVerif.SysC
open KcpVerif KcpVerif.Gen KcpVerif.Kcp KcpVerif.Live KcpVerif.Wire KcpVerif.SysW KcpVerif.Sys

theorem flush_idleq (k : Kcp) (now : U32) (hq : k.snd_queue = []) :
    (flush k true now).k.snd_queue = [] ∧ (flush k true now).k.snd_nxt = k.snd_nxt := by
  obtain ⟨pw3, tp3, h3⟩ := flF3_frame k now
  have hq3 : (flF3 k now).k.snd_queue = [] := by rw [h3]; exact hq
  have hn3 : (flF3 k now).k.snd_nxt = k.snd_nxt := by rw [h3]
  have had : (flAd k now).queue = [] ∧ (flAd k now).nxt = k.snd_nxt := by
    unfold flAd
    rw [hq3, hn3]
    exact ⟨rfl, rfl⟩
  obtain ⟨pw, tp, st, ss, cw, inc, hk⟩ := flush_frame k true now
  rw [hk]
  exact had

/-- with an empty send queue, no event other than `Send` numbers a new segment -/
theorem idleq_step {p : Par} {s : State} {gab gba : GLink} (h : Cons p s gab gba) (hnw : NoWrap p.base s)
    (hq : s.A.snd_queue = []) (ev : Ev) (hev : isSend ev = false) :
    (Sys.step s ev).A.snd_queue = [] ∧ (Sys.step s ev).A.snd_nxt = s.A.snd_nxt := by
  cases ev with
  | tick =>
    rw [show Sys.step s .tick = (if quiet s then { s with now := s.now + 1 } else s) from rfl]
    split <;> exact ⟨hq, rfl⟩
  | send b => simp [isSend] at hev
  | read =>
    rw [show Sys.step s .read = (if (s.B.recv s.B.peekSize.toNat).n < 0 then s
      else { s with B := (s.B.recv s.B.peekSize.toNat).k, got := s.got ++ (s.B.recv s.B.peekSize.toNat).data }) from rfl]
    split <;> exact ⟨hq, rfl⟩
  | flushA => exact flush_idleq s.A (clk s.now) hq
  | flushB => exact ⟨hq, rfl⟩
  | dlvB =>
    cases hab : s.ab with
    | nil =>
      have : Sys.step s .dlvB = s := by simp only [Sys.step, hab]
      rw [this]; exact ⟨hq, rfl⟩
    | cons d rest =>
      rw [step_dlvB_cons s _ _ hab]
      split <;> exact ⟨hq, rfl⟩
  | dlvA =>
    cases gba with
    | nil =>
      have : Sys.step s .dlvA = s := by simp only [Sys.step, h.hba, encL, List.map_nil]
      rw [this]; exact ⟨hq, rfl⟩
    | cons d0 grest =>
      obtain ⟨t0, frs⟩ := d0
      have hba : s.ba = ⟨t0, encFrames frs⟩ :: encL grest := h.hba
      rw [step_dlvA_cons s _ _ hba]
      split
      · by_cases hne : frs = []
        · subst hne
          simp only [input_empty]
          exact ⟨hq, trivial⟩
        · obtain ⟨hv, hp, hr, _, _, _, _⟩ := cons_inA h hnw (inFrs true frs { k := s.A }).k (Or.inl rfl)
          obtain ⟨k1, hk1, himp⟩ := inputA_cases s.A frs s.ndA (clk s.now) hv hp hr
          obtain ⟨_, _, _, hal, hnx, hsq, hclean⟩ := cons_inA h hnw k1 hk1
          rcases himp hal hclean.aK with hin | hin | ⟨hnil, _⟩
          · simp only [hin]
            exact ⟨by rw [hsq]; exact hq, hnx⟩
          · simp only [hin]
            have h2 := flush_idleq (cwndOnAck k1 s.A.snd_una) (clk s.now) (by rw [hsq]; exact hq)
            exact ⟨h2.1, h2.2.trans hnx⟩
          · exact absurd hnil hne
      · exact ⟨hq, rfl⟩

theorem idleq_run {p : Par} (evs : List Ev) : ∀ (s : State) (gab gba : GLink), Cons p s gab gba →
    RunNoWrap p.base s evs → s.A.snd_queue = [] → (∀ ev ∈ evs, isSend ev = false) →
    (Sys.run s evs).A.snd_queue = [] ∧ (Sys.run s evs).A.snd_nxt = s.A.snd_nxt := by
  induction evs with
  | nil => intro s _ _ _ _ hq _; exact ⟨hq, rfl⟩
  | cons ev rest ih =>
    intro s gab gba h hr hq hns
    obtain ⟨gab', gba', hc⟩ := cons_step h hr.1 ev
    obtain ⟨i1, i2⟩ := idleq_step h hr.1 hq ev (hns ev (List.mem_cons_self ..))
    obtain ⟨j1, j2⟩ := ih _ gab' gba' hc hr.2 i1 (fun e he => hns e (List.mem_cons_of_mem _ he))
    exact ⟨j1, j2.trans i2⟩

theorem cons_run {p : Par} (evs : List Ev) : ∀ (s : State) (gab gba : GLink), Cons p s gab gba →
    RunNoWrap p.base s evs → ∃ gab' gba', Cons p (Sys.run s evs) gab' gba' := by
  induction evs with
  | nil => intro s gab gba h _; exact ⟨gab, gba, h⟩
  | cons ev rest ih =>
    intro s gab gba h hr
    obtain ⟨gab', gba', hc⟩ := cons_step h hr.1 ev
    exact ih _ gab' gba' hc hr.2

theorem runSmallH_noWrap (base : U32) : ∀ (evs : List Ev) (s : State), RunSmallH base s evs → RunNoWrap base s evs := by
  intro evs
  induction evs with
  | nil => intro s h; exact h.1.noWrap
  | cons ev rest ih => intro s h; exact ⟨h.1.1.noWrap, ih _ h.2⟩

/-- **drain, one outstanding segment, empty queue**: the progress step for the last numbered segment is
the drain -/
theorem drain_last {p : Par} {s : State} {gab gba : GLink} (h : Cons p s gab gba) (hs : Side p.base s)
    (hq : s.B.rcv_queue.length < s.B.rcv_wnd.toNat) (x : Seg) (hb : s.A.snd_buf = [x]) (hsq : s.A.snd_queue = [])
    (R T1 IA IB : Nat) (hx : x.xmit = 0 ∨ (x.xmit ≠ 0 ∧ x.resendts = clk R)) (hT : R + IA ≤ T1 ∧ T1 < R + 2 ^ 31)
    (hiv : s.A.interval.toNat = IA) (hnf : s.nfA ≤ T1) (hnw : s.now ≤ T1) (ht : Tm IB s)
    (evs : List Ev) (hns : ∀ ev ∈ evs, isSend ev = false) (hsm : RunSmallH p.base s evs)
    (hnow : T1 + s.D + IB + s.D < (Sys.run s evs).now) :
    (Sys.run s evs).A.waitSnd = 0 := by
  have hhl : s.A.snd_una = x.sn := by
    have := hs.live.1
    unfold HeadLive at this
    rw [hb] at this
    exact this.2
  have hrb : o p.base x.sn ≤ o p.base s.B.rcv_nxt := by
    rw [← hhl]; exact not_behind h hs.srt hs.fix hq
  have hprog := retG3_done h hs.live (o p.base x.sn) R T1 IA IB hT ht
    ⟨⟨x, [], hb, rfl, hx⟩, hiv, hnf, hnw, hrb⟩ evs hsm hnow
  have hrn := runSmallH_noWrap p.base evs s hsm
  obtain ⟨i1, i2⟩ := idleq_run evs s gab gba h hrn hsq hns
  obtain ⟨g1, g2, hc⟩ := cons_run evs s gab gba h hrn
  have hcon := hc.acon
  have h0 := h.acon.2
  rw [hb, hhl] at h0
  simp only [List.length_cons, List.length_nil] at h0
  have h1 := hcon.2
  rw [i2] at h1
  have hlen : (Sys.run s evs).A.snd_buf.length = 0 := by omega
  unfold waitSnd
  rw [i1, hlen]; rfl

end KcpVerif.SysC
