/-
C12 — shift simulation, receive path: moveLoop / moveReady / peekSize / popMsg / recv / send /
heapInsert / parseData.
-/
import KcpVerif.Lemmas.KcpShiftBasic

namespace KcpVerif.Shift
open KcpVerif KcpVerif.Gen KcpVerif.Kcp

@[simp] theorem shRcv_sn (σ : Sigma) (s : Seg) : (shRcv σ s).sn = s.sn + σ.b := rfl
@[simp] theorem shRcv_frg (σ : Sigma) (s : Seg) : (shRcv σ s).frg = s.frg := rfl
@[simp] theorem shRcv_data (σ : Sigma) (s : Seg) : (shRcv σ s).data = s.data := rfl

theorem moveLoop_shift (σ : Sigma) (wnd : Nat) (buf q : List Seg) (nxt : U32) :
    moveLoop wnd (buf.map (shRcv σ)) (q.map (shRcv σ)) (nxt + σ.b) =
      ⟨(moveLoop wnd buf q nxt).buf.map (shRcv σ), (moveLoop wnd buf q nxt).q.map (shRcv σ),
       (moveLoop wnd buf q nxt).nxt + σ.b⟩ := by
  induction buf generalizing q nxt with
  | nil => simp only [List.map_nil, moveLoop]
  | cons s rest ih =>
    simp only [List.map_cons, moveLoop, shRcv_sn, eq_shift, List.length_map]
    split
    · have := ih (q ++ [s]) (nxt + 1)
      simp only [List.map_append, List.map_cons, List.map_nil, ← succ_shift] at this
      exact this
    · simp only [List.map_cons]

theorem moveReady_sim {σ : Sigma} {k k' : Kcp} (h : Sim σ k k') : Sim σ (moveReady k) (moveReady k') := by
  have e : moveLoop k'.rcv_wnd.toNat k'.rcv_buf k'.rcv_queue k'.rcv_nxt =
      ⟨(moveLoop k.rcv_wnd.toNat k.rcv_buf k.rcv_queue k.rcv_nxt).buf.map (shRcv σ),
       (moveLoop k.rcv_wnd.toNat k.rcv_buf k.rcv_queue k.rcv_nxt).q.map (shRcv σ),
       (moveLoop k.rcv_wnd.toNat k.rcv_buf k.rcv_queue k.rcv_nxt).nxt + σ.b⟩ := by
    rw [h.rcv_wnd, h.rcv_buf, h.rcv_queue, h.rcv_nxt, moveLoop_shift]
  unfold moveReady
  exact { h with rcv_buf := congrArg MoveRes.buf e, rcv_queue := congrArg MoveRes.q e,
                 rcv_nxt := congrArg MoveRes.nxt e }

theorem peekSum_shift (σ : Sigma) (l : List Seg) : peekSum (l.map (shRcv σ)) = peekSum l := by
  induction l with
  | nil => rfl
  | cons s rest ih => simp only [List.map_cons, peekSum, shRcv_frg, shRcv_data, ih]

theorem peekSize_sim {σ : Sigma} {k k' : Kcp} (h : Sim σ k k') : peekSize k' = peekSize k := by
  unfold peekSize
  rw [h.rcv_queue]
  cases hq : k.rcv_queue with
  | nil => rfl
  | cons s rest =>
    simp only [List.map_cons, shRcv_frg, shRcv_data, List.length_cons, List.length_map]
    rw [← List.map_cons, peekSum_shift]

theorem popMsg_shift (σ : Sigma) (l : List Seg) :
    popMsg (l.map (shRcv σ)) = ⟨(popMsg l).data, (popMsg l).rest.map (shRcv σ)⟩ := by
  induction l with
  | nil => rfl
  | cons s rest ih =>
    simp only [List.map_cons, popMsg, shRcv_frg, shRcv_data]
    by_cases hc : s.frg = 0
    · simp only [hc, ↓reduceIte]
    · simp only [hc, ↓reduceIte, ih]

/-- the state after a successful `Recv` -/
def recvK (k : Kcp) : Kcp :=
  if (moveReady { k with rcv_queue := (popMsg k.rcv_queue).rest }).rcv_queue.length
        < (moveReady { k with rcv_queue := (popMsg k.rcv_queue).rest }).rcv_wnd.toNat
      ∧ k.rcv_queue.length ≥ k.rcv_wnd.toNat then
    { moveReady { k with rcv_queue := (popMsg k.rcv_queue).rest } with
      probe := (moveReady { k with rcv_queue := (popMsg k.rcv_queue).rest }).probe ||| u32 IKCP_ASK_TELL }
  else moveReady { k with rcv_queue := (popMsg k.rcv_queue).rest }

theorem recv_eq (k : Kcp) (buflen : Nat) :
    recv k buflen = if peekSize k < 0 then ⟨k, -1, []⟩ else if peekSize k > buflen then ⟨k, -2, []⟩
      else ⟨recvK k, (popMsg k.rcv_queue).data.length, (popMsg k.rcv_queue).data⟩ := by
  unfold recv recvK
  simp only [decide_eq_true_eq]

theorem recvK_sim {σ : Sigma} {k k' : Kcp} (h : Sim σ k k') : Sim σ (recvK k) (recvK k') := by
  have hq : popMsg k'.rcv_queue = ⟨(popMsg k.rcv_queue).data, (popMsg k.rcv_queue).rest.map (shRcv σ)⟩ := by
    rw [h.rcv_queue, popMsg_shift]
  have h1 : Sim σ { k with rcv_queue := (popMsg k.rcv_queue).rest }
      { k' with rcv_queue := (popMsg k'.rcv_queue).rest } :=
    { h with rcv_queue := congrArg PopRes.rest hq }
  have h2 := moveReady_sim h1
  have hlen : k'.rcv_queue.length = k.rcv_queue.length := by rw [h.rcv_queue, List.length_map]
  have hlen2 := congrArg List.length h2.rcv_queue
  rw [List.length_map] at hlen2
  unfold recvK
  generalize moveReady { k with rcv_queue := (popMsg k.rcv_queue).rest } = K1 at h2 hlen2 ⊢
  generalize moveReady { k' with rcv_queue := (popMsg k'.rcv_queue).rest } = K1' at h2 hlen2 ⊢
  have hc : (K1'.rcv_queue.length < K1'.rcv_wnd.toNat ∧ k'.rcv_queue.length ≥ k'.rcv_wnd.toNat) ↔
      (K1.rcv_queue.length < K1.rcv_wnd.toNat ∧ k.rcv_queue.length ≥ k.rcv_wnd.toNat) := by
    rw [hlen, hlen2, h2.rcv_wnd, h.rcv_wnd]
  simp only [hc]
  by_cases c : K1.rcv_queue.length < K1.rcv_wnd.toNat ∧ k.rcv_queue.length ≥ k.rcv_wnd.toNat
  · simp only [c, and_self, ↓reduceIte]
    exact { h2 with probe := congrArg (· ||| u32 IKCP_ASK_TELL) h2.probe }
  · simp only [c, ↓reduceIte]
    exact h2

theorem recv_sim {σ : Sigma} {k k' : Kcp} (h : Sim σ k k') (buflen : Nat) :
    Sim σ (recv k buflen).k (recv k' buflen).k ∧ (recv k' buflen).n = (recv k buflen).n ∧
      (recv k' buflen).data = (recv k buflen).data := by
  have hq : popMsg k'.rcv_queue = ⟨(popMsg k.rcv_queue).data, (popMsg k.rcv_queue).rest.map (shRcv σ)⟩ := by
    rw [h.rcv_queue, popMsg_shift]
  have hd : (popMsg k'.rcv_queue).data = (popMsg k.rcv_queue).data := by rw [hq]
  rw [recv_eq, recv_eq, peekSize_sim h, hd]
  by_cases c1 : peekSize k < 0
  · simp only [c1, ↓reduceIte]; exact ⟨h, trivial, trivial⟩
  by_cases c2 : peekSize k > buflen
  · simp only [c1, c2, ↓reduceIte]; exact ⟨h, trivial, trivial⟩
  simp only [c1, c2, ↓reduceIte]
  exact ⟨recvK_sim h, trivial, trivial⟩

theorem frame_ite {k : Kcp} {c : Prop} [Decidable c] {x y : SendRes}
    (hx : ∃ q, x.k = { k with snd_queue := q }) (hy : ∃ q, y.k = { k with snd_queue := q }) :
    ∃ q, (if c then x else y).k = { k with snd_queue := q } := by
  split <;> assumption

/-- `Send` touches nothing but `snd_queue` -/
theorem send_frame (k : Kcp) (b : Bytes) : ∃ q, (send k b).k = { k with snd_queue := q } := by
  unfold send
  simp only []
  repeat (first | exact ⟨_, rfl⟩ | apply frame_ite)

/-- `Send` reads nothing but `mss`, `stream`, `snd_queue` (no sequence number, no clock) -/
theorem send_congr (k k' : Kcp) (hm : k'.mss = k.mss) (hs : k'.stream = k.stream)
    (hq : k'.snd_queue = k.snd_queue) (b : Bytes) :
    (send k' b).ret = (send k b).ret ∧ (send k' b).panic = (send k b).panic ∧
      (send k' b).k.snd_queue = (send k b).k.snd_queue := by
  unfold send
  simp only [hm, hs, hq, apply_ite SendRes.ret, apply_ite SendRes.panic, apply_ite SendRes.k, apply_ite Kcp.snd_queue]
  exact ⟨trivial, trivial, trivial⟩

theorem fresh_ite {c : Prop} [Decidable c] {x y : SendRes}
    (hx : Fresh x.k.snd_queue) (hy : Fresh y.k.snd_queue) : Fresh (if c then x else y).k.snd_queue := by
  split <;> assumption

theorem fresh_append {l₁ l₂ : List Seg} (h₁ : Fresh l₁) (h₂ : Fresh l₂) : Fresh (l₁ ++ l₂) := by
  intro s hs
  rcases List.mem_append.mp hs with h | h
  · exact h₁ s h
  · exact h₂ s h

theorem fresh_mkSegs (mss : Nat) (st : Bool) (c : Nat) (b : Bytes) : Fresh (mkSegs mss st c b) := by
  induction c generalizing b with
  | zero => intro s hs; simp only [mkSegs, List.not_mem_nil] at hs
  | succ c ih =>
    intro s hs
    simp only [mkSegs, List.mem_cons] at hs
    rcases hs with h | h
    · rw [h]
    · exact ih _ s h

theorem fresh_setLast {l : List Seg} {s : Seg} (hl : Fresh l) (hs : s.xmit = 0) : Fresh (setLast l s) := by
  intro x hx
  simp only [setLast, List.mem_append, List.mem_cons, List.not_mem_nil, or_false] at hx
  rcases hx with h | h
  · exact hl x (List.dropLast_subset l h)
  · rw [h]; exact hs

theorem send_fresh (k : Kcp) (b : Bytes) (h : Fresh k.snd_queue) : Fresh (send k b).k.snd_queue := by
  have hq1 : ∀ ext : Nat, Fresh (if ext > 0 then
      match k.snd_queue.getLast? with
      | some s => setLast k.snd_queue { s with data := s.data ++ b.take ext }
      | none => k.snd_queue
    else k.snd_queue) := by
    intro ext
    split
    · split
      · rename_i s hs
        exact fresh_setLast h (h s (List.mem_of_getLast? hs))
      · exact h
    · exact h
  unfold send
  simp only []
  repeat (first | exact h | exact hq1 _ | exact fresh_append (hq1 _) (fresh_mkSegs _ _ _ _) | apply fresh_ite)

theorem send_sim {σ : Sigma} {k k' : Kcp} (h : Sim σ k k') (buffer : Bytes) :
    Sim σ (send k buffer).k (send k' buffer).k ∧ (send k' buffer).ret = (send k buffer).ret ∧
      (send k' buffer).panic = (send k buffer).panic := by
  obtain ⟨hr, hp, hq⟩ := send_congr k k' h.mss h.stream h.snd_queue buffer
  refine ⟨?_, hr, hp⟩
  have hf := send_fresh k buffer h.fresh
  obtain ⟨q, e⟩ := send_frame k buffer
  obtain ⟨q', e'⟩ := send_frame k' buffer
  rw [e, e'] at hq
  rw [e] at hf
  rw [e, e']
  exact { h with snd_queue := hq, fresh := hf }

theorem heapInsert_shift (σ : Sigma) (s : Seg) (l : List Seg) :
    heapInsert (shRcv σ s) (l.map (shRcv σ)) = (heapInsert s l).map (shRcv σ) := by
  induction l with
  | nil => rfl
  | cons x rest ih =>
    simp only [List.map_cons, heapInsert, shRcv_sn, itd_shift]
    by_cases hc : itimediff x.sn s.sn > 0
    · simp only [hc, ↓reduceIte, List.map_cons]
    · simp only [hc, ↓reduceIte, List.map_cons, ih]

theorem any_sn_shift (σ : Sigma) (sn : U32) (l : List Seg) :
    (l.map (shRcv σ)).any (fun x => x.sn = sn + σ.b) = l.any (fun x => x.sn = sn) := by
  induction l with
  | nil => rfl
  | cons x rest ih => simp only [List.map_cons, List.any_cons, shRcv_sn, eq_shift, ih]

theorem parseData_sim {σ : Sigma} {k k' : Kcp} (h : Sim σ k k') (s : Seg) :
    Sim σ (parseData k s).k (parseData k' (shRcv σ s)).k ∧
      (parseData k' (shRcv σ s)).rep = (parseData k s).rep ∧
      (parseData k' (shRcv σ s)).panic = (parseData k s).panic := by
  have c1 : itimediff (shRcv σ s).sn (k'.rcv_nxt + k'.rcv_wnd) = itimediff s.sn (k.rcv_nxt + k.rcv_wnd) := by
    rw [h.rcv_nxt, h.rcv_wnd, shRcv_sn, itd_shift_add]
  have c2 : itimediff (shRcv σ s).sn k'.rcv_nxt = itimediff s.sn k.rcv_nxt := by
    rw [h.rcv_nxt, shRcv_sn, itd_shift]
  have c3 : k'.rcv_buf.any (fun x => x.sn = (shRcv σ s).sn) = k.rcv_buf.any (fun x => x.sn = s.sn) := by
    rw [h.rcv_buf]; exact any_sn_shift σ s.sn k.rcv_buf
  unfold parseData
  simp only [c1, c2, c3, shRcv_data]
  by_cases d1 : itimediff s.sn (k.rcv_nxt + k.rcv_wnd) ≥ 0 ∨ itimediff s.sn k.rcv_nxt < 0
  · simp only [d1, ↓reduceIte]; exact ⟨h, trivial, trivial⟩
  cases d2 : (k.rcv_buf.any (fun x => x.sn = s.sn))
  case true => simp only [d1, ↓reduceIte]; exact ⟨moveReady_sim h, trivial, trivial⟩
  by_cases d3 : s.data.length > mtuLimit
  · simp only [d1, d3, Bool.false_eq_true, ↓reduceIte]; exact ⟨h, trivial, trivial⟩
  simp only [d1, d3, Bool.false_eq_true, ↓reduceIte]
  refine ⟨?_, trivial, trivial⟩
  apply moveReady_sim
  have e : heapInsert (shRcv σ s) k'.rcv_buf = (heapInsert s k.rcv_buf).map (shRcv σ) := by
    rw [h.rcv_buf, heapInsert_shift]
  exact { h with rcv_buf := e }

end KcpVerif.Shift
