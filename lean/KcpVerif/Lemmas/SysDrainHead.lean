/-
The progress step of C02 for the head segment in general (repaired model, arbitrary consistent
states, B not behind A's head): per-endpoint and single-event lemmas.

On the repaired model an individual ACK for the HEAD of the send buffer releases it (it is flagged, and
`shrink_buf` discards flagged heads), so the acknowledgement that lets `snd_una` pass `U` is any frame
with `una` beyond `U` OR an ACK for the segment `U` itself.  B owes one as soon as its ack list holds an
entry for `U` (the jitter filter keeps entries at or beyond `rcv_nxt`) or it has passed `U` and the list
is not empty — whether or not the segment could be moved to the delivery queue.
-/
import KcpVerif.Lemmas.SysDrainTimer2

namespace KcpVerif.SysC
open KcpVerif KcpVerif.Gen KcpVerif.Kcp KcpVerif.Live KcpVerif.Wire KcpVerif.SysW KcpVerif.Sys

/-- the frame releases the segment with offset `U` when it reaches A -/
def Rel (base : U32) (U : Nat) (fr : Frm) : Prop :=
  U < o base fr.una ∨ (fr.cmd.toNat = IKCP_CMD_ACK ∧ o base fr.sn = U)

/-- B owes a frame that releases `U` -/
def Owe (base : U32) (U : Nat) (k : Kcp) : Prop :=
  (U < o base k.rcv_nxt ∧ k.acklist ≠ []) ∨ ∃ a ∈ k.acklist, o base a.sn = U

/-! ### phase C: what B's flush writes -/

theorem ackFrs_contains (conv : U32) (cmd : BitVec 8) (wnd : BitVec 16) (una rn : U32) (total : Nat) :
    ∀ (l : List Ack) (i : Nat) (a : Ack), a ∈ l → itimediff a.sn rn ≥ 0 →
      (⟨conv, cmd, 0, wnd, a.ts, a.sn, una, []⟩ : Frm) ∈ ackFrs conv cmd wnd una rn total l i := by
  intro l
  induction l with
  | nil => intro i a h; simp at h
  | cons b rest ih =>
    intro i a ha hge
    unfold ackFrs
    rcases List.mem_cons.mp ha with rfl | ha
    · apply List.mem_append_left
      rw [if_pos (Or.inl hge)]
      exact List.mem_singleton.mpr rfl
    · exact List.mem_append_right _ (ih (i + 1) a ha hge)

/-- a flush of B that owes for `U` writes a frame that releases `U` -/
theorem owe_flush (base : U32) (U : Nat) (k : Kcp) (h : Owe base U k) (hU : U ≤ o base k.rcv_nxt) :
    ∃ fr ∈ ackFrsOf k, Rel base U fr := by
  rcases h with ⟨h1, h2⟩ | ⟨a, ha, hau⟩
  · obtain ⟨fr0, rest0, hf0⟩ := List.exists_cons_of_ne_nil (ackFrsOf_ne_nil k h2)
    have hm0 : fr0 ∈ ackFrsOf k := by rw [hf0]; exact List.mem_cons_self ..
    exact ⟨fr0, hm0, Or.inl (by rw [(ackFrsOf_mem k fr0 hm0).2.2.1]; exact h1)⟩
  · by_cases hlt : U < o base k.rcv_nxt
    · have hne : k.acklist ≠ [] := by intro hc; rw [hc] at ha; simp at ha
      obtain ⟨fr0, rest0, hf0⟩ := List.exists_cons_of_ne_nil (ackFrsOf_ne_nil k hne)
      have hm0 : fr0 ∈ ackFrsOf k := by rw [hf0]; exact List.mem_cons_self ..
      exact ⟨fr0, hm0, Or.inl (by rw [(ackFrsOf_mem k fr0 hm0).2.2.1]; exact hlt)⟩
    · have heq : a.sn = k.rcv_nxt := o_inj base _ _ (by omega)
      have hge : itimediff a.sn k.rcv_nxt ≥ 0 := by rw [heq, itimediff_self]; omega
      refine ⟨_, ackFrs_contains k.conv (BitVec.ofNat 8 IKCP_CMD_ACK) (wndUnused k) k.rcv_nxt k.rcv_nxt k.acklist.length
        k.acklist 0 a ha hge,
        Or.inr ⟨show (BitVec.ofNat 8 IKCP_CMD_ACK).toNat = IKCP_CMD_ACK by decide, hau⟩⟩

/-! ### phase D: an ACK for the head releases it -/

theorem shrinkBuf_acked_head (k : Kcp) (x : Seg) (rest : List Seg) (hb : k.snd_buf = x :: rest) (ha : x.acked = true) :
    shrinkBuf k = shrinkBuf { k with snd_buf := k.snd_buf.drop 1 } := by
  rw [shrinkBuf_eq, shrinkBuf_eq]
  have e : dropAcked k.snd_buf = dropAcked (k.snd_buf.drop 1) := by
    rw [hb]; simp only [List.drop_succ_cons, List.drop_zero]
    rw [dropAcked, if_pos ha]
  simp only [e]

/-- an ACK for the live head: `snd_una` moves on -/
theorem ack_head_release (base : U32) (P : Kcp) (hc : Contig base P) (hh : HeadLive P) (hN : o base P.snd_nxt < 2 ^ 31)
    (sn : U32) (hsn : o base sn = o base P.snd_una) (hne : o base P.snd_una < o base P.snd_nxt) :
    o base P.snd_una < o base (shrinkBuf (parseAck P sn)).snd_una := by
  cases hb : P.snd_buf with
  | nil =>
    exfalso
    have := hc.2
    rw [hb] at this
    simp at this
    omega
  | cons x rest =>
    unfold HeadLive at hh
    rw [hb] at hh
    have hsx : sn = x.sn := by rw [← hh.2]; exact o_inj base _ _ hsn
    have hpa : parseAck P sn = { P with snd_buf := { x with acked := true, data := [] } :: rest } := by
      unfold parseAck
      have h1 : ¬ (itimediff sn P.snd_una < 0 ∨ itimediff sn P.snd_nxt ≥ 0) := by
        have e1 := itd base sn P.snd_una (by omega) (by omega)
        have e2 := itd base sn P.snd_nxt (by omega) hN
        omega
      rw [if_neg h1, hb]
      unfold ackLoop
      rw [if_pos hsx]
    rw [hpa]
    have hcon : Contig base ({ P with snd_buf := { x with acked := true, data := [] } :: rest } : Kcp) := by
      have := hc
      unfold Contig at this ⊢
      rw [hb] at this
      exact this
    rw [shrinkBuf_acked_head _ { x with acked := true, data := [] } rest rfl rfl]
    have := shrink_una_ge base ({ P with snd_buf := { x with acked := true, data := [] } :: rest } : Kcp) 1
      (by simp) hcon
    exact this

/-- one frame that releases `U`, at a sender whose `snd_una` is not before `U` -/
theorem inFr_rel (base conv : U32) (hasP : U32 → Prop) (U : Nat) (st : InLoop) (fr : Frm)
    (h : SndOk base conv hasP st.k) (hN : o base st.k.snd_nxt < 2 ^ 31) (hU : U ≤ o base st.k.snd_una)
    (hcmd : fr.cmd.toNat = IKCP_CMD_ACK ∨ fr.cmd.toNat = IKCP_CMD_WASK ∨ fr.cmd.toNat = IKCP_CMD_WINS)
    (hu : o base fr.una ≤ o base st.k.snd_nxt) (huna : ∀ sn, o base sn < o base fr.una → hasP sn)
    (hack : fr.cmd.toNat = IKCP_CMD_ACK → hasP fr.sn ∧ o base fr.sn < o base st.k.snd_nxt)
    (hrel : Rel base U fr) : U < o base (inFr true st fr).k.snd_una := by
  rcases hrel with hr | ⟨hA, hsn⟩
  · have := inFr_snd_una_ge base conv hasP st fr h hN hcmd hu huna (fun hc => (hack hc).1)
    omega
  · -- an ACK for the segment `U`
    have hK1 : SndOk base conv hasP { st.k with rmt_wnd := fr.wnd.setWidth 32 } := ⟨h.con, h.tag, h.akd, h.rel⟩
    have hpre : ∀ x ∈ st.k.snd_buf.take (unaCount fr.una st.k.snd_buf), hasP x.sn := by
      intro x hx
      have h1 := unaCount_take fr.una st.k.snd_buf x hx
      have h2 := h.con.mem (List.mem_of_mem_take hx)
      have := itd base fr.una x.sn (by omega) (by omega)
      exact huna x.sn (by omega)
    obtain ⟨p1, p2, p3⟩ := hK1.shrink hN (unaCount fr.una st.k.snd_buf) (unaCount_le' _ _) hpre
    have hP : inPre true fr.wnd fr.una st.k =
        shrinkBuf { ({ st.k with rmt_wnd := fr.wnd.setWidth 32 } : Kcp) with
          snd_buf := st.k.snd_buf.drop (unaCount fr.una st.k.snd_buf) } := rfl
    rw [← hP] at p1 p2 p3
    have p2 : o base st.k.snd_una ≤ o base (inPre true fr.wnd fr.una st.k).snd_una := p2
    have hnxP : (inPre true fr.wnd fr.una st.k).snd_nxt = st.k.snd_nxt := by
      obtain ⟨r, sb, su, pr, e⟩ := p3
      rw [e]
    have hk : (inFr true st fr).k =
        (parseFastack (shrinkBuf (parseAck (inPre true fr.wnd fr.una st.k) fr.sn)) fr.sn fr.ts).1 := by
      unfold inFr
      rw [inStep_k, if_pos hA]
    obtain ⟨b2, eb2, _⟩ := parseFastack_rel fr.sn (shrinkBuf (parseAck (inPre true fr.wnd fr.una st.k) fr.sn)) fr.sn fr.ts
    rw [hk, eb2]
    show U < o base (shrinkBuf (parseAck (inPre true fr.wnd fr.una st.k) fr.sn)).snd_una
    by_cases hgt : U < o base (inPre true fr.wnd fr.una st.k).snd_una
    · -- already past `U`: the rest of the step only moves forward
      obtain ⟨b, eb, mb⟩ := parseAck_rel (inPre true fr.wnd fr.una st.k) fr.sn
      have q1 : SndOk base conv hasP { inPre true fr.wnd fr.una st.k with snd_buf := b } := p1.mark mb (hack hA).1
      have h2 := shrink_una_ge base { inPre true fr.wnd fr.una st.k with snd_buf := b } 0 (Nat.zero_le _) q1.con
      have e0 : shrinkBuf { ({ inPre true fr.wnd fr.una st.k with snd_buf := b } : Kcp) with
          snd_buf := ({ inPre true fr.wnd fr.una st.k with snd_buf := b } : Kcp).snd_buf.drop 0 } =
          shrinkBuf (parseAck (inPre true fr.wnd fr.una st.k) fr.sn) := by rw [eb]; rfl
      rw [e0] at h2
      have h2' : o base (inPre true fr.wnd fr.una st.k).snd_una ≤
          o base (shrinkBuf (parseAck (inPre true fr.wnd fr.una st.k) fr.sn)).snd_una := by
        have : o base ({ inPre true fr.wnd fr.una st.k with snd_buf := b } : Kcp).snd_una + 0 ≤ _ := h2
        exact this
      omega
    · have heq : o base (inPre true fr.wnd fr.una st.k).snd_una = U := by omega
      have := ack_head_release base (inPre true fr.wnd fr.una st.k) p1.con (by unfold inPre; exact shrinkBuf_headLive _)
        (by rw [hnxP]; exact hN) fr.sn (by rw [hsn, heq]) (by rw [heq, hnxP, ← hsn]; exact (hack hA).2)
      omega

/-- a whole datagram containing a frame that releases `U` -/
theorem inFrs_rel (base conv : U32) (hasP : U32 → Prop) (U : Nat) (frs : List Frm) : ∀ (st : InLoop),
    SndOk base conv hasP st.k → o base st.k.snd_nxt < 2 ^ 31 → st.panic = false → U ≤ o base st.k.snd_una →
    (∀ fr ∈ frs, (fr.cmd.toNat = IKCP_CMD_ACK ∨ fr.cmd.toNat = IKCP_CMD_WASK ∨ fr.cmd.toNat = IKCP_CMD_WINS) ∧
      o base fr.una ≤ o base st.k.snd_nxt ∧ (∀ sn, o base sn < o base fr.una → hasP sn) ∧
      (fr.cmd.toNat = IKCP_CMD_ACK → hasP fr.sn ∧ o base fr.sn < o base st.k.snd_nxt)) →
    (∃ fr ∈ frs, Rel base U fr) → U < o base (inFrs true frs st).k.snd_una := by
  induction frs with
  | nil => intro st _ _ _ _ _ ⟨fr, hfr, _⟩; simp at hfr
  | cons f rest ih =>
    intro st h hN hp hU hall ⟨fr, hfr, hrel⟩
    obtain ⟨c1, c2, c3, c4⟩ := hall f (List.mem_cons_self ..)
    obtain ⟨a1, a2, a3, a4, a5⟩ := inFr_snd_gen base conv hasP st f h hN c1 (by omega) c3 (fun hc => (c4 hc).1)
    have hnx : (inFr true st f).k.snd_nxt = st.k.snd_nxt := by
      obtain ⟨r, sb, su, pr, e⟩ := a2
      rw [e]
    have hrest : ∀ x ∈ rest, (x.cmd.toNat = IKCP_CMD_ACK ∨ x.cmd.toNat = IKCP_CMD_WASK ∨ x.cmd.toNat = IKCP_CMD_WINS) ∧
        o base x.una < 2 ^ 31 ∧ (∀ sn, o base sn < o base x.una → hasP sn) ∧ (x.cmd.toNat = IKCP_CMD_ACK → hasP x.sn) := by
      intro x hx
      obtain ⟨d1, d2, d3, d4⟩ := hall x (List.mem_cons_of_mem _ hx)
      exact ⟨d1, by omega, d3, fun hc => (d4 hc).1⟩
    obtain ⟨b1, b2, b3, b4, b5⟩ := inFrs_snd_gen base conv hasP rest (inFr true st f) a1 (by rw [hnx]; exact hN)
      (by rw [a4]; exact hp) hrest
    unfold inFrs
    rw [if_neg (by rw [a4, hp]; simp)]
    rcases List.mem_cons.mp hfr with rfl | hfr
    · have := inFr_rel base conv hasP U st fr h hN hU c1 c2 c3 c4 hrel
      omega
    · exact ih (inFr true st f) a1 (by rw [hnx]; exact hN) (by rw [a4]; exact hp) (by omega)
        (fun x hx => by rw [hnx]; exact hall x (List.mem_cons_of_mem _ hx)) ⟨fr, hfr, hrel⟩

/-- **Phase D, general.**  In any consistent state in which A's `snd_una` is not before `U`, when A inputs
the head datagram of the link B → A and that datagram contains a frame that releases `U`, `snd_una` ends
beyond `U`. -/
theorem phase_D_rel {p : Par} {s : State} {t0 : Nat} {frs : List Frm} {gab grest : GLink}
    (h : Cons p s gab ((t0, frs) :: grest)) (hnw : NoWrap p.base s) (hdue : t0 ≤ s.now) (U : Nat)
    (hU : U ≤ o p.base s.A.snd_una) (hrel : ∃ fr ∈ frs, Rel p.base U fr) :
    U < o p.base (Sys.step s .dlvA).A.snd_una := by
  have hba : s.ba = ⟨t0, encFrames frs⟩ :: encL grest := h.hba
  rw [step_dlvA_cons s _ _ hba, if_pos hdue]
  have hne : frs ≠ [] := by intro hc; obtain ⟨fr, hfr, _⟩ := hrel; rw [hc] at hfr; simp at hfr
  have hd0 : ((t0, frs) : Nat × List Frm) ∈ (t0, frs) :: grest := List.mem_cons_self ..
  have hnw' := hnw
  unfold NoWrap at hnw'
  have hok : SndOk p.base p.conv (Has p.base s.B.rcv_nxt s.B.rcv_buf) s.A := ⟨h.acon, h.atag, h.ahas, h.arel⟩
  have hge := inFrs_rel p.base p.conv (Has p.base s.B.rcv_nxt s.B.rcv_buf) U frs { k := s.A } hok
    (by show o p.base s.A.snd_nxt < 2 ^ 31; omega) rfl hU (by
      intro x hx
      obtain ⟨_, _, e3, e4, e5⟩ := h.fba (t0, frs) hd0 x hx
      have hbub := h.bub
      refine ⟨e3, by show _ ≤ o p.base s.A.snd_nxt; omega, fun sn hsn => Or.inl (by omega), fun hc => ⟨e5 hc, ?_⟩⟩
      show o p.base x.sn < o p.base s.A.snd_nxt
      rcases e5 hc with h1 | ⟨y, hy, hys⟩
      · omega
      · rw [← hys]; exact h.bbuf y hy) hrel
  obtain ⟨hv, hp, hr, _, _, _, _⟩ := cons_inA h hnw (inFrs true frs { k := s.A }).k (Or.inl rfl)
  obtain ⟨k1, hk1, himp⟩ := inputA_cases s.A frs s.ndA (clk s.now) hv hp hr
  obtain ⟨_, _, _, hal, _, _, hclean⟩ := cons_inA h hnw k1 hk1
  have hu := inA_una s.A (inFrs true frs { k := s.A }) k1 hk1 s.A.snd_una
  rcases himp hal hclean.aK with hin | hin | ⟨hnil, _⟩
  · simp only [hin]
    show _ < o p.base (cwndOnAck k1 s.A.snd_una).snd_una
    rw [hu]; exact hge
  · simp only [hin]
    show _ < o p.base (flush (cwndOnAck k1 s.A.snd_una) true (clk s.now)).k.snd_una
    rw [flush_una, hu]; exact hge
  · exact absurd hnil hne

end KcpVerif.SysC
