/-
C12 — shift simulation for `Input`: the parse loop over wire bytes and the tail (rtt, cwnd, flush).
-/
import KcpVerif.Lemmas.KcpShiftInput

namespace KcpVerif.Shift
open KcpVerif KcpVerif.Gen KcpVerif.Kcp

theorem shiftInF_succ (σ : Sigma) (fuel : Nat) (data : Bytes) :
    shiftInF σ (fuel + 1) data =
      if data.length < IKCP_OVERHEAD then data else
      if (data.drop IKCP_OVERHEAD).length < (rd32 data 20).toNat then shiftHd σ data ++ data.drop IKCP_OVERHEAD
      else shiftHd σ data ++ ((data.drop IKCP_OVERHEAD).take (rd32 data 20).toNat
        ++ shiftInF σ fuel ((data.drop IKCP_OVERHEAD).drop (rd32 data 20).toNat)) := rfl

/-- shape of a shifted datagram with at least one whole header -/
theorem shiftInF_succ_form (σ : Sigma) (fuel : Nat) (data : Bytes) (hl : ¬ data.length < IKCP_OVERHEAD) :
    ∃ rest, shiftInF σ (fuel + 1) data = shiftHd σ data ++ rest ∧
      rest.length = (data.drop IKCP_OVERHEAD).length ∧
      (¬ (data.drop IKCP_OVERHEAD).length < (rd32 data 20).toNat →
        rest.take (rd32 data 20).toNat = (data.drop IKCP_OVERHEAD).take (rd32 data 20).toNat ∧
        rest.drop (rd32 data 20).toNat = shiftInF σ fuel ((data.drop IKCP_OVERHEAD).drop (rd32 data 20).toNat)) := by
  rw [shiftInF_succ]
  simp only [if_neg hl]
  by_cases c : (data.drop IKCP_OVERHEAD).length < (rd32 data 20).toNat
  · simp only [if_pos c]
    exact ⟨_, rfl, rfl, fun hc => absurd c hc⟩
  · simp only [if_neg c]
    refine ⟨_, rfl, ?_, fun _ => ⟨?_, ?_⟩⟩
    · simp only [List.length_append, List.length_take, shiftInF_length, List.length_drop] at c ⊢
      omega
    · have hA : (rd32 data 20).toNat ≤ ((data.drop IKCP_OVERHEAD).take (rd32 data 20).toNat).length := by
        rw [List.length_take]; omega
      rw [List.take_append_of_le_length hA, List.take_take, Nat.min_self]
    · have hA : (rd32 data 20).toNat ≤ ((data.drop IKCP_OVERHEAD).take (rd32 data 20).toNat).length := by
        rw [List.length_take]; omega
      have hB : ((data.drop IKCP_OVERHEAD).take (rd32 data 20).toNat).length ≤ (rd32 data 20).toNat := by
        rw [List.length_take]; omega
      rw [List.drop_append_of_le_length hA, List.drop_of_length_le hB, List.nil_append]

theorem inputLoop_sim {σ : Sigma} (regular : Bool) (fuel : Nat) (data : Bytes) (st st' : InLoop)
    (h : ISim σ st st') :
    ISim σ (inputLoop regular fuel data st) (inputLoop regular fuel (shiftInF σ fuel data) st') := by
  induction fuel generalizing data st st' with
  | zero => exact h
  | succ fuel ih =>
    rw [inputLoop_succ, inputLoop_succ]
    by_cases c0 : data.length < IKCP_OVERHEAD
    · have e : shiftInF σ (fuel + 1) data = data := by rw [shiftInF_succ]; simp only [if_pos c0]
      rw [e]; simp only [if_pos c0]; exact h
    have hl : 24 ≤ data.length := by simp only [IKCP_OVERHEAD] at c0; omega
    obtain ⟨rest, hD, hrl, hrt⟩ := shiftInF_succ_form σ fuel data c0
    obtain ⟨f0, f4, f5, f6, f8, f12, f16, f20, fd⟩ := shiftHd_fields σ data rest hl
    have hlen : (shiftHd σ data ++ rest).length = data.length := by
      rw [← hD, shiftInF_length]
    rw [hD]
    simp only [hlen, f0, f4, f5, f6, f8, f12, f16, f20, fd, hrl, h.k.conv]
    simp only [if_neg c0]
    by_cases c1 : rd32 data 0 ≠ st.k.conv
    · simp only [if_pos c1]; exact { h with ret := rfl }
    simp only [if_neg c1]
    by_cases c2 : (data.drop IKCP_OVERHEAD).length < (rd32 data 20).toNat ∨ (rd32 data 20).toNat > mtuLimit
    · simp only [if_pos c2]; exact { h with ret := rfl }
    simp only [if_neg c2]
    by_cases c3 : (BitVec.ofNat 8 (byteAt data 4)).toNat ≠ IKCP_CMD_PUSH ∧ (BitVec.ofNat 8 (byteAt data 4)).toNat ≠ IKCP_CMD_ACK ∧
          (BitVec.ofNat 8 (byteAt data 4)).toNat ≠ IKCP_CMD_WASK ∧ (BitVec.ofNat 8 (byteAt data 4)).toNat ≠ IKCP_CMD_WINS
    · simp only [if_pos c3]; exact { h with ret := rfl }
    simp only [if_neg c3]
    have c2' : ¬ (data.drop IKCP_OVERHEAD).length < (rd32 data 20).toNat := fun hc => c2 (Or.inl hc)
    obtain ⟨ht, hdr⟩ := hrt c2'
    rw [ht, hdr]
    have hp := procSeg_sim h regular (rd32 data 0) (BitVec.ofNat 8 (byteAt data 4)) (BitVec.ofNat 8 (byteAt data 5))
      (rd16 data 6) (rd32 data 8) (rd32 data 12) (rd32 data 16)
      ((data.drop IKCP_OVERHEAD).take (rd32 data 20).toNat)
    generalize procSeg regular st (rd32 data 0) (BitVec.ofNat 8 (byteAt data 4)) (BitVec.ofNat 8 (byteAt data 5))
      (rd16 data 6) (rd32 data 8) (rd32 data 12) (rd32 data 16)
      ((data.drop IKCP_OVERHEAD).take (rd32 data 20).toNat) = st2 at hp ⊢
    generalize procSeg regular st' (rd32 data 0) (BitVec.ofNat 8 (byteAt data 4)) (BitVec.ofNat 8 (byteAt data 5))
      (rd16 data 6) (rd32 data 8 + (inDeltas σ (BitVec.ofNat 8 (byteAt data 4)).toNat).1)
      (rd32 data 12 + (inDeltas σ (BitVec.ofNat 8 (byteAt data 4)).toNat).2.1)
      (rd32 data 16 + (inDeltas σ (BitVec.ofNat 8 (byteAt data 4)).toNat).2.2)
      ((data.drop IKCP_OVERHEAD).take (rd32 data 20).toNat) = st2' at hp ⊢
    rw [hp.panic]
    cases hpan : st2.panic
    · simp only [Bool.false_eq_true, if_false]
      exact ih _ _ _ hp
    · simp only [if_true]
      exact hp

/-! ### the tail of `Input` -/

/-- relation between the results of `Input` -/
structure InRel (σ : Sigma) (r r' : InRes) : Prop where
  k     : Sim σ r.k r'.k
  ret   : r'.ret = r.ret
  outs  : All₂ (OutRel σ) r.outs r'.outs
  panic : r'.panic = r.panic

theorem inputTail_sim {σ : Sigma} {st st' : InLoop} (h : ISim σ st st') (oldUna : U32)
    (regular ackNoDelay : Bool) (now : U32) :
    InRel σ (inputTail st oldUna regular ackNoDelay now)
      (inputTail st' (oldUna + σ.a) regular ackNoDelay (now + σ.t)) := by
  have h1 : Sim σ (if st.updRtt ∧ regular ∧ itimediff now st.latest ≥ 0 then updateAck st.k (now - st.latest) else st.k)
      (if st'.updRtt ∧ regular ∧ itimediff (now + σ.t) st'.latest ≥ 0
        then updateAck st'.k (now + σ.t - st'.latest) else st'.k) := by
    rw [h.updRtt]
    by_cases cu : st.updRtt = true
    · rw [h.latest cu, itd_shift, sub_shift]
      split
      · exact updateAck_sim h.k _
      · exact h.k
    · have n1 : ¬ (st.updRtt = true ∧ regular = true ∧ itimediff now st.latest ≥ 0) := fun hc => cu hc.1
      have n2 : ¬ (st.updRtt = true ∧ regular = true ∧ itimediff (now + σ.t) st'.latest ≥ 0) := fun hc => cu hc.1
      simp only [if_neg n1, if_neg n2]
      exact h.k
  have h2 := cwndOnAck_sim h1 oldUna
  unfold inputTail
  generalize cwndOnAck (if st.updRtt ∧ regular ∧ itimediff now st.latest ≥ 0 then updateAck st.k (now - st.latest) else st.k)
    oldUna = k2 at h2 ⊢
  generalize cwndOnAck (if st'.updRtt ∧ regular ∧ itimediff (now + σ.t) st'.latest ≥ 0
        then updateAck st'.k (now + σ.t - st'.latest) else st'.k) (oldUna + σ.a) = k2' at h2 ⊢
  have hlen : k2'.acklist.length = k2.acklist.length := by rw [h2.acklist, List.length_map]
  rw [h.flushSeg, hlen, h2.mtu]
  have hT := flush_sim h2 true now
  have hF := flush_sim h2 false now
  by_cases c1 : st.flushSeg = true
  · simp only [if_pos c1]
    exact ⟨hT.k, rfl, hT.outs, hT.panic⟩
  simp only [if_neg c1]
  by_cases c2 : k2.acklist.length ≥ (k2.mtu / u32 IKCP_OVERHEAD).toNat
  · simp only [if_pos c2]
    exact ⟨hF.k, rfl, hF.outs, hF.panic⟩
  simp only [if_neg c2]
  by_cases c3 : ackNoDelay = true ∧ k2.acklist.length > 0
  · simp only [if_pos c3]
    exact ⟨hF.k, rfl, hF.outs, hF.panic⟩
  · simp only [if_neg c3]
    exact ⟨h2, rfl, All₂.nil, rfl⟩

/-- **`Input` commutes with the shift**, for every byte string -/
theorem input_sim {σ : Sigma} {k k' : Kcp} (h : Sim σ k k') (data : Bytes) (regular ackNoDelay : Bool) (now : U32) :
    InRel σ (input k data regular ackNoDelay now) (input k' (shiftIn σ data) regular ackNoDelay (now + σ.t)) := by
  rw [input_eq, input_eq, shiftIn_length]
  by_cases c0 : data.length < IKCP_OVERHEAD
  · simp only [if_pos c0]
    exact ⟨h, rfl, All₂.nil, rfl⟩
  simp only [if_neg c0]
  have h0 : ISim σ { k := k } { k := k' } := ⟨h, (fun hc => Bool.noConfusion hc), rfl, rfl, rfl, rfl⟩
  have hl := inputLoop_sim regular (data.length / IKCP_OVERHEAD + 1) data { k := k } { k := k' } h0
  unfold shiftIn
  generalize inputLoop regular (data.length / IKCP_OVERHEAD + 1) data { k := k } = st at hl ⊢
  generalize inputLoop regular (data.length / IKCP_OVERHEAD + 1)
    (shiftInF σ (data.length / IKCP_OVERHEAD + 1) data) { k := k' } = st' at hl ⊢
  rw [hl.panic, hl.ret, h.snd_una]
  by_cases c1 : st.panic = true
  · simp only [if_pos c1]
    exact ⟨hl.k, rfl, All₂.nil, rfl⟩
  simp only [if_neg c1]
  by_cases c2 : st.ret < 0
  · simp only [if_pos c2]
    exact ⟨hl.k, rfl, All₂.nil, rfl⟩
  simp only [if_neg c2]
  exact inputTail_sim hl _ _ _ _

end KcpVerif.Shift
