/-
List-level specification of `RS.reconstructData` on a masked codeword (core Lean only).

No algebra: `invert` and `combine` stay opaque.  `reconstructData m d (mask present cw)` returns
the data shards as they are when all of them are present, and otherwise inverts the rows of the
FIRST `d` present shards (`firstTrue d 0 present`) and fills the missing data shards with the
corresponding rows of the inverse times those `d` shards.
-/
import KcpVerif.Lemmas.FecSpec

namespace KcpVerif.Lemmas.RSRecon
open KcpVerif.RS KcpVerif.Lemmas.FecSpec

/-- indices of the first `k` `true` entries of `bs`, counting positions from `i` -/
def firstTrue : Nat → Nat → List Bool → List Nat
  | 0, _, _ => []
  | _ + 1, _, [] => []
  | k + 1, i, false :: rest => firstTrue (k + 1) (i + 1) rest
  | k + 1, i, true :: rest => i :: firstTrue k (i + 1) rest

@[simp] theorem firstTrue_zero (i : Nat) (bs : List Bool) : firstTrue 0 i bs = [] := by
  cases bs <;> rfl

@[simp] theorem firstTrue_nil (k i : Nat) : firstTrue k i [] = [] := by
  cases k <;> rfl

theorem firstTrue_false (k i : Nat) (rest : List Bool) :
    firstTrue k i (false :: rest) = firstTrue k (i + 1) rest := by
  cases k with
  | zero => simp
  | succ k => rfl

theorem firstTrue_true (k i : Nat) (rest : List Bool) :
    firstTrue (k + 1) i (true :: rest) = i :: firstTrue k (i + 1) rest := rfl

theorem firstTrue_length (k i : Nat) (bs : List Bool) (h : k ≤ bs.count true) :
    (firstTrue k i bs).length = k := by
  induction bs generalizing k i with
  | nil =>
    have : k = 0 := by simpa using h
    subst this; simp
  | cons b rest ih =>
    cases b with
    | false =>
      rw [firstTrue_false]
      exact ih k (i + 1) (by simpa using h)
    | true =>
      cases k with
      | zero => simp
      | succ k =>
        rw [firstTrue_true, List.length_cons, ih k (i + 1) (by simpa using h)]

theorem firstTrue_mem (k i : Nat) (bs : List Bool) (j : Nat) (h : j ∈ firstTrue k i bs) :
    i ≤ j ∧ j < i + bs.length ∧ bs.getD (j - i) false = true := by
  induction bs generalizing k i with
  | nil => simp at h
  | cons b rest ih =>
    cases b with
    | false =>
      rw [firstTrue_false] at h
      obtain ⟨h1, h2, h3⟩ := ih k (i + 1) h
      refine ⟨by omega, by simp only [List.length_cons]; omega, ?_⟩
      have : j - i = (j - (i + 1)) + 1 := by omega
      rw [this, List.getD_cons_succ]; exact h3
    | true =>
      cases k with
      | zero => simp at h
      | succ k =>
        rw [firstTrue_true, List.mem_cons] at h
        rcases h with h | h
        · subst h
          refine ⟨Nat.le_refl _, by simp only [List.length_cons]; omega, ?_⟩
          simp
        · obtain ⟨h1, h2, h3⟩ := ih k (i + 1) h
          refine ⟨by omega, by simp only [List.length_cons]; omega, ?_⟩
          have : j - i = (j - (i + 1)) + 1 := by omega
          rw [this, List.getD_cons_succ]; exact h3

theorem firstTrue_pairwise (k i : Nat) (bs : List Bool) :
    (firstTrue k i bs).Pairwise (· < ·) := by
  induction bs generalizing k i with
  | nil => simp
  | cons b rest ih =>
    cases b with
    | false => rw [firstTrue_false]; exact ih k (i + 1)
    | true =>
      cases k with
      | zero => simp
      | succ k =>
        rw [firstTrue_true, List.pairwise_cons]
        refine ⟨?_, ih k (i + 1)⟩
        intro j hj
        have := (firstTrue_mem k (i + 1) rest j hj).1
        omega

/-! ### `mask` -/

@[simp] theorem mask_nil_left (ss : List Shard) : mask [] ss = [] := by
  simp [mask]

@[simp] theorem mask_nil_right (bs : List Bool) : mask bs [] = [] := by
  simp [mask]

theorem mask_cons (b : Bool) (bs : List Bool) (s : Shard) (ss : List Shard) :
    mask (b :: bs) (s :: ss) = (if b then some s else none) :: mask bs ss := by
  simp [mask]

theorem mask_length (bs : List Bool) (ss : List Shard) :
    (mask bs ss).length = min bs.length ss.length := by
  simp [mask]

theorem mask_take (n : Nat) (bs : List Bool) (ss : List Shard) :
    (mask bs ss).take n = mask (bs.take n) (ss.take n) := by
  simp [mask, List.take_zipWith]

/-- shards with data survive `normalize` -/
theorem normalize_mask (bs : List Bool) (ss : List Shard) (hne : ∀ s ∈ ss, 0 < s.length) :
    normalize (mask bs ss) = mask bs ss := by
  induction bs generalizing ss with
  | nil => simp [normalize]
  | cons b bs ih =>
    cases ss with
    | nil => simp [normalize]
    | cons s ss =>
      have hs : s.isEmpty = false := by
        have := hne s (by simp)
        cases s with
        | nil => simp at this
        | cons _ _ => rfl
      have ih' := ih ss (fun t ht => hne t (by simp [ht]))
      unfold normalize at ih' ⊢
      rw [mask_cons, List.map_cons, ih']
      cases b <;> simp [hs]

/-- the common size is found at the first present shard -/
theorem shardSize_mask (L : Nat) (bs : List Bool) (ss : List Shard) (hL : 0 < L)
    (hsz : ∀ s ∈ ss, s.length = L) (hlen : bs.length = ss.length) (hcnt : 0 < bs.count true) :
    shardSize (mask bs ss) = L := by
  induction bs generalizing ss with
  | nil => simp at hcnt
  | cons b bs ih =>
    cases ss with
    | nil => simp at hlen
    | cons s ss =>
      have hsl : s.length = L := hsz s (by simp)
      have hs : s.isEmpty = false := by
        cases s with
        | nil => simp at hsl; omega
        | cons _ _ => rfl
      rw [mask_cons]
      cases b with
      | true => simp [shardSize, hs, hsl]
      | false =>
        simp only [Bool.false_eq_true, if_false, shardSize]
        exact ih ss (fun t ht => hsz t (by simp [ht])) (by simpa using hlen) (by simpa using hcnt)

/-- the `ErrShardSize` check passes -/
theorem any_size_mask (L : Nat) (bs : List Bool) (ss : List Shard)
    (hsz : ∀ s ∈ ss, s.length = L) :
    (mask bs ss).any (fun o => match o with | some s => s.length != L | none => false) = false := by
  induction bs generalizing ss with
  | nil => simp
  | cons b bs ih =>
    cases ss with
    | nil => simp
    | cons s ss =>
      have hsl : s.length = L := hsz s (by simp)
      rw [mask_cons, List.any_cons, ih ss (fun t ht => hsz t (by simp [ht]))]
      cases b <;> simp [hsl]

theorem all_isSome_mask (bs : List Bool) (ss : List Shard) (hlen : bs.length = ss.length) :
    (mask bs ss).all Option.isSome = bs.all id := by
  induction bs generalizing ss with
  | nil => simp
  | cons b bs ih =>
    cases ss with
    | nil => simp at hlen
    | cons s ss =>
      rw [mask_cons, List.all_cons, List.all_cons, ih ss (by simpa using hlen)]
      cases b <;> simp

theorem filterMap_mask (bs : List Bool) (ss : List Shard) (hlen : bs.length = ss.length)
    (hall : bs.all id = true) : (mask bs ss).filterMap id = ss := by
  induction bs generalizing ss with
  | nil =>
    cases ss with
    | nil => simp
    | cons s ss => simp at hlen
  | cons b bs ih =>
    cases ss with
    | nil => simp at hlen
    | cons s ss =>
      rw [List.all_cons, Bool.and_eq_true] at hall
      have hb : b = true := by simpa using hall.1
      subst hb
      rw [mask_cons, if_pos rfl, List.filterMap_cons_some (by rfl),
        ih ss (by simpa using hlen) hall.2]

theorem firstPresent_zero (i : Nat) (l : List (Option Shard)) : firstPresent 0 i l = [] := by
  cases l <;> rfl

theorem firstPresent_nil (k i : Nat) : firstPresent k i [] = [] := by
  cases k <;> rfl

theorem firstPresent_none (k i : Nat) (rest : List (Option Shard)) :
    firstPresent k i (none :: rest) = firstPresent k (i + 1) rest := by
  cases k with
  | zero => simp [firstPresent_zero]
  | succ k => rfl

theorem firstPresent_some (k i : Nat) (s : Shard) (rest : List (Option Shard)) :
    firstPresent (k + 1) i (some s :: rest) = (i, s) :: firstPresent k (i + 1) rest := rfl

/-- the first `k` present shards of a masked family are those at the first `k` `true` flags -/
theorem firstPresent_mask (k i : Nat) (bs : List Bool) (ss : List Shard)
    (hlen : bs.length = ss.length) :
    firstPresent k i (mask bs ss) = (firstTrue k i bs).map (fun j => (j, ss.getD (j - i) [])) := by
  induction bs generalizing k i ss with
  | nil => simp [firstPresent_nil]
  | cons b bs ih =>
    cases ss with
    | nil => simp at hlen
    | cons s ss =>
      have ih' := fun k => ih k (i + 1) ss (by simpa using hlen)
      have hshift : ∀ k, (firstTrue k (i + 1) bs).map (fun j => (j, ss.getD (j - (i + 1)) [])) =
          (firstTrue k (i + 1) bs).map (fun j => (j, (s :: ss).getD (j - i) [])) := by
        intro k
        apply List.map_congr_left
        intro j hj
        have h1 := (firstTrue_mem k (i + 1) bs j hj).1
        have : j - i = (j - (i + 1)) + 1 := by omega
        rw [this, List.getD_cons_succ]
      rw [mask_cons]
      cases b with
      | false =>
        simp only [Bool.false_eq_true, if_false]
        rw [firstPresent_none, firstTrue_false, ih', hshift]
      | true =>
        simp only [if_true]
        cases k with
        | zero => simp [firstPresent_zero]
        | succ k =>
          rw [firstPresent_some, firstTrue_true, List.map_cons, ih', hshift]
          simp

theorem firstPresent_mask_zero (k : Nat) (bs : List Bool) (ss : List Shard)
    (hlen : bs.length = ss.length) :
    firstPresent k 0 (mask bs ss) = (firstTrue k 0 bs).map (fun j => (j, ss.getD j [])) := by
  simpa using firstPresent_mask k 0 bs ss hlen

/-- `fillData` keeps the present shards and computes the absent ones from the decode rows -/
theorem fillData_mask (len : Nat) (valid : List Shard) (bs : List Bool) (ss : List Shard)
    (rows : Matrix) (hlen : bs.length = ss.length) (hrows : bs.length = rows.length) :
    fillData len valid (mask bs ss) rows = (List.range bs.length).map fun i =>
      if bs.getD i false then ss.getD i [] else combine len (rows.getD i []) valid := by
  induction bs generalizing ss rows with
  | nil => simp [fillData]
  | cons b bs ih =>
    cases ss with
    | nil => simp at hlen
    | cons s ss =>
      cases rows with
      | nil => simp at hrows
      | cons row rows =>
        have ih' := ih ss rows (by simpa using hlen) (by simpa using hrows)
        rw [mask_cons, List.length_cons, List.range_succ_eq_map, List.map_cons, List.map_map]
        cases b with
        | false =>
          simp only [Bool.false_eq_true, if_false, fillData]
          rw [ih']
          simp [Function.comp_def]
        | true =>
          simp only [if_true, fillData]
          rw [ih']
          simp [Function.comp_def]

/-! ### The main lemma -/

theorem reconstructData_mask (m : Matrix) (d p L : Nat) (cw : List Shard) (present : List Bool)
    (hd : 0 < d) (hL : 0 < L) (hm : m.length = d + p) (hcw : cw.length = d + p)
    (hsz : ∀ s ∈ cw, s.length = L) (hpl : present.length = d + p)
    (hcnt : d ≤ present.count true) :
    -- all data shards present: returned as they are
    ((present.take d).all id = true →
      reconstructData m d (mask present cw) = some (cw.take d)) ∧
    -- otherwise: invert the rows of the first d present shards and fill in
    ((present.take d).all id = false →
      (invert ((firstTrue d 0 present).map fun i => m.getD i []) = none →
         reconstructData m d (mask present cw) = none) ∧
      (∀ dec, invert ((firstTrue d 0 present).map fun i => m.getD i []) = some dec →
         dec.length = d →
         reconstructData m d (mask present cw) = some ((List.range d).map fun i =>
           if present.getD i false then cw.getD i []
           else combine L (dec.getD i []) ((firstTrue d 0 present).map fun j => cw.getD j [])))) := by
  have hlen : present.length = cw.length := by omega
  have hnorm : normalize (mask present cw) = mask present cw :=
    normalize_mask present cw (fun s hs => by rw [hsz s hs]; exact hL)
  have hsize : shardSize (mask present cw) = L :=
    shardSize_mask L present cw hL hsz hlen (by omega)
  have hmlen : (mask present cw).length = m.length := by rw [mask_length]; omega
  have hany := any_size_mask L present cw hsz
  have htl : (present.take d).length = (cw.take d).length := by
    simp only [List.length_take]; omega
  have hall : ((mask present cw).take d).all Option.isSome = (present.take d).all id := by
    rw [mask_take]; exact all_isSome_mask _ _ htl
  have hL0 : ¬ L = 0 := by omega
  have hunf : reconstructData m d (mask present cw) =
      (if ((mask present cw).take d).all Option.isSome
        then some (((mask present cw).take d).filterMap id)
        else
          if (firstPresent d 0 (mask present cw)).length < d then none
          else
            match invert ((firstPresent d 0 (mask present cw)).map fun iv => m.getD iv.1 []) with
            | none => none
            | some dec => some (fillData L ((firstPresent d 0 (mask present cw)).map (·.2))
                ((mask present cw).take d) dec)) := by
    unfold reconstructData
    simp only [hnorm, hsize, hmlen, hL0, ne_eq, not_true_eq_false, if_false]
    refine if_neg ?_
    rw [Bool.not_eq_true]
    exact hany
  have hfp := firstPresent_mask_zero d present cw hlen
  have hfpl : (firstPresent d 0 (mask present cw)).length = d := by
    rw [hfp, List.length_map, firstTrue_length d 0 present hcnt]
  have hrows : (firstPresent d 0 (mask present cw)).map (fun iv => m.getD iv.1 []) =
      (firstTrue d 0 present).map fun i => m.getD i [] := by
    rw [hfp, List.map_map]; rfl
  have hvalid : (firstPresent d 0 (mask present cw)).map (·.2) =
      (firstTrue d 0 present).map fun j => cw.getD j [] := by
    rw [hfp, List.map_map]; rfl
  rw [hunf, hall, hfpl, hrows, hvalid, if_neg (Nat.lt_irrefl d)]
  refine ⟨fun h => ?_, fun h => ⟨fun hinv => ?_, fun dec hinv hdec => ?_⟩⟩
  · rw [if_pos h, mask_take, filterMap_mask _ _ htl h]
  · rw [if_neg (by simp [h]), hinv]
  · rw [if_neg (by simp [h]), hinv]
    simp only []
    have hpt : (present.take d).length = d := by simp only [List.length_take]; omega
    rw [mask_take, fillData_mask L _ _ _ dec htl (by omega), hpt]
    congr 1
    apply List.map_congr_left
    intro i hi
    have hi' : i < d := List.mem_range.mp hi
    simp only [List.getD_eq_getElem?_getD, List.getElem?_take, hi', if_true]

end KcpVerif.Lemmas.RSRecon
