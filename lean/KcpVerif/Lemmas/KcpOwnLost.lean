/-
C15 (ownership, protocol core): the ghost list `lost` (buffers acquired by a `Get()[:n]` that then
panicked, held by nobody) never grows in a core that satisfies the MTU invariant `InvMss` of C10 —
`Input` refuses segment lengths above `mtuLimit` before `parse_data` copies, and `Send` slices at most
`mss ≤ mtuLimit` bytes — so "no leak" holds without exception.  Core Lean only.
-/
import KcpVerif.Lemmas.KcpOwnAligned
import KcpVerif.Lemmas.KcpMss

namespace KcpVerif.Own
open KcpVerif KcpVerif.Gen KcpVerif.Kcp KcpVerif.Pool KcpVerif.Lemmas.KcpFlush KcpVerif.Lemmas.KcpMss

theorem use_lost (g : Ghost) (o : Option Nat) : (g.use o).lost = g.lost := by cases o <;> rfl
theorem recycle_lost (g : Ghost) (o : Option Nat) : (g.recycle o).lost = g.lost := by cases o <;> rfl

theorem popMsgO_lost (l : List SegO) (g : Ghost) : (popMsgO l g).g.lost = g.lost := by
  induction l generalizing g with
  | nil => rfl
  | cons x rest ih =>
    unfold popMsgO
    split
    · show ((g.use x.buf).recycle x.buf).lost = _
      rw [recycle_lost, use_lost]
    · rw [ih, recycle_lost, use_lost]

theorem mkSegsO_lost (mss : Nat) (stream : Bool) (n : Nat) (buf : Bytes) (g : Ghost) :
    (mkSegsO mss stream n buf g).g.lost = g.lost := by
  induction n generalizing buf g with
  | zero => rfl
  | succ c ih =>
    unfold mkSegsO
    show (mkSegsO mss stream c (buf.drop mss) g.get).g.lost = _
    rw [ih]; rfl

theorem unaO_lost (una : U32) (l : List SegO) (g : Ghost) : (unaO una l g).g.lost = g.lost := by
  induction l generalizing g with
  | nil => rfl
  | cons x rest ih =>
    unfold unaO
    split
    · rw [ih, recycle_lost]
    · rfl

theorem ackLoopO_lost (sn : U32) (l : List SegO) (g : Ghost) : (ackLoopO sn l g).g.lost = g.lost := by
  induction l generalizing g with
  | nil => rfl
  | cons x rest ih =>
    unfold ackLoopO
    split
    · exact recycle_lost _ _
    · split
      · rfl
      · exact ih g

theorem useSent_lost (k : Kcp) (now : U32) (c : Nat) (l : List SegO) (g : Ghost) :
    (useSent k now c l g).lost = g.lost := by
  induction l generalizing g with
  | nil => rfl
  | cons x rest ih =>
    unfold useSent
    rw [ih]
    split
    · exact use_lost _ _
    · rfl

theorem parseDataO_lost (k : Kcp) (s : Seg) (rb rq : List SegO) (g : Ghost) (h : s.data.length ≤ mtuLimit) :
    (parseDataO k s rb rq g).g.lost = g.lost := by
  unfold parseDataO
  split; · rfl
  split; · rfl
  split
  · rename_i hgt; omega
  · rfl

/-- `shrink_buf` pops only segments that have already given their buffer back -/
theorem dropAckedO_lost (l : List SegO) (g : Ghost) (h : ∀ x ∈ l, SbOk x) : (dropAckedO l g).g.lost = g.lost := by
  induction l generalizing g with
  | nil => rfl
  | cons x rest ih =>
    unfold dropAckedO
    split
    · rename_i ha
      have hn : x.buf = none := (h x (List.mem_cons_self ..)).2 ha
      rw [ih _ (fun z hz => h z (List.mem_cons_of_mem _ hz)), hn]; rfl
    · rfl

theorem inBodyO_lost (regular : Bool) (data : Bytes) (st : InLoopO) (ha : AlignedL st)
    (h : (rd32 data 20).toNat ≤ mtuLimit) :
    (inBodyO regular data st).gh.lost = st.gh.lost := by
  have hu0 : ∀ x ∈ (unaO (rd32 data 16) st.sb st.gh).l, SbOk x := fun x hx => ha.sb x (unaO_mem _ _ _ x hx)
  have hul : (dropAckedO (unaO (rd32 data 16) st.sb st.gh).l (unaO (rd32 data 16) st.sb st.gh).g).g.lost = st.gh.lost := by
    rw [dropAckedO_lost _ _ hu0, unaO_lost]
  have hu : ∀ x ∈ (dropAckedO (unaO (rd32 data 16) st.sb st.gh).l (unaO (rd32 data 16) st.sb st.gh).g).l, SbOk x :=
    fun x hx => hu0 x (dropAckedO_mem _ _ x hx)
  unfold inBodyO
  simp only []
  generalize dropAckedO (unaO (rd32 data 16) st.sb st.gh).l (unaO (rd32 data 16) st.sb st.gh).g = u at hul hu ⊢
  split
  · show (dropAckedO _ _).g.lost = _
    split
    · rw [dropAckedO_lost _ _ hu, hul]
    · rw [dropAckedO_lost _ _ (ackLoopO_sbOk _ _ _ hu), ackLoopO_lost, hul]
  · split
    · split
      · show (parseDataO _ _ _ _ _).g.lost = _
        rw [parseDataO_lost, hul]
        show ((data.drop IKCP_OVERHEAD).take (rd32 data 20).toNat).length ≤ mtuLimit
        rw [List.length_take]; omega
      · exact hul
    · exact hul

theorem inputLoopO_lost (regular : Bool) (fuel : Nat) (data : Bytes) (st : InLoopO) (hs : SyncL st) (ha : AlignedL st) :
    (inputLoopO regular fuel data st).gh.lost = st.gh.lost := by
  induction fuel generalizing data st with
  | zero => rfl
  | succ fuel ih =>
    unfold inputLoopO
    split; · rfl
    split; · rfl
    split; · rfl
    rename_i c3
    have hlen : (rd32 data 20).toNat ≤ mtuLimit := by omega
    split; · rfl
    split
    · exact inBodyO_lost regular data st ha hlen
    · rw [ih _ _ (inBodyO_sync regular data hs) (inBodyO_al regular data hs ha)]
      exact inBodyO_lost regular data st ha hlen

theorem flushO_lost (o : KcpO) (full : Bool) (now : U32) : (flushO o full now).o.gh.lost = o.gh.lost := by
  unfold flushO
  simp only []
  split
  · exact useSent_lost _ _ _ _ _
  · rfl

theorem updateO_lost (o : KcpO) (now : U32) : (updateO o now).o.gh.lost = o.gh.lost := by
  unfold updateO
  split
  · exact flushO_lost _ _ _
  · rfl

theorem recvO_lost (o : KcpO) (n : Nat) : (recvO o n).o.gh.lost = o.gh.lost := by
  unfold recvO
  simp only []
  split; · rfl
  split; · rfl
  exact popMsgO_lost _ _

/-- `Input` never drops a buffer, whatever the bytes: the length check precedes the copy, and
`shrink_buf` pops only acked segments, which have given their buffer back (alignment) -/
theorem inputO_lost (o : KcpO) (hs : Sync o) (ha : Aligned o) (data : Bytes) (regular ackNoDelay : Bool) (now : U32) :
    (inputO o data regular ackNoDelay now).o.gh.lost = o.gh.lost := by
  have hl := inputLoopO_lost regular (data.length / IKCP_OVERHEAD + 1) data
    { m := { k := o.k }, sb := o.sb, rb := o.rb, rq := o.rq, gh := o.gh } ⟨hs.sb, hs.rb, hs.rq⟩ ⟨ha.sb, ha.rb, ha.rq⟩
  unfold inputO
  simp only []
  split; · rfl
  split; · exact hl
  split; · exact hl
  split; · exact (flushO_lost _ _ _).trans hl
  split; · exact (flushO_lost _ _ _).trans hl
  split; · exact (flushO_lost _ _ _).trans hl
  exact hl

/-- `Send` never drops a buffer once `mss ≤ mtuLimit` (the `SetMtu` repair, C10) -/
theorem sendO_lost {o : KcpO} (h : InvMss o.k) (b : Bytes) : (sendO o b).o.gh.lost = o.gh.lost := by
  have hm := h.mss_le_limit
  have h1 : (if sendExt o.k b > 0 then o.gh.use (lastBuf o.sq) else o.gh).lost = o.gh.lost := by
    split
    · exact use_lost _ _
    · rfl
  unfold sendO
  simp only []
  split; · rfl
  split; · rfl
  split; · rfl
  split; · exact h1
  split
  · rename_i hgt
    have := Nat.min_le_right (b.drop (sendExt o.k b)).length o.k.mss.toNat
    omega
  · show (mkSegsO _ _ _ _ _).g.lost = _
    rw [mkSegsO_lost]; exact h1

end KcpVerif.Own
