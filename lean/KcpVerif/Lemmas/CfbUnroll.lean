import KcpVerif.Lemmas.CfbList
/-! the unrolled shape (`repeat` groups of eight literal steps, fall-through `left` switch) is
the plain block loop: `tailXor (iter step (len/bs) start)` -/
namespace KcpVerif.Cfb

variable (E : Bytes → Bytes) (bs : Nat) (c : Bool)

@[simp] theorem setBase_base (s : St) (b : Nat) : (s.setBase b).base = b := rfl
@[simp] theorem setBase_setBase (s : St) (a b : Nat) : (s.setBase a).setBase b = s.setBase b := rfl
@[simp] theorem encAt_base (off : Nat) (s : St) : (encAt E bs c off s).base = s.base := rfl
@[simp] theorem encAt_setBase (off b : Nat) (s : St) :
    encAt E bs c off (s.setBase b) = (encAt E bs c off s).setBase b := rfl
@[simp] theorem decA_base (off : Nat) (s : St) : (decA E bs c off s).base = s.base := rfl
@[simp] theorem decA_setBase (off b : Nat) (s : St) :
    decA E bs c off (s.setBase b) = (decA E bs c off s).setBase b := rfl
@[simp] theorem swap_base (s : St) : s.swap.base = s.base := rfl
@[simp] theorem swap_setBase (s : St) (b : Nat) : (s.setBase b).swap = s.swap.setBase b := rfl
@[simp] theorem swap_swap (s : St) : s.swap.swap = s := rfl
theorem decB_eq (off : Nat) (s : St) : decB E bs c off s = (decA E bs c off s.swap).swap := rfl

theorem encL_eq (s : St) : encL E bs c s = (encAt E bs c s.base s).setBase (s.base + bs) := rfl
theorem decL_eq (s : St) : decL E bs c s = (decA E bs c s.base s).swap.setBase (s.base + bs) := rfl

theorem encGroup8_eq (s : St) : encGroup8 E s = iter (encL E 8 true) 8 s := by
  simp only [encGroup8, iter, encL_eq, encAt_setBase, setBase_base, setBase_setBase,
    Nat.add_assoc, Nat.reduceAdd, Nat.add_zero]

theorem encGroup16_eq (s : St) : encGroup16 E s = iter (encL E 16 true) 8 s := by
  simp only [encGroup16, iter, encL_eq, encAt_setBase, setBase_base, setBase_setBase,
    Nat.add_assoc, Nat.reduceAdd, Nat.add_zero]

theorem decGroup8_eq (s : St) : decGroup8 E s = iter (decL E 8 true) 8 s := by
  simp only [decGroup8, iter, decL_eq, decB_eq, decA_setBase, swap_setBase,
    setBase_base, setBase_setBase, Nat.add_assoc, Nat.reduceAdd, Nat.add_zero]

theorem decGroup16_eq (s : St) : decGroup16 E s = iter (decL E 16 true) 8 s := by
  simp only [decGroup16, iter, decL_eq, decB_eq, decA_setBase, swap_setBase,
    setBase_base, setBase_setBase, Nat.add_assoc, Nat.reduceAdd, Nat.add_zero]

theorem encSwitch_eq (left : Nat) (h : left < 8) (s : St) :
    encSwitch E bs c left s = tailXor (iter (encL E bs c) left s) := by
  match left, h with
  | 0, _ => rfl
  | 1, _ => rfl
  | 2, _ => rfl
  | 3, _ => rfl
  | 4, _ => rfl
  | 5, _ => rfl
  | 6, _ => rfl
  | 7, _ => rfl
  | n + 8, h => omega

theorem decSwitch_eq (left : Nat) (h : left < 8) (s : St) :
    decSwitch E bs c left s = tailXor (iter (decL E bs c) left s) := by
  match left, h with
  | 0, _ => rfl
  | 1, _ => rfl
  | 2, _ => rfl
  | 3, _ => rfl
  | 4, _ => rfl
  | 5, _ => rfl
  | 6, _ => rfl
  | 7, _ => rfl
  | n + 8, h => omega

theorem iter_congr {α : Type} (f g : α → α) (h : ∀ x, f x = g x) (n : Nat) (x : α) :
    iter f n x = iter g n x := by
  have : f = g := funext h
  rw [this]

/-- run one block step per flag (`true` = closed slice expressions, `false` = open ended) -/
def steps {α : Type} (f : Bool → α → α) : List Bool → α → α
  | [], x => x
  | c :: cs, x => steps f cs (f c x)

theorem steps_append {α : Type} (f : Bool → α → α) (a b : List Bool) (x : α) :
    steps f (a ++ b) x = steps f b (steps f a x) := by
  induction a generalizing x with
  | nil => rfl
  | cons c a ih => exact ih (f c x)

theorem iter_eq_steps {α : Type} (f : Bool → α → α) (c : Bool) (n : Nat) (x : α) :
    iter (f c) n x = steps f (List.replicate n c) x := by
  induction n generalizing x with
  | zero => rfl
  | succ n ih => exact ih (f c x)

/-- the slice-expression flags of one helper call over `n` full blocks -/
def flags (c : Bool) (n : Nat) : List Bool :=
  List.replicate (8 * (n / 8)) true ++ List.replicate (n % 8) c

theorem length_flags (c : Bool) (n : Nat) : (flags c n).length = n := by
  simp only [flags, List.length_append, List.length_replicate]; omega

/-- the loop skeleton shared by the four helpers -/
theorem unroll_skeleton {α : Type} (group : α → α) (f : Bool → α → α)
    (hg : ∀ x, group x = iter (f true) 8 x) (c : Bool) (n : Nat) (x : α) :
    iter (f c) (n &&& 7) (iter group (n >>> 3) x) = steps f (flags c n) x := by
  have h7 : n &&& 7 = n % 8 := Nat.and_two_pow_sub_one_eq_mod n 3
  have h3 : n >>> 3 = n / 8 := by rw [Nat.shiftRight_eq_div_pow]
  rw [iter_congr group (iter (f true) 8) hg, iter_mul, iter_eq_steps, iter_eq_steps, ← steps_append,
    h7, h3, flags]

theorem and7_lt (n : Nat) : n &&& 7 < 8 := by
  have h7 : n &&& 7 = n % 8 := Nat.and_two_pow_sub_one_eq_mod n 3
  omega

theorem encrypt8_eq_steps (src dst : Bytes) (a : Bool) :
    encrypt8 E src dst a =
      tailXor (steps (encL E 8) (flags true (src.length / 8)) (start E 8 src dst a [])) := by
  simp only [encrypt8]
  rw [encSwitch_eq _ _ _ _ (and7_lt _), unroll_skeleton _ (encL E 8) (encGroup8_eq E),
    Nat.shiftRight_eq_div_pow]

theorem encrypt16_eq_steps (src dst : Bytes) (a : Bool) :
    encrypt16 E src dst a =
      tailXor (steps (encL E 16) (flags false (src.length / 16)) (start E 16 src dst a [])) := by
  simp only [encrypt16]
  rw [encSwitch_eq _ _ _ _ (and7_lt _), unroll_skeleton _ (encL E 16) (encGroup16_eq E),
    Nat.shiftRight_eq_div_pow]

theorem decrypt8_eq_steps (src dst : Bytes) (a : Bool) (nx : Bytes) :
    decrypt8 E src dst a nx =
      tailXor (steps (decL E 8) (flags true (src.length / 8)) (start E 8 src dst a nx)) := by
  simp only [decrypt8]
  rw [decSwitch_eq _ _ _ _ (and7_lt _), unroll_skeleton _ (decL E 8) (decGroup8_eq E),
    Nat.shiftRight_eq_div_pow]

theorem decrypt16_eq_steps (src dst : Bytes) (a : Bool) (nx : Bytes) :
    decrypt16 E src dst a nx =
      tailXor (steps (decL E 16) (flags false (src.length / 16)) (start E 16 src dst a nx)) := by
  simp only [decrypt16]
  rw [decSwitch_eq _ _ _ _ (and7_lt _), unroll_skeleton _ (decL E 16) (decGroup16_eq E),
    Nat.shiftRight_eq_div_pow]

end KcpVerif.Cfb
