/-
The return path of the progress step of C02 (repaired model), composed, for ARBITRARY consistent
states: once B has passed the sequence number `U` and owes an acknowledgement (or a frame whose `una`
is beyond `U` is already on its way), A's `snd_una` passes `U` no later than B's next flush plus the
one-way delay — whatever else happens in between (`ret_step`, `ret_run`, `ret_done`).
-/
import KcpVerif.Lemmas.SysDrainPhase
import KcpVerif.Lemmas.KcpLive

namespace KcpVerif.SysC
open KcpVerif KcpVerif.Gen KcpVerif.Kcp KcpVerif.Live KcpVerif.Wire KcpVerif.SysW KcpVerif.Sys

/-- a datagram on its way to A, arriving by `T`, with a frame whose `una` is beyond `U` -/
def Carrier (base : U32) (U T : Nat) (s : State) : Prop :=
  ∃ d ∈ s.ba, d.arr ≤ T ∧ ∃ frs, d.data = encFrames frs ∧ (∀ fr ∈ frs, fr.data.length ≤ mtuLimit) ∧
    ∃ fr ∈ frs, U < o base fr.una

/-- where the cumulative acknowledgement beyond `U` is: arrived; owed by B, to be flushed by `T`; or on
its way, to arrive by `T + D` -/
def Ret (p : Par) (U T : Nat) (s : State) : Prop :=
  U < o p.base s.A.snd_una ∨
  (U < o p.base s.B.rcv_nxt ∧ s.B.acklist ≠ [] ∧ s.nfB ≤ T ∧ s.now ≤ T) ∨
  (Carrier p.base U (T + s.D) s ∧ s.now ≤ T + s.D)

theorem Carrier.mono {base : U32} {U T : Nat} {s s' : State} (h : Carrier base U T s) (hsub : ∀ d ∈ s.ba, d ∈ s'.ba) :
    Carrier base U T s' := by
  obtain ⟨d, hd, r⟩ := h
  exact ⟨d, hsub d hd, r⟩

theorem recv_acklist (k : Kcp) (n : Nat) : (recv k n).k.acklist = k.acklist := by
  unfold recv
  simp only []
  split; · rfl
  split; · rfl
  unfold moveReady
  split <;> rfl

/-- the ack list only grows during the parse loop -/
theorem inFrs_acklist_mono (frs : List Frm) : ∀ (st : InLoop), ∃ t, (inFrs true frs st).k.acklist = st.k.acklist ++ t := by
  induction frs with
  | nil => intro st; exact ⟨[], by simp [inFrs]⟩
  | cons fr rest ih =>
    intro st
    obtain ⟨t1, h1⟩ : ∃ t, (inFr true st fr).k.acklist = st.k.acklist ++ t := inStep_acklist_mono _ _ _ _ _ _ _ _ _ _
    unfold inFrs
    split
    · exact ⟨t1, h1⟩
    · obtain ⟨t2, h2⟩ := ih (inFr true st fr)
      exact ⟨t1 ++ t2, by rw [h2, h1, List.append_assoc]⟩

/-- A's `snd_una` never goes back -/
theorem una_mono_step {p : Par} {s : State} {gab gba : GLink} (h : Cons p s gab gba) (hnw : NoWrap p.base s) (ev : Ev) :
    o p.base s.A.snd_una ≤ o p.base (Sys.step s ev).A.snd_una := by
  cases ev with
  | tick =>
    rw [show Sys.step s .tick = (if quiet s then { s with now := s.now + 1 } else s) from rfl]
    split <;> exact Nat.le_refl _
  | send b =>
    have hq := Frame.send_k s.A b
    show _ ≤ o p.base (s.A.send b).k.snd_una
    rw [hq]; exact Nat.le_refl _
  | read =>
    rw [show Sys.step s .read = (if (s.B.recv s.B.peekSize.toNat).n < 0 then s
      else { s with B := (s.B.recv s.B.peekSize.toNat).k, got := s.got ++ (s.B.recv s.B.peekSize.toNat).data }) from rfl]
    split <;> exact Nat.le_refl _
  | flushA =>
    show _ ≤ o p.base (s.A.flush true (clk s.now)).k.snd_una
    rw [flush_una]; exact Nat.le_refl _
  | flushB => exact Nat.le_refl _
  | dlvB =>
    cases hab : s.ab with
    | nil =>
      have : Sys.step s .dlvB = s := by simp only [Sys.step, hab]
      rw [this]; exact Nat.le_refl _
    | cons d rest =>
      rw [step_dlvB_cons s _ _ hab]
      split <;> exact Nat.le_refl _
  | dlvA =>
    cases gba with
    | nil =>
      have : Sys.step s .dlvA = s := by simp only [Sys.step, h.hba, encL, List.map_nil]
      rw [this]; exact Nat.le_refl _
    | cons d0 grest =>
      obtain ⟨t0, frs⟩ := d0
      have hba : s.ba = ⟨t0, encFrames frs⟩ :: encL grest := h.hba
      rw [step_dlvA_cons s _ _ hba]
      split
      · have hd0 : ((t0, frs) : Nat × List Frm) ∈ (t0, frs) :: grest := List.mem_cons_self ..
        have hnw' := hnw
        unfold NoWrap at hnw'
        have hok : SndOk p.base p.conv (Has p.base s.B.rcv_nxt s.B.rcv_buf) s.A := ⟨h.acon, h.atag, h.ahas, h.arel⟩
        obtain ⟨_, _, a3, _, _⟩ := inFrs_snd_gen p.base p.conv (Has p.base s.B.rcv_nxt s.B.rcv_buf) frs { k := s.A } hok
          (by show o p.base s.A.snd_nxt < 2 ^ 31; omega) rfl (by
            intro fr hfr
            obtain ⟨_, _, e3, e4, e5⟩ := h.fba (t0, frs) hd0 fr hfr
            have := h.bub
            exact ⟨e3, by omega, fun sn hsn => Or.inl (by omega), e5⟩)
        have a3' : o p.base s.A.snd_una ≤ o p.base (inFrs true frs { k := s.A }).k.snd_una := a3
        obtain ⟨hv, hp, hr, _, _, _, _⟩ := cons_inA h hnw (inFrs true frs { k := s.A }).k (Or.inl rfl)
        by_cases hne : frs = []
        · subst hne
          simp only [input_empty]
          exact Nat.le_refl _
        · obtain ⟨k1, hk1, himp⟩ := inputA_cases s.A frs s.ndA (clk s.now) hv hp hr
          obtain ⟨_, _, _, hal, _, _, hclean⟩ := cons_inA h hnw k1 hk1
          have hu := inA_una s.A (inFrs true frs { k := s.A }) k1 hk1 s.A.snd_una
          rcases himp hal hclean.aK with hin | hin | ⟨hnil, _⟩
          · simp only [hin]
            show _ ≤ o p.base (cwndOnAck k1 s.A.snd_una).snd_una
            rw [hu]; exact a3'
          · simp only [hin]
            show _ ≤ o p.base (flush (cwndOnAck k1 s.A.snd_una) true (clk s.now)).k.snd_una
            rw [flush_una, hu]; exact a3'
          · exact absurd hnil hne
      · exact Nat.le_refl _

/-- what B's `Input` of the head datagram leaves of a pending acknowledgement: still pending, or flushed
into a datagram that arrives `D` later and carries `una = rcv_nxt` -/
theorem dlvB_pending {p : Par} {s : State} {t0 : Nat} {frs : List Frm} {grest gba : GLink}
    (h : Cons p s ((t0, frs) :: grest) gba) (hnw : NoWrap p.base s) (hack : s.B.acklist ≠ []) (U : Nat)
    (hU : U < o p.base s.B.rcv_nxt) :
    (U < o p.base (s.B.input (encFrames frs) true s.ndB (clk s.now)).k.rcv_nxt ∧ (s.B.input (encFrames frs) true s.ndB (clk s.now)).k.acklist ≠ [] ∧ (s.B.input (encFrames frs) true s.ndB (clk s.now)).outs = []) ∨
    (∃ g, ⟨s.now + s.D, encFrames g⟩ ∈ stamp (s.now + s.D) (s.B.input (encFrames frs) true s.ndB (clk s.now)).outs ∧ (∀ fr ∈ g, fr.data.length ≤ mtuLimit) ∧
      ∃ fr ∈ g, U < o p.base fr.una) := by
  have hnw' := hnw
  unfold NoWrap at hnw'
  have hN : o p.base s.A.snd_nxt < 2 ^ 31 := by omega
  have hd0 : ((t0, frs) : Nat × List Frm) ∈ (t0, frs) :: grest := List.mem_cons_self ..
  have hv : ∀ fr ∈ frs, FrValid s.B.conv fr := by
    intro fr hfr
    obtain ⟨e1, e2, _⟩ := h.fab (t0, frs) hd0 fr hfr
    refine ⟨by rw [e1, h.bconv], ?_, e2.2⟩
    unfold Live.validCmd
    rcases e2.1 with e | e | e
    · exact Or.inl e
    · exact Or.inr (Or.inr (Or.inl e))
    · exact Or.inr (Or.inr (Or.inr e))
  obtain ⟨r1, r2, r3, r4, r5⟩ := inFrs_rcv_gen p.base (o p.base s.A.snd_nxt) hN frs { k := s.B } h.bsb
    (fun fr hfr => ⟨(h.fab (t0, frs) hd0 fr hfr).2.1, (h.fab (t0, frs) hd0 fr hfr).2.2⟩) h.bub h.bbuf rfl
  obtain ⟨cw, inc, hcw⟩ := cwndOnAck_shape' (inFrs true frs { k := s.B }).k s.B.snd_una
  obtain ⟨t, ht⟩ := inFrs_acklist_mono frs { k := s.B }
  have hK2a : (cwndOnAck (inFrs true frs { k := s.B }).k s.B.snd_una).acklist ≠ [] := by
    rw [hcw]
    show (inFrs true frs { k := s.B }).k.acklist ≠ []
    rw [ht]
    intro hc
    exact hack (List.append_eq_nil_iff.mp hc).1
  have hK2n : U < o p.base (cwndOnAck (inFrs true frs { k := s.B }).k s.B.snd_una).rcv_nxt := by
    rw [hcw]
    show U < o p.base (inFrs true frs { k := s.B }).k.rcv_nxt
    have : o p.base s.B.rcv_nxt ≤ o p.base (inFrs true frs { k := s.B }).k.rcv_nxt := r1.lo
    omega
  have hK2sb : (cwndOnAck (inFrs true frs { k := s.B }).k s.B.snd_una).snd_buf = [] := by rw [hcw]; exact r1.sb
  have hK2sq : (cwndOnAck (inFrs true frs { k := s.B }).k s.B.snd_una).snd_queue = [] := by
    rw [hcw]; exact r1.sq.trans h.bsq
  have hKl : Total.InvK (inFrs true frs { k := s.B }).k := by
    have := (Total.inputLoop_ok true ((encFrames frs).length / IKCP_OVERHEAD + 1) (encFrames frs) { k := s.B } rfl rfl).2.2
    have e := inSt_encFrames s.B frs true hv
    unfold inSt at e
    rw [e] at this
    exact h.bK.of_pres this
  have hKm : Total.InvK (cwndOnAck (inFrs true frs { k := s.B }).k s.B.snd_una) :=
    hKl.of_pres (Total.cwndOnAck_pres _ _)
  rcases inputB_cases s.B frs s.ndB (clk s.now) hv r2 r3 r4 r5 with hin | hin | ⟨rfl, hin⟩
  · left
    rw [hin]; exact ⟨hK2n, hK2a, rfl⟩
  · right
    rw [hin]
    generalize cwndOnAck (inFrs true frs { k := s.B }).k s.B.snd_una = K2 at hK2a hK2n hK2sb hK2sq hKm
    obtain ⟨hfr, _⟩ := flush_empty K2 false (clk s.now) hK2sb hK2sq
    obtain ⟨hpan, _, _, _⟩ := Total.flush_total hKm false (clk s.now)
    obtain ⟨gs, hgs, hfl⟩ := flush_frames K2 false (clk s.now) hpan
    rw [hfr] at hfl
    obtain ⟨fr0, rest0, hf0⟩ := List.exists_cons_of_ne_nil (ackFrsOf_ne_nil K2 hK2a)
    have hm0 : fr0 ∈ ackFrsOf K2 := by rw [hf0]; exact List.mem_cons_self ..
    have hin' : fr0 ∈ gs.flatten := by rw [hfl]; exact List.mem_append_left _ hm0
    obtain ⟨g, hg, hfg⟩ := List.mem_flatten.mp hin'
    refine ⟨g, ?_, ?_, fr0, hfg, by rw [(ackFrsOf_mem K2 fr0 hm0).2.2.1]; exact hK2n⟩
    · show _ ∈ stamp (s.now + s.D) (flush K2 false (clk s.now)).outs
      rw [hgs]
      unfold stamp
      exact List.mem_map.mpr ⟨encFrames g, List.mem_map.mpr ⟨g, hg, rfl⟩, rfl⟩
    · intro fr hfr'
      have : fr ∈ gs.flatten := List.mem_flatten.mpr ⟨g, hg, hfr'⟩
      rw [hfl] at this
      rcases List.mem_append.mp this with hx | hx
      · rw [(ackFrsOf_mem K2 fr hx).2.2.2.1]; simp
      · rw [(probeFrs_mem K2 (clk s.now) fr hx).2.2.2]; simp
  · left
    rw [hin]; exact ⟨hU, hack, rfl⟩

/-- **every event keeps the acknowledgement on its return path** -/
theorem ret_step {p : Par} {s : State} {gab gba : GLink} (h : Cons p s gab gba) (hnw : NoWrap p.base s) (U T : Nat)
    (hr : Ret p U T s) (ev : Ev) : Ret p U T (Sys.step s ev) := by
  have hD : (Sys.step s ev).D = s.D := step_D s ev
  have hmono := una_mono_step h hnw ev
  unfold Ret at hr ⊢
  rw [hD]
  rcases hr with hG | hP3 | hP4
  · exact Or.inl (by omega)
  · -- B owes the acknowledgement
    obtain ⟨q1, q2, q3, q4⟩ := hP3
    cases ev with
    | tick =>
      rw [show Sys.step s .tick = (if quiet s then { s with now := s.now + 1 } else s) from rfl]
      split
      · rename_i hq
        unfold quiet at hq
        simp only [Bool.and_eq_true, List.all_eq_true, decide_eq_true_eq] at hq
        exact Or.inr (Or.inl ⟨q1, q2, q3, by show s.now + 1 ≤ T; omega⟩)
      · exact Or.inr (Or.inl ⟨q1, q2, q3, q4⟩)
    | send b => exact Or.inr (Or.inl ⟨q1, q2, q3, q4⟩)
    | read =>
      rw [show Sys.step s .read = (if (s.B.recv s.B.peekSize.toNat).n < 0 then s
        else { s with B := (s.B.recv s.B.peekSize.toNat).k, got := s.got ++ (s.B.recv s.B.peekSize.toNat).data }) from rfl]
      split
      · exact Or.inr (Or.inl ⟨q1, q2, q3, q4⟩)
      · have hnw' := hnw
        unfold NoWrap at hnw'
        have hs := recv_rcvStep p.base (o p.base s.A.snd_nxt) (by omega) s.B s.B.peekSize.toNat h.bsb h.bub h.bbuf
        refine Or.inr (Or.inl ⟨?_, ?_, q3, q4⟩)
        · show U < o p.base (s.B.recv s.B.peekSize.toNat).k.rcv_nxt
          have := hs.lo; omega
        · show (s.B.recv s.B.peekSize.toNat).k.acklist ≠ []
          rw [recv_acklist]; exact q2
    | flushA => exact Or.inr (Or.inl ⟨q1, q2, q3, q4⟩)
    | flushB =>
      -- phase C
      obtain ⟨hfr, _⟩ := flush_empty s.B true (clk s.now) h.bsb h.bsq
      obtain ⟨hpan, _, _, _⟩ := Total.flush_total h.bK true (clk s.now)
      obtain ⟨gs, hgs, hfl⟩ := flush_frames s.B true (clk s.now) hpan
      rw [hfr] at hfl
      obtain ⟨fr0, rest0, hf0⟩ := List.exists_cons_of_ne_nil (ackFrsOf_ne_nil s.B q2)
      have hm0 : fr0 ∈ ackFrsOf s.B := by rw [hf0]; exact List.mem_cons_self ..
      have hin' : fr0 ∈ gs.flatten := by rw [hfl]; exact List.mem_append_left _ hm0
      obtain ⟨g, hg, hfg⟩ := List.mem_flatten.mp hin'
      refine Or.inr (Or.inr ⟨⟨⟨s.now + s.D, encFrames g⟩, ?_, by show s.now + s.D ≤ T + s.D; omega, g, rfl, ?_, fr0, hfg,
        by rw [(ackFrsOf_mem s.B fr0 hm0).2.2.1]; exact q1⟩, by show s.now ≤ T + s.D; omega⟩)
      · show _ ∈ s.ba ++ stamp (s.now + s.D) (s.B.flush true (clk s.now)).outs
        rw [hgs]
        apply List.mem_append_right
        unfold stamp
        exact List.mem_map.mpr ⟨encFrames g, List.mem_map.mpr ⟨g, hg, rfl⟩, rfl⟩
      · intro fr hfr'
        have : fr ∈ gs.flatten := List.mem_flatten.mpr ⟨g, hg, hfr'⟩
        rw [hfl] at this
        rcases List.mem_append.mp this with hx | hx
        · rw [(ackFrsOf_mem s.B fr hx).2.2.2.1]; simp
        · rw [(probeFrs_mem s.B (clk s.now) fr hx).2.2.2]; simp
    | dlvB =>
      cases gab with
      | nil =>
        have : Sys.step s .dlvB = s := by simp only [Sys.step, h.hab, encL, List.map_nil]
        rw [this]; exact Or.inr (Or.inl ⟨q1, q2, q3, q4⟩)
      | cons d0 grest =>
        obtain ⟨t0, frs⟩ := d0
        have hab : s.ab = ⟨t0, encFrames frs⟩ :: encL grest := h.hab
        rw [step_dlvB_cons s _ _ hab]
        split
        · rcases dlvB_pending h hnw q2 U q1 with ⟨c1, c2, c3⟩ | ⟨g, c1, c2, c3⟩
          · exact Or.inr (Or.inl ⟨c1, c2, q3, q4⟩)
          · exact Or.inr (Or.inr ⟨⟨⟨s.now + s.D, encFrames g⟩, List.mem_append_right _ c1,
              by show s.now + s.D ≤ T + s.D; omega, g, rfl, c2, c3⟩, by show s.now ≤ T + s.D; omega⟩)
        · exact Or.inr (Or.inl ⟨q1, q2, q3, q4⟩)
    | dlvA =>
      cases hba : s.ba with
      | nil =>
        have : Sys.step s .dlvA = s := by simp only [Sys.step, hba]
        rw [this]; exact Or.inr (Or.inl ⟨q1, q2, q3, q4⟩)
      | cons d rest =>
        rw [step_dlvA_cons s _ _ hba]
        split
        · exact Or.inr (Or.inl ⟨q1, q2, q3, q4⟩)
        · exact Or.inr (Or.inl ⟨q1, q2, q3, q4⟩)
  · -- the acknowledgement is on its way
    obtain ⟨hc, hn⟩ := hP4
    have keep : ∀ s' : State, (∀ d ∈ s.ba, d ∈ s'.ba) → s'.now = s.now →
        U < o p.base s'.A.snd_una ∨ (U < o p.base s'.B.rcv_nxt ∧ s'.B.acklist ≠ [] ∧ s'.nfB ≤ T ∧ s'.now ≤ T) ∨
          (Carrier p.base U (T + s.D) s' ∧ s'.now ≤ T + s.D) :=
      fun s' hsub hnow => Or.inr (Or.inr ⟨hc.mono hsub, by rw [hnow]; exact hn⟩)
    cases ev with
    | tick =>
      rw [show Sys.step s .tick = (if quiet s then { s with now := s.now + 1 } else s) from rfl]
      split
      · rename_i hq
        unfold quiet at hq
        simp only [Bool.and_eq_true, List.all_eq_true, decide_eq_true_eq] at hq
        obtain ⟨d, hd, hda, r⟩ := hc
        have := hq.1.1.1.2 d hd
        exact Or.inr (Or.inr ⟨⟨d, hd, hda, r⟩, by show s.now + 1 ≤ T + s.D; omega⟩)
      · exact keep s (fun d hd => hd) rfl
    | send b => exact keep _ (fun d hd => hd) rfl
    | read =>
      rw [show Sys.step s .read = (if (s.B.recv s.B.peekSize.toNat).n < 0 then s
        else { s with B := (s.B.recv s.B.peekSize.toNat).k, got := s.got ++ (s.B.recv s.B.peekSize.toNat).data }) from rfl]
      split
      · exact keep s (fun d hd => hd) rfl
      · exact keep _ (fun d hd => hd) rfl
    | flushA => exact keep _ (fun d hd => hd) rfl
    | flushB => exact keep _ (fun d hd => List.mem_append_left _ hd) rfl
    | dlvB =>
      cases hab : s.ab with
      | nil =>
        have : Sys.step s .dlvB = s := by simp only [Sys.step, hab]
        rw [this]; exact keep s (fun d hd => hd) rfl
      | cons d rest =>
        rw [step_dlvB_cons s _ _ hab]
        split
        · exact keep _ (fun d hd => List.mem_append_left _ hd) rfl
        · exact keep s (fun d hd => hd) rfl
    | dlvA =>
      cases gba with
      | nil =>
        have : Sys.step s .dlvA = s := by simp only [Sys.step, h.hba, encL, List.map_nil]
        rw [this]; exact keep s (fun d hd => hd) rfl
      | cons d0 grest =>
        obtain ⟨t0, frs⟩ := d0
        have hba : s.ba = ⟨t0, encFrames frs⟩ :: encL grest := h.hba
        by_cases hdue : t0 ≤ s.now
        · -- is the head the carrier?
          obtain ⟨d, hd, hda, frs', hdd, hval, fr, hfr, hfu⟩ := hc
          rw [hba] at hd
          rcases List.mem_cons.mp hd with rfl | hd
          · -- phase D
            have hfe : frs' = frs := by
              apply encFrames_inj frs' frs hval
              · intro x hx
                rw [(h.fba (t0, frs) (List.mem_cons_self ..) x hx).2.1]; simp
              · exact hdd.symm
            rw [hfe] at hfr
            have := phase_D h hnw hdue fr hfr
            exact Or.inl (by omega)
          · rw [step_dlvA_cons s _ _ hba, if_pos hdue]
            exact Or.inr (Or.inr ⟨⟨d, hd, hda, frs', hdd, hval, fr, hfr, hfu⟩, hn⟩)
        · rw [step_dlvA_cons s _ _ hba, if_neg hdue]
          exact keep s (fun d hd => hd) rfl

theorem run_D' : ∀ (evs : List Ev) (s : State), (Sys.run s evs).D = s.D := run_D

/-- along a run: the consistency invariant and the return-path invariant -/
theorem ret_run {p : Par} (U T : Nat) (evs : List Ev) : ∀ (s : State) (gab gba : GLink), Cons p s gab gba →
    RunNoWrap p.base s evs → Ret p U T s → Ret p U T (Sys.run s evs) := by
  induction evs with
  | nil => intro s _ _ _ _ hr; exact hr
  | cons ev rest ih =>
    intro s gab gba h hnw hr
    obtain ⟨gab', gba', hc⟩ := cons_step h hnw.1 ev
    exact ih _ gab' gba' hc hnw.2 (ret_step h hnw.1 U T hr ev)

/-- **the return path, with its bound**: if in a consistent state B has passed `U`, owes an
acknowledgement and flushes by `T` (or the acknowledgement is already on its way, to arrive by `T + D`),
then in every later state of the fair system whose clock is past `T + D`, A's `snd_una` is beyond `U` -/
theorem ret_done {p : Par} {s : State} {gab gba : GLink} (h : Cons p s gab gba) (U T : Nat) (hr : Ret p U T s)
    (evs : List Ev) (hnw : RunNoWrap p.base s evs) (ht : T + s.D < (Sys.run s evs).now) :
    U < o p.base (Sys.run s evs).A.snd_una := by
  have := ret_run U T evs s gab gba h hnw hr
  unfold Ret at this
  rw [run_D] at this
  rcases this with hG | ⟨_, _, _, hn⟩ | ⟨_, hn⟩
  · exact hG
  · omega
  · omega

end KcpVerif.SysC
