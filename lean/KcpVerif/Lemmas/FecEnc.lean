/-
Lemmas about the FEC encoder model `KcpVerif.Model.Fec` (kcp-go `fec.go`, `fecEncoder`).
Core Lean only.  Contents:

A. `wrap_groups`, arithmetic: `paws = 0xffffffff / n * n` is a multiple of `n`, lies within `n`
   of `2^32` (`paws_gap`), so the step from the last group before the wrap to group 0 is a
   signed gap of at most `2n` ids (`wrap_gap`), inside the decoder's discard horizon
   (`wrap_within_horizon`, `wrap_not_discarded`); `advance` is `(next + k) % paws` on naturals.
B. `EncInv`: the encoder invariant (the id's position in its group is the shard index, a group
   never straddles the wrap); `inv_new`, `inv_encode`; `group_below_paws`, `skip_no_overflow`,
   `last_next_eq` (parity generated or skipped: same next id).
C. `enc_group`, single calls: `encode_data`, `encode_mid`, `encode_last_cont`, `encode_last_skip`.
D. `enc_group`, a whole group: `encodeMany`, `enc_group` (and `enc_group_idx`): an encoder at a
   group start fed the buffers of a `Group` emits exactly `Group.packet`s.
E. `parity_loss_harmless`, decoder side: `recover_all_data`, `decode_all_data`.
-/
import KcpVerif.Lemmas.FecSpec

namespace KcpVerif.Lemmas.FecEnc
open KcpVerif.Fec KcpVerif.Gen KcpVerif.Lemmas.FecSpec
open KcpVerif.AutoTune (itimediff)

/-! ## A. arithmetic of the wrap value -/

theorem pawsOf_toNat (n : Nat) : (pawsOf n).toNat = 0xffffffff / n * n := by
  have h := Nat.div_mul_le_self 0xffffffff n
  simp only [pawsOf, BitVec.toNat_ofNat]
  omega

theorem paws_multiple (n : Nat) : (pawsOf n).toNat % n = 0 := by
  rw [pawsOf_toNat n]; exact Nat.mul_mod_left _ _

theorem paws_lt {n : Nat} (_hn : 0 < n) : (pawsOf n).toNat < 2 ^ 32 := (pawsOf n).isLt

theorem paws_gap {n : Nat} (hn : 0 < n) : 2 ^ 32 - (pawsOf n).toNat ≤ n := by
  rw [pawsOf_toNat n]
  have h1 := Nat.div_add_mod 0xffffffff n
  have h2 := Nat.mod_lt 0xffffffff hn
  rw [Nat.mul_comm] at h1
  omega

theorem paws_pos {n : Nat} (hn : 0 < n) (hn' : n ≤ 256) : n ≤ (pawsOf n).toNat := by
  have := paws_gap hn
  omega

theorem paws_large {n : Nat} (hn : 0 < n) (hn' : n ≤ 256) : 2 ^ 32 - 256 ≤ (pawsOf n).toNat := by
  have := paws_gap hn
  omega

theorem wrap_gap {n : Nat} (hn : 0 < n) (hn' : n ≤ 256) :
    0 < itimediff 0 (pawsOf n - u32 n) ∧ itimediff 0 (pawsOf n - u32 n) ≤ 2 * n := by
  have h1 := paws_gap hn
  have h2 := paws_pos hn hn'
  have h3 := paws_lt hn
  simp only [itimediff, u32, BitVec.toInt_eq_toNat_cond, BitVec.toNat_sub, BitVec.toNat_ofNat]
  have h0 : (0 : BitVec 32).toNat = 0 := rfl
  omega

theorem advance_toNat (next paws : BitVec 32) (k : Nat) (h : next.toNat + k < 2 ^ 32) :
    (advance next k paws).toNat = (next.toNat + k) % paws.toNat := by
  simp only [advance, BitVec.toNat_umod, BitVec.toNat_add, BitVec.toNat_ofNat]
  have : k % 2 ^ 32 = k := Nat.mod_eq_of_lt (by omega)
  rw [this, Nat.mod_eq_of_lt h]

theorem advance_lt (next paws : BitVec 32) (h : next.toNat < paws.toNat) :
    (advance next 1 paws).toNat = (next.toNat + 1) % paws.toNat :=
  advance_toNat next paws 1 (by have := paws.isLt; omega)

/-- the last group before the wrap, as the decoder keys it: `shardId * n` is its base id -/
theorem last_group_key {n : Nat} (hn : 0 < n) (hn' : n ≤ 256) :
    (pawsOf n - u32 n).toNat = (pawsOf n).toNat - n ∧
    (pawsOf n - u32 n) / u32 n * u32 n = pawsOf n - u32 n := by
  have h1 := paws_pos hn hn'
  have h2 := paws_lt hn
  have hsub : (pawsOf n - u32 n).toNat = (pawsOf n).toNat - n := by
    simp only [u32, BitVec.toNat_sub, BitVec.toNat_ofNat]
    omega
  refine ⟨hsub, ?_⟩
  apply BitVec.eq_of_toNat_eq
  have hun : (u32 n).toNat = n := by
    simp only [u32, BitVec.toNat_ofNat]; omega
  have hdvd : n ∣ (pawsOf n).toNat - n :=
    Nat.dvd_sub (Nat.dvd_of_mod_eq_zero (paws_multiple n)) (Nat.dvd_refl n)
  rw [BitVec.toNat_mul, BitVec.toNat_udiv, hun, hsub, Nat.div_mul_cancel hdvd]
  omega

/-- the decoder does not discard the last group before the wrap when group 0 arrives -/
theorem wrap_not_discarded {n : Nat} (hn : 0 < n) (hn' : n ≤ 256) (pk : List Bytes) :
    (KcpVerif.Fec.discard n 0 [{ id := (pawsOf n - u32 n) / u32 n, pkts := pk }]).length = 1 := by
  have hg := (wrap_gap hn hn').2
  have hk := (last_group_key hn hn').2
  have h0 : (0 : BitVec 32) * u32 n = 0 := BitVec.zero_mul
  have hms : maxShardSets = 3 := rfl
  have hnot : ¬ (itimediff 0 (pawsOf n - u32 n) > ((maxShardSets * n : Nat) : Int)) := by
    rw [hms]; omega
  have hpos := (wrap_gap hn hn').1
  have hneg : ¬ (itimediff 0 (pawsOf n - u32 n) < 0) := by omega
  simp only [KcpVerif.Fec.discard, List.filter_cons, List.filter_nil, h0, hk, hnot, hneg, decide_false,
    Bool.or_self, Bool.not_false, if_true, List.length_cons, List.length_nil]

/-- the gap at the wrap is inside the discard horizon `maxShardSets * n` -/
theorem wrap_within_horizon {n : Nat} (hn : 0 < n) (hn' : n ≤ 256) :
    itimediff 0 (pawsOf n - u32 n) ≤ ((maxShardSets * n : Nat) : Int) := by
  have := (wrap_gap hn hn').2
  have hms : maxShardSets = 3 := rfl
  rw [hms]; omega

/- the hypotheses are satisfiable: the default ratio 10/3 -/
example : (pawsOf 13).toNat % 13 = 0 ∧ 2 ^ 32 - (pawsOf 13).toNat ≤ 13 :=
  ⟨paws_multiple 13, paws_gap (by decide)⟩
example : 0 < itimediff 0 (pawsOf 13 - u32 13) ∧ itimediff 0 (pawsOf 13 - u32 13) ≤ 2 * 13 :=
  wrap_gap (by decide) (by decide)
example : (advance 5#32 1 (pawsOf 13)).toNat = (5 + 1) % (pawsOf 13).toNat :=
  advance_lt _ _ (by decide)

/-! pure arithmetic of ids inside a group -/

/-- an id below a multiple of `n` has its whole group below it -/
theorem group_arith {n q x s : Nat} (hlt : x < q * n) (hpos : x % n = s) :
    x - s + n ≤ q * n ∧ x - s = n * (x / n) ∧ s ≤ x := by
  have h1 := Nat.div_add_mod x n
  have h2 : x / n < q := Nat.div_lt_of_lt_mul (by rw [Nat.mul_comm]; exact hlt)
  have h3 : n * (x / n + 1) ≤ n * q := Nat.mul_le_mul_left n h2
  rw [Nat.mul_add, Nat.mul_one, Nat.mul_comm n q] at h3
  omega

theorem mid_arith {n q x s : Nat} (hlt : x < q * n) (hpos : x % n = s) (hs : s + 1 < n) :
    x + 1 < q * n ∧ (x + 1) % n = s + 1 := by
  obtain ⟨h1, h2, h3⟩ := group_arith hlt hpos
  refine ⟨by omega, ?_⟩
  have : x + 1 = n * (x / n) + (s + 1) := by omega
  rw [this, Nat.mul_add_mod, Nat.mod_eq_of_lt hs]

theorem last_arith {n q x s p : Nat} (hlt : x < q * n) (hpos : x % n = s) (hs : s + 1 + p = n) :
    x + 1 + p ≤ q * n ∧ (x + 1 + p) % (q * n) < q * n ∧ (x + 1 + p) % (q * n) % n = 0 := by
  obtain ⟨h1, h2, h3⟩ := group_arith hlt hpos
  have hq : 0 < q * n := by omega
  refine ⟨by omega, Nat.mod_lt _ hq, ?_⟩
  rcases Nat.lt_or_ge (x + 1 + p) (q * n) with h | h
  · rw [Nat.mod_eq_of_lt h]
    have : x + 1 + p = n * (x / n) + n := by omega
    rw [this, Nat.mul_add_mod, Nat.mod_self]
  · have : x + 1 + p = q * n := by omega
    rw [this, Nat.mod_self, Nat.zero_mod]

theorem ite_max (a b : Nat) : (if b > a then b else a) = max a b := by
  split <;> omega

theorem le16_length (v : Nat) : (le16 v).length = 2 := rfl
theorem le32_length (v : BitVec 32) : (le32 v).length = 4 := rfl
theorem bodyOf_length (pl : Bytes) : (bodyOf pl).length = pl.length + 2 := by
  simp only [bodyOf, List.length_append, le16_length]; omega

/-- the size field written by `encode` is the body length; the cached body is `bodyOf payload` -/
theorem sealed_eq (e : Encoder) (b : Bytes) (h1 : e.payloadOffset + 2 ≤ b.length)
    (h2 : b.length ≤ mtuLimit) :
    b.take e.headerOffset ++ le32 e.next ++ le16 typeData
        ++ le16 ((b.length - e.payloadOffset) % 65536) ++ b.drop (e.payloadOffset + 2)
      = b.take e.headerOffset ++ le32 e.next ++ le16 typeData
        ++ bodyOf (b.drop (e.payloadOffset + 2)) := by
  have hm : mtuLimit = 1500 := rfl
  have : (b.drop (e.payloadOffset + 2)).length + 2 = (b.length - e.payloadOffset) % 65536 := by
    simp only [List.length_drop]; omega
  simp only [bodyOf, this, List.append_assoc]

theorem sealed_drop (e : Encoder) (b : Bytes) (h1 : e.payloadOffset + 2 ≤ b.length) (pl : Bytes) :
    (b.take e.headerOffset ++ le32 e.next ++ le16 typeData ++ bodyOf pl).drop e.payloadOffset
      = bodyOf pl := by
  have hl : (b.take e.headerOffset ++ le32 e.next ++ le16 typeData).length = e.payloadOffset := by
    simp only [List.length_append, List.length_take, le32_length, le16_length,
      Encoder.payloadOffset, fecHeaderSize] at h1 ⊢
    omega
  rw [← hl]
  exact List.drop_left

theorem encode_eq (e : Encoder) (b : Bytes) (cont : Bool) (h1 : e.payloadOffset + 2 ≤ b.length)
    (h2 : b.length ≤ mtuLimit) :
    e.encode b cont =
      if e.shardCount + 1 = e.d then
        if cont then
          { st := { e with next := advanceN e.paws e.p (advance e.next 1 e.paws), shardCount := 0,
                           maxSize := 0, cache := [] },
            data := b.take e.headerOffset ++ le32 e.next ++ le16 typeData
                      ++ bodyOf (b.drop (e.payloadOffset + 2)),
            parity := sealParities e.headerOffset e.paws (advance e.next 1 e.paws)
              (e.codec.enc ((e.cache ++ [bodyOf (b.drop (e.payloadOffset + 2))]).map
                (pad (max e.maxSize b.length - e.payloadOffset)))) }
        else
          { st := { e with next := advance (advance e.next 1 e.paws) e.p e.paws, shardCount := 0,
                           maxSize := 0, cache := [] },
            data := b.take e.headerOffset ++ le32 e.next ++ le16 typeData
                      ++ bodyOf (b.drop (e.payloadOffset + 2)),
            parity := [] }
      else
        { st := { e with next := advance e.next 1 e.paws, shardCount := e.shardCount + 1,
                         maxSize := max e.maxSize b.length,
                         cache := e.cache ++ [bodyOf (b.drop (e.payloadOffset + 2))] },
          data := b.take e.headerOffset ++ le32 e.next ++ le16 typeData
                    ++ bodyOf (b.drop (e.payloadOffset + 2)),
          parity := [] } := by
  have hc : ¬ (b.length < e.payloadOffset + 2 ∨ b.length > mtuLimit) := by omega
  unfold Encoder.encode
  simp only [if_neg hc, sealed_eq e b h1 h2, sealed_drop e b h1, ite_max]

/-! ## B. encoder invariant -/

theorem advanceN_toNat (paws : BitVec 32) (k : Nat) (next : BitVec 32)
    (hlt : next.toNat < paws.toNat) (hk : next.toNat + k ≤ paws.toNat) :
    (advanceN paws k next).toNat = (next.toNat + k) % paws.toNat := by
  induction k generalizing next with
  | zero => simp only [advanceN, Nat.add_zero, Nat.mod_eq_of_lt hlt]
  | succ k ih =>
    have h1 := advance_lt next paws hlt
    simp only [advanceN]
    rcases Nat.lt_or_ge (next.toNat + 1) paws.toNat with h | h
    · rw [Nat.mod_eq_of_lt h] at h1
      rw [ih _ (by omega) (by omega), h1]
      congr 1; omega
    · have hk0 : k = 0 := by omega
      subst hk0
      simp only [advanceN, h1]

/-- the `p` unit steps of `sealParity` and the single `+ p` of `skipParity` give the same id -/
theorem advanceN_eq_advance (paws : BitVec 32) (k : Nat) (next : BitVec 32)
    (hlt : next.toNat < paws.toNat) (hk : next.toNat + k ≤ paws.toNat) :
    advanceN paws k next = advance next k paws := by
  apply BitVec.eq_of_toNat_eq
  rw [advanceN_toNat paws k next hlt hk, advance_toNat]
  have := paws.isLt; omega

structure EncInv (C : CodecNew) (e : Encoder) : Prop where
  d_pos : 0 < e.d
  p_pos : 0 < e.p
  n_eq : e.n = e.d + e.p
  n_le : e.n ≤ 256
  paws_eq : e.paws = pawsOf e.n
  next_lt : e.next.toNat < e.paws.toNat
  count_lt : e.shardCount < e.d
  /-- the id's position in its group is the shard index -/
  pos : e.next.toNat % e.n = e.shardCount
  cache_len : e.cache.length = e.shardCount
  max_le : e.maxSize ≤ mtuLimit
  body_le : ∀ s ∈ e.cache, s.length ≤ e.maxSize - e.payloadOffset
  body_ge : ∀ s ∈ e.cache, 2 ≤ s.length
  fresh : e.shardCount = 0 → e.maxSize = 0
  codec_eq : e.codec = C e.d e.p

theorem EncInv.n_pos {C : CodecNew} {e : Encoder} (h : EncInv C e) : 0 < e.n := by
  have := h.n_eq; have := h.d_pos; omega

theorem EncInv.paws_toNat {C : CodecNew} {e : Encoder} (h : EncInv C e) :
    e.paws.toNat = 0xffffffff / e.n * e.n := by
  rw [h.paws_eq, pawsOf_toNat]

theorem inv_new {C : CodecNew} {d p off : Nat} {e : Encoder}
    (h : Encoder.new C d p off = some e) : EncInv C e := by
  unfold Encoder.new at h
  split at h
  · exact absurd h (by simp only [reduceCtorEq, not_false_eq_true])
  · rename_i hc
    simp only [Option.some.injEq] at h
    subst h
    have hp := paws_pos (n := d + p) (by omega) (by omega)
    constructor
    all_goals simp only [List.length_nil, List.not_mem_nil, false_imp_iff, implies_true]
    all_goals first
      | omega
      | rfl
      | skip
    · show (0 : BitVec 32).toNat < _
      have h0 : (0 : BitVec 32).toNat = 0 := rfl
      omega

/-- a group never straddles the wrap -/
theorem group_below_paws {C : CodecNew} {e : Encoder} (h : EncInv C e) :
    e.next.toNat - e.shardCount + e.n ≤ e.paws.toNat := by
  have hlt := h.next_lt
  rw [h.paws_toNat] at hlt ⊢
  exact (group_arith hlt h.pos).1

/-- the `uint32` addition in `skipParity` cannot overflow -/
theorem skip_no_overflow {C : CodecNew} {e : Encoder} (h : EncInv C e)
    (hl : e.shardCount + 1 = e.d) :
    (advance (advance e.next 1 e.paws) e.p e.paws).toNat
      = (e.next.toNat + 1 + e.p) % e.paws.toNat := by
  have hlt := h.next_lt
  have hb := group_below_paws h
  have hn := h.n_eq
  have hpos := h.pos
  have h1 := advance_lt e.next e.paws hlt
  have hpw := e.paws.isLt
  have hle : e.shardCount ≤ e.next.toNat := by
    rw [← hpos]; exact Nat.mod_le _ _
  have hpp := h.p_pos
  rw [Nat.mod_eq_of_lt (by omega)] at h1
  rw [advance_toNat _ _ _ (by omega), h1]


/-- a fresh 2/1 encoder without session header -/
def exEnc (C : CodecNew) : Encoder :=
  { d := 2, p := 1, n := 3, paws := pawsOf 3, next := 0, shardCount := 0, maxSize := 0,
    headerOffset := 0, cache := [], codec := C 2 1 }

theorem exEnc_new (C : CodecNew) : Encoder.new C 2 1 0 = some (exEnc C) := rfl

theorem exEnc_inv (C : CodecNew) : EncInv C (exEnc C) := inv_new (exEnc_new C)

example (C : CodecNew) : (exEnc C).next.toNat - (exEnc C).shardCount + (exEnc C).n
    ≤ (exEnc C).paws.toNat := group_below_paws (exEnc_inv C)

/-- inside a group the id steps by one without wrapping -/
theorem next1_toNat {C : CodecNew} {e : Encoder} (h : EncInv C e) :
    (advance e.next 1 e.paws).toNat = e.next.toNat + 1
      ∧ e.next.toNat + 1 + (e.d - (e.shardCount + 1)) + e.p ≤ e.paws.toNat := by
  have hlt := h.next_lt
  have hb := group_below_paws h
  have hn := h.n_eq
  have hpos := h.pos
  have hc := h.count_lt
  have h1 := advance_lt e.next e.paws hlt
  have hle : e.shardCount ≤ e.next.toNat := by
    rw [← hpos]; exact Nat.mod_le _ _
  have hpp := h.p_pos
  rw [Nat.mod_eq_of_lt (by omega)] at h1
  exact ⟨h1, by omega⟩

/-- after a completed group the id is the same whether parity was generated or skipped -/
theorem last_next_eq {C : CodecNew} {e : Encoder} (h : EncInv C e) :
    advanceN e.paws e.p (advance e.next 1 e.paws) = advance (advance e.next 1 e.paws) e.p e.paws := by
  obtain ⟨h1, h2⟩ := next1_toNat h
  have hpp := h.p_pos
  exact advanceN_eq_advance _ _ _ (by omega) (by omega)

/-! ## C. single steps of `encode` -/

section steps
variable {e : Encoder} {b : Bytes} {cont : Bool}

theorem encode_panic_false (hp : (e.encode b cont).panic = false) :
    e.payloadOffset + 2 ≤ b.length ∧ b.length ≤ mtuLimit := by
  by_cases hc : b.length < e.payloadOffset + 2 ∨ b.length > mtuLimit
  · unfold Encoder.encode at hp
    simp only [if_pos hc, reduceCtorEq] at hp
  · omega

theorem encode_no_panic (h1 : e.payloadOffset + 2 ≤ b.length) (h2 : b.length ≤ mtuLimit) :
    (e.encode b cont).panic = false := by
  rw [encode_eq e b cont h1 h2]
  split
  · split <;> rfl
  · rfl

theorem encode_data (h1 : e.payloadOffset + 2 ≤ b.length) (h2 : b.length ≤ mtuLimit) :
    (e.encode b cont).data = b.take e.headerOffset ++ le32 e.next ++ le16 typeData
      ++ bodyOf (b.drop (e.payloadOffset + 2)) := by
  rw [encode_eq e b cont h1 h2]
  split
  · split <;> rfl
  · rfl

theorem encode_mid (h1 : e.payloadOffset + 2 ≤ b.length) (h2 : b.length ≤ mtuLimit)
    (hm : e.shardCount + 1 ≠ e.d) :
    (e.encode b cont).parity = [] ∧
    (e.encode b cont).st = { e with next := advance e.next 1 e.paws, shardCount := e.shardCount + 1,
                                    maxSize := max e.maxSize b.length,
                                    cache := e.cache ++ [bodyOf (b.drop (e.payloadOffset + 2))] } := by
  rw [encode_eq e b cont h1 h2, if_neg hm]
  exact ⟨rfl, rfl⟩

theorem encode_last_cont {C : CodecNew} (h : EncInv C e) (h1 : e.payloadOffset + 2 ≤ b.length)
    (h2 : b.length ≤ mtuLimit) (hl : e.shardCount + 1 = e.d) :
    (e.encode b true).parity = sealParities e.headerOffset e.paws (advance e.next 1 e.paws)
        (e.codec.enc ((e.cache ++ [bodyOf (b.drop (e.payloadOffset + 2))]).map
          (pad (max e.maxSize b.length - e.payloadOffset)))) ∧
    (e.encode b true).st = { e with next := advance (advance e.next 1 e.paws) e.p e.paws,
                                    shardCount := 0, maxSize := 0, cache := [] } := by
  rw [encode_eq e b true h1 h2, if_pos hl, last_next_eq h]
  exact ⟨rfl, rfl⟩

theorem encode_last_skip (h1 : e.payloadOffset + 2 ≤ b.length)
    (h2 : b.length ≤ mtuLimit) (hl : e.shardCount + 1 = e.d) :
    (e.encode b false).parity = [] ∧
    (e.encode b false).st = { e with next := advance (advance e.next 1 e.paws) e.p e.paws,
                                     shardCount := 0, maxSize := 0, cache := [] } := by
  rw [encode_eq e b false h1 h2, if_pos hl]
  exact ⟨rfl, rfl⟩

/-- the state after the last packet of a group does not depend on `cont` -/
theorem encode_last_st {C : CodecNew} (h : EncInv C e) (h1 : e.payloadOffset + 2 ≤ b.length)
    (h2 : b.length ≤ mtuLimit) (hl : e.shardCount + 1 = e.d) :
    (e.encode b cont).st = { e with next := advance (advance e.next 1 e.paws) e.p e.paws,
                                    shardCount := 0, maxSize := 0, cache := [] } := by
  cases cont
  · exact (encode_last_skip h1 h2 hl).2
  · exact (encode_last_cont h h1 h2 hl).2

end steps

theorem inv_mid {C : CodecNew} {e : Encoder} {b : Bytes} (h : EncInv C e)
    (h1 : e.payloadOffset + 2 ≤ b.length) (h2 : b.length ≤ mtuLimit)
    (hm : e.shardCount + 1 ≠ e.d) :
    EncInv C { e with next := advance e.next 1 e.paws, shardCount := e.shardCount + 1,
                      maxSize := max e.maxSize b.length,
                      cache := e.cache ++ [bodyOf (b.drop (e.payloadOffset + 2))] } := by
  obtain ⟨hn1, hn2⟩ := next1_toNat h
  have hc := h.count_lt
  have hlt := h.next_lt
  have hmax := h.max_le
  have hbl : (bodyOf (b.drop (e.payloadOffset + 2))).length = b.length - e.payloadOffset := by
    rw [bodyOf_length, List.length_drop]; omega
  simp only [Encoder.payloadOffset] at h1 hbl
  constructor
  all_goals dsimp only [Encoder.payloadOffset]
  · exact h.d_pos
  · exact h.p_pos
  · exact h.n_eq
  · exact h.n_le
  · exact h.paws_eq
  · omega
  · omega
  · rw [hn1]
    rw [h.paws_toNat] at hlt
    have hn := h.n_eq
    have hpp := h.p_pos
    exact (mid_arith hlt h.pos (by omega)).2
  · rw [List.length_append, h.cache_len]; rfl
  · omega
  · intro s hs
    rcases List.mem_append.1 hs with hs | hs
    · have := h.body_le s hs
      simp only [Encoder.payloadOffset] at this
      omega
    · rw [List.mem_singleton.1 hs, hbl]
      omega
  · intro s hs
    rcases List.mem_append.1 hs with hs | hs
    · exact h.body_ge s hs
    · rw [List.mem_singleton.1 hs, hbl]; omega
  · intro h0; omega
  · exact h.codec_eq

theorem inv_last {C : CodecNew} {e : Encoder} (h : EncInv C e) (hl : e.shardCount + 1 = e.d) :
    EncInv C { e with next := advance (advance e.next 1 e.paws) e.p e.paws,
                      shardCount := 0, maxSize := 0, cache := [] } := by
  have hs := skip_no_overflow h hl
  have hlt := h.next_lt
  have hn := h.n_eq
  rw [h.paws_toNat] at hlt hs
  obtain ⟨a1, a2, a3⟩ := last_arith (p := e.p) hlt h.pos (by omega)
  constructor
  all_goals dsimp only
  · exact h.d_pos
  · exact h.p_pos
  · exact h.n_eq
  · exact h.n_le
  · exact h.paws_eq
  · rw [hs, h.paws_toNat]; exact a2
  · exact h.d_pos
  · rw [hs]; exact a3
  · rfl
  · exact Nat.zero_le _
  · intro s hs; exact absurd hs List.not_mem_nil
  · intro s hs; exact absurd hs List.not_mem_nil
  · intro _; rfl
  · exact h.codec_eq

theorem inv_encode {C : CodecNew} {e : Encoder} {b : Bytes} {cont : Bool} (h : EncInv C e)
    (hp : (e.encode b cont).panic = false) : EncInv C (e.encode b cont).st := by
  obtain ⟨h1, h2⟩ := encode_panic_false hp
  by_cases hl : e.shardCount + 1 = e.d
  · rw [encode_last_st h h1 h2 hl]; exact inv_last h hl
  · rw [(encode_mid h1 h2 hl).2]; exact inv_mid h h1 h2 hl

/-- after a completed group the id is a group start -/
theorem next_aligned_after_group {C : CodecNew} {e : Encoder} {b : Bytes} {cont : Bool}
    (h : EncInv C e) (h1 : e.payloadOffset + 2 ≤ b.length) (h2 : b.length ≤ mtuLimit)
    (hl : e.shardCount + 1 = e.d) :
    (e.encode b cont).st.next.toNat % e.n = 0 ∧ (e.encode b cont).st.shardCount = 0 := by
  have hi := inv_encode (cont := cont) h (encode_no_panic h1 h2)
  rw [encode_last_st h h1 h2 hl] at hi ⊢
  exact ⟨hi.pos, rfl⟩


def exB0 : Bytes := [0, 0, 0, 0, 0, 0, 0, 0, 1, 2, 3]
def exB1 : Bytes := [0, 0, 0, 0, 0, 0, 0, 0, 4]

theorem exB0_ok (C : CodecNew) :
    (exEnc C).payloadOffset + 2 ≤ exB0.length ∧ exB0.length ≤ mtuLimit := by
  show 0 + 6 + 2 ≤ 11 ∧ 11 ≤ 1500
  omega

/- the hypotheses of the single-step theorems are satisfiable -/
example (C : CodecNew) : ((exEnc C).encode exB0 true).data
    = [] ++ le32 0 ++ le16 typeData ++ bodyOf [1, 2, 3] :=
  encode_data (exB0_ok C).1 (exB0_ok C).2
example (C : CodecNew) : ((exEnc C).encode exB0 true).parity = [] :=
  (encode_mid (exB0_ok C).1 (exB0_ok C).2 (by show 0 + 1 ≠ 2; omega)).1
example (C : CodecNew) : EncInv C ((exEnc C).encode exB0 false).st :=
  inv_encode (exEnc_inv C) (encode_no_panic (exB0_ok C).1 (exB0_ok C).2)

/-! ## D. a whole group -/

/-- feed the buffers in order; result: final state and, per call, the sealed buffer and the
    returned parity packets -/
def encodeMany (e : Encoder) (bs : List Bytes) (cont : Bool) : Encoder × List (Bytes × List Bytes) :=
  match bs with
  | [] => (e, [])
  | b :: rest =>
    ((encodeMany (e.encode b cont).st rest cont).1,
      ((e.encode b cont).data, (e.encode b cont).parity) :: (encodeMany (e.encode b cont).st rest cont).2)

/-- running maximum of the buffer lengths (`maxSize`) -/
def maxOf (m : Nat) (bs : List Bytes) : Nat := bs.foldl (fun m b => max m b.length) m

theorem next1_eq {C : CodecNew} {e : Encoder} (h : EncInv C e) :
    advance e.next 1 e.paws = e.next + 1#32 := by
  apply BitVec.eq_of_toNat_eq
  obtain ⟨h1, h2⟩ := next1_toNat h
  have := e.paws.isLt
  rw [h1, BitVec.toNat_add, BitVec.toNat_ofNat]
  omega

theorem bv_step (x : BitVec 32) (j : Nat) :
    x + 1#32 + BitVec.ofNat 32 j = x + BitVec.ofNat 32 (j + 1) := by
  apply BitVec.eq_of_toNat_eq
  simp only [BitVec.toNat_add, BitVec.toNat_ofNat]
  omega

theorem bv_add_zero (x : BitVec 32) : x + BitVec.ofNat 32 0 = x := BitVec.add_zero x

theorem advance_advance (x paws : BitVec 32) (k : Nat) (h : x.toNat + 1 + k < 2 ^ 32) :
    advance (advance x 1 paws) k paws = advance x (k + 1) paws := by
  apply BitVec.eq_of_toNat_eq
  have h1 := advance_toNat x paws 1 (by omega)
  have hle : (x.toNat + 1) % paws.toNat ≤ x.toNat + 1 := Nat.mod_le _ _
  rw [advance_toNat _ _ _ (by omega), h1, advance_toNat _ _ _ (by omega), Nat.mod_add_mod]
  congr 1; omega

theorem many_aux {C : CodecNew} (cont : Bool) (ho p : Nat) (pw : BitVec 32) (cd : Codec) :
    ∀ (bs : List Bytes) (e : Encoder), EncInv C e → e.headerOffset = ho → e.p = p → e.paws = pw →
      e.codec = cd → (∀ b ∈ bs, ho + fecHeaderSize + 2 ≤ b.length ∧ b.length ≤ mtuLimit) →
      e.shardCount + bs.length = e.d → bs ≠ [] →
      (encodeMany e bs cont).1 = { e with next := advance e.next (bs.length + p) pw, shardCount := 0,
                                          maxSize := 0, cache := [] } ∧
      (encodeMany e bs cont).2.length = bs.length ∧
      ∀ i, i < bs.length → (encodeMany e bs cont).2[i]? = some
        ((bs.getD i []).take ho ++ le32 (e.next + BitVec.ofNat 32 i) ++ le16 typeData
            ++ bodyOf ((bs.getD i []).drop (ho + fecHeaderSize + 2)),
         if i + 1 = bs.length ∧ cont = true then
           sealParities ho pw (e.next + BitVec.ofNat 32 bs.length)
             (cd.enc ((e.cache ++ bs.map (fun b => bodyOf (b.drop (ho + fecHeaderSize + 2)))).map
               (pad (maxOf e.maxSize bs - (ho + fecHeaderSize)))))
         else []) := by
  intro bs
  induction bs with
  | nil => intro e _ _ _ _ _ _ _ hne; exact absurd rfl hne
  | cons b rest ih =>
    intro e h hho hp hpw hcd hbs hcount _
    have hb := hbs b (List.mem_cons_self ..)
    have h1 : e.payloadOffset + 2 ≤ b.length := by
      simp only [Encoder.payloadOffset, hho]; exact hb.1
    have h2 := hb.2
    have hpo : e.payloadOffset = ho + fecHeaderSize := by simp only [Encoder.payloadOffset, hho]
    obtain ⟨hn1, hn2⟩ := next1_toNat h
    have hpwlt := e.paws.isLt
    have hnx := next1_eq h
    have hnx' : advance e.next 1 pw = e.next + 1#32 := by rw [← hpw]; exact hnx
    have hdat := encode_data (cont := cont) h1 h2
    rw [hpo, hho] at hdat
    simp only [List.length_cons] at hcount
    by_cases hr : rest = []
    · -- the last packet of the group
      subst hr
      have hl : e.shardCount + 1 = e.d := hcount
      have hst := encode_last_st (cont := cont) h h1 h2 hl
      simp only [encodeMany, hst, hdat]
      refine ⟨?_, rfl, ?_⟩
      · rw [advance_advance _ _ _ (by omega), hp, hpw, Nat.add_comm]; rfl
      · intro i hi
        have hi0 : i = 0 := by simpa using hi
        subst hi0
        cases cont
        · simp only [(encode_last_skip h1 h2 hl).1, List.getElem?_cons_zero, List.getD_cons_zero,
            Bool.false_eq_true, and_false, if_false, bv_add_zero]
        · simp only [(encode_last_cont h h1 h2 hl).1, hnx', hpo, hho, hpw, hcd,
            List.getElem?_cons_zero, List.getD_cons_zero, List.length_cons, List.length_nil,
            Nat.zero_add, and_self, if_true, bv_add_zero, maxOf, List.foldl_cons, List.foldl_nil,
            List.map_cons, List.map_nil]
    · -- an inner packet
      have hrl : 0 < rest.length := List.length_pos_iff.2 hr
      have hm : e.shardCount + 1 ≠ e.d := by omega
      obtain ⟨hpar, hst⟩ := encode_mid (cont := cont) h1 h2 hm
      have hinv := inv_mid h h1 h2 hm
      have ih' := ih _ hinv hho hp hpw hcd (fun b hb => hbs b (List.mem_cons_of_mem _ hb))
        (by dsimp only; omega) hr
      rw [hpo, hnx] at hst
      dsimp only at ih'
      rw [hpo, hnx] at ih'
      obtain ⟨ih1, ih2, ih3⟩ := ih'
      simp only [encodeMany, hst, hpar, hdat]
      refine ⟨?_, ?_, ?_⟩
      · rw [ih1, hpw, ← hnx', advance_advance _ _ _ (by omega)]
        simp only [List.length_cons]
        rw [Nat.add_right_comm]
      · simp only [List.length_cons, ih2]
      · intro i hi
        cases i with
        | zero =>
          have : ¬ (0 + 1 = (b :: rest).length ∧ cont = true) := by
            simp only [List.length_cons]; omega
          simp only [List.getElem?_cons_zero, if_neg this, List.getD_cons_zero, bv_add_zero]
        | succ j =>
          have hj : j < rest.length := by simpa using hi
          simp only [List.getElem?_cons_succ, ih3 j hj, bv_step, List.getD_cons_succ,
            List.length_cons, Nat.add_right_cancel_iff, List.map_cons, List.append_assoc,
            List.singleton_append, maxOf, List.foldl_cons]

theorem bv_add_add (x : BitVec 32) (a b : Nat) :
    x + BitVec.ofNat 32 a + BitVec.ofNat 32 b = x + BitVec.ofNat 32 (a + b) := by
  apply BitVec.eq_of_toNat_eq
  simp only [BitVec.toNat_add, BitVec.toNat_ofNat]
  omega

/-- `sealParity` on each shard: consecutive ids, no wrap while the ids stay below `paws` -/
theorem sealParities_eq (off : Nat) (paws : BitVec 32) :
    ∀ (par : List Bytes) (next : BitVec 32), next.toNat + par.length ≤ paws.toNat →
      sealParities off paws next par = (List.range par.length).map (fun k =>
        List.replicate off 0 ++ le32 (next + BitVec.ofNat 32 k) ++ le16 typeParity ++ par.getD k []) := by
  intro par
  induction par with
  | nil => intro next _; rfl
  | cons s rest ih =>
    intro next hle
    simp only [List.length_cons] at hle
    have hpw := paws.isLt
    simp only [sealParities, List.length_cons, List.range_succ_eq_map, List.map_cons, List.map_map,
      List.getD_cons_zero, bv_add_zero]
    congr 1
    by_cases hr : rest = []
    · subst hr; rfl
    · have hrl : 0 < rest.length := List.length_pos_iff.2 hr
      have hnx : advance next 1 paws = next + 1#32 := by
        apply BitVec.eq_of_toNat_eq
        rw [advance_toNat _ _ _ (by omega), Nat.mod_eq_of_lt (by omega), BitVec.toNat_add,
          BitVec.toNat_ofNat]
        omega
      have hn1 : (next + 1#32).toNat = next.toNat + 1 := by
        rw [BitVec.toNat_add, BitVec.toNat_ofNat]; omega
      rw [hnx, ih _ (by omega)]
      apply List.map_congr_left
      intro k _
      simp only [Function.comp_def, Nat.succ_eq_add_one, List.getD_cons_succ, bv_step]

theorem getD_map_lt {α β : Type} (f : α → β) (a : α) (c : β) :
    ∀ (l : List α) (i : Nat), i < l.length → (l.map f).getD i c = f (l.getD i a) := by
  intro l
  induction l with
  | nil => intro i hi; exact absurd hi (Nat.not_lt_zero _)
  | cons x rest ih =>
    intro i hi
    cases i with
    | zero => rfl
    | succ j =>
      simp only [List.map_cons, List.getD_cons_succ]
      exact ih j (by simpa using hi)

theorem maxOf_eq : ∀ (bs : List Bytes) (m : Nat),
    maxOf m bs = max m ((bs.map List.length).foldr max 0) := by
  intro bs
  induction bs with
  | nil => intro m; simp only [maxOf, List.foldl_nil, List.map_nil, List.foldr_nil]; omega
  | cons b rest ih =>
    intro m
    have := ih (max m b.length)
    simp only [maxOf, List.foldl_cons, List.map_cons, List.foldr_cons] at this ⊢
    omega

theorem foldr_max_sub (po : Nat) : ∀ (ls : List Nat),
    ls.foldr max 0 - po = (ls.map (fun l => l - po)).foldr max 0 := by
  intro ls
  induction ls with
  | nil => simp only [List.foldr_nil, List.map_nil]; omega
  | cons a rest ih =>
    simp only [List.foldr_cons, List.map_cons, ← ih]
    omega

/-- `maxSize − payloadOffset` of the encoder is the group's `maxLen` -/
theorem maxLen_eq (G : Group) (po : Nat) (bs : List Bytes)
    (hpl : bs.map (List.drop (po + 2)) = G.payloads) (hlen : ∀ b ∈ bs, po + 2 ≤ b.length) :
    maxOf 0 bs - po = G.maxLen := by
  rw [maxOf_eq, Nat.zero_max, foldr_max_sub]
  simp only [Group.maxLen, Group.bodies, ← hpl, List.map_map]
  congr 1
  apply List.map_congr_left
  intro b hb
  have := hlen b hb
  simp only [Function.comp_def, bodyOf_length, List.length_drop]
  omega

theorem bodies_eq (G : Group) (k : Nat) (bs : List Bytes) (hpl : bs.map (List.drop k) = G.payloads) :
    G.bodies = bs.map (fun b => bodyOf (b.drop k)) := by
  simp only [Group.bodies, ← hpl, List.map_map, Function.comp_def]

theorem packet_data (C : CodecNew) (G : Group) {i : Nat} (hi : i < G.d) :
    G.packet C i = le32 (G.base + BitVec.ofNat 32 i) ++ le16 typeData ++ G.bodies.getD i [] := by
  simp only [Group.packet, Group.wireBody, if_pos hi]

theorem packet_parity (C : CodecNew) (G : Group) (k : Nat) :
    G.packet C (G.d + k) = le32 (G.base + BitVec.ofNat 32 G.d + BitVec.ofNat 32 k) ++ le16 typeParity
      ++ (G.parityShards C).getD k [] := by
  have : ¬ (G.d + k < G.d) := by omega
  simp only [Group.packet, Group.wireBody, if_neg this, bv_add_add, Nat.add_sub_cancel_left]

/-- the state after a whole group: only `next` has changed -/
theorem reset_eq {C : CodecNew} {e : Encoder} (h : EncInv C e) (hs : e.shardCount = 0)
    (x : BitVec 32) :
    { e with next := x, shardCount := 0, maxSize := 0, cache := [] } = { e with next := x } := by
  have hm := h.fresh hs
  have hc : e.cache = [] := List.eq_nil_of_length_eq_zero (by rw [h.cache_len, hs])
  cases e
  simp only at hs hm hc
  subst hs hm hc
  rfl

/-- **enc_group**: an encoder at a group start, fed the `d` buffers of a group `G`, emits exactly
    the packets of `G` (data packets one per call, parity packets at the last call unless the
    time test fails) and ends at the next group start. -/
theorem enc_group {C : CodecNew} (hC : Lawful C) {G : Group} (hG : G.WF) {e : Encoder}
    (h : EncInv C e) (hd : e.d = G.d) (hp : e.p = G.p) (hs : e.shardCount = 0)
    (hn : e.next = G.base) {bs : List Bytes}
    (hpl : bs.map (List.drop (e.payloadOffset + 2)) = G.payloads)
    (hlen : ∀ b ∈ bs, e.payloadOffset + 2 ≤ b.length ∧ b.length ≤ mtuLimit) (cont : Bool) :
    (encodeMany e bs cont).1 = { e with next := advance G.base G.n e.paws } ∧
    (encodeMany e bs cont).2.length = G.d ∧
    ∀ i, i < G.d → (encodeMany e bs cont).2[i]? = some
      ((bs.getD i []).take e.headerOffset ++ G.packet C i,
       if i + 1 = G.d ∧ cont = true then
         (List.range G.p).map (fun k => List.replicate e.headerOffset 0 ++ G.packet C (G.d + k))
       else []) := by
  have hbl : bs.length = G.d := by rw [← hG.count, ← hpl, List.length_map]
  have hdpos := hG.d_pos
  have hne : bs ≠ [] := by
    intro h0; rw [h0] at hbl; simp only [List.length_nil] at hbl; omega
  have hpo : e.payloadOffset = e.headerOffset + fecHeaderSize := rfl
  rw [hpo] at hpl hlen
  obtain ⟨a1, a2, a3⟩ := many_aux cont e.headerOffset e.p e.paws e.codec bs e h rfl rfl rfl rfl hlen
    (by omega) hne
  have hm := h.fresh hs
  have hc : e.cache = [] := List.eq_nil_of_length_eq_zero (by rw [h.cache_len, hs])
  refine ⟨?_, ?_, ?_⟩
  · rw [a1, reset_eq h hs, hbl, hn, hp]; rfl
  · rw [a2, hbl]
  · intro i hi
    have hbod := bodies_eq G _ bs hpl
    have hmax := maxLen_eq G _ bs hpl (fun b hb => (hlen b hb).1)
    have hshards : (([] : List Bytes) ++ bs.map (fun b => bodyOf (b.drop (e.headerOffset + fecHeaderSize + 2)))).map
        (pad (maxOf 0 bs - (e.headerOffset + fecHeaderSize))) = G.dataShards := by
      rw [hmax, List.nil_append, ← hbod]; rfl
    have hdl : G.dataShards.length = G.d := by
      simp only [Group.dataShards, Group.bodies, List.length_map, hG.count]
    have hparl : (G.parityShards C).length = G.p := hC.enc_length G.d G.p _ hdl
    have hbase : (G.base + BitVec.ofNat 32 G.d).toNat = G.base.toNat + G.d := by
      have := hG.below
      have := (pawsOf G.n).isLt
      simp only [Group.n] at *
      rw [BitVec.toNat_add, BitVec.toNat_ofNat]
      omega
    have hpw : e.paws = pawsOf G.n := by rw [h.paws_eq, h.n_eq, hd, hp]; rfl
    have hseal : sealParities e.headerOffset e.paws (G.base + BitVec.ofNat 32 G.d) (G.parityShards C)
        = (List.range G.p).map (fun k => List.replicate e.headerOffset 0 ++ G.packet C (G.d + k)) := by
      rw [sealParities_eq _ _ _ _ (by
        rw [hbase, hparl, hpw]; have := hG.below; simp only [Group.n] at *; omega), hparl]
      apply List.map_congr_left
      intro k _
      simp only [packet_parity, List.append_assoc]
    rw [a3 i (by omega), hn, hm, hc, hshards, h.codec_eq, hd, hp, hbl]
    have hpar : (C G.d G.p).enc G.dataShards = G.parityShards C := rfl
    rw [hpar, hseal, packet_data C G hi, hbod,
      getD_map_lt (fun b => bodyOf (b.drop (e.headerOffset + fecHeaderSize + 2))) [] [] bs i (by omega)]
    simp only [List.append_assoc]

/-- `enc_group` with the hypotheses on the buffers stated by index -/
theorem enc_group_idx {C : CodecNew} (hC : Lawful C) {G : Group} (hG : G.WF) {e : Encoder}
    (h : EncInv C e) (hd : e.d = G.d) (hp : e.p = G.p) (hs : e.shardCount = 0)
    (hn : e.next = G.base) {bs : List Bytes} (hbl : bs.length = G.d)
    (hidx : ∀ (i : Nat) (h1 : i < bs.length) (h2 : i < G.payloads.length),
      bs[i].drop (e.payloadOffset + 2) = G.payloads[i] ∧
      bs[i].length = e.payloadOffset + 2 + G.payloads[i].length ∧ bs[i].length ≤ mtuLimit)
    (cont : Bool) :
    (encodeMany e bs cont).1 = { e with next := advance G.base G.n e.paws } ∧
    (encodeMany e bs cont).2.length = G.d ∧
    ∀ i, i < G.d → (encodeMany e bs cont).2[i]? = some
      ((bs.getD i []).take e.headerOffset ++ G.packet C i,
       if i + 1 = G.d ∧ cont = true then
         (List.range G.p).map (fun k => List.replicate e.headerOffset 0 ++ G.packet C (G.d + k))
       else []) := by
  have hcnt := hG.count
  refine enc_group hC hG h hd hp hs hn ?_ ?_ cont
  · apply List.ext_getElem
    · rw [List.length_map, hbl, hcnt]
    · intro i h1 h2
      rw [List.getElem_map]
      exact (hidx i (by simpa using h1) h2).1
  · intro b hb
    obtain ⟨i, hi, rfl⟩ := List.getElem_of_mem hb
    obtain ⟨_, h2, h3⟩ := hidx i hi (by omega)
    exact ⟨by omega, h3⟩

/-- the next group start: `(base + n) % paws`, i.e. `base + n`, or `0` exactly at the wrap -/
theorem group_next {G : Group} (hG : G.WF) :
    (advance G.base G.n (pawsOf G.n)).toNat = (G.base.toNat + G.n) % (pawsOf G.n).toNat ∧
    (advance G.base G.n (pawsOf G.n)).toNat
      = (if G.base.toNat + G.n = (pawsOf G.n).toNat then 0 else G.base.toNat + G.n) ∧
    (advance G.base G.n (pawsOf G.n)).toNat % G.n = 0 := by
  have hb := hG.below
  have hlt := (pawsOf G.n).isLt
  have h1 := advance_toNat G.base (pawsOf G.n) G.n (by omega)
  have hal := hG.aligned
  refine ⟨h1, ?_, ?_⟩
  · rw [h1]
    split
    · rename_i heq; rw [heq, Nat.mod_self]
    · exact Nat.mod_eq_of_lt (by omega)
  · rw [h1]
    rcases Nat.lt_or_ge (G.base.toNat + G.n) (pawsOf G.n).toNat with hlt' | hge
    · rw [Nat.mod_eq_of_lt hlt', Nat.add_mod, hal, Nat.mod_self, Nat.add_zero, Nat.zero_mod]
    · have : G.base.toNat + G.n = (pawsOf G.n).toNat := by omega
      rw [this, Nat.mod_self, Nat.zero_mod]

/-- inner calls do not look at the time test -/
theorem encode_cont_irrel (e : Encoder) (b : Bytes) (hm : e.shardCount + 1 ≠ e.d) :
    e.encode b true = e.encode b false := by
  unfold Encoder.encode
  simp only [if_neg hm]


/-- the invariant holds after any number of accepted calls -/
theorem inv_encodeMany {C : CodecNew} (cont : Bool) :
    ∀ (bs : List Bytes) (e : Encoder), EncInv C e →
      (∀ b ∈ bs, e.headerOffset + fecHeaderSize + 2 ≤ b.length ∧ b.length ≤ mtuLimit) →
      EncInv C (encodeMany e bs cont).1 ∧
      (encodeMany e bs cont).1.headerOffset = e.headerOffset := by
  intro bs
  induction bs with
  | nil => intro e h _; exact ⟨h, rfl⟩
  | cons b rest ih =>
    intro e h hbs
    have hb := hbs b (List.mem_cons_self ..)
    have h1 : e.payloadOffset + 2 ≤ b.length := hb.1
    have hinv := inv_encode (cont := cont) h (encode_no_panic h1 hb.2)
    have hho : (e.encode b cont).st.headerOffset = e.headerOffset := by
      by_cases hl : e.shardCount + 1 = e.d
      · rw [encode_last_st h h1 hb.2 hl]
      · rw [(encode_mid h1 hb.2 hl).2]
    have := ih _ hinv (by rw [hho]; exact fun b hb => hbs b (List.mem_cons_of_mem _ hb))
    simp only [encodeMany]
    exact ⟨this.1, by rw [this.2, hho]⟩


/-- a 2/1 group at id 0 -/
def exG : Group := { d := 2, p := 1, base := 0, payloads := [[1, 2, 3], [4]] }

theorem exG_wf : exG.WF := by
  constructor <;> decide

/- the hypotheses of `enc_group` are satisfiable -/
example (C : CodecNew) (hC : Lawful C) (cont : Bool) :
    (encodeMany (exEnc C) [exB0, exB1] cont).1.next = advance 0 3 (pawsOf 3) ∧
    (encodeMany (exEnc C) [exB0, exB1] cont).2[1]? = some
      ([] ++ exG.packet C 1,
       if 1 + 1 = 2 ∧ cont = true then (List.range 1).map (fun k => [] ++ exG.packet C (2 + k))
       else []) := by
  have h := enc_group hC exG_wf (exEnc_inv C) rfl rfl rfl rfl (bs := [exB0, exB1]) rfl
    (by
      show ∀ b ∈ [exB0, exB1], 0 + 6 + 2 ≤ b.length ∧ b.length ≤ 1500
      decide) cont
  refine ⟨by rw [h.1]; rfl, h.2.2 1 (by decide)⟩

/-! ## E. a set of data packets recovers nothing -/

theorem recover_all_data (dec : Decoder) (pkts : List Bytes)
    (hall : ∀ q ∈ pkts, flag q = typeData) (hlen : pkts.length = dec.d) : recover dec pkts = [] := by
  have hf : (pkts.filter fun q => flag q == typeData) = pkts :=
    List.filter_eq_self.2 (fun q hq => by rw [hall q hq]; exact beq_self_eq_true _)
  unfold recover
  simp only [hf, hlen, if_true]


/-- `decode` level: a packet completing a set that holds data packets only recovers nothing
    (losing all parity of a group is harmless when no data is lost) -/
theorem decode_all_data (C : CodecNew) (dec : Decoder) (inp : Bytes)
    (hset : ∀ q ∈ ((lookup (seqid inp / u32 dec.n) dec.sets).getD
      { id := seqid inp / u32 dec.n, pkts := [] }).pkts, flag q = typeData)
    (hinp : flag inp = typeData)
    (hcnt : ((lookup (seqid inp / u32 dec.n) dec.sets).getD
      { id := seqid inp / u32 dec.n, pkts := [] }).pkts.length < dec.d) :
    (dec.decode C inp).recovered = [] := by
  unfold Decoder.decode
  split
  · rfl
  · dsimp only
    split
    · rfl
    · split
      · rfl
      · split
        · rfl
        · dsimp only
          split
          · rename_i hfull
            simp only [List.length_append, List.length_cons, List.length_nil, ge_iff_le,
              decide_eq_true_eq] at hfull
            apply recover_all_data
            · intro q hq
              rcases List.mem_append.1 hq with hq | hq
              · exact hset q hq
              · rw [List.mem_singleton.1 hq]; exact hinp
            · simp only [List.length_append, List.length_cons, List.length_nil]
              omega
          · rfl


/- the hypotheses are satisfiable: the two data packets of `exG` -/
example (C : CodecNew) (dec : Decoder) (hd : dec.d = 2) :
    recover dec [exG.packet C 0, exG.packet C 1] = [] :=
  recover_all_data dec _ (by
    intro q hq
    simp only [List.mem_cons, List.not_mem_nil, or_false] at hq
    rcases hq with rfl | rfl <;> rfl) (by rw [hd]; rfl)

end KcpVerif.Lemmas.FecEnc
