/-
C16, the phase before the flush (2/3): the decoder states reachable under ONE sender ratio.

`GenuinePkt d p q` : `q` carries a data/parity flag that is the type of its id under d/p, and its id
                     is not `2^32 − 1` — every packet a d/p sender ever emits, whatever its id.
`PreInv d p dec`   : the decoder's ring is a `GenuineRing d p`, its configuration is consistent
                     (`n = d' + p' ≤ 256`, both positive, `paws' = 0xffffffff / n * n`).

* `preInv_new`, `preInv_decode`, `preInv_feedPackets`: `PreInv d p` holds for every new decoder
  (any configured ratio) and is preserved by `decode` of ANY genuine packet of the d/p sender — any
  id, any order, duplicates, through every branch of `decode` (dropped above `paws'`, tuning branch,
  shard-set branch).  So it holds in every state reachable from `newFECDecoder(d0, p0)` by a
  lossy/duplicating/reordering channel from one d/p sender.
* `retune_genuine`: in such a state the tuning branch can only (a) leave everything as it is with
  `shouldTune` set, or (b) adopt exactly (d, p) and clear `shouldTune`.  No other ratio can be adopted
  — in particular none from a window that still holds samples older than the current run.
-/
import KcpVerif.Lemmas.C16PreScan
import KcpVerif.Props.C16conv

namespace KcpVerif.Lemmas.C16Pre
open KcpVerif.Gen KcpVerif.AutoTune KcpVerif.Fec KcpVerif.Lemmas.AutoTune KcpVerif.Props

/-- a packet of a d/p sender (any id it can use) -/
def GenuinePkt (d p : Nat) (q : Bytes) : Prop :=
  fecHeaderSize ≤ q.length ∧
  flag q = (if label d p (seqid q).toNat then typeData else typeParity) ∧
  (seqid q).toNat + 1 < 2 ^ 32

structure PreInv (d p : Nat) (dec : Decoder) : Prop where
  ring : GenuineRing d p dec.tune
  n_eq : dec.n = dec.d + dec.p
  d_pos : 0 < dec.d
  p_pos : 0 < dec.p
  paws_eq : dec.paws = pawsOf dec.n
  n_le : dec.n ≤ 256

theorem genuinePkt_sample {d p : Nat} {q : Bytes} (h : GenuinePkt d p q) :
    Genuine d p { bit := (flag q == typeData), seq := seqid q } := by
  obtain ⟨_, hf, hs⟩ := h
  refine ⟨?_, hs⟩
  show (flag q == typeData) = label d p (seqid q).toNat
  rw [hf]
  cases label d p (seqid q).toNat
  · simp only [Bool.false_eq_true, if_false]; decide
  · simp only [if_true, beq_self_eq_true]

/-- packet number `k` of an in-order run below `2^32 − 1` is a genuine packet -/
theorem genuinePkt_of_runPkt {d p s k : Nat} {q : Bytes} (h : RunPkt d p s k q)
    (hk : s + k + 1 < 2 ^ 32) : GenuinePkt d p q := by
  obtain ⟨h1, h2, h3⟩ := h
  have e : (seqid q).toNat = s + k := by
    rw [h2, BitVec.toNat_ofNat, Nat.mod_eq_of_lt (by omega)]
  exact ⟨h1, by rw [e]; exact h3, by rw [e]; exact hk⟩

theorem preInv_new (C : CodecNew) (d p d0 p0 : Nat) {dec : Decoder}
    (h : Decoder.new C d0 p0 = some dec) : PreInv d p dec := by
  unfold Decoder.new at h
  split at h
  · cases h
  · rename_i hc
    simp only [Option.some.injEq] at h
    subst h
    exact ⟨genuineRing_init d p, rfl, by dsimp only; omega, by dsimp only; omega, rfl, by dsimp only; omega⟩

/-- what the tuning branch can do on a genuine ring: nothing (still tuning), or adopt (d, p) -/
theorem retune_genuine (C : CodecNew) (dec : Decoder) (seq : BitVec 32) {d p : Nat}
    (hd : 0 < d) (hp : 0 < p) (hinv : PreInv d p dec) :
    retune C dec seq = { dec with shouldTune := true } ∨
    ((retune C dec seq).d = d ∧ (retune C dec seq).p = p ∧ (retune C dec seq).shouldTune = false ∧
      (retune C dec seq).n = d + p ∧ (retune C dec seq).paws = pawsOf (d + p)) := by
  obtain ⟨s1, s2⟩ := findPeriod_genuineRing hd hp hinv.ring
  by_cases hv : 0 < dec.tune.findPeriod true ∧ 0 < dec.tune.findPeriod false ∧
      dec.tune.findPeriod true + dec.tune.findPeriod false < 256
  · right
    have e1 : dec.tune.findPeriod true = (d : Int) := by
      rcases s1 with e | e
      · rw [e] at hv; omega
      · exact e
    have e2 : dec.tune.findPeriod false = (p : Int) := by
      rcases s2 with e | e
      · rw [e] at hv; omega
      · exact e
    unfold retune
    dsimp only
    rw [if_pos hv]
    have t1 : (dec.tune.findPeriod true).toNat = d := by rw [e1]; rfl
    have t2 : (dec.tune.findPeriod false).toNat = p := by rw [e2]; rfl
    split
    · dsimp only
      rw [t1, t2]
      exact ⟨rfl, rfl, rfl, rfl, rfl⟩
    · rename_i h'
      have f1 : dec.tune.findPeriod true = ↑dec.d := by
        apply Classical.byContradiction; intro hc'; exact h' (Or.inl hc')
      have f2 : dec.tune.findPeriod false = ↑dec.p := by
        apply Classical.byContradiction; intro hc'; exact h' (Or.inr hc')
      have g1 : dec.d = d := by omega
      have g2 : dec.p = p := by omega
      dsimp only
      refine ⟨g1, g2, rfl, ?_, ?_⟩
      · rw [hinv.n_eq, g1, g2]
      · rw [hinv.paws_eq, hinv.n_eq, g1, g2]
  · left
    exact C16_conv_aux_retune_fail C dec seq hv

theorem preInv_retune (C : CodecNew) (dec : Decoder) (seq : BitVec 32) {d p : Nat}
    (hd : 0 < d) (hp : 0 < p) (hn : d + p ≤ 256) (hinv : PreInv d p dec) :
    PreInv d p (retune C dec seq) := by
  have ht := C16_conv_aux_retune_tune C dec seq
  rcases retune_genuine C dec seq hd hp hinv with h | ⟨h1, h2, _, h4, h5⟩
  · rw [h]
    exact ⟨hinv.ring, hinv.n_eq, hinv.d_pos, hinv.p_pos, hinv.paws_eq, hinv.n_le⟩
  · exact ⟨by rw [ht]; exact hinv.ring, by rw [h4, h1, h2], by rw [h1]; exact hd,
      by rw [h2]; exact hp, by rw [h5, h4], by rw [h4]; exact hn⟩

/-- the invariant is preserved by `decode` of any genuine packet of the d/p sender -/
theorem preInv_decode (C : CodecNew) (dec : Decoder) (q : Bytes) {d p : Nat}
    (hd : 0 < d) (hp : 0 < p) (hn : d + p ≤ 256) (hinv : PreInv d p dec) (hq : GenuinePkt d p q) :
    PreInv d p (dec.decode C q).st := by
  have hring : GenuineRing d p (dec.tune.sample (flag q == typeData) (seqid q)) :=
    genuineRing_sample hinv.ring _ _ (genuinePkt_sample hq)
  have hinv1 : PreInv d p { dec with tune := dec.tune.sample (flag q == typeData) (seqid q) } :=
    ⟨hring, hinv.n_eq, hinv.d_pos, hinv.p_pos, hinv.paws_eq, hinv.n_le⟩
  unfold Decoder.decode
  split
  · exact hinv
  · dsimp only
    split
    · exact hinv1
    · split
      · exact preInv_retune C _ _ hd hp hn hinv1
      · split
        · exact ⟨hring, hinv.n_eq, hinv.d_pos, hinv.p_pos, hinv.paws_eq, hinv.n_le⟩
        · exact ⟨hring, hinv.n_eq, hinv.d_pos, hinv.p_pos, hinv.paws_eq, hinv.n_le⟩

theorem preInv_feedPackets (C : CodecNew) {d p : Nat} (hd : 0 < d) (hp : 0 < p) (hn : d + p ≤ 256) :
    ∀ (pkts : List Bytes) (dec : Decoder), PreInv d p dec → (∀ q ∈ pkts, GenuinePkt d p q) →
      PreInv d p (feedPackets C dec pkts) := by
  intro pkts
  induction pkts with
  | nil => intro dec h _; exact h
  | cons q rest ih =>
    intro dec h hq
    rw [C16_conv_aux_feedPackets_cons]
    exact ih _ (preInv_decode C dec q hd hp hn h (hq q (List.mem_cons_self ..)))
      (fun r hr => hq r (List.mem_cons_of_mem _ hr))

/-- every state reachable from a new decoder (any configured ratio `d0/p0`) through any sequence of
    genuine packets of one d/p sender — lost, duplicated, reordered in any way -/
theorem preInv_reachable (C : CodecNew) {d p d0 p0 : Nat} (hd : 0 < d) (hp : 0 < p)
    (hn : d + p ≤ 256) {dec0 : Decoder}
    (h0 : Decoder.new C d0 p0 = some dec0) (hist : List Bytes)
    (hh : ∀ q ∈ hist, GenuinePkt d p q) : PreInv d p (feedPackets C dec0 hist) :=
  preInv_feedPackets C hd hp hn hist dec0 (preInv_new C d p d0 p0 h0) hh

/-- whatever ratio the decoder currently has, its `paws'` is above `2^32 − 257`: ids up to
    `2^32 − 257` are never dropped by the `seqid ≥ paws'` test (the D9 zone lies above them) -/
theorem preInv_paws_ge {d p : Nat} {dec : Decoder} (hinv : PreInv d p dec) :
    2 ^ 32 - 256 ≤ dec.paws.toNat := by
  have h1 := hinv.n_le
  have h2 : 0 < dec.n := by have := hinv.n_eq; have := hinv.d_pos; omega
  rw [hinv.paws_eq, pawsOf, BitVec.toNat_ofNat]
  have h3 := Nat.div_add_mod 0xffffffff dec.n
  have h4 := Nat.mod_lt 0xffffffff h2
  have h5 : 0xffffffff / dec.n * dec.n ≤ 0xffffffff := Nat.div_mul_le_self _ _
  rw [Nat.mul_comm] at h3
  rw [Nat.mod_eq_of_lt (by omega)]
  omega

end KcpVerif.Lemmas.C16Pre
