/-
Sender half of the message-boundary statement of C01: the fragment numbers of `L ++ snd_queue`
(numbered segments followed by queued ones) always form well-formed countdowns `c-1, …, 1, 0` with
`c ≤ 255`, ending on a message boundary — in message mode and in stream mode (all zero).
-/
import KcpVerif.Lemmas.KcpAcc

namespace KcpVerif.C01
open KcpVerif KcpVerif.Gen KcpVerif.Kcp KcpVerif.Frame KcpVerif.Recv KcpVerif.Send KcpVerif.Wire

/-- a concatenation of countdowns, ending on a boundary -/
def CountOkF : List (BitVec 8) → Prop
  | [] => True
  | [f] => f = 0
  | f :: g :: rest => f ≠ 255 ∧ (f ≠ 0 → g = f - 1) ∧ CountOkF (g :: rest)

theorem CountOkF.append : ∀ {a b : List (BitVec 8)}, CountOkF a → CountOkF b → CountOkF (a ++ b)
  | [], _, _, hb => hb
  | [f], [], ha, _ => ha
  | [f], g :: r, ha, hb => by
    have hf : f = 0 := ha
    subst hf
    exact ⟨by decide, fun h => absurd rfl h, hb⟩
  | f :: g :: rest, b, ha, hb => by
    have ih := CountOkF.append (a := g :: rest) (b := b) ha.2.2 hb
    exact ⟨ha.1, ha.2.1, ih⟩

/-- index form -/
theorem CountOkF.get : ∀ {l : List (BitVec 8)}, CountOkF l → ∀ (i : Nat) (f : BitVec 8), l[i]? = some f →
    f ≠ 255 ∧ (f ≠ 0 → ∀ g : BitVec 8, l[i + 1]? = some g → g = f - 1)
  | [], _, i, f, h => by simp at h
  | [x], hl, i, f, h => by
    have hx : x = 0 := hl
    cases i with
    | zero =>
      have : x = f := by simpa using h
      subst this; subst hx
      exact ⟨by decide, fun hc => absurd rfl hc⟩
    | succ j => simp at h
  | x :: y :: rest, hl, i, f, h => by
    cases i with
    | zero =>
      have : x = f := by simpa using h
      subst this
      refine ⟨hl.1, fun hne g hg => ?_⟩
      have : y = g := by simpa using hg
      subst this
      exact hl.2.1 hne
    | succ j =>
      have := CountOkF.get (l := y :: rest) hl.2.2 j f (by simpa using h)
      refine ⟨this.1, fun hne g hg => this.2 hne g (by simpa using hg)⟩

/-- the countdown `c-1, …, 0` -/
def cd : Nat → List (BitVec 8)
  | 0 => []
  | c + 1 => BitVec.ofNat 8 c :: cd c

theorem cd_ok : ∀ c, c ≤ 255 → CountOkF (cd c) := by
  intro c
  induction c with
  | zero => intro _; trivial
  | succ c ih =>
    intro hc
    cases c with
    | zero => show BitVec.ofNat 8 0 = 0; rfl
    | succ c' =>
      show BitVec.ofNat 8 (c' + 1) ≠ 255 ∧ (BitVec.ofNat 8 (c' + 1) ≠ 0 → BitVec.ofNat 8 c' = BitVec.ofNat 8 (c' + 1) - 1) ∧
        CountOkF (cd (c' + 1))
      refine ⟨?_, fun _ => ?_, ih (by omega)⟩
      · intro h
        have := congrArg BitVec.toNat h
        simp at this; omega
      · apply BitVec.eq_of_toNat_eq
        simp [BitVec.toNat_sub]; omega

theorem replicate_ok : ∀ c, CountOkF (List.replicate c (0 : BitVec 8)) := by
  intro c
  induction c with
  | zero => trivial
  | succ c ih =>
    cases c with
    | zero => rfl
    | succ c' => exact ⟨by decide, fun h => absurd rfl h, ih⟩

def frgs (q : List Seg) : List (BitVec 8) := q.map (·.frg)

theorem mkSegs_frgs (mss : Nat) (st : Bool) : ∀ (c : Nat) (buf : Bytes),
    frgs (mkSegs mss st c buf) = if st then List.replicate c 0 else cd c := by
  intro c
  induction c with
  | zero => intro buf; cases st <;> rfl
  | succ c ih =>
    intro buf
    unfold mkSegs
    have := ih (buf.drop mss)
    cases st
    · simp only [Bool.false_eq_true, ↓reduceIte] at this ⊢
      simp [frgs, cd] at this ⊢
      exact this
    · simp only [↓reduceIte] at this ⊢
      simp [frgs, List.replicate_succ] at this ⊢
      exact this

theorem sendQ1_frgs (k : Kcp) (buffer : Bytes) : frgs (sendQ1 k buffer) = frgs k.snd_queue := by
  unfold sendQ1
  split
  · cases hl : k.snd_queue.getLast? with
    | none => rfl
    | some x =>
      simp only []
      obtain ⟨ys, hys⟩ := List.getLast?_eq_some_iff.mp hl
      rw [hys]
      simp [setLast, frgs]
  · rfl

theorem sendNew_ok (k : Kcp) (buffer : Bytes) (h : ¬ sendCount k buffer > 255) : CountOkF (frgs (sendNew k buffer)) := by
  unfold sendNew
  rw [mkSegs_frgs]
  split
  · exact replicate_ok _
  · apply cd_ok
    split <;> omega

/-- the fragment numbers of numbered ++ queued segments -/
def pendFrgs (s : GSt) : List (BitVec 8) := (s.log ++ s.k.snd_queue.map content).map (·.1)

theorem pend_eq (L : List Content) (q : List Seg) :
    (L ++ q.map content).map (·.1) = L.map (·.1) ++ frgs q := by
  unfold frgs content
  simp [List.map_append, List.map_map, Function.comp_def]

theorem step_countOk {s : GSt} (h : CountOkF (pendFrgs s)) (op : Op) : CountOkF (pendFrgs (step s op)) := by
  have flushLike : ∀ (k' : Kcp) (outs : List Bytes),
      (∃ j, j ≤ s.k.snd_queue.length ∧ k'.snd_queue = s.k.snd_queue.drop j) →
      CountOkF (pendFrgs { s with k := k', log := s.log ++ admitted s.k k', wire := s.wire ++ outs }) := by
    intro k' outs ⟨j, hj, hq⟩
    unfold pendFrgs
    show CountOkF (((s.log ++ admitted s.k k') ++ k'.snd_queue.map content).map (·.1))
    rw [pending_eq s.log s.k k' j hj hq]; exact h
  have same : ∀ k' : Kcp, k'.snd_queue = s.k.snd_queue → CountOkF (pendFrgs { s with k := k' }) := by
    intro k' hq
    unfold pendFrgs
    show CountOkF ((s.log ++ k'.snd_queue.map content).map (·.1))
    rw [hq]; exact h
  unfold step
  by_cases hd : s.dead = true
  · rw [if_pos hd]; exact h
  · rw [if_neg hd]
    cases op with
    | send buf =>
      simp only []
      split
      · exact h
      · have key : CountOkF (s.log.map (·.1) ++ frgs (send s.k buf).k.snd_queue) := by
          unfold pendFrgs at h
          rw [pend_eq] at h
          rw [send_eq]
          split
          · exact h
          · split
            · exact h
            · rename_i hc
              split
              · exact h
              · split
                · show CountOkF (_ ++ frgs (sendQ1 s.k buf)); rw [sendQ1_frgs]; exact h
                · split
                  · show CountOkF (_ ++ frgs (sendQ1 s.k buf)); rw [sendQ1_frgs]; exact h
                  · show CountOkF (_ ++ frgs (sendQ1 s.k buf ++ sendNew s.k buf))
                    have : frgs (sendQ1 s.k buf ++ sendNew s.k buf) = frgs s.k.snd_queue ++ frgs (sendNew s.k buf) := by
                      unfold frgs; rw [List.map_append]; exact congrArg (· ++ _) (sendQ1_frgs s.k buf)
                    rw [this, ← List.append_assoc]
                    exact h.append (sendNew_ok s.k buf hc)
        unfold pendFrgs
        show CountOkF ((s.log ++ (send s.k buf).k.snd_queue.map content).map (·.1))
        rw [pend_eq]; exact key
    | recv buflen =>
      simp only []
      split
      · exact h
      · exact same _ (recv_sndSame s.k buflen).snd_queue
    | input data regular ackNoDelay now =>
      simp only []
      split
      · exact h
      · exact flushLike _ _ (input_queue _ _ _ _ _)
    | flush full now =>
      simp only []
      split
      · exact h
      · exact flushLike _ _ (flush_queue _ _ _)
    | update now =>
      simp only []
      split
      · exact h
      · exact flushLike _ _ (update_queue _ _)
    | setMtu mtu => exact same _ (setMtu_sndQ _ _).snd_queue
    | noDelay a b c d => exact same _ (noDelay_sndQ _ _ _ _ _).snd_queue
    | wndSize a b => exact same _ (wndSize_sndQ _ _ _).snd_queue

theorem run_countOk (ops : List Op) : ∀ s : GSt, CountOkF (pendFrgs s) → CountOkF (pendFrgs (run s ops)) := by
  induction ops with
  | nil => intro s h; exact h
  | cons op rest ih => intro s h; exact ih _ (step_countOk h op)

theorem fresh_countOk (k : Kcp) (hf : Fresh k) : CountOkF (pendFrgs { k := k }) := by
  unfold pendFrgs; simp [hf.sq]; trivial

/-- the sender's countdown invariant discharges the receiver's `FrgOk` premise for every content
function that agrees with the log, on every prefix of the log -/
theorem frgOk_of_log {s : GSt} (h : CountOkF (pendFrgs s)) (G : U32 → Content) (sn0 : U32)
    (hG : Agree G sn0 s.log) (n : Nat) (hn : n ≤ s.log.length) : FrgOk G sn0 n := by
  have hget : ∀ i, i < s.log.length → ∃ c, s.log[i]? = some c ∧ G (sn0 + BitVec.ofNat 32 i) = c ∧
      (pendFrgs s)[i]? = some c.1 := by
    intro i hi
    refine ⟨s.log[i], List.getElem?_eq_getElem hi, hG i _ (List.getElem?_eq_getElem hi), ?_⟩
    unfold pendFrgs
    rw [List.map_append, List.getElem?_append_left (by simpa using hi)]
    simp [List.getElem?_eq_getElem hi]
  intro i hi
  obtain ⟨c, _, hc2, hc3⟩ := hget i (by omega)
  have hk := h.get i c.1 hc3
  rw [hc2]
  refine ⟨hk.1, fun hi1 hne => ?_⟩
  obtain ⟨c', _, hc2', hc3'⟩ := hget (i + 1) (by omega)
  rw [hc2']
  exact hk.2 hne c'.1 hc3'

end KcpVerif.C01
