/-
The induction of C02 over the outstanding segments (repaired model, arbitrary reachable states, the
writer has stopped and the send queue is empty): every stage is one progress step
(`retG3_done`) started at a clock tick, where the reader has emptied the receive queue.
-/
import KcpVerif.Lemmas.SysDrainOne

namespace KcpVerif.SysC
open KcpVerif KcpVerif.Gen KcpVerif.Kcp KcpVerif.Live KcpVerif.Wire KcpVerif.SysW KcpVerif.Sys

/-- `P` holds in every state of the run -/
def RunP (P : State → Prop) : State → List Ev → Prop
  | s, [] => P s
  | s, ev :: rest => P s ∧ RunP P (Sys.step s ev) rest

theorem RunP.head {P : State → Prop} : ∀ {evs : List Ev} {s : State}, RunP P s evs → P s
  | [], _, h => h
  | _ :: _, _, h => h.1

theorem RunP.mono {P Q : State → Prop} (hpq : ∀ s, P s → Q s) : ∀ (evs : List Ev) (s : State), RunP P s evs → RunP Q s evs := by
  intro evs
  induction evs with
  | nil => intro s h; exact hpq s h
  | cons ev rest ih => intro s h; exact ⟨hpq s h.1, ih _ h.2⟩

theorem RunP.split {P : State → Prop} : ∀ (a b : List Ev) (s : State), RunP P s (a ++ b) →
    RunP P s a ∧ RunP P (Sys.run s a) b := by
  intro a
  induction a with
  | nil => intro b s h; exact ⟨RunP.head h, h⟩
  | cons ev rest ih =>
    intro b s h
    obtain ⟨h1, h2⟩ := ih b _ h.2
    exact ⟨⟨h.1, h1⟩, h2⟩

theorem RunP.last {P : State → Prop} : ∀ (a : List Ev) (s : State), RunP P s a → P (Sys.run s a) := by
  intro a
  induction a with
  | nil => intro s h; exact h
  | cons ev rest ih => intro s h; exact ih _ h.2

theorem runP_smallH (base : U32) : ∀ (evs : List Ev) (s : State),
    RunP (fun s => Small base s ∧ 0 < s.B.rcv_wnd.toNat) s evs → RunSmallH base s evs := by
  intro evs
  induction evs with
  | nil => intro s h; exact h
  | cons ev rest ih => intro s h; exact ⟨h.1, ih _ h.2⟩

/-- the clock moves only by a `tick` from a quiet state -/
theorem step_now_tick (s : State) (ev : Ev) (h : (Sys.step s ev).now ≠ s.now) : ev = .tick ∧ quiet s = true := by
  cases ev with
  | tick =>
    by_cases hq : quiet s = true
    · exact ⟨rfl, hq⟩
    · exfalso; apply h
      show (if quiet s then { s with now := s.now + 1 } else s).now = s.now
      rw [if_neg hq]
  | send b => exact absurd rfl h
  | read =>
    exfalso; apply h
    show (if (s.B.recv s.B.peekSize.toNat).n < 0 then s
      else { s with B := (s.B.recv s.B.peekSize.toNat).k, got := s.got ++ (s.B.recv s.B.peekSize.toNat).data }).now = s.now
    split <;> rfl
  | flushA => exact absurd rfl h
  | flushB => exact absurd rfl h
  | dlvB =>
    exfalso; apply h
    cases hab : s.ab with
    | nil => simp only [Sys.step, hab]
    | cons d rest => rw [step_dlvB_cons s _ _ hab]; split <;> rfl
  | dlvA =>
    exfalso; apply h
    cases hba : s.ba with
    | nil => simp only [Sys.step, hba]
    | cons d rest => rw [step_dlvA_cons s _ _ hba]; split <;> rfl

/-- a later clock value is first reached by a `tick` from a quiet state -/
theorem run_reaches_tick (τ : Nat) : ∀ (evs : List Ev) (s : State), s.now < τ → τ ≤ (Sys.run s evs).now →
    ∃ a b, evs = a ++ Ev.tick :: b ∧ quiet (Sys.run s a) = true ∧ (Sys.run s a).now + 1 = τ := by
  intro evs
  induction evs with
  | nil => intro s h1 h2; have : (Sys.run s []).now = s.now := rfl; omega
  | cons ev rest ih =>
    intro s h1 h2
    by_cases hn : (Sys.step s ev).now = s.now
    · obtain ⟨a, b, e1, e2, e3⟩ := ih (Sys.step s ev) (by omega) h2
      exact ⟨ev :: a, b, by rw [e1]; rfl, e2, e3⟩
    · obtain ⟨rfl, hq⟩ := step_now_tick s ev hn
      by_cases hτ : s.now + 1 = τ
      · exact ⟨[], rest, rfl, hq, hτ⟩
      · have hn1 : (Sys.step s .tick).now = s.now + 1 := by
          rcases step_now s .tick with e | e
          · exact absurd e hn
          · exact e
        obtain ⟨a, b, e1, e2, e3⟩ := ih (Sys.step s .tick) (by omega) h2
        exact ⟨.tick :: a, b, by rw [e1]; rfl, e2, e3⟩

/-- A flushes at least every `I` milliseconds -/
structure TmA (I : Nat) (s : State) : Prop where
  iv : s.A.interval.toNat = I
  nf : s.nfA ≤ s.now + I

theorem tmA_step {p : Par} {s : State} {gab gba : GLink} (h : Cons p s gab gba) (hnw : NoWrap p.base s) (I : Nat)
    (ht : TmA I s) (ev : Ev) : TmA I (Sys.step s ev) := by
  cases ev with
  | tick =>
    rw [show Sys.step s .tick = (if quiet s then { s with now := s.now + 1 } else s) from rfl]
    split
    · exact ⟨ht.iv, by show s.nfA ≤ s.now + 1 + I; have := ht.nf; omega⟩
    · exact ht
  | send b =>
    have hq := Frame.send_k s.A b
    exact ⟨by show (s.A.send b).k.interval.toNat = I; rw [hq]; exact ht.iv, ht.nf⟩
  | read =>
    rw [show Sys.step s .read = (if (s.B.recv s.B.peekSize.toNat).n < 0 then s
      else { s with B := (s.B.recv s.B.peekSize.toNat).k, got := s.got ++ (s.B.recv s.B.peekSize.toNat).data }) from rfl]
    split
    · exact ht
    · exact ⟨ht.iv, ht.nf⟩
  | flushB => exact ⟨ht.iv, ht.nf⟩
  | flushA =>
    obtain ⟨pw, tp, st, ss, cw, inc, hk⟩ := flush_frame s.A true (clk s.now)
    have hle := flush_interval_le s.A (clk s.now)
    rw [BitVec.le_def, ht.iv] at hle
    exact ⟨by show (s.A.flush true (clk s.now)).k.interval.toNat = I; rw [hk]; exact ht.iv,
      by show s.now + (s.A.flush true (clk s.now)).interval.toNat ≤ s.now + I; omega⟩
  | dlvB =>
    cases hab : s.ab with
    | nil =>
      have : Sys.step s .dlvB = s := by simp only [Sys.step, hab]
      rw [this]; exact ht
    | cons d rest =>
      rw [step_dlvB_cons s _ _ hab]
      split
      · exact ⟨ht.iv, ht.nf⟩
      · exact ht
  | dlvA =>
    cases gba with
    | nil =>
      have : Sys.step s .dlvA = s := by simp only [Sys.step, h.hba, encL, List.map_nil]
      rw [this]; exact ht
    | cons d0 grest =>
      obtain ⟨t0, frs⟩ := d0
      have hba : s.ba = ⟨t0, encFrames frs⟩ :: encL grest := h.hba
      rw [step_dlvA_cons s _ _ hba]
      split
      · by_cases hne : frs = []
        · subst hne
          simp only [input_empty]
          exact ⟨ht.iv, ht.nf⟩
        · have hd0 : ((t0, frs) : Nat × List Frm) ∈ (t0, frs) :: grest := List.mem_cons_self ..
          have hnw' := hnw
          unfold NoWrap at hnw'
          obtain ⟨hv, hp, hr, _, _, _, _⟩ := cons_inA h hnw (inFrs true frs { k := s.A }).k (Or.inl rfl)
          obtain ⟨k1, hk1, himp⟩ := inputA_cases s.A frs s.ndA (clk s.now) hv hp hr
          obtain ⟨_, _, _, hal, hnx, hsq, hclean⟩ := cons_inA h hnw k1 hk1
          have hok : SndOk p.base p.conv (Has p.base s.B.rcv_nxt s.B.rcv_buf) s.A := ⟨h.acon, h.atag, h.ahas, h.arel⟩
          obtain ⟨_, a2, _, _, _⟩ := inFrs_snd_gen p.base p.conv (Has p.base s.B.rcv_nxt s.B.rcv_buf) frs { k := s.A } hok
            (by show o p.base s.A.snd_nxt < 2 ^ 31; omega) rfl (by
              intro fr hfr
              obtain ⟨_, _, e3, e4, e5⟩ := h.fba (t0, frs) hd0 fr hfr
              have := h.bub
              exact ⟨e3, by omega, fun sn hsn => Or.inl (by omega), e5⟩)
          obtain ⟨_, hiv⟩ := inA_buf (inFrs true frs { k := s.A }) k1 hk1 s.A.snd_una
          have hiv2 : (inFrs true frs { k := s.A }).k.interval = s.A.interval := by
            obtain ⟨r, sb, su, pr, e⟩ := a2
            rw [e]
          rcases himp hal hclean.aK with hin | hin | ⟨hnil, _⟩
          · simp only [hin]
            exact ⟨by show (cwndOnAck k1 s.A.snd_una).interval.toNat = I; rw [hiv, hiv2]; exact ht.iv, ht.nf⟩
          · simp only [hin]
            obtain ⟨pw, tp, st, ss, cw, inc, hk⟩ := flush_frame (cwndOnAck k1 s.A.snd_una) true (clk s.now)
            exact ⟨by show (flush (cwndOnAck k1 s.A.snd_una) true (clk s.now)).k.interval.toNat = I
                      rw [hk]; show (cwndOnAck k1 s.A.snd_una).interval.toNat = I; rw [hiv, hiv2]; exact ht.iv, ht.nf⟩
          · exact absurd hnil hne
      · exact ht

/-- the invariants of every event, bundled -/
structure Inv (p : Par) (IA IB : Nat) (s : State) : Prop where
  cons : ∃ gab gba, Cons p s gab gba
  side : Side p.base s
  ta : TmA IA s
  tb : Tm IB s

theorem inv_step {p : Par} {IA IB : Nat} {s : State} (h : Inv p IA IB s) (hnw : NoWrap p.base s) (ev : Ev) :
    Inv p IA IB (Sys.step s ev) := by
  obtain ⟨gab, gba, hc⟩ := h.cons
  obtain ⟨gab', gba', hc'⟩ := cons_step hc hnw ev
  exact ⟨⟨gab', gba', hc'⟩, ⟨live_step s h.side.live ev, sortedB_step hc hnw h.side.srt ev, fix_step s h.side.fix ev⟩,
    tmA_step hc hnw IA h.ta ev, tm_step hc hnw IB h.tb ev⟩

theorem inv_run {p : Par} {IA IB : Nat} (evs : List Ev) : ∀ (s : State), Inv p IA IB s → RunNoWrap p.base s evs →
    Inv p IA IB (Sys.run s evs) := by
  induction evs with
  | nil => intro s h _; exact h
  | cons ev rest ih => intro s h hr; exact ih _ (inv_step h hr.1 ev) hr.2

/-- the head's retransmission timer is at most `Rmax` ms ahead (and not a wrap behind) -/
def TmrOk (Rmax IA : Nat) (s : State) : Prop :=
  ∀ x rest, s.A.snd_buf = x :: rest → x.xmit = 0 ∨ (x.xmit ≠ 0 ∧ ∃ R, x.resendts = clk R ∧ R ≤ s.now + Rmax ∧
    s.now + Rmax + IA < R + 2 ^ 31)

/-- a reader with nothing to read has not left the receive queue full (stream mode, unfragmented
messages, or a window of at least 255 segments) -/
def QOk (s : State) : Prop := s.B.peekSize < 0 → s.B.rcv_queue.length < s.B.rcv_wnd.toNat

/-- the per-state run hypotheses of the drain -/
def DrainHyp (p : Par) (Rmax IA : Nat) (s : State) : Prop :=
  (Small p.base s ∧ 0 < s.B.rcv_wnd.toNat) ∧ TmrOk Rmax IA s ∧ QOk s

/-- **one stage**: from a state where the receive queue is not full, the head is released within
`Rmax + IA + D + IB + D` ms -/
theorem una_mono_run {p : Par} (evs : List Ev) : ∀ (s : State) (gab gba : GLink), Cons p s gab gba →
    RunNoWrap p.base s evs → o p.base s.A.snd_una ≤ o p.base (Sys.run s evs).A.snd_una := by
  induction evs with
  | nil => intro s _ _ _ _; exact Nat.le_refl _
  | cons ev rest ih =>
    intro s gab gba h hr
    obtain ⟨gab', gba', hc⟩ := cons_step h hr.1 ev
    exact Nat.le_trans (una_mono_step h hr.1 ev) (ih _ gab' gba' hc hr.2)

theorem drain_stage {p : Par} {IA IB Rmax : Nat} {s : State} (hi : Inv p IA IB s) (hR : Rmax + IA < 2 ^ 31)
    (hq : s.B.rcv_queue.length < s.B.rcv_wnd.toNat) (n : Nat) (hlen : s.A.snd_buf.length ≤ n + 1)
    (evs : List Ev) (hr : RunP (DrainHyp p Rmax IA) s evs)
    (hnow : s.now + Rmax + IA + s.D + IB + s.D < (Sys.run s evs).now) :
    (Sys.run s evs).A.snd_buf.length ≤ n + (o p.base (Sys.run s evs).A.snd_nxt - o p.base s.A.snd_nxt) := by
  obtain ⟨gab, gba, hc⟩ := hi.cons
  have hsm : RunSmallH p.base s evs := runP_smallH p.base evs s (RunP.mono (fun _ h => h.1) evs s hr)
  have hrn := runSmallH_noWrap p.base evs s hsm
  obtain ⟨g1, g2, hc'⟩ := cons_run evs s gab gba hc hrn
  have hcon' := hc'.acon.2
  have hcon := hc.acon.2
  have hmono : o p.base s.A.snd_una ≤ o p.base (Sys.run s evs).A.snd_una := una_mono_run evs s gab gba hc hrn
  cases hb : s.A.snd_buf with
  | nil =>
    rw [hb] at hcon
    simp only [List.length_nil] at hcon
    omega
  | cons x rest =>
    have hhl : s.A.snd_una = x.sn := by
      have := hi.side.live.1
      unfold HeadLive at this
      rw [hb] at this
      exact this.2
    have hrb : o p.base x.sn ≤ o p.base s.B.rcv_nxt := by
      rw [← hhl]; exact not_behind hc hi.side.srt hi.side.fix hq
    have htm := (RunP.head hr).2.1 x rest hb
    rw [hb] at hlen hcon
    simp only [List.length_cons] at hlen hcon
    have hprog : o p.base x.sn < o p.base (Sys.run s evs).A.snd_una := by
      rcases htm with h0 | ⟨h0, R, hR, hR1, hR2⟩
      · exact retG3_done hc hi.side.live (o p.base x.sn) s.now (s.now + Rmax + IA) IA IB (by omega) hi.tb
          ⟨⟨x, rest, hb, rfl, Or.inl h0⟩, hi.ta.iv, by have := hi.ta.nf; omega, by omega, hrb⟩ evs hsm (by omega)
      · exact retG3_done hc hi.side.live (o p.base x.sn) R (s.now + Rmax + IA) IA IB (by omega) hi.tb
          ⟨⟨x, rest, hb, rfl, Or.inr ⟨h0, hR⟩⟩, hi.ta.iv, by have := hi.ta.nf; omega, by omega, hrb⟩ evs hsm (by omega)
    rw [hhl] at hcon
    omega

/-- the length of one stage -/
def stageLen (Rmax IA IB D : Nat) : Nat := Rmax + IA + D + IB + D + 1

theorem drain_done {p : Par} {IA IB : Nat} {s : State} (hi : Inv p IA IB s) (hlen : s.A.snd_buf.length = 0)
    (hsq : s.A.snd_queue = []) (evs : List Ev) (hns : ∀ ev ∈ evs, isSend ev = false) (hrn : RunNoWrap p.base s evs) :
    (Sys.run s evs).A.waitSnd = 0 := by
  obtain ⟨gab, gba, hc⟩ := hi.cons
  obtain ⟨i1, i2⟩ := idleq_run evs s gab gba hc hrn hsq hns
  obtain ⟨g1, g2, hc'⟩ := cons_run evs s gab gba hc hrn
  have hmono := una_mono_run evs s gab gba hc hrn
  have h0 := hc.acon.2
  have h1 := hc'.acon.2
  rw [i2] at h1
  have : (Sys.run s evs).A.snd_buf.length = 0 := by omega
  unfold waitSnd
  rw [i1, this]; rfl

theorem tick_B (s : State) : (Sys.step s .tick).B = s.B := by
  show (if quiet s then { s with now := s.now + 1 } else s).B = s.B
  split <;> rfl

theorem quiet_peek (s : State) (h : quiet s = true) : s.B.peekSize < 0 := by
  unfold quiet at h
  simp only [Bool.and_eq_true, decide_eq_true_eq] at h
  exact h.2

/-- **the induction over the outstanding segments** (writer stopped, send queue empty): `n` segments in
the send buffer are all acknowledged after `n` stages -/
theorem drain_all {p : Par} {IA IB Rmax : Nat} (hR : Rmax + IA < 2 ^ 31) : ∀ (n : Nat) (s : State), Inv p IA IB s →
    s.B.rcv_queue.length < s.B.rcv_wnd.toNat → s.A.snd_buf.length ≤ n → s.A.snd_queue = [] →
    ∀ evs : List Ev, (∀ ev ∈ evs, isSend ev = false) → RunP (DrainHyp p Rmax IA) s evs →
    s.now + n * stageLen Rmax IA IB s.D ≤ (Sys.run s evs).now → (Sys.run s evs).A.waitSnd = 0 := by
  intro n
  induction n with
  | zero =>
    intro s hi _ hlen hsq evs hns hr _
    have hsm : RunSmallH p.base s evs := runP_smallH p.base evs s (RunP.mono (fun _ h => h.1) evs s hr)
    exact drain_done hi (by omega) hsq evs hns (runSmallH_noWrap p.base evs s hsm)
  | succ n ih =>
    intro s hi hq hlen hsq evs hns hr hnow
    rw [Nat.succ_mul] at hnow
    have hpos : 0 < stageLen Rmax IA IB s.D := by unfold stageLen; omega
    obtain ⟨a, b, he, hqt, hτ⟩ := run_reaches_tick (s.now + stageLen Rmax IA IB s.D) evs s (by omega) (by omega)
    have he' : evs = (a ++ [Ev.tick]) ++ b := by rw [he, List.append_assoc]; rfl
    obtain ⟨hr1, hr2⟩ := RunP.split (a ++ [Ev.tick]) b s (by rw [← he']; exact hr)
    obtain ⟨hra, _⟩ := RunP.split a [Ev.tick] s hr1
    have hPa := RunP.last a s hra
    have hrun1 : Sys.run s (a ++ [Ev.tick]) = Sys.step (Sys.run s a) .tick := by rw [run_append]; rfl
    have hnow1 : (Sys.run s (a ++ [Ev.tick])).now = s.now + stageLen Rmax IA IB s.D := by
      rw [hrun1]
      show (if quiet (Sys.run s a) then { (Sys.run s a) with now := (Sys.run s a).now + 1 } else (Sys.run s a)).now = _
      rw [if_pos hqt]
      exact hτ
    have hns1 : ∀ ev ∈ a ++ [Ev.tick], isSend ev = false := fun ev hev => hns ev (by rw [he']; exact List.mem_append_left _ hev)
    have hns2 : ∀ ev ∈ b, isSend ev = false := fun ev hev => hns ev (by rw [he']; exact List.mem_append_right _ hev)
    have hsm1 : RunSmallH p.base s (a ++ [Ev.tick]) := runP_smallH p.base _ s (RunP.mono (fun _ h => h.1) _ s hr1)
    have hrn1 := runSmallH_noWrap p.base _ s hsm1
    obtain ⟨gab, gba, hc⟩ := hi.cons
    obtain ⟨i1, i2⟩ := idleq_run (a ++ [Ev.tick]) s gab gba hc hrn1 hsq hns1
    have hst := drain_stage hi hR hq n hlen (a ++ [Ev.tick]) hr1 (by rw [hnow1]; unfold stageLen; omega)
    rw [i2] at hst
    have hi1 := inv_run (a ++ [Ev.tick]) s hi hrn1
    have hq1 : (Sys.run s (a ++ [Ev.tick])).B.rcv_queue.length < (Sys.run s (a ++ [Ev.tick])).B.rcv_wnd.toNat := by
      rw [hrun1, tick_B]
      exact hPa.2.2 (quiet_peek _ hqt)
    have hD1 : (Sys.run s (a ++ [Ev.tick])).D = s.D := run_D _ s
    have := ih (Sys.run s (a ++ [Ev.tick])) hi1 hq1 (by omega) i1 b hns2 hr2 (by
      rw [hD1, hnow1, ← run_append, ← he']; omega)
    rw [← run_append, ← he'] at this
    exact this

/-! ### the invariants after any history with network faults -/

theorem inv_init (A B : Kcp) (D t0 : Nat) (ndA ndB : Bool) (h : ConsInit A B) :
    Inv ⟨A.snd_nxt, A.conv, 0, 0, 0⟩ A.interval.toNat B.interval.toNat (Sys.init A B D t0 ndA ndB) :=
  ⟨⟨[], [], cons_init A B D t0 ndA ndB h⟩, side_init A B D t0 ndA ndB h, ⟨rfl, Nat.le_refl _⟩, ⟨rfl, Nat.le_refl _⟩⟩

theorem inv_netStep {p : Par} {IA IB : Nat} {s : State} (h : Inv p IA IB s) (hnw : NoWrap p.base s) (ev : NetEv) :
    Inv p IA IB (netStep s ev) := by
  obtain ⟨gab, gba, hc⟩ := h.cons
  refine ⟨cons_netStep hc hnw ev, side_netStep hc hnw h.side ev, ?_, ?_⟩
  · cases ev with
    | fair ev => exact tmA_step hc hnw IA h.ta ev
    | shuffle ab' ba' =>
      show TmA IA (if (ab'.all fun d => decide (d ∈ s.ab)) && (ba'.all fun d => decide (d ∈ s.ba))
        then shuffle s ab' ba' else s)
      split
      · exact ⟨h.ta.iv, h.ta.nf⟩
      · exact h.ta
  · cases ev with
    | fair ev => exact tm_step hc hnw IB h.tb ev
    | shuffle ab' ba' =>
      show Tm IB (if (ab'.all fun d => decide (d ∈ s.ab)) && (ba'.all fun d => decide (d ∈ s.ba))
        then shuffle s ab' ba' else s)
      split
      · exact ⟨h.tb.iv, h.tb.nf⟩
      · exact h.tb

theorem inv_netRun {p : Par} {IA IB : Nat} (evs : List NetEv) : ∀ (s : State), Inv p IA IB s → NetNoWrap p.base s evs →
    Inv p IA IB (netRun s evs) := by
  induction evs with
  | nil => intro s h _; exact h
  | cons ev rest ih => intro s h hr; exact ih _ (inv_netStep h hr.1 ev) hr.2

/-! ### a Boolean check of the run hypotheses (for examples) -/

def tmrChk (Rmax IA : Nat) (s : State) : Bool :=
  match s.A.snd_buf with
  | [] => true
  | x :: _ => x.xmit == 0 ||
    decide ((x.resendts - clk s.now).toNat ≤ Rmax ∧ Rmax + IA < 2 ^ 31) ||
    decide ((clk s.now - x.resendts).toNat ≤ s.now ∧ Rmax + IA + (clk s.now - x.resendts).toNat < 2 ^ 31)

theorem tmrChk_sound (Rmax IA : Nat) (s : State) (h : tmrChk Rmax IA s = true) : TmrOk Rmax IA s := by
  intro x rest hb
  unfold tmrChk at h
  rw [hb] at h
  simp only [Bool.or_eq_true, beq_iff_eq, decide_eq_true_eq] at h
  by_cases h0 : x.xmit = 0
  · exact Or.inl h0
  · right
    refine ⟨h0, ?_⟩
    rcases h with (h | ⟨h1, h2⟩) | ⟨h1, h2⟩
    · exact absurd h h0
    · refine ⟨s.now + (x.resendts - clk s.now).toNat, ?_, by omega, by omega⟩
      apply BitVec.eq_of_toNat_eq
      have := x.resendts.isLt
      unfold clk
      simp only [BitVec.toNat_ofNat, BitVec.toNat_sub]
      omega
    · refine ⟨s.now - (clk s.now - x.resendts).toNat, ?_, by omega, by omega⟩
      apply BitVec.eq_of_toNat_eq
      have := x.resendts.isLt
      unfold clk at h1 ⊢
      simp only [BitVec.toNat_ofNat, BitVec.toNat_sub] at h1 ⊢
      omega

def drainChk (base : U32) (Rmax IA : Nat) (s : State) : Bool :=
  decide (o base s.A.snd_nxt + s.A.snd_queue.length < 2 ^ 30 ∧ s.B.rcv_wnd.toNat < 2 ^ 30) &&
  decide (0 < s.B.rcv_wnd.toNat) && tmrChk Rmax IA s &&
  decide (s.B.peekSize < 0 → s.B.rcv_queue.length < s.B.rcv_wnd.toNat)

def runChk (base : U32) (Rmax IA : Nat) : State → List Ev → Bool
  | s, [] => drainChk base Rmax IA s
  | s, ev :: rest => drainChk base Rmax IA s && runChk base Rmax IA (Sys.step s ev) rest

theorem drainChk_sound (p : Par) (Rmax IA : Nat) (s : State) (h : drainChk p.base Rmax IA s = true) : DrainHyp p Rmax IA s := by
  unfold drainChk at h
  simp only [Bool.and_eq_true, decide_eq_true_eq] at h
  exact ⟨⟨h.1.1.1, h.1.1.2⟩, tmrChk_sound Rmax IA s h.1.2, h.2⟩

theorem runChk_sound (p : Par) (Rmax IA : Nat) : ∀ (evs : List Ev) (s : State), runChk p.base Rmax IA s evs = true →
    RunP (DrainHyp p Rmax IA) s evs := by
  intro evs
  induction evs with
  | nil => intro s h; exact drainChk_sound p Rmax IA s h
  | cons ev rest ih =>
    intro s h
    unfold runChk at h
    simp only [Bool.and_eq_true] at h
    exact ⟨drainChk_sound p Rmax IA s h.1, ih _ h.2⟩

end KcpVerif.SysC
