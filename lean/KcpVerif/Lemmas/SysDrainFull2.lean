/-
The general drain without the hypothesis on what is in flight at the start: every datagram on its way
to A arrives within `D` (`ArrOk`, an invariant of every event and of every non-forging network fault),
the clock cannot pass the arrival time of an undelivered datagram, so `D + 1` ms after the start only
datagrams emitted since then are on the link — and those carry a non-zero window (`OF`).
-/
import KcpVerif.Lemmas.SysDrainFull

namespace KcpVerif.SysC
open KcpVerif KcpVerif.Gen KcpVerif.Kcp KcpVerif.Live KcpVerif.Wire KcpVerif.SysW KcpVerif.Sys

/-- every datagram on its way to A arrives within `D` -/
def ArrOk (s : State) : Prop := ∀ d ∈ s.ba, d.arr ≤ s.now + s.D

theorem arrOk_step (s : State) (h : ArrOk s) (ev : Ev) : ArrOk (Sys.step s ev) := by
  have app : ∀ outs : List Bytes, ∀ d ∈ s.ba ++ stamp (s.now + s.D) outs, d.arr ≤ s.now + s.D := by
    intro outs d hd
    rcases List.mem_append.mp hd with h1 | h1
    · exact h d h1
    · unfold stamp at h1
      obtain ⟨o, _, rfl⟩ := List.mem_map.mp h1
      exact Nat.le_refl _
  cases ev with
  | tick =>
    rw [show Sys.step s .tick = (if quiet s then { s with now := s.now + 1 } else s) from rfl]
    split
    · intro d hd
      have := h d hd
      show d.arr ≤ s.now + 1 + s.D
      omega
    · exact h
  | send b => exact h
  | read =>
    rw [show Sys.step s .read = (if (s.B.recv s.B.peekSize.toNat).n < 0 then s
      else { s with B := (s.B.recv s.B.peekSize.toNat).k, got := s.got ++ (s.B.recv s.B.peekSize.toNat).data }) from rfl]
    split
    · exact h
    · exact h
  | flushA => exact h
  | flushB => exact app _
  | dlvB =>
    cases hab : s.ab with
    | nil =>
      have : Sys.step s .dlvB = s := by simp only [Sys.step, hab]
      rw [this]; exact h
    | cons d rest =>
      rw [step_dlvB_cons s _ _ hab]
      split
      · exact app _
      · exact h
  | dlvA =>
    cases hba : s.ba with
    | nil =>
      have : Sys.step s .dlvA = s := by simp only [Sys.step, hba]
      rw [this]; exact h
    | cons d' rest =>
      rw [step_dlvA_cons s _ _ hba]
      split
      · intro d hd
        exact h d (by rw [hba]; exact List.mem_cons_of_mem _ hd)
      · exact h

theorem arrOk_netStep (s : State) (h : ArrOk s) (ev : NetEv) : ArrOk (netStep s ev) := by
  cases ev with
  | fair ev => exact arrOk_step s h ev
  | shuffle ab' ba' =>
    show ArrOk (if (ab'.all fun d => decide (d ∈ s.ab)) && (ba'.all fun d => decide (d ∈ s.ba))
      then shuffle s ab' ba' else s)
    by_cases hc : ((ab'.all fun d => decide (d ∈ s.ab)) && (ba'.all fun d => decide (d ∈ s.ba))) = true
    · rw [if_pos hc]
      simp only [Bool.and_eq_true, List.all_eq_true, decide_eq_true_eq] at hc
      intro d hd
      exact h d (hc.2 d hd)
    · rw [if_neg hc]; exact h

theorem arrOk_netRun (evs : List NetEv) : ∀ (s : State), ArrOk s → ArrOk (netRun s evs) := by
  induction evs with
  | nil => intro s h; exact h
  | cons ev rest ih => intro s h; exact ih _ (arrOk_netStep s h ev)

theorem arrOk_init (A B : Kcp) (D t0 : Nat) (ndA ndB : Bool) : ArrOk (Sys.init A B D t0 ndA ndB) := by
  intro d hd
  have : (Sys.init A B D t0 ndA ndB).ba = [] := rfl
  rw [this] at hd; simp at hd

/-- a datagram of header-only frames with a non-zero window -/
def FreshD (d : Dgram) : Prop := ∃ frs, d.data = encFrames frs ∧ (∀ fr ∈ frs, fr.data = []) ∧ ∀ fr ∈ frs, fr.wnd ≠ 0

/-- the link to A: old datagrams (all due by `X`; the clock has not passed `X` while one is left), then
fresh ones -/
def OF (X : Nat) (s : State) : Prop :=
  ∃ old new, s.ba = old ++ new ∧ (∀ d ∈ old, d.arr ≤ X) ∧ (old ≠ [] → s.now ≤ X) ∧ ∀ d ∈ new, FreshD d

theorem of_fresh {X : Nat} {s : State} (h : OF X s) (hX : X < s.now) : FreshBa s := by
  obtain ⟨old, new, e, _, h2, h3⟩ := h
  have : old = [] := by
    cases old with
    | nil => rfl
    | cons x r => have := h2 (by simp); omega
  subst this
  intro d hd
  rw [e] at hd
  exact h3 d (by simpa using hd)

theorem of_step {p : Par} {s : State} {gab gba : GLink} (h : Cons p s gab gba) (hnw : NoWrap p.base s) (X : Nat)
    (hQ : QB s) (ev : Ev) (hQ' : QB (Sys.step s ev)) (hp' : (Sys.step s ev).panic = false) (hof : OF X s) :
    OF X (Sys.step s ev) := by
  obtain ⟨old, new, e, h1, h2, h3⟩ := hof
  have keep : ∀ s' : State, s'.ba = s.ba → s'.now = s.now → OF X s' := fun s' e1 e2 =>
    ⟨old, new, e1.trans e, h1, fun hne => by rw [e2]; exact h2 hne, h3⟩
  have app : ∀ (s' : State) (outs : List Bytes), s'.ba = s.ba ++ stamp (s.now + s.D) outs → s'.now = s.now →
      (∀ o ∈ outs, ∃ g, o = encFrames g ∧ (∀ x ∈ g, x.data = []) ∧ ∀ x ∈ g, x.wnd ≠ 0) → OF X s' := by
    intro s' outs e1 e2 hout
    refine ⟨old, new ++ stamp (s.now + s.D) outs, by rw [e1, e, List.append_assoc], h1,
      fun hne => by rw [e2]; exact h2 hne, ?_⟩
    intro d hd
    rcases List.mem_append.mp hd with hd1 | hd1
    · exact h3 d hd1
    · unfold stamp at hd1
      obtain ⟨o, ho, rfl⟩ := List.mem_map.mp hd1
      obtain ⟨g, e1, e2, e3⟩ := hout o ho
      exact ⟨g, e1, e2, e3⟩
  cases ev with
  | tick =>
    rw [show Sys.step s .tick = (if quiet s then { s with now := s.now + 1 } else s) from rfl]
    split
    · rename_i hq
      refine ⟨old, new, e, h1, ?_, h3⟩
      intro hne
      cases old with
      | nil => exact absurd rfl hne
      | cons x r =>
        have hx : x ∈ s.ba := by rw [e]; simp
        have := (quiet_facts s hq).2.1 x hx
        have := h1 x (List.mem_cons_self ..)
        show s.now + 1 ≤ X
        omega
    · exact keep s rfl rfl
  | send b => exact keep _ rfl rfl
  | read =>
    rw [show Sys.step s .read = (if (s.B.recv s.B.peekSize.toNat).n < 0 then s
      else { s with B := (s.B.recv s.B.peekSize.toNat).k, got := s.got ++ (s.B.recv s.B.peekSize.toNat).data }) from rfl]
    split
    · exact keep s rfl rfl
    · exact keep _ rfl rfl
  | flushA => exact keep _ rfl rfl
  | flushB =>
    obtain ⟨hpan, _, _, _⟩ := Total.flush_total h.bK true (clk s.now)
    refine app (Sys.step s .flushB) (s.B.flush true (clk s.now)).outs rfl rfl ?_
    intro o ho
    obtain ⟨g, e1, e2, e3⟩ := emitB_all s.B h.bsb h.bsq true (clk s.now) hpan o ho
    exact ⟨g, e1, e2, fun x hx => by rw [e3 x hx]; exact wndUnused_ne _ hQ.1 hQ.2⟩
  | dlvB =>
    cases gab with
    | nil =>
      have : Sys.step s .dlvB = s := by simp only [Sys.step, h.hab, encL, List.map_nil]
      rw [this]; exact keep s rfl rfl
    | cons d0 grest =>
      obtain ⟨t0, frs0⟩ := d0
      have hab : s.ab = ⟨t0, encFrames frs0⟩ :: encL grest := h.hab
      rw [step_dlvB_cons s _ _ hab] at hQ' hp' ⊢
      by_cases hdue : t0 ≤ s.now
      · rw [if_pos hdue] at hQ' hp' ⊢
        have hpi : (s.B.input (encFrames frs0) true s.ndB (clk s.now)).panic = false := by
          have : (s.panic || (s.B.input (encFrames frs0) true s.ndB (clk s.now)).panic) = false := hp'
          rw [h.np] at this
          simpa using this
        exact app _ (s.B.input (encFrames frs0) true s.ndB (clk s.now)).outs rfl rfl (inB_outs h hnw hpi hQ')
      · rw [if_neg hdue]; exact keep s rfl rfl
  | dlvA =>
    cases hba : s.ba with
    | nil =>
      have : Sys.step s .dlvA = s := by simp only [Sys.step, hba]
      rw [this]; exact keep s rfl rfl
    | cons d' rest =>
      rw [step_dlvA_cons s _ _ hba]
      split
      · cases old with
        | nil =>
          cases new with
          | nil => rw [hba] at e; simp at e
          | cons n nr =>
            rw [hba] at e
            simp only [List.nil_append, List.cons.injEq] at e
            exact ⟨[], nr, by show rest = [] ++ nr; rw [e.2]; rfl, fun d hd => by simp at hd,
              fun hne => absurd rfl hne, fun d hd => h3 d (List.mem_cons_of_mem _ hd)⟩
        | cons x r =>
          rw [hba] at e
          simp only [List.cons_append, List.cons.injEq] at e
          exact ⟨r, new, e.2, fun d hd => h1 d (List.mem_cons_of_mem _ hd), fun _ => h2 (by simp), h3⟩
      · exact keep s rfl rfl

theorem of_inv_run {p : Par} {IA IB Rmax : Nat} (hIA : IA < 2 ^ 30) (X : Nat) (evs : List Ev) : ∀ (s : State),
    Inv p IA IB s → PInv IA s → RunP (FullHyp p Rmax IA) s evs → OF X s →
    Inv p IA IB (Sys.run s evs) ∧ PInv IA (Sys.run s evs) ∧ OF X (Sys.run s evs) := by
  induction evs with
  | nil => intro s h1 h2 _ h3; exact ⟨h1, h2, h3⟩
  | cons ev rest ih =>
    intro s hi hpi hr hof
    obtain ⟨gab, gba, hc⟩ := hi.cons
    have hnw := hr.1.1.noWrap
    have hi' := inv_step hi hnw ev
    obtain ⟨gab', gba', hc'⟩ := hi'.cons
    exact ih _ hi' (pinv_step hc hnw IA hIA hi.ta hpi ev)
      hr.2 (of_step hc hnw X hr.1.2.1 ev (RunP.head hr.2).2.1 hc'.np hof)

/-- **the general drain from any state that satisfies the invariants**: `D + 1` ms for the old datagrams
to leave the link to A, then `WaitSnd` stages -/
theorem drain_full_any {p : Par} {IA IB Rmax : Nat} (hIA : IA < 2 ^ 29) (hR : Rmax + IA < 2 ^ 31) {s : State}
    (hi : Inv p IA IB s) (hpi : PInv IA s) (ha : ArrOk s) (evs : List Ev) (hns : ∀ ev ∈ evs, isSend ev = false)
    (hr : RunP (FullHyp p Rmax IA) s evs)
    (hnow : s.now + s.D + 1 + s.A.waitSnd * (fullStage Rmax IA IB s.D + 1) ≤ (Sys.run s evs).now) :
    (Sys.run s evs).A.waitSnd = 0 := by
  obtain ⟨gab, gba, hc⟩ := hi.cons
  obtain ⟨a, b, e1, e2⟩ := run_reaches (s.now + s.D + 1) evs s (by omega) (by omega)
  obtain ⟨hra, hrb⟩ := RunP.split a b s (by rw [← e1]; exact hr)
  have hnsa : ∀ ev ∈ a, isSend ev = false := fun ev he => hns ev (by rw [e1]; exact List.mem_append_left _ he)
  have hnsb : ∀ ev ∈ b, isSend ev = false := fun ev he => hns ev (by rw [e1]; exact List.mem_append_right _ he)
  have hof : OF (s.now + s.D) s := ⟨s.ba, [], by simp, ha, fun _ => by omega, fun d hd => by simp at hd⟩
  obtain ⟨hi1, hpi1, hof1⟩ := of_inv_run (by omega) (s.now + s.D) a s hi hpi hra hof
  have hf1 := of_fresh hof1 (by rw [e2]; omega)
  have hw1 := wait_run hc a (full_noWrap a s hra) hnsa
  have hm1 := una_mono_run a s gab gba hc (full_noWrap a s hra)
  have hD1 : (Sys.run s a).D = s.D := run_D a s
  have := drain_full_all hIA hR s.A.waitSnd (Sys.run s a) ⟨hi1, hpi1, hf1⟩ (by omega) b hnsb hrb
    (by rw [hD1, e2, ← run_append, ← e1]; omega)
  rw [← run_append, ← e1] at this
  exact this

end KcpVerif.SysC
