import KcpVerif.Lemmas.C11IsoSys
/-!
The listener events (`LEv`, `Lemmas/C11IsoL.lean`) a run of the composite system performs, so that
the listener-level cross-stall theorem applies to it: while the listener is open, the listener
component of `run` is `lrun` of the trace.
-/
namespace KcpVerif.C11Iso
open KcpVerif KcpVerif.Gen KcpVerif.SessIn KcpVerif.Props KcpVerif.C01

def isListenerClose : IEv → Bool
  | .listenerClose _ => true
  | _ => false

/-- the listener events of one event of the composite system in state `s` -/
def levs (ciph : Cipher) (honest : String → Bool) (s : Sys) : IEv → List (LEv SessG)
  | .connect _ _ => []
  | .client _ _ _ => []
  | .deliver a c i wrap now =>
    match s.clients a c with
    | none => []
    | some g =>
      match g.wire[i]? with
      | none => []
      | some d => if cryptGate ciph (wrap d) = .ok d then [.input (world now) ciph (wrap d) a] else []
  | .forge b data now => if honest b then [] else [.input (world now) ciph data b]
  | .accept => [.accept]
  | .close id now => [.close (world now) id]
  | .sess id op => if isSessInput op then [] else [.app id (fun x => sessStep x op)]
  | .listenerClose _ => []

def trace (ciph : Cipher) (honest : String → Bool) : Sys → List IEv → List (LEv SessG)
  | _, [] => []
  | s, e :: rest => levs ciph honest s e ++ trace ciph honest (step ciph honest s e) rest

theorem lrun_append {σ : Type} (l : Listener σ) (a b : List (LEv σ)) : lrun l (a ++ b) = lrun (lrun l a) b := by
  unfold lrun; rw [List.foldl_append]

theorem inputD_live (ciph : Cipher) (now : U32) (l : Listener SessG) (d : Bytes) (a : String) :
    inputD ciph now l false d a = (listenerInput (world now) ciph l d a).l := by
  rw [inputD_eq]; simp only [Bool.false_eq_true, if_false]

theorem step_l (ciph : Cipher) (honest : String → Bool) (s : Sys) (e : IEv) (hd : s.dead = false)
    (he : isListenerClose e = false) :
    (step ciph honest s e).l = lrun s.l (levs ciph honest s e) ∧ (step ciph honest s e).dead = false := by
  cases e with
  | connect a c =>
    cases hc : s.clients a c with
    | some g => simp only [step, hc, levs]; exact ⟨rfl, hd⟩
    | none => simp only [step, hc, levs]; exact ⟨rfl, hd⟩
  | client a c op =>
    cases hc : s.clients a c with
    | none => simp only [step, hc, levs]; exact ⟨rfl, hd⟩
    | some g => simp only [step, hc, levs]; exact ⟨rfl, hd⟩
  | deliver a c i wrap now =>
    cases hc : s.clients a c with
    | none => simp only [step, hc, levs]; exact ⟨rfl, hd⟩
    | some g =>
      cases hw : g.wire[i]? with
      | none => simp only [step, hc, hw, levs]; exact ⟨rfl, hd⟩
      | some d =>
        by_cases hgate : cryptGate ciph (wrap d) = .ok d
        · simp only [step, hc, hw, levs, hd, inputD_live, hgate, if_true]
          exact ⟨rfl, trivial⟩
        · simp only [step, hc, hw, levs, hgate, if_false]; exact ⟨rfl, hd⟩
  | forge b data now =>
    cases hb : honest b with
    | true => simp only [step, hb, levs, if_true]; exact ⟨rfl, hd⟩
    | false =>
      simp only [step, hb, levs, Bool.false_eq_true, if_false, hd, inputD_live]
      exact ⟨rfl, trivial⟩
  | accept =>
    cases hg : (SessIn.accept s.l).got with
    | none =>
      simp only [step, hg, levs]
      refine ⟨?_, hd⟩
      show s.l = (SessIn.accept s.l).l
      unfold SessIn.accept at hg ⊢
      split
      · rfl
      · rename_i h; rw [h] at hg; cases hg
    | some id => simp only [step, hg, levs]; exact ⟨rfl, hd⟩
  | close id now => simp only [step, levs]; exact ⟨rfl, hd⟩
  | sess id op =>
    cases hi : isSessInput op with
    | true => simp only [step, hi, levs, if_true]; exact ⟨rfl, hd⟩
    | false => simp only [step, hi, levs, Bool.false_eq_true, if_false]; exact ⟨rfl, hd⟩
  | listenerClose now => cases he

theorem run_l (ciph : Cipher) (honest : String → Bool) (evs : List IEv) : ∀ s : Sys, s.dead = false →
    (∀ e ∈ evs, isListenerClose e = false) → (run ciph honest s evs).l = lrun s.l (trace ciph honest s evs) := by
  induction evs with
  | nil => intro s _ _; rfl
  | cons e rest ih =>
    intro s hd he
    obtain ⟨h1, h2⟩ := step_l ciph honest s e hd (he e (List.mem_cons_self ..))
    show (run ciph honest (step ciph honest s e) rest).l = _
    rw [ih _ h2 (fun e' h' => he e' (List.mem_cons_of_mem _ h'))]
    show _ = lrun s.l (levs ciph honest s e ++ trace ciph honest (step ciph honest s e) rest)
    rw [lrun_append, h1]

end KcpVerif.C11Iso
