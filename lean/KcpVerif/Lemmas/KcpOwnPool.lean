/-
C15 (ownership, protocol core): the ghost state of `Model/KcpOwn` against the sanitizer of
`Model/Pool`.  `W g c`: the log of `g` is accepted by the sanitizer, and the sanitizer's "owned" set
after the log is exactly what the core holds — `c id` is the number of queue positions that hold
buffer `id` (plus the buffers dropped next to a panic), it is 1 for owned buffers and 0 otherwise.
The four lemmas `W.get / W.recycle / W.use / W.getLost` are the only places where the sanitizer's
state machine is looked at; everything else is counting.  Core Lean only.
-/
import KcpVerif.Model.KcpOwn

namespace KcpVerif.Own
open KcpVerif KcpVerif.Pool

/-- the sanitizer state after a log (findings included, as `Pool.step` continues past them) -/
def replay (s : St) : List Ev → St
  | [] => s
  | e :: l => replay (step s e).st l

theorem replay_append (s : St) (l l' : List Ev) : replay s (l ++ l') = replay (replay s l) l' := by
  induction l generalizing s with
  | nil => rfl
  | cons e l ih => exact ih _

theorem sanitizeFrom_append (s : St) (l l' : List Ev) :
    sanitizeFrom s (l ++ l') = .ok ↔ sanitizeFrom s l = .ok ∧ sanitizeFrom (replay s l) l' = .ok := by
  induction l generalizing s with
  | nil => simp [sanitizeFrom, replay]
  | cons e l ih =>
    simp only [List.cons_append, sanitizeFrom, replay]
    by_cases h : (step s e).v = .ok
    · simp only [h, if_true]; exact ih _
    · simp only [h, if_false, false_and]

/-- one more event at the end of an accepted log -/
theorem sanitize_snoc (l : List Ev) (e : Ev) :
    sanitize (l ++ [e]) = .ok ↔ sanitize l = .ok ∧ (step (replay St.init l) e).v = .ok := by
  unfold sanitize
  rw [sanitizeFrom_append]
  simp only [sanitizeFrom]
  constructor
  · rintro ⟨h1, h2⟩
    refine ⟨h1, ?_⟩
    by_cases h : (step (replay St.init l) e).v = .ok
    · exact h
    · simp only [h, if_false] at h2
  · rintro ⟨h1, h2⟩
    exact ⟨h1, by simp only [h2, if_true]⟩

theorem replay_snoc (l : List Ev) (e : Ev) :
    replay St.init (l ++ [e]) = (step (replay St.init l) e).st := by
  rw [replay_append]; rfl

/-- the buffers the sanitizer considers owned after the ghost log -/
def owned (g : Ghost) : List Nat := (replay St.init g.log).owned

/-- `oc o id`: 1 if the position holds buffer `id` -/
def oc (o : Option Nat) (id : Nat) : Nat := if o = some id then 1 else 0

theorem oc_none (id : Nat) : oc none id = 0 := by simp [oc]
theorem oc_some_self (id : Nat) : oc (some id) id = 1 := by simp [oc]
theorem oc_some_ne {j id : Nat} (h : j ≠ id) : oc (some j) id = 0 := by simp [oc, h]

/-- the ghost state is consistent with a holding count `c` -/
structure W (g : Ghost) (c : Nat → Nat) : Prop where
  ok    : sanitize g.log = .ok
  fresh : ∀ id ∈ owned g, id < g.next
  bal   : ∀ id, c id + g.lost.count id = if id ∈ owned g then 1 else 0

theorem W.congr {g : Ghost} {c c' : Nat → Nat} (h : W g c) (hc : ∀ id, c' id = c id) : W g c' :=
  ⟨h.ok, h.fresh, fun id => by rw [hc id]; exact h.bal id⟩

theorem W.init : W {} (fun _ => 0) :=
  ⟨rfl, fun id h => by simp [owned, replay, St.init] at h, fun id => by simp [owned, replay, St.init]⟩

theorem mem_remove (l : List Nat) (a b : Nat) : a ∈ remove l b ↔ a ∈ l ∧ a ≠ b := by
  simp [remove]

/-- `Get()`: a fresh buffer, held once from now on -/
theorem W.get {g : Ghost} {c : Nat → Nat} (h : W g c) : W g.get (fun id => oc (some g.next) id + c id) := by
  have hn : g.next ∉ owned g := fun hm => Nat.lt_irrefl _ (h.fresh _ hm)
  have hn' : g.next ∉ (replay St.init g.log).owned := hn
  have hst : (step (replay St.init g.log) (.get g.next)) =
      { v := .ok, st := { owned := g.next :: (replay St.init g.log).owned,
                          free := remove (replay St.init g.log).free g.next } } := by
    simp only [step, hn', if_false]
  have how : owned g.get = g.next :: owned g := by
    show (replay St.init (g.log ++ [.get g.next])).owned = _
    rw [replay_snoc, hst]; rfl
  refine ⟨?_, ?_, ?_⟩
  · show sanitize (g.log ++ [.get g.next]) = .ok
    rw [sanitize_snoc]; exact ⟨h.ok, by rw [hst]⟩
  · intro id hid
    rw [how] at hid
    show id < g.next + 1
    rcases List.mem_cons.1 hid with rfl | hm
    · exact Nat.lt_succ_self _
    · exact Nat.lt_succ_of_lt (h.fresh _ hm)
  · intro id
    rw [how]
    show oc (some g.next) id + c id + g.lost.count id = _
    have hc := h.bal id
    by_cases hid : g.next = id
    · subst hid
      simp only [hn, if_false] at hc
      simp only [oc_some_self, List.mem_cons, true_or, if_true]
      omega
    · have : ¬ id = g.next := fun e => hid e.symm
      simp only [oc_some_ne hid, List.mem_cons, this, false_or]
      omega

/-- `recycleSegment`: the position gives its buffer (if it still has one) back -/
theorem W.recycle {g : Ghost} {c : Nat → Nat} {o : Option Nat} (h : W g (fun id => oc o id + c id)) :
    W (g.recycle o) c := by
  cases o with
  | none => exact h.congr (fun id => by simp [oc_none])
  | some j =>
    have hj := h.bal j
    simp only [oc_some_self] at hj
    have hjo : j ∈ owned g := by
      by_cases hm : j ∈ owned g
      · exact hm
      · simp only [hm, if_false] at hj; omega
    simp only [hjo, if_true] at hj
    have hjo' : j ∈ (replay St.init g.log).owned := hjo
    have hst : (step (replay St.init g.log) (.put j)) =
        { v := .ok, st := { owned := remove (replay St.init g.log).owned j,
                            free := j :: (replay St.init g.log).free } } := by
      simp only [step, hjo', if_true]
    have how : owned (g.recycle (some j)) = remove (owned g) j := by
      show (replay St.init (g.log ++ [.put j])).owned = _
      rw [replay_snoc, hst]; rfl
    refine ⟨?_, ?_, ?_⟩
    · show sanitize (g.log ++ [.put j]) = .ok
      rw [sanitize_snoc]; exact ⟨h.ok, by rw [hst]⟩
    · intro id hid
      rw [how, mem_remove] at hid
      exact h.fresh _ hid.1
    · intro id
      rw [how]
      show c id + g.lost.count id = _
      have hc := h.bal id
      by_cases hid : j = id
      · subst hid
        have : ¬ (j ∈ remove (owned g) j) := by rw [mem_remove]; exact fun h => h.2 rfl
        simp only [this, if_false]
        simp only [oc_some_self, hjo, if_true] at hc
        omega
      · have hne : id ≠ j := fun e => hid e.symm
        simp only [oc_some_ne hid] at hc
        simp only [mem_remove, hne, ne_eq, not_false_eq_true, and_true]
        omega

/-- reading or writing `seg.data` of a held segment -/
theorem W.use {g : Ghost} {c : Nat → Nat} {o : Option Nat} (h : W g (fun id => oc o id + c id)) :
    W (g.use o) (fun id => oc o id + c id) := by
  cases o with
  | none => exact h
  | some j =>
    have hj := h.bal j
    simp only [oc_some_self] at hj
    have hjo : j ∈ owned g := by
      by_cases hm : j ∈ owned g
      · exact hm
      · simp only [hm, if_false] at hj; omega
    have hjo' : j ∈ (replay St.init g.log).owned := hjo
    have hst : (step (replay St.init g.log) (.use j)) = { v := .ok, st := replay St.init g.log } := by
      simp only [step, hjo', if_true]
    have how : owned (g.use (some j)) = owned g := by
      show (replay St.init (g.log ++ [.use j])).owned = _
      rw [replay_snoc, hst]; rfl
    refine ⟨?_, ?_, ?_⟩
    · show sanitize (g.log ++ [.use j]) = .ok
      rw [sanitize_snoc]; exact ⟨h.ok, by rw [hst]⟩
    · intro id hid
      rw [how] at hid
      exact h.fresh _ hid
    · intro id
      rw [how]
      exact h.bal id

/-- `Get()[:size]` that panics: acquired, held by nobody, recorded as lost -/
theorem W.getLost {g : Ghost} {c : Nat → Nat} (h : W g c) : W g.getLost c := by
  have hg := h.get
  refine ⟨hg.ok, hg.fresh, ?_⟩
  intro id
  have hc := hg.bal id
  show c id + (g.next :: g.lost).count id = if id ∈ owned g.get then 1 else 0
  rw [← hc]
  show c id + (g.next :: g.lost).count id = oc (some g.next) id + c id + g.lost.count id
  by_cases hid : g.next = id
  · subst hid
    simp only [oc_some_self, List.count_cons_self]; omega
  · simp only [oc_some_ne hid, List.count_cons_of_ne hid]; omega

/-- a position gives up its buffer without `Put`: the buffer is recorded as lost -/
theorem W.drop {g : Ghost} {c : Nat → Nat} {o : Option Nat} (h : W g (fun id => oc o id + c id)) :
    W (g.drop o) c := by
  cases o with
  | none => exact h.congr (fun id => by simp [oc_none])
  | some j =>
    refine ⟨h.ok, h.fresh, ?_⟩
    intro id
    have hb := h.bal id
    show c id + (j :: g.lost).count id = if id ∈ owned g then 1 else 0
    rw [← hb]
    by_cases hid : j = id
    · subst hid; simp only [oc_some_self, List.count_cons_self]; omega
    · simp only [oc_some_ne hid, List.count_cons_of_ne hid]; omega

end KcpVerif.Own
