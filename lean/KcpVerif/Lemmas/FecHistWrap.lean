/-
C07 over whole histories, part 5: windows in a linear order, and the window ACROSS the id wrap.
Core Lean only.

* `within_linear`: any set `W` of shard ids with a position function `pos` such that (A) an id not
  ahead of another one of `W` is alive seen from it and (B) `newestShardId` moves inside `W` as the
  maximum w.r.t. `pos` — keeps all its groups within the horizon, whatever the interleaving.
  (`within_window` of `FecHistHorizon` is the instance `pos = toNat` on `b … b + maxShardSets`.)
* the wrap: the ids `L−2, L−1, 0, 1` (`L = paws / n`, the number of shard ids) at positions
  `0, 1, 2, 3`.  Seen across the wrap an age is larger by the gap `2^32 − paws ∈ [1, n]`, so only
  THREE consecutive groups are guaranteed to stay (`wrapAlive`: span ≤ 2), one fewer than elsewhere;
  `wrap_sharp`: with span 3 (`newest = 1`, group `L−2`) the group is NOT alive.
  `within_wrap`: a history whose shard ids lie in `L−2, L−1, 0` or in `L−1, 0, 1` keeps its groups
  within the horizon.
-/
import KcpVerif.Lemmas.FecHistHorizon
import KcpVerif.Lemmas.FecEnc

namespace KcpVerif.Lemmas.FecHist
open KcpVerif.Fec KcpVerif.Gen KcpVerif.AutoTune

/-- a window in any linear arrangement of shard ids -/
theorem within_linear {n : Nat} (W : BitVec 32 → Prop) (pos : BitVec 32 → Nat)
    (hA : ∀ x y, W x → W y → pos y ≤ pos x → alive n x y = true)
    (hB : ∀ c s, W c → W s → nextNewest n (some c) s = if pos c < pos s then s else c)
    (g : BitVec 32) (hg : W g) (hist : List Bytes) :
    ∀ (cur : Option (BitVec 32)) (seen : Bool),
      (∀ q ∈ hist, W (sidOf n q)) → (∀ c, cur = some c → W c) →
      (seen = true → ∃ c, cur = some c ∧ pos g ≤ pos c) →
      within n g cur seen hist = true := by
  induction hist with
  | nil => intro _ _ _ _ _; rfl
  | cons q rest ih =>
    intro cur seen hwin hcur hseen
    have hq := hwin q (List.mem_cons_self ..)
    have hnw : W (nextNewest n cur (sidOf n q)) ∧
        pos (sidOf n q) ≤ pos (nextNewest n cur (sidOf n q)) ∧
        (∀ c, cur = some c → pos c ≤ pos (nextNewest n cur (sidOf n q))) := by
      cases hc : cur with
      | none => exact ⟨hq, Nat.le_refl _, fun c h => by cases h⟩
      | some c =>
        have hcw := hcur c hc
        rw [hB c _ hcw hq]
        split
        · exact ⟨hq, Nat.le_refl _, fun c' h => by cases h; omega⟩
        · exact ⟨hcw, by omega, fun c' h => by cases h; exact Nat.le_refl _⟩
    obtain ⟨hw1, hw2, hw3⟩ := hnw
    have hseen' : (seen || sidOf n q == g) = true →
        pos g ≤ pos (nextNewest n cur (sidOf n q)) := by
      intro h
      simp only [Bool.or_eq_true, beq_iff_eq] at h
      rcases h with h | h
      · obtain ⟨c, hc, hle⟩ := hseen h
        exact Nat.le_trans hle (hw3 c hc)
      · rw [← h]; exact hw2
    simp only [within, Bool.and_eq_true, Bool.or_eq_true, Bool.not_eq_true']
    constructor
    · cases hs : (seen || sidOf n q == g) with
      | false => exact Or.inl rfl
      | true => exact Or.inr (hA _ _ hw1 hg (hseen' hs))
    · apply ih _ _ (fun q hq => hwin q (List.mem_cons_of_mem _ hq))
      · intro c h; cases h; exact hw1
      · intro h; exact ⟨_, rfl, hseen' h⟩

/-! ## across the wrap -/

theorem mod_sub_add (X Y : Nat) (hX : X < 2 ^ 32) (hY : Y < 2 ^ 32) :
    (2 ^ 32 - Y + X) % 2 ^ 32 = if Y ≤ X then X - Y else 2 ^ 32 - Y + X := by
  split <;> omega

/-- the unsigned difference of two non-wrapping products -/
def udiff (X Y : Nat) : Nat := if Y ≤ X then X - Y else 2 ^ 32 - Y + X

/-- the signed comparison of two non-wrapping products -/
theorem itimediff_prod {n : Nat} (hn : n ≤ 256) (x y : BitVec 32) (hx : x.toNat * n < 2 ^ 32)
    (hy : y.toNat * n < 2 ^ 32) :
    itimediff (x * u32 n) (y * u32 n)
      = (if 2 * udiff (x.toNat * n) (y.toNat * n) < 2 ^ 32
         then ((udiff (x.toNat * n) (y.toNat * n) : Nat) : Int)
         else ((udiff (x.toNat * n) (y.toNat * n) : Nat) : Int) - ((2 ^ 32 : Nat) : Int)) := by
  unfold itimediff udiff
  rw [BitVec.toInt_eq_toNat_cond, BitVec.toNat_sub, mul_u32 hn x hx, mul_u32 hn y hy,
    mod_sub_add _ _ hx hy]

/-- number of shard ids: ids are `0 … idCount n − 1` -/
def idCount (n : Nat) : Nat := (pawsOf n).toNat / n

/-- the four ids around the wrap -/
def In4 (n : Nat) (x : BitVec 32) : Prop :=
  x.toNat + 2 = idCount n ∨ x.toNat + 1 = idCount n ∨ x.toNat = 0 ∨ x.toNat = 1

/-- … at positions 0, 1, 2, 3 -/
def wrapPos (n : Nat) (x : BitVec 32) : Nat :=
  if x.toNat + 2 = idCount n then 0 else if x.toNat + 1 = idCount n then 1
  else if x.toNat = 0 then 2 else 3

theorem idCount_mul {n : Nat} (_hn0 : 0 < n) : idCount n * n = (pawsOf n).toNat := by
  unfold idCount
  exact Nat.div_mul_cancel (Nat.dvd_of_mod_eq_zero (FecEnc.paws_multiple n))

theorem idCount_large {n : Nat} (hn0 : 0 < n) (hn : n ≤ 256) : 4 ≤ idCount n := by
  have h1 := FecEnc.paws_large hn0 hn
  unfold idCount
  rw [Nat.le_div_iff_mul_le hn0]
  omega

/-- position and product of each of the four ids -/
theorem in4_cases {n : Nat} (hn0 : 0 < n) (hn : n ≤ 256) (x : BitVec 32) (hx : In4 n x) :
    (wrapPos n x = 0 ∧ x.toNat * n + 2 * n = (pawsOf n).toNat) ∨
    (wrapPos n x = 1 ∧ x.toNat * n + n = (pawsOf n).toNat) ∨
    (wrapPos n x = 2 ∧ x.toNat * n = 0) ∨
    (wrapPos n x = 3 ∧ x.toNat * n = n) := by
  have hL := idCount_large hn0 hn
  have hm := idCount_mul hn0
  unfold wrapPos
  rcases hx with h | h | h | h
  · left
    refine ⟨by rw [if_pos h], ?_⟩
    rw [← hm, ← h, Nat.add_mul]
  · right; left
    refine ⟨by rw [if_neg (by omega), if_pos h], ?_⟩
    rw [← hm, ← h, Nat.add_mul, Nat.one_mul]
  · right; right; left
    refine ⟨by rw [if_neg (by omega), if_neg (by omega), if_pos h], ?_⟩
    rw [h, Nat.zero_mul]
  · right; right; right
    refine ⟨by rw [if_neg (by omega), if_neg (by omega), if_neg (by omega)], ?_⟩
    rw [h, Nat.one_mul]

/-- (A) across the wrap: an id at most 2 positions behind is alive -/
theorem wrapAlive {n : Nat} (hn0 : 0 < n) (hn : n ≤ 256) (x y : BitVec 32) (hx : In4 n x)
    (hy : In4 n y) (h1 : wrapPos n y ≤ wrapPos n x) (h2 : wrapPos n x ≤ wrapPos n y + 2) :
    alive n x y = true := by
  have hP := FecEnc.paws_lt hn0
  have hgap := FecEnc.paws_gap hn0
  have hlarge := FecEnc.paws_large hn0 hn
  have hms : maxShardSets * n = 3 * n := rfl
  have cx := in4_cases hn0 hn x hx
  have cy := in4_cases hn0 hn y hy
  have hxn : x.toNat * n < 2 ^ 32 := by rcases cx with h | h | h | h <;> omega
  have hyn : y.toNat * n < 2 ^ 32 := by rcases cy with h | h | h | h <;> omega
  unfold alive age
  rw [itimediff_prod hn x y hxn hyn, hms]
  generalize x.toNat * n = X at *
  generalize y.toNat * n = Y at *
  generalize (pawsOf n).toNat = P at *
  simp only [Bool.and_eq_true, decide_eq_true_eq]
  unfold udiff
  rcases cx with h | h | h | h <;> rcases cy with h' | h' | h' | h' <;>
    (split <;> split <;> omega)

/-- the bound is sharp: seen from id 1, the id `L − 2` (3 positions behind) is NOT alive, whereas
    away from the wrap 3 behind is alive (`alive_of_le`) -/
theorem wrap_sharp {n : Nat} (hn0 : 0 < n) (hn : n ≤ 256) (x y : BitVec 32) (hx : x.toNat = 1)
    (hy : y.toNat + 2 = idCount n) : alive n x y = false := by
  have hP := FecEnc.paws_lt hn0
  have hgap := FecEnc.paws_gap hn0
  have hlarge := FecEnc.paws_large hn0 hn
  have hms : maxShardSets * n = 3 * n := rfl
  have cx := in4_cases hn0 hn x (Or.inr (Or.inr (Or.inr hx)))
  have cy := in4_cases hn0 hn y (Or.inl hy)
  have hL := idCount_large hn0 hn
  have px : wrapPos n x = 3 := by
    unfold wrapPos; rw [if_neg (by omega), if_neg (by omega), if_neg (by omega)]
  have py : wrapPos n y = 0 := by unfold wrapPos; rw [if_pos hy]
  have hxn : x.toNat * n < 2 ^ 32 := by rcases cx with h | h | h | h <;> omega
  have hyn : y.toNat * n < 2 ^ 32 := by rcases cy with h | h | h | h <;> omega
  unfold alive age
  rw [itimediff_prod hn x y hxn hyn, hms]
  generalize x.toNat * n = X at *
  generalize y.toNat * n = Y at *
  generalize (pawsOf n).toNat = P at *
  have hXY : X = n ∧ Y + 2 * n = P := by
    rcases cx with h | h | h | h <;> rcases cy with h' | h' | h' | h' <;> omega
  have : ¬ ((if 2 * udiff X Y < 2 ^ 32 then ((udiff X Y : Nat) : Int)
      else ((udiff X Y : Nat) : Int) - ((2 ^ 32 : Nat) : Int)) ≤ ((3 * n : Nat) : Int)) := by
    unfold udiff
    split <;> split <;> omega
  rw [decide_eq_false this, Bool.and_false]

/-- (B) across the wrap `newestShardId` is the maximum w.r.t. the position -/
theorem wrapNewest {n : Nat} (hn0 : 0 < n) (hn : n ≤ 256) (c s : BitVec 32) (hc : In4 n c)
    (hs : In4 n s) :
    nextNewest n (some c) s = if wrapPos n c < wrapPos n s then s else c := by
  have hP := FecEnc.paws_lt hn0
  have hgap := FecEnc.paws_gap hn0
  have hlarge := FecEnc.paws_large hn0 hn
  have cc := in4_cases hn0 hn c hc
  have cs := in4_cases hn0 hn s hs
  have hcn : c.toNat * n < 2 ^ 32 := by rcases cc with h | h | h | h <;> omega
  have hsn : s.toNat * n < 2 ^ 32 := by rcases cs with h | h | h | h <;> omega
  unfold nextNewest
  simp only []
  rw [itimediff_prod hn s c hsn hcn]
  generalize c.toNat * n = X at *
  generalize s.toNat * n = Y at *
  generalize (pawsOf n).toNat = P at *
  by_cases hlt : wrapPos n c < wrapPos n s
  · rw [if_pos hlt, if_pos]
    unfold udiff
    rcases cc with h | h | h | h <;> rcases cs with h' | h' | h' | h' <;>
      (split <;> split <;> omega)
  · rw [if_neg hlt, if_neg]
    unfold udiff
    rcases cc with h | h | h | h <;> rcases cs with h' | h' | h' | h' <;>
      (split <;> split <;> omega)

/-- three consecutive shard ids around the wrap: positions `s0 … s0 + 2` of `L−2, L−1, 0, 1` -/
def InWrap (n s0 : Nat) (x : BitVec 32) : Prop :=
  In4 n x ∧ s0 ≤ wrapPos n x ∧ wrapPos n x ≤ s0 + 2

/-- **three consecutive groups across the id wrap stay within the horizon**, whatever the
    interleaving -/
theorem within_wrap {n : Nat} (hn0 : 0 < n) (hn : n ≤ 256) (s0 : Nat) (g : BitVec 32)
    (hg : InWrap n s0 g) (hist : List Bytes) (hwin : ∀ q ∈ hist, InWrap n s0 (sidOf n q)) :
    within n g none false hist = true :=
  within_linear (InWrap n s0) (wrapPos n)
    (fun x y hx hy h => wrapAlive hn0 hn x y hx.1 hy.1 h (by have := hx.2.2; have := hy.2.1; omega))
    (fun c s hc hs => wrapNewest hn0 hn c s hc.1 hs.1)
    g hg hist none false hwin (fun c h => by cases h) (fun h => by cases h)

end KcpVerif.Lemmas.FecHist
