/-
C04 (cwnd_sane, arithmetic): in every reachable state the remote window fits 16 bits and the segment
size is in [1, mtuLimit]; hence the ack-driven growth never divides by zero and `(cwnd+1)*mss` never wraps.
Core Lean only.
-/
import KcpVerif.Lemmas.KcpFrames
import KcpVerif.Lemmas.KcpWindow
import KcpVerif.Lemmas.KcpCwnd

namespace KcpVerif.Kcp
open KcpVerif KcpVerif.Gen

/-- what the congestion arithmetic relies on: the remote window fits 16 bits, the segment size is
positive and at most the pool buffer size -/
def CwOK (k : Kcp) : Prop := k.rmt_wnd.toNat < 2^16 ∧ 1 ≤ k.mss.toNat ∧ k.mss.toNat ≤ mtuLimit

instance (k : Kcp) : Decidable (CwOK k) := by unfold CwOK; exact inferInstance

theorem setMtu_cw (k : Kcp) (m : Int) (h : CwOK k) : CwOK (setMtu k m).1 := by
  unfold setMtu
  split; · exact h
  split; · exact h
  split; · exact h
  split; · exact h
  rename_i h1 h2 _ _
  have e : u32 IKCP_OVERHEAD = 24#32 := by decide
  have hm : (IKCP_OVERHEAD : Int) = 24 := by decide
  have hl : (mtuLimit : Int) = 1500 := by decide
  have hl' : mtuLimit = 1500 := by decide
  simp only [hm, hl] at h1 h2
  have hmm : (BitVec.ofInt 32 m).toNat = m.toNat := by
    rw [BitVec.toNat_ofInt]
    congr 1
    exact Int.emod_eq_of_lt (by omega) (by omega)
  have h24 : (24#32).toNat = 24 := rfl
  have hs : (BitVec.ofInt 32 m - u32 IKCP_OVERHEAD).toNat = m.toNat - 24 := by
    rw [e, BitVec.toNat_sub, hmm, h24]
    omega
  refine ⟨h.1, ?_, ?_⟩
  · show 1 ≤ (BitVec.ofInt 32 m - u32 IKCP_OVERHEAD).toNat
    rw [hs]; omega
  · show (BitVec.ofInt 32 m - u32 IKCP_OVERHEAD).toNat ≤ mtuLimit
    rw [hs, hl']; omega

theorem inSt1_cw (regular : Bool) (wnd : BitVec 16) (una : U32) (st : InLoop) (h : CwOK st.k) :
    CwOK (inSt1 regular wnd una st).k := by
  unfold inSt1
  simp only []
  obtain ⟨b, u, e⟩ := shrinkUna_shape (if regular then { st.k with rmt_wnd := wnd.setWidth 32 } else st.k) una
  rw [e]
  split
  · refine ⟨?_, h.2⟩
    show (wnd.setWidth 32).toNat < 2^16
    have := wnd.isLt
    simp only [BitVec.toNat_setWidth]
    omega
  · exact h

theorem inAck_cw (st : InLoop) (sn ts : U32) (h : CwOK st.k) : CwOK (inAck st sn ts).k := by
  unfold inAck
  simp only []
  obtain ⟨b1, e1⟩ := parseAck_shape st.k sn
  obtain ⟨b2, u2, e2⟩ := shrinkBuf_shape (parseAck st.k sn)
  obtain ⟨b3, e3⟩ := parseFastack_shape (shrinkBuf (parseAck st.k sn)) sn ts
  rw [e3, e2, e1]; exact h

theorem inPush_cw (st : InLoop) (seg : Seg) (h : CwOK st.k) : CwOK (inPush st seg).k := by
  unfold inPush
  split
  · simp only []
    split
    · obtain ⟨q, b, n, e⟩ := parseData_shape { st.k with acklist := st.k.acklist ++ [⟨seg.sn, seg.ts⟩] } seg
      show CwOK (parseData { st.k with acklist := st.k.acklist ++ [⟨seg.sn, seg.ts⟩] } seg).k
      rw [e]; exact h
    · exact h
  · exact h

theorem inBody_cw (regular : Bool) (data : Bytes) (st : InLoop) (h : CwOK st.k) : CwOK (inBody regular data st).k := by
  have h1 := inSt1_cw regular (rd16 data 6) (rd32 data 16) st h
  unfold inBody
  simp only []
  split; · exact inAck_cw _ _ _ h1
  split; · exact inPush_cw _ _ h1
  split; · exact h1
  exact h1

theorem flush_cw (k : Kcp) (full : Bool) (now : U32) (h : CwOK k) : CwOK (flush k full now).k := by
  obtain ⟨_, _, _, _, _, _, _, hk, _⟩ := flush_k k full now
  rw [hk]; exact h

theorem input_cw (k : Kcp) (data : Bytes) (regular ackNoDelay : Bool) (now : U32) (h : CwOK k) :
    CwOK (input k data regular ackNoDelay now).k :=
  input_preserves CwOK
    (fun regular fuel data st hs => inputLoop_preserves CwOK regular (inBody_cw regular) fuel data st hs)
    (fun k rtt hk => by obtain ⟨a, b, c, e⟩ := updateAck_shape k rtt; rw [e]; exact hk)
    (fun k u hk => by obtain ⟨a, b, e⟩ := cwndOnAck_shape k u; rw [e]; exact hk)
    flush_cw k data regular ackNoDelay now h

/-- `CwOK` is inductive over every operation, with arbitrary arguments and no side condition -/
theorem step_cw (k : Kcp) (op : Op) (h : CwOK k) : CwOK (step k op) := by
  cases op with
  | send b => obtain ⟨q, e⟩ := send_shape k b; show CwOK (send k b).k; rw [e]; exact h
  | recv n => obtain ⟨q, b, x, p, e⟩ := recv_shape k n; show CwOK (recv k n).k; rw [e]; exact h
  | input d reg nd now => exact input_cw k d reg nd now h
  | flush full now => exact flush_cw k full now h
  | update now =>
    show CwOK (update k now).k
    obtain ⟨u, t, e | e⟩ := update_shape k now
    · rw [e]; exact h
    · rw [e]; exact flush_cw _ _ _ h
  | setMtu m => exact setMtu_cw k m h
  | noDelay a b c d => obtain ⟨_, _, _, _, _, e⟩ := noDelay_shape k a b c d; show CwOK (noDelay k a b c d); rw [e]; exact h
  | wndSize s r => obtain ⟨_, _, e⟩ := wndSize_shape k s r; show CwOK (wndSize k s r); rw [e]; exact h
  | setStream v => exact h

theorem run_cw (k : Kcp) (ops : List Op) (h : CwOK k) : CwOK (run k ops) := by
  induction ops generalizing k with
  | nil => exact h
  | cons op rest ih => exact ih _ (step_cw k op h)

theorem start_cw (conv snd0 rcv0 : U32) : CwOK (start conv snd0 rcv0) := by
  refine ⟨?_, ?_, ?_⟩
  · show (u32 IKCP_WND_RCV).toNat < 2^16
    decide
  · show 1 ≤ (u32 IKCP_MTU_DEF - u32 IKCP_OVERHEAD).toNat
    decide
  · show (u32 IKCP_MTU_DEF - u32 IKCP_OVERHEAD).toNat ≤ mtuLimit
    decide

/-! ### what the growth step relies on -/

/-- the divisor of `mss*mss/incr` in the growth step is positive: no division by zero -/
theorem cwGrow_divisor_pos (k : Kcp) (h : CwOK k) : (if k.incr < k.mss then k.mss else k.incr) ≠ 0 := by
  have := h.2.1
  split
  · intro h0; rw [h0] at this; simp at this
  · rename_i hh; intro h0; rw [h0] at hh
    bv_omega

/-- the guard `mss > 0` before `(incr + mss - 1)/mss` always holds (its `else` branch is dead code) -/
theorem cwGrow_mss_pos (k : Kcp) (h : CwOK k) : k.mss > 0 := by
  have := h.2.1; bv_omega

/-- `(cwnd + 1) * mss` does not wrap when the growth step runs (it runs only while `cwnd < rmt_wnd`) -/
theorem cwGrow_no_wrap (k : Kcp) (h : CwOK k) (hlt : k.cwnd < k.rmt_wnd) :
    ((k.cwnd + 1) * k.mss).toNat = (k.cwnd.toNat + 1) * k.mss.toNat := by
  obtain ⟨h1, _, h3⟩ := h
  have hl : mtuLimit = 1500 := by decide
  rw [hl] at h3
  have hc : k.cwnd.toNat + 1 < 2^16 := by bv_omega
  have h1' : (k.cwnd + 1).toNat = k.cwnd.toNat + 1 := by bv_omega
  rw [BitVec.toNat_mul, h1']
  apply Nat.mod_eq_of_lt
  calc (k.cwnd.toNat + 1) * k.mss.toNat ≤ 2^16 * 1500 := Nat.mul_le_mul (Nat.le_of_lt hc) h3
    _ < 2^32 := by decide

end KcpVerif.Kcp
