import KcpVerif.Props.C11
import KcpVerif.Lemmas.SessInClose
/-!
Listener-level lemmas for the composition `C11_isolation` (core Lean only, ANY session state `σ`):

* `listenerInput_obj`: the complete list of what one `Listener.packetInput` can do to, or create as,
  the session object at an index — unchanged / fed (`kcpInput`, only the session mapped at the
  source address, same or unreadable conversation id) / closed (`closeFx`, only the session mapped
  at the source address, other id, sn = 0) / fresh (`kcpInput (init conv) p`, appended);
* `WF2`: every open session object is the one its address is mapped to (the converse of `WF`), an
  invariant of every listener operation;
* listener events `LEv` (datagram, Accept, Close of a session, any application/scheduler operation
  on a session) and `cross_stall`: the object of a session at address `a` after a history is the
  object after the sub-history of events that concern `a` or that session.
-/
namespace KcpVerif.C11Iso
open KcpVerif KcpVerif.Gen KcpVerif.SessIn KcpVerif.Props

variable {σ : Type}

theorem lt_of_get {α : Type} {l : List α} {i : Nat} {x : α} (h : l[i]? = some x) : i < l.length := by
  rcases Nat.lt_or_ge i l.length with h1 | h1
  · exact h1
  · rw [List.getElem?_eq_none h1] at h; cases h

/-! ### what one step does to one object -/

theorem closeSess_obj (w : World σ) (l : Listener σ) (id j : Nat) (o' : Sess σ)
    (h : (closeSess w l id).objs[j]? = some o') :
    l.objs[j]? = some o' ∨
    (j = id ∧ ∃ o, l.objs[id]? = some o ∧ o.closed = false ∧ o' = { o with st := w.closeFx o.st, closed := true }) := by
  cases ho : l.objs[id]? with
  | none =>
    have e : closeSess w l id = l := by unfold closeSess; rw [ho]
    rw [e] at h; exact Or.inl h
  | some o =>
    cases hc : o.closed with
    | true =>
      have e : closeSess w l id = l := by unfold closeSess; rw [ho]; simp only [hc, if_true]
      rw [e] at h; exact Or.inl h
    | false =>
      rw [C11_closeSess_open w l id o ho hc] at h
      simp only [getElem?_modifyAt] at h
      by_cases hj : j = id
      · subst hj
        rw [if_pos rfl, ho] at h
        simp only [Option.map_some, Option.some.injEq] at h
        exact Or.inr ⟨rfl, o, rfl, hc, h.symm⟩
      · rw [if_neg hj] at h; exact Or.inl h

theorem closeSess_accepts (w : World σ) (l : Listener σ) (id : Nat) : (closeSess w l id).accepts = l.accepts := by
  unfold closeSess
  split
  · rfl
  · split <;> rfl

theorem tryCreate_obj (w : World σ) (l : Listener σ) (p : Bytes) (a : String) (h : Hdr) (old : Option Nat)
    (j : Nat) (o' : Sess σ) (hj : (tryCreate w l p a h old).l.objs[j]? = some o') :
    l.objs[j]? = some o' ∨
    (j = l.objs.length ∧ h.hasConv = true ∧ l.accepts.length < acceptBacklog ∧
      o' = { conv := h.conv, addr := a, st := w.kcpInput (w.init h.conv) p, closed := false }) := by
  cases hc : h.hasConv with
  | false => rw [C11_tryCreate_noconv w l p a h old hc] at hj; exact Or.inl hj
  | true =>
    rcases Nat.lt_or_ge l.accepts.length acceptBacklog with hr | hr
    · rw [C11_tryCreate_room w l p a h old hc hr] at hj
      simp only [] at hj
      rcases Nat.lt_trichotomy j l.objs.length with h1 | h1 | h1
      · rw [List.getElem?_append_left h1] at hj; exact Or.inl hj
      · subst h1
        rw [List.getElem?_append_right (Nat.le_refl _)] at hj
        simp only [Nat.sub_self, List.getElem?_cons_zero, Option.some.injEq] at hj
        exact Or.inr ⟨rfl, rfl, hr, hj.symm⟩
      · have := lt_of_get hj
        simp only [List.length_append, List.length_cons, List.length_nil] at this
        omega
    · rw [C11_tryCreate_full w l p a h old hc hr] at hj; exact Or.inl hj

/-- the possible fates of the object at index `j` when a datagram with plaintext `p` and parsed
header `h` from address `a` is processed, other than "unchanged" -/
def Fate (w : World σ) (l : Listener σ) (p : Bytes) (a : String) (h : Hdr) (j : Nat) (o' : Sess σ) : Prop :=
  (∃ o, l.objs[j]? = some o ∧ lookup l.table a = some j ∧ (h.hasConv = false ∨ h.conv = o.conv) ∧
      o' = { o with st := w.kcpInput o.st p }) ∨
  (∃ o, l.objs[j]? = some o ∧ lookup l.table a = some j ∧ o.closed = false ∧ h.hasConv = true ∧ h.conv ≠ o.conv ∧
      h.sn = 0 ∧ o' = { o with st := w.closeFx o.st, closed := true }) ∨
  (j = l.objs.length ∧ h.hasConv = true ∧ l.accepts.length < acceptBacklog ∧
      o' = { conv := h.conv, addr := a, st := w.kcpInput (w.init h.conv) p, closed := false })

theorem listenerInput_same_of_gate (w : World σ) (c : Cipher) (l : Listener σ) (data : Bytes) (a : String)
    (h : ∀ p, cryptGate c data = .ok p → p.length < minPacket ∨ parseHdr p = none) :
    (listenerInput w c l data a).l = l := by
  unfold listenerInput
  split
  · rfl
  · rfl
  · rename_i p hg
    rcases h p hg with h1 | h1
    · rw [if_pos h1]
    · split
      · rfl
      · rw [h1]

/-- **every object after one `Listener.packetInput`** is what it was, or was fed, or was closed, or is
the fresh session — and the last three only as `Fate` says -/
theorem listenerInput_obj (w : World σ) (c : Cipher) (l : Listener σ) (data : Bytes) (a : String) (j : Nat)
    (o' : Sess σ) (hj : (listenerInput w c l data a).l.objs[j]? = some o') :
    l.objs[j]? = some o' ∨
    ∃ p h, cryptGate c data = .ok p ∧ minPacket ≤ p.length ∧ parseHdr p = some h ∧ Fate w l p a h j o' := by
  by_cases hsame : ∀ p, cryptGate c data = .ok p → p.length < minPacket ∨ parseHdr p = none
  · rw [listenerInput_same_of_gate w c l data a hsame] at hj; exact Or.inl hj
  · have : ∃ p, cryptGate c data = .ok p ∧ minPacket ≤ p.length ∧ ∃ h, parseHdr p = some h := by
      apply Classical.byContradiction
      intro hn
      apply hsame
      intro p hg
      rcases Nat.lt_or_ge p.length minPacket with h1 | h1
      · exact Or.inl h1
      · right
        cases hp : parseHdr p with
        | none => rfl
        | some h => exact absurd ⟨p, hg, h1, h, hp⟩ hn
    obtain ⟨p, hg, hm, h, hp⟩ := this
    rw [C11_after_gate w c l data p a h hg hm hp] at hj
    cases hl : lookup l.table a with
    | none =>
      rw [hl] at hj
      simp only [] at hj
      rcases tryCreate_obj w l p a h none j o' hj with h1 | h1
      · exact Or.inl h1
      · exact Or.inr ⟨p, h, hg, hm, hp, Or.inr (Or.inr h1)⟩
    | some id =>
      rw [hl] at hj
      simp only [] at hj
      cases ho : l.objs[id]? with
      | none => rw [ho] at hj; exact Or.inl hj
      | some o =>
        rw [ho] at hj
        simp only [] at hj
        by_cases hr : (!h.hasConv || decide (h.conv = o.conv)) = true
        · rw [if_pos hr] at hj
          simp only [getElem?_modifyAt] at hj
          by_cases hji : j = id
          · subst hji
            rw [if_pos rfl, ho] at hj
            simp only [Option.map_some, Option.some.injEq] at hj
            refine Or.inr ⟨p, h, hg, hm, hp, Or.inl ⟨o, ho, hl, ?_, hj.symm⟩⟩
            cases hh : h.hasConv with
            | false => exact Or.inl rfl
            | true => rw [hh] at hr; right; simpa using hr
          · rw [if_neg hji] at hj; exact Or.inl hj
        · rw [if_neg hr] at hj
          by_cases hsn : h.sn ≠ 0
          · rw [if_pos hsn] at hj; exact Or.inl hj
          · rw [if_neg hsn] at hj
            have hsn0 : h.sn = 0 := Classical.byContradiction (fun x => hsn x)
            have hcv : h.hasConv = true ∧ h.conv ≠ o.conv := by
              cases hh : h.hasConv with
              | false => rw [hh] at hr; simp at hr
              | true => rw [hh] at hr; exact ⟨rfl, by simpa using hr⟩
            rcases tryCreate_obj w (closeSess w l id) p a h (some id) j o' hj with h1 | h1
            · rcases closeSess_obj w l id j o' h1 with h2 | ⟨h2, o2, ho2, hc2, ho'⟩
              · exact Or.inl h2
              · subst h2
                rw [ho] at ho2; cases ho2
                exact Or.inr ⟨p, h, hg, hm, hp, Or.inr (Or.inl ⟨o, ho, hl, hc2, hcv.1, hcv.2, hsn0, ho'⟩)⟩
            · rw [C11_closeSess_length, closeSess_accepts] at h1
              exact Or.inr ⟨p, h, hg, hm, hp, Or.inr (Or.inr h1)⟩

/-! ### the converse of `WF`: an open object is the one mapped at its address -/

def WF2 (l : Listener σ) : Prop :=
  ∀ id o, l.objs[id]? = some o → o.closed = false → lookup l.table o.addr = some id

theorem WF2_empty : WF2 (Listener.empty : Listener σ) := by
  intro id o h; simp [Listener.empty] at h

theorem WF2_closeSess (w : World σ) (l : Listener σ) (id : Nat) (h2 : WF2 l) : WF2 (closeSess w l id) := by
  cases ho : l.objs[id]? with
  | none =>
    have e : closeSess w l id = l := by unfold closeSess; rw [ho]
    rw [e]; exact h2
  | some o =>
    cases hc : o.closed with
    | true =>
      have e : closeSess w l id = l := by unfold closeSess; rw [ho]; simp only [hc, if_true]
      rw [e]; exact h2
    | false =>
      rw [C11_closeSess_open w l id o ho hc]
      intro j oj hj hjc
      simp only [getElem?_modifyAt] at hj
      by_cases hji : j = id
      · subst hji
        rw [if_pos rfl, ho] at hj
        simp only [Option.map_some, Option.some.injEq] at hj
        rw [← hj] at hjc; cases hjc
      · rw [if_neg hji] at hj
        have h3 := h2 j oj hj hjc
        have hne : oj.addr ≠ o.addr := by
          intro e
          rw [e, h2 id o ho hc] at h3
          cases h3; exact hji rfl
        show lookup (unmap l.table o.addr) oj.addr = some j
        rw [lookup_unmap, if_neg hne]; exact h3

theorem WF2_tryCreate (w : World σ) (l : Listener σ) (p : Bytes) (a : String) (h : Hdr) (old : Option Nat)
    (hn : lookup l.table a = none) (h2 : WF2 l) : WF2 (tryCreate w l p a h old).l := by
  cases hc : h.hasConv with
  | false => rw [C11_tryCreate_noconv w l p a h old hc]; exact h2
  | true =>
    rcases Nat.lt_or_ge l.accepts.length acceptBacklog with hr | hr
    · rw [C11_tryCreate_room w l p a h old hc hr]
      intro j oj hj hjc
      simp only [] at hj ⊢
      rcases Nat.lt_trichotomy j l.objs.length with h1 | h1 | h1
      · rw [List.getElem?_append_left h1] at hj
        have h3 := h2 j oj hj hjc
        have hne : oj.addr ≠ a := by intro e; rw [e, hn] at h3; cases h3
        have hne' : ¬ a = oj.addr := fun e => hne e.symm
        simp only [lookup, hne', if_false, lookup_unmap, hne]
        exact h3
      · subst h1
        rw [List.getElem?_append_right (Nat.le_refl _)] at hj
        simp only [Nat.sub_self, List.getElem?_cons_zero, Option.some.injEq] at hj
        rw [← hj]
        simp only [lookup, if_true]
      · have := lt_of_get hj
        simp only [List.length_append, List.length_cons, List.length_nil] at this
        omega
    · rw [C11_tryCreate_full w l p a h old hc hr]; exact h2

theorem WF2_modify (l : Listener σ) (id : Nat) (g : Sess σ → Sess σ)
    (hg : ∀ o, (g o).addr = o.addr ∧ (g o).closed = o.closed) (h2 : WF2 l) :
    WF2 { l with objs := modifyAt l.objs id g } := by
  intro j oj hj hjc
  simp only [getElem?_modifyAt] at hj
  by_cases hji : j = id
  · subst hji
    rw [if_pos rfl] at hj
    cases ho : l.objs[j]? with
    | none => rw [ho] at hj; cases hj
    | some o =>
      rw [ho] at hj
      simp only [Option.map_some, Option.some.injEq] at hj
      rw [← hj] at hjc ⊢
      rw [(hg o).1]
      exact h2 j o ho ((hg o).2.symm.trans hjc)
  · rw [if_neg hji] at hj
    exact h2 j oj hj hjc

theorem closeSess_unmapped (w : World σ) (l : Listener σ) (id : Nat) (a : String) (hwf : WF l)
    (hl : lookup l.table a = some id) : lookup (closeSess w l id).table a = none := by
  obtain ⟨o, ho, hoa, hoc⟩ := hwf a id hl
  rw [C11_closeSess_open w l id o ho hoc]
  show lookup (unmap l.table o.addr) a = none
  rw [lookup_unmap, if_pos hoa.symm]

theorem WF2_listenerInput (w : World σ) (c : Cipher) (l : Listener σ) (data : Bytes) (a : String)
    (hwf : WF l) (h2 : WF2 l) : WF2 (listenerInput w c l data a).l := by
  unfold listenerInput
  split
  · exact h2
  · exact h2
  · split
    · exact h2
    · split
      · exact h2
      · split
        · rename_i hl
          exact WF2_tryCreate w l _ a _ none hl h2
        · rename_i id hl
          split
          · exact h2
          · split
            · exact WF2_modify l _ _ (fun o => ⟨rfl, rfl⟩) h2
            · split
              · exact h2
              · exact WF2_tryCreate w _ _ a _ _ (closeSess_unmapped w l id a hwf hl) (WF2_closeSess w l id h2)

/-! ### listener events -/

/-- what happens at a listener: a datagram (any world = any clock, any cipher, any bytes, any source
address), an Accept, the application closing session `id`, and any operation `f` of the application
or the scheduler on the state of session `id` (Read, Write, update, setters, …) -/
inductive LEv (σ : Type) where
  | input (w : World σ) (c : Cipher) (data : Bytes) (a : String)
  | accept
  | close (w : World σ) (id : Nat)
  | app (id : Nat) (f : σ → σ)

def appSess (l : Listener σ) (id : Nat) (f : σ → σ) : Listener σ :=
  { l with objs := modifyAt l.objs id (fun o => { o with st := f o.st }) }

def lstep (l : Listener σ) : LEv σ → Listener σ
  | .input w c data a => (listenerInput w c l data a).l
  | .accept => (accept l).l
  | .close w id => userClose w l id
  | .app id f => appSess l id f

def lrun (l : Listener σ) (evs : List (LEv σ)) : Listener σ := evs.foldl lstep l

/-- the events that concern the session object `id` created for address `a`: datagrams whose source
is `a`, and Close / application operations on that very session -/
def concerns (a : String) (id : Nat) : LEv σ → Bool
  | .input _ _ _ x => decide (x = a)
  | .accept => false
  | .close _ i => decide (i = id)
  | .app i _ => decide (i = id)

theorem accept_objs (l : Listener σ) : (accept l).l.objs = l.objs ∧ (accept l).l.table = l.table := by
  unfold accept
  split <;> exact ⟨rfl, rfl⟩

theorem WF2_accept (l : Listener σ) (h : WF2 l) : WF2 (accept l).l := by
  intro id o ho hc
  rw [(accept_objs l).2]
  rw [(accept_objs l).1] at ho
  exact h id o ho hc

theorem WF_lstep (l : Listener σ) (e : LEv σ) (h : WF l) : WF (lstep l e) := by
  cases e with
  | input w c data a => exact WF_listenerInput w c l data a h
  | accept => exact WF_accept l h
  | close w id => exact WF_userClose w l id h
  | app id f => exact WF_modify l id _ (fun o => ⟨rfl, rfl⟩) h

theorem WF2_lstep (l : Listener σ) (e : LEv σ) (h : WF l) (h2 : WF2 l) : WF2 (lstep l e) := by
  cases e with
  | input w c data a => exact WF2_listenerInput w c l data a h h2
  | accept => exact WF2_accept l h2
  | close w id => exact WF2_closeSess w l id h2
  | app id f => exact WF2_modify l id _ (fun o => ⟨rfl, rfl⟩) h2

theorem WF_lrun (evs : List (LEv σ)) : ∀ l : Listener σ, WF l → WF2 l → WF (lrun l evs) ∧ WF2 (lrun l evs) := by
  induction evs with
  | nil => intro l h h2; exact ⟨h, h2⟩
  | cons e rest ih => intro l h h2; exact ih _ (WF_lstep l e h) (WF2_lstep l e h h2)

/-! ### no cross stall -/

/-- a datagram from `a` when `a` is NOT mapped to `id`: afterwards it still is not -/
theorem input_not_mapped (w : World σ) (c : Cipher) (l : Listener σ) (data : Bytes) (a : String) (id : Nat)
    (hid : id < l.objs.length) (hl : lookup l.table a ≠ some id) :
    lookup (listenerInput w c l data a).l.table a ≠ some id := by
  have hT : ∀ (l' : Listener σ) p h old, l'.objs.length = l.objs.length → lookup l'.table a ≠ some id →
      lookup (tryCreate w l' p a h old).l.table a ≠ some id := by
    intro l' p h old hlen hl'
    unfold tryCreate
    split
    · exact hl'
    · split
      · exact hl'
      · simp only [lookup, if_true]
        intro e
        cases e
        omega
  unfold listenerInput
  split
  · exact hl
  · exact hl
  · split
    · exact hl
    · split
      · exact hl
      · split
        · exact hT l _ _ _ rfl hl
        · rename_i id' hl'
          split
          · exact hl
          · split
            · exact hl
            · split
              · exact hl
              · apply hT _ _ _ _ (C11_closeSess_length w l id')
                unfold closeSess
                split
                · exact hl
                · split
                  · exact hl
                  · show lookup (unmap l.table _) a ≠ some id
                    rw [lookup_unmap]
                    split
                    · intro e; cases e
                    · exact hl

/-- a datagram from `a` when `a` IS mapped to `id`: the object afterwards is a function of the object
before and the datagram only, and so is whether `a` is still mapped to `id` -/
theorem input_mapped (w : World σ) (c : Cipher) (l1 l2 : Listener σ) (data : Bytes) (a : String) (id : Nat)
    (o : Sess σ) (hw1 : WF l1) (hw2 : WF l2) (h1 : l1.objs[id]? = some o) (h2 : l2.objs[id]? = some o)
    (hl1 : lookup l1.table a = some id) (hl2 : lookup l2.table a = some id) :
    (listenerInput w c l1 data a).l.objs[id]? = (listenerInput w c l2 data a).l.objs[id]? ∧
    (lookup (listenerInput w c l1 data a).l.table a = some id ↔
      lookup (listenerInput w c l2 data a).l.table a = some id) := by
  by_cases hsame : ∀ p, cryptGate c data = .ok p → p.length < minPacket ∨ parseHdr p = none
  · rw [listenerInput_same_of_gate w c l1 data a hsame, listenerInput_same_of_gate w c l2 data a hsame]
    exact ⟨h1.trans h2.symm, ⟨fun _ => hl2, fun _ => hl1⟩⟩
  · have : ∃ p, cryptGate c data = .ok p ∧ minPacket ≤ p.length ∧ ∃ h, parseHdr p = some h := by
      apply Classical.byContradiction
      intro hn
      apply hsame
      intro p hg
      rcases Nat.lt_or_ge p.length minPacket with h1 | h1
      · exact Or.inl h1
      · right
        cases hp : parseHdr p with
        | none => rfl
        | some h => exact absurd ⟨p, hg, h1, h, hp⟩ hn
    obtain ⟨p, hg, hm, h, hp⟩ := this
    have hoc : o.closed = false := by
      obtain ⟨o', ho', _, hc⟩ := hw1 a id hl1
      rw [h1] at ho'; cases ho'; exact hc
    have hoa : o.addr = a := by
      obtain ⟨o', ho', ha, _⟩ := hw1 a id hl1
      rw [h1] at ho'; cases ho'; exact ha
    by_cases hr : h.hasConv = false ∨ h.conv = o.conv
    · have r1 := C11_route_same_conv w c l1 data p a h id o hg hm hp hl1 h1 hr
      have r2 := C11_route_same_conv w c l2 data p a h id o hg hm hp hl2 h2 hr
      refine ⟨r1.2.2.2.trans r2.2.2.2.symm, ?_⟩
      rw [r1.2.1, r2.2.1]
      exact ⟨fun _ => hl2, fun _ => hl1⟩
    · have hc : h.hasConv = true := by
        cases hh : h.hasConv with
        | false => exact absurd (Or.inl hh) hr
        | true => rfl
      have hne : h.conv ≠ o.conv := fun e => hr (Or.inr e)
      by_cases hsn : h.sn ≠ 0
      · have r1 := (C11_other_conv_ignored w c l1 data p a h id o hg hm hp hl1 h1 hc hne hsn).1
        have r2 := (C11_other_conv_ignored w c l2 data p a h id o hg hm hp hl2 h2 hc hne hsn).1
        rw [r1, r2]
        exact ⟨h1.trans h2.symm, ⟨fun _ => hl2, fun _ => hl1⟩⟩
      · have hsn0 : h.sn = 0 := Classical.byContradiction (fun x => hsn x)
        have key : ∀ l : Listener σ, WF l → l.objs[id]? = some o → lookup l.table a = some id →
            (listenerInput w c l data a).l.objs[id]? = some { o with st := w.closeFx o.st, closed := true } ∧
            lookup (listenerInput w c l data a).l.table a ≠ some id := by
          intro l hw ho hl
          have hid := lt_of_get ho
          rcases Nat.lt_or_ge l.accepts.length acceptBacklog with hroom | hfull
          · have r := C11_reset_replaces w c l data p a h id o hw hg hm hp hl ho hc hne hsn0 hroom
            refine ⟨r.2.1, ?_⟩
            rw [r.2.2.2.1]
            intro e; cases e; omega
          · have r := C11_reset_backlog_full w c l data p a h id o hw hg hm hp hl ho hc hne hsn0 hfull
            refine ⟨r.2.1, ?_⟩
            rw [r.2.2.2.1]
            intro e; cases e
        obtain ⟨k1, k2⟩ := key l1 hw1 h1 hl1
        obtain ⟨k3, k4⟩ := key l2 hw2 h2 hl2
        exact ⟨k1.trans k3.symm, ⟨fun e => absurd e k2, fun e => absurd e k4⟩⟩

/-- the relation between the full run and the run of the events that concern `(a, id)` -/
structure Rel (a : String) (id : Nat) (l1 l2 : Listener σ) : Prop where
  wf1  : WF l1
  wf21 : WF2 l1
  wf2  : WF l2
  obj  : l1.objs[id]? = l2.objs[id]?
  own  : ∃ o, l1.objs[id]? = some o ∧ o.addr = a
  map  : lookup l1.table a = some id ↔ lookup l2.table a = some id

theorem closeSess_table_other (w : World σ) (l : Listener σ) (i id : Nat) (a : String) (h2 : WF2 l) (hi : i ≠ id) :
    lookup (closeSess w l i).table a = some id ↔ lookup l.table a = some id := by
  cases ho : l.objs[i]? with
  | none =>
    have e : closeSess w l i = l := by unfold closeSess; rw [ho]
    rw [e]
  | some o =>
    cases hc : o.closed with
    | true =>
      have e : closeSess w l i = l := by unfold closeSess; rw [ho]; simp only [hc, if_true]
      rw [e]
    | false =>
      rw [C11_closeSess_open w l i o ho hc]
      show lookup (unmap l.table o.addr) a = some id ↔ _
      rw [lookup_unmap]
      by_cases ha : a = o.addr
      · rw [if_pos ha]
        have := h2 i o ho hc
        rw [← ha] at this
        rw [this]
        constructor
        · intro e; cases e
        · intro e; cases e; exact absurd rfl hi
      · rw [if_neg ha]

/-- an event that does not concern `(a, id)` leaves the relation -/
theorem rel_drop {a : String} {id : Nat} {l1 l2 : Listener σ} (h : Rel a id l1 l2) (e : LEv σ)
    (hc : concerns a id e = false) : Rel a id (lstep l1 e) l2 := by
  obtain ⟨o, ho, hoa⟩ := h.own
  have hid := lt_of_get ho
  have w1 := WF_lstep l1 e h.wf1
  have w2 := WF2_lstep l1 e h.wf1 h.wf21
  cases e with
  | input w c data x =>
    have hx : x ≠ a := by simpa [concerns] using hc
    have hne : lookup l1.table x ≠ some id := by
      intro hl
      obtain ⟨o', ho', hxa, _⟩ := h.wf1 x id hl
      rw [ho] at ho'; cases ho'
      exact hx (hxa.symm.trans hoa)
    have hobj : (listenerInput w c l1 data x).l.objs[id]? = l1.objs[id]? := C11_frame_objects w c l1 data x id hid hne
    have htab := C11_frame_table w c l1 data x a h.wf1 (fun e => hx e.symm)
    exact ⟨w1, w2, h.wf2, hobj.trans h.obj, ⟨o, hobj.trans ho, hoa⟩, by show lookup (listenerInput w c l1 data x).l.table a = _ ↔ _; rw [htab]; exact h.map⟩
  | accept =>
    have hobj : (accept l1).l.objs[id]? = l1.objs[id]? := by rw [(accept_objs l1).1]
    exact ⟨w1, w2, h.wf2, hobj.trans h.obj, ⟨o, hobj.trans ho, hoa⟩,
      by show lookup (accept l1).l.table a = _ ↔ _; rw [(accept_objs l1).2]; exact h.map⟩
  | close w i =>
    have hi : i ≠ id := by simpa [concerns] using hc
    have hobj : (closeSess w l1 i).objs[id]? = l1.objs[id]? := C11_closeSess_objs w l1 i id (fun e => hi e.symm)
    exact ⟨w1, w2, h.wf2, hobj.trans h.obj, ⟨o, hobj.trans ho, hoa⟩,
      (closeSess_table_other w l1 i id a h.wf21 hi).trans h.map⟩
  | app i f =>
    have hi : i ≠ id := by simpa [concerns] using hc
    have hobj : (appSess l1 i f).objs[id]? = l1.objs[id]? := by
      show (modifyAt l1.objs i _)[id]? = _
      rw [getElem?_modifyAt, if_neg (fun e => hi e.symm)]
    exact ⟨w1, w2, h.wf2, hobj.trans h.obj, ⟨o, hobj.trans ho, hoa⟩, h.map⟩

/-- an event that concerns `(a, id)`, performed in both runs, keeps the relation -/
theorem rel_keep {a : String} {id : Nat} {l1 l2 : Listener σ} (h : Rel a id l1 l2) (e : LEv σ)
    (hc : concerns a id e = true) : Rel a id (lstep l1 e) (lstep l2 e) := by
  obtain ⟨o, ho, hoa⟩ := h.own
  have ho2 : l2.objs[id]? = some o := h.obj.symm.trans ho
  have hid := lt_of_get ho
  have hid2 := lt_of_get ho2
  have w1 := WF_lstep l1 e h.wf1
  have w2 := WF2_lstep l1 e h.wf1 h.wf21
  have w3 := WF_lstep l2 e h.wf2
  cases e with
  | input w c data x =>
    have hx : x = a := by simpa [concerns] using hc
    subst hx
    by_cases hl : lookup l1.table x = some id
    · have hl2 := h.map.mp hl
      obtain ⟨r1, r2⟩ := input_mapped w c l1 l2 data x id o h.wf1 h.wf2 ho ho2 hl hl2
      refine ⟨w1, w2, w3, r1, ?_, r2⟩
      cases hq : (listenerInput w c l1 data x).l.objs[id]? with
      | none =>
        have := C11_accept_step w c l1 data x
        exfalso
        have hlen : l1.objs.length ≤ (listenerInput w c l1 data x).l.objs.length := by
          cases hcr : isCreate (listenerInput w c l1 data x).dec with
          | true => have := (this.1 hcr).2.1; omega
          | false => have := (this.2 hcr).2; omega
        rw [List.getElem?_eq_none_iff] at hq
        omega
      | some o' =>
        refine ⟨o', hq, ?_⟩
        rcases listenerInput_obj w c l1 data x id o' hq with h3 | ⟨p, hh, _, _, _, hf⟩
        · rw [ho] at h3; cases h3; exact hoa
        · rcases hf with ⟨o3, h3, _, _, e3⟩ | ⟨o3, h3, _, _, _, _, _, e3⟩ | ⟨h3, _⟩
          · rw [ho] at h3; cases h3; rw [e3]; exact hoa
          · rw [ho] at h3; cases h3; rw [e3]; exact hoa
          · omega
    · have hl2 : lookup l2.table x ≠ some id := fun e => hl (h.map.mpr e)
      have o1 := C11_frame_objects w c l1 data x id hid hl
      have o2 := C11_frame_objects w c l2 data x id hid2 hl2
      have t1 := input_not_mapped w c l1 data x id hid hl
      have t2 := input_not_mapped w c l2 data x id hid2 hl2
      exact ⟨w1, w2, w3, (o1.trans h.obj).trans o2.symm, ⟨o, o1.trans ho, hoa⟩,
        ⟨fun e => absurd e t1, fun e => absurd e t2⟩⟩
  | accept => simp [concerns] at hc
  | close w i =>
    have hi : i = id := by simpa [concerns] using hc
    subst hi
    show Rel a i (closeSess w l1 i) (closeSess w l2 i)
    cases hcl : o.closed with
    | true =>
      have e1 : closeSess w l1 i = l1 := by unfold closeSess; rw [ho]; simp only [hcl, if_true]
      have e2 : closeSess w l2 i = l2 := by unfold closeSess; rw [ho2]; simp only [hcl, if_true]
      rw [e1, e2]; exact h
    | false =>
      have e1 := C11_closeSess_open w l1 i o ho hcl
      have e2 := C11_closeSess_open w l2 i o ho2 hcl
      have q1 : (closeSess w l1 i).objs[i]? = some { o with st := w.closeFx o.st, closed := true } := by
        rw [e1]; simp only [getElem?_modifyAt, if_true, ho, Option.map_some]
      have q2 : (closeSess w l2 i).objs[i]? = some { o with st := w.closeFx o.st, closed := true } := by
        rw [e2]; simp only [getElem?_modifyAt, if_true, ho2, Option.map_some]
      have t1 : lookup (closeSess w l1 i).table a = none := by
        rw [e1]; show lookup (unmap l1.table o.addr) a = none
        rw [lookup_unmap, if_pos hoa.symm]
      have t2 : lookup (closeSess w l2 i).table a = none := by
        rw [e2]; show lookup (unmap l2.table o.addr) a = none
        rw [lookup_unmap, if_pos hoa.symm]
      refine ⟨w1, w2, w3, q1.trans q2.symm, ⟨_, q1, hoa⟩, ?_⟩
      rw [t1, t2]
  | app i f =>
    have hi : i = id := by simpa [concerns] using hc
    subst hi
    have q1 : (appSess l1 i f).objs[i]? = some { o with st := f o.st } := by
      show (modifyAt l1.objs i _)[i]? = _
      rw [getElem?_modifyAt, if_pos rfl, ho]; rfl
    have q2 : (appSess l2 i f).objs[i]? = some { o with st := f o.st } := by
      show (modifyAt l2.objs i _)[i]? = _
      rw [getElem?_modifyAt, if_pos rfl, ho2]; rfl
    exact ⟨w1, w2, w3, q1.trans q2.symm, ⟨_, q1, hoa⟩, h.map⟩

theorem rel_run {a : String} {id : Nat} (evs : List (LEv σ)) : ∀ l1 l2 : Listener σ, Rel a id l1 l2 →
    Rel a id (lrun l1 evs) (lrun l2 (evs.filter (concerns a id))) := by
  induction evs with
  | nil => intro l1 l2 h; exact h
  | cons e rest ih =>
    intro l1 l2 h
    cases hc : concerns a id e with
    | true =>
      rw [List.filter_cons_of_pos hc]
      exact ih _ _ (rel_keep h e hc)
    | false =>
      rw [List.filter_cons_of_neg (by simp [hc])]
      exact ih _ _ (rel_drop h e hc)

/-! ### `Listener.Close` -/

theorem WF_closeAll' (w : World σ) (ids : List Nat) : ∀ l : Listener σ, WF l → WF2 l →
    WF (SessIn.closeAll w l ids) ∧ WF2 (SessIn.closeAll w l ids) := by
  induction ids with
  | nil => intro l h h2; exact ⟨h, h2⟩
  | cons id rest ih => intro l h h2; exact ih _ (WF_closeSess w l id h) (WF2_closeSess w l id h2)

/-- the mapping of a session outside `ids` is not touched by `closeAll` -/
theorem closeAll_lookup (w : World σ) (ids : List Nat) : ∀ (l : Listener σ), WF2 l → ∀ (id : Nat) (a : String),
    id ∉ ids → (lookup (SessIn.closeAll w l ids).table a = some id ↔ lookup l.table a = some id) := by
  induction ids with
  | nil => intro l _ id a _; exact Iff.rfl
  | cons i rest ih =>
    intro l h2 id a hid
    have h1 : i ≠ id := fun e => hid (by rw [← e]; exact List.mem_cons_self ..)
    have h3 : id ∉ rest := fun e => hid (List.mem_cons_of_mem _ e)
    show lookup (SessIn.closeAll w (closeSess w l i) rest).table a = some id ↔ _
    exact (ih _ (WF2_closeSess w l i h2) id a h3).trans (closeSess_table_other w l i id a h2 h1)

/-- a closed session object stays closed -/
theorem closeSess_keeps_closed (w : World σ) (l : Listener σ) (i j : Nat) (o : Sess σ)
    (ho : l.objs[j]? = some o) (hc : o.closed = true) :
    ∃ o', (closeSess w l i).objs[j]? = some o' ∧ o'.closed = true := by
  have hlt : j < (closeSess w l i).objs.length := by rw [C11_closeSess_length]; exact lt_of_get ho
  refine ⟨(closeSess w l i).objs[j], List.getElem?_eq_getElem hlt, ?_⟩
  rcases closeSess_obj w l i j _ (List.getElem?_eq_getElem hlt) with h1 | ⟨_, o2, _, _, e⟩
  · rw [ho] at h1; cases h1; exact hc
  · rw [e]

theorem closeAll_keeps_closed (w : World σ) (ids : List Nat) : ∀ (l : Listener σ) (j : Nat) (o : Sess σ),
    l.objs[j]? = some o → o.closed = true → ∃ o', (SessIn.closeAll w l ids).objs[j]? = some o' ∧ o'.closed = true := by
  induction ids with
  | nil => intro l j o ho hc; exact ⟨o, ho, hc⟩
  | cons i rest ih =>
    intro l j o ho hc
    obtain ⟨o1, h1, c1⟩ := closeSess_keeps_closed w l i j o ho hc
    exact ih _ j o1 h1 c1

/-- every session named in `ids` is closed afterwards -/
theorem closeAll_closed (w : World σ) (ids : List Nat) : ∀ (l : Listener σ) (j : Nat), j ∈ ids → j < l.objs.length →
    ∃ o', (SessIn.closeAll w l ids).objs[j]? = some o' ∧ o'.closed = true := by
  induction ids with
  | nil => intro l j hj; cases hj
  | cons i rest ih =>
    intro l j hj hlt
    show ∃ o', (SessIn.closeAll w (closeSess w l i) rest).objs[j]? = some o' ∧ _
    have hlt' : j < (closeSess w l i).objs.length := by rw [C11_closeSess_length]; exact hlt
    by_cases hji : j = i
    · subst hji
      -- closed by this very step (or before)
      have : ∃ o1, (closeSess w l j).objs[j]? = some o1 ∧ o1.closed = true := by
        have ho : l.objs[j]? = some l.objs[j] := List.getElem?_eq_getElem hlt
        generalize l.objs[j] = o at ho
        cases hc : o.closed with
        | true =>
          have e : closeSess w l j = l := by unfold closeSess; rw [ho]; simp only [hc, if_true]
          rw [e]; exact ⟨o, ho, hc⟩
        | false =>
          rw [C11_closeSess_open w l j o ho hc]
          exact ⟨{ o with st := w.closeFx o.st, closed := true },
            by simp only [getElem?_modifyAt, if_true, ho, Option.map_some], rfl⟩
      obtain ⟨o1, h1, c1⟩ := this
      exact closeAll_keeps_closed w rest _ j o1 h1 c1
    · have hj' : j ∈ rest := by
        rcases List.mem_cons.mp hj with h | h
        · exact absurd h hji
        · exact h
      exact ih _ j hj' hlt'

end KcpVerif.C11Iso
