/-
The list-based Gauss–Jordan inversion of `Model/RS` (`invert`, klauspost's `matrix.Invert`) is
correct over the field `GF`:

* `invert_sound`     `invert M = some M'` for an `n × n` list matrix ⇒ `M'` is `n × n` and `M' · M = 1`;
* `invert_complete`  `det M ≠ 0` ⇒ `invert M` succeeds (never `errSingular`).

Proof.  The rows of the working matrix `[A | B]` stay in the linear subspace `{(a | b) : a = b · M}`
(it contains the initial rows `(M_i | e_i)` and is closed under the row operations); the reduced rows
have a unit vector as left part; so the final right part `B` satisfies `B · M = 1`.  For completeness
the invariant is "only `x = 0` is annihilated by the left parts of all rows" (true initially iff `M`
has a trivial kernel, preserved by the invertible row operations); if no pivot is found in column `c`
the vector `x = e_c + Σ_{i<c} done_i[c] · e_i` is annihilated by every row, contradiction.
-/
import KcpVerif.Lemmas.RSRows
import Mathlib.LinearAlgebra.Matrix.Nondegenerate

namespace KcpVerif.Lemmas.RSGauss
open KcpVerif.RS KcpVerif.GF256 KcpVerif.Lemmas.RSRows
open KcpVerif.Lemmas.GF256 (GF)

/-! ### pivot search -/

theorem splitPivot_some {c : Nat} {acc rest b a : Matrix} {p : Row}
    (h : splitPivot c acc rest = some (b, p, a)) :
    acc.reverse ++ rest = b ++ p :: a ∧ ent p c ≠ 0 := by
  induction rest generalizing acc with
  | nil => simp [splitPivot] at h
  | cons r rs ih =>
    simp only [splitPivot] at h
    split at h
    · rename_i hr
      simp only [Option.some.injEq, Prod.mk.injEq] at h
      obtain ⟨rfl, rfl, rfl⟩ := h
      refine ⟨rfl, ?_⟩
      intro h0
      simp only [bne_iff_ne, ne_eq] at hr
      exact hr h0
    · have := ih h
      rw [List.reverse_cons, List.append_assoc] at this
      exact this

theorem splitPivot_none {c : Nat} {acc rest : Matrix} (h : splitPivot c acc rest = none) :
    ∀ r ∈ rest, ent r c = 0 := by
  induction rest generalizing acc with
  | nil => intro r hr; cases hr
  | cons r rs ih =>
    simp only [splitPivot] at h
    split at h
    · cases h
    · rename_i hr
      intro r' hr'
      rcases List.mem_cons.1 hr' with rfl | hm
      · simp only [bne_iff_ne, ne_eq, Decidable.not_not] at hr
        exact hr
      · exact ih h r' hm

/-! ### the invariant -/

/-- structural invariant of `gaussJordan` at column `c`, rows of width `w` -/
structure GJInv (w c : Nat) (done rest : Matrix) : Prop where
  len_done : ∀ r ∈ done, r.length = w
  len_rest : ∀ r ∈ rest, r.length = w
  cnt : done.length = c
  diag : ∀ i, i < c → ∀ j, j < c → ent (done.getD i []) j = if i = j then 1 else 0
  zero : ∀ r ∈ rest, ∀ j, j < c → ent r j = 0

/-- the normalised pivot row -/
def pivRow (c : Nat) (p : Row) : Row := scaleRow (inv (p.getD c 0)) p

theorem ent_pivRow (c : Nat) (p : Row) (j : Nat) : ent (pivRow c p) j = (ent p c)⁻¹ * ent p j :=
  ent_scaleRow _ _ _

theorem ent_pivRow_self {c : Nat} {p : Row} (h : ent p c ≠ 0) : ent (pivRow c p) c = 1 := by
  rw [ent_pivRow, inv_mul_cancel₀ h]

theorem getD_done' {c : Nat} {done : Matrix} (hc : done.length = c) (f : Row → Row) (piv : Row)
    (i : Nat) (hi : i < c + 1) :
    (done.map f ++ [piv]).getD i [] = if i < c then f (done.getD i []) else piv := by
  rw [List.getD_eq_getElem?_getD, List.getD_eq_getElem?_getD]
  by_cases h : i < c
  · rw [if_pos h, List.getElem?_append_left (by simpa [hc] using h), List.getElem?_map,
      List.getElem?_eq_getElem (hc ▸ h)]
    rfl
  · have : i = c := by omega
    subst this
    rw [if_neg h, List.getElem?_append_right (by simp [hc])]
    simp [hc]

theorem step_inv {w c : Nat} {done rest b a : Matrix} {p : Row} (hI : GJInv w c done rest)
    (hsp : splitPivot c [] rest = some (b, p, a)) :
    GJInv w (c + 1) (done.map (elim c (pivRow c p)) ++ [pivRow c p])
      ((b ++ a).map (elim c (pivRow c p))) := by
  obtain ⟨hsplit, hpc⟩ := splitPivot_some hsp
  simp only [List.reverse_nil, List.nil_append] at hsplit
  have hp_mem : p ∈ rest := by rw [hsplit]; simp
  have hba_mem : ∀ r ∈ b ++ a, r ∈ rest := by
    intro r hr; rw [hsplit]
    rcases List.mem_append.1 hr with h | h
    · exact List.mem_append_left _ h
    · exact List.mem_append_right _ (List.mem_cons_of_mem _ h)
  have hplen : (pivRow c p).length = w := by
    unfold pivRow; rw [length_scaleRow]; exact hI.len_rest p hp_mem
  have hpiv_lt : ∀ j, j < c → ent (pivRow c p) j = 0 := by
    intro j hj; rw [ent_pivRow, hI.zero p hp_mem j hj, mul_zero]
  have hpiv_c : ent (pivRow c p) c = 1 := ent_pivRow_self hpc
  -- an eliminated row
  have helim : ∀ r, r.length = w → ∀ j, j < c + 1 →
      ent (elim c (pivRow c p) r) j = if j = c then 0 else ent r j := by
    intro r hr j hj
    rw [ent_elim (by rw [hr, hplen])]
    by_cases hjc : j = c
    · subst hjc; rw [if_pos rfl, hpiv_c, mul_one]; exact GF.add_self _
    · rw [if_neg hjc, hpiv_lt j (by omega), mul_zero, add_zero]
  refine ⟨?_, ?_, ?_, ?_, ?_⟩
  · intro r hr
    rcases List.mem_append.1 hr with h | h
    · obtain ⟨r0, hr0, rfl⟩ := List.mem_map.1 h
      rw [length_elim (by rw [hI.len_done r0 hr0, hplen])]; exact hI.len_done r0 hr0
    · rw [List.mem_singleton.1 h]; exact hplen
  · intro r hr
    obtain ⟨r0, hr0, rfl⟩ := List.mem_map.1 hr
    have := hI.len_rest r0 (hba_mem r0 hr0)
    rw [length_elim (by rw [this, hplen])]; exact this
  · simp [hI.cnt]
  · intro i hi j hj
    rw [getD_done' hI.cnt _ _ i hi]
    by_cases hic : i < c
    · rw [if_pos hic]
      have hmem : done.getD i [] ∈ done := by
        rw [List.getD_eq_getElem?_getD, List.getElem?_eq_getElem (by rw [hI.cnt]; exact hic)]
        exact List.getElem_mem _
      rw [helim _ (hI.len_done _ hmem) j hj]
      by_cases hjc : j = c
      · rw [if_pos hjc, if_neg (by omega)]
      · rw [if_neg hjc]; exact hI.diag i hic j (by omega)
    · have hic' : i = c := by omega
      rw [if_neg hic]
      by_cases hjc : j = c
      · rw [hjc, hpiv_c, if_pos hic']
      · rw [hpiv_lt j (by omega), if_neg (by omega)]
  · intro r hr j hj
    obtain ⟨r0, hr0, rfl⟩ := List.mem_map.1 hr
    have hr0' := hba_mem r0 hr0
    rw [helim _ (hI.len_rest r0 hr0') j hj]
    by_cases hjc : j = c
    · rw [if_pos hjc]
    · rw [if_neg hjc]; exact hI.zero r0 hr0' j (by omega)

/-- a property of rows of width `w` closed under the row operations is kept by a step -/
theorem step_closed {w c : Nat} {done rest b a : Matrix} {p : Row} (hI : GJInv w c done rest)
    (hsp : splitPivot c [] rest = some (b, p, a)) {P : Row → Prop}
    (hPs : ∀ x r, r.length = w → P r → P (scaleRow x r))
    (hPa : ∀ r s, r.length = w → s.length = w → P r → P s → P (addRow r s))
    (hP : ∀ r ∈ done ++ rest, P r) :
    ∀ r ∈ (done.map (elim c (pivRow c p)) ++ [pivRow c p]) ++ (b ++ a).map (elim c (pivRow c p)),
      P r := by
  obtain ⟨hsplit, _⟩ := splitPivot_some hsp
  simp only [List.reverse_nil, List.nil_append] at hsplit
  have hp_mem : p ∈ rest := by rw [hsplit]; simp
  have hba_mem : ∀ r ∈ b ++ a, r ∈ rest := by
    intro r hr; rw [hsplit]
    rcases List.mem_append.1 hr with h | h
    · exact List.mem_append_left _ h
    · exact List.mem_append_right _ (List.mem_cons_of_mem _ h)
  have hplen : (pivRow c p).length = w := by
    unfold pivRow; rw [length_scaleRow]; exact hI.len_rest p hp_mem
  have hPpiv : P (pivRow c p) :=
    hPs _ _ (hI.len_rest p hp_mem) (hP p (List.mem_append_right _ hp_mem))
  have hPelim : ∀ r, r.length = w → P r → P (elim c (pivRow c p) r) := by
    intro r hr hPr
    unfold elim
    split
    · exact hPr
    · exact hPa _ _ hr (by rw [length_scaleRow, hplen]) hPr (hPs _ _ hplen hPpiv)
  intro r hr
  rcases List.mem_append.1 hr with h | h
  · rcases List.mem_append.1 h with h | h
    · obtain ⟨r0, hr0, rfl⟩ := List.mem_map.1 h
      exact hPelim _ (hI.len_done r0 hr0) (hP r0 (List.mem_append_left _ hr0))
    · rw [List.mem_singleton.1 h]; exact hPpiv
  · obtain ⟨r0, hr0, rfl⟩ := List.mem_map.1 h
    exact hPelim _ (hI.len_rest r0 (hba_mem r0 hr0)) (hP r0 (List.mem_append_right _ (hba_mem r0 hr0)))

/-! ### soundness of the elimination -/

theorem gj_sound {w : Nat} {P : Row → Prop}
    (hPs : ∀ x r, r.length = w → P r → P (scaleRow x r))
    (hPa : ∀ r s, r.length = w → s.length = w → P r → P s → P (addRow r s))
    (k c : Nat) (done rest out : Matrix) (hI : GJInv w c done rest)
    (hP : ∀ r ∈ done ++ rest, P r) (h : gaussJordan k c done rest = some out) :
    out.length = c + k ∧ (∀ r ∈ out, r.length = w ∧ P r) ∧
    ∀ i, i < c + k → ∀ j, j < c + k → ent (out.getD i []) j = if i = j then 1 else 0 := by
  induction k generalizing c done rest with
  | zero =>
    simp only [gaussJordan, Option.some.injEq] at h
    subst h
    exact ⟨hI.cnt, fun r hr => ⟨hI.len_done r hr, hP r (List.mem_append_left _ hr)⟩, hI.diag⟩
  | succ k ih =>
    simp only [gaussJordan] at h
    split at h
    · cases h
    · rename_i b p a hsp
      have := ih (c + 1) _ _ (step_inv hI hsp) (step_closed hI hsp hPs hPa hP) h
      rw [Nat.add_assoc, Nat.add_comm 1 k] at this
      exact this

/-! ### completeness of the elimination -/

/-- `Σ_{j<n} r_j · x_j` -/
def rdot (n : Nat) (r : Row) (x : Nat → GF) : GF := ∑ j ∈ Finset.range n, ent r j * x j

theorem rdot_scaleRow (n : Nat) (a : UInt8) (r : Row) (x : Nat → GF) :
    rdot n (scaleRow a r) x = GF.of a * rdot n r x := by
  unfold rdot
  rw [Finset.mul_sum]
  exact Finset.sum_congr rfl fun j _ => by rw [ent_scaleRow, mul_assoc]

theorem rdot_elim (n : Nat) {c : Nat} {piv r : Row} (h : r.length = piv.length) (x : Nat → GF) :
    rdot n (elim c piv r) x = rdot n r x + ent r c * rdot n piv x := by
  unfold rdot
  rw [Finset.mul_sum, ← Finset.sum_add_distrib]
  exact Finset.sum_congr rfl fun j _ => by rw [ent_elim h]; ring

/-- only the zero vector is annihilated by (the first `n` entries of) all rows -/
def Kernel0 (n : Nat) (rows : Matrix) : Prop :=
  ∀ x : Nat → GF, (∀ r ∈ rows, rdot n r x = 0) → ∀ j, j < n → x j = 0

theorem step_kernel {n w c : Nat} {done rest b a : Matrix} {p : Row} (hI : GJInv w c done rest)
    (hsp : splitPivot c [] rest = some (b, p, a)) (hK : Kernel0 n (done ++ rest)) :
    Kernel0 n ((done.map (elim c (pivRow c p)) ++ [pivRow c p]) ++ (b ++ a).map (elim c (pivRow c p))) := by
  obtain ⟨hsplit, hpc⟩ := splitPivot_some hsp
  simp only [List.reverse_nil, List.nil_append] at hsplit
  have hp_mem : p ∈ rest := by rw [hsplit]; simp
  have hba_mem : ∀ r ∈ b ++ a, r ∈ rest := by
    intro r hr; rw [hsplit]
    rcases List.mem_append.1 hr with h | h
    · exact List.mem_append_left _ h
    · exact List.mem_append_right _ (List.mem_cons_of_mem _ h)
  have hplen : (pivRow c p).length = w := by
    unfold pivRow; rw [length_scaleRow]; exact hI.len_rest p hp_mem
  intro x hx
  apply hK x
  have hpiv : rdot n (pivRow c p) x = 0 := hx _ (by simp)
  have hp0 : rdot n p x = 0 := by
    unfold pivRow at hpiv
    rw [rdot_scaleRow] at hpiv
    rcases mul_eq_zero.1 hpiv with h | h
    · exact absurd (inv_eq_zero.1 h) hpc
    · exact h
  intro r hr
  rcases List.mem_append.1 hr with h | h
  · have := hx (elim c (pivRow c p) r) (List.mem_append_left _ (List.mem_append_left _ (List.mem_map.2 ⟨r, h, rfl⟩)))
    rwa [rdot_elim n (by rw [hI.len_done r h, hplen]), hpiv, mul_zero, add_zero] at this
  · rw [hsplit] at h
    rcases List.mem_append.1 h with h' | h'
    · have := hx (elim c (pivRow c p) r) (List.mem_append_right _ (List.mem_map.2 ⟨r, List.mem_append_left _ h', rfl⟩))
      rwa [rdot_elim n (by rw [hI.len_rest r (hba_mem r (List.mem_append_left _ h')), hplen]), hpiv,
        mul_zero, add_zero] at this
    · rcases List.mem_cons.1 h' with rfl | h''
      · exact hp0
      · have := hx (elim c (pivRow c p) r) (List.mem_append_right _ (List.mem_map.2 ⟨r, List.mem_append_right _ h'', rfl⟩))
        rwa [rdot_elim n (by rw [hI.len_rest r (hba_mem r (List.mem_append_right _ h'')), hplen]), hpiv,
          mul_zero, add_zero] at this

/-- no pivot in column `c < n` contradicts the trivial kernel -/
theorem stuck_contra {n w c : Nat} {done rest : Matrix} (hI : GJInv w c done rest) (hc : c < n)
    (hK : Kernel0 n (done ++ rest)) (hz : ∀ r ∈ rest, ent r c = 0) : False := by
  let x : Nat → GF := fun j => if j = c then 1 else if j < c then ent (done.getD j []) c else 0
  have hx : ∀ r ∈ done ++ rest, rdot n r x = 0 := by
    intro r hr
    rcases List.mem_append.1 hr with h | h
    · obtain ⟨i, hi, rfl⟩ := List.getElem_of_mem h
      have hic : i < c := hI.cnt ▸ hi
      have hrow : done[i] = done.getD i [] := by
        rw [List.getD_eq_getElem?_getD, List.getElem?_eq_getElem hi]; rfl
      rw [hrow]
      unfold rdot
      have hterm : ∀ j ∈ Finset.range n, ent (done.getD i []) j * x j
          = (if j = c then ent (done.getD i []) c else 0) + (if j = i then ent (done.getD i []) c else 0) := by
        intro j _
        show ent (done.getD i []) j * (if j = c then 1 else if j < c then ent (done.getD j []) c else 0) = _
        by_cases hjc : j = c
        · subst hjc; rw [if_pos rfl, if_pos rfl, if_neg (by omega), mul_one, add_zero]
        · rw [if_neg hjc, if_neg hjc, zero_add]
          by_cases hjlt : j < c
          · rw [if_pos hjlt, hI.diag i hic j hjlt]
            by_cases hij : i = j
            · subst hij; rw [if_pos rfl, if_pos rfl, one_mul]
            · rw [if_neg hij, if_neg (fun h => hij h.symm), zero_mul]
          · rw [if_neg hjlt, mul_zero, if_neg (by omega)]
      rw [Finset.sum_congr rfl hterm, Finset.sum_add_distrib, Finset.sum_ite_eq', Finset.sum_ite_eq',
        if_pos (Finset.mem_range.2 hc), if_pos (Finset.mem_range.2 (by omega))]
      exact GF.add_self _
    · unfold rdot
      apply Finset.sum_eq_zero
      intro j _
      show ent r j * (if j = c then 1 else if j < c then ent (done.getD j []) c else 0) = 0
      by_cases hjc : j = c
      · rw [hjc, hz r h, zero_mul]
      · rw [if_neg hjc]
        by_cases hjlt : j < c
        · rw [hI.zero r h j hjlt, zero_mul]
        · rw [if_neg hjlt, mul_zero]
  have := hK x hx c hc
  simp only [x, if_pos rfl] at this
  exact one_ne_zero this

theorem gj_complete {n w : Nat} (k c : Nat) (done rest : Matrix) (hI : GJInv w c done rest)
    (hK : Kernel0 n (done ++ rest)) (hck : c + k ≤ n) :
    ∃ out, gaussJordan k c done rest = some out := by
  induction k generalizing c done rest with
  | zero => exact ⟨done, rfl⟩
  | succ k ih =>
    simp only [gaussJordan]
    split
    · rename_i hsp
      exact (stuck_contra hI (by omega) hK (splitPivot_none hsp)).elim
    · rename_i b p a hsp
      exact ih (c + 1) _ _ (step_inv hI hsp) (step_kernel hI hsp hK) (by omega)

/-! ### `invert` -/

theorem ent_append_left {a b : Row} {j : Nat} (h : j < a.length) : ent (a ++ b) j = ent a j := by
  unfold ent
  rw [List.getD_eq_getElem?_getD, List.getD_eq_getElem?_getD, List.getElem?_append_left h]

theorem ent_append_right (a b : Row) (k : Nat) : ent (a ++ b) (a.length + k) = ent b k := by
  unfold ent
  rw [List.getD_eq_getElem?_getD, List.getD_eq_getElem?_getD,
    List.getElem?_append_right (Nat.le_add_right _ _), Nat.add_sub_cancel_left]

theorem ent_drop (n : Nat) (r : Row) (k : Nat) : ent (r.drop n) k = ent r (n + k) := by
  unfold ent
  rw [List.getD_eq_getElem?_getD, List.getD_eq_getElem?_getD, List.getElem?_drop]

/-- row `i` of the identity -/
def idRow (n i : Nat) : Row := (List.range n).map fun c => if i = c then 1 else 0

theorem length_idRow (n i : Nat) : (idRow n i).length = n := by simp [idRow]

theorem ent_idRow {n i k : Nat} (hk : k < n) : ent (idRow n i) k = if i = k then 1 else 0 := by
  unfold ent idRow
  rw [List.getD_eq_getElem?_getD, List.getElem?_map, List.getElem?_range hk]
  simp only [Option.map_some, Option.getD_some]
  split <;> rfl

/-- the initial working matrix `[M | I]` -/
theorem augmented_eq {n : Nat} {m : Matrix} (hm : m.length = n) :
    List.zipWith (· ++ ·) m (identity n) = (List.range n).map fun i => m.getD i [] ++ idRow n i := by
  apply List.ext_getElem
  · simp [identity, hm]
  · intro i h1 h2
    have hi : i < n := by simpa using h2
    simp only [List.getElem_zipWith, List.getElem_map, List.getElem_range, identity]
    rw [List.getD_eq_getElem?_getD, List.getElem?_eq_getElem (hm ▸ hi)]
    rfl

/-- the linear relation kept by the rows of `[A | B]`: `a = b · M` -/
def Rel (n : Nat) (m : Matrix) (r : Row) : Prop :=
  ∀ j, j < n → ent r j = ∑ k ∈ Finset.range n, ent r (n + k) * ent (m.getD k []) j

theorem rel_scale (n : Nat) (m : Matrix) (x : UInt8) (r : Row) (h : Rel n m r) :
    Rel n m (scaleRow x r) := by
  intro j hj
  rw [ent_scaleRow, h j hj, Finset.mul_sum]
  exact Finset.sum_congr rfl fun k _ => by rw [ent_scaleRow, mul_assoc]

theorem rel_add (n : Nat) (m : Matrix) (r s : Row) (hl : r.length = s.length) (hr : Rel n m r)
    (hs : Rel n m s) : Rel n m (addRow r s) := by
  intro j hj
  rw [ent_addRow hl, hr j hj, hs j hj, ← Finset.sum_add_distrib]
  exact Finset.sum_congr rfl fun k _ => by rw [ent_addRow hl, add_mul]

theorem init_inv {n : Nat} {m : Matrix} (hm : Shaped n n m) :
    GJInv (n + n) 0 [] (List.zipWith (· ++ ·) m (identity n)) := by
  refine ⟨fun _ h => (by cases h), ?_, rfl, fun i hi => (by omega), fun _ _ j hj => (by omega)⟩
  intro r hr
  rw [augmented_eq hm.1] at hr
  obtain ⟨i, hi, rfl⟩ := List.mem_map.1 hr
  have hi' : i < n := List.mem_range.1 hi
  have : m.getD i [] ∈ m := by
    rw [List.getD_eq_getElem?_getD, List.getElem?_eq_getElem (hm.1 ▸ hi')]; exact List.getElem_mem _
  rw [List.length_append, hm.2 _ this, length_idRow]

theorem init_rel {n : Nat} {m : Matrix} (hm : Shaped n n m) :
    ∀ r ∈ ([] : Matrix) ++ List.zipWith (· ++ ·) m (identity n), Rel n m r := by
  intro r hr
  rw [List.nil_append, augmented_eq hm.1] at hr
  obtain ⟨i, hi, rfl⟩ := List.mem_map.1 hr
  have hi' : i < n := List.mem_range.1 hi
  have hmem : m.getD i [] ∈ m := by
    rw [List.getD_eq_getElem?_getD, List.getElem?_eq_getElem (hm.1 ▸ hi')]; exact List.getElem_mem _
  have hlen : (m.getD i []).length = n := hm.2 _ hmem
  intro j hj
  rw [ent_append_left (by rw [hlen]; exact hj)]
  have : ∀ k ∈ Finset.range n, ent (m.getD i [] ++ idRow n i) (n + k) * ent (m.getD k []) j
      = if i = k then ent (m.getD i []) j else 0 := by
    intro k hk
    have hk' : k < n := Finset.mem_range.1 hk
    have := ent_append_right (m.getD i []) (idRow n i) k
    rw [hlen] at this
    rw [this, ent_idRow hk']
    by_cases hik : i = k
    · subst hik; rw [if_pos rfl, if_pos rfl, one_mul]
    · rw [if_neg hik, if_neg hik, zero_mul]
  rw [Finset.sum_congr rfl this, Finset.sum_ite_eq, if_pos (Finset.mem_range.2 hi')]

theorem getD_mem_of_lt {m : Matrix} {i : Nat} (h : i < m.length) : m.getD i [] ∈ m := by
  rw [List.getD_eq_getElem?_getD, List.getElem?_eq_getElem h]; exact List.getElem_mem _

/-- `matrix.Invert` returns a left inverse -/
theorem invert_sound {n : Nat} {M M' : Matrix} (hM : Shaped n n M) (h : invert M = some M') :
    Shaped n n M' ∧ toM n n M' * toM n n M = 1 := by
  unfold invert at h
  rw [hM.1] at h
  cases hgj : gaussJordan n 0 [] (List.zipWith (· ++ ·) M (identity n)) with
  | none => rw [hgj] at h; cases h
  | some out =>
    rw [hgj] at h
    simp only [Option.map_some, Option.some.injEq] at h
    subst h
    obtain ⟨hlen, hrows, hdiag⟩ := gj_sound (w := n + n) (P := Rel n M)
      (fun x r _ hr => rel_scale n M x r hr)
      (fun r s hr hs h1 h2 => rel_add n M r s (by rw [hr, hs]) h1 h2)
      n 0 [] _ out (init_inv hM) (init_rel hM) hgj
    rw [Nat.zero_add] at hlen hdiag
    refine ⟨⟨by rw [List.length_map, hlen], ?_⟩, ?_⟩
    · intro row hrow
      obtain ⟨r, hr, rfl⟩ := List.mem_map.1 hrow
      rw [List.length_drop, (hrows r hr).1]; omega
    · ext i j
      rw [Matrix.mul_apply, Matrix.one_apply]
      have hi : i.val < out.length := by rw [hlen]; exact i.isLt
      have hrow : (out.map (List.drop n)).getD i.val [] = (out.getD i.val []).drop n := by
        rw [List.getD_eq_getElem?_getD, List.getD_eq_getElem?_getD, List.getElem?_map,
          List.getElem?_eq_getElem hi]
        rfl
      have hrel := (hrows _ (getD_mem_of_lt hi)).2 j.val j.isLt
      rw [hdiag i.val i.isLt j.val j.isLt] at hrel
      have : ∀ k : Fin n, toM n n (out.map (List.drop n)) i k * toM n n M k j
          = ent (out.getD i.val []) (n + k.val) * ent (M.getD k.val []) j.val := by
        intro k
        unfold toM
        rw [hrow, ent_drop]
      rw [Finset.sum_congr rfl fun k _ => this k,
        Fin.sum_univ_eq_sum_range (fun k => ent (out.getD i.val []) (n + k) * ent (M.getD k []) j.val) n,
        ← hrel]
      simp only [Fin.ext_iff]

/-- `matrix.Invert` succeeds on a non-singular matrix -/
theorem invert_complete {n : Nat} {M : Matrix} (hM : Shaped n n M) (hdet : (toM n n M).det ≠ 0) :
    ∃ M', invert M = some M' := by
  have hK : Kernel0 n (([] : Matrix) ++ List.zipWith (· ++ ·) M (identity n)) := by
    intro x hx
    have hv : Matrix.mulVec (toM n n M) (fun k : Fin n => x k.val) = 0 := by
      funext i
      have hmem : M.getD i.val [] ++ idRow n i.val ∈ ([] : Matrix) ++ List.zipWith (· ++ ·) M (identity n) := by
        rw [List.nil_append, augmented_eq hM.1]
        exact List.mem_map.2 ⟨i.val, List.mem_range.2 i.isLt, rfl⟩
      have h0 := hx _ hmem
      have hlen : (M.getD i.val []).length = n := hM.2 _ (getD_mem_of_lt (hM.1 ▸ i.isLt))
      unfold rdot at h0
      rw [Finset.sum_congr rfl (fun j hj => by
        rw [ent_append_left (by rw [hlen]; exact Finset.mem_range.1 hj)])] at h0
      rw [Matrix.mulVec, dotProduct, Pi.zero_apply, ← h0]
      exact Fin.sum_univ_eq_sum_range (fun j => ent (M.getD i.val []) j * x j) n
    have := Matrix.eq_zero_of_mulVec_eq_zero hdet hv
    intro j hj
    exact congrFun this ⟨j, hj⟩
  obtain ⟨res, hout⟩ := gj_complete (n := n) n 0 [] _ (init_inv hM) hK (by omega)
  unfold invert
  rw [hM.1, hout]
  exact ⟨_, rfl⟩

end KcpVerif.Lemmas.RSGauss
