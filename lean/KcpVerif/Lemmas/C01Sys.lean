/-
Composition for C01 (DESIGN.md 7.1, `C01_core`): two KCP cores `A` (writer) and `B` (reader) and a
network that can only replay what `A` has emitted — any datagram `A` ever handed to `output`, at any
later time, any number of times, in any order, or never.  `A` itself may be fed arbitrary bytes
(in particular everything `B` emits), and both ends run arbitrary local operations.
-/
import KcpVerif.Lemmas.C01Ops

namespace KcpVerif.C01
open KcpVerif KcpVerif.Gen KcpVerif.Kcp KcpVerif.Frame KcpVerif.Recv KcpVerif.Send KcpVerif.Wire

structure Sys where
  A : GSt
  B : GSt

inductive SOp where
  /-- `A` performs any operation with any arguments (including `input` of arbitrary bytes) -/
  | a (op : Op)
  /-- `B` performs any operation other than `input` -/
  | b (op : Op)
  /-- the network delivers to `B` the `i`-th datagram `A` has emitted so far (replay, reorder, duplicate) -/
  | dlv (i : Nat) (regular ackNoDelay : Bool) (now : U32)

def isInput : Op → Bool
  | .input .. => true
  | _ => false

def sstep (s : Sys) : SOp → Sys
  | .a op => { s with A := step s.A op }
  | .b op => if isInput op then s else { s with B := step s.B op }
  | .dlv i regular ackNoDelay now =>
    match s.A.wire[i]? with
    | some d => { s with B := step s.B (.input d regular ackNoDelay now) }
    | none => s

def srun (s : Sys) (ops : List SOp) : Sys := ops.foldl sstep s

/-- the writer's log is consistent, and the reader's invariant holds against every content
function that agrees with the writer's log -/
structure SysInv (sn0 conv : U32) (s : Sys) : Prop where
  snd : InvSG sn0 s.A
  rcv : ∀ G, Agree G sn0 s.A.log → ∃ n, InvRG G sn0 conv s.B n

theorem sstep_inv {sn0 conv : U32} {s : Sys} (h : SysInv sn0 conv s) (op : SOp) : SysInv sn0 conv (sstep s op) := by
  cases op with
  | a op =>
    obtain ⟨h1, X, hX⟩ := step_invSG h.snd op
    refine ⟨h1, fun G hG => ?_⟩
    show ∃ n, InvRG G sn0 conv s.B n
    apply h.rcv G
    have : Agree G sn0 (s.A.log ++ X) := by rw [← hX]; exact hG
    exact this.prefix
  | b op =>
    by_cases hi : isInput op = true
    · have e : sstep s (.b op) = s := by simp [sstep, hi]
      rw [e]; exact h
    · have e : sstep s (.b op) = { s with B := step s.B op } := by simp [sstep, hi]
      rw [e]
      refine ⟨h.snd, fun G hG => ?_⟩
      obtain ⟨n, hn⟩ := h.rcv G hG
      have hg : OpGenuine G conv op := by
        cases op <;> first | trivial | (simp [isInput] at hi)
      obtain ⟨n', _, hn'⟩ := step_invRG hn op hg
      exact ⟨n', hn'⟩
  | dlv i regular ackNoDelay now =>
    cases hd : s.A.wire[i]? with
    | none =>
      have e : sstep s (.dlv i regular ackNoDelay now) = s := by simp [sstep, hd]
      rw [e]; exact h
    | some d =>
      have e : sstep s (.dlv i regular ackNoDelay now) =
          { s with B := step s.B (.input d regular ackNoDelay now) } := by simp [sstep, hd]
      rw [e]
      refine ⟨h.snd, fun G hG => ?_⟩
      obtain ⟨n, hn⟩ := h.rcv G hG
      have hmem : d ∈ s.A.wire := List.mem_of_getElem? hd
      have hg : OpGenuine G conv (.input d regular ackNoDelay now) := (h.snd.wire G hG d hmem).genuineIn conv
      obtain ⟨n', _, hn'⟩ := step_invRG hn _ hg
      exact ⟨n', hn'⟩

theorem srun_inv {sn0 conv : U32} (ops : List SOp) : ∀ s : Sys, SysInv sn0 conv s → SysInv sn0 conv (srun s ops) := by
  induction ops with
  | nil => intro s h; exact h
  | cons op rest ih => intro s h; exact ih _ (sstep_inv h op)

theorem fresh_sysInv (kA kB : Kcp) (hA : Fresh kA) (hB : Fresh kB) (hsn : kB.rcv_nxt = kA.snd_nxt) :
    SysInv kA.snd_nxt kB.conv ⟨{ k := kA }, { k := kB }⟩ :=
  ⟨fresh_invSG kA hA, fun G _ => ⟨0, by rw [← hsn]; exact fresh_invRG G kB hB⟩⟩

/-! ### the canonical content function of a log -/

/-- `G sn := L[sn − sn0]` (an empty final fragment outside the log) -/
def gOf (sn0 : U32) (L : List Content) : U32 → Content := fun sn => L.getD (sn - sn0).toNat (0, [])

theorem gOf_agree (sn0 : U32) (L : List Content) (h : L.length ≤ 2 ^ 32) : Agree (gOf sn0 L) sn0 L := by
  intro i c hc
  have hlt : i < L.length := by
    rcases Nat.lt_or_ge i L.length with h2 | h2
    · exact h2
    · rw [List.getElem?_eq_none h2] at hc; cases hc
  unfold gOf
  have : (sn0 + BitVec.ofNat 32 i - sn0).toNat = i := by
    have e : sn0 + BitVec.ofNat 32 i - sn0 = BitVec.ofNat 32 i := by bv_omega
    rw [e, BitVec.toNat_ofNat]; omega
  rw [this, List.getD_eq_getElem?_getD, hc]; rfl

theorem bytesOf_gRange_gOf (sn0 : U32) (L : List Content) : ∀ m, m ≤ 2 ^ 32 →
    bytesOf (gRange (gOf sn0 L) sn0 m) = bytesOf (L.take m) := by
  intro m
  induction m with
  | zero => intro _; rfl
  | succ m ih =>
    intro hm
    rw [gRange_succ, bytesOf_append, ih (by omega), List.take_add_one, bytesOf_append]
    congr 1
    unfold gOf
    have : (sn0 + BitVec.ofNat 32 m - sn0).toNat = m := by
      have e : sn0 + BitVec.ofNat 32 m - sn0 = BitVec.ofNat 32 m := by bv_omega
      rw [e, BitVec.toNat_ofNat]; omega
    rw [this, List.getD_eq_getElem?_getD]
    cases L[m]? with
    | none => rfl
    | some c => simp [bytesOf]

theorem bytesOf_take_prefix (L : List Content) (m : Nat) : bytesOf (L.take m) <+: bytesOf L := by
  refine ⟨bytesOf (L.drop m), ?_⟩
  rw [← bytesOf_append, List.take_append_drop]

end KcpVerif.C01
