/-
Two sessions (`Model/Sess.lean`, configuration without cipher and FEC) connected by a replay-only
network, for `C01_session_plain`.

* `SessG`: a session with ghost history (`rd` bytes returned by `Read`, `wr` bytes accepted by
  `WriteBuffers`, `log` contents numbered so far, `wire` datagrams emitted, `dead`);
* `sessStep`: one call of `WriteBuffers` / `Read` / `update` / `packetInput` / a setter, defined with
  the functions of `Model/Sess.lean` (the model the `sess` component ties to real sessions);
* refinement (`sessStep_ref`): every session step is a (possibly empty) sequence of core operations
  of `Lemmas/C01Ops.lean` on the session's core — `WriteBuffers` = `Send`s of ≤ mss bytes (+ `flush`),
  `Read` = at most one `Recv`, `packetInput` = at most one `Input` — with `rd ++ bufptr` = the
  concatenation of what `Recv` returned;
* accounting (`InvW`): `wr` = payload bytes of `log ++ snd_queue`;
* system and simulation (`ssrun_sim`): every run of the two-session system is matched by a run of
  the two-core system of `Lemmas/C01Sys.lean`.
-/
import KcpVerif.Lemmas.C01SessOps

namespace KcpVerif.C01
open KcpVerif KcpVerif.Gen KcpVerif.Kcp KcpVerif.Frame KcpVerif.Recv KcpVerif.Send KcpVerif.Wire

structure SessG where
  s    : Sess
  rd   : Bytes := []
  wr   : Bytes := []
  log  : List Content := []
  wire : List Bytes := []
  dead : Bool := false

inductive SessOp where
  /-- one admitted-or-blocked pass of `WriteBuffers(v)` at clock `now` -/
  | write (v : List Bytes) (now : U32)
  /-- one pass of `Read(b)` with `len(b) = blen` -/
  | read (blen : Nat)
  /-- the scheduled `update()` -/
  | update (now : U32)
  /-- `packetInput(d)` (no cipher, no FEC) -/
  | input (d : Bytes) (now : U32)
  | setWriteDelay (b : Bool)
  | setAckNoDelay (b : Bool)
  /-- `SetNoDelay`, `SetWindowSize`, `SetMtu` (the core setters they call, any arguments) -/
  | noDelay (a b c d : Int)
  | wndSize (a b : Int)
  | setMtu (mtu : Int)

def sessStep (x : SessG) (op : SessOp) : SessG :=
  if x.dead then x else
  match op with
  | .write v now =>
    if (x.s.writeBuffers v now).panic then { x with dead := true } else
    if (x.s.writeBuffers v now).blocked then x else
    { x with s := (x.s.writeBuffers v now).s, wr := x.wr ++ v.flatten,
             log := x.log ++ admitted (Sess.sendAll v x.s.k).k (x.s.writeBuffers v now).s.k,
             wire := x.wire ++ (x.s.writeBuffers v now).outs }
  | .read blen => { x with s := (x.s.read blen).s, rd := x.rd ++ (x.s.read blen).data }
  | .update now =>
    if (x.s.update now).panic then { x with dead := true } else
    { x with s := { x.s with k := (x.s.update now).k }, log := x.log ++ admitted x.s.k (x.s.update now).k,
             wire := x.wire ++ (x.s.update now).outs }
  | .input d now =>
    if (x.s.packetInput d now).panic then { x with dead := true } else
    { x with s := (x.s.packetInput d now).s, log := x.log ++ admitted x.s.k (x.s.packetInput d now).s.k,
             wire := x.wire ++ (x.s.packetInput d now).outs }
  | .setWriteDelay b => { x with s := { x.s with writeDelay := b } }
  | .setAckNoDelay b => { x with s := { x.s with ackNoDelay := b } }
  | .noDelay a b c d => { x with s := { x.s with k := noDelay x.s.k a b c d } }
  | .wndSize a b => { x with s := { x.s with k := wndSize x.s.k a b } }
  | .setMtu mtu => { x with s := { x.s with k := (setMtu x.s.k mtu).1 } }

/-! ### `WriteBuffers` case by case -/

theorem wb_blocked (s : Sess) (v : List Bytes) (now : U32) (h : ¬ s.k.waitSnd < s.k.snd_wnd.toNat) :
    s.writeBuffers v now = ⟨s, true, 0, [], false⟩ := by
  unfold Sess.writeBuffers; rw [if_neg h]

theorem wb_panic (s : Sess) (v : List Bytes) (now : U32) (h : s.k.waitSnd < s.k.snd_wnd.toNat)
    (hp : (Sess.sendAll v s.k).panic = true) :
    s.writeBuffers v now = ⟨{ s with k := (Sess.sendAll v s.k).k }, false, 0, [], true⟩ := by
  unfold Sess.writeBuffers; rw [if_pos h]; simp only []; rw [if_pos hp]

/-- the flush rule of `WriteBuffers` -/
def wbFlush (s : Sess) (v : List Bytes) : Prop :=
  (Sess.sendAll v s.k).k.waitSnd ≥ (Sess.sendAll v s.k).k.snd_wnd.toNat ∨ ¬ s.writeDelay

theorem wb_flush (s : Sess) (v : List Bytes) (now : U32) (h : s.k.waitSnd < s.k.snd_wnd.toNat)
    (hp : (Sess.sendAll v s.k).panic = false) (hc : wbFlush s v) :
    s.writeBuffers v now = ⟨{ s with k := ((Sess.sendAll v s.k).k.flush true now).k }, false, (v.map List.length).sum,
      ((Sess.sendAll v s.k).k.flush true now).outs, ((Sess.sendAll v s.k).k.flush true now).panic⟩ := by
  unfold Sess.writeBuffers; rw [if_pos h]; simp only []
  rw [if_neg (by simp [hp])]
  unfold wbFlush at hc
  rw [if_pos hc]

theorem wb_noflush (s : Sess) (v : List Bytes) (now : U32) (h : s.k.waitSnd < s.k.snd_wnd.toNat)
    (hp : (Sess.sendAll v s.k).panic = false) (hc : ¬ wbFlush s v) :
    s.writeBuffers v now = ⟨{ s with k := (Sess.sendAll v s.k).k }, false, (v.map List.length).sum, [], false⟩ := by
  unfold Sess.writeBuffers; rw [if_pos h]; simp only []
  rw [if_neg (by simp [hp])]
  unfold wbFlush at hc
  rw [if_neg hc]

/-- `WriteBuffers` reports `n` = the total length of the slices exactly when it is admitted, and 0
when it blocks: all or nothing -/
theorem wb_n (s : Sess) (v : List Bytes) (now : U32) (hp : (s.writeBuffers v now).panic = false) :
    (s.writeBuffers v now).n = if (s.writeBuffers v now).blocked then 0 else v.flatten.length := by
  have hsum : (v.map List.length).sum = v.flatten.length := by simp [List.length_flatten]
  by_cases h : s.k.waitSnd < s.k.snd_wnd.toNat
  · by_cases hp1 : (Sess.sendAll v s.k).panic = true
    · rw [wb_panic s v now h hp1] at hp; cases hp
    · have hp1' : (Sess.sendAll v s.k).panic = false := by simpa using hp1
      by_cases hc : wbFlush s v
      · rw [wb_flush s v now h hp1' hc]; exact hsum
      · rw [wb_noflush s v now h hp1' hc]; exact hsum
  · rw [wb_blocked s v now h]; rfl

/-! ### the writer's accounting -/

structure InvW (x : SessG) : Prop where
  mss : 0 < x.s.k.mss.toNat
  acc : x.wr = bytesOf (x.log ++ x.s.k.snd_queue.map content)

theorem invW_flushLike (x : SessG) (s' : Sess) (outs : List Bytes) (h : InvW x) (hc : s'.k.mss = x.s.k.mss)
    (hq : ∃ j, j ≤ x.s.k.snd_queue.length ∧ s'.k.snd_queue = x.s.k.snd_queue.drop j) :
    InvW { x with s := s', log := x.log ++ admitted x.s.k s'.k, wire := x.wire ++ outs } := by
  obtain ⟨j, hj, hq⟩ := hq
  refine ⟨by show 0 < s'.k.mss.toNat; rw [hc]; exact h.mss, ?_⟩
  show x.wr = bytesOf ((x.log ++ admitted x.s.k s'.k) ++ s'.k.snd_queue.map content)
  rw [pending_eq x.log x.s.k s'.k j hj hq]; exact h.acc

theorem invW_same (x : SessG) (s' : Sess) (rd' : Bytes) (h : InvW x) (hm : 0 < s'.k.mss.toNat)
    (hq : s'.k.snd_queue = x.s.k.snd_queue) : InvW { x with s := s', rd := rd' } :=
  ⟨hm, by show x.wr = bytesOf (x.log ++ s'.k.snd_queue.map content); rw [hq]; exact h.acc⟩

/-- the core of a session after `Read` is the old one or the result of one `Recv` -/
theorem read_k (s : Sess) (blen : Nat) : (s.read blen).s.k = s.k ∨ ∃ n, (s.read blen).s.k = (recv s.k n).k := by
  unfold Sess.read
  split
  · left; rfl
  · simp only []
    split
    · split
      · right; exact ⟨_, rfl⟩
      · right; exact ⟨_, rfl⟩
    · left; rfl

theorem packetInput_cases (s : Sess) (d : Bytes) (now : U32) :
    s.packetInput d now = ⟨s, [], false⟩ ∨
    s.packetInput d now = ⟨{ s with k := (input s.k d true s.ackNoDelay now).k },
      (input s.k d true s.ackNoDelay now).outs, (input s.k d true s.ackNoDelay now).panic⟩ := by
  unfold Sess.packetInput
  split
  · left; rfl
  · right; rfl

theorem sessStep_invW {x : SessG} (h : InvW x) (op : SessOp) : InvW (sessStep x op) := by
  unfold sessStep
  by_cases hd : x.dead = true
  · rw [if_pos hd]; exact h
  · rw [if_neg hd]
    cases op with
    | write v now =>
      simp only []
      split
      · exact ⟨h.mss, h.acc⟩
      · rename_i hp
        split
        · exact h
        · rename_i hb
          have hadm : x.s.k.waitSnd < x.s.k.snd_wnd.toNat := by
            apply Classical.byContradiction
            intro hc
            rw [wb_blocked x.s v now hc] at hb
            exact hb rfl
          have hp1 : (Sess.sendAll v x.s.k).panic = false := by
            cases hpp : (Sess.sendAll v x.s.k).panic with
            | false => rfl
            | true => rw [wb_panic x.s v now hadm hpp] at hp; exact absurd rfl hp
          obtain ⟨hb1, hb2, _, _⟩ := sendAll_bytes v x.s.k h.mss hp1
          have hacc : x.wr ++ v.flatten = bytesOf (x.log ++ (Sess.sendAll v x.s.k).k.snd_queue.map content) := by
            rw [bytesOf_append]
            have e : bytesOf ((Sess.sendAll v x.s.k).k.snd_queue.map content) = qbytes (Sess.sendAll v x.s.k).k.snd_queue := rfl
            rw [e, hb1, h.acc, bytesOf_append, List.append_assoc]; rfl
          by_cases hc : wbFlush x.s v
          · rw [wb_flush x.s v now hadm hp1 hc]
            simp only []
            obtain ⟨j, hj, hq⟩ := flush_queue (Sess.sendAll v x.s.k).k true now
            refine ⟨by show 0 < ((Sess.sendAll v x.s.k).k.flush true now).k.mss.toNat
                       rw [(flush_keep _ _ _).mss, hb2]; exact h.mss, ?_⟩
            show x.wr ++ v.flatten = bytesOf ((x.log ++ admitted (Sess.sendAll v x.s.k).k ((Sess.sendAll v x.s.k).k.flush true now).k) ++
              ((Sess.sendAll v x.s.k).k.flush true now).k.snd_queue.map content)
            rw [pending_eq x.log _ _ j hj hq]; exact hacc
          · rw [wb_noflush x.s v now hadm hp1 hc]
            simp only []
            refine ⟨by show 0 < (Sess.sendAll v x.s.k).k.mss.toNat; rw [hb2]; exact h.mss, ?_⟩
            show x.wr ++ v.flatten = bytesOf ((x.log ++ admitted (Sess.sendAll v x.s.k).k (Sess.sendAll v x.s.k).k) ++
              (Sess.sendAll v x.s.k).k.snd_queue.map content)
            rw [admitted_self _ _ rfl, List.append_nil]; exact hacc
    | read blen =>
      simp only []
      rcases read_k x.s blen with hk | ⟨n, hk⟩
      · exact invW_same x _ _ h (by rw [hk]; exact h.mss) (by rw [hk])
      · have hs := recv_sndSame x.s.k n
        exact invW_same x _ _ h (by rw [hk, hs.mss]; exact h.mss) (by rw [hk, hs.snd_queue])
    | update now =>
      simp only []
      split
      · exact ⟨h.mss, h.acc⟩
      · exact invW_flushLike x { x.s with k := (x.s.update now).k } _ h (flush_keep _ _ _).mss (flush_queue _ _ _)
    | input d now =>
      simp only []
      split
      · exact ⟨h.mss, h.acc⟩
      · rcases packetInput_cases x.s d now with hc | hc
        · rw [hc]
          exact invW_flushLike x x.s [] h rfl ⟨0, Nat.zero_le _, rfl⟩
        · rw [hc]
          exact invW_flushLike x _ _ h (input_cfg _ _ _ _ _).mss (input_queue _ _ _ _ _)
    | setWriteDelay b => exact ⟨h.mss, h.acc⟩
    | setAckNoDelay b => exact ⟨h.mss, h.acc⟩
    | noDelay a b c d =>
      exact ⟨by show 0 < (noDelay x.s.k a b c d).mss.toNat; rw [(noDelay_cfg _ _ _ _ _).mss]; exact h.mss,
        by show x.wr = bytesOf (x.log ++ (noDelay x.s.k a b c d).snd_queue.map content)
           rw [(noDelay_sndQ _ _ _ _ _).snd_queue]; exact h.acc⟩
    | wndSize a b =>
      exact ⟨by show 0 < (wndSize x.s.k a b).mss.toNat; rw [(wndSize_cfg _ _ _).mss]; exact h.mss,
        by show x.wr = bytesOf (x.log ++ (wndSize x.s.k a b).snd_queue.map content)
           rw [(wndSize_sndQ _ _ _).snd_queue]; exact h.acc⟩
    | setMtu mtu =>
      exact ⟨setMtu_mss _ _ h.mss,
        by show x.wr = bytesOf (x.log ++ (setMtu x.s.k mtu).1.snd_queue.map content)
           rw [(setMtu_sndQ _ _).snd_queue]; exact h.acc⟩

end KcpVerif.C01
