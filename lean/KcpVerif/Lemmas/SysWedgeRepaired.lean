/-
The fault history of the acked-head wedge (Lemmas/SysDrainCex.lean) replayed on the REPAIRED model
(`Sys.step`): same cores, same events, same two faults (one reordering, one loss).
-/
import KcpVerif.Lemmas.SysDrainCons2

namespace KcpVerif.SysC
open KcpVerif KcpVerif.Kcp KcpVerif.Sys

def rep1 : State := Sys.run (Sys.init wedgeA wedgeB 0 1000) [.send [0], .flushA, .dlvB, .read, .flushB]
/-- `X0` held back; segments 1 and 2; B queues 1, keeps 2 in the reorder buffer; A inputs `[ACK 2, una 2, wnd 0]` -/
def rep2 : State := Sys.run { rep1 with ba := [] } [.send [1], .send [2], .flushA, .dlvB, .flushB, .dlvA]
/-- the stale `X0` arrives; the reader reads; B flushes the window update -/
def rep3 : State := Sys.run { rep2 with ba := rep1.ba } [.dlvA, .read, .read, .flushB]
/-- the window update is lost -/
def repState : State := { rep3 with ba := [] }
/-- the writer writes one more byte; 60 steps of the canonical scheduler -/
def repAfter : State := (Sys.auto 60 (Sys.step repState (.send [3])) []).1

end KcpVerif.SysC
