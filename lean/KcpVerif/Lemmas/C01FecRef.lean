/-
The two-session system with FEC and its simulation by the two-core system of `C01_core`
(`fsrun_sim`), for `C01_session_fec`.
-/
import KcpVerif.Lemmas.C01FecSys

namespace KcpVerif.C01
open KcpVerif KcpVerif.Gen KcpVerif.Kcp KcpVerif.Frame KcpVerif.Recv KcpVerif.Send KcpVerif.Wire
open KcpVerif.SessFec KcpVerif.Props
open KcpVerif.Fec KcpVerif.Lemmas.FecSpec KcpVerif.Lemmas

structure FecSys where
  A : FecG
  B : FecG

inductive FSOp where
  /-- `A` performs any session operation (including `packetInput` of arbitrary bytes) -/
  | a (op : FecOp)
  /-- `B` performs any session operation other than `packetInput` -/
  | b (op : FecOp)
  /-- the network delivers to `B.packetInput` the `i`-th datagram `A` has put on the wire so far -/
  | dlv (i : Nat) (now : U32) (gap : Int)

def isFecInput : FecOp → Bool
  | .input .. => true
  | _ => false

def fsstep (C : CodecNew) (s : FecSys) : FSOp → FecSys
  | .a op => { s with A := fecStep C s.A op }
  | .b op => if isFecInput op then s else { s with B := fecStep C s.B op }
  | .dlv i now gap =>
    match s.A.wire[i]? with
    | some d => { s with B := fecStep C s.B (.input d now gap) }
    | none => s

def fsrun (C : CodecNew) (s : FecSys) (ops : List FSOp) : FecSys := ops.foldl (fsstep C) s

/-- **what the sender's FEC stage is assumed to have produced** (the statement `C07_enc_group` proves
group by group): everything on the wire is a packet of a well-formed `d/p` group of some family, and
the payloads of those groups are datagrams the core handed to `output` (or shorter than a KCP header:
placeholders of a group that is still filling) -/
def EncGenuine (C : CodecNew) (d p : Nat) (f : FecG) : Prop :=
  ∃ grp : FecDec.Family, (∀ q ∈ f.wire, FecDec.GenuinePkt C grp d p q) ∧
    ∀ (G : Group) (k : Nat), grp (G.base / Fec.u32 G.n) = some G → k < G.d →
      G.payloads.getD k [] ∈ f.cwire ∨ (G.payloads.getD k []).length < IKCP_OVERHEAD

def stepGenuine (C : CodecNew) (d p : Nat) (s : FecSys) : FSOp → Prop
  | .dlv .. => EncGenuine C d p s.A
  | _ => True

/-- `EncGenuine` holds for the sender whenever the network delivers one of its datagrams -/
def FecRunGenuine (C : CodecNew) (d p : Nat) : FecSys → List FSOp → Prop
  | _, [] => True
  | s, op :: rest => stepGenuine C d p s op ∧ FecRunGenuine C d p (fsstep C s op) rest

/-- the conclusion of `C01_fec_reduction_full` for the reader's fresh decoder -/
def FecSound (C : CodecNew) (d p : Nat) (dec0 : Decoder) : Prop :=
  ∀ (grp : FecDec.Family) (pkts : List Bytes), (∀ q ∈ pkts, FecDec.GenuinePkt C grp d p q) →
    ∀ c ∈ (C01_fecRun C dec0 pkts).2,
      ∃ (G : Group) (k : Nat), grp (G.base / Fec.u32 G.n) = some G ∧ G.WF ∧ k < G.d ∧
        c.1 = G.payloads.getD k [] ∧ (c.2 = true → G.packet C k ∈ pkts)

structure FecInv (C : CodecNew) (dec0 : Decoder) (s : FecSys) (S : Sys) : Prop where
  a   : RefK (toSessG s.A) S.A
  w   : InvW (toSessG s.A)
  b   : RefK (toSessG s.B) S.B
  r   : RefR (toSessG s.B) S.B
  dec : s.B.x.dec = some (C01_fecRun C dec0 s.B.recvd).1
  sub : ∀ q ∈ s.B.recvd, q ∈ s.A.wire

theorem refK_dead {x : SessG} {g : GSt} (h : RefK x g) : RefK { x with dead := true } g :=
  ⟨h.k, h.log, h.wire, h.alive⟩

theorem fecRun_snoc (C : CodecNew) (dec0 : Decoder) (pkts : List Bytes) (q : Bytes) :
    C01_fecRun C dec0 (pkts ++ [q]) =
      (((C01_fecRun C dec0 pkts).1.decode C q).st,
       (C01_fecRun C dec0 pkts).2 ++ C01_fecInputCalls C (C01_fecRun C dec0 pkts).1 q) := by
  unfold C01_fecRun
  rw [List.foldl_append]
  rfl

theorem genuine_flag {C : CodecNew} {grp : FecDec.Family} {d p : Nat} {q : Bytes}
    (h : FecDec.GenuinePkt C grp d p q) : Fec.flag q = typeData ∨ Fec.flag q = typeParity := by
  obtain ⟨G, j, _, _, _, _, _, rfl⟩ := h
  rw [FecDec.flag_packet]
  split
  · exact Or.inl rfl
  · exact Or.inr rfl

/-- **delivery of a genuine FEC packet to the reader is a sequence of deliveries of datagrams the
writer's core emitted** -/
theorem fecInput_dlv {C : CodecNew} {d p : Nat} {dec0 : Decoder} (hs : FecSound C d p dec0)
    {s : FecSys} {S : Sys} (h : FecInv C dec0 s S) (hg : EncGenuine C d p s.A)
    (q : Bytes) (hq : q ∈ s.A.wire) (now : U32) (gap : Int) :
    ∃ cops : List SOp, FecInv C dec0 { s with B := fecStep C s.B (.input q now gap) } (srun S cops) := by
  obtain ⟨grp, hg1, hg2⟩ := hg
  have hkB : s.B.x.s.k = S.B.k := h.b.k
  unfold fecStep
  by_cases hd : s.B.dead = true
  · rw [if_pos hd]; exact ⟨[], h⟩
  · rw [if_neg hd]
    simp only []
    by_cases hp : (packetInput C s.B.x q now gap).panic = true
    · rw [if_pos hp]
      exact ⟨[], ⟨h.a, h.w, refK_dead h.b, h.r, h.dec, h.sub⟩⟩
    · rw [if_neg hp]
      obtain ⟨hcp, hss, hsd⟩ := packetInput_ok C s.B.x q now gap (by simpa using hp)
      have hflag := genuine_flag (hg1 q hq)
      by_cases ht : toDecoder q = true
      · -- the packet reaches the decoder
        obtain ⟨e1, e2⟩ := kcpInputCore_fec C s.B.x q now _ h.dec ht
        rw [if_pos ht]
        have hgen : ∀ x ∈ s.B.recvd ++ [q], FecDec.GenuinePkt C grp d p x := by
          intro x hx
          rcases List.mem_append.mp hx with h1 | h1
          · exact hg1 x (h.sub x h1)
          · rw [List.mem_singleton.mp h1]; exact hg1 q hq
        have hcalls : ∀ cl ∈ C01_fecInputCalls C (C01_fecRun C dec0 s.B.recvd).1 q,
            cl.1 ∈ S.A.wire ∨ cl.1.length < IKCP_OVERHEAD := by
          intro cl hcl
          have hmem : cl ∈ (C01_fecRun C dec0 (s.B.recvd ++ [q])).2 := by
            rw [fecRun_snoc]; exact List.mem_append_right _ hcl
          obtain ⟨G, k, h1, _, h3, h4, _⟩ := hs grp _ hgen cl hmem
          rw [h4]
          have hw : s.A.cwire = S.A.wire := h.a.wire
          rw [← hw]
          exact hg2 G k h1 h3
        rw [e1] at hcp
        obtain ⟨cops, X, j, o1, o2, o3, o4, o5, o6, o7, _, _⟩ :=
          chain_dlv s.B.x.s.ackNoDelay now _ { k := s.B.x.s.k } S hkB h.b.alive rfl hcp hcalls
        have o5' : (chain s.B.x.s.ackNoDelay now { k := s.B.x.s.k } (C01_fecInputCalls C (C01_fecRun C dec0 s.B.recvd).1 q)).outs = X := by
          rw [o5]; rfl
        refine ⟨cops, ⟨by rw [o1]; exact h.a, h.w, ⟨?_, ?_, ?_, o3⟩, ?_, ?_, ?_⟩⟩
        · show (packetInput C s.B.x q now gap).s.s.k = _
          rw [hss, o2, e1]
        · show s.B.log ++ admitted s.B.x.s.k (kcpInputCore C s.B.x q now).c.k = _
          rw [o7, e1]
          have : s.B.log = S.B.log := h.b.log
          rw [this]
        · show s.B.cwire ++ (kcpInputCore C s.B.x q now).c.outs = _
          rw [o6, e1, o5']
          have : s.B.cwire = S.B.wire := h.b.wire
          rw [this]
        · show s.B.rd ++ (packetInput C s.B.x q now gap).s.s.bufptr = (srun S cops).B.got.flatten
          rw [hss, o4]; exact h.r
        · show (packetInput C s.B.x q now gap).s.dec = some (C01_fecRun C dec0 (s.B.recvd ++ [q])).1
          rw [hsd, e2, fecRun_snoc]
        · intro x hx
          have hx' : x ∈ s.B.recvd ++ [q] := hx
          rcases List.mem_append.mp hx' with h1 | h1
          · exact h.sub x h1
          · rw [List.mem_singleton.mp h1]; exact hq
      · -- stopped by one of the size checks in front of the decoder: no effect
        have ht' : toDecoder q = false := by simpa using ht
        obtain ⟨e1, e2, _, e4⟩ := kcpInputCore_skip C s.B.x q now ht' hflag
        rw [if_neg ht]
        refine ⟨[], ⟨h.a, h.w, ⟨?_, ?_, ?_, h.b.alive⟩, ?_, ?_, ?_⟩⟩
        · show (packetInput C s.B.x q now gap).s.s.k = _
          rw [hss]; show (kcpInputCore C s.B.x q now).c.k = _; rw [e1]; exact hkB
        · show s.B.log ++ admitted s.B.x.s.k (kcpInputCore C s.B.x q now).c.k = _
          rw [e1, admitted_self _ _ rfl, List.append_nil]; exact h.b.log
        · show s.B.cwire ++ (kcpInputCore C s.B.x q now).c.outs = _
          rw [e2, List.append_nil]; exact h.b.wire
        · show s.B.rd ++ (packetInput C s.B.x q now gap).s.s.bufptr = _
          rw [hss]; exact h.r
        · show (packetInput C s.B.x q now gap).s.dec = some (C01_fecRun C dec0 (s.B.recvd ++ [])).1
          rw [hsd, e4, List.append_nil]; exact h.dec
        · intro x hx
          have hx' : x ∈ s.B.recvd ++ [] := hx
          rw [List.append_nil] at hx'
          exact h.sub x hx'

theorem fsstep_sim {C : CodecNew} {d p : Nat} {dec0 : Decoder} (hs : FecSound C d p dec0)
    {s : FecSys} {S : Sys} (h : FecInv C dec0 s S) (op : FSOp) (hg : stepGenuine C d p s op) :
    ∃ cops : List SOp, FecInv C dec0 (fsstep C s op) (srun S cops) := by
  cases op with
  | a op =>
    show ∃ cops, FecInv C dec0 { s with A := fecStep C s.A op } (srun S cops)
    obtain ⟨X, hX⟩ := fecStep_wire C s.A op
    have hsub : ∀ q ∈ s.B.recvd, q ∈ (fecStep C s.A op).wire := by
      intro q hq; rw [hX]; exact List.mem_append_left _ (h.sub q hq)
    rcases plainOp_some s.A op with ⟨dd, now, gap, rfl⟩ | ⟨sop, hsop⟩
    · obtain ⟨ops, h1, h2⟩ := fecInput_ref C h.a h.w dd now gap
      refine ⟨ops.map .a, ?_⟩
      rw [srun_mapA]
      exact ⟨h1, h2, h.b, h.r, h.dec, hsub⟩
    · obtain ⟨hcase, _, _, _⟩ := fecStep_plain C s.A op sop hsop
      rcases hcase with e | e
      · obtain ⟨ops, _, h1, _⟩ := sessStep_ref h.a sop
        refine ⟨ops.map .a, ?_⟩
        rw [srun_mapA]
        exact ⟨by rw [e]; exact h1, by rw [e]; exact sessStep_invW h.w sop, h.b, h.r, h.dec, hsub⟩
      · exact ⟨[], ⟨by rw [e]; exact refK_dead h.a, by rw [e]; exact ⟨h.w.mss, h.w.acc⟩, h.b, h.r, h.dec, hsub⟩⟩
  | b op =>
    by_cases hi : isFecInput op = true
    · have e : fsstep C s (.b op) = s := by simp [fsstep, hi]
      rw [e]; exact ⟨[], h⟩
    · have e : fsstep C s (.b op) = { s with B := fecStep C s.B op } := by simp [fsstep, hi]
      rw [e]
      rcases plainOp_some s.B op with ⟨dd, now, gap, rfl⟩ | ⟨sop, hsop⟩
      · simp [isFecInput] at hi
      · obtain ⟨hcase, hdec, hrec, _⟩ := fecStep_plain C s.B op sop hsop
        have hni := plainOp_notInput s.B op sop hsop
        rcases hcase with e2 | e2
        · obtain ⟨ops, ho, h1, h2⟩ := sessStep_ref h.b sop
          have hn : ∀ o ∈ ops, isInput o = false := by
            cases sop <;> first | exact ho | (simp [isSessInput] at hni)
          refine ⟨ops.map .b, ?_⟩
          rw [srun_mapB ops hn]
          exact ⟨h.a, h.w, by rw [e2]; exact h1, by rw [e2]; exact h2 h.r,
            by rw [hdec, hrec]; exact h.dec, by rw [hrec]; exact h.sub⟩
        · refine ⟨[], ⟨h.a, h.w, by rw [e2]; exact refK_dead h.b, ?_, by rw [hdec, hrec]; exact h.dec,
            by rw [hrec]; exact h.sub⟩⟩
          rw [e2]; exact h.r
  | dlv i now gap =>
    cases hd : s.A.wire[i]? with
    | none =>
      have e : fsstep C s (.dlv i now gap) = s := by simp [fsstep, hd]
      rw [e]; exact ⟨[], h⟩
    | some q =>
      have e : fsstep C s (.dlv i now gap) = { s with B := fecStep C s.B (.input q now gap) } := by
        simp [fsstep, hd]
      rw [e]
      exact fecInput_dlv hs h hg q (List.mem_of_getElem? hd) now gap

theorem fsrun_sim {C : CodecNew} {d p : Nat} {dec0 : Decoder} (hs : FecSound C d p dec0) (ops : List FSOp) :
    ∀ (s : FecSys) (S : Sys), FecInv C dec0 s S → FecRunGenuine C d p s ops →
      ∃ cops : List SOp, FecInv C dec0 (fsrun C s ops) (srun S cops) := by
  induction ops with
  | nil => intro s S h _; exact ⟨[], h⟩
  | cons op rest ih =>
    intro s S h hg
    obtain ⟨c1, h1⟩ := fsstep_sim hs h op hg.1
    obtain ⟨c2, h2⟩ := ih (fsstep C s op) (srun S c1) h1 hg.2
    exact ⟨c1 ++ c2, by rw [srun_append]; exact h2⟩

end KcpVerif.C01
