/-
Zero-window probing on the closed system (repaired model, arbitrary reachable states): the core facts.
A flush of a sender whose `rmt_wnd` is 0 arms the probe timer, leaves it alone before its time, and
writes a WASK frame at or after its time; a receiver that owes an answer (ASK_TELL) writes a WINS frame
at its next flush, and every frame of that flush carries the window computed at that flush; the sender
takes over the window field of every frame it parses.
-/
import KcpVerif.Lemmas.SysDrainAll

namespace KcpVerif.SysC
open KcpVerif KcpVerif.Gen KcpVerif.Kcp KcpVerif.Live KcpVerif.Wire KcpVerif.SysW KcpVerif.Sys

/-- the probe timer of a flush with a closed remote window -/
theorem flush_probe_closed (k : Kcp) (full : Bool) (now : U32) (h0 : k.rmt_wnd = 0) :
    (k.probe_wait = 0 → (flush k full now).k.probe_wait = u32 IKCP_PROBE_INIT ∧
      (flush k full now).k.ts_probe = now + u32 IKCP_PROBE_INIT) ∧
    (k.probe_wait ≠ 0 → itimediff now k.ts_probe < 0 →
      (flush k full now).k.probe_wait = k.probe_wait ∧ (flush k full now).k.ts_probe = k.ts_probe) ∧
    (k.probe_wait ≠ 0 → itimediff now k.ts_probe ≥ 0 →
      (flush k full now).k.probe_wait = nextProbeWait k.probe_wait ∧
      (flush k full now).k.ts_probe = now + nextProbeWait k.probe_wait ∧
      ∃ fr ∈ flushFrs k full now, fr.cmd.toNat = IKCP_CMD_WASK) := by
  have hf := flush_probe_timer k full now
  refine ⟨fun h1 => ?_, fun h1 h2 => ?_, fun h1 h2 => ?_⟩
  · have hpp : probePhase { k with acklist := [] } now =
        { k with acklist := [], probe_wait := u32 IKCP_PROBE_INIT, ts_probe := now + u32 IKCP_PROBE_INIT } := by
      unfold probePhase
      rw [if_pos h0, if_pos h1]
    rw [hf.1, hf.2, hpp]; exact ⟨rfl, rfl⟩
  · have hpp : probePhase { k with acklist := [] } now = { k with acklist := [] } := by
      unfold probePhase
      rw [if_pos h0, if_neg h1, if_neg (by show ¬ itimediff now k.ts_probe ≥ 0; omega)]
    rw [hf.1, hf.2, hpp]; exact ⟨rfl, rfl⟩
  · have hpp : probePhase { k with acklist := [] } now =
        { k with acklist := [], probe_wait := nextProbeWait k.probe_wait, ts_probe := now + nextProbeWait k.probe_wait,
                 probe := k.probe ||| u32 IKCP_ASK_SEND } := by
      unfold probePhase
      rw [if_pos h0, if_neg h1, if_pos h2]
    refine ⟨by rw [hf.1, hpp], by rw [hf.2, hpp], ?_⟩
    have hprobe : (flF2 k now).k.probe &&& u32 IKCP_ASK_SEND ≠ 0 := by
      rw [flF2_k, hpp]; exact send_bit _
    refine ⟨⟨(flF2 k now).k.conv, BitVec.ofNat 8 IKCP_CMD_WASK, 0, wndUnused k, (flAck k).sc.ts, (flAck k).sc.sn,
      k.rcv_nxt, []⟩, ?_, by show (BitVec.ofNat 8 IKCP_CMD_WASK).toNat = IKCP_CMD_WASK; decide⟩
    unfold flushFrs probeFrs waskFrs
    rw [if_pos hprobe]
    simp

/-- a receiver that owes an answer writes a WINS frame at its next flush -/
theorem flush_wins_frame (k : Kcp) (full : Bool) (now : U32) (h : k.probe &&& u32 IKCP_ASK_TELL ≠ 0) :
    ∃ fr ∈ flushFrs k full now, fr.cmd.toNat = IKCP_CMD_WINS := by
  have hprobe : (flF3a k now).k.probe &&& u32 IKCP_ASK_TELL ≠ 0 := by
    rw [flF3a_k, flF2_k]
    rcases probePhase_probe { k with acklist := [] } now with e | e
    · rw [e]; exact h
    · rw [e]; exact tell_or_any _ _ h
  refine ⟨⟨(flF3a k now).k.conv, BitVec.ofNat 8 IKCP_CMD_WINS, 0, wndUnused k, (flAck k).sc.ts, (flAck k).sc.sn,
    k.rcv_nxt, []⟩, ?_, by show (BitVec.ofNat 8 IKCP_CMD_WINS).toNat = IKCP_CMD_WINS; decide⟩
  unfold flushFrs probeFrs winsFrs
  rw [if_pos hprobe]
  simp

/-- every frame of a flush of a pure receiver carries the window computed at that flush -/
theorem flush_wnd_rcv (k : Kcp) (full : Bool) (now : U32) (hsb : k.snd_buf = []) (hsq : k.snd_queue = []) :
    ∀ fr ∈ flushFrs k full now, fr.wnd = wndUnused k := by
  intro fr hfr
  rw [(flush_empty k full now hsb hsq).1] at hfr
  rcases List.mem_append.mp hfr with h | h
  · unfold ackFrsOf at h
    exact (ackFrs_mem _ _ _ _ _ _ _ 0 fr h).2.2.1
  · unfold probeFrs waskFrs winsFrs at h
    rcases List.mem_append.mp h with h | h
    · split at h
      · rw [List.mem_singleton.mp h]
      · simp at h
    · split at h
      · rw [List.mem_singleton.mp h]
      · simp at h

theorem wndUnused_ne (k : Kcp) (h1 : k.rcv_queue.length < k.rcv_wnd.toNat) (h2 : k.rcv_wnd.toNat < 65536) :
    wndUnused k ≠ 0 := by
  unfold wndUnused
  rw [if_pos h1]
  intro h
  have := congrArg BitVec.toNat h
  have z : (0 : BitVec 16).toNat = 0 := rfl
  rw [z] at this
  simp only [BitVec.toNat_ofNat] at this
  omega

/-- the sender takes over the window field of every frame -/
theorem inFr_rmt (st : InLoop) (fr : Frm) : (inFr true st fr).k.rmt_wnd = fr.wnd.setWidth 32 := by
  unfold inFr
  obtain ⟨sb, su, al, rb, rq, rn, pr, h⟩ := inStep_frame true fr.conv fr.cmd fr.frg fr.wnd fr.ts fr.sn fr.una fr.data st
  rw [h]; rfl

theorem setWidth_ne (w : BitVec 16) (h : w ≠ 0) : w.setWidth 32 ≠ 0 := by
  intro e
  apply h
  have := congrArg BitVec.toNat e
  have z : (0 : BitVec 32).toNat = 0 := rfl
  have z' : (0 : BitVec 16).toNat = 0 := rfl
  rw [z] at this
  simp only [BitVec.toNat_setWidth] at this
  apply BitVec.eq_of_toNat_eq
  have := w.isLt
  rw [z']
  omega

theorem inFrs_rmt_keep : ∀ (frs : List Frm) (st : InLoop), (∀ fr ∈ frs, fr.wnd ≠ 0) → st.k.rmt_wnd ≠ 0 →
    (inFrs true frs st).k.rmt_wnd ≠ 0 := by
  intro frs
  induction frs with
  | nil => intro st _ h; exact h
  | cons fr rest ih =>
    intro st hall _
    have h1 : (inFr true st fr).k.rmt_wnd ≠ 0 := by
      rw [inFr_rmt]; exact setWidth_ne _ (hall fr (List.mem_cons_self ..))
    unfold inFrs
    split
    · exact h1
    · exact ih _ (fun x hx => hall x (List.mem_cons_of_mem _ hx)) h1

/-- a datagram all of whose frames carry a non-zero window opens the sender's remote window -/
theorem inFrs_rmt_open (frs : List Frm) (st : InLoop) (hne : frs ≠ []) (hall : ∀ fr ∈ frs, fr.wnd ≠ 0) :
    (inFrs true frs st).k.rmt_wnd ≠ 0 := by
  cases frs with
  | nil => exact absurd rfl hne
  | cons fr rest =>
    have h1 : (inFr true st fr).k.rmt_wnd ≠ 0 := by
      rw [inFr_rmt]; exact setWidth_ne _ (hall fr (List.mem_cons_self ..))
    unfold inFrs
    split
    · exact h1
    · exact inFrs_rmt_keep rest _ (fun x hx => hall x (List.mem_cons_of_mem _ hx)) h1

/-- a WASK frame leaves ASK_TELL set at the end of the datagram -/
theorem inFr_tell (st : InLoop) (fr : Frm) :
    (fr.cmd.toNat = IKCP_CMD_WASK ∨ st.k.probe &&& u32 IKCP_ASK_TELL ≠ 0) →
    (inFr true st fr).k.probe &&& u32 IKCP_ASK_TELL ≠ 0 := by
  intro h
  unfold inFr
  rw [inStep_probe]
  split
  · exact tell_or _
  · rcases h with h | h
    · rename_i hn; exact absurd h hn
    · exact h

theorem inFrs_tell : ∀ (frs : List Frm) (st : InLoop),
    ((∃ fr ∈ frs, fr.cmd.toNat = IKCP_CMD_WASK) ∨ st.k.probe &&& u32 IKCP_ASK_TELL ≠ 0) →
    (inFrs true frs st).panic = false → (inFrs true frs st).k.probe &&& u32 IKCP_ASK_TELL ≠ 0 := by
  intro frs
  induction frs with
  | nil =>
    intro st h _
    rcases h with ⟨fr, hfr, _⟩ | h
    · simp at hfr
    · exact h
  | cons fr rest ih =>
    intro st h hp
    unfold inFrs at hp ⊢
    by_cases hpan : (inFr true st fr).panic = true
    · rw [if_pos hpan] at hp
      rw [hp] at hpan; cases hpan
    · rw [if_neg hpan] at hp ⊢
      apply ih _ _ hp
      rcases h with ⟨x, hx, hw⟩ | h
      · rcases List.mem_cons.mp hx with rfl | hx'
        · exact Or.inr (inFr_tell st x (Or.inl hw))
        · exact Or.inl ⟨x, hx', hw⟩
      · exact Or.inr (inFr_tell st fr (Or.inr h))

theorem recv_tell (k : Kcp) (n : Nat) (h : k.probe &&& u32 IKCP_ASK_TELL ≠ 0) :
    (recv k n).k.probe &&& u32 IKCP_ASK_TELL ≠ 0 := by
  unfold recv
  simp only []
  split; · exact h
  split; · exact h
  split
  · exact tell_or _
  · unfold moveReady; exact h

/-- `Input` leaves the probe timer and the interval alone, whatever the frames -/
theorem inFrs_probe_timer : ∀ (frs : List Frm) (st : InLoop),
    (inFrs true frs st).k.probe_wait = st.k.probe_wait ∧ (inFrs true frs st).k.ts_probe = st.k.ts_probe ∧
    (inFrs true frs st).k.interval = st.k.interval := by
  intro frs
  induction frs with
  | nil => intro st; exact ⟨rfl, rfl, rfl⟩
  | cons fr rest ih =>
    intro st
    have h1 : (inFr true st fr).k.probe_wait = st.k.probe_wait ∧ (inFr true st fr).k.ts_probe = st.k.ts_probe ∧
        (inFr true st fr).k.interval = st.k.interval := by
      unfold inFr
      obtain ⟨sb, su, al, rb, rq, rn, pr, h⟩ := inStep_frame true fr.conv fr.cmd fr.frg fr.wnd fr.ts fr.sn fr.una fr.data st
      rw [h]; exact ⟨rfl, rfl, rfl⟩
    unfold inFrs
    split
    · exact h1
    · obtain ⟨a, b, c⟩ := ih (inFr true st fr)
      exact ⟨a.trans h1.1, b.trans h1.2.1, c.trans h1.2.2⟩

/-- the fields of A that the probing chain reads, after the loop and the two optional updates -/
theorem inA_probe (st : InLoop) (k1 : Kcp) (hk1 : k1 = st.k ∨ ∃ rtt, k1 = updateAck st.k rtt) (u : U32) :
    (cwndOnAck k1 u).probe_wait = st.k.probe_wait ∧ (cwndOnAck k1 u).ts_probe = st.k.ts_probe ∧
    (cwndOnAck k1 u).interval = st.k.interval ∧ (cwndOnAck k1 u).rmt_wnd = st.k.rmt_wnd := by
  obtain ⟨cw, inc, hcw⟩ := cwndOnAck_shape' k1 u
  rw [hcw]
  rcases hk1 with rfl | ⟨rtt, rfl⟩
  · exact ⟨rfl, rfl, rfl, rfl⟩
  · obtain ⟨a, b, r, he⟩ := updateAck_shape' st.k rtt
    rw [he]; exact ⟨rfl, rfl, rfl, rfl⟩

theorem clk_add (t n : Nat) : clk t + u32 n = clk (t + n) := by
  unfold clk u32
  apply BitVec.eq_of_toNat_eq
  simp only [BitVec.toNat_add, BitVec.toNat_ofNat]
  omega

/-- **a full flush of a sender with a closed remote window at time `t`**: an unarmed probe timer is armed
(`IKCP_PROBE_INIT` ahead), an armed one is left alone before its time, and at or after its time a WASK
frame is written -/
theorem zA_flush (K : Kcp) (t IA T0 T1 : Nat) (h0 : K.rmt_wnd = 0) (hiv : K.interval.toNat = IA)
    (hz : (K.probe_wait = 0 ∧ t ≤ T0 ∧ T0 + IKCP_PROBE_INIT + IA ≤ T1 ∧ T1 < t + IKCP_PROBE_INIT + 2 ^ 31) ∨
      (K.probe_wait ≠ 0 ∧ t ≤ T1 ∧ ∃ P, K.ts_probe = clk P ∧ P + IA ≤ T1 ∧ T1 < P + 2 ^ 31)) :
    ((flush K true (clk t)).k.probe_wait ≠ 0 ∧ t + (flush K true (clk t)).interval.toNat ≤ T1 ∧
      ∃ P, (flush K true (clk t)).k.ts_probe = clk P ∧ P + IA ≤ T1 ∧ T1 < P + 2 ^ 31) ∨
    (∃ fr ∈ flushFrs K true (clk t), fr.cmd.toNat = IKCP_CMD_WASK) := by
  obtain ⟨f0, f1, f2⟩ := flush_probe_closed K true (clk t) h0
  have hle := flush_interval_le K (clk t)
  rw [BitVec.le_def, hiv] at hle
  rcases hz with ⟨z1, z2, z3, z4⟩ | ⟨z1, z2, P, zP, z3, z4⟩
  · left
    obtain ⟨e1, e2⟩ := f0 z1
    refine ⟨by rw [e1]; unfold u32 IKCP_PROBE_INIT; decide, by omega, t + IKCP_PROBE_INIT, by rw [e2, clk_add], by omega, by omega⟩
  · by_cases hdue : itimediff (clk t) K.ts_probe ≥ 0
    · right
      exact (f2 z1 hdue).2.2
    · left
      obtain ⟨e1, e2⟩ := f1 z1 (by omega)
      have hlt : t < P := by
        rcases Nat.lt_or_ge t P with hlt | hge
        · exact hlt
        · exfalso
          apply hdue
          rw [zP]
          exact clk_due t P hge (by omega)
      exact ⟨by rw [e1]; exact z1, by omega, P, by rw [e2]; exact zP, z3, z4⟩

/-- a frame of A's flush is in one of the datagrams it emits -/
theorem emitA {p : Par} {s : State} {gab gba : GLink} (h : Cons p s gab gba) (hnw : NoWrap p.base s) (fr : Frm)
    (hfr : fr ∈ flushFrs s.A true (clk s.now)) :
    ∃ g, (⟨s.now + s.D, encFrames g⟩ : Dgram) ∈ stamp (s.now + s.D) (s.A.flush true (clk s.now)).outs ∧ fr ∈ g ∧
      ∀ x ∈ g, x.data.length ≤ mtuLimit := by
  obtain ⟨g1, g2, g3, g4, g5, g6, g7⟩ := flush_gen p.base s.A (clk s.now) h.aK h.aack h.acon
    (by rw [h.aconv]; exact h.atag) h.aq hnw
  obtain ⟨hpan, _, _, _⟩ := Total.flush_total h.aK true (clk s.now)
  obtain ⟨gs, hgs, hfl⟩ := flush_frames s.A true (clk s.now) hpan
  have hfr' := hfr
  rw [← hfl] at hfr'
  obtain ⟨g, hg, hfg⟩ := List.mem_flatten.mp hfr'
  refine ⟨g, ?_, hfg, ?_⟩
  · rw [hgs]
    unfold stamp
    exact List.mem_map.mpr ⟨encFrames g, List.mem_map.mpr ⟨g, hg, rfl⟩, rfl⟩
  · intro x hx
    have : x ∈ flushFrs s.A true (clk s.now) := by rw [← hfl]; exact List.mem_flatten.mpr ⟨g, hg, hx⟩
    exact (g7 x this).2.1.2

/-- a frame of a pure receiver's flush is in one of the datagrams it emits; all frames of that datagram
are header-only and carry the window computed at that flush -/
theorem emitB (K : Kcp) (hsb : K.snd_buf = []) (hsq : K.snd_queue = []) (full : Bool) (now : U32)
    (hpan : (flush K full now).panic = false) (fr : Frm) (hfr : fr ∈ flushFrs K full now) :
    ∃ g, encFrames g ∈ (flush K full now).outs ∧ g ≠ [] ∧ (∀ x ∈ g, x.data = []) ∧ ∀ x ∈ g, x.wnd = wndUnused K := by
  obtain ⟨gs, hgs, hfl⟩ := flush_frames K full now hpan
  have hfr' := hfr
  rw [← hfl] at hfr'
  obtain ⟨g, hg, hfg⟩ := List.mem_flatten.mp hfr'
  refine ⟨g, ?_, ?_, ?_, ?_⟩
  · rw [hgs]; exact List.mem_map.mpr ⟨g, hg, rfl⟩
  · intro e; rw [e] at hfg; simp at hfg
  · intro x hx
    have hx' : x ∈ flushFrs K full now := by rw [← hfl]; exact List.mem_flatten.mpr ⟨g, hg, hx⟩
    rw [(flush_empty K full now hsb hsq).1] at hx'
    rcases List.mem_append.mp hx' with h | h
    · exact (ackFrsOf_mem K x h).2.2.2.1
    · exact (probeFrs_mem K now x h).2.2.2
  · intro x hx
    exact flush_wnd_rcv K full now hsb hsq x (by rw [← hfl]; exact List.mem_flatten.mpr ⟨g, hg, hx⟩)

end KcpVerif.SysC
