/-
Towards the general drain under the reader condition only (`QOk`: a reader with nothing to read has not
left the queue full): the pieces.  While A has nothing outstanding `snd_una` and `snd_nxt` stand still
(`quiet_una_step`), B's `rcv_nxt` never goes back (`rnxt_mono_step`), the progress step with "B is not
behind" as a hypothesis (`head_stage_rb`), and the maximal prefix of a run before A numbers a segment,
along which B's queue provably stays not full (`qp_prefix`).
-/
import KcpVerif.Lemmas.SysDrainQuietB

namespace KcpVerif.SysC
open KcpVerif KcpVerif.Gen KcpVerif.Kcp KcpVerif.Live KcpVerif.Wire KcpVerif.SysW KcpVerif.Sys

/-- with nothing outstanding, no event other than `Send` … moves `snd_una` -/
theorem quiet_una_step {p : Par} {s : State} {gab gba : GLink} (h : Cons p s gab gba) (hnw : NoWrap p.base s)
    (hb : s.A.snd_buf = []) (ev : Ev) : (Sys.step s ev).A.snd_una = s.A.snd_una := by
  cases ev with
  | tick =>
    rw [show Sys.step s .tick = (if quiet s then { s with now := s.now + 1 } else s) from rfl]
    split <;> rfl
  | send b =>
    have hq := Frame.send_k s.A b
    show (s.A.send b).k.snd_una = _
    rw [hq]
  | read =>
    rw [show Sys.step s .read = (if (s.B.recv s.B.peekSize.toNat).n < 0 then s
      else { s with B := (s.B.recv s.B.peekSize.toNat).k, got := s.got ++ (s.B.recv s.B.peekSize.toNat).data }) from rfl]
    split <;> rfl
  | flushB => rfl
  | flushA => exact flush_una s.A true (clk s.now)
  | dlvB =>
    cases hab : s.ab with
    | nil =>
      have : Sys.step s .dlvB = s := by simp only [Sys.step, hab]
      rw [this]
    | cons d rest =>
      rw [step_dlvB_cons s _ _ hab]
      split <;> rfl
  | dlvA =>
    cases gba with
    | nil =>
      have : Sys.step s .dlvA = s := by simp only [Sys.step, h.hba, encL, List.map_nil]
      rw [this]
    | cons d0 grest =>
      obtain ⟨t0, frs⟩ := d0
      have hd0 : ((t0, frs) : Nat × List Frm) ∈ (t0, frs) :: grest := List.mem_cons_self ..
      have hba : s.ba = ⟨t0, encFrames frs⟩ :: encL grest := h.hba
      rw [step_dlvA_cons s _ _ hba]
      split
      · by_cases hne : frs = []
        · subst hne
          simp only [input_empty]
        · obtain ⟨hv, hp, hr, _, _, _, _⟩ := cons_inA h hnw (inFrs true frs { k := s.A }).k (Or.inl rfl)
          obtain ⟨k1, hk1, himp⟩ := inputA_cases s.A frs s.ndA (clk s.now) hv hp hr
          obtain ⟨_, _, _, hal, hnx, hsq, hclean⟩ := cons_inA h hnw k1 hk1
          have hcmds : ∀ fr ∈ frs, fr.cmd.toNat = IKCP_CMD_ACK ∨ fr.cmd.toNat = IKCP_CMD_WASK ∨ fr.cmd.toNat = IKCP_CMD_WINS :=
            fun fr hfr => (h.fba (t0, frs) hd0 fr hfr).2.2.1
          have hkeep := inFrs_keeps frs { k := s.A } hcmds
          have hbK : (cwndOnAck k1 s.A.snd_una).snd_buf = [] := by
            rw [(inA_buf (inFrs true frs { k := s.A }) k1 hk1 s.A.snd_una).1]
            cases hl : (inFrs true frs { k := s.A }).k.snd_buf with
            | nil => rfl
            | cons x r =>
              obtain ⟨y, hy, _⟩ := hkeep x (by rw [hl]; exact List.mem_cons_self ..)
              have : y ∈ ([] : List Seg) := by rw [← hb]; exact hy
              simp at this
          have hcon : Contig p.base (cwndOnAck k1 s.A.snd_una) := hclean.acon
          have hK : (cwndOnAck k1 s.A.snd_una).snd_una = s.A.snd_una := by
            rw [← una_eq_nxt hcon hbK, hnx, una_eq_nxt h.acon hb]
          rcases himp hal hclean.aK with hin | hin | ⟨hnil, _⟩
          · simp only [hin]; exact hK
          · simp only [hin]
            exact (flush_una (cwndOnAck k1 s.A.snd_una) true (clk s.now)).trans hK
          · exact absurd hnil hne
      · rfl

/-- B's `rcv_nxt` never goes back -/
theorem rnxt_mono_step {p : Par} {s : State} {gab gba : GLink} (h : Cons p s gab gba) (hnw : NoWrap p.base s) (ev : Ev) :
    o p.base s.B.rcv_nxt ≤ o p.base (Sys.step s ev).B.rcv_nxt := by
  cases ev with
  | tick =>
    rw [show Sys.step s .tick = (if quiet s then { s with now := s.now + 1 } else s) from rfl]
    split <;> exact Nat.le_refl _
  | send b => exact Nat.le_refl _
  | read =>
    rw [show Sys.step s .read = (if (s.B.recv s.B.peekSize.toNat).n < 0 then s
      else { s with B := (s.B.recv s.B.peekSize.toNat).k, got := s.got ++ (s.B.recv s.B.peekSize.toNat).data }) from rfl]
    split
    · exact Nat.le_refl _
    · have hnw' := hnw
      unfold NoWrap at hnw'
      exact (recv_rcvStep p.base (o p.base s.A.snd_nxt) (by omega) s.B s.B.peekSize.toNat h.bsb h.bub h.bbuf).lo
  | flushA => exact Nat.le_refl _
  | flushB =>
    obtain ⟨pw, tp, st, ss, cw, inc, hk⟩ := flush_frame s.B true (clk s.now)
    show _ ≤ o p.base (s.B.flush true (clk s.now)).k.rcv_nxt
    rw [hk]; exact Nat.le_refl _
  | dlvA =>
    cases hba : s.ba with
    | nil =>
      have : Sys.step s .dlvA = s := by simp only [Sys.step, hba]
      rw [this]; exact Nat.le_refl _
    | cons d' rest =>
      rw [step_dlvA_cons s _ _ hba]
      split <;> exact Nat.le_refl _
  | dlvB =>
    cases gab with
    | nil =>
      have : Sys.step s .dlvB = s := by simp only [Sys.step, h.hab, encL, List.map_nil]
      rw [this]; exact Nat.le_refl _
    | cons d0 grest =>
      obtain ⟨t0, frs0⟩ := d0
      have hab : s.ab = ⟨t0, encFrames frs0⟩ :: encL grest := h.hab
      rw [step_dlvB_cons s _ _ hab]
      split
      · exact (dlvB_keeps h hnw).1
      · exact Nat.le_refl _

/-- the per-state run hypotheses under the reader condition -/
def FairHyp (p : Par) (Rmax IA : Nat) (s : State) : Prop :=
  Small p.base s ∧ (0 < s.B.rcv_wnd.toNat ∧ s.B.rcv_wnd.toNat < 65536) ∧ QOk s ∧ TmrOk Rmax IA s ∧ CfgA s.A

theorem fair_noWrap {p : Par} {Rmax IA : Nat} : ∀ (evs : List Ev) (s : State), RunP (FairHyp p Rmax IA) s evs →
    RunNoWrap p.base s evs := by
  intro evs
  induction evs with
  | nil => intro s h; exact h.1.noWrap
  | cons ev rest ih => intro s h; exact ⟨h.1.1.noWrap, ih _ h.2⟩

theorem fair_smallH {p : Par} {Rmax IA : Nat} (evs : List Ev) (s : State) (h : RunP (FairHyp p Rmax IA) s evs) :
    RunSmallH p.base s evs :=
  runP_smallH p.base evs s (RunP.mono (fun _ h => ⟨h.1, h.2.1.1⟩) evs s h)

/-- the progress step with "B is not behind A's head" as a hypothesis -/
theorem head_stage_rb {p : Par} {IA IB Rmax : Nat} {s : State} (hi : Inv p IA IB s) (hR : Rmax + IA < 2 ^ 31)
    (hb : s.A.snd_buf ≠ []) (hrb : o p.base s.A.snd_una ≤ o p.base s.B.rcv_nxt) (evs : List Ev)
    (hr : RunP (FairHyp p Rmax IA) s evs)
    (hnow : s.now + Rmax + IA + s.D + IB + s.D < (Sys.run s evs).now) :
    o p.base s.A.snd_una < o p.base (Sys.run s evs).A.snd_una := by
  obtain ⟨gab, gba, hc⟩ := hi.cons
  have hsm := fair_smallH evs s hr
  have hH := RunP.head hr
  cases hbb : s.A.snd_buf with
  | nil => exact absurd hbb hb
  | cons x rest =>
    have hhl : s.A.snd_una = x.sn := by
      have := hi.side.live.1
      unfold HeadLive at this
      rw [hbb] at this
      exact this.2
    rw [hhl] at hrb ⊢
    rcases hH.2.2.2.1 x rest hbb with h0 | ⟨h0, R, hR0, hR1, hR2⟩
    · exact retG3_done hc hi.side.live (o p.base x.sn) s.now (s.now + Rmax + IA) IA IB (by omega) hi.tb
        ⟨⟨x, rest, hbb, rfl, Or.inl h0⟩, hi.ta.iv, by have := hi.ta.nf; omega, by omega, hrb⟩ evs hsm (by omega)
    · exact retG3_done hc hi.side.live (o p.base x.sn) R (s.now + Rmax + IA) IA IB (by omega) hi.tb
        ⟨⟨x, rest, hbb, rfl, Or.inr ⟨h0, hR0⟩⟩, hi.ta.iv, by have := hi.ta.nf; omega, by omega, hrb⟩ evs hsm (by omega)

theorem fair_full {p : Par} {Rmax IA : Nat} {s : State} (h : FairHyp p Rmax IA s) (hq : QP p s) : FullHyp p Rmax IA s :=
  ⟨h.1, ⟨hq.2.2, h.2.1.2⟩, h.2.2.2.1, h.2.2.2.2⟩

/-- **the quiet prefix**: the longest prefix of the run before A's send buffer becomes non-empty; along it
B's queue is never full, so the stronger run hypotheses hold -/
theorem qp_prefix {p : Par} {IA IB Rmax : Nat} (evs : List Ev) : ∀ (s : State), Inv p IA IB s → QP p s →
    RunP (FairHyp p Rmax IA) s evs →
    ∃ c d, evs = c ++ d ∧ RunP (FullHyp p Rmax IA) s c ∧ QP p (Sys.run s c) ∧
      (∀ a b, c = a ++ b → (Sys.run s a).A.snd_buf = []) ∧
      (d = [] ∨ ∃ ev d', d = ev :: d' ∧ (Sys.step (Sys.run s c) ev).A.snd_buf ≠ []) := by
  induction evs with
  | nil =>
    intro s _ hq hr
    refine ⟨[], [], rfl, fair_full hr hq, hq, ?_, Or.inl rfl⟩
    intro a b e
    have : a = [] := by
      cases a with
      | nil => rfl
      | cons x r => simp at e
    subst this
    exact hq.1
  | cons ev rest ih =>
    intro s hi hq hr
    obtain ⟨gab, gba, hc⟩ := hi.cons
    have hnw := hr.1.1.noWrap
    by_cases hb' : (Sys.step s ev).A.snd_buf = []
    · have hq' := qp_step hc hi.side hnw hq ev hb'
      obtain ⟨c, d, e1, e2, e3, e4, e5⟩ := ih (Sys.step s ev) (inv_step hi hnw ev) hq' hr.2
      refine ⟨ev :: c, d, by rw [e1]; rfl, ⟨fair_full hr.1 hq, e2⟩, e3, ?_, e5⟩
      intro a b e
      cases a with
      | nil => exact hq.1
      | cons x r =>
        simp only [List.cons_append, List.cons.injEq] at e
        obtain ⟨rfl, e'⟩ := e
        exact e4 r b e'
    · refine ⟨[], ev :: rest, rfl, fair_full hr.1 hq, hq, ?_, Or.inr ⟨ev, rest, rfl, hb'⟩⟩
      intro a b e
      have : a = [] := by
        cases a with
        | nil => rfl
        | cons x r => simp at e
      subst this
      exact hq.1

end KcpVerif.SysC
