/-
Clean-path lemmas, sender side (C18 Tier 2): what a datagram of ACK / WASK / WINS frames whose `una`
covers their `sn` does to the send buffer (a prefix is dropped, nothing is marked, no `fastack`
moves), and what a FULL flush does when no segment in the send buffer is due (nothing is
retransmitted; the newly admitted segments are transmitted once).
-/
import KcpVerif.Lemmas.SysWire
import KcpVerif.Lemmas.KcpTotalOps

namespace KcpVerif.SysC
open KcpVerif KcpVerif.Gen KcpVerif.Kcp KcpVerif.Live KcpVerif.Wire KcpVerif.SysW

/-- offset of a sequence number from the first one of the run -/
def o (base x : U32) : Nat := (x - base).toNat

theorem itd (base a b : U32) (ha : o base a < 2 ^ 31) (hb : o base b < 2 ^ 31) :
    itimediff a b = (o base a : Int) - (o base b : Int) := by
  unfold o at *
  unfold itimediff
  have h1 : (a - b).toNat = ((a - base).toNat + 2 ^ 32 - (b - base).toNat) % 2 ^ 32 := by bv_omega
  simp only [BitVec.toInt_eq_toNat_cond]
  split <;> omega

theorem o_add (base x : U32) (n : Nat) (h : o base x + n < 2 ^ 32) : o base (x + u32 n) = o base x + n := by
  unfold o u32 at *
  have : (BitVec.ofNat 32 n).toNat = n := by rw [BitVec.toNat_ofNat]; omega
  bv_omega

theorem o_inj (base a b : U32) (h : o base a = o base b) : a = b := by
  unfold o at h; bv_omega

theorem o_self (base : U32) : o base base = 0 := by unfold o; simp

/-! ### `parse_una` on a sorted send buffer -/

def Sorted (base : U32) (l : List Seg) : Prop := l.Pairwise (fun a b => o base a.sn < o base b.sn)

theorem Sorted.drop {base : U32} {l : List Seg} (h : Sorted base l) (n : Nat) : Sorted base (l.drop n) :=
  List.Pairwise.sublist (List.drop_sublist n l) h

theorem unaCount_drop (base una : U32) (hu : o base una < 2 ^ 31) : ∀ l : List Seg, Sorted base l →
    (∀ x ∈ l, o base x.sn < 2 ^ 31) → ∀ x ∈ l.drop (unaCount una l), o base una ≤ o base x.sn := by
  intro l
  induction l with
  | nil => intro _ _ x hx; simp at hx
  | cons s rest ih =>
    intro hs hb x hx
    have hs' : Sorted base rest := (List.pairwise_cons.mp hs).2
    have hlt := (List.pairwise_cons.mp hs).1
    have h1 := itd base una s.sn hu (hb s (List.mem_cons_self ..))
    unfold unaCount at hx
    split at hx
    · exact ih hs' (fun y hy => hb y (List.mem_cons_of_mem _ hy)) x (by simpa using hx)
    · rename_i hc
      simp only [List.drop_zero] at hx
      rcases List.mem_cons.mp hx with rfl | hx
      · omega
      · have := hlt x hx; omega

theorem dropAcked_unacked : ∀ (l : List Seg), (∀ x ∈ l, x.acked = false) → dropAcked l = l := by
  intro l h
  cases l with
  | nil => rfl
  | cons s r =>
    unfold dropAcked
    rw [if_neg (by rw [h s (List.mem_cons_self ..)]; simp)]

theorem dropAcked_idem : ∀ (l : List Seg), dropAcked (dropAcked l) = dropAcked l := by
  intro l
  induction l with
  | nil => rfl
  | cons s r ih =>
    by_cases h : s.acked = true
    · have : dropAcked (s :: r) = dropAcked r := by rw [dropAcked, if_pos h]
      rw [this, ih]
    · have : dropAcked (s :: r) = s :: r := by rw [dropAcked, if_neg h]
      rw [this, this]

/-- `shrink_buf` is idempotent -/
theorem shrinkBuf_idem (k : Kcp) : shrinkBuf (shrinkBuf k) = shrinkBuf k := by
  rw [shrinkBuf_eq k, shrinkBuf_eq]
  simp only [dropAcked_idem]

theorem inPre_shrunk (regular : Bool) (wnd : BitVec 16) (una : U32) (k : Kcp) :
    shrinkBuf (inPre regular wnd una k) = inPre regular wnd una k := by
  unfold inPre; exact shrinkBuf_idem _

theorem inPre_true (wnd : BitVec 16) (una : U32) (k : Kcp) (hna : ∀ x ∈ k.snd_buf, x.acked = false) :
    inPre true wnd una k =
      { k with rmt_wnd := wnd.setWidth 32, snd_buf := k.snd_buf.drop (unaCount una k.snd_buf),
               snd_una := match k.snd_buf.drop (unaCount una k.snd_buf) with | s :: _ => s.sn | [] => k.snd_nxt } := by
  have hd : dropAcked (k.snd_buf.drop (unaCount una k.snd_buf)) = k.snd_buf.drop (unaCount una k.snd_buf) :=
    dropAcked_unacked _ (fun x hx => hna x (List.mem_of_mem_drop hx))
  unfold inPre parseUna
  rw [shrinkBuf_eq]
  simp only [↓reduceIte, hd]
  rfl

/-- the send side after the prologue of a step whose `una` is not beyond `snd_nxt` -/
theorem inPre_clean (base : U32) (wnd : BitVec 16) (una : U32) (k : Kcp)
    (hna : ∀ x ∈ k.snd_buf, x.acked = false)
    (hs : Sorted base k.snd_buf) (hb : ∀ x ∈ k.snd_buf, o base x.sn < o base k.snd_nxt)
    (hn : o base k.snd_nxt < 2 ^ 31) (hu : o base una ≤ o base k.snd_nxt) :
    ∃ c su, inPre true wnd una k = { k with rmt_wnd := wnd.setWidth 32, snd_buf := k.snd_buf.drop c, snd_una := su } ∧
      (∀ x ∈ k.snd_buf.drop c, o base una ≤ o base x.sn) ∧ o base una ≤ o base su ∧ o base su ≤ o base k.snd_nxt := by
  have hd := unaCount_drop base una (by omega) k.snd_buf hs (fun x hx => by have := hb x hx; omega)
  refine ⟨unaCount una k.snd_buf, _, inPre_true wnd una k hna, hd, ?_⟩
  cases hc : k.snd_buf.drop (unaCount una k.snd_buf) with
  | nil => exact ⟨hu, Nat.le_refl _⟩
  | cons s t =>
    have hm : s ∈ k.snd_buf.drop (unaCount una k.snd_buf) := by rw [hc]; exact List.mem_cons_self ..
    exact ⟨hd s hm, Nat.le_of_lt (hb s (List.mem_of_mem_drop hm))⟩

/-- an ACK whose `sn` is below the `snd_una` just established does nothing more -/
theorem ack_noop (base : U32) (k : Kcp) (sn ts : U32) (h1 : o base sn < o base k.snd_una) (h2 : o base k.snd_una < 2 ^ 31) :
    parseAck k sn = k ∧ parseFastack k sn ts = (k, false) := by
  have h := itd base sn k.snd_una (by omega) h2
  unfold parseAck parseFastack
  rw [if_pos (Or.inl (by omega)), if_pos (Or.inl (by omega))]
  exact ⟨rfl, rfl⟩

/-- the frames B sends on a clean path: no PUSH, `una` within what A has sent, ACKs covered by their `una` -/
def AckLike (base : U32) (nxt : U32) (fr : Frm) : Prop :=
  (fr.cmd.toNat = IKCP_CMD_ACK ∨ fr.cmd.toNat = IKCP_CMD_WASK ∨ fr.cmd.toNat = IKCP_CMD_WINS) ∧
  o base fr.una ≤ o base nxt ∧ (fr.cmd.toNat = IKCP_CMD_ACK → o base fr.sn < o base fr.una)

/-- one such frame at A: a prefix of the send buffer is dropped, everything left is at or above `una` -/
theorem inFr_ackLike (base : U32) (st : InLoop) (fr : Frm)
    (hna : ∀ x ∈ st.k.snd_buf, x.acked = false)
    (hs : Sorted base st.k.snd_buf) (hb : ∀ x ∈ st.k.snd_buf, o base x.sn < o base st.k.snd_nxt)
    (hn : o base st.k.snd_nxt < 2 ^ 31) (hf : AckLike base st.k.snd_nxt fr) :
    ∃ c su pr, (inFr true st fr).k =
        { st.k with rmt_wnd := fr.wnd.setWidth 32, snd_buf := st.k.snd_buf.drop c, snd_una := su, probe := pr } ∧
      (∀ x ∈ st.k.snd_buf.drop c, o base fr.una ≤ o base x.sn) ∧
      (inFr true st fr).panic = st.panic ∧ (inFr true st fr).ret = st.ret := by
  obtain ⟨hcmd, hu, hack⟩ := hf
  obtain ⟨c, su, hpre, hge, hsu1, hsu2⟩ := inPre_clean base fr.wnd fr.una st.k hna hs hb hn hu
  unfold inFr
  rw [inStep_eq]
  by_cases hA : fr.cmd.toNat = IKCP_CMD_ACK
  · rw [if_pos hA]
    have hno := ack_noop base (inPre true fr.wnd fr.una st.k) fr.sn fr.ts
      (by rw [hpre]; exact Nat.lt_of_lt_of_le (hack hA) hsu1) (by rw [hpre]; show o base su < _; omega)
    rw [hno.1, inPre_shrunk, hno.2]
    exact ⟨c, su, st.k.probe, by rw [hpre], hge, rfl, rfl⟩
  · rw [if_neg hA]
    have hP : ¬ fr.cmd.toNat = IKCP_CMD_PUSH := by
      unfold IKCP_CMD_PUSH; unfold IKCP_CMD_ACK IKCP_CMD_WASK IKCP_CMD_WINS at hcmd; omega
    rw [if_neg hP]
    split
    · exact ⟨c, su, _, by rw [hpre], hge, rfl, rfl⟩
    · exact ⟨c, su, st.k.probe, by rw [hpre], hge, rfl, rfl⟩

/-- a whole datagram of such frames -/
theorem inFrs_ackLike (base : U32) (frs : List Frm) : ∀ (st : InLoop),
    (∀ x ∈ st.k.snd_buf, x.acked = false) → Sorted base st.k.snd_buf → (∀ x ∈ st.k.snd_buf, o base x.sn < o base st.k.snd_nxt) →
    o base st.k.snd_nxt < 2 ^ 31 → (∀ fr ∈ frs, AckLike base st.k.snd_nxt fr) → st.panic = false →
    ∃ c su pr rw, (inFrs true frs st).k =
        { st.k with rmt_wnd := rw, snd_buf := st.k.snd_buf.drop c, snd_una := su, probe := pr } ∧
      (∀ fr ∈ frs, ∀ x ∈ st.k.snd_buf.drop c, o base fr.una ≤ o base x.sn) ∧
      (inFrs true frs st).panic = false ∧ (inFrs true frs st).ret = st.ret := by
  induction frs with
  | nil =>
    intro st _ _ _ _ _ hp
    exact ⟨0, st.k.snd_una, st.k.probe, st.k.rmt_wnd, rfl, fun fr hfr => by simp at hfr, hp, rfl⟩
  | cons fr rest ih =>
    intro st hna hs hb hn hf hp
    obtain ⟨c, su, pr, hk, hge, hpan, hret⟩ := inFr_ackLike base st fr hna hs hb hn (hf fr (List.mem_cons_self ..))
    have hbuf : (inFr true st fr).k.snd_buf = st.k.snd_buf.drop c := by rw [hk]
    have hnxt : (inFr true st fr).k.snd_nxt = st.k.snd_nxt := by rw [hk]
    unfold inFrs
    rw [if_neg (by rw [hpan, hp]; simp)]
    obtain ⟨c2, su2, pr2, rw2, hk2, hge2, hpan2, hret2⟩ := ih (inFr true st fr)
      (by rw [hbuf]; exact fun x hx => hna x (List.mem_of_mem_drop hx))
      (by rw [hbuf]; exact hs.drop c)
      (by rw [hbuf, hnxt]; exact fun x hx => hb x (List.mem_of_mem_drop hx))
      (by rw [hnxt]; exact hn)
      (by rw [hnxt]; exact fun x hx => hf x (List.mem_cons_of_mem _ hx))
      (by rw [hpan]; exact hp)
    refine ⟨c + c2, su2, pr2, rw2, ?_, ?_, hpan2, by rw [hret2, hret]⟩
    · rw [hk2, hk]
      simp only [List.drop_drop]
    · intro f hfm x hx
      rw [← List.drop_drop] at hx
      rcases List.mem_cons.mp hfm with rfl | hfm
      · exact hge x (List.mem_of_mem_drop hx)
      · exact hge2 f hfm x (by rw [hbuf]; exact hx)

/-! ### a FULL flush when nothing in the send buffer is due -/

/-- never transmitted -/
def Fresh (s : Seg) : Prop := s.xmit = 0 ∧ s.fastack = 0 ∧ s.acked = false

/-- transmitted once, not acknowledged, no fast-ack count, timer not due at `now` -/
def Quiet (now : U32) (s : Seg) : Prop :=
  s.acked = false ∧ s.xmit = 1 ∧ s.fastack = 0 ∧ itimediff now s.resendts < 0

/-- what phase 4 writes into the segments it moves to the send buffer -/
def stampSegs (conv now : U32) : U32 → List Seg → List Seg
  | _, [] => []
  | nxt, s :: r =>
    { s with conv := conv, cmd := BitVec.ofNat 8 IKCP_CMD_PUSH, sn := nxt, ts := now, resendts := now } ::
      stampSegs conv now (nxt + 1) r

theorem u32_succ (m : Nat) : u32 (m + 1) = u32 m + 1 := by
  unfold u32; simp [BitVec.ofNat_add]

theorem admitSegs_spec (conv una cwnd now : U32) : ∀ (q buf : List Seg) (nxt : U32) (c : Nat), ∃ m, m ≤ q.length ∧
    (admitSegs conv una cwnd now q buf nxt c).queue = q.drop m ∧
    (admitSegs conv una cwnd now q buf nxt c).buf = buf ++ stampSegs conv now nxt (q.take m) ∧
    (admitSegs conv una cwnd now q buf nxt c).nxt = nxt + u32 m ∧
    (admitSegs conv una cwnd now q buf nxt c).count = c + m := by
  intro q
  induction q with
  | nil => intro buf nxt c; exact ⟨0, by simp, rfl, by simp [admitSegs, stampSegs], by simp [admitSegs, u32], rfl⟩
  | cons s rest ih =>
    intro buf nxt c
    unfold admitSegs
    split
    · exact ⟨0, by simp, rfl, by simp [stampSegs], by simp [u32], rfl⟩
    · obtain ⟨m, hm, h1, h2, h3, h4⟩ := ih
        (buf ++ [{ s with conv := conv, cmd := BitVec.ofNat 8 IKCP_CMD_PUSH, sn := nxt, ts := now, resendts := now }])
        (nxt + 1) (c + 1)
      refine ⟨m + 1, by simp; omega, by rw [h1]; simp, ?_, ?_, by rw [h4]; omega⟩
      · rw [h2]; simp [stampSegs]
      · rw [h3, u32_succ]; bv_omega

/-- the first transmission of a segment: what phase 5 leaves in the send buffer -/
def sendInit (k : Kcp) (now : U32) (y : Seg) : Seg :=
  { y with rto := k.rx_rto, resendts := now + k.rx_rto, xmit := y.xmit + 1, ts := now, wnd := wndUnused k, una := k.rcv_nxt }

theorem resentOf_ne_zero (k : Kcp) : resentOf k ≠ 0 := by
  unfold resentOf
  split
  · decide
  · rename_i h
    intro hc
    rw [hc] at h
    exact h (by decide)

theorem cause_quiet (now resent : U32) (n : Nat) (s : Seg) (hr : resent ≠ 0) (h : Quiet now s) :
    cause now resent n s = .none := by
  obtain ⟨_, hx, hf, ht⟩ := h
  unfold cause
  rw [if_neg (by rw [hx]; decide), hf]
  rw [if_neg (fun c => hr (by have := c.1; bv_omega)), if_neg (fun c => by have := c.1; bv_omega), if_neg (by omega)]

theorem segAfter_quiet (now resent : U32) (wnd : BitVec 16) (una : U32) (n : Nat) (rx nd : U32) (s : Seg)
    (hr : resent ≠ 0) (h : Quiet now s) : segAfter now resent wnd una n rx nd s = s :=
  segAfter_none _ _ _ _ _ _ _ _ (Or.inr (cause_quiet now resent n s hr h))

theorem segAfter_fresh (k : Kcp) (now resent : U32) (n : Nat) (s : Seg) (h : Fresh s) :
    segAfter now resent (wndUnused k) k.rcv_nxt n k.rx_rto k.nodelay s = sendInit k now s ∧
    cause now resent n s = .initial := by
  have hc : cause now resent n s = .initial := (cause_initial_iff now resent n s).mpr h.1
  refine ⟨?_, hc⟩
  rw [segAfter_sent _ _ _ _ _ _ _ _ h.2.2 (by rw [hc]; exact fun c => by cases c), hc]
  rfl

theorem stampSegs_fresh (conv now : U32) : ∀ (l : List Seg) (nxt : U32), (∀ x ∈ l, Fresh x) →
    ∀ y ∈ stampSegs conv now nxt l, Fresh y := by
  intro l
  induction l with
  | nil => intro _ _ y hy; simp [stampSegs] at hy
  | cons s r ih =>
    intro nxt h y hy
    unfold stampSegs at hy
    rcases List.mem_cons.mp hy with rfl | hy
    · exact h s (List.mem_cons_self ..)
    · exact ih (nxt + 1) (fun x hx => h x (List.mem_cons_of_mem _ hx)) y hy

/-- phase 5 over segments none of which is retransmitted: the loss / fast-resend counters stay -/
theorem fold_counts (now resent : U32) (wnd : BitVec 16) (una : U32) (n : Nat) (l : List Seg) : ∀ (st : XmitSt),
    (∀ s ∈ l, cause now resent n s = .none ∨ cause now resent n s = .initial) →
    (l.foldl (xmitOne now resent wnd una n) st).lost = st.lost ∧
    (l.foldl (xmitOne now resent wnd una n) st).change = st.change := by
  induction l with
  | nil => intro st _; exact ⟨rfl, rfl⟩
  | cons a rest ih =>
    intro st h
    simp only [List.foldl_cons]
    obtain ⟨h1, h2⟩ := ih (xmitOne now resent wnd una n st a) (fun s hs => h s (List.mem_cons_of_mem _ hs))
    rw [h1, h2, xmitOne_eq]
    split
    · exact ⟨rfl, rfl⟩
    · rcases h a (List.mem_cons_self ..) with hc | hc <;> rw [hc] <;> simp

/-- **a full flush on a clean path**: nothing waiting in the send buffer is touched, the admitted
segments are appended transmitted once, the frames written are the probes and one PUSH per admitted
segment, and neither the timeout nor the fast/early branch was taken -/
theorem flush_clean (k : Kcp) (now : U32) (hq : ∀ x ∈ k.snd_queue, Fresh x) (hb : ∀ x ∈ k.snd_buf, Quiet now x)
    (hack : k.acklist = []) :
    ∃ m, m ≤ k.snd_queue.length ∧
      (flush k true now).k.snd_buf =
        k.snd_buf ++ (stampSegs k.conv now k.snd_nxt (k.snd_queue.take m)).map (sendInit k now) ∧
      (flush k true now).k.snd_queue = k.snd_queue.drop m ∧
      (flush k true now).k.snd_nxt = k.snd_nxt + u32 m ∧
      flushFrs k true now =
        probeFrs k now ++ ((stampSegs k.conv now k.snd_nxt (k.snd_queue.take m)).map (sendInit k now)).map frmOf ∧
      (flX k true now).lost = 0 ∧ (flX k true now).change = 0 := by
  obtain ⟨pw, tp, h3⟩ := flF3_frame k now
  obtain ⟨m, hm, a1, a2, a3, a4⟩ := admitSegs_spec (flF3 k now).k.conv (flF3 k now).k.snd_una (effWnd (flF3 k now).k) now
    (flF3 k now).k.snd_queue (flF3 k now).k.snd_buf (flF3 k now).k.snd_nxt 0
  have e1 : (flF3 k now).k.conv = k.conv := by rw [h3]
  have e2 : (flF3 k now).k.snd_queue = k.snd_queue := by rw [h3]
  have e3 : (flF3 k now).k.snd_buf = k.snd_buf := by rw [h3]
  have e4 : (flF3 k now).k.snd_nxt = k.snd_nxt := by rw [h3]
  rw [e1, e2, e3, e4] at a1 a2 a3 a4
  rw [e2] at hm
  have b1 : (flAd k now).queue = k.snd_queue.drop m := by unfold flAd; rw [e1, e2, e3, e4]; exact a1
  have b2 : (flAd k now).buf = k.snd_buf ++ stampSegs k.conv now k.snd_nxt (k.snd_queue.take m) := by
    unfold flAd; rw [e1, e2, e3, e4]; exact a2
  have b3 : (flAd k now).nxt = k.snd_nxt + u32 m := by unfold flAd; rw [e1, e2, e3, e4]; exact a3
  have hfresh : ∀ y ∈ stampSegs k.conv now k.snd_nxt (k.snd_queue.take m), Fresh y :=
    stampSegs_fresh _ _ _ _ (fun x hx => hq x (List.mem_of_mem_take hx))
  obtain ⟨pw', tp', st, ss, cw, inc, hk⟩ := flush_frame k true now
  obtain ⟨pw4, tp4, hk4⟩ := flF4_frame k now
  have hX := flX_full k now
  have hdone := hX.done
  have hres : resentOf (flF4 k now).k = resentOf k := by rw [hk4]; rfl
  have hrto : (flF4 k now).k.rx_rto = k.rx_rto := by rw [hk4]
  have hnd : (flF4 k now).k.nodelay = k.nodelay := by rw [hk4]
  have hbuf : (flF4 k now).k.snd_buf = (flAd k now).buf := by rw [hk4]
  simp only [hres, hrto, hnd, hbuf, List.nil_append] at hdone
  have hmap : (flAd k now).buf.map (segAfter now (resentOf k) (wndUnused k) k.rcv_nxt (flAd k now).count k.rx_rto k.nodelay) =
      k.snd_buf ++ (stampSegs k.conv now k.snd_nxt (k.snd_queue.take m)).map (sendInit k now) := by
    rw [b2, List.map_append]
    congr 1
    · conv => rhs; rw [← List.map_id k.snd_buf]
      apply List.map_congr_left
      intro x hx
      exact segAfter_quiet _ _ _ _ _ _ _ _ (resentOf_ne_zero k) (hb x hx)
    · apply List.map_congr_left
      intro y hy
      exact (segAfter_fresh k now (resentOf k) _ y (hfresh y hy)).1
  refine ⟨m, hm, by rw [hk]; show (flX k true now).done = _; rw [hdone, hmap], by rw [hk]; exact b1,
    by rw [hk]; exact b3, ?_, ?_⟩
  · unfold flushFrs ackFrsOf pushFrs
    rw [hack]
    simp only [ackFrs, List.nil_append, ↓reduceIte]
    congr 1
    rw [b2, List.filter_append, List.map_append]
    have f1 : k.snd_buf.filter (sentB now (resentOf k) (flAd k now).count) = [] := by
      apply List.filter_eq_nil_iff.mpr
      intro x hx
      unfold sentB
      rw [cause_quiet now (resentOf k) _ x (resentOf_ne_zero k) (hb x hx)]
      simp
    have f2 : (stampSegs k.conv now k.snd_nxt (k.snd_queue.take m)).filter (sentB now (resentOf k) (flAd k now).count) =
        stampSegs k.conv now k.snd_nxt (k.snd_queue.take m) := by
      apply List.filter_eq_self.mpr
      intro y hy
      unfold sentB
      rw [(segAfter_fresh k now (resentOf k) _ y (hfresh y hy)).2, (hfresh y hy).2.2]
      simp
    rw [f1, f2, List.map_nil, List.nil_append, List.map_map]
    apply List.map_congr_left
    intro y hy
    show frmOf _ = frmOf _
    rw [(segAfter_fresh k now (resentOf k) _ y (hfresh y hy)).1]
  · have hc := fold_counts now (resentOf (flF4 k now).k) (wndUnused k) k.rcv_nxt (flAd k now).count (flF4 k now).k.snd_buf
      { f := flF4 k now, next := (flF4 k now).k.interval } (by
        rw [hbuf, b2, hres]
        intro s hs
        rcases List.mem_append.mp hs with h1 | h1
        · exact Or.inl (cause_quiet now (resentOf k) _ s (resentOf_ne_zero k) (hb s h1))
        · exact Or.inr (segAfter_fresh k now (resentOf k) _ s (hfresh s h1)).2)
    unfold flX
    simp only [↓reduceIte]
    exact hc

end KcpVerif.SysC
