/-
C09 `wire_reassembles`, part 7: in stream mode every segment is a whole message.

With `stream ≠ 0` (`SetStreamMode(true)`; the flag is part of the initial state of a history of
`C01.Op`, which has no operation that writes it) `Send` gives every segment it creates `frg = 0`, so
the ghost log always ends on a message boundary (`C01.Closed`) and the specification's reassembler
never holds anything back.  Core Lean only.
-/
import KcpVerif.Lemmas.C09WireTx

namespace KcpVerif.C09W
open KcpVerif KcpVerif.Gen KcpVerif.Kcp KcpVerif.Frame KcpVerif.Recv KcpVerif.Send KcpVerif.C01

/-- stream mode, and every numbered or queued segment has `frg = 0` -/
structure InvStream (s : GSt) : Prop where
  st   : s.k.stream ≠ 0
  zero : ∀ f ∈ (s.log ++ s.k.snd_queue.map content).map (·.1), f = 0

theorem frgs_eq (q : List Seg) : (q.map content).map (·.1) = frgs q := by
  unfold frgs content; simp [List.map_map, Function.comp_def]

theorem send_frgs_stream (k : Kcp) (b : Bytes) (hs : k.stream ≠ 0) :
    ∃ z, frgs (send k b).k.snd_queue = frgs k.snd_queue ++ List.replicate z 0 := by
  rw [send_eq]
  split
  · exact ⟨0, by simp⟩
  · split
    · exact ⟨0, by simp⟩
    · split
      · exact ⟨0, by simp⟩
      · split
        · exact ⟨0, by show frgs (sendQ1 k b) = _; rw [sendQ1_frgs]; simp⟩
        · split
          · exact ⟨0, by show frgs (sendQ1 k b) = _; rw [sendQ1_frgs]; simp⟩
          · refine ⟨if sendCount k b = 0 then 1 else sendCount k b, ?_⟩
            show frgs (sendQ1 k b ++ sendNew k b) = _
            have : frgs (sendQ1 k b ++ sendNew k b) = frgs (sendQ1 k b) ++ frgs (sendNew k b) := by
              unfold frgs; rw [List.map_append]
            rw [this, sendQ1_frgs]
            congr 1
            unfold sendNew
            rw [mkSegs_frgs]
            have hd : decide (k.stream ≠ 0) = true := by simpa using hs
            rw [hd]
            rfl

theorem step_invStream {s : GSt} (h : InvStream s) (op : Op) : InvStream (step s op) := by
  have flushLike : ∀ (k' : Kcp) (outs : List Bytes), k'.stream = s.k.stream →
      (∃ j, j ≤ s.k.snd_queue.length ∧ k'.snd_queue = s.k.snd_queue.drop j) →
      InvStream { s with k := k', log := s.log ++ admitted s.k k', wire := s.wire ++ outs } := by
    intro k' outs hst ⟨j, hj, hq⟩
    refine ⟨by show k'.stream ≠ 0; rw [hst]; exact h.st, ?_⟩
    show ∀ f ∈ ((s.log ++ admitted s.k k') ++ k'.snd_queue.map content).map (·.1), f = 0
    rw [pending_eq s.log s.k k' j hj hq]; exact h.zero
  have same : ∀ k' : Kcp, k'.stream = s.k.stream → k'.snd_queue = s.k.snd_queue → InvStream { s with k := k' } := by
    intro k' hst hq
    exact ⟨by show k'.stream ≠ 0; rw [hst]; exact h.st,
      by show ∀ f ∈ (s.log ++ k'.snd_queue.map content).map (·.1), f = 0; rw [hq]; exact h.zero⟩
  unfold step
  by_cases hd : s.dead = true
  · rw [if_pos hd]; exact h
  · rw [if_neg hd]
    cases op with
    | send buf =>
      simp only []
      split
      · exact ⟨h.st, h.zero⟩
      · refine ⟨by show (send s.k buf).k.stream ≠ 0; rw [send_k]; exact h.st, ?_⟩
        show ∀ f ∈ (s.log ++ (send s.k buf).k.snd_queue.map content).map (·.1), f = 0
        obtain ⟨z, hz⟩ := send_frgs_stream s.k buf h.st
        have hz0 := h.zero
        rw [List.map_append, frgs_eq] at hz0 ⊢
        rw [hz, ← List.append_assoc]
        intro f hf
        rcases List.mem_append.mp hf with h1 | h1
        · exact hz0 f h1
        · exact (List.mem_replicate.mp h1).2
    | recv buflen =>
      simp only []
      split
      · exact h
      · have hs := recv_sndSame s.k buflen
        exact ⟨by show (recv s.k buflen).k.stream ≠ 0; rw [hs.stream]; exact h.st,
          by show ∀ f ∈ (s.log ++ (recv s.k buflen).k.snd_queue.map content).map (·.1), f = 0
             rw [hs.snd_queue]; exact h.zero⟩
    | input data regular ackNoDelay now =>
      simp only []
      split
      · exact ⟨h.st, h.zero⟩
      · exact flushLike _ _ (input_cfg _ _ _ _ _).stream (input_queue _ _ _ _ _)
    | flush full now =>
      simp only []
      split
      · exact ⟨h.st, h.zero⟩
      · exact flushLike _ _ (flush_keep _ _ _).stream (flush_queue _ _ _)
    | update now =>
      simp only []
      split
      · exact ⟨h.st, h.zero⟩
      · exact flushLike _ _ (update_keep _ _).stream (update_queue _ _)
    | setMtu mtu => exact same _ (setMtu_stream _ _) (setMtu_sndQ _ _).snd_queue
    | noDelay a b c d => exact same _ (noDelay_cfg _ _ _ _ _).stream (noDelay_sndQ _ _ _ _ _).snd_queue
    | wndSize a b => exact same _ (wndSize_cfg _ _ _).stream (wndSize_sndQ _ _ _).snd_queue

theorem run_invStream (ops : List Op) : ∀ s : GSt, InvStream s → InvStream (run s ops) := by
  induction ops with
  | nil => intro s h; exact h
  | cons op rest ih => intro s h; exact ih _ (step_invStream h op)

theorem fresh_invStream (k : Kcp) (hf : Fresh k) (hs : k.stream ≠ 0) : InvStream { k := k } :=
  ⟨hs, by simp [hf.sq]⟩

/-- in stream mode the log always ends on a message boundary -/
theorem InvStream.closed {s : GSt} (h : InvStream s) : Closed s.log :=
  fun x hx => h.zero x.1 (List.mem_map.mpr ⟨x, List.mem_append_left _ (List.mem_of_getLast? hx), rfl⟩)

end KcpVerif.C09W
