/-
Progress on the clean path (C02 Tier 2): segments in A's send buffer are never modified and old
sequence numbers never come back (`keep_step`), so the acknowledgement-latency bound of the invariant
turns into: whatever is in the send buffer now has left it `2 D + interval_B` later.
-/
import KcpVerif.Lemmas.SysWinRun

namespace KcpVerif.SysC
open KcpVerif KcpVerif.Gen KcpVerif.Kcp KcpVerif.Live KcpVerif.Wire KcpVerif.SysW KcpVerif.Sys

/-- from `s` to `s'`: `snd_nxt` did not go back, and every segment in the later send buffer is an
unmodified segment of the earlier one or was admitted in between -/
def Keep (base : U32) (s s' : State) : Prop :=
  o base s.A.snd_nxt ≤ o base s'.A.snd_nxt ∧
  ∀ y ∈ s'.A.snd_buf, y ∈ s.A.snd_buf ∨ o base s.A.snd_nxt ≤ o base y.sn

theorem Keep.refl (base : U32) (s : State) : Keep base s s := ⟨Nat.le_refl _, fun _ hy => Or.inl hy⟩

theorem Keep.trans {base : U32} {a b c : State} (h1 : Keep base a b) (h2 : Keep base b c) : Keep base a c := by
  refine ⟨Nat.le_trans h1.1 h2.1, fun y hy => ?_⟩
  rcases h2.2 y hy with h | h
  · exact h1.2 y h
  · exact Or.inr (Nat.le_trans h1.1 h)

theorem Keep.ofA {base : U32} {s s' : State} (h : s'.A = s.A) : Keep base s s' := by
  unfold Keep; rw [h]; exact ⟨Nat.le_refl _, fun _ hy => Or.inl hy⟩

/-- A's FULL flush on a clean state -/
theorem keep_flushA {p : Par} {s : State} {gab gba : GLink} (h : Clean p s gab gba) (hnw : NoWrap p.base s) (nf : Nat) :
    Keep p.base s (afterFlushA s nf) := by
  have hquiet : ∀ x ∈ s.A.snd_buf, Quiet (clk s.now) x := fun x hx => h.age (h.aseg x hx)
  obtain ⟨m, hm, f1, f2, f3, f4, f5, f6⟩ := flush_clean s.A (clk s.now) h.aq hquiet h.aack
  unfold NoWrap at hnw
  have hlen : (s.A.snd_queue.take m).length = m := by rw [List.length_take]; omega
  obtain ⟨n1, n2, n3⟩ := stamp_facts p.base s.A (clk s.now) (s.A.snd_queue.take m) s.A.snd_nxt (by rw [hlen]; omega)
  have hnxt : o p.base (s.A.snd_nxt + u32 m) = o p.base s.A.snd_nxt + m := o_add _ _ _ (by omega)
  constructor
  · show _ ≤ o p.base (s.A.flush true (clk s.now)).k.snd_nxt
    rw [f3, hnxt]; omega
  · show ∀ y ∈ (s.A.flush true (clk s.now)).k.snd_buf, _
    rw [f1]
    intro y hy
    rcases List.mem_append.mp hy with hy | hy
    · exact Or.inl hy
    · exact Or.inr (n2 y hy).1

/-- A after the parse loop of a datagram from B: a suffix of the send buffer -/
theorem keep_inA {p : Par} {s : State} {t0 : Nat} {frs : List Frm} {gab grest : GLink}
    (h : Clean p s gab ((t0, frs) :: grest)) (hnw : NoWrap p.base s) (k1 : Kcp)
    (hk1 : k1 = (inFrs true frs { k := s.A }).k ∨ ∃ rtt, k1 = updateAck (inFrs true frs { k := s.A }).k rtt) :
    Keep p.base s { s with A := cwndOnAck k1 s.A.snd_una, ba := encL grest } := by
  unfold NoWrap at hnw
  have hal : ∀ fr ∈ frs, AckLike p.base s.A.snd_nxt fr := by
    intro fr hfr
    obtain ⟨_, _, e3, e4, e5⟩ := h.fba (t0, frs) (List.mem_cons_self ..) fr hfr
    have := h.ord.2
    exact ⟨e3, by omega, e5⟩
  obtain ⟨c, su, pr, rw, hk, hge, hpn, hrt⟩ := inFrs_ackLike p.base frs { k := s.A }
    (fun x hx => (h.aseg x hx).1) h.asort h.abnd
    (by show o p.base s.A.snd_nxt < 2 ^ 31; omega) hal rfl
  have hk1s : k1.snd_buf = s.A.snd_buf.drop c ∧ k1.snd_nxt = s.A.snd_nxt := by
    rcases hk1 with rfl | ⟨rtt, rfl⟩
    · rw [hk]; exact ⟨rfl, rfl⟩
    · obtain ⟨a, b, r, he⟩ := updateAck_shape' (inFrs true frs { k := s.A }).k rtt
      rw [he, hk]; exact ⟨rfl, rfl⟩
  obtain ⟨cw, inc, hcw⟩ := cwndOnAck_shape' k1 s.A.snd_una
  constructor
  · show _ ≤ o p.base (cwndOnAck k1 s.A.snd_una).snd_nxt
    rw [hcw]; show _ ≤ o p.base k1.snd_nxt; rw [hk1s.2]; exact Nat.le_refl _
  · show ∀ y ∈ (cwndOnAck k1 s.A.snd_una).snd_buf, _
    rw [hcw]
    show ∀ y ∈ k1.snd_buf, _
    rw [hk1s.1]
    exact fun y hy => Or.inl (List.mem_of_mem_drop hy)

/-- **no event modifies a segment in A's send buffer or brings an old sequence number back** -/
theorem keep_step {p : Par} {s : State} {gab gba : GLink} (h : Clean p s gab gba) (hnw : NoWrap p.base s) (ev : Ev) :
    Keep p.base s (Sys.step s ev) := by
  cases ev with
  | tick =>
    show Keep p.base s (if quiet s then { s with now := s.now + 1 } else s)
    split
    · exact Keep.ofA rfl
    · exact Keep.refl _ _
  | send b =>
    have hq := Frame.send_k s.A b
    show Keep p.base s { s with A := (s.A.send b).k, panic := s.panic || (s.A.send b).panic }
    constructor
    · show _ ≤ o p.base (s.A.send b).k.snd_nxt
      rw [hq]; exact Nat.le_refl _
    · show ∀ y ∈ (s.A.send b).k.snd_buf, _
      rw [hq]; exact fun y hy => Or.inl hy
  | read =>
    show Keep p.base s (if (s.B.recv s.B.peekSize.toNat).n < 0 then s
      else { s with B := (s.B.recv s.B.peekSize.toNat).k, got := s.got ++ (s.B.recv s.B.peekSize.toNat).data })
    split
    · exact Keep.refl _ _
    · exact Keep.ofA rfl
  | flushA => exact keep_flushA h hnw _
  | flushB => exact Keep.ofA rfl
  | dlvB =>
    cases hab : s.ab with
    | nil =>
      have : Sys.step s .dlvB = s := by simp only [Sys.step, hab]
      rw [this]; exact Keep.refl _ _
    | cons d rest =>
      rw [step_dlvB_cons s _ _ hab]
      split
      · exact Keep.ofA rfl
      · exact Keep.refl _ _
  | dlvA =>
    cases gba with
    | nil =>
      have : Sys.step s .dlvA = s := by simp only [Sys.step, h.hba, encL, List.map_nil]
      rw [this]; exact Keep.refl _ _
    | cons d0 grest =>
      obtain ⟨t0, frs⟩ := d0
      have hba : s.ba = ⟨t0, encFrames frs⟩ :: encL grest := h.hba
      rw [step_dlvA_cons s _ _ hba]
      split
      · obtain ⟨hv, hp, hr, _, _, _, _⟩ := clean_inA h hnw (inFrs true frs { k := s.A }).k (Or.inl rfl)
        obtain ⟨k1, hk1, himp⟩ := inputA_cases s.A frs s.ndA (clk s.now) hv hp hr
        obtain ⟨_, _, _, hal, hnx, hsq, hclean⟩ := clean_inA h hnw k1 hk1
        have hkeep := keep_inA h hnw k1 hk1
        rcases himp hal hclean.aK with hin | hin | ⟨_, hin⟩
        · simp only [hin]
          exact ⟨hkeep.1, hkeep.2⟩
        · simp only [hin]
          have hnw1 : NoWrap p.base { s with A := cwndOnAck k1 s.A.snd_una, ba := encL grest } := by
            unfold NoWrap at hnw ⊢
            show o p.base (cwndOnAck k1 s.A.snd_una).snd_nxt + (cwndOnAck k1 s.A.snd_una).snd_queue.length < _
            rw [hnx, hsq]; exact hnw
          have h2 := keep_flushA hclean hnw1 s.nfA
          have := hkeep.trans h2
          exact ⟨this.1, this.2⟩
        · simp only [hin]
          exact Keep.ofA rfl
      · exact Keep.refl _ _

theorem step_D (s : State) (ev : Ev) : (Sys.step s ev).D = s.D := by
  cases ev <;> simp only [Sys.step] <;> repeat' split
  all_goals rfl

theorem run_D : ∀ (evs : List Ev) (s : State), (Sys.run s evs).D = s.D := by
  intro evs
  induction evs with
  | nil => intro s; rfl
  | cons ev rest ih => intro s; show (Sys.run (Sys.step s ev) rest).D = s.D; rw [ih, step_D]

/-- along a run from a clean state: the invariants at the end, and `Keep` from the start to the end -/
theorem cleanwin_run_keep {p : Par} (evs : List Ev) : ∀ (s : State) (gab gba : GLink), Clean p s gab gba → Win p s gba →
    RunNoWrap p.base s evs →
    ∃ gab' gba', Clean p (Sys.run s evs) gab' gba' ∧ Win p (Sys.run s evs) gba' ∧ NoWrap p.base (Sys.run s evs) ∧
      Keep p.base s (Sys.run s evs) := by
  induction evs with
  | nil => intro s gab gba h w hr; exact ⟨gab, gba, h, w, hr, Keep.refl _ _⟩
  | cons ev rest ih =>
    intro s gab gba h w hr
    obtain ⟨gab', gba', hc, hw⟩ := cleanwin_step h w hr.1 ev
    obtain ⟨g1, g2, a1, a2, a3, a4⟩ := ih _ gab' gba' hc hw hr.2
    exact ⟨g1, g2, a1, a2, a3, (keep_step h hr.1 ev).trans a4⟩

/-- the age bound in natural-number form -/
theorem Clean.age_nat {p : Par} {s : State} {gab gba : GLink} (h : Clean p s gab gba) {x : Seg} (hx : x ∈ s.A.snd_buf) :
    ∃ t, x.ts = clk t ∧ t ≤ s.now ∧ s.now ≤ t + 2 * s.D + p.I := by
  obtain ⟨_, _, _, _, _, _, t, ht, htn, hloc⟩ := h.aseg x hx
  refine ⟨t, ht, htn, ?_⟩
  rcases hloc with ⟨d, hd, hd1, _⟩ | ⟨_, hn⟩ | ⟨d, hd, hd1, _⟩
  · have := h.tab d hd; omega
  · have := h.tnf.1; omega
  · have := h.tba d hd; omega

theorem clk_inj_near (t t' : Nat) (h : clk t = clk t') (h1 : t ≤ t') (h2 : t' < t + 2 ^ 32) : t = t' := by
  unfold clk at h
  have := congrArg BitVec.toNat h
  simp only [BitVec.toNat_ofNat] at this
  omega

/-- **progress**: from a clean state `s`, in any continuation that has run for more than
`2 D + interval_B` (and less than 2^31) milliseconds, everything that was in A's send buffer at `s`
has been acknowledged and removed: every segment left is later than all of them -/
theorem clean_progress {p : Par} {s : State} {gab gba : GLink} (h : Clean p s gab gba) (w : Win p s gba)
    (evs : List Ev) (hr : RunNoWrap p.base s evs)
    (ht1 : s.now + 2 * s.D + p.I < (Sys.run s evs).now) (ht2 : (Sys.run s evs).now < s.now + 2 ^ 31) :
    ∀ y ∈ (Sys.run s evs).A.snd_buf, o p.base s.A.snd_nxt ≤ o p.base y.sn := by
  obtain ⟨g1, g2, hc, hw, hnw, hk⟩ := cleanwin_run_keep evs s gab gba h w hr
  intro y hy
  rcases hk.2 y hy with hold | hnew
  · exfalso
    obtain ⟨t, e1, e2, e3⟩ := h.age_nat hold
    obtain ⟨t', f1, f2, f3⟩ := hc.age_nat hy
    rw [run_D] at f3
    have hpar := h.par
    have harto := h.arto
    have : t = t' := clk_inj_near t t' (e1.symm.trans f1) (by omega) (by omega)
    omega
  · exact hnew

/-! ### the writer has stopped and everything is admitted -/

def isSend : Ev → Bool
  | .send _ => true
  | _ => false

theorem idle_flushA {p : Par} {s : State} {gab gba : GLink} (h : Clean p s gab gba) (hq : s.A.snd_queue = []) (nf : Nat) :
    (afterFlushA s nf).A.snd_queue = [] ∧ (afterFlushA s nf).A.snd_nxt = s.A.snd_nxt := by
  have hquiet : ∀ x ∈ s.A.snd_buf, Quiet (clk s.now) x := fun x hx => h.age (h.aseg x hx)
  obtain ⟨m, hm, f1, f2, f3, f4, f5, f6⟩ := flush_clean s.A (clk s.now) h.aq hquiet h.aack
  rw [hq] at hm f2
  have hm0 : m = 0 := by simpa using hm
  subst hm0
  constructor
  · show (s.A.flush true (clk s.now)).k.snd_queue = []
    rw [f2]; rfl
  · show (s.A.flush true (clk s.now)).k.snd_nxt = _
    rw [f3]; simp [u32]

/-- with an empty send queue, no event other than `send` admits anything -/
theorem idle_step {p : Par} {s : State} {gab gba : GLink} (h : Clean p s gab gba) (hnw : NoWrap p.base s)
    (hq : s.A.snd_queue = []) (ev : Ev) (hev : isSend ev = false) :
    (Sys.step s ev).A.snd_queue = [] ∧ (Sys.step s ev).A.snd_nxt = s.A.snd_nxt := by
  cases ev with
  | tick =>
    show (if quiet s then { s with now := s.now + 1 } else s).A.snd_queue = [] ∧
      (if quiet s then { s with now := s.now + 1 } else s).A.snd_nxt = _
    split <;> exact ⟨hq, rfl⟩
  | send b => simp [isSend] at hev
  | read =>
    show (if (s.B.recv s.B.peekSize.toNat).n < 0 then s
      else { s with B := (s.B.recv s.B.peekSize.toNat).k, got := s.got ++ (s.B.recv s.B.peekSize.toNat).data }).A.snd_queue = [] ∧
      (if (s.B.recv s.B.peekSize.toNat).n < 0 then s
      else { s with B := (s.B.recv s.B.peekSize.toNat).k, got := s.got ++ (s.B.recv s.B.peekSize.toNat).data }).A.snd_nxt = _
    split <;> exact ⟨hq, rfl⟩
  | flushA => exact idle_flushA h hq _
  | flushB => exact ⟨hq, rfl⟩
  | dlvB =>
    cases hab : s.ab with
    | nil =>
      have : Sys.step s .dlvB = s := by simp only [Sys.step, hab]
      rw [this]; exact ⟨hq, rfl⟩
    | cons d rest =>
      rw [step_dlvB_cons s _ _ hab]
      split <;> exact ⟨hq, rfl⟩
  | dlvA =>
    cases gba with
    | nil =>
      have : Sys.step s .dlvA = s := by simp only [Sys.step, h.hba, encL, List.map_nil]
      rw [this]; exact ⟨hq, rfl⟩
    | cons d0 grest =>
      obtain ⟨t0, frs⟩ := d0
      have hba : s.ba = ⟨t0, encFrames frs⟩ :: encL grest := h.hba
      rw [step_dlvA_cons s _ _ hba]
      split
      · obtain ⟨hv, hp, hr, _, _, _, _⟩ := clean_inA h hnw (inFrs true frs { k := s.A }).k (Or.inl rfl)
        obtain ⟨k1, hk1, himp⟩ := inputA_cases s.A frs s.ndA (clk s.now) hv hp hr
        obtain ⟨_, _, _, hal, hnx, hsq, hclean⟩ := clean_inA h hnw k1 hk1
        rcases himp hal hclean.aK with hin | hin | ⟨_, hin⟩
        · simp only [hin]
          exact ⟨by rw [hsq]; exact hq, hnx⟩
        · simp only [hin]
          have h2 := idle_flushA hclean (by show (cwndOnAck k1 s.A.snd_una).snd_queue = []; rw [hsq]; exact hq) s.nfA
          exact ⟨h2.1, h2.2.trans hnx⟩
        · simp only [hin]
          exact ⟨hq, trivial⟩
      · exact ⟨hq, rfl⟩

theorem idle_run {p : Par} (evs : List Ev) : ∀ (s : State) (gab gba : GLink), Clean p s gab gba → Win p s gba →
    RunNoWrap p.base s evs → s.A.snd_queue = [] → (∀ ev ∈ evs, isSend ev = false) →
    (Sys.run s evs).A.snd_queue = [] ∧ (Sys.run s evs).A.snd_nxt = s.A.snd_nxt := by
  induction evs with
  | nil => intro s _ _ _ _ _ hq _; exact ⟨hq, rfl⟩
  | cons ev rest ih =>
    intro s gab gba h w hr hq hns
    obtain ⟨gab', gba', hc, hw⟩ := cleanwin_step h w hr.1 ev
    obtain ⟨i1, i2⟩ := idle_step h hr.1 hq ev (hns ev (List.mem_cons_self ..))
    obtain ⟨j1, j2⟩ := ih _ gab' gba' hc hw hr.2 i1 (fun e he => hns e (List.mem_cons_of_mem _ he))
    exact ⟨j1, j2.trans i2⟩

/-- **drain**: the writer has stopped with an empty send queue; `2 D + interval_B` later nothing is
waiting to be sent or acknowledged -/
theorem clean_drain {p : Par} {s : State} {gab gba : GLink} (h : Clean p s gab gba) (w : Win p s gba)
    (evs : List Ev) (hr : RunNoWrap p.base s evs) (hq : s.A.snd_queue = []) (hns : ∀ ev ∈ evs, isSend ev = false)
    (ht1 : s.now + 2 * s.D + p.I < (Sys.run s evs).now) (ht2 : (Sys.run s evs).now < s.now + 2 ^ 31) :
    (Sys.run s evs).A.waitSnd = 0 := by
  obtain ⟨g1, g2, hc, _, _⟩ := cleanwin_run evs s gab gba h w hr
  obtain ⟨i1, i2⟩ := idle_run evs s gab gba h w hr hq hns
  have hp := clean_progress h w evs hr ht1 ht2
  have hb : (Sys.run s evs).A.snd_buf = [] := by
    cases hbuf : (Sys.run s evs).A.snd_buf with
    | nil => rfl
    | cons y r =>
      have hy : y ∈ (Sys.run s evs).A.snd_buf := by rw [hbuf]; exact List.mem_cons_self ..
      have := hp y hy
      have := hc.abnd y hy
      rw [i2] at this
      omega
  unfold waitSnd
  rw [hb, i1]; rfl

/-- `snd_una` itself has passed everything that had been admitted at `s` -/
theorem clean_progress_una {p : Par} {s : State} {gab gba : GLink} (h : Clean p s gab gba) (w : Win p s gba)
    (evs : List Ev) (hr : RunNoWrap p.base s evs)
    (ht1 : s.now + 2 * s.D + p.I < (Sys.run s evs).now) (ht2 : (Sys.run s evs).now < s.now + 2 ^ 31) :
    o p.base s.A.snd_nxt ≤ o p.base (Sys.run s evs).A.snd_una := by
  obtain ⟨g1, g2, hc, hw, hnw, hk⟩ := cleanwin_run_keep evs s gab gba h w hr
  have hp := clean_progress h w evs hr ht1 ht2
  have hcont := hw.wc
  unfold Contig at hcont
  cases hbuf : (Sys.run s evs).A.snd_buf with
  | nil =>
    rw [hbuf] at hcont
    simp only [List.length_nil, Nat.add_zero] at hcont
    rw [hcont.2]; exact hk.1
  | cons y r =>
    rw [hbuf] at hcont
    simp only [List.map_cons, List.length_cons, List.range'_succ, List.cons.injEq] at hcont
    rw [← hcont.1.1]
    exact hp y (by rw [hbuf]; exact List.mem_cons_self ..)

theorem runNoWrap_append (base : U32) : ∀ (a b : List Ev) (s : State),
    RunNoWrap base s (a ++ b) ↔ RunNoWrap base s a ∧ RunNoWrap base (Sys.run s a) b := by
  intro a
  induction a with
  | nil =>
    intro b s
    constructor
    · intro h
      refine ⟨?_, h⟩
      cases b with
      | nil => exact h
      | cons e r => exact h.1
    · exact fun h => h.2
  | cons e r ih =>
    intro b s
    show (NoWrap base s ∧ RunNoWrap base (Sys.step s e) (r ++ b)) ↔
      (NoWrap base s ∧ RunNoWrap base (Sys.step s e) r) ∧ RunNoWrap base (Sys.run (Sys.step s e) r) b
    rw [ih]
    exact ⟨fun h => ⟨⟨h.1, h.2.1⟩, h.2.2⟩, fun h => ⟨h.1.1, h.1.2, h.2⟩⟩

end KcpVerif.SysC
