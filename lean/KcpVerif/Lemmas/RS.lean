import Mathlib.LinearAlgebra.Vandermonde
import Mathlib.LinearAlgebra.Matrix.NonsingularInverse

/-!
# The systematic Vandermonde Reed–Solomon construction is MDS

This file models the coding matrix built by klauspost/reedsolomon's
`buildMatrix(dataShards = d, totalShards = n)` (used by kcp-go's FEC layer) over an
arbitrary field `F`, and proves that it is a systematic MDS code.

`buildMatrix` computes

* `vm = vandermonde(n, d)` with `vm[r][c] = r ^ c`; the nodes are the field elements
  `0, 1, …, n-1`, which are pairwise distinct in `GF(2^8)` as long as `n ≤ 256`.  Here the
  nodes are an arbitrary `x : Fin n → F`, assumed injective where needed (`vand x`);
* `top = vm[0:d]`, the square `d × d` matrix made of the first `d` rows (`top h x`);
* the coding matrix `M = vm * top⁻¹` (`sysMatrix h x`).

A data vector `v` (length `d`, one symbol per data shard, at a fixed byte offset) is
encoded as the codeword `M *ᵥ v` of length `n`.  The first `d` symbols equal `v`
(`sys_systematic`, `encode_systematic`), the remaining `n - d` are parity.  Decoding from
any `d` received symbols at distinct positions `s : Fin d → Fin n` takes the square
submatrix of rows `s`, inverts it, and multiplies by the received symbols
(`decode_encode`).  That this is possible for *every* injective `s` is the MDS property
(`sys_select_det_ne_zero`, `data_determined`).

Further facts proved here:

* `rows_sum_one` / `encode_const`: every row of `M` sums to `1`, so a byte position on which
  all data shards agree is reproduced in every parity shard;
* `row_depends_on_top_and_node`: a row of `M` depends only on the first `d` nodes and on its
  own node, not on the total number of shards;
* `MDS`, `vandermondeMDS`, `MDS.column_wise`: an abstract interface for an `(n, d)` MDS code
  and the instance given by the construction above, lifted to shards of `L` symbols.

Everything is over an arbitrary field; nothing here is specific to `GF(2^8)`.
-/

namespace KcpVerif.Lemmas.RS

open Matrix

variable {F : Type*} [Field F] {d n : ℕ}

/-- `V r c = x r ^ c` (`n` rows, `d` columns): klauspost's `vandermonde(n, d)` with nodes `x`. -/
def vand (x : Fin n → F) : Matrix (Fin n) (Fin d) F := fun r c => x r ^ (c : ℕ)

/-- The first `d` rows of `vand x`, a square matrix. -/
def top (h : d ≤ n) (x : Fin n → F) : Matrix (Fin d) (Fin d) F :=
  fun r c => x (Fin.castLE h r) ^ (c : ℕ)

/-- klauspost's `buildMatrix`: `V * V_top⁻¹`. -/
noncomputable def sysMatrix (h : d ≤ n) (x : Fin n → F) : Matrix (Fin n) (Fin d) F :=
  vand x * (top h x)⁻¹

/-! ### Row selections of the Vandermonde matrix -/

/-- Selecting `d` rows of `vand x` gives the square Vandermonde matrix on the selected nodes. -/
theorem vand_submatrix (x : Fin n → F) (s : Fin d → Fin n) :
    (vand x : Matrix (Fin n) (Fin d) F).submatrix s id = Matrix.vandermonde (x ∘ s) := by
  ext i j
  rfl

/-- `top` is the selection of the first `d` rows. -/
theorem top_eq_submatrix (h : d ≤ n) (x : Fin n → F) :
    top h x = (vand x : Matrix (Fin n) (Fin d) F).submatrix (Fin.castLE h) id := rfl

/-- Any `d` distinct rows of `vand x` form an invertible matrix. -/
theorem select_det_ne_zero {x : Fin n → F} (hx : Function.Injective x)
    (s : Fin d → Fin n) (hs : Function.Injective s) :
    ((vand x : Matrix (Fin n) (Fin d) F).submatrix s id).det ≠ 0 := by
  rw [vand_submatrix]
  exact Matrix.det_vandermonde_ne_zero_iff.mpr (hx.comp hs)

/-- The top square of the Vandermonde matrix is invertible. -/
theorem top_det_ne_zero (h : d ≤ n) {x : Fin n → F} (hx : Function.Injective x) :
    (top h x).det ≠ 0 := by
  rw [top_eq_submatrix]
  exact select_det_ne_zero hx _ (Fin.castLE_injective h)

theorem top_isUnit_det (h : d ≤ n) {x : Fin n → F} (hx : Function.Injective x) :
    IsUnit (top h x).det :=
  isUnit_iff_ne_zero.mpr (top_det_ne_zero h hx)

/-! ### The systematic matrix -/

/-- Row selection commutes with the right multiplication by `top⁻¹`. -/
theorem sys_submatrix {m : ℕ} (h : d ≤ n) (x : Fin n → F) (s : Fin m → Fin n) :
    (sysMatrix h x).submatrix s id
      = (vand x : Matrix (Fin n) (Fin d) F).submatrix s id * (top h x)⁻¹ := by
  ext i j
  rfl

/-- The top square of the systematic matrix is the identity. -/
theorem sys_top (h : d ≤ n) {x : Fin n → F} (hx : Function.Injective x) :
    (sysMatrix h x).submatrix (Fin.castLE h) id = (1 : Matrix (Fin d) (Fin d) F) := by
  rw [sys_submatrix, ← top_eq_submatrix]
  exact Matrix.mul_nonsing_inv _ (top_isUnit_det h hx)

/-- The top square of the systematic matrix is the identity (entry-wise). -/
theorem sys_systematic (h : d ≤ n) {x : Fin n → F} (hx : Function.Injective x)
    (r : Fin d) (c : Fin d) :
    sysMatrix h x (Fin.castLE h r) c = (1 : Matrix (Fin d) (Fin d) F) r c :=
  congrFun (congrFun (sys_top h hx) r) c

/-- The first `d` symbols of a codeword are the data. -/
theorem encode_systematic (h : d ≤ n) {x : Fin n → F} (hx : Function.Injective x)
    (v : Fin d → F) (i : Fin d) :
    (sysMatrix h x *ᵥ v) (Fin.castLE h i) = v i := by
  have h1 : (sysMatrix h x *ᵥ v) (Fin.castLE h i)
      = ((sysMatrix h x).submatrix (Fin.castLE h) id *ᵥ v) i := rfl
  rw [h1, sys_top h hx, Matrix.one_mulVec]

/-- Any `d` distinct rows of the systematic matrix form an invertible matrix (MDS). -/
theorem sys_select_det_ne_zero (h : d ≤ n) {x : Fin n → F} (hx : Function.Injective x)
    (s : Fin d → Fin n) (hs : Function.Injective s) :
    ((sysMatrix h x).submatrix s id).det ≠ 0 := by
  rw [sys_submatrix, Matrix.det_mul]
  refine mul_ne_zero (select_det_ne_zero hx s hs) ?_
  exact (Matrix.isUnit_nonsing_inv_det _ (top_isUnit_det h hx)).ne_zero

/-- Reading a codeword at positions `s` is multiplying by the row-selected matrix. -/
theorem encode_select (h : d ≤ n) (x : Fin n → F) (s : Fin d → Fin n) (v : Fin d → F) :
    (fun i => (sysMatrix h x *ᵥ v) (s i)) = (sysMatrix h x).submatrix s id *ᵥ v := rfl

/-- klauspost's decoding procedure (invert the selected rows, multiply by the received
symbols) returns the data. -/
theorem decode_encode (h : d ≤ n) {x : Fin n → F} (hx : Function.Injective x)
    (s : Fin d → Fin n) (hs : Function.Injective s) (v : Fin d → F) :
    ((sysMatrix h x).submatrix s id)⁻¹ *ᵥ (fun i => (sysMatrix h x *ᵥ v) (s i)) = v := by
  rw [encode_select, Matrix.mulVec_mulVec,
    Matrix.nonsing_inv_mul _ (isUnit_iff_ne_zero.mpr (sys_select_det_ne_zero h hx s hs)),
    Matrix.one_mulVec]

/-- Any `d` symbols of a codeword determine the data. -/
theorem data_determined (h : d ≤ n) {x : Fin n → F} (hx : Function.Injective x)
    (s : Fin d → Fin n) (hs : Function.Injective s) (v w : Fin d → F)
    (heq : ∀ i, (sysMatrix h x *ᵥ v) (s i) = (sysMatrix h x *ᵥ w) (s i)) : v = w := by
  rw [← decode_encode h hx s hs v, ← decode_encode h hx s hs w]
  exact congrArg _ (funext heq)

/-! ### Rows sum to one -/

/-- Column `0` of the Vandermonde matrix is all ones. -/
theorem vand_mulVec_single (x : Fin n → F) (hd : 0 < d) :
    (vand x : Matrix (Fin n) (Fin d) F) *ᵥ Pi.single ⟨0, hd⟩ 1 = 1 := by
  rw [Matrix.mulVec_single_one]
  ext r
  simp [vand, Matrix.col_apply]

theorem top_mulVec_single (h : d ≤ n) (x : Fin n → F) (hd : 0 < d) :
    top h x *ᵥ Pi.single ⟨0, hd⟩ 1 = 1 := by
  rw [Matrix.mulVec_single_one]
  ext r
  simp [top, Matrix.col_apply]

/-- The systematic matrix maps the all-ones vector to the all-ones vector. -/
theorem sys_mulVec_one (h : d ≤ n) {x : Fin n → F} (hx : Function.Injective x) (hd : 0 < d) :
    sysMatrix h x *ᵥ 1 = 1 := by
  have h1 : sysMatrix h x *ᵥ (top h x *ᵥ Pi.single ⟨0, hd⟩ 1) = 1 := by
    rw [Matrix.mulVec_mulVec, sysMatrix, Matrix.mul_assoc,
      Matrix.nonsing_inv_mul _ (top_isUnit_det h hx), Matrix.mul_one, vand_mulVec_single]
  rwa [top_mulVec_single] at h1

/-- Every row of the systematic matrix sums to `1`. -/
theorem rows_sum_one (h : d ≤ n) {x : Fin n → F} (hx : Function.Injective x) (hd : 0 < d)
    (r : Fin n) : ∑ c, sysMatrix h x r c = 1 := by
  have h1 := congrFun (sys_mulVec_one h hx hd) r
  simpa [Matrix.mulVec, dotProduct] using h1

/-- A byte position on which all data shards agree is reproduced in every shard,
in particular in every parity shard. -/
theorem encode_const (h : d ≤ n) {x : Fin n → F} (hx : Function.Injective x) (hd : 0 < d)
    (a : F) (r : Fin n) : (sysMatrix h x *ᵥ fun _ => a) r = a := by
  have h1 : (sysMatrix h x *ᵥ fun _ => a) r = (∑ c, sysMatrix h x r c) * a := by
    simp [Matrix.mulVec, dotProduct, Finset.sum_mul]
  rw [h1, rows_sum_one h hx hd, one_mul]

/-! ### Rows do not depend on the number of parity shards -/

/-- A row of the systematic matrix depends only on the first `d` nodes and on its own node,
not on the total number of shards. -/
theorem row_depends_on_top_and_node {n' : ℕ} (h : d ≤ n) (h' : d ≤ n')
    (x : Fin n → F) (x' : Fin n' → F)
    (htop : ∀ i : Fin d, x (Fin.castLE h i) = x' (Fin.castLE h' i))
    (r : Fin n) (r' : Fin n') (hr : x r = x' r') :
    sysMatrix h x r = sysMatrix h' x' r' := by
  have ht : top h x = top h' x' := by
    ext i j
    simp only [top, htop]
  funext c
  simp only [sysMatrix, Matrix.mul_apply, vand, ht, hr]

/-! ### Abstract MDS codes -/

/-- abstract (n, d) MDS code over F: systematic encoder whose codewords are determined by
any d symbols -/
structure MDS (F : Type*) (d n : ℕ) where
  le : d ≤ n
  gen : (Fin d → F) → (Fin n → F)
  systematic : ∀ v (i : Fin d), gen v (Fin.castLE le i) = v i
  determined : ∀ (s : Fin d → Fin n), Function.Injective s →
    ∀ v w, (∀ i, gen v (s i) = gen w (s i)) → v = w

/-- The systematic Vandermonde construction is an MDS code. -/
noncomputable def vandermondeMDS (h : d ≤ n) (x : Fin n → F) (hx : Function.Injective x) :
    MDS F d n where
  le := h
  gen v := sysMatrix h x *ᵥ v
  systematic v i := encode_systematic h hx v i
  determined s hs v w heq := data_determined h hx s hs v w heq

@[simp]
theorem vandermondeMDS_gen (h : d ≤ n) (x : Fin n → F) (hx : Function.Injective x)
    (v : Fin d → F) : (vandermondeMDS h x hx).gen v = sysMatrix h x *ᵥ v := rfl

/-- Shards of `L` symbols, encoded column by column (byte offset by byte offset). -/
def MDS.genShards {F : Type*} {d n L : ℕ} (C : MDS F d n) (D : Fin d → Fin L → F) :
    Fin n → Fin L → F :=
  fun r l => C.gen (fun j => D j l) r

/-- The first `d` encoded shards are the data shards. -/
theorem MDS.genShards_systematic {F : Type*} {d n L : ℕ} (C : MDS F d n)
    (D : Fin d → Fin L → F) (i : Fin d) : C.genShards D (Fin.castLE C.le i) = D i := by
  funext l
  exact C.systematic _ i

/-- Any `d` received shards determine all data shards. -/
theorem MDS.column_wise {F : Type*} {d n L : ℕ} (C : MDS F d n)
    (s : Fin d → Fin n) (hs : Function.Injective s) (D W : Fin d → Fin L → F)
    (heq : ∀ i, C.genShards D (s i) = C.genShards W (s i)) : D = W := by
  funext j l
  have hcol : (fun j => D j l) = fun j => W j l :=
    C.determined s hs _ _ fun i => congrFun (heq i) l
  exact congrFun hcol j

/-! ### Non-vacuity: the hypotheses are satisfiable -/

section Examples

/-- Nodes `0, 1, 2, 3` in `ℚ` are distinct. -/
theorem natCast_nodes_injective (n : ℕ) :
    Function.Injective (fun i : Fin n => ((i : ℕ) : ℚ)) :=
  fun _ _ hab => Fin.ext (Nat.cast_injective hab)

example : Function.Injective (fun i : Fin 4 => ((i : ℕ) : ℚ)) := natCast_nodes_injective 4

noncomputable example : MDS ℚ 2 4 :=
  vandermondeMDS (by decide) (fun i : Fin 4 => ((i : ℕ) : ℚ)) (natCast_nodes_injective 4)

/-- Decoding from the two parity symbols alone. -/
example (v : Fin 2 → ℚ) :
    ((sysMatrix (by decide : 2 ≤ 4) (fun i : Fin 4 => ((i : ℕ) : ℚ))).submatrix
        ![2, 3] id)⁻¹ *ᵥ
      (fun i => (sysMatrix (by decide : 2 ≤ 4) (fun i : Fin 4 => ((i : ℕ) : ℚ)) *ᵥ v)
        (![2, 3] i)) = v :=
  decode_encode _ (natCast_nodes_injective 4) ![2, 3] (by decide) v

example (r : Fin 4) :
    ∑ c, sysMatrix (by decide : 2 ≤ 4) (fun i : Fin 4 => ((i : ℕ) : ℚ)) r c = 1 :=
  rows_sum_one _ (natCast_nodes_injective 4) (by decide) r

/-- The parity row for node `2` is the same in a `(4, 2)` and in a `(3, 2)` code. -/
example :
    sysMatrix (by decide : 2 ≤ 4) (fun i : Fin 4 => ((i : ℕ) : ℚ)) 2
      = sysMatrix (by decide : 2 ≤ 3) (fun i : Fin 3 => ((i : ℕ) : ℚ)) 2 :=
  row_depends_on_top_and_node _ _ _ _ (fun i => by simp) 2 2 (by simp)

end Examples

end KcpVerif.Lemmas.RS
