/-
Zero-window probing on the closed system: the chain on A's side (`Z0`: the probe timer is not armed and
A flushes by `T0`; `ZA`: it is armed for `P` and A flushes by `T1 ≥ P + interval`), and the composition:
from a state where A's `rmt_wnd` is 0, `rmt_wnd ≠ 0` in some state of every run that is long enough.
-/
import KcpVerif.Lemmas.SysDrainProbe2

namespace KcpVerif.SysC
open KcpVerif KcpVerif.Gen KcpVerif.Kcp KcpVerif.Live KcpVerif.Wire KcpVerif.SysW KcpVerif.Sys

def Z0 (IA T0 T1 : Nat) (s : State) : Prop :=
  s.A.probe_wait = 0 ∧ s.nfA ≤ T0 ∧ s.now ≤ T0 ∧ T0 + IKCP_PROBE_INIT + IA ≤ T1 ∧ T1 < s.now + IKCP_PROBE_INIT + 2 ^ 31

def ZA (IA T1 : Nat) (s : State) : Prop :=
  s.A.probe_wait ≠ 0 ∧ s.nfA ≤ T1 ∧ s.now ≤ T1 ∧ ∃ P, s.A.ts_probe = clk P ∧ P + IA ≤ T1 ∧ T1 < P + 2 ^ 31

/-- a full flush of A (the `flushA` event, or the flush at the end of `Input`) in the phases `Z0`, `ZA` -/
theorem zA_flushState {p : Par} {s : State} {gab gba : GLink} (h : Cons p s gab gba) (hnw : NoWrap p.base s)
    (IA T0 T1 T2 : Nat) (hiv : s.A.interval.toNat = IA) (h0 : s.A.rmt_wnd = 0) (hT2 : T1 + s.D ≤ T2)
    (hz : Z0 IA T0 T1 s ∨ ZA IA T1 s) (nf : Nat)
    (hnf : nf = s.nfA ∨ nf = s.now + (s.A.flush true (clk s.now)).interval.toNat) :
    ZA IA T1 (afterFlushA s nf) ∨ ZW T2 (afterFlushA s nf) := by
  have hnfA : s.nfA ≤ T1 ∧ s.now ≤ T1 := by
    rcases hz with ⟨_, a, b, c, _⟩ | ⟨_, a, b, _⟩
    · exact ⟨by omega, by omega⟩
    · exact ⟨a, b⟩
  have hcore := zA_flush s.A s.now IA T0 T1 h0 hiv (by
    rcases hz with ⟨a, _, c, d, e⟩ | ⟨a, _, c, d⟩
    · exact Or.inl ⟨a, c, d, e⟩
    · exact Or.inr ⟨a, c, d⟩)
  rcases hcore with ⟨c1, c2, P, c3, c4, c5⟩ | ⟨fr, hfr, hw⟩
  · left
    refine ⟨c1, ?_, hnfA.2, P, c3, c4, c5⟩
    show nf ≤ T1
    rcases hnf with e | e
    · rw [e]; exact hnfA.1
    · rw [e]; exact c2
  · right
    obtain ⟨g, e1, e2, e3⟩ := emitA h hnw fr hfr
    exact ⟨by show s.now ≤ T2; omega, ⟨s.now + s.D, encFrames g⟩, List.mem_append_right _ e1,
      by show s.now + s.D ≤ T2; omega, g, rfl, e3, fr, e2, hw⟩

/-- **the chain on A's side** -/
theorem zA_step {p : Par} {s : State} {gab gba : GLink} (h : Cons p s gab gba) (hnw : NoWrap p.base s)
    (IA T0 T1 T2 : Nat) (hiv : s.A.interval.toNat = IA) (h0 : s.A.rmt_wnd = 0) (hT2 : T1 + s.D ≤ T2)
    (hz : Z0 IA T0 T1 s ∨ ZA IA T1 s) (ev : Ev) :
    ((Z0 IA T0 T1 (Sys.step s ev) ∨ ZA IA T1 (Sys.step s ev)) ∨ ZW T2 (Sys.step s ev)) ∨
      (Sys.step s ev).A.rmt_wnd ≠ 0 := by
  have keep : ∀ s' : State, s'.A.probe_wait = s.A.probe_wait → s'.A.ts_probe = s.A.ts_probe → s'.nfA = s.nfA →
      s'.now = s.now → ((Z0 IA T0 T1 s' ∨ ZA IA T1 s') ∨ ZW T2 s') ∨ s'.A.rmt_wnd ≠ 0 := by
    intro s' e1 e2 e3 e4
    rcases hz with ⟨a, b, c, d, e⟩ | ⟨a, b, c, P, d⟩
    · exact Or.inl (Or.inl (Or.inl ⟨by rw [e1]; exact a, by rw [e3]; exact b, by rw [e4]; exact c, d, by rw [e4]; exact e⟩))
    · exact Or.inl (Or.inl (Or.inr ⟨by rw [e1]; exact a, by rw [e3]; exact b, by rw [e4]; exact c, P, by rw [e2]; exact d⟩))
  cases ev with
  | tick =>
    rw [show Sys.step s .tick = (if quiet s then { s with now := s.now + 1 } else s) from rfl]
    split
    · rename_i hq
      have := (quiet_facts s hq).2.2.1
      rcases hz with ⟨a, b, c, d, e⟩ | ⟨a, b, c, P, d⟩
      · exact Or.inl (Or.inl (Or.inl ⟨a, b, by show s.now + 1 ≤ T0; omega, d, by show T1 < s.now + 1 + _ + _; omega⟩))
      · exact Or.inl (Or.inl (Or.inr ⟨a, b, by show s.now + 1 ≤ T1; omega, P, d⟩))
    · exact keep s rfl rfl rfl rfl
  | send b =>
    have hq := Frame.send_k s.A b
    exact keep _ (by show (s.A.send b).k.probe_wait = _; rw [hq]) (by show (s.A.send b).k.ts_probe = _; rw [hq]) rfl rfl
  | read =>
    rw [show Sys.step s .read = (if (s.B.recv s.B.peekSize.toNat).n < 0 then s
      else { s with B := (s.B.recv s.B.peekSize.toNat).k, got := s.got ++ (s.B.recv s.B.peekSize.toNat).data }) from rfl]
    split
    · exact keep s rfl rfl rfl rfl
    · exact keep _ rfl rfl rfl rfl
  | flushB => exact keep _ rfl rfl rfl rfl
  | flushA =>
    rcases zA_flushState h hnw IA T0 T1 T2 hiv h0 hT2 hz (s.now + (s.A.flush true (clk s.now)).interval.toNat) (Or.inr rfl)
      with h3 | h3
    · exact Or.inl (Or.inl (Or.inr h3))
    · exact Or.inl (Or.inr h3)
  | dlvB =>
    cases hab : s.ab with
    | nil =>
      have : Sys.step s .dlvB = s := by simp only [Sys.step, hab]
      rw [this]; exact keep s rfl rfl rfl rfl
    | cons d rest =>
      rw [step_dlvB_cons s _ _ hab]
      split
      · exact keep _ rfl rfl rfl rfl
      · exact keep s rfl rfl rfl rfl
  | dlvA =>
    cases gba with
    | nil =>
      have : Sys.step s .dlvA = s := by simp only [Sys.step, h.hba, encL, List.map_nil]
      rw [this]; exact keep s rfl rfl rfl rfl
    | cons d0 grest =>
      obtain ⟨t0, frs⟩ := d0
      have hba : s.ba = ⟨t0, encFrames frs⟩ :: encL grest := h.hba
      rw [step_dlvA_cons s _ _ hba]
      split
      · by_cases hne : frs = []
        · subst hne
          simp only [input_empty]
          exact keep _ rfl rfl rfl rfl
        · obtain ⟨hv, hp, hr, _, _, _, _⟩ := cons_inA h hnw (inFrs true frs { k := s.A }).k (Or.inl rfl)
          obtain ⟨k1, hk1, himp⟩ := inputA_cases s.A frs s.ndA (clk s.now) hv hp hr
          obtain ⟨_, _, _, hal, hnx, hsq, hclean⟩ := cons_inA h hnw k1 hk1
          obtain ⟨i1, i2, i3, i4⟩ := inA_probe (inFrs true frs { k := s.A }) k1 hk1 s.A.snd_una
          obtain ⟨j1, j2, j3⟩ := inFrs_probe_timer frs { k := s.A }
          have e1 : (cwndOnAck k1 s.A.snd_una).probe_wait = s.A.probe_wait := i1.trans j1
          have e2 : (cwndOnAck k1 s.A.snd_una).ts_probe = s.A.ts_probe := i2.trans j2
          have e3 : (cwndOnAck k1 s.A.snd_una).interval = s.A.interval := i3.trans j3
          by_cases hopen : (cwndOnAck k1 s.A.snd_una).rmt_wnd = 0
          · rcases himp hal hclean.aK with hin | hin | ⟨hnil, _⟩
            · simp only [hin]
              exact keep _ e1 e2 rfl rfl
            · simp only [hin]
              have hnw1 : NoWrap p.base { s with A := cwndOnAck k1 s.A.snd_una, ba := encL grest } := by
                have hnw' := hnw
                unfold NoWrap at hnw' ⊢
                show o p.base (cwndOnAck k1 s.A.snd_una).snd_nxt + (cwndOnAck k1 s.A.snd_una).snd_queue.length < _
                rw [hnx, hsq]; exact hnw'
              have hz1 : Z0 IA T0 T1 { s with A := cwndOnAck k1 s.A.snd_una, ba := encL grest } ∨
                  ZA IA T1 { s with A := cwndOnAck k1 s.A.snd_una, ba := encL grest } := by
                rcases hz with ⟨a, b, c, d, e⟩ | ⟨a, b, c, P, d⟩
                · exact Or.inl ⟨e1.trans a, b, c, d, e⟩
                · exact Or.inr ⟨by show (cwndOnAck k1 s.A.snd_una).probe_wait ≠ 0; rw [e1]; exact a, b, c, P,
                    by show (cwndOnAck k1 s.A.snd_una).ts_probe = _ ∧ _; rw [e2]; exact d⟩
              rcases zA_flushState hclean hnw1 IA T0 T1 T2 (by show (cwndOnAck k1 s.A.snd_una).interval.toNat = IA; rw [e3]; exact hiv)
                hopen hT2 hz1 s.nfA (Or.inl rfl) with h3 | h3
              · exact Or.inl (Or.inl (Or.inr h3))
              · exact Or.inl (Or.inr h3)
            · exact absurd hnil hne
          · right
            rcases himp hal hclean.aK with hin | hin | ⟨hnil, _⟩
            · simp only [hin]; exact hopen
            · simp only [hin]
              obtain ⟨pw, tp, st, ss, cw, inc, hk⟩ := flush_frame (cwndOnAck k1 s.A.snd_una) true (clk s.now)
              show (flush (cwndOnAck k1 s.A.snd_una) true (clk s.now)).k.rmt_wnd ≠ 0
              rw [hk]; exact hopen
            · exact absurd hnil hne
      · exact keep s rfl rfl rfl rfl

/-- the five phases of one probe round, with their deadlines -/
def Zall (IA T0 T1 T2 T3 T4 : Nat) (s : State) : Prop :=
  (Z0 IA T0 T1 s ∨ ZA IA T1 s) ∨ ZW T2 s ∨ ZT T3 s ∨ ZR T4 s

/-- the per-state run hypotheses of the probing chain -/
def ProbeHyp (p : Par) (s : State) : Prop := Small p.base s ∧ QB s

theorem z_step {p : Par} {IA IB : Nat} {s : State} (hi : Inv p IA IB s) (hnw : NoWrap p.base s)
    (T0 T1 T2 T3 T4 : Nat) (hT2 : T1 + s.D ≤ T2) (hT3 : T2 + IB ≤ T3) (hT4 : T3 + s.D ≤ T4)
    (hQ : QB s) (ev : Ev) (hQ' : QB (Sys.step s ev)) (h0 : s.A.rmt_wnd = 0) (hz : Zall IA T0 T1 T2 T3 T4 s) :
    Zall IA T0 T1 T2 T3 T4 (Sys.step s ev) ∨ (Sys.step s ev).A.rmt_wnd ≠ 0 := by
  obtain ⟨gab, gba, hc⟩ := hi.cons
  obtain ⟨gab', gba', hc'⟩ := (inv_step hi hnw ev).cons
  rcases hz with hz | hz
  · rcases zA_step hc hnw IA T0 T1 T2 hi.ta.iv h0 hT2 hz ev with (h1 | h1) | h1
    · exact Or.inl (Or.inl h1)
    · exact Or.inl (Or.inr (Or.inl h1))
    · exact Or.inr h1
  · rcases zB_step hc hnw T2 T3 T4 IB hi.tb hT3 hT4 hQ ev hQ' hc'.np hz with h1 | h1
    · exact Or.inl (Or.inr h1)
    · exact Or.inr h1

theorem zall_now {IA T0 T1 T2 T3 T4 : Nat} {s : State} (hz : Zall IA T0 T1 T2 T3 T4 s)
    (h12 : T1 ≤ T2) (h23 : T2 ≤ T3) (h34 : T3 ≤ T4) : s.now ≤ T4 := by
  rcases hz with (⟨_, _, c, d, _⟩ | ⟨_, _, c, _⟩) | ⟨c, _⟩ | ⟨_, _, c⟩ | ⟨c, _⟩ <;> omega

theorem z_run {p : Par} {IA IB : Nat} (T0 T1 T2 T3 T4 D : Nat) (hT2 : T1 + D ≤ T2) (hT3 : T2 + IB ≤ T3) (hT4 : T3 + D ≤ T4)
    (evs : List Ev) : ∀ (s : State), s.D = D → Inv p IA IB s → RunP (ProbeHyp p) s evs → Zall IA T0 T1 T2 T3 T4 s →
    (∃ a b, evs = a ++ b ∧ (Sys.run s a).A.rmt_wnd ≠ 0) ∨ Zall IA T0 T1 T2 T3 T4 (Sys.run s evs) := by
  induction evs with
  | nil => intro s _ _ _ hz; exact Or.inr hz
  | cons ev rest ih =>
    intro s hD hi hr hz
    by_cases h0 : s.A.rmt_wnd = 0
    · have hnw := hr.1.1.noWrap
      rcases z_step hi hnw T0 T1 T2 T3 T4 (by rw [hD]; exact hT2) hT3 (by rw [hD]; exact hT4) hr.1.2 ev
        (RunP.head hr.2).2 h0 hz with h1 | h1
      · rcases ih (Sys.step s ev) ((step_D s ev).trans hD) (inv_step hi hnw ev) hr.2 h1 with ⟨a, b, e1, e2⟩ | h2
        · exact Or.inl ⟨ev :: a, b, by rw [e1]; rfl, e2⟩
        · exact Or.inr h2
      · exact Or.inl ⟨[ev], rest, rfl, h1⟩
    · exact Or.inl ⟨[], ev :: rest, rfl, h0⟩

/-- **one probe round**: from a consistent state in phase `Z0` (probe timer not armed, A flushes by `T0`)
or `ZA` (armed for `P`, A flushes by `T1 ≥ P + interval`), whatever was lost before: in every run whose
clock passes `T1 + D + IB + D`, A's `rmt_wnd` is non-zero in some state -/
theorem probe_round {p : Par} {IA IB : Nat} {s : State} (hi : Inv p IA IB s) (T0 T1 : Nat)
    (hz : Z0 IA T0 T1 s ∨ ZA IA T1 s) (evs : List Ev) (hr : RunP (ProbeHyp p) s evs)
    (hnow : T1 + s.D + IB + s.D < (Sys.run s evs).now) :
    ∃ a b, evs = a ++ b ∧ (Sys.run s a).A.rmt_wnd ≠ 0 := by
  rcases z_run T0 T1 (T1 + s.D) (T1 + s.D + IB) (T1 + s.D + IB + s.D) s.D (Nat.le_refl _) (Nat.le_refl _) (Nat.le_refl _)
    evs s rfl hi hr (Or.inl hz) with h1 | h1
  · exact h1
  · exfalso
    have := zall_now h1 (by omega) (by omega) (by omega)
    omega

end KcpVerif.SysC
