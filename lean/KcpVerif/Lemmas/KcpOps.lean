/-
Shared infrastructure for proofs about `Model/Kcp.lean`:
* `Op`, `step`, `run`: the operations of the protocol core as a labelled transition system
* a staged presentation of `flush` and of one iteration of `inputLoop`, proved EQUAL (by `rfl`)
  to the model's definitions, so that invariants can be proved phase by phase
* frame lemmas: which phase touches which fields.
Core Lean only.
-/
import KcpVerif.Model.Kcp

namespace KcpVerif.Kcp
open KcpVerif KcpVerif.Gen

/-! ### operations -/

/-- every state-changing entry point of the core, with arbitrary arguments -/
inductive Op where
  | send (buffer : Bytes)
  | recv (buflen : Nat)
  | input (data : Bytes) (regular ackNoDelay : Bool) (now : U32)
  | flush (full : Bool) (now : U32)
  | update (now : U32)
  | setMtu (mtu : Int)
  | noDelay (nodelay interval resend nc : Int)
  | wndSize (snd rcv : Int)
  | setStream (v : U32)
deriving Repr

/-- the state after an operation (return values, output and panic flags dropped: the invariants
are proved for the state the model returns in EVERY case, also next to a `panic` flag) -/
def step (k : Kcp) : Op → Kcp
  | .send b => (k.send b).k
  | .recv n => (k.recv n).k
  | .input d reg nd now => (k.input d reg nd now).k
  | .flush full now => (k.flush full now).k
  | .update now => (k.update now).k
  | .setMtu m => (k.setMtu m).1
  | .noDelay a b c d => k.noDelay a b c d
  | .wndSize s r => k.wndSize s r
  | .setStream v => { k with stream := v }

def run (k : Kcp) (ops : List Op) : Kcp := ops.foldl step k

@[simp] theorem run_nil (k : Kcp) : run k [] = k := rfl
@[simp] theorem run_cons (k : Kcp) (op : Op) (ops : List Op) : run k (op :: ops) = run (step k op) ops := rfl

/-- a fresh core whose sequence numbers start anywhere (the real code starts at 0; the
generalisation covers every wrap-around position) -/
def start (conv snd0 rcv0 : U32) : Kcp := { Kcp.new conv with snd_una := snd0, snd_nxt := snd0, rcv_nxt := rcv0 }

/-! ### `flush`, staged -/

/-- phase 1 of `flush`: the ACK segments -/
def flushP1 (k : Kcp) : AckSt :=
  ackFlush (wndUnused k) k.rcv_nxt k.acklist.length k.acklist 0 ⟨{ k := k }, { cmd := BitVec.ofNat 8 IKCP_CMD_ACK }⟩

/-- one probe command of phase 3 (`flag` = IKCP_ASK_SEND/TELL, `cmd` = IKCP_CMD_WASK/WINS) -/
def probeCmd (f : Fl) (flag cmd : Nat) (wnd : BitVec 16) (sc : Scratch) (una : U32) : Fl :=
  if f.k.probe &&& u32 flag ≠ 0 then
    (f.makeSpace IKCP_OVERHEAD).putHdr (encodeHdr f.k.conv (BitVec.ofNat 8 cmd) 0 wnd sc.ts sc.sn una 0)
  else f

/-- phases 1–3 of `flush` (acks, probe timer, probe commands) -/
def flushP3 (k : Kcp) (now : U32) : Fl :=
  let a := flushP1 k
  let f2 : Fl := { a.f with k := probePhase { a.f.k with acklist := [] } now }
  let f3 := probeCmd (probeCmd f2 IKCP_ASK_SEND IKCP_CMD_WASK (wndUnused k) a.sc k.rcv_nxt)
    IKCP_ASK_TELL IKCP_CMD_WINS (wndUnused k) a.sc k.rcv_nxt
  { f3 with k := { f3.k with probe := 0 } }

/-- `min(snd_wnd, rmt_wnd)` -/
def cw0 (k : Kcp) : U32 := if k.snd_wnd ≤ k.rmt_wnd then k.snd_wnd else k.rmt_wnd

/-- the effective window of phase 4: `min(snd_wnd, rmt_wnd)` and, with congestion control, `cwnd` -/
def effCwnd (k : Kcp) : U32 :=
  if k.nocwnd = 0 then (if k.cwnd ≤ cw0 k then k.cwnd else cw0 k) else cw0 k

/-- phase 4 -/
def flushAd (k : Kcp) (now : U32) : AdmitRes :=
  admitSegs k.conv k.snd_una (effCwnd k) now k.snd_queue k.snd_buf k.snd_nxt 0

def flushP4 (f : Fl) (now : U32) : Fl :=
  let ad := flushAd f.k now
  { f with k := { f.k with snd_queue := ad.queue, snd_buf := ad.buf, snd_nxt := ad.nxt } }

def resentOf (k : Kcp) : U32 := if k.fastresend.sle 0 then 0xFFFFFFFF#32 else k.fastresend

/-- phase 5 -/
def flushX (f : Fl) (full : Bool) (now : U32) (wnd : BitVec 16) (una : U32) (count : Nat) : XmitSt :=
  if full then f.k.snd_buf.foldl (xmitOne now (resentOf f.k) wnd una count) { f := f, next := f.k.interval }
  else { f := f, done := f.k.snd_buf, next := f.k.interval }

/-- phase 6a: halve on fast retransmit -/
def p6change (k5 : Kcp) (resent : U32) (change : Nat) : Kcp :=
  if change > 0 then
    let inflight := k5.snd_nxt - k5.snd_una
    let half := inflight / 2
    let ss := if half ≥ u32 IKCP_THRESH_MIN then half else u32 IKCP_THRESH_MIN
    { k5 with ssthresh := ss, cwnd := ss + resent, incr := (ss + resent) * k5.mss }
  else k5

/-- phase 6b: collapse to one segment on a retransmission timeout -/
def p6lost (k7 : Kcp) (cwnd : U32) (lost : Nat) : Kcp :=
  if lost > 0 then
    let half := cwnd / 2
    { k7 with ssthresh := (if half ≥ u32 IKCP_THRESH_MIN then half else u32 IKCP_THRESH_MIN), cwnd := 1, incr := k7.mss }
  else k7

/-- phase 6c: the congestion window is at least one segment -/
def p6floor (k8 : Kcp) : Kcp := if k8.cwnd < 1 then { k8 with cwnd := 1, incr := k8.mss } else k8

/-- phase 6: congestion window after fast retransmits (`change`) / timeouts (`lost`) -/
def phase6 (k5 : Kcp) (cwnd resent : U32) (change lost : Nat) : Kcp :=
  if k5.nocwnd = 0 then p6floor (p6lost (p6change k5 resent change) cwnd lost) else k5

/-- the model's `flush` is the composition of the stages -/
theorem flush_eq (k : Kcp) (full : Bool) (now : U32) :
    flush k full now =
      let f3 := flushP3 k now
      let ad := flushAd f3.k now
      let f4 := flushP4 f3 now
      let x := flushX f4 full now (wndUnused k) k.rcv_nxt ad.count
      let f : Fl := { x.f with k := { x.f.k with snd_buf := x.done } }
      ⟨phase6 f.k (effCwnd f3.k) (resentOf f4.k) x.change x.lost,
       if f.cur.length > 0 then f.outs ++ [f.cur] else f.outs, x.next, f.panic⟩ := rfl

/-! ### buffer helpers never touch the protocol state -/

theorem makeSpace_k (f : Fl) (n : Nat) : (f.makeSpace n).k = f.k := by
  unfold Fl.makeSpace; split <;> rfl
theorem putHdr_k (f : Fl) (h : Bytes) : (f.putHdr h).k = f.k := by
  unfold Fl.putHdr; split <;> rfl
theorem putData_k (f : Fl) (h : Bytes) : (f.putData h).k = f.k := by
  unfold Fl.putData; split <;> rfl

theorem ackFlush_k (w : BitVec 16) (u : U32) (t : Nat) (l : List Ack) (i : Nat) (st : AckSt) :
    (ackFlush w u t l i st).f.k = st.f.k := by
  induction l generalizing i st with
  | nil => rfl
  | cons a rest ih =>
    unfold ackFlush
    simp only []
    split
    · rw [ih]; simp only [putHdr_k, makeSpace_k]
    · rw [ih]; simp only [makeSpace_k]

theorem probeCmd_k (f : Fl) (flag cmd : Nat) (wnd : BitVec 16) (sc : Scratch) (una : U32) :
    (probeCmd f flag cmd wnd sc una).k = f.k := by
  unfold probeCmd; split
  · simp only [putHdr_k, makeSpace_k]
  · rfl

theorem probePhase_shape (k : Kcp) (now : U32) :
    ∃ pw tp pr, probePhase k now = { k with probe_wait := pw, ts_probe := tp, probe := pr } := by
  unfold probePhase
  split
  · split
    · exact ⟨_, _, k.probe, rfl⟩
    · split
      · exact ⟨_, _, _, rfl⟩
      · exact ⟨k.probe_wait, k.ts_probe, k.probe, rfl⟩
  · exact ⟨_, _, k.probe, rfl⟩

theorem flushP3_k (k : Kcp) (now : U32) :
    ∃ pw tp, (flushP3 k now).k = { k with acklist := [], probe_wait := pw, ts_probe := tp, probe := 0 } := by
  obtain ⟨pw, tp, pr, h⟩ := probePhase_shape { k with acklist := [] } now
  refine ⟨pw, tp, ?_⟩
  unfold flushP3
  simp only [probeCmd_k]
  unfold flushP1
  simp only [ackFlush_k]
  rw [h]

/-- the retransmission decision of phase 5: (needsend, segment', change+, lost+) -/
def xmitDec (k : Kcp) (now resent : U32) (newSegs : Nat) (s : Seg) : Bool × Seg × Nat × Nat :=
  if s.xmit = 0 then (true, { s with rto := k.rx_rto, resendts := now + k.rx_rto }, 0, 0)
  else if s.fastack ≥ resent ∧ s.fastack ≠ 0xFFFFFFFF#32 then
    (true, { s with fastack := 0xFFFFFFFF#32, rto := k.rx_rto, resendts := now + k.rx_rto }, 1, 0)
  else if s.fastack > 0 ∧ s.fastack ≠ 0xFFFFFFFF#32 ∧ newSegs = 0 then
    (true, { s with fastack := 0xFFFFFFFF#32, rto := k.rx_rto, resendts := now + k.rx_rto }, 1, 0)
  else if itimediff now s.resendts ≥ 0 then
    let rto' := if k.nodelay = 0 then s.rto + k.rx_rto else s.rto + k.rx_rto / 2
    (true, { s with rto := rto', fastack := 0, resendts := now + rto' }, 0, 1)
  else (false, s, 0, 0)

/-- the header fields stamped on a segment that is (re)sent -/
def xmitStamp (needsend : Bool) (s1 : Seg) (now : U32) (wnd : BitVec 16) (una : U32) : Seg :=
  if needsend then { s1 with xmit := s1.xmit + 1, ts := now, wnd := wnd, una := una } else s1

/-- writing one segment into the output buffer -/
def xmitEmit (f0 : Fl) (s2 : Seg) : Fl :=
  let f := f0.makeSpace (IKCP_OVERHEAD + s2.data.length)
  let f := f.putHdr (encodeHdr s2.conv s2.cmd s2.frg s2.wnd s2.ts s2.sn s2.una s2.data.length)
  let f := f.putData s2.data
  if s2.xmit ≥ f.k.dead_link then { f with k := { f.k with state := 0xFFFFFFFF#32 } } else f

def xmitNext (s2 : Seg) (now next : U32) : U32 :=
  let d := itimediff s2.resendts now
  if d > 0 ∧ BitVec.ofInt 32 d < next then BitVec.ofInt 32 d else next

theorem xmitOne_eq (now resent : U32) (wnd : BitVec 16) (una : U32) (n : Nat) (st : XmitSt) (s : Seg) :
    xmitOne now resent wnd una n st s =
      if s.acked then { st with done := st.done ++ [s] } else
      let r := xmitDec st.f.k now resent n s
      let s2 := xmitStamp r.1 r.2.1 now wnd una
      { f := if r.1 then xmitEmit st.f s2 else st.f, done := st.done ++ [s2],
        change := st.change + r.2.2.1, lost := st.lost + r.2.2.2, next := xmitNext s2 now st.next } := rfl


/-! ### frame of `flush` -/

theorem xmitEmit_k (f : Fl) (s : Seg) : ∃ v, (xmitEmit f s).k = { f.k with state := v } := by
  unfold xmitEmit
  simp only []
  split
  · exact ⟨0xFFFFFFFF#32, by simp only [putData_k, putHdr_k, makeSpace_k]⟩
  · exact ⟨f.k.state, by simp only [putData_k, putHdr_k, makeSpace_k]⟩

theorem xmitOne_k (now resent : U32) (wnd : BitVec 16) (una : U32) (n : Nat) (st : XmitSt) (s : Seg) :
    ∃ v, (xmitOne now resent wnd una n st s).f.k = { st.f.k with state := v } := by
  rw [xmitOne_eq]
  split
  · exact ⟨st.f.k.state, rfl⟩
  · simp only []
    split
    · exact xmitEmit_k _ _
    · exact ⟨st.f.k.state, rfl⟩

theorem xmitDec_sn (k : Kcp) (now resent : U32) (n : Nat) (s : Seg) : (xmitDec k now resent n s).2.1.sn = s.sn := by
  unfold xmitDec
  split; · rfl
  split; · rfl
  split; · rfl
  split <;> rfl

theorem xmitStamp_sn (b : Bool) (s : Seg) (now : U32) (wnd : BitVec 16) (una : U32) :
    (xmitStamp b s now wnd una).sn = s.sn := by
  unfold xmitStamp; split <;> rfl

theorem xmitOne_done (now resent : U32) (wnd : BitVec 16) (una : U32) (n : Nat) (st : XmitSt) (s : Seg) :
    ∃ s', (xmitOne now resent wnd una n st s).done = st.done ++ [s'] ∧ s'.sn = s.sn := by
  rw [xmitOne_eq]
  split
  · exact ⟨s, rfl, rfl⟩
  · exact ⟨_, rfl, by rw [xmitStamp_sn, xmitDec_sn]⟩

theorem xmitFold (now resent : U32) (wnd : BitVec 16) (una : U32) (n : Nat) (l : List Seg) (st : XmitSt) :
    (∃ v, (l.foldl (xmitOne now resent wnd una n) st).f.k = { st.f.k with state := v }) ∧
    (l.foldl (xmitOne now resent wnd una n) st).done.map (·.sn) = st.done.map (·.sn) ++ l.map (·.sn) := by
  induction l generalizing st with
  | nil => exact ⟨⟨st.f.k.state, rfl⟩, by simp⟩
  | cons s r ih =>
    simp only [List.foldl_cons]
    obtain ⟨⟨v, hv⟩, hd⟩ := ih (xmitOne now resent wnd una n st s)
    obtain ⟨v1, hv1⟩ := xmitOne_k now resent wnd una n st s
    obtain ⟨s', hs', hsn⟩ := xmitOne_done now resent wnd una n st s
    refine ⟨⟨v, ?_⟩, ?_⟩
    · rw [hv, hv1]
    · rw [hd, hs']; simp [hsn]

theorem flushX_k (f : Fl) (full : Bool) (now : U32) (wnd : BitVec 16) (una : U32) (c : Nat) :
    ∃ v, (flushX f full now wnd una c).f.k = { f.k with state := v } := by
  unfold flushX
  split
  · exact (xmitFold _ _ _ _ _ _ _).1
  · exact ⟨f.k.state, rfl⟩

theorem flushX_sns (f : Fl) (full : Bool) (now : U32) (wnd : BitVec 16) (una : U32) (c : Nat) :
    (flushX f full now wnd una c).done.map (·.sn) = f.k.snd_buf.map (·.sn) := by
  unfold flushX
  split
  · rw [(xmitFold _ _ _ _ _ _ _).2]; simp
  · rfl

theorem p6change_shape (k5 : Kcp) (resent : U32) (change : Nat) :
    ∃ ss cw inc, p6change k5 resent change = { k5 with ssthresh := ss, cwnd := cw, incr := inc } := by
  unfold p6change; split
  · exact ⟨_, _, _, rfl⟩
  · exact ⟨k5.ssthresh, k5.cwnd, k5.incr, rfl⟩

theorem p6lost_shape (k7 : Kcp) (cwnd : U32) (lost : Nat) :
    ∃ ss cw inc, p6lost k7 cwnd lost = { k7 with ssthresh := ss, cwnd := cw, incr := inc } := by
  unfold p6lost; split
  · exact ⟨_, _, _, rfl⟩
  · exact ⟨k7.ssthresh, k7.cwnd, k7.incr, rfl⟩

theorem p6floor_shape (k8 : Kcp) :
    ∃ cw inc, p6floor k8 = { k8 with cwnd := cw, incr := inc } := by
  unfold p6floor; split
  · exact ⟨_, _, rfl⟩
  · exact ⟨k8.cwnd, k8.incr, rfl⟩

theorem phase6_shape (k5 : Kcp) (cwnd resent : U32) (change lost : Nat) :
    ∃ ss cw inc, phase6 k5 cwnd resent change lost = { k5 with ssthresh := ss, cwnd := cw, incr := inc } := by
  unfold phase6
  split
  · obtain ⟨a, b, c, h1⟩ := p6change_shape k5 resent change
    obtain ⟨a2, b2, c2, h2⟩ := p6lost_shape (p6change k5 resent change) cwnd lost
    obtain ⟨b3, c3, h3⟩ := p6floor_shape (p6lost (p6change k5 resent change) cwnd lost)
    rw [h3, h2, h1]
    exact ⟨_, _, _, rfl⟩
  · exact ⟨k5.ssthresh, k5.cwnd, k5.incr, rfl⟩

/-- the frame of `flush`: which fields it can change, and how the send buffer evolves -/
theorem flush_k (k : Kcp) (full : Bool) (now : U32) :
    ∃ pw tp st ss cw inc done,
      (flush k full now).k = { k with acklist := [], probe_wait := pw, ts_probe := tp, probe := 0,
                                      snd_queue := (flushAd k now).queue, snd_buf := done,
                                      snd_nxt := (flushAd k now).nxt, state := st,
                                      ssthresh := ss, cwnd := cw, incr := inc } ∧
      done.map (·.sn) = (flushAd k now).buf.map (·.sn) := by
  rw [flush_eq]
  simp only []
  obtain ⟨pw, tp, h3⟩ := flushP3_k k now
  generalize flushP3 k now = f3 at h3
  obtain ⟨st, hx⟩ := flushX_k (flushP4 f3 now) full now k.wndUnused k.rcv_nxt (flushAd f3.k now).count
  have hs := flushX_sns (flushP4 f3 now) full now k.wndUnused k.rcv_nxt (flushAd f3.k now).count
  generalize flushX (flushP4 f3 now) full now k.wndUnused k.rcv_nxt (flushAd f3.k now).count = x at hx hs
  obtain ⟨ss, cw, inc, h6⟩ := phase6_shape { x.f.k with snd_buf := x.done } (effCwnd f3.k) (resentOf (flushP4 f3 now).k) x.change x.lost
  refine ⟨pw, tp, st, ss, cw, inc, x.done, ?_, ?_⟩
  · rw [h6, hx]
    unfold flushP4
    simp only []
    rw [h3]
    rfl
  · rw [hs]; unfold flushP4; simp only []; rw [h3]; rfl


/-! ### `Input`, staged -/

/-- the part of the loop body common to all commands: remote window, `parse_una`, `shrink_buf` -/
def inSt1 (regular : Bool) (wnd : BitVec 16) (una : U32) (st : InLoop) : InLoop :=
  let k1 := if regular then { st.k with rmt_wnd := wnd.setWidth 32 } else st.k
  let pu := parseUna k1 una
  { st with k := shrinkBuf pu.1, flushSeg := st.flushSeg || decide (pu.2 > 0) }

/-- IKCP_CMD_ACK -/
def inAck (st1 : InLoop) (sn ts : U32) : InLoop :=
  let k2 := shrinkBuf (parseAck st1.k sn)
  let pf := parseFastack k2 sn ts
  { st1 with k := pf.1, flushSeg := st1.flushSeg || pf.2, updRtt := true, latest := ts }

/-- IKCP_CMD_PUSH -/
def inPush (st1 : InLoop) (seg : Seg) : InLoop :=
  if itimediff seg.sn (st1.k.rcv_nxt + st1.k.rcv_wnd) < 0 then
    let k2 := { st1.k with acklist := st1.k.acklist ++ [⟨seg.sn, seg.ts⟩] }
    if itimediff seg.sn k2.rcv_nxt ≥ 0 then
      let r := parseData k2 seg
      { st1 with k := r.k, panic := r.panic }
    else { st1 with k := k2 }
  else st1

/-- one accepted segment of the parse loop of `Input` (everything between the header checks and
the recursive call) -/
def inBody (regular : Bool) (data : Bytes) (st : InLoop) : InLoop :=
  let cmd := BitVec.ofNat 8 (byteAt data 4)
  let st1 := inSt1 regular (rd16 data 6) (rd32 data 16) st
  if cmd.toNat = IKCP_CMD_ACK then inAck st1 (rd32 data 12) (rd32 data 8)
  else if cmd.toNat = IKCP_CMD_PUSH then
    inPush st1 { conv := rd32 data 0, cmd := cmd, frg := BitVec.ofNat 8 (byteAt data 5), wnd := rd16 data 6,
                 ts := rd32 data 8, sn := rd32 data 12, una := rd32 data 16,
                 data := (data.drop IKCP_OVERHEAD).take (rd32 data 20).toNat }
  else if cmd.toNat = IKCP_CMD_WASK then
    { st1 with k := { st1.k with probe := st1.k.probe ||| u32 IKCP_ASK_TELL } }
  else st1

theorem inputLoop_zero (regular : Bool) (data : Bytes) (st : InLoop) : inputLoop regular 0 data st = st := rfl

theorem inputLoop_succ (regular : Bool) (fuel : Nat) (data : Bytes) (st : InLoop) :
    inputLoop regular (fuel + 1) data st =
      if data.length < IKCP_OVERHEAD then st else
      if rd32 data 0 ≠ st.k.conv then { st with ret := -1 } else
      if (data.drop IKCP_OVERHEAD).length < (rd32 data 20).toNat ∨ (rd32 data 20).toNat > mtuLimit then { st with ret := -2 } else
      if (BitVec.ofNat 8 (byteAt data 4)).toNat ≠ IKCP_CMD_PUSH ∧ (BitVec.ofNat 8 (byteAt data 4)).toNat ≠ IKCP_CMD_ACK ∧
          (BitVec.ofNat 8 (byteAt data 4)).toNat ≠ IKCP_CMD_WASK ∧ (BitVec.ofNat 8 (byteAt data 4)).toNat ≠ IKCP_CMD_WINS then
        { st with ret := -3 } else
      if (inBody regular data st).panic then inBody regular data st else
      inputLoop regular fuel ((data.drop IKCP_OVERHEAD).drop (rd32 data 20).toNat) (inBody regular data st) := rfl

/-- the RTT update of `Input` after the parse loop -/
def inputK1 (st : InLoop) (regular : Bool) (now : U32) : Kcp :=
  if st.updRtt ∧ regular ∧ itimediff now st.latest ≥ 0 then updateAck st.k (now - st.latest) else st.k

/-- the flush decision at the end of `Input` -/
def inputFin (k2 : Kcp) (flushSeg ackNoDelay : Bool) (now : U32) : InRes :=
  if flushSeg then
    let r := flush k2 true now
    ⟨r.k, 0, r.outs, r.panic⟩
  else if k2.acklist.length ≥ (k2.mtu / u32 IKCP_OVERHEAD).toNat then
    let r := flush k2 false now
    ⟨r.k, 0, r.outs, r.panic⟩
  else if ackNoDelay ∧ k2.acklist.length > 0 then
    let r := flush k2 false now
    ⟨r.k, 0, r.outs, r.panic⟩
  else ⟨k2, 0, [], false⟩

/-- everything `Input` does after the parse loop; `una0` is `snd_una` on entry -/
def inputTail (una0 : U32) (st : InLoop) (regular ackNoDelay : Bool) (now : U32) : InRes :=
  if st.panic then ⟨st.k, 0, [], true⟩ else
  if st.ret < 0 then ⟨st.k, st.ret, [], false⟩ else
  inputFin (cwndOnAck (inputK1 st regular now) una0) st.flushSeg ackNoDelay now

theorem input_eq (k : Kcp) (data : Bytes) (regular ackNoDelay : Bool) (now : U32) :
    input k data regular ackNoDelay now =
      if data.length < IKCP_OVERHEAD then ⟨k, -1, [], false⟩ else
      inputTail k.snd_una (inputLoop regular (data.length / IKCP_OVERHEAD + 1) data { k := k }) regular ackNoDelay now := rfl

/-- an invariant of the loop body is an invariant of the parse loop -/
theorem inputLoop_preserves (P : Kcp → Prop) (regular : Bool)
    (hbody : ∀ data st, P st.k → P (inBody regular data st).k)
    (fuel : Nat) (data : Bytes) (st : InLoop) (h : P st.k) : P (inputLoop regular fuel data st).k := by
  induction fuel generalizing data st with
  | zero => exact h
  | succ fuel ih =>
    rw [inputLoop_succ]
    split; · exact h
    split; · exact h
    split; · exact h
    split; · exact h
    split
    · exact hbody data st h
    · exact ih _ _ (hbody data st h)

/-- an invariant of the parse loop, `update_ack`, the cwnd update and `flush` is an invariant of `Input` -/
theorem input_preserves (P : Kcp → Prop)
    (hloop : ∀ regular fuel data st, P st.k → P (inputLoop regular fuel data st).k)
    (hack : ∀ k rtt, P k → P (updateAck k rtt))
    (hcw : ∀ k u, P k → P (cwndOnAck k u))
    (hfl : ∀ k full now, P k → P (flush k full now).k)
    (k : Kcp) (data : Bytes) (regular ackNoDelay : Bool) (now : U32) (h : P k) :
    P (input k data regular ackNoDelay now).k := by
  rw [input_eq]
  split; · exact h
  have hl := hloop regular (data.length / IKCP_OVERHEAD + 1) data { k := k } h
  generalize inputLoop regular (data.length / IKCP_OVERHEAD + 1) data { k := k } = st at hl
  unfold inputTail
  split; · exact hl
  split; · exact hl
  have h1 : P (inputK1 st regular now) := by
    unfold inputK1
    split
    · exact hack _ _ hl
    · exact hl
  have h2 := hcw _ k.snd_una h1
  generalize cwndOnAck (inputK1 st regular now) k.snd_una = k2 at h2
  unfold inputFin
  split; · exact hfl _ _ _ h2
  split; · exact hfl _ _ _ h2
  split; · exact hfl _ _ _ h2
  exact h2

/-! ### frames of the other operations -/

theorem smoothRtt_shape (k : Kcp) (rtt : U32) : ∃ a b, smoothRtt k rtt = { k with rx_srtt := a, rx_rttvar := b } := by
  unfold smoothRtt; split <;> exact ⟨_, _, rfl⟩

theorem updateAck_shape (k : Kcp) (rtt : U32) :
    ∃ a b c, updateAck k rtt = { k with rx_srtt := a, rx_rttvar := b, rx_rto := c } := by
  obtain ⟨a, b, h⟩ := smoothRtt_shape k rtt
  unfold updateAck
  simp only []
  rw [h]
  exact ⟨_, _, _, rfl⟩

/-- the Reno-style growth step of `Input`'s cwnd update -/
def cwGrow (k : Kcp) : Kcp :=
  let mss := k.mss
  if k.cwnd < k.ssthresh then { k with cwnd := k.cwnd + 1, incr := k.incr + mss }
  else
    let incr0 := if k.incr < mss then mss else k.incr
    let incr1 := incr0 + ((mss * mss) / incr0 + mss / 16)
    if (k.cwnd + 1) * mss ≤ incr1 then
      { k with incr := incr1, cwnd := if mss > 0 then (incr1 + mss - 1) / mss else incr1 + mss - 1 }
    else { k with incr := incr1 }

/-- the cap of the congestion window at the remote window -/
def cwCap (k1 : Kcp) (mss : U32) : Kcp :=
  if k1.cwnd > k1.rmt_wnd then { k1 with cwnd := k1.rmt_wnd, incr := k1.rmt_wnd * mss } else k1

theorem cwndOnAck_eq (k : Kcp) (oldUna : U32) :
    cwndOnAck k oldUna =
      if k.nocwnd = 0 ∧ itimediff k.snd_una oldUna > 0 ∧ k.cwnd < k.rmt_wnd then cwCap (cwGrow k) k.mss else k := rfl

theorem cwGrow_shape (k : Kcp) : ∃ cw inc, cwGrow k = { k with cwnd := cw, incr := inc } := by
  unfold cwGrow
  simp only []
  repeat' split
  all_goals exact ⟨_, _, rfl⟩

theorem cwCap_shape (k : Kcp) (mss : U32) : ∃ cw inc, cwCap k mss = { k with cwnd := cw, incr := inc } := by
  unfold cwCap; split
  · exact ⟨_, _, rfl⟩
  · exact ⟨k.cwnd, k.incr, rfl⟩

theorem cwndOnAck_shape (k : Kcp) (u : U32) : ∃ cw inc, cwndOnAck k u = { k with cwnd := cw, incr := inc } := by
  rw [cwndOnAck_eq]
  split
  · obtain ⟨a, b, h1⟩ := cwGrow_shape k
    obtain ⟨a2, b2, h2⟩ := cwCap_shape (cwGrow k) k.mss
    rw [h2, h1]; exact ⟨_, _, rfl⟩
  · exact ⟨k.cwnd, k.incr, rfl⟩

/-- stream mode: how many bytes are appended to the last queued segment -/
def sendExt (k : Kcp) (buffer : Bytes) : Nat :=
  if k.stream ≠ 0 then
    match k.snd_queue.getLast? with
    | some s => if s.data.length < k.mss.toNat then min buffer.length (k.mss.toNat - s.data.length) else 0
    | none => 0
  else 0

def sendPanic1 (k : Kcp) (ext : Nat) : Bool :=
  match k.snd_queue.getLast? with
  | some s => decide (ext > 0 ∧ s.data.length + ext > mtuLimit)
  | none => false

def sendQ1 (k : Kcp) (buffer : Bytes) (ext : Nat) : List Seg :=
  if ext > 0 then
    match k.snd_queue.getLast? with
    | some s => setLast k.snd_queue { s with data := s.data ++ buffer.take ext }
    | none => k.snd_queue
  else k.snd_queue

def sendCount (buf : Bytes) (mss : Nat) : Nat := if buf.length ≤ mss then 1 else (buf.length + mss - 1) / mss

/-- the fresh segments of `Send` -/
def sendNew (k : Kcp) (buf : Bytes) : List Seg :=
  mkSegs k.mss.toNat (k.stream ≠ 0)
    (if sendCount buf k.mss.toNat = 0 then 1 else sendCount buf k.mss.toNat) buf

theorem send_eq (k : Kcp) (buffer : Bytes) :
    send k buffer =
      if buffer.length = 0 then ⟨k, -1, false⟩ else
      if sendCount (buffer.drop (sendExt k buffer)) k.mss.toNat > 255 then
        ⟨k, -2, false⟩ else
      if sendPanic1 k (sendExt k buffer) then ⟨k, 0, true⟩ else
      if k.stream ≠ 0 ∧ (buffer.drop (sendExt k buffer)).length = 0 then
        ⟨{ k with snd_queue := sendQ1 k buffer (sendExt k buffer) }, 0, false⟩ else
      if min (buffer.drop (sendExt k buffer)).length k.mss.toNat > mtuLimit then
        ⟨{ k with snd_queue := sendQ1 k buffer (sendExt k buffer) }, 0, true⟩ else
      ⟨{ k with snd_queue := sendQ1 k buffer (sendExt k buffer) ++ sendNew k (buffer.drop (sendExt k buffer)) }, 0, false⟩ := rfl

theorem send_shape (k : Kcp) (b : Bytes) : ∃ q, (send k b).k = { k with snd_queue := q } := by
  rw [send_eq]
  repeat' split
  all_goals exact ⟨_, rfl⟩

theorem setMtu_shape (k : Kcp) (m : Int) : ∃ a b c, (setMtu k m).1 = { k with mtu := a, mss := b, bufLen := c } := by
  unfold setMtu
  split; · exact ⟨k.mtu, k.mss, k.bufLen, rfl⟩
  split; · exact ⟨k.mtu, k.mss, k.bufLen, rfl⟩
  split; · exact ⟨k.mtu, k.mss, k.bufLen, rfl⟩
  split; · exact ⟨k.mtu, k.mss, k.bufLen, rfl⟩
  exact ⟨_, _, _, rfl⟩

theorem noDelay_shape (k : Kcp) (a b c d : Int) :
    ∃ nd mr iv fr nc, noDelay k a b c d = { k with nodelay := nd, rx_minrto := mr, interval := iv, fastresend := fr, nocwnd := nc } := by
  unfold noDelay
  simp only []
  repeat' split
  all_goals exact ⟨_, _, _, _, _, rfl⟩

/-- `Update` before its flush: first-call initialisation and the ±10 s resynchronisation -/
def updK2 (k : Kcp) (now : U32) : Kcp :=
  let k1 := if k.updated = 0 then { k with updated := 1, ts_flush := now } else k
  if decide (itimediff now k1.ts_flush ≥ 10000 ∨ itimediff now k1.ts_flush < -10000) then { k1 with ts_flush := now } else k1

/-- whether `Update` flushes -/
def updGo (k : Kcp) (now : U32) : Prop :=
  let k1 := if k.updated = 0 then { k with updated := 1, ts_flush := now } else k
  let slap0 := itimediff now k1.ts_flush
  (if decide (slap0 ≥ 10000 ∨ slap0 < -10000) then 0 else slap0) ≥ 0

instance (k : Kcp) (now : U32) : Decidable (updGo k now) := by unfold updGo; exact inferInstance

def updTf (k2 : Kcp) (now : U32) : U32 :=
  if itimediff now (k2.ts_flush + k2.interval) ≥ 0 then now + k2.interval else k2.ts_flush + k2.interval

theorem update_eq (k : Kcp) (now : U32) :
    update k now =
      if updGo k now then flush { updK2 k now with ts_flush := updTf (updK2 k now) now } true now
      else ⟨updK2 k now, [], 0, false⟩ := rfl

theorem updK2_shape (k : Kcp) (now : U32) : ∃ u t, updK2 k now = { k with updated := u, ts_flush := t } := by
  unfold updK2
  simp only []
  repeat' split
  all_goals exact ⟨_, _, rfl⟩

theorem update_shape (k : Kcp) (now : U32) :
    ∃ u t, (update k now).k = { k with updated := u, ts_flush := t } ∨
           (update k now).k = (flush { k with updated := u, ts_flush := t } true now).k := by
  obtain ⟨u, t, h⟩ := updK2_shape k now
  rw [update_eq]
  split
  · refine ⟨u, updTf (updK2 k now) now, Or.inr ?_⟩
    rw [h]
  · exact ⟨u, t, Or.inl h⟩


end KcpVerif.Kcp
