/-
A session never produces a multi-fragment message: `WriteBuffers` cuts every slice into chunks of
at most `mss` bytes before calling `Send`, so every segment a session ever queues or numbers has
`frg = 0` — in message mode as well as in stream mode.
-/
import KcpVerif.Lemmas.C01SessSys

namespace KcpVerif.C01
open KcpVerif KcpVerif.Gen KcpVerif.Kcp KcpVerif.Frame KcpVerif.Recv KcpVerif.Send KcpVerif.Wire

/-- `mss > 0` and every numbered or queued segment is a whole message -/
structure InvZ (x : SessG) : Prop where
  mss  : 0 < x.s.k.mss.toNat
  zero : ∀ f ∈ (x.log ++ x.s.k.snd_queue.map content).map (·.1), f = 0

theorem invZ_flushLike (x : SessG) (s' : Sess) (outs : List Bytes) (h : InvZ x) (hc : s'.k.mss = x.s.k.mss)
    (hq : ∃ j, j ≤ x.s.k.snd_queue.length ∧ s'.k.snd_queue = x.s.k.snd_queue.drop j) :
    InvZ { x with s := s', log := x.log ++ admitted x.s.k s'.k, wire := x.wire ++ outs } := by
  obtain ⟨j, hj, hq⟩ := hq
  refine ⟨by show 0 < s'.k.mss.toNat; rw [hc]; exact h.mss, ?_⟩
  show ∀ f ∈ ((x.log ++ admitted x.s.k s'.k) ++ s'.k.snd_queue.map content).map (·.1), f = 0
  rw [pending_eq x.log x.s.k s'.k j hj hq]; exact h.zero

theorem invZ_same (x : SessG) (s' : Sess) (rd' : Bytes) (h : InvZ x) (hm : 0 < s'.k.mss.toNat)
    (hq : s'.k.snd_queue = x.s.k.snd_queue) : InvZ { x with s := s', rd := rd' } :=
  ⟨hm, by show ∀ f ∈ (x.log ++ s'.k.snd_queue.map content).map (·.1), f = 0; rw [hq]; exact h.zero⟩

theorem sessStep_invZ {x : SessG} (h : InvZ x) (op : SessOp) : InvZ (sessStep x op) := by
  unfold sessStep
  by_cases hd : x.dead = true
  · rw [if_pos hd]; exact h
  · rw [if_neg hd]
    cases op with
    | write v now =>
      simp only []
      split
      · exact ⟨h.mss, h.zero⟩
      · rename_i hp
        split
        · exact h
        · rename_i hb
          have hadm : x.s.k.waitSnd < x.s.k.snd_wnd.toNat := by
            apply Classical.byContradiction
            intro hc
            rw [wb_blocked x.s v now hc] at hb
            exact hb rfl
          have hp1 : (Sess.sendAll v x.s.k).panic = false := by
            cases hpp : (Sess.sendAll v x.s.k).panic with
            | false => rfl
            | true => rw [wb_panic x.s v now hadm hpp] at hp; exact absurd rfl hp
          obtain ⟨_, hb2, _, z, hz⟩ := sendAll_bytes v x.s.k h.mss hp1
          have hzero : ∀ f ∈ (x.log ++ (Sess.sendAll v x.s.k).k.snd_queue.map content).map (·.1), f = 0 := by
            have h0 := h.zero
            rw [pend_eq] at h0 ⊢
            rw [hz, ← List.append_assoc]
            intro f hf
            rcases List.mem_append.mp hf with h1 | h1
            · exact h0 f h1
            · exact (List.mem_replicate.mp h1).2
          by_cases hc : wbFlush x.s v
          · rw [wb_flush x.s v now hadm hp1 hc]
            simp only []
            obtain ⟨j, hj, hq⟩ := flush_queue (Sess.sendAll v x.s.k).k true now
            refine ⟨by show 0 < ((Sess.sendAll v x.s.k).k.flush true now).k.mss.toNat
                       rw [(flush_keep _ _ _).mss, hb2]; exact h.mss, ?_⟩
            show ∀ f ∈ ((x.log ++ admitted (Sess.sendAll v x.s.k).k ((Sess.sendAll v x.s.k).k.flush true now).k) ++
              ((Sess.sendAll v x.s.k).k.flush true now).k.snd_queue.map content).map (·.1), f = 0
            rw [pending_eq x.log _ _ j hj hq]; exact hzero
          · rw [wb_noflush x.s v now hadm hp1 hc]
            simp only []
            refine ⟨by show 0 < (Sess.sendAll v x.s.k).k.mss.toNat; rw [hb2]; exact h.mss, ?_⟩
            show ∀ f ∈ ((x.log ++ admitted (Sess.sendAll v x.s.k).k (Sess.sendAll v x.s.k).k) ++
              (Sess.sendAll v x.s.k).k.snd_queue.map content).map (·.1), f = 0
            rw [admitted_self _ _ rfl, List.append_nil]; exact hzero
    | read blen =>
      simp only []
      rcases read_k x.s blen with hk | ⟨n, hk⟩
      · exact invZ_same x _ _ h (by rw [hk]; exact h.mss) (by rw [hk])
      · have hs := recv_sndSame x.s.k n
        exact invZ_same x _ _ h (by rw [hk, hs.mss]; exact h.mss) (by rw [hk, hs.snd_queue])
    | update now =>
      simp only []
      split
      · exact ⟨h.mss, h.zero⟩
      · exact invZ_flushLike x { x.s with k := (x.s.update now).k } _ h (flush_keep _ _ _).mss (flush_queue _ _ _)
    | input d now =>
      simp only []
      split
      · exact ⟨h.mss, h.zero⟩
      · rcases packetInput_cases x.s d now with hc | hc
        · rw [hc]
          exact invZ_flushLike x x.s [] h rfl ⟨0, Nat.zero_le _, rfl⟩
        · rw [hc]
          exact invZ_flushLike x _ _ h (input_cfg _ _ _ _ _).mss (input_queue _ _ _ _ _)
    | setWriteDelay b => exact ⟨h.mss, h.zero⟩
    | setAckNoDelay b => exact ⟨h.mss, h.zero⟩
    | noDelay a b c d =>
      exact ⟨by show 0 < (noDelay x.s.k a b c d).mss.toNat; rw [(noDelay_cfg _ _ _ _ _).mss]; exact h.mss,
        by show ∀ f ∈ (x.log ++ (noDelay x.s.k a b c d).snd_queue.map content).map (·.1), f = 0
           rw [(noDelay_sndQ _ _ _ _ _).snd_queue]; exact h.zero⟩
    | wndSize a b =>
      exact ⟨by show 0 < (wndSize x.s.k a b).mss.toNat; rw [(wndSize_cfg _ _ _).mss]; exact h.mss,
        by show ∀ f ∈ (x.log ++ (wndSize x.s.k a b).snd_queue.map content).map (·.1), f = 0
           rw [(wndSize_sndQ _ _ _).snd_queue]; exact h.zero⟩
    | setMtu mtu =>
      exact ⟨setMtu_mss _ _ h.mss,
        by show ∀ f ∈ (x.log ++ (setMtu x.s.k mtu).1.snd_queue.map content).map (·.1), f = 0
           rw [(setMtu_sndQ _ _).snd_queue]; exact h.zero⟩

def sessRun (x : SessG) (ops : List SessOp) : SessG := ops.foldl sessStep x

theorem sessRun_invZ (ops : List SessOp) : ∀ x : SessG, InvZ x → InvZ (sessRun x ops) := by
  induction ops with
  | nil => intro x h; exact h
  | cons op rest ih => intro x h; exact ih _ (sessStep_invZ h op)

theorem sessRun_invW (ops : List SessOp) : ∀ x : SessG, InvW x → InvW (sessRun x ops) := by
  induction ops with
  | nil => intro x h; exact h
  | cons op rest ih => intro x h; exact ih _ (sessStep_invW h op)

end KcpVerif.C01
