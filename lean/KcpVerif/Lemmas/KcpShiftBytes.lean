/-
C12 — the shift of an INCOMING datagram on wire bytes (`shiftIn`) and the correspondence between
the shifted bytes and the header fields read by `inputLoop`.
-/
import KcpVerif.Lemmas.KcpShiftBasic

namespace KcpVerif.Shift
open KcpVerif KcpVerif.Gen KcpVerif.Kcp

/-! ### reading through `++`, `take`, `drop` -/

theorem byteAt_append_left {l₁ l₂ : Bytes} {i : Nat} (h : i < l₁.length) :
    byteAt (l₁ ++ l₂) i = byteAt l₁ i := by
  unfold byteAt
  rw [List.getD_eq_getElem?_getD, List.getD_eq_getElem?_getD, List.getElem?_append_left h]

theorem byteAt_append_right {l₁ l₂ : Bytes} {i : Nat} (h : l₁.length ≤ i) :
    byteAt (l₁ ++ l₂) i = byteAt l₂ (i - l₁.length) := by
  unfold byteAt
  rw [List.getD_eq_getElem?_getD, List.getD_eq_getElem?_getD, List.getElem?_append_right h]

theorem byteAt_take {l : Bytes} {n i : Nat} (h : i < n) : byteAt (l.take n) i = byteAt l i := by
  unfold byteAt
  rw [List.getD_eq_getElem?_getD, List.getD_eq_getElem?_getD, List.getElem?_take_of_lt h]

theorem byteAt_drop {l : Bytes} {n i : Nat} : byteAt (l.drop n) i = byteAt l (n + i) := by
  unfold byteAt
  rw [List.getD_eq_getElem?_getD, List.getD_eq_getElem?_getD, List.getElem?_drop]

theorem rd32_append_left {l₁ l₂ : Bytes} {off : Nat} (h : off + 4 ≤ l₁.length) :
    rd32 (l₁ ++ l₂) off = rd32 l₁ off := by
  unfold rd32
  rw [byteAt_append_left (by omega), byteAt_append_left (by omega), byteAt_append_left (by omega),
    byteAt_append_left (by omega)]

theorem rd32_append_right {l₁ l₂ : Bytes} {off : Nat} (h : l₁.length ≤ off) :
    rd32 (l₁ ++ l₂) off = rd32 l₂ (off - l₁.length) := by
  unfold rd32
  rw [byteAt_append_right (by omega), byteAt_append_right (by omega), byteAt_append_right (by omega),
    byteAt_append_right (by omega)]
  have e1 : off + 1 - l₁.length = off - l₁.length + 1 := by omega
  have e2 : off + 2 - l₁.length = off - l₁.length + 2 := by omega
  have e3 : off + 3 - l₁.length = off - l₁.length + 3 := by omega
  rw [e1, e2, e3]

theorem rd32_take {l : Bytes} {n off : Nat} (h : off + 4 ≤ n) : rd32 (l.take n) off = rd32 l off := by
  unfold rd32
  rw [byteAt_take (by omega), byteAt_take (by omega), byteAt_take (by omega), byteAt_take (by omega)]

theorem rd32_drop {l : Bytes} {n off : Nat} : rd32 (l.drop n) off = rd32 l (n + off) := by
  unfold rd32
  simp only [byteAt_drop, Nat.add_assoc]

theorem rd16_append_left {l₁ l₂ : Bytes} {off : Nat} (h : off + 2 ≤ l₁.length) :
    rd16 (l₁ ++ l₂) off = rd16 l₁ off := by
  unfold rd16
  rw [byteAt_append_left (by omega), byteAt_append_left (by omega)]

theorem rd16_take {l : Bytes} {n off : Nat} (h : off + 2 ≤ n) : rd16 (l.take n) off = rd16 l off := by
  unfold rd16
  rw [byteAt_take (by omega), byteAt_take (by omega)]

/-- `binary.LittleEndian.Uint32(le32 v) = v` -/
theorem rd32_le32 (v : U32) (rest : Bytes) : rd32 (le32 v ++ rest) 0 = v := by
  have hv := v.isLt
  apply BitVec.eq_of_toNat_eq
  simp only [rd32, byteAt, le32, List.cons_append, List.getD_cons_zero, List.getD_cons_succ, UInt8.toNat_ofNat',
    BitVec.toNat_ofNat]
  omega

theorem le32_length (v : U32) : (le32 v).length = 4 := rfl

/-! ### shifting the three sequence/time fields of one 24-byte header -/

/-- add `dt` to `ts` (bytes 8–11), `ds` to `sn` (12–15), `du` to `una` (16–19); everything else unchanged -/
def hdrShift (dt ds du : U32) (data : Bytes) : Bytes :=
  data.take 8 ++ (le32 (rd32 data 8 + dt) ++ (le32 (rd32 data 12 + ds) ++ (le32 (rd32 data 16 + du) ++ data.drop 20)))

section
variable (dt ds du : U32) (data : Bytes) (hl : 24 ≤ data.length)
include hl

theorem take8_length : (data.take 8).length = 8 := by
  rw [List.length_take]; omega

theorem hdrShift_length : (hdrShift dt ds du data).length = data.length := by
  unfold hdrShift
  simp only [List.length_append, take8_length data hl, le32_length, List.length_drop]
  omega

theorem hdrShift_conv : rd32 (hdrShift dt ds du data) 0 = rd32 data 0 := by
  unfold hdrShift
  rw [rd32_append_left (by rw [take8_length data hl]; omega), rd32_take (by omega)]

theorem hdrShift_b4 : byteAt (hdrShift dt ds du data) 4 = byteAt data 4 := by
  unfold hdrShift
  rw [byteAt_append_left (by rw [take8_length data hl]; omega), byteAt_take (by omega)]

theorem hdrShift_b5 : byteAt (hdrShift dt ds du data) 5 = byteAt data 5 := by
  unfold hdrShift
  rw [byteAt_append_left (by rw [take8_length data hl]; omega), byteAt_take (by omega)]

theorem hdrShift_wnd : rd16 (hdrShift dt ds du data) 6 = rd16 data 6 := by
  unfold hdrShift
  rw [rd16_append_left (by rw [take8_length data hl]; omega), rd16_take (by omega)]

theorem hdrShift_ts : rd32 (hdrShift dt ds du data) 8 = rd32 data 8 + dt := by
  unfold hdrShift
  rw [rd32_append_right (by rw [take8_length data hl]; omega), take8_length data hl]
  exact rd32_le32 _ _

theorem hdrShift_sn : rd32 (hdrShift dt ds du data) 12 = rd32 data 12 + ds := by
  unfold hdrShift
  rw [rd32_append_right (by rw [take8_length data hl]; omega), take8_length data hl,
    rd32_append_right (by rw [le32_length]; omega), le32_length]
  exact rd32_le32 _ _

theorem hdrShift_una : rd32 (hdrShift dt ds du data) 16 = rd32 data 16 + du := by
  unfold hdrShift
  rw [rd32_append_right (by rw [take8_length data hl]; omega), take8_length data hl,
    rd32_append_right (by rw [le32_length]; omega), le32_length,
    rd32_append_right (by rw [le32_length]; omega), le32_length]
  exact rd32_le32 _ _

theorem hdrShift_len : rd32 (hdrShift dt ds du data) 20 = rd32 data 20 := by
  unfold hdrShift
  rw [rd32_append_right (by rw [take8_length data hl]; omega), take8_length data hl,
    rd32_append_right (by rw [le32_length]; omega), le32_length,
    rd32_append_right (by rw [le32_length]; omega), le32_length,
    rd32_append_right (by rw [le32_length]; omega), le32_length, rd32_drop]

end

/-! ### the shift of an incoming datagram -/

/-- what is added to (`ts`, `sn`, `una`) of an INCOMING segment with command `cmd`:
* PUSH: `ts` is the peer's clock (`u`), `sn` lives in our receive space (`b`), `una` in our send space (`a`);
* ACK:  `ts` is our own clock echoed (`t`), `sn` and `una` live in our send space (`a`);
* WASK / WINS (and anything else): only `una` is read (`a`). -/
def inDeltas (σ : Sigma) (cmd : Nat) : U32 × U32 × U32 :=
  if cmd = IKCP_CMD_PUSH then (σ.u, σ.b, σ.a)
  else if cmd = IKCP_CMD_ACK then (σ.t, σ.a, σ.a)
  else (0, 0, σ.a)

/-- header of the first segment of `data`, shifted -/
def shiftHd (σ : Sigma) (data : Bytes) : Bytes :=
  (hdrShift (inDeltas σ (BitVec.ofNat 8 (byteAt data 4)).toNat).1 (inDeltas σ (BitVec.ofNat 8 (byteAt data 4)).toNat).2.1
    (inDeltas σ (BitVec.ofNat 8 (byteAt data 4)).toNat).2.2 data).take IKCP_OVERHEAD

/-- walk the datagram exactly as `Input` does (24-byte header, `len` payload bytes, next segment)
and shift every header; payload bytes and a malformed tail are left alone -/
def shiftInF (σ : Sigma) : Nat → Bytes → Bytes
  | 0, data => data
  | fuel + 1, data =>
    if data.length < IKCP_OVERHEAD then data else
    if (data.drop IKCP_OVERHEAD).length < (rd32 data 20).toNat then shiftHd σ data ++ data.drop IKCP_OVERHEAD
    else shiftHd σ data ++ ((data.drop IKCP_OVERHEAD).take (rd32 data 20).toNat
      ++ shiftInF σ fuel ((data.drop IKCP_OVERHEAD).drop (rd32 data 20).toNat))

def shiftIn (σ : Sigma) (data : Bytes) : Bytes := shiftInF σ (data.length / IKCP_OVERHEAD + 1) data

theorem shiftHd_length (σ : Sigma) (data : Bytes) (hl : 24 ≤ data.length) : (shiftHd σ data).length = 24 := by
  unfold shiftHd
  rw [List.length_take, hdrShift_length _ _ _ _ hl]
  simp only [IKCP_OVERHEAD]; omega

theorem shiftInF_length (σ : Sigma) (fuel : Nat) (data : Bytes) : (shiftInF σ fuel data).length = data.length := by
  induction fuel generalizing data with
  | zero => rfl
  | succ fuel ih =>
    unfold shiftInF
    by_cases c : data.length < IKCP_OVERHEAD
    · simp only [if_pos c]
    simp only [if_neg c]
    have hl : 24 ≤ data.length := by simp only [IKCP_OVERHEAD] at c; omega
    split
    · simp only [List.length_append, shiftHd_length σ data hl, List.length_drop, IKCP_OVERHEAD]; omega
    · rename_i c2
      simp only [List.length_append, shiftHd_length σ data hl, List.length_drop, List.length_take, ih, IKCP_OVERHEAD] at c2 ⊢
      omega

theorem shiftIn_length (σ : Sigma) (data : Bytes) : (shiftIn σ data).length = data.length :=
  shiftInF_length σ _ data

/-- the fields `inputLoop` reads from the first header of `shiftHd σ data ++ rest` -/
theorem shiftHd_fields (σ : Sigma) (data rest : Bytes) (hl : 24 ≤ data.length) :
    rd32 (shiftHd σ data ++ rest) 0 = rd32 data 0 ∧
    byteAt (shiftHd σ data ++ rest) 4 = byteAt data 4 ∧
    byteAt (shiftHd σ data ++ rest) 5 = byteAt data 5 ∧
    rd16 (shiftHd σ data ++ rest) 6 = rd16 data 6 ∧
    rd32 (shiftHd σ data ++ rest) 8 = rd32 data 8 + (inDeltas σ (BitVec.ofNat 8 (byteAt data 4)).toNat).1 ∧
    rd32 (shiftHd σ data ++ rest) 12 = rd32 data 12 + (inDeltas σ (BitVec.ofNat 8 (byteAt data 4)).toNat).2.1 ∧
    rd32 (shiftHd σ data ++ rest) 16 = rd32 data 16 + (inDeltas σ (BitVec.ofNat 8 (byteAt data 4)).toNat).2.2 ∧
    rd32 (shiftHd σ data ++ rest) 20 = rd32 data 20 ∧
    (shiftHd σ data ++ rest).drop IKCP_OVERHEAD = rest := by
  have h24 := shiftHd_length σ data hl
  refine ⟨?_, ?_, ?_, ?_, ?_, ?_, ?_, ?_, ?_⟩
  · rw [rd32_append_left (by omega)]; unfold shiftHd
    rw [rd32_take (by simp only [IKCP_OVERHEAD]; omega), hdrShift_conv _ _ _ _ hl]
  · rw [byteAt_append_left (by omega)]; unfold shiftHd
    rw [byteAt_take (by simp only [IKCP_OVERHEAD]; omega), hdrShift_b4 _ _ _ _ hl]
  · rw [byteAt_append_left (by omega)]; unfold shiftHd
    rw [byteAt_take (by simp only [IKCP_OVERHEAD]; omega), hdrShift_b5 _ _ _ _ hl]
  · rw [rd16_append_left (by omega)]; unfold shiftHd
    rw [rd16_take (by simp only [IKCP_OVERHEAD]; omega), hdrShift_wnd _ _ _ _ hl]
  · rw [rd32_append_left (by omega)]; unfold shiftHd
    rw [rd32_take (by simp only [IKCP_OVERHEAD]; omega), hdrShift_ts _ _ _ _ hl]
  · rw [rd32_append_left (by omega)]; unfold shiftHd
    rw [rd32_take (by simp only [IKCP_OVERHEAD]; omega), hdrShift_sn _ _ _ _ hl]
  · rw [rd32_append_left (by omega)]; unfold shiftHd
    rw [rd32_take (by simp only [IKCP_OVERHEAD]; omega), hdrShift_una _ _ _ _ hl]
  · rw [rd32_append_left (by omega)]; unfold shiftHd
    rw [rd32_take (by simp only [IKCP_OVERHEAD]; omega), hdrShift_len _ _ _ _ hl]
  · rw [List.drop_append_of_le_length (by simp only [IKCP_OVERHEAD]; omega)]
    rw [List.drop_of_length_le (by simp only [IKCP_OVERHEAD]; omega), List.nil_append]

end KcpVerif.Shift
