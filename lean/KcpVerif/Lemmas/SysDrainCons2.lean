/-
The consistency invariant `Cons` (Lemmas/SysDrainCons.lean) is preserved by A's `Input` of ANY genuine
datagram from B on the repaired model — hence by every event of the closed system, fair or not
(`cons_step`, `cons_run`).
-/
import KcpVerif.Lemmas.SysDrainSnd

namespace KcpVerif.SysC
open KcpVerif KcpVerif.Gen KcpVerif.Kcp KcpVerif.Live KcpVerif.Wire KcpVerif.SysW KcpVerif.Sys

/-- A after the parse loop, the RTT sample (if any) and the cwnd update -/
theorem cons_inA {p : Par} {s : State} {t0 : Nat} {frs : List Frm} {gab grest : GLink}
    (h : Cons p s gab ((t0, frs) :: grest)) (hnw : NoWrap p.base s) (k1 : Kcp)
    (hk1 : k1 = (inFrs true frs { k := s.A }).k ∨ ∃ rtt, k1 = updateAck (inFrs true frs { k := s.A }).k rtt) :
    (∀ fr ∈ frs, FrValid s.A.conv fr) ∧
    (inFrs true frs { k := s.A }).panic = false ∧ (inFrs true frs { k := s.A }).ret = 0 ∧
    (cwndOnAck k1 s.A.snd_una).acklist = [] ∧
    (cwndOnAck k1 s.A.snd_una).snd_nxt = s.A.snd_nxt ∧ (cwndOnAck k1 s.A.snd_una).snd_queue = s.A.snd_queue ∧
    Cons p { s with A := cwndOnAck k1 s.A.snd_una, ba := encL grest } gab grest := by
  unfold NoWrap at hnw
  have hd0 : ((t0, frs) : Nat × List Frm) ∈ (t0, frs) :: grest := List.mem_cons_self ..
  have hv : ∀ fr ∈ frs, FrValid s.A.conv fr := by
    intro fr hfr
    obtain ⟨e1, e2, e3, _⟩ := h.fba (t0, frs) hd0 fr hfr
    refine ⟨by rw [e1, h.aconv], ?_, by rw [e2]; simp⟩
    unfold Live.validCmd
    rcases e3 with e | e | e
    · exact Or.inr (Or.inl e)
    · exact Or.inr (Or.inr (Or.inl e))
    · exact Or.inr (Or.inr (Or.inr e))
  have hok : SndOk p.base p.conv (Has p.base s.B.rcv_nxt s.B.rcv_buf) s.A := ⟨h.acon, h.atag, h.ahas, h.arel⟩
  obtain ⟨a1, a2, a3, a4, a5⟩ := inFrs_snd_gen p.base p.conv (Has p.base s.B.rcv_nxt s.B.rcv_buf) frs { k := s.A } hok
    (by show o p.base s.A.snd_nxt < 2 ^ 31; omega) rfl (by
      intro fr hfr
      obtain ⟨_, _, e3, e4, e5⟩ := h.fba (t0, frs) hd0 fr hfr
      have := h.bub
      exact ⟨e3, by omega, fun sn hsn => Or.inl (by omega), e5⟩)
  obtain ⟨rw, sb, su, pr, est⟩ := a2
  -- the loop state, the RTT sample, the cwnd update: which fields move
  have hk1s : ∃ x y z, k1 = { (inFrs true frs { k := s.A }).k with rx_srtt := x, rx_rttvar := y, rx_rto := z } := by
    rcases hk1 with rfl | ⟨rtt, rfl⟩
    · exact ⟨_, _, _, rfl⟩
    · exact updateAck_shape' _ rtt
  obtain ⟨x, y, z, ek1⟩ := hk1s
  obtain ⟨cw, inc, hcw⟩ := cwndOnAck_shape' k1 s.A.snd_una
  have hK : cwndOnAck k1 s.A.snd_una =
      { s.A with rmt_wnd := rw, snd_buf := sb, snd_una := su, probe := pr, rx_srtt := x, rx_rttvar := y, rx_rto := z,
                 cwnd := cw, incr := inc } := by
    rw [hcw, ek1, est]
  have hsb : (inFrs true frs { k := s.A }).k.snd_buf = sb := by rw [est]
  have hsu : (inFrs true frs { k := s.A }).k.snd_una = su := by rw [est]
  have hsn : (inFrs true frs { k := s.A }).k.snd_nxt = s.A.snd_nxt := by rw [est]
  -- totality
  have hKl : Total.InvK (inFrs true frs { k := s.A }).k := by
    have := (Total.inputLoop_ok true ((encFrames frs).length / IKCP_OVERHEAD + 1) (encFrames frs) { k := s.A } rfl rfl).2.2
    have e := inSt_encFrames s.A frs true hv
    unfold inSt at e
    rw [e] at this
    exact h.aK.of_pres this
  have hK1 : Total.InvK k1 := by
    rcases hk1 with rfl | ⟨rtt, rfl⟩
    · exact hKl
    · exact hKl.of_pres (Total.updateAck_pres _ _)
  have hKK : Total.InvK (cwndOnAck k1 s.A.snd_una) := hK1.of_pres (Total.cwndOnAck_pres _ _)
  refine ⟨hv, a4, a5, by rw [hK]; exact h.aack, by rw [hK], by rw [hK], ?_⟩
  have hcon : Contig p.base (cwndOnAck k1 s.A.snd_una) := by
    have := a1.con
    unfold Contig at this ⊢
    rw [hsb, hsu, hsn] at this
    rw [hK]; exact this
  exact
  { hab := h.hab
    hba := rfl
    np := h.np
    aK := hKK
    aconv := by show (cwndOnAck k1 s.A.snd_una).conv = _; rw [hK]; exact h.aconv
    aack := by show (cwndOnAck k1 s.A.snd_una).acklist = _; rw [hK]; exact h.aack
    aq := by show ∀ x ∈ (cwndOnAck k1 s.A.snd_una).snd_queue, _; rw [hK]; exact h.aq
    acon := hcon
    atag := by
      show BufTagged p.conv (cwndOnAck k1 s.A.snd_una).snd_buf
      rw [hK]; show BufTagged p.conv sb; rw [← hsb]; exact a1.tag
    ahas := by
      show ∀ x ∈ (cwndOnAck k1 s.A.snd_una).snd_buf, _
      rw [hK]; show ∀ x ∈ sb, _; rw [← hsb]; exact a1.akd
    arel := by
      show ∀ sn, o p.base sn < o p.base (cwndOnAck k1 s.A.snd_una).snd_una → _
      rw [hK]; show ∀ sn, o p.base sn < o p.base su → _; rw [← hsu]; exact a1.rel
    bK := h.bK, bconv := h.bconv, bsb := h.bsb, bsq := h.bsq
    bub := by show _ ≤ o p.base (cwndOnAck k1 s.A.snd_una).snd_nxt; rw [hK]; exact h.bub
    bbuf := by show ∀ x ∈ s.B.rcv_buf, _ < o p.base (cwndOnAck k1 s.A.snd_una).snd_nxt; rw [hK]; exact h.bbuf
    back := h.back
    fab := by
      show ∀ d ∈ gab, ∀ fr ∈ d.2, fr.conv = p.conv ∧ DataLike fr ∧
        (fr.cmd.toNat = IKCP_CMD_PUSH → o p.base fr.sn < o p.base (cwndOnAck k1 s.A.snd_una).snd_nxt)
      rw [hK]; exact h.fab
    fba := fun d hd => h.fba d (List.mem_cons_of_mem _ hd) }

/-- **every event of the closed system preserves the consistency invariant** (repaired model); the
run hypothesis is `NoWrap` on the state the event starts from -/
theorem cons_step {p : Par} {s : State} {gab gba : GLink} (h : Cons p s gab gba) (hnw : NoWrap p.base s) (ev : Ev) :
    ∃ gab' gba', Cons p (Sys.step s ev) gab' gba' := by
  cases ev with
  | tick =>
    show ∃ gab' gba', Cons p (if quiet s then { s with now := s.now + 1 } else s) gab' gba'
    split
    · exact ⟨gab, gba, cons_tick h⟩
    · exact ⟨gab, gba, h⟩
  | send b => exact ⟨gab, gba, cons_send h b⟩
  | read => exact ⟨gab, gba, cons_read h hnw⟩
  | flushA =>
    obtain ⟨gab', hc⟩ := cons_flushA h hnw (s.now + (s.A.flush true (clk s.now)).interval.toNat)
    exact ⟨gab', gba, hc⟩
  | flushB =>
    obtain ⟨gba', hc⟩ := cons_flushB h true (s.now + (s.B.flush true (clk s.now)).interval.toNat)
    exact ⟨gab, gba', hc⟩
  | dlvB =>
    cases gab with
    | nil =>
      have : Sys.step s .dlvB = s := by simp only [Sys.step, h.hab, encL, List.map_nil]
      rw [this]; exact ⟨[], gba, h⟩
    | cons d0 grest =>
      obtain ⟨t0, frs⟩ := d0
      have hab : s.ab = ⟨t0, encFrames frs⟩ :: encL grest := h.hab
      rw [step_dlvB_cons s _ _ hab]
      split
      · obtain ⟨gba', hc⟩ := cons_dlvB h hnw s.ndB
        exact ⟨grest, gba', hc⟩
      · exact ⟨_, gba, h⟩
  | dlvA =>
    cases gba with
    | nil =>
      have : Sys.step s .dlvA = s := by simp only [Sys.step, h.hba, encL, List.map_nil]
      rw [this]; exact ⟨gab, [], h⟩
    | cons d0 grest =>
      obtain ⟨t0, frs⟩ := d0
      have hba : s.ba = ⟨t0, encFrames frs⟩ :: encL grest := h.hba
      rw [step_dlvA_cons s _ _ hba]
      split
      · obtain ⟨hv, hp, hr, _, _, _, hclean0⟩ := cons_inA h hnw (inFrs true frs { k := s.A }).k (Or.inl rfl)
        by_cases hne : frs = []
        · subst hne
          simp only [input_empty, stamp, List.map_nil, List.append_nil, Bool.or_false]
          have hc := hclean0
          rw [show cwndOnAck (inFrs true [] { k := s.A }).k s.A.snd_una = s.A from cwndOnAck_self s.A] at hc
          exact ⟨gab, grest, hc⟩
        · obtain ⟨k1, hk1, himp⟩ := inputA_cases s.A frs s.ndA (clk s.now) hv hp hr
          obtain ⟨_, _, _, hal, hnx, hsq, hclean⟩ := cons_inA h hnw k1 hk1
          rcases himp hal hclean.aK with hin | hin | ⟨hnil, _⟩
          · simp only [hin, stamp, List.map_nil, List.append_nil, Bool.or_false]
            exact ⟨gab, grest, hclean⟩
          · simp only [hin]
            have hnw1 : NoWrap p.base { s with A := cwndOnAck k1 s.A.snd_una, ba := encL grest } := by
              unfold NoWrap at hnw ⊢
              show o p.base (cwndOnAck k1 s.A.snd_una).snd_nxt + (cwndOnAck k1 s.A.snd_una).snd_queue.length < _
              rw [hnx, hsq]; exact hnw
            obtain ⟨gab', hc⟩ := cons_flushA hclean hnw1 s.nfA
            exact ⟨gab', grest, hc⟩
          · exact absurd hnil hne
      · exact ⟨gab, _, h⟩

/-- an event of the network with faults: a fair event, or any rearrangement of what is in flight -/
inductive NetEv where
  | fair (ev : Ev)
  | shuffle (ab' ba' : List Dgram)

/-- a `shuffle` that is not a rearrangement (it would forge a datagram) is refused -/
def netStep (s : State) : NetEv → State
  | .fair ev => Sys.step s ev
  | .shuffle ab' ba' =>
    if (ab'.all fun d => decide (d ∈ s.ab)) && (ba'.all fun d => decide (d ∈ s.ba)) then shuffle s ab' ba' else s

def netRun (s : State) (evs : List NetEv) : State := evs.foldl netStep s

theorem cons_netStep {p : Par} {s : State} {gab gba : GLink} (h : Cons p s gab gba) (hnw : NoWrap p.base s)
    (ev : NetEv) : ∃ gab' gba', Cons p (netStep s ev) gab' gba' := by
  cases ev with
  | fair ev => exact cons_step h hnw ev
  | shuffle ab' ba' =>
    show ∃ gab' gba', Cons p (if (ab'.all fun d => decide (d ∈ s.ab)) && (ba'.all fun d => decide (d ∈ s.ba))
      then shuffle s ab' ba' else s) gab' gba'
    by_cases hc : ((ab'.all fun d => decide (d ∈ s.ab)) && (ba'.all fun d => decide (d ∈ s.ba))) = true
    · rw [if_pos hc]
      simp only [Bool.and_eq_true, List.all_eq_true, decide_eq_true_eq] at hc
      exact cons_shuffle h ab' ba' hc.1 hc.2
    · rw [if_neg hc]
      exact ⟨gab, gba, h⟩

/-- `NoWrap` in every state of a run of the faulty network -/
def NetNoWrap (base : U32) : State → List NetEv → Prop
  | s, [] => NoWrap base s
  | s, ev :: rest => NoWrap base s ∧ NetNoWrap base (netStep s ev) rest

/-- **the consistency invariant holds after ANY history** of fair events and faults -/
theorem cons_netRun {p : Par} (evs : List NetEv) : ∀ (s : State) (gab gba : GLink), Cons p s gab gba →
    NetNoWrap p.base s evs → ∃ gab' gba', Cons p (netRun s evs) gab' gba' := by
  induction evs with
  | nil => intro s gab gba h _; exact ⟨gab, gba, h⟩
  | cons ev rest ih =>
    intro s gab gba h hr
    obtain ⟨gab', gba', hc⟩ := cons_netStep h hr.1 ev
    exact ih _ gab' gba' hc hr.2

/-- the start: two fresh cores with the same conversation id, nothing in flight -/
def ConsInit (A B : Kcp) : Prop :=
  Total.InvK A ∧ Total.InvK B ∧ A.conv = B.conv ∧ A.acklist = [] ∧ A.snd_buf = [] ∧ A.snd_queue = [] ∧
  A.snd_una = A.snd_nxt ∧ B.snd_buf = [] ∧ B.snd_queue = [] ∧ B.rcv_buf = [] ∧ B.acklist = [] ∧ B.rcv_nxt = A.snd_nxt

instance (A B : Kcp) : Decidable (ConsInit A B) := by unfold ConsInit; infer_instance

theorem cons_init (A B : Kcp) (D t0 : Nat) (ndA ndB : Bool) (h : ConsInit A B) :
    Cons ⟨A.snd_nxt, A.conv, 0, 0, 0⟩ (Sys.init A B D t0 ndA ndB) [] [] := by
  obtain ⟨h1, h2, h3, h4, h5, h6, h7, h8, h9, h10, h11, h12⟩ := h
  have z : o A.snd_nxt A.snd_nxt = 0 := o_self _
  exact
  { hab := rfl, hba := rfl, np := rfl, aK := h1, aconv := rfl, aack := h4
    aq := by show ∀ x ∈ A.snd_queue, _; rw [h6]; intro x hx; simp at hx
    acon := by
      show Contig A.snd_nxt A
      unfold Contig; rw [h5, h7, z]; simp
    atag := by show BufTagged _ A.snd_buf; rw [h5]; intro x hx; simp at hx
    ahas := by show ∀ x ∈ A.snd_buf, _; rw [h5]; intro x hx; simp at hx
    arel := by
      show ∀ sn, o A.snd_nxt sn < o A.snd_nxt A.snd_una → _
      rw [h7, z]; intro sn hsn; omega
    bK := h2, bconv := h3.symm, bsb := h8, bsq := h9
    bub := by show o A.snd_nxt B.rcv_nxt ≤ _; rw [h12]; exact Nat.le_refl _
    bbuf := by show ∀ x ∈ B.rcv_buf, _; rw [h10]; intro x hx; simp at hx
    back := by show ∀ a ∈ B.acklist, _; rw [h11]; intro a ha; simp at ha
    fab := by intro d hd; simp at hd
    fba := by intro d hd; simp at hd }

end KcpVerif.SysC
