/-
Progress and drain on the clean path without an upper bound on the elapsed time: the clock passes
through every value, the bounded statements of Lemmas/SysProgress.lean apply at the first moment past
the latency bound, and `Keep` carries the conclusion to every later state.
-/
import KcpVerif.Lemmas.SysProgress

namespace KcpVerif.SysC
open KcpVerif KcpVerif.Gen KcpVerif.Kcp KcpVerif.Live KcpVerif.Wire KcpVerif.SysW KcpVerif.Sys

theorem step_now (s : State) (ev : Ev) : (Sys.step s ev).now = s.now ∨ (Sys.step s ev).now = s.now + 1 := by
  cases ev with
  | tick =>
    show (if quiet s then { s with now := s.now + 1 } else s).now = s.now ∨
      (if quiet s then { s with now := s.now + 1 } else s).now = s.now + 1
    split
    · exact Or.inr rfl
    · exact Or.inl rfl
  | send b => exact Or.inl rfl
  | read =>
    show (if (s.B.recv s.B.peekSize.toNat).n < 0 then s
      else { s with B := (s.B.recv s.B.peekSize.toNat).k, got := s.got ++ (s.B.recv s.B.peekSize.toNat).data }).now = s.now ∨ _
    split <;> exact Or.inl rfl
  | flushA => exact Or.inl rfl
  | flushB => exact Or.inl rfl
  | dlvB =>
    cases hab : s.ab with
    | nil => simp [Sys.step, hab]
    | cons d r => rw [step_dlvB_cons s _ _ hab]; split <;> exact Or.inl rfl
  | dlvA =>
    cases hba : s.ba with
    | nil => simp [Sys.step, hba]
    | cons d r => rw [step_dlvA_cons s _ _ hba]; split <;> exact Or.inl rfl

/-- the clock passes through every value -/
theorem run_reaches (τ : Nat) : ∀ (evs : List Ev) (s : State), s.now ≤ τ → τ ≤ (Sys.run s evs).now →
    ∃ a b, evs = a ++ b ∧ (Sys.run s a).now = τ := by
  intro evs
  induction evs with
  | nil => intro s h1 h2; exact ⟨[], [], rfl, by have : (Sys.run s []).now = s.now := rfl; omega⟩
  | cons e r ih =>
    intro s h1 h2
    by_cases hs : s.now = τ
    · exact ⟨[], e :: r, rfl, hs⟩
    · have hn := step_now s e
      obtain ⟨a, b, hab, hτ⟩ := ih (Sys.step s e) (by omega) h2
      exact ⟨e :: a, b, by rw [hab]; rfl, hτ⟩

theorem run_append (s : State) (a b : List Ev) : Sys.run s (a ++ b) = Sys.run (Sys.run s a) b := by
  unfold Sys.run; rw [List.foldl_append]

/-- **progress, any later time**: once more than `2 D + interval_B` ms have passed since `s`, every
segment left in A's send buffer was admitted after `s` — for ever after -/
theorem clean_progress_ever {p : Par} {s : State} {gab gba : GLink} (h : Clean p s gab gba) (w : Win p s gba)
    (evs : List Ev) (hr : RunNoWrap p.base s evs) (ht1 : s.now + 2 * s.D + p.I < (Sys.run s evs).now) :
    (∀ y ∈ (Sys.run s evs).A.snd_buf, o p.base s.A.snd_nxt ≤ o p.base y.sn) ∧
    o p.base s.A.snd_nxt ≤ o p.base (Sys.run s evs).A.snd_una := by
  obtain ⟨a, b, hab, hτ⟩ := run_reaches (s.now + 2 * s.D + p.I + 1) evs s (by omega) (by omega)
  subst hab
  obtain ⟨hra, hrb⟩ := (runNoWrap_append p.base a b s).mp hr
  have hpar := h.par
  have harto := h.arto
  have hmid := clean_progress h w a hra (by omega) (by omega)
  obtain ⟨g1, g2, hc, hw, hnw, hk⟩ := cleanwin_run_keep a s gab gba h w hra
  obtain ⟨g3, g4, hc2, hw2, hnw2, hk2⟩ := cleanwin_run_keep b _ g1 g2 hc hw hrb
  rw [run_append]
  have hall : ∀ y ∈ (Sys.run (Sys.run s a) b).A.snd_buf, o p.base s.A.snd_nxt ≤ o p.base y.sn := by
    intro y hy
    rcases hk2.2 y hy with hy' | hy'
    · exact hmid y hy'
    · exact Nat.le_trans hk.1 hy'
  refine ⟨hall, ?_⟩
  have hcont := hw2.wc
  unfold Contig at hcont
  cases hbuf : (Sys.run (Sys.run s a) b).A.snd_buf with
  | nil =>
    rw [hbuf] at hcont
    simp only [List.length_nil, Nat.add_zero] at hcont
    rw [hcont.2]; exact Nat.le_trans hk.1 hk2.1
  | cons y r =>
    rw [hbuf] at hcont
    simp only [List.map_cons, List.length_cons, List.range'_succ, List.cons.injEq] at hcont
    rw [← hcont.1.1]
    exact hall y (by rw [hbuf]; exact List.mem_cons_self ..)

/-- **drain, any later time** -/
theorem clean_drain_ever {p : Par} {s : State} {gab gba : GLink} (h : Clean p s gab gba) (w : Win p s gba)
    (evs : List Ev) (hr : RunNoWrap p.base s evs) (hq : s.A.snd_queue = []) (hns : ∀ ev ∈ evs, isSend ev = false)
    (ht1 : s.now + 2 * s.D + p.I < (Sys.run s evs).now) : (Sys.run s evs).A.waitSnd = 0 := by
  obtain ⟨g1, g2, hc, _, _⟩ := cleanwin_run evs s gab gba h w hr
  obtain ⟨i1, i2⟩ := idle_run evs s gab gba h w hr hq hns
  have hp := (clean_progress_ever h w evs hr ht1).1
  have hb : (Sys.run s evs).A.snd_buf = [] := by
    cases hbuf : (Sys.run s evs).A.snd_buf with
    | nil => rfl
    | cons y r =>
      have hy : y ∈ (Sys.run s evs).A.snd_buf := by rw [hbuf]; exact List.mem_cons_self ..
      have := hp y hy
      have := hc.abnd y hy
      rw [i2] at this
      omega
  unfold waitSnd
  rw [hb, i1]; rfl

end KcpVerif.SysC
