import KcpVerif.Lemmas.CfbSem
/-! the salsa20 / xor / none shells as functions on the packet, and the generic round-trip
argument shared with CFB -/
namespace KcpVerif.Cfb

/-- `Decrypt(Encrypt(x)) = x` for one pair of calls.  `a1`/`a2`: the encrypting resp. the
decrypting call is made in place (`dst` is the same memory as `src`); an out-of-place call
writes into `d1` resp. `d2` (arbitrary contents, at least as long as the packet).  `none` is a
panic of the code. -/
def RoundTripAt (enc dec : Bytes → Bytes → Bool → Option Bufs) (x d1 d2 : Bytes) (a1 a2 : Bool) : Prop :=
  ∃ m1, enc x (if a1 then x else d1) a1 = some m1 ∧
  ∃ m2, dec (m1.dst.take x.length) (if a2 then m1.dst.take x.length else d2) a2 = some m2 ∧
    m2.dst.take x.length = x

theorem RoundTripAt.of_spec {enc dec : Bytes → Bytes → Bool → Option Bufs} {F G : Bytes → Bytes}
    {x d1 d2 : Bytes} {a1 a2 : Bool}
    (henc : ∀ d a, x.length ≤ d.length → (a = true → d = x) →
      ∃ m, enc x d a = some m ∧ m.dst.take x.length = F x)
    (hdec : ∀ d a, (F x).length ≤ d.length → (a = true → d = F x) →
      ∃ m, dec (F x) d a = some m ∧ m.dst.take (F x).length = G (F x))
    (hlen : (F x).length = x.length) (hGF : G (F x) = x)
    (h1 : x.length ≤ d1.length) (h2 : x.length ≤ d2.length) :
    RoundTripAt enc dec x d1 d2 a1 a2 := by
  obtain ⟨m1, e1, t1⟩ := henc (if a1 then x else d1) a1 (by split <;> simp [*])
    (by intro h; simp [h])
  refine ⟨m1, e1, ?_⟩
  rw [t1]
  obtain ⟨m2, e2, t2⟩ := hdec (if a2 then F x else d2) a2 (by split <;> simp [*])
    (by intro h; simp [h])
  refine ⟨m2, e2, ?_⟩
  rw [← hlen, t2, hGF]

theorem write0_dst (m : Bufs) (x : Bytes) : (m.write 0 x).dst = x ++ m.dst.drop x.length := by
  simp [Bufs.write, splice]

/-! none -/

theorem none_spec (src dst : Bytes) (alias : Bool)
    (hal : alias = true → dst = src) : (noneCrypt src dst alias).dst.take src.length = src := by
  unfold noneCrypt
  by_cases h0 : src.length = 0
  · have : src = [] := List.eq_nil_of_length_eq_zero h0
    simp [this]
  · cases alias
    · simp only [h0, if_false, Bool.false_eq_true, write0_dst]
      simp
    · simp [h0, hal rfl]

/-! xor -/

theorem xor_spec (tbl src dst : Bytes) (alias : Bool)
    (ht : src.length ≤ tbl.length) :
    (xorCrypt tbl src dst alias).dst.take src.length = xorB src tbl := by
  unfold xorCrypt
  by_cases h0 : src.length = 0
  · have : src = [] := List.eq_nil_of_length_eq_zero h0
    simp [this, xorB_nil_left]
  · simp only [h0, if_false, write0_dst]
    have hx : (xorB src tbl).length = src.length := by rw [length_xorB]; omega
    rw [← hx, List.take_left' rfl]

/-! salsa20 -/

/-- what the salsa20 shell computes on a packet of at least 8 bytes -/
def salsaLong (ks : Bytes → Nat → UInt8) (x : Bytes) : Bytes :=
  x.take 8 ++ xorB (x.drop 8) (keystream ks (x.take 8) (x.length - 8))

@[simp] theorem length_keystream (ks : Bytes → Nat → UInt8) (nonce : Bytes) (n : Nat) :
    (keystream ks nonce n).length = n := by simp [keystream]

theorem length_salsaLong (ks : Bytes → Nat → UInt8) (x : Bytes) (h : 8 ≤ x.length) :
    (salsaLong ks x).length = x.length := by
  simp only [salsaLong, List.length_append, List.length_take, length_xorB, List.length_drop,
    length_keystream]; omega

theorem salsaLong_involutive (ks : Bytes → Nat → UInt8) (x : Bytes) (h : 8 ≤ x.length) :
    salsaLong ks (salsaLong ks x) = x := by
  have h8 : (x.take 8).length = 8 := by rw [List.length_take]; omega
  have hl := length_salsaLong ks x h
  have e1 : (salsaLong ks x).take 8 = x.take 8 := by
    rw [salsaLong, List.take_left' h8]
  have e2 : (salsaLong ks x).drop 8 = xorB (x.drop 8) (keystream ks (x.take 8) (x.length - 8)) := by
    rw [salsaLong, List.drop_left' h8]
  rw [salsaLong, e1, e2, hl, xorB_cancel _ _ (by simp), List.take_append_drop]

/-- the long branch of the shell, both memory layouts -/
theorem salsa_body_spec (ks : Bytes → Nat → UInt8) (src dst : Bytes) (alias : Bool)
    (h8 : 8 ≤ src.length) (hlen : src.length ≤ dst.length) (hal : alias = true → dst = src) :
    let m : Bufs := { src := src, dst := dst, alias := alias }
    let m1 := m.write 8 (xorB (src.drop 8) (keystream ks (src.take 8) (src.length - 8)))
    (if alias then m1 else m1.write 0 (m1.src.take 8)).dst.take src.length = salsaLong ks src := by
  intro m m1
  have hX : (xorB (src.drop 8) (keystream ks (src.take 8) (src.length - 8))).length
      = src.length - 8 := by simp
  have hN : (src.take 8).length = 8 := by rw [List.length_take]; omega
  have hd8 : (dst.take 8).length = 8 := by rw [List.length_take]; omega
  have hm1 : m1.dst = dst.take 8 ++ xorB (src.drop 8) (keystream ks (src.take 8) (src.length - 8))
      ++ dst.drop src.length := by
    show splice dst 8 _ = _
    rw [splice, hX]
    have : 8 + (src.length - 8) = src.length := by omega
    rw [this]
  have hfin : ∀ rest : Bytes, (src.take 8 ++ xorB (src.drop 8) (keystream ks (src.take 8) (src.length - 8))
      ++ rest).take src.length = salsaLong ks src := by
    intro rest
    rw [List.take_left' (by rw [List.length_append, hN, hX]; omega)]
    rfl
  cases alias
  · have hs : m1.src = src := rfl
    simp only [Bool.false_eq_true, if_false]
    rw [write0_dst, hs, hN, hm1, List.append_assoc, List.drop_left' hd8, ← List.append_assoc]
    exact hfin _
  · have := hal rfl
    subst this
    simp only [if_true]
    rw [hm1]
    exact hfin _

end KcpVerif.Cfb
