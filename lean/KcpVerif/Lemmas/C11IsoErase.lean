import KcpVerif.Lemmas.C11IsoSys
/-!
Erasure of the ghost history: the listener model instantiated with `σ := Sess` itself,

    kcpInput := fun s d => (Sess.packetInput s d now).s     init := Sess.new
    closeFx  := fun s => { s with k := (Sess.update s now).k }

(`worldS`), and the ghost instantiation of `Lemmas/C11IsoSys.lean` (`world`, `σ := SessG`) perform the
same run: as long as no ghost session is flagged `dead` (a slice-bounds panic of the core model — the
real process would have crashed), erasing the ghost fields of every session object of the ghost run
gives the literal run, event by event (`erase_lrun`).
-/
namespace KcpVerif.C11Iso
open KcpVerif KcpVerif.Gen KcpVerif.SessIn KcpVerif.Props KcpVerif.C01

/-- the literal instantiation -/
def worldS (now : U32) : World Sess :=
  { kcpInput := fun s d => (s.packetInput d now).s
    init := Sess.new
    closeFx := fun s => { s with k := (s.update now).k } }

/-- a session operation on a plain `Model/Sess` session (what `sessStep` does to the `s` field) -/
def plainStep (s : Sess) : SessOp → Sess
  | .write v now => if (s.writeBuffers v now).blocked then s else (s.writeBuffers v now).s
  | .read blen => (s.read blen).s
  | .update now => { s with k := (s.update now).k }
  | .input d now => (s.packetInput d now).s
  | .setWriteDelay b => { s with writeDelay := b }
  | .setAckNoDelay b => { s with ackNoDelay := b }
  | .noDelay a b c d => { s with k := Kcp.noDelay s.k a b c d }
  | .wndSize a b => { s with k := Kcp.wndSize s.k a b }
  | .setMtu mtu => { s with k := (Kcp.setMtu s.k mtu).1 }

/-- a dead ghost session stays dead -/
theorem sessStep_dead (x : SessG) (op : SessOp) (h : x.dead = true) : sessStep x op = x := by
  unfold sessStep; rw [if_pos h]

/-- a step that ends live started live, raised no panic, and its session component is the plain step -/
theorem sessStep_erase (x : SessG) (op : SessOp) (h : (sessStep x op).dead = false) :
    x.dead = false ∧ (sessStep x op).s = plainStep x.s op := by
  have hd : x.dead = false := by
    cases hx : x.dead with
    | false => rfl
    | true => rw [sessStep_dead x op hx] at h; rw [hx] at h; cases h
  refine ⟨hd, ?_⟩
  unfold sessStep at h ⊢
  rw [if_neg (by simp [hd])] at h ⊢
  cases op with
  | write v now =>
    simp only [] at h ⊢
    by_cases hp : (x.s.writeBuffers v now).panic = true
    · rw [if_pos hp] at h; cases h
    · rw [if_neg hp]
      by_cases hb : (x.s.writeBuffers v now).blocked = true
      · rw [if_pos hb]; simp only [plainStep, hb, if_true]
      · rw [if_neg hb]; simp only [plainStep, hb, Bool.false_eq_true, if_false]
  | read blen => rfl
  | update now =>
    simp only [] at h ⊢
    by_cases hp : (x.s.update now).panic = true
    · rw [if_pos hp] at h; cases h
    · rw [if_neg hp]; rfl
  | input d now =>
    simp only [] at h ⊢
    by_cases hp : (x.s.packetInput d now).panic = true
    · rw [if_pos hp] at h; cases h
    · rw [if_neg hp]; rfl
  | setWriteDelay b => rfl
  | setAckNoDelay b => rfl
  | noDelay a b c d => rfl
  | wndSize a b => rfl
  | setMtu mtu => rfl

/-! ### erasing a listener -/

def er (o : SessIn.Sess SessG) : SessIn.Sess Sess := { conv := o.conv, addr := o.addr, st := o.st.s, closed := o.closed }

def erL (l : Listener SessG) : Listener Sess := { objs := l.objs.map er, table := l.table, accepts := l.accepts }

/-- no session object is flagged dead -/
def Live (l : Listener SessG) : Prop := ∀ (j : Nat) (o : SessIn.Sess SessG), l.objs[j]? = some o → o.st.dead = false

theorem erL_get (l : Listener SessG) (j : Nat) : (erL l).objs[j]? = (l.objs[j]?).map er := by
  show (l.objs.map er)[j]? = _
  rw [List.getElem?_map]

theorem map_modifyAt {α β : Type} (f : α → β) (g : α → α) (g' : β → β) : ∀ (xs : List α) (i : Nat),
    (∀ x, xs[i]? = some x → f (g x) = g' (f x)) → (modifyAt xs i g).map f = modifyAt (xs.map f) i g' := by
  intro xs
  induction xs with
  | nil => intro i _; rfl
  | cons x rest ih =>
    intro i h
    cases i with
    | zero =>
      simp only [modifyAt, List.map_cons]
      rw [h x (by simp)]
    | succ k =>
      simp only [modifyAt, List.map_cons]
      rw [ih k (fun y hy => h y (by simpa using hy))]

theorem erase_closeSess (now : U32) (l : Listener SessG) (id : Nat) (hl : Live (closeSess (world now) l id)) :
    erL (closeSess (world now) l id) = closeSess (worldS now) (erL l) id := by
  cases ho : l.objs[id]? with
  | none =>
    have e1 : closeSess (world now) l id = l := by unfold closeSess; rw [ho]
    have e2 : closeSess (worldS now) (erL l) id = erL l := by unfold closeSess; rw [erL_get, ho]; rfl
    rw [e1, e2]
  | some o =>
    cases hc : o.closed with
    | true =>
      have e1 : closeSess (world now) l id = l := by unfold closeSess; rw [ho]; simp only [hc, if_true]
      have e2 : closeSess (worldS now) (erL l) id = erL l := by
        unfold closeSess; rw [erL_get, ho]
        show (if (er o).closed = true then _ else _) = _
        have : (er o).closed = true := hc
        rw [if_pos this]
      rw [e1, e2]
    | false =>
      have hgo : (erL l).objs[id]? = some (er o) := by rw [erL_get, ho]; rfl
      rw [C11_closeSess_open (world now) l id o ho hc] at hl ⊢
      rw [C11_closeSess_open (worldS now) (erL l) id (er o) hgo hc]
      have hlive : (sessStep o.st (.update now)).dead = false := by
        have := hl id { o with st := (world now).closeFx o.st, closed := true }
          (by simp only [getElem?_modifyAt, if_true, ho, Option.map_some])
        exact this
      have hs := (sessStep_erase o.st (.update now) hlive).2
      show ({ objs := (modifyAt l.objs id _).map er, table := unmap l.table o.addr, accepts := l.accepts } : Listener Sess) = _
      rw [map_modifyAt er _ (fun o => { o with st := (worldS now).closeFx o.st, closed := true }) l.objs id
        (fun x hx => by
          have hx' : x = o := by rw [ho] at hx; exact (Option.some.inj hx).symm
          rw [hx']
          show ({ conv := o.conv, addr := o.addr, st := (sessStep o.st (.update now)).s, closed := true } : SessIn.Sess Sess) = _
          rw [hs]; rfl)]
      rfl

theorem erase_tryCreate (now : U32) (l : Listener SessG) (p : Bytes) (a : String) (h : Hdr) (old : Option Nat)
    (hl : Live (tryCreate (world now) l p a h old).l) :
    erL (tryCreate (world now) l p a h old).l = (tryCreate (worldS now) (erL l) p a h old).l ∧
    (tryCreate (world now) l p a h old).dec = (tryCreate (worldS now) (erL l) p a h old).dec := by
  cases hc : h.hasConv with
  | false =>
    rw [C11_tryCreate_noconv (world now) l p a h old hc, C11_tryCreate_noconv (worldS now) (erL l) p a h old hc]
    exact ⟨rfl, rfl⟩
  | true =>
    rcases Nat.lt_or_ge l.accepts.length acceptBacklog with hr | hr
    · rw [C11_tryCreate_room (world now) l p a h old hc hr] at hl ⊢
      rw [C11_tryCreate_room (worldS now) (erL l) p a h old hc hr]
      have hlive : (sessStep ({ s := Sess.new h.conv } : SessG) (.input p now)).dead = false := by
        have := hl l.objs.length { conv := h.conv, addr := a, st := (world now).kcpInput ((world now).init h.conv) p, closed := false }
          (by simp)
        exact this
      have hs := (sessStep_erase { s := Sess.new h.conv } (.input p now) hlive).2
      have hlen : (erL l).objs.length = l.objs.length := by show (l.objs.map er).length = _; rw [List.length_map]
      refine ⟨?_, by rw [hlen]⟩
      show ({ objs := (l.objs ++ [_]).map er, table := _, accepts := _ } : Listener Sess) = _
      rw [List.map_append, hlen]
      show _ = ({ objs := l.objs.map er ++ [_], table := _, accepts := _ } : Listener Sess)
      congr 2
      show [er _] = _
      congr 1
      show ({ conv := h.conv, addr := a, st := (sessStep { s := Sess.new h.conv } (.input p now)).s, closed := false } : SessIn.Sess Sess) = _
      rw [hs]; rfl
    · rw [C11_tryCreate_full (world now) l p a h old hc hr, C11_tryCreate_full (worldS now) (erL l) p a h old hc hr]
      exact ⟨rfl, rfl⟩

theorem live_closeSess_of (now : U32) (l : Listener SessG) (p : Bytes) (a : String) (h : Hdr) (old : Option Nat) (id : Nat)
    (hl : Live (tryCreate (world now) (closeSess (world now) l id) p a h old).l) : Live (closeSess (world now) l id) := by
  intro j o ho
  have hj := lt_of_get ho
  apply hl j o
  rw [C11_tryCreate_objs (world now) _ p a h old j hj]; exact ho

/-- **one `Listener.packetInput`**: if the ghost step ends with every session live, its erasure is the
literal step -/
theorem erase_listenerInput (now : U32) (c : Cipher) (l : Listener SessG) (data : Bytes) (a : String)
    (hl : Live (listenerInput (world now) c l data a).l) :
    erL (listenerInput (world now) c l data a).l = (listenerInput (worldS now) c (erL l) data a).l := by
  by_cases hsame : ∀ p, cryptGate c data = .ok p → p.length < minPacket ∨ parseHdr p = none
  · rw [listenerInput_same_of_gate (world now) c l data a hsame,
      listenerInput_same_of_gate (worldS now) c (erL l) data a hsame]
  · have : ∃ p, cryptGate c data = .ok p ∧ minPacket ≤ p.length ∧ ∃ h, parseHdr p = some h := by
      apply Classical.byContradiction
      intro hn
      apply hsame
      intro p hg
      rcases Nat.lt_or_ge p.length minPacket with h1 | h1
      · exact Or.inl h1
      · right
        cases hp : parseHdr p with
        | none => rfl
        | some h => exact absurd ⟨p, hg, h1, h, hp⟩ hn
    obtain ⟨p, hg, hm, hd, hp⟩ := this
    rw [C11_after_gate (world now) c l data p a hd hg hm hp] at hl ⊢
    rw [C11_after_gate (worldS now) c (erL l) data p a hd hg hm hp]
    have htab : (erL l).table = l.table := rfl
    rw [htab]
    cases hlk : lookup l.table a with
    | none =>
      rw [hlk] at hl
      exact (erase_tryCreate now l p a hd none hl).1
    | some id =>
      rw [hlk] at hl
      simp only [] at hl ⊢
      rw [erL_get]
      cases ho : l.objs[id]? with
      | none => rfl
      | some o =>
        rw [ho] at hl
        simp only [Option.map_some] at hl ⊢
        have hconv : (er o).conv = o.conv := rfl
        rw [hconv]
        by_cases hr : (!hd.hasConv || decide (hd.conv = o.conv)) = true
        · rw [if_pos hr] at hl
          rw [if_pos hr, if_pos hr]
          have hlive : (sessStep o.st (.input p now)).dead = false := by
            have := hl id { o with st := (world now).kcpInput o.st p }
              (by simp only [getElem?_modifyAt, if_true, ho, Option.map_some])
            exact this
          have hs := (sessStep_erase o.st (.input p now) hlive).2
          show ({ objs := (modifyAt l.objs id _).map er, table := l.table, accepts := l.accepts } : Listener Sess) = _
          rw [map_modifyAt er _ (fun o => { o with st := (worldS now).kcpInput o.st p }) l.objs id
            (fun x hx => by
              have hx' : x = o := by rw [ho] at hx; exact (Option.some.inj hx).symm
              rw [hx']
              show ({ conv := o.conv, addr := o.addr, st := (sessStep o.st (.input p now)).s, closed := o.closed } : SessIn.Sess Sess) = _
              rw [hs]; rfl)]
          rfl
        · rw [if_neg hr] at hl
          rw [if_neg hr, if_neg hr]
          by_cases hsn : hd.sn ≠ 0
          · rw [if_pos hsn, if_pos hsn]
          · rw [if_neg hsn] at hl
            rw [if_neg hsn, if_neg hsn]
            have hcl := live_closeSess_of now l p a hd (some id) id hl
            rw [← erase_closeSess now l id hcl]
            exact (erase_tryCreate now (closeSess (world now) l id) p a hd (some id) hl).1

/-! ### runs -/

/-- listener events with the clock: a datagram (any cipher, bytes, source), Accept, Close of a session,
any session operation of the application / scheduler on a session -/
inductive GEv where
  | input (c : Cipher) (data : Bytes) (a : String) (now : U32)
  | accept
  | close (id : Nat) (now : U32)
  | sess (id : Nat) (op : SessOp)

/-- the ghost instantiation (`σ := SessG`, `world`) -/
def gstep (l : Listener SessG) : GEv → Listener SessG
  | .input c data a now => (listenerInput (world now) c l data a).l
  | .accept => (accept l).l
  | .close id now => userClose (world now) l id
  | .sess id op => appSess l id (fun x => sessStep x op)

/-- the literal instantiation (`σ := Sess`, `worldS`, the `Model/Sess` functions) -/
def pstep (l : Listener Sess) : GEv → Listener Sess
  | .input c data a now => (listenerInput (worldS now) c l data a).l
  | .accept => (accept l).l
  | .close id now => userClose (worldS now) l id
  | .sess id op => appSess l id (fun s => plainStep s op)

/-- every state along the ghost run has all sessions live -/
def LiveRun : Listener SessG → List GEv → Prop
  | l, [] => Live l
  | l, e :: rest => Live l ∧ LiveRun (gstep l e) rest

theorem LiveRun.head {l : Listener SessG} {evs : List GEv} (h : LiveRun l evs) : Live l := by
  cases evs with
  | nil => exact h
  | cons e rest => exact h.1

theorem erase_step (l : Listener SessG) (e : GEv) (hl : Live (gstep l e)) : erL (gstep l e) = pstep (erL l) e := by
  cases e with
  | input c data a now => exact erase_listenerInput now c l data a hl
  | accept =>
    show erL (accept l).l = (accept (erL l)).l
    have hacc : (erL l).accepts = l.accepts := rfl
    unfold accept
    rw [hacc]
    cases l.accepts <;> rfl
  | close id now => exact erase_closeSess now l id hl
  | sess id op =>
    show ({ objs := (modifyAt l.objs id _).map er, table := l.table, accepts := l.accepts } : Listener Sess) = _
    rw [map_modifyAt er _ (fun o => { o with st := plainStep o.st op }) l.objs id
      (fun x hx => by
        have hlive : (sessStep x.st op).dead = false :=
          hl id { x with st := sessStep x.st op } (by
            show (modifyAt l.objs id _)[id]? = _
            rw [getElem?_modifyAt, if_pos rfl, hx]; rfl)
        show ({ conv := x.conv, addr := x.addr, st := (sessStep x.st op).s, closed := x.closed } : SessIn.Sess Sess) = _
        rw [(sessStep_erase x.st op hlive).2]; rfl)]
    rfl

/-- **erasure**: along a ghost run on which no session is ever flagged dead, erasing the ghost fields
gives the run of the literal instantiation -/
theorem erase_lrun (evs : List GEv) : ∀ l : Listener SessG, LiveRun l evs →
    erL (evs.foldl gstep l) = evs.foldl pstep (erL l) := by
  induction evs with
  | nil => intro l _; rfl
  | cons e rest ih =>
    intro l h
    show erL (rest.foldl gstep (gstep l e)) = rest.foldl pstep (pstep (erL l) e)
    rw [ih _ h.2, erase_step l e h.2.head]

end KcpVerif.C11Iso
