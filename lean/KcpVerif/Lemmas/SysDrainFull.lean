/-
The drain of C02 with a non-empty send queue (repaired model, arbitrary reachable states, congestion
control on or off): one stage = window re-opened by probing (if closed), a segment admitted (if nothing is
outstanding), the head released; induction over `WaitSnd`.
-/
import KcpVerif.Lemmas.SysDrainAdmit2

namespace KcpVerif.SysC
open KcpVerif KcpVerif.Gen KcpVerif.Kcp KcpVerif.Live KcpVerif.Wire KcpVerif.SysW KcpVerif.Sys

/-! ### conservation: without `Send`, `|snd_queue| + snd_nxt` is constant -/

theorem qn_step {p : Par} {s : State} {gab gba : GLink} (h : Cons p s gab gba) (hnw : NoWrap p.base s)
    (ev : Ev) (hev : isSend ev = false) :
    (Sys.step s ev).A.snd_queue.length + o p.base (Sys.step s ev).A.snd_nxt =
      s.A.snd_queue.length + o p.base s.A.snd_nxt := by
  have hnw' := hnw
  unfold NoWrap at hnw'
  cases ev with
  | tick =>
    rw [show Sys.step s .tick = (if quiet s then { s with now := s.now + 1 } else s) from rfl]
    split <;> rfl
  | send b => simp [isSend] at hev
  | read =>
    rw [show Sys.step s .read = (if (s.B.recv s.B.peekSize.toNat).n < 0 then s
      else { s with B := (s.B.recv s.B.peekSize.toNat).k, got := s.got ++ (s.B.recv s.B.peekSize.toNat).data }) from rfl]
    split <;> rfl
  | flushA => exact flush_qn p.base s.A (clk s.now) hnw'
  | flushB => rfl
  | dlvB =>
    cases hab : s.ab with
    | nil =>
      have : Sys.step s .dlvB = s := by simp only [Sys.step, hab]
      rw [this]
    | cons d rest =>
      rw [step_dlvB_cons s _ _ hab]
      split <;> rfl
  | dlvA =>
    cases gba with
    | nil =>
      have : Sys.step s .dlvA = s := by simp only [Sys.step, h.hba, encL, List.map_nil]
      rw [this]
    | cons d0 grest =>
      obtain ⟨t0, frs⟩ := d0
      have hba : s.ba = ⟨t0, encFrames frs⟩ :: encL grest := h.hba
      rw [step_dlvA_cons s _ _ hba]
      split
      · by_cases hne : frs = []
        · subst hne
          simp only [input_empty]
        · obtain ⟨hv, hp, hr, _, _, _, _⟩ := cons_inA h hnw (inFrs true frs { k := s.A }).k (Or.inl rfl)
          obtain ⟨k1, hk1, himp⟩ := inputA_cases s.A frs s.ndA (clk s.now) hv hp hr
          obtain ⟨_, _, _, hal, hnx, hsq, hclean⟩ := cons_inA h hnw k1 hk1
          rcases himp hal hclean.aK with hin | hin | ⟨hnil, _⟩
          · simp only [hin]
            show (cwndOnAck k1 s.A.snd_una).snd_queue.length + o p.base (cwndOnAck k1 s.A.snd_una).snd_nxt = _
            rw [hnx, hsq]
          · simp only [hin]
            have := flush_qn p.base (cwndOnAck k1 s.A.snd_una) (clk s.now) (by rw [hnx, hsq]; exact hnw')
            rw [hnx, hsq] at this
            exact this
          · exact absurd hnil hne
      · rfl

theorem qn_run {p : Par} (evs : List Ev) : ∀ (s : State) (gab gba : GLink), Cons p s gab gba →
    RunNoWrap p.base s evs → (∀ ev ∈ evs, isSend ev = false) →
    (Sys.run s evs).A.snd_queue.length + o p.base (Sys.run s evs).A.snd_nxt =
      s.A.snd_queue.length + o p.base s.A.snd_nxt := by
  induction evs with
  | nil => intro s _ _ _ _ _; rfl
  | cons ev rest ih =>
    intro s gab gba h hr hns
    obtain ⟨gab', gba', hc⟩ := cons_step h hr.1 ev
    have h1 := qn_step h hr.1 ev (hns ev (List.mem_cons_self ..))
    have h2 := ih _ gab' gba' hc hr.2 (fun e he => hns e (List.mem_cons_of_mem _ he))
    exact h2.trans h1

/-- `WaitSnd` after a run without `Send`: what it was, minus the advance of `snd_una` -/
theorem wait_run {p : Par} {s : State} {gab gba : GLink} (h : Cons p s gab gba) (evs : List Ev)
    (hr : RunNoWrap p.base s evs) (hns : ∀ ev ∈ evs, isSend ev = false) :
    (Sys.run s evs).A.waitSnd + o p.base (Sys.run s evs).A.snd_una = s.A.waitSnd + o p.base s.A.snd_una := by
  obtain ⟨g1, g2, hc'⟩ := cons_run evs s gab gba h hr
  have h1 := qn_run evs s gab gba h hr hns
  have h2 := hc'.acon.2
  have h3 := h.acon.2
  unfold waitSnd
  omega

/-! ### the run hypotheses and the invariants -/

def FullHyp (p : Par) (Rmax IA : Nat) (s : State) : Prop :=
  Small p.base s ∧ QB s ∧ TmrOk Rmax IA s ∧ CfgA s.A

structure Inv3 (p : Par) (IA IB : Nat) (s : State) : Prop where
  inv : Inv p IA IB s
  pinv : PInv IA s
  fresh : FreshBa s

theorem inv3_step {p : Par} {IA IB : Nat} {s : State} (hi : Inv3 p IA IB s) (hIA : IA < 2 ^ 30) (hnw : NoWrap p.base s)
    (hQ : QB s) (ev : Ev) (hQ' : QB (Sys.step s ev)) : Inv3 p IA IB (Sys.step s ev) := by
  obtain ⟨gab, gba, hc⟩ := hi.inv.cons
  have hi' := inv_step hi.inv hnw ev
  obtain ⟨gab', gba', hc'⟩ := hi'.cons
  exact ⟨hi', pinv_step hc hnw IA hIA hi.inv.ta hi.pinv ev, freshBa_step hc hnw hQ ev hQ' hc'.np hi.fresh⟩

theorem inv3_run {p : Par} {IA IB Rmax : Nat} (hIA : IA < 2 ^ 30) (evs : List Ev) : ∀ (s : State), Inv3 p IA IB s →
    RunP (FullHyp p Rmax IA) s evs → Inv3 p IA IB (Sys.run s evs) := by
  induction evs with
  | nil => intro s h _; exact h
  | cons ev rest ih =>
    intro s h hr
    exact ih _ (inv3_step h hIA hr.1.1.noWrap hr.1.2.1 ev (RunP.head hr.2).2.1) hr.2

theorem full_noWrap {p : Par} {Rmax IA : Nat} : ∀ (evs : List Ev) (s : State), RunP (FullHyp p Rmax IA) s evs →
    RunNoWrap p.base s evs := by
  intro evs
  induction evs with
  | nil => intro s h; exact h.1.noWrap
  | cons ev rest ih => intro s h; exact ⟨h.1.1.noWrap, ih _ h.2⟩

theorem full_smallH {p : Par} {Rmax IA : Nat} (evs : List Ev) (s : State) (h : RunP (FullHyp p Rmax IA) s evs) :
    RunSmallH p.base s evs :=
  runP_smallH p.base evs s (RunP.mono (fun _ h => ⟨h.1, by have := h.2.1.1; omega⟩) evs s h)

/-! ### the three parts of a stage -/

/-- the head of a non-empty send buffer is released within `Rmax + IA + D + IB + D` ms -/
theorem head_stage {p : Par} {IA IB Rmax : Nat} {s : State} (hi : Inv p IA IB s) (hR : Rmax + IA < 2 ^ 31)
    (hb : s.A.snd_buf ≠ []) (evs : List Ev) (hr : RunP (FullHyp p Rmax IA) s evs)
    (hnow : s.now + Rmax + IA + s.D + IB + s.D < (Sys.run s evs).now) :
    o p.base s.A.snd_una < o p.base (Sys.run s evs).A.snd_una := by
  obtain ⟨gab, gba, hc⟩ := hi.cons
  have hsm := full_smallH evs s hr
  have hH := RunP.head hr
  cases hbb : s.A.snd_buf with
  | nil => exact absurd hbb hb
  | cons x rest =>
    have hhl : s.A.snd_una = x.sn := by
      have := hi.side.live.1
      unfold HeadLive at this
      rw [hbb] at this
      exact this.2
    have hrb : o p.base x.sn ≤ o p.base s.B.rcv_nxt := by
      rw [← hhl]; exact not_behind hc hi.side.srt hi.side.fix hH.2.1.1
    rw [hhl]
    rcases hH.2.2.1 x rest hbb with h0 | ⟨h0, R, hR0, hR1, hR2⟩
    · exact retG3_done hc hi.side.live (o p.base x.sn) s.now (s.now + Rmax + IA) IA IB (by omega) hi.tb
        ⟨⟨x, rest, hbb, rfl, Or.inl h0⟩, hi.ta.iv, by have := hi.ta.nf; omega, by omega, hrb⟩ evs hsm (by omega)
    · exact retG3_done hc hi.side.live (o p.base x.sn) R (s.now + Rmax + IA) IA IB (by omega) hi.tb
        ⟨⟨x, rest, hbb, rfl, Or.inr ⟨h0, hR0⟩⟩, hi.ta.iv, by have := hi.ta.nf; omega, by omega, hrb⟩ evs hsm (by omega)

/-- the admission phase along a run -/
theorem adm_run {p : Par} {IA IB Rmax : Nat} (hIA : IA < 2 ^ 30) (T0 T1 : Nat) (hT : T0 + IA ≤ T1) (evs : List Ev) :
    ∀ (s : State), Inv3 p IA IB s →
    RunP (FullHyp p Rmax IA) s evs → (∀ ev ∈ evs, isSend ev = false) →
    s.A.snd_buf = [] → s.A.snd_queue ≠ [] → s.A.rmt_wnd ≠ 0 → AdmPh T0 T1 s →
    (∃ a b, evs = a ++ b ∧ (Sys.run s a).A.snd_buf ≠ []) ∨ (Sys.run s evs).now ≤ T1 := by
  induction evs with
  | nil =>
    intro s _ _ _ _ _ _ hph
    right
    rcases hph with ⟨_, b⟩ | ⟨_, _, b⟩
    · show s.now ≤ T1; omega
    · exact b
  | cons ev rest ih =>
    intro s hi hr hns hb hq h0 hph
    obtain ⟨gab, gba, hc⟩ := hi.inv.cons
    have hnw := hr.1.1.noWrap
    have hi' := inv3_step hi hIA hnw hr.1.2.1 ev (RunP.head hr.2).2.1
    rcases adm_core hc hnw IA T0 T1 hT hi.inv.ta.iv hb hq h0 hi.fresh hr.1.2.2.2 hph ev (hns ev (List.mem_cons_self ..)) with
      ⟨c1, c2, c3⟩ | c
    · rcases ih _ hi' hr.2 (fun e he => hns e (List.mem_cons_of_mem _ he)) c1 c2
        (rmt_keep_step hc hnw hi.fresh h0 ev) c3 with ⟨a, b, e1, e2⟩ | h2
      · exact Or.inl ⟨ev :: a, b, by rw [e1]; rfl, e2⟩
      · exact Or.inr h2
    · exact Or.inl ⟨[ev], rest, rfl, c⟩

/-! ### one stage, and the induction -/

/-- the length of one stage of the general drain: a probe round, an admission, a progress step -/
def fullStage (Rmax IA IB D : Nat) : Nat :=
  (IKCP_PROBE_LIMIT + 2 * IA + D + IB + D + 1) + (2 * IA + 1) + (Rmax + IA + D + IB + D)

/-- **one stage of the general drain**: something is waiting ⇒ `snd_una` advances within `fullStage` -/
theorem stage_full {p : Par} {IA IB Rmax : Nat} {s : State} (hi : Inv3 p IA IB s) (hIA : IA < 2 ^ 29)
    (hR : Rmax + IA < 2 ^ 31) (hw : 0 < s.A.waitSnd) (evs : List Ev) (hns : ∀ ev ∈ evs, isSend ev = false)
    (hr : RunP (FullHyp p Rmax IA) s evs) (hnow : s.now + fullStage Rmax IA IB s.D < (Sys.run s evs).now) :
    o p.base s.A.snd_una < o p.base (Sys.run s evs).A.snd_una := by
  obtain ⟨gab, gba, hc⟩ := hi.inv.cons
  unfold fullStage at hnow
  -- the window is open by X1 + 1
  obtain ⟨a, b, e1, hq1, ht1⟩ := ev_bound (P := FullHyp p Rmax IA) (Q := fun s' => s'.A.rmt_wnd ≠ 0) s
    (s.now + IKCP_PROBE_LIMIT + 2 * IA + s.D + IB + s.D) evs
    (fun c d _ hrc hn => probe_opens hi.inv hi.pinv hIA c (RunP.mono (fun _ h => ⟨h.1, h.2.1⟩) c s hrc) hn)
    hr (by omega)
  obtain ⟨hra, hrb⟩ := RunP.split a b s (by rw [← e1]; exact hr)
  have hi1 := inv3_run (by omega) a s hi hra
  have hD1 : (Sys.run s a).D = s.D := run_D a s
  have hrun : Sys.run s evs = Sys.run (Sys.run s a) b := by rw [e1, run_append]
  have hnsa : ∀ ev ∈ a, isSend ev = false := fun ev he => hns ev (by rw [e1]; exact List.mem_append_left _ he)
  have hnsb : ∀ ev ∈ b, isSend ev = false := fun ev he => hns ev (by rw [e1]; exact List.mem_append_right _ he)
  have hm1 := una_mono_run a s gab gba hc (full_noWrap a s hra)
  obtain ⟨gab1, gba1, hc1⟩ := hi1.inv.cons
  have hm2 := una_mono_run b (Sys.run s a) gab1 gba1 hc1 (full_noWrap b _ hrb)
  rw [hrun] at hnow ⊢
  by_cases hadv : o p.base s.A.snd_una < o p.base (Sys.run s a).A.snd_una
  · omega
  · have hw1 := wait_run hc a (full_noWrap a s hra) hnsa
    have hw1' : 0 < (Sys.run s a).A.waitSnd := by omega
    by_cases hb1 : (Sys.run s a).A.snd_buf = []
    · have hq : (Sys.run s a).A.snd_queue ≠ [] := by
        intro hq
        unfold waitSnd at hw1'
        rw [hb1, hq] at hw1'
        simp at hw1'
      obtain ⟨a2, b2, e2, hq2, ht2⟩ := ev_bound (P := FullHyp p Rmax IA) (Q := fun s' => s'.A.snd_buf ≠ [])
        (Sys.run s a) ((Sys.run s a).now + 2 * IA) b
        (fun c d ecd hrc hn => by
          rcases adm_run (by omega) ((Sys.run s a).now + IA) ((Sys.run s a).now + 2 * IA) (by omega) c (Sys.run s a) hi1 hrc
            (fun ev he => hnsb ev (by rw [ecd]; exact List.mem_append_left _ he)) hb1 hq hq1
            (Or.inl ⟨hi1.inv.ta.nf, by omega⟩) with h1 | h1
          · exact h1
          · omega)
        hrb (by omega)
      obtain ⟨hra2, hrb2⟩ := RunP.split a2 b2 _ (by rw [← e2]; exact hrb)
      have hi2 := inv3_run (by omega) a2 _ hi1 hra2
      have hD2 : (Sys.run (Sys.run s a) a2).D = s.D := (run_D a2 _).trans hD1
      have hrun2 : Sys.run (Sys.run s a) b = Sys.run (Sys.run (Sys.run s a) a2) b2 := by rw [e2, run_append]
      have hm3 := una_mono_run a2 (Sys.run s a) gab1 gba1 hc1 (full_noWrap a2 _ hra2)
      rw [hrun2] at hnow ⊢
      have := head_stage hi2.inv hR hq2 b2 hrb2 (by rw [hD2]; omega)
      omega
    · have := head_stage hi1.inv hR hb1 b hrb (by rw [hD1]; omega)
      omega

/-- **the general drain** (writer stopped, congestion window off): `WaitSnd ≤ n` ⇒ after `n` stages
nothing is waiting -/
theorem drain_full_all {p : Par} {IA IB Rmax : Nat} (hIA : IA < 2 ^ 29) (hR : Rmax + IA < 2 ^ 31) : ∀ (n : Nat) (s : State),
    Inv3 p IA IB s → s.A.waitSnd ≤ n → ∀ evs : List Ev, (∀ ev ∈ evs, isSend ev = false) →
    RunP (FullHyp p Rmax IA) s evs → s.now + n * (fullStage Rmax IA IB s.D + 1) ≤ (Sys.run s evs).now →
    (Sys.run s evs).A.waitSnd = 0 := by
  intro n
  induction n with
  | zero =>
    intro s hi hw evs hns hr _
    obtain ⟨gab, gba, hc⟩ := hi.inv.cons
    have h1 := wait_run hc evs (full_noWrap evs s hr) hns
    have h2 := una_mono_run evs s gab gba hc (full_noWrap evs s hr)
    omega
  | succ n ih =>
    intro s hi hw evs hns hr hnow
    obtain ⟨gab, gba, hc⟩ := hi.inv.cons
    by_cases hw0 : s.A.waitSnd = 0
    · have h1 := wait_run hc evs (full_noWrap evs s hr) hns
      have h2 := una_mono_run evs s gab gba hc (full_noWrap evs s hr)
      omega
    · rw [Nat.succ_mul] at hnow
      obtain ⟨a, b, e1, e2⟩ := run_reaches (s.now + fullStage Rmax IA IB s.D + 1) evs s (by omega) (by omega)
      obtain ⟨hra, hrb⟩ := RunP.split a b s (by rw [← e1]; exact hr)
      have hnsa : ∀ ev ∈ a, isSend ev = false := fun ev he => hns ev (by rw [e1]; exact List.mem_append_left _ he)
      have hnsb : ∀ ev ∈ b, isSend ev = false := fun ev he => hns ev (by rw [e1]; exact List.mem_append_right _ he)
      have hst := stage_full hi hIA hR (by omega) a hnsa hra (by omega)
      have hw1 := wait_run hc a (full_noWrap a s hra) hnsa
      have hi1 := inv3_run (by omega) a s hi hra
      have hD1 : (Sys.run s a).D = s.D := run_D a s
      have := ih (Sys.run s a) hi1 (by omega) b hnsb hrb (by rw [hD1, e2, ← run_append, ← e1]; omega)
      rw [← run_append, ← e1] at this
      exact this

theorem freshBa_nil (s : State) (h : s.ba = []) : FreshBa s := by
  intro d hd; rw [h] at hd; simp at hd

/-! ### a Boolean check of the run hypotheses (for examples) -/

def fullChk (base : U32) (Rmax IA : Nat) (s : State) : Bool :=
  decide (o base s.A.snd_nxt + s.A.snd_queue.length < 2 ^ 30 ∧ s.B.rcv_wnd.toNat < 2 ^ 30) &&
  decide (s.B.rcv_queue.length < s.B.rcv_wnd.toNat ∧ s.B.rcv_wnd.toNat < 65536) && tmrChk Rmax IA s &&
  decide (s.A.snd_wnd ≠ 0 ∧ s.A.snd_wnd.toNat < 2 ^ 31)

def runFullChk (base : U32) (Rmax IA : Nat) : State → List Ev → Bool
  | s, [] => fullChk base Rmax IA s
  | s, ev :: rest => fullChk base Rmax IA s && runFullChk base Rmax IA (Sys.step s ev) rest

theorem fullChk_sound (p : Par) (Rmax IA : Nat) (s : State) (h : fullChk p.base Rmax IA s = true) : FullHyp p Rmax IA s := by
  unfold fullChk at h
  simp only [Bool.and_eq_true, decide_eq_true_eq] at h
  exact ⟨h.1.1.1, h.1.1.2, tmrChk_sound Rmax IA s h.1.2, h.2⟩

theorem runFullChk_sound (p : Par) (Rmax IA : Nat) : ∀ (evs : List Ev) (s : State), runFullChk p.base Rmax IA s evs = true →
    RunP (FullHyp p Rmax IA) s evs := by
  intro evs
  induction evs with
  | nil => intro s h; exact fullChk_sound p Rmax IA s h
  | cons ev rest ih =>
    intro s h
    unfold runFullChk at h
    simp only [Bool.and_eq_true] at h
    exact ⟨fullChk_sound p Rmax IA s h.1, ih _ h.2⟩

end KcpVerif.SysC
