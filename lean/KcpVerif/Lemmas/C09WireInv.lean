/-
C09 `wire_reassembles`, part 2: the invariant of the send side that the specification decoder needs.

The C01 development (`Send.InvS`, `C01.InvSG`) shows that every datagram handed to `output` is a
concatenation of frames whose PUSH members carry the logged content of their sequence number.  The
independent decoder `Wire.Spec.decode` needs more of a datagram: it is NOT empty, every frame carries
a known command (and the connection's `conv`), every payload length fits the 32-bit `len` field.
`WInv` adds exactly that, over every history of operations (`C01.Op`, arbitrary arguments):

* `InvMss` (Lemmas/KcpFlush, KcpMss): no operation panics and `flush` never hands an empty buffer to
  `output`;
* `BufC`: every segment of `snd_buf` carries the core's `conv` and the command PUSH;
* `DgOk`: every datagram emitted so far is `Wire.encFrames frs` for a non-empty `frs` of frames with
  the core's `conv`, a known command, a payload of at most `mtuLimit` bytes, and — PUSH frames —
  `sn = sn0 + i`, `(frg, payload) = L[i]` for an index `i` of the ghost log.

The frames of one flush are taken from the exact description `SysW.flush_frames`.  Core Lean only.
-/
import KcpVerif.Lemmas.C09WireEnc
import KcpVerif.Lemmas.C01Ops
import KcpVerif.Lemmas.KcpMss
import KcpVerif.Lemmas.SysCleanB

namespace KcpVerif.C09W
open KcpVerif KcpVerif.Gen KcpVerif.Kcp KcpVerif.Frame KcpVerif.Recv KcpVerif.Send KcpVerif.C01
open KcpVerif.Lemmas.KcpFlush (InvMss)

/-- the command byte of a PUSH segment -/
abbrev cmdPush : BitVec 8 := BitVec.ofNat 8 IKCP_CMD_PUSH

/-! ### frames and datagrams -/

/-- a frame an independent observer can use: right connection, known command, payload within a pool
buffer, and a PUSH frame carries entry `i` of the log under the sequence number `sn0 + i` -/
structure FrOk (c sn0 : U32) (L : List Content) (fr : Wire.Frm) : Prop where
  conv : fr.conv = c
  cmd  : Live.validCmd fr.cmd
  len  : fr.data.length ≤ mtuLimit
  push : fr.cmd.toNat = IKCP_CMD_PUSH → ∃ i, fr.sn = sn0 + BitVec.ofNat 32 i ∧ L[i]? = some (fr.frg, fr.data)

/-- a datagram: a NON-EMPTY list of good frames, laid out by the core's encoder -/
def DgOk (c sn0 : U32) (L : List Content) (o : Bytes) : Prop :=
  ∃ frs : List Wire.Frm, frs ≠ [] ∧ o = Wire.encFrames frs ∧ ∀ fr ∈ frs, FrOk c sn0 L fr

theorem getElem?_append_of_some {α : Type} {L : List α} {i : Nat} {x : α} (X : List α) (h : L[i]? = some x) :
    (L ++ X)[i]? = some x := by
  have hlt : i < L.length := by
    rcases Nat.lt_or_ge i L.length with h2 | h2
    · exact h2
    · rw [List.getElem?_eq_none h2] at h; cases h
  rw [List.getElem?_append_left hlt]; exact h

theorem FrOk.mono {c sn0 : U32} {L : List Content} {fr : Wire.Frm} (h : FrOk c sn0 L fr) (X : List Content) :
    FrOk c sn0 (L ++ X) fr :=
  ⟨h.conv, h.cmd, h.len, fun hp => by
    obtain ⟨i, h1, h2⟩ := h.push hp
    exact ⟨i, h1, getElem?_append_of_some X h2⟩⟩

theorem DgOk.mono {c sn0 : U32} {L : List Content} {o : Bytes} (h : DgOk c sn0 L o) (X : List Content) :
    DgOk c sn0 (L ++ X) o := by
  obtain ⟨frs, h1, h2, h3⟩ := h
  exact ⟨frs, h1, h2, fun fr hfr => (h3 fr hfr).mono X⟩

/-! ### `snd_buf` holds PUSH segments of this connection -/

def BufC (c : U32) (l : List Seg) : Prop := ∀ s ∈ l, s.conv = c ∧ s.cmd = cmdPush

theorem BufC.nil (c : U32) : BufC c [] := fun _ h => by cases h

theorem BufC.sim {c : U32} : ∀ {l l' : List Seg}, SimL l l' → BufC c l → BufC c l'
  | [], [], _, _ => BufC.nil c
  | s :: l, s' :: l', h, hb => by
    intro x hx
    rcases List.mem_cons.mp hx with h1 | h1
    · obtain ⟨_, _, _, _, e5, e6⟩ := h.1
      have := hb s (List.mem_cons_self ..)
      rw [h1, e5, e6]; exact this
    · exact BufC.sim h.2 (fun y hy => hb y (List.mem_cons_of_mem _ hy)) x h1
  | [], _ :: _, h, _ => h.elim
  | _ :: _, [], h, _ => h.elim

/-- every element of the first list has a partner in the second -/
theorem SimL.partner : ∀ {l l' : List Seg}, SimL l l' → ∀ s ∈ l, ∃ s' ∈ l', SegSim s s'
  | [], [], _, _, hs => by cases hs
  | x :: l, x' :: l', h, s, hs => by
    rcases List.mem_cons.mp hs with h1 | h1
    · exact ⟨x', List.mem_cons_self .., by rw [h1]; exact h.1⟩
    · obtain ⟨s', h2, h3⟩ := SimL.partner h.2 s h1
      exact ⟨s', List.mem_cons_of_mem _ h2, h3⟩
  | [], _ :: _, h, _, _ => h.elim
  | _ :: _, [], h, _, _ => h.elim

theorem ackLoop_bufC {c : U32} (sn : U32) : ∀ {l : List Seg}, BufC c l → BufC c (ackLoop sn l) := by
  intro l
  induction l with
  | nil => intro h; exact h
  | cons s rest ih =>
    intro h
    have hs := h s (List.mem_cons_self ..)
    have hr : BufC c rest := fun y hy => h y (List.mem_cons_of_mem _ hy)
    unfold ackLoop
    split
    · intro x hx
      rcases List.mem_cons.mp hx with h1 | h1
      · rw [h1]; exact hs
      · exact hr x h1
    · split
      · exact h
      · intro x hx
        rcases List.mem_cons.mp hx with h1 | h1
        · rw [h1]; exact hs
        · exact ih hr x h1

theorem admitSegs_bufC (c una cwnd now : U32) :
    ∀ (q buf : List Seg) (nxt : U32) (n : Nat), BufC c buf → BufC c (admitSegs c una cwnd now q buf nxt n).buf := by
  intro q
  induction q with
  | nil => intro buf nxt n h; unfold admitSegs; exact h
  | cons s rest ih =>
    intro buf nxt n h
    unfold admitSegs
    split
    · exact h
    · apply ih
      intro x hx
      rcases List.mem_append.mp hx with h1 | h1
      · exact h x h1
      · rw [List.mem_singleton.mp h1]; exact ⟨rfl, rfl⟩

/-- `shrink_buf` (after the sender-wedge repair: it also pops the acknowledged head segments) leaves a
suffix of the buffer -/
theorem shrinkBuf_bufC {c : U32} {k : Kcp} (h : BufC c k.snd_buf) : BufC c (shrinkBuf k).snd_buf := by
  obtain ⟨n, _, hdrop⟩ := dropAcked_drop k.snd_buf
  have hd' : BufC c (dropAcked k.snd_buf) := by
    rw [hdrop]; intro x hx; exact h x (List.mem_of_mem_drop hx)
  cases hx : dropAcked k.snd_buf with
  | nil => rw [shrinkBuf_nil k hx]; exact BufC.nil c
  | cons s rest =>
    rw [shrinkBuf_cons k s rest hx]
    show BufC c (s :: rest)
    rw [← hx]; exact hd'

theorem inSt1_bufC {c : U32} {st : InLoop} (h : BufC c st.k.snd_buf) (regular : Bool) (hd : Hdr) :
    BufC c (inSt1 regular st hd).k.snd_buf := by
  have key : ∀ k1 : Kcp, k1.snd_buf = st.k.snd_buf → BufC c (shrinkBuf (parseUna k1 hd.una).1).snd_buf := by
    intro k1 e1
    apply shrinkBuf_bufC
    show BufC c (k1.snd_buf.drop (unaCount hd.una k1.snd_buf))
    rw [e1]; intro x hx; exact h x (List.mem_of_mem_drop hx)
  unfold inSt1
  simp only []
  split
  · exact key _ rfl
  · exact key _ rfl

theorem parseAck_bufC {c : U32} {k : Kcp} (h : BufC c k.snd_buf) (sn : U32) : BufC c (parseAck k sn).snd_buf := by
  unfold parseAck
  split
  · exact h
  · exact ackLoop_bufC sn h

theorem parseFastack_bufC {c : U32} {k : Kcp} (h : BufC c k.snd_buf) (sn ts : U32) :
    BufC c (parseFastack k sn ts).1.snd_buf := by
  unfold parseFastack
  split
  · exact h
  · exact BufC.sim (fastLoop_sim sn ts k.fastresend k.snd_buf) h

theorem inSt2_bufC {c : U32} {st1 : InLoop} (h : BufC c st1.k.snd_buf) (hd : Hdr) (body : Bytes) :
    BufC c (inSt2 st1 hd body).k.snd_buf := by
  unfold inSt2
  simp only []
  split
  · exact parseFastack_bufC (shrinkBuf_bufC (parseAck_bufC h _)) _ _
  · split
    · split
      · split
        · show BufC c (parseData _ _).k.snd_buf
          rw [(parseData_sndSame _ _).snd_buf]; exact h
        · exact h
      · exact h
    · split
      · exact h
      · exact h

theorem inputLoop_bufC {c : U32} (regular : Bool) :
    ∀ (fuel : Nat) (data : Bytes) (st : InLoop), BufC c st.k.snd_buf →
      BufC c (inputLoop regular fuel data st).k.snd_buf := by
  intro fuel
  induction fuel with
  | zero => intro data st h; exact h
  | succ fuel ih =>
    intro data st h
    rw [inputLoop_succ]
    have h2 := inSt2_bufC (inSt1_bufC h regular (parseHdr data)) (parseHdr data) (data.drop IKCP_OVERHEAD)
    split
    · exact h
    · split
      · exact h
      · split
        · exact h
        · split
          · exact h
          · split
            · exact h2
            · exact ih _ _ h2

/-! ### one flush -/

/-- the buffer `flush` leaves is, up to retransmission bookkeeping, the buffer after admission -/
theorem flush_buf_sim (k : Kcp) (full : Bool) (now : U32) :
    SimL (flushAdmit (flushA k now).k now).buf (flush k full now).k.snd_buf := by
  have hX := (flushX_spec (fun _ => (0, [])) (flushB (flushA k now) now) full now (wndUnused k) k.rcv_nxt
    (flushAdmit (flushA k now).k now).count).1
  have eb : (flush k full now).k.snd_buf = (flushX (flushB (flushA k now) now) full now (wndUnused k) k.rcv_nxt
      (flushAdmit (flushA k now).k now).count).done := by
    rw [flush_eq]; simp only []
    rw [(flushTail_keep _ _ _ _ _).2.snd_buf]
  rw [eb]
  exact hX

theorem flush_bufC {c : U32} {k : Kcp} (hc : k.conv = c) (hb : BufC c k.snd_buf) (full : Bool) (now : U32) :
    BufC c (flush k full now).k.snd_buf := by
  apply BufC.sim (flush_buf_sim k full now)
  have hA := flushA_keep k now
  unfold flushAdmit
  rw [hA.1.conv, hc]
  apply admitSegs_bufC
  rw [hA.2.snd_buf]; exact hb

/-- every PUSH frame a flush writes is the frame of a segment of the buffer after admission that is
not acknowledged -/
theorem pushFrs_mem (k : Kcp) (full : Bool) (now : U32) : ∀ fr ∈ SysW.pushFrs k full now,
    ∃ s ∈ (flushAdmit (flushA k now).k now).buf, s.acked = false ∧
      fr.conv = s.conv ∧ fr.cmd = s.cmd ∧ fr.frg = s.frg ∧ fr.sn = s.sn ∧ fr.data = s.data := by
  intro fr hfr
  unfold SysW.pushFrs at hfr
  split at hfr
  · obtain ⟨s, hs, rfl⟩ := List.mem_map.mp hfr
    obtain ⟨hs1, hs2⟩ := List.mem_filter.mp hs
    have hac : s.acked = false := by
      unfold SysW.sentB at hs2
      simp only [Bool.and_eq_true, Bool.not_eq_true'] at hs2
      exact hs2.1
    obtain ⟨e1, e2, e3, e4, e5⟩ := Live.segAfter_id now (Live.resentOf k) (wndUnused k) k.rcv_nxt
      (Live.flAd k now).count k.rx_rto k.nodelay s
    exact ⟨s, hs1, hac, e5, e4, e3, e1, e2⟩
  · cases hfr

/-- **the frames of one flush**: with the log extended by what the flush admits, every frame the flush
writes (`SysW.flushFrs`: ACK, probe and PUSH frames in order) is good -/
theorem flushFrs_ok {sn0 c : U32} {k : Kcp} {L : List Content} (h : InvS sn0 k L) (hc : k.conv = c)
    (hb : BufC c k.snd_buf) (full : Bool) (now : U32) :
    ∀ fr ∈ SysW.flushFrs k full now, FrOk c sn0 (L ++ admitted k (flush k full now).k) fr := by
  have hI := (flush_invS h full now).1
  generalize L ++ admitted k (flush k full now).k = L' at hI
  have hsim := flush_buf_sim k full now
  have hbA : BufC c (flushAdmit (flushA k now).k now).buf := by
    have hA := flushA_keep k now
    unfold flushAdmit
    rw [hA.1.conv, hc]
    apply admitSegs_bufC
    rw [hA.2.snd_buf]; exact hb
  intro fr hfr
  have hall : FrOk c sn0 L' fr := by
    unfold SysW.flushFrs at hfr
    rcases List.mem_append.mp hfr with h1 | h1
    · rcases List.mem_append.mp h1 with h2 | h2
      · obtain ⟨a1, a2, _, a4, _⟩ := SysC.ackFrsOf_mem k fr h2
        refine ⟨a1.trans hc, Or.inr (Or.inl a2), by rw [a4]; simp, fun hpush => ?_⟩
        rw [a2] at hpush; exact absurd hpush (by decide)
      · obtain ⟨a1, a2, _, a4⟩ := SysC.probeFrs_mem k now fr h2
        refine ⟨a1.trans hc, ?_, by rw [a4]; simp, fun hpush => ?_⟩
        · rcases a2 with a2 | a2
          · exact Or.inr (Or.inr (Or.inl a2))
          · exact Or.inr (Or.inr (Or.inr a2))
        · rcases a2 with a2 | a2 <;> (rw [a2] at hpush; exact absurd hpush (by decide))
    · obtain ⟨s, hs, hac, e1, e2, e3, e4, e5⟩ := pushFrs_mem k full now fr h1
      obtain ⟨s', hs', q1, q2, q3, q4, _, _⟩ := SimL.partner hsim s hs
      obtain ⟨a, _, _, hB⟩ := hI.buf
      obtain ⟨i, b1, b2, b3⟩ := hB.get s' hs'
      have hcs := hbA s hs
      refine ⟨e1.trans hcs.1, Or.inl (by rw [e2, hcs.2]; decide), by rw [e5, ← q4]; exact b2, fun _ => ⟨i, ?_, ?_⟩⟩
      · rw [e4, ← q1]; exact b1
      · have := b3 (by rw [q2]; exact hac)
        unfold content at this
        rw [q3, q4] at this
        rw [e3, e5]; exact this
  exact hall

/-- **the datagrams of one flush**: with the log extended by what the flush admits, every datagram
is a non-empty list of good frames -/
theorem flush_dg {sn0 c : U32} {k : Kcp} {L : List Content} (h : InvS sn0 k L) (hc : k.conv = c)
    (hb : BufC c k.snd_buf) (full : Bool) (now : U32) (hp : (flush k full now).panic = false)
    (hne : ∀ o ∈ (flush k full now).outs, 0 < o.length) :
    ∀ o ∈ (flush k full now).outs, DgOk c sn0 (L ++ admitted k (flush k full now).k) o := by
  obtain ⟨gs, hgs, hflat⟩ := SysW.flush_frames k full now hp
  have hall := flushFrs_ok h hc hb full now
  intro o ho
  rw [hgs] at ho
  obtain ⟨g, hg, rfl⟩ := List.mem_map.mp ho
  refine ⟨g, ?_, rfl, fun fr hfr => hall fr ?_⟩
  · intro hnil
    have := hne (Wire.encFrames g) (by rw [hgs]; exact List.mem_map.mpr ⟨g, hg, rfl⟩)
    rw [hnil] at this
    simp [Wire.encFrames] at this
  · rw [← hflat]
    exact List.mem_flatten.mpr ⟨g, hg, hfr⟩

/-! ### the invariant over histories -/

/-- everything the specification decoder needs of a reachable ghost state -/
structure WInv (c sn0 : U32) (s : GSt) : Prop where
  sg    : InvSG sn0 s
  mss   : InvMss s.k
  conv  : s.k.conv = c
  bufc  : BufC c s.k.snd_buf
  wire  : ∀ o ∈ s.wire, DgOk c sn0 s.log o
  wlen  : ∀ o ∈ s.wire, o.length ≤ mtuLimit + IKCP_OVERHEAD
  alive : s.dead = false

theorem fresh_wInv (k : Kcp) (hf : Fresh k) (hm : InvMss k) : WInv k.conv k.snd_nxt { k := k } :=
  ⟨fresh_invSG k hf, hm, rfl, by show BufC _ k.snd_buf; rw [hf.sb]; exact BufC.nil _, (fun _ ho => by cases ho),
   (fun _ ho => by cases ho), rfl⟩

/-- the shape of a flush-like step -/
theorem wInv_flushLike {c sn0 : U32} {s : GSt} (h : WInv c sn0 s) (k' : Kcp) (outs : List Bytes)
    (hsg : InvSG sn0 { s with k := k', log := s.log ++ admitted s.k k', wire := s.wire ++ outs })
    (hm : InvMss k') (hc : k'.conv = c) (hb : BufC c k'.snd_buf)
    (hw : ∀ o ∈ outs, DgOk c sn0 (s.log ++ admitted s.k k') o)
    (hl : ∀ o ∈ outs, o.length ≤ s.k.mtu.toNat) :
    WInv c sn0 { s with k := k', log := s.log ++ admitted s.k k', wire := s.wire ++ outs } := by
  refine ⟨hsg, hm, hc, hb, fun o ho => ?_, fun o ho => ?_, h.alive⟩
  · rcases List.mem_append.mp ho with h1 | h1
    · exact (h.wire o h1).mono _
    · exact hw o h1
  · rcases List.mem_append.mp ho with h1 | h1
    · exact h.wlen o h1
    · exact Nat.le_trans (hl o h1) h.mss.mtu_le

theorem step_wInv {c sn0 : U32} {s : GSt} (h : WInv c sn0 s) (op : Op) : WInv c sn0 (step s op) := by
  have hsg := (step_invSG h.sg op).1
  have same : ∀ k' : Kcp, InvSG sn0 { s with k := k' } → InvMss k' → k'.conv = s.k.conv → k'.snd_buf = s.k.snd_buf →
      WInv c sn0 { s with k := k' } := by
    intro k' h1 h2 h3 h4
    exact ⟨h1, h2, h3.trans h.conv, by show BufC c k'.snd_buf; rw [h4]; exact h.bufc, h.wire, h.wlen, h.alive⟩
  unfold step at hsg ⊢
  rw [if_neg (by simp [h.alive])] at hsg ⊢
  cases op with
  | send buf =>
    obtain ⟨hp, hm, _⟩ := Lemmas.KcpMss.send_ok s.k buf h.mss
    simp only [] at hsg ⊢
    rw [if_neg (by simp [hp])] at hsg ⊢
    refine ⟨hsg, hm, ?_, ?_, h.wire, h.wlen, h.alive⟩
    · show (send s.k buf).k.conv = c
      rw [send_k]; exact h.conv
    · show BufC c (send s.k buf).k.snd_buf
      rw [send_k]; exact h.bufc
  | recv buflen =>
    simp only [] at hsg ⊢
    split at hsg
    · rename_i hn; rw [if_pos hn]; exact h
    · rename_i hn
      rw [if_neg hn]
      have hs := recv_sndSame s.k buflen
      refine ⟨hsg, Lemmas.KcpMss.inv_of_view h.mss (Lemmas.KcpMss.recv_view s.k buflen), hs.conv.trans h.conv, ?_,
        h.wire, h.wlen, h.alive⟩
      show BufC c (recv s.k buflen).k.snd_buf
      rw [hs.snd_buf]; exact h.bufc
  | input data regular ackNoDelay now =>
    obtain ⟨hp, hne, hm, _⟩ := Lemmas.KcpMss.input_ok s.k data regular ackNoDelay now h.mss
    simp only [] at hsg ⊢
    rw [if_neg (by simp [hp])] at hsg ⊢
    refine wInv_flushLike h _ _ hsg hm ((input_conv _ _ _ _ _).trans h.conv) ?_ ?_ (fun o ho => (hne o ho).2)
    · -- BufC of the result
      rw [input_eq]
      split
      · exact h.bufc
      · have hl := inputLoop_bufC (c := c) regular (data.length / IKCP_OVERHEAD + 1) data { k := s.k } h.bufc
        have hcv := inputLoop_conv regular (data.length / IKCP_OVERHEAD + 1) data { k := s.k }
        generalize inputLoop regular (data.length / IKCP_OVERHEAD + 1) data { k := s.k } = st at hl hcv
        have h2 : BufC c (inputK2 s.k st regular now).snd_buf := by
          rw [(inputK2_same _ _ _ _).2.snd_buf]; exact hl
        have hc2 : (inputK2 s.k st regular now).conv = c :=
          ((inputK2_same s.k st regular now).2.conv.trans hcv).trans h.conv
        rcases inputTail_cases s.k st regular ackNoDelay now with h1 | h1 | ⟨full, h1⟩
        · rw [h1.1]; exact hl
        · rw [h1.1]; exact h2
        · rw [h1.1]; exact flush_bufC hc2 h2 full now
    · -- the datagrams
      rw [input_eq] at hp hne ⊢
      split
      · intro o ho; cases ho
      · rename_i hlen
        rw [if_neg hlen] at hp hne
        have hlS := inputLoop_invS (sn0 := sn0) (L := s.log) regular (data.length / IKCP_OVERHEAD + 1) data
          { k := s.k } h.sg.inv
        have hl := inputLoop_bufC (c := c) regular (data.length / IKCP_OVERHEAD + 1) data { k := s.k } h.bufc
        have hcv := inputLoop_conv regular (data.length / IKCP_OVERHEAD + 1) data { k := s.k }
        have hq := inputLoop_queue regular (data.length / IKCP_OVERHEAD + 1) data { k := s.k }
        generalize inputLoop regular (data.length / IKCP_OVERHEAD + 1) data { k := s.k } = st at hl hcv hlS hq hp hne ⊢
        have h2 : BufC c (inputK2 s.k st regular now).snd_buf := by
          rw [(inputK2_same _ _ _ _).2.snd_buf]; exact hl
        have hc2 : (inputK2 s.k st regular now).conv = c :=
          ((inputK2_same s.k st regular now).2.conv.trans hcv).trans h.conv
        have hS2 : InvS sn0 (inputK2 s.k st regular now) s.log := hlS.same (inputK2_same _ _ _ _).2
        have hq2 : (inputK2 s.k st regular now).snd_queue = s.k.snd_queue :=
          (inputK2_same s.k st regular now).2.snd_queue.trans hq
        rcases inputTail_cases s.k st regular ackNoDelay now with h1 | h1 | ⟨full, h1⟩
        · rw [h1.2]; intro o ho; cases ho
        · rw [h1.2]; intro o ho; cases ho
        · rw [h1.2.2] at hp
          rw [h1.2.1] at hne
          rw [h1.1, h1.2.1, admitted_congr s.k (inputK2 s.k st regular now) _ hq2]
          exact flush_dg hS2 hc2 h2 full now hp (fun o ho => (hne o ho).1)
  | flush full now =>
    obtain ⟨hp, hne, hm, _⟩ := Lemmas.KcpFlush.flush_ok s.k full now h.mss
    simp only [] at hsg ⊢
    rw [if_neg (by simp [hp])] at hsg ⊢
    exact wInv_flushLike h _ _ hsg hm ((flush_keep _ _ _).conv.trans h.conv) (flush_bufC h.conv h.bufc full now)
      (flush_dg h.sg.inv h.conv h.bufc full now hp (fun o ho => (hne o ho).1)) (fun o ho => (hne o ho).2)
  | update now =>
    obtain ⟨hp, hne, hm, _⟩ := Lemmas.KcpMss.update_ok s.k now h.mss
    simp only [] at hsg ⊢
    rw [if_neg (by simp [hp])] at hsg ⊢
    refine wInv_flushLike h _ _ hsg hm ((update_keep _ _).conv.trans h.conv) ?_ ?_ (fun o ho => (hne o ho).2)
    · rw [update_eq]
      split
      · obtain ⟨h1, h2, _, _⟩ := updPre_same s.k now (updTf s.k now)
        apply flush_bufC (h1.conv.trans h.conv)
        rw [h2.snd_buf]; exact h.bufc
      · obtain ⟨_, _, _, h2⟩ := updPre_same s.k now 0
        show BufC c (updPre s.k now).snd_buf
        rw [h2.snd_buf]; exact h.bufc
    · rw [update_eq] at hp hne ⊢
      split
      · rename_i hsl
        rw [if_pos hsl] at hp hne
        obtain ⟨h1, h2, _, _⟩ := updPre_same s.k now (updTf s.k now)
        have hS : InvS sn0 { updPre s.k now with ts_flush := updTf s.k now } s.log :=
          h.sg.inv.congr h2.snd_nxt h1.snd_una h2.snd_buf h2.snd_queue
        rw [admitted_congr s.k { updPre s.k now with ts_flush := updTf s.k now } _ h2.snd_queue]
        exact flush_dg hS (h1.conv.trans h.conv) (by rw [h2.snd_buf]; exact h.bufc) true now hp
          (fun o ho => (hne o ho).1)
      · intro o ho; cases ho
  | setMtu mtu =>
    exact same _ hsg (Lemmas.KcpMss.setMtu_inv s.k mtu h.mss) (setMtu_rcvSame _ _).conv (setMtu_sndQ _ _).snd_buf
  | noDelay a b c' d =>
    exact same _ hsg (Lemmas.KcpMss.inv_of_view h.mss (Lemmas.KcpMss.noDelay_view s.k a b c' d))
      (noDelay_rcvSame _ _ _ _ _).conv (noDelay_sndQ _ _ _ _ _).snd_buf
  | wndSize a b =>
    exact same _ hsg (Lemmas.KcpMss.inv_of_view h.mss (Lemmas.KcpMss.wndSize_view s.k a b))
      (wndSize_rcvSame _ _ _).conv (wndSize_sndQ _ _ _).snd_buf

theorem run_wInv {c sn0 : U32} (ops : List Op) : ∀ (s : GSt), WInv c sn0 s → WInv c sn0 (run s ops) := by
  induction ops with
  | nil => intro s h; exact h
  | cons op rest ih => intro s h; exact ih _ (step_wInv h op)

end KcpVerif.C09W
