/-
The cross-endpoint consistency invariant of the closed system for ARBITRARY histories (C02/C03 Tier 2),
data flowing from A to B: every datagram in flight is made of genuine frames; in offsets from the
first sequence number `rcv_nxt(B) ≤ snd_nxt(A)`, and B HAS every segment below `snd_una(A)` (after the
repair of the acked-head wedge `snd_una(A)` may be ahead of `rcv_nxt(B)`: A releases a segment that B
holds in its reorder buffer but has not yet delivered); A's send buffer is contiguous; a segment
flagged `acked` at A, an entry of B's ack list and an ACK frame in flight are all for segments B HAS
(delivered to its queue, or waiting in its reorder buffer) — and what B has it never loses.

The frame conditions are all of the form "for every datagram in the link", so the invariant is
preserved by a network that drops, duplicates and reorders (`shuffle`) as well as by the fair one.
This file: the definition and every event except A's `Input` (which is where the model of
`shrink_buf` matters).
-/
import KcpVerif.Lemmas.SysDrainGenA

namespace KcpVerif.SysC
open KcpVerif KcpVerif.Gen KcpVerif.Kcp KcpVerif.Live KcpVerif.Wire KcpVerif.SysW KcpVerif.Sys

/-- the frames B sends: no PUSH; `una` is not beyond what B has taken; an ACK is for a segment B has -/
def AckGen (base : U32) (nxt : U32) (buf : List Seg) (fr : Frm) : Prop :=
  (fr.cmd.toNat = IKCP_CMD_ACK ∨ fr.cmd.toNat = IKCP_CMD_WASK ∨ fr.cmd.toNat = IKCP_CMD_WINS) ∧
  o base fr.una ≤ o base nxt ∧ (fr.cmd.toNat = IKCP_CMD_ACK → Has base nxt buf fr.sn)

structure Cons (p : Par) (s : State) (gab gba : GLink) : Prop where
  hab : s.ab = encL gab
  hba : s.ba = encL gba
  np  : s.panic = false
  aK  : Total.InvK s.A
  aconv : s.A.conv = p.conv
  aack : s.A.acklist = []
  aq  : ∀ x ∈ s.A.snd_queue, x.acked = false
  acon : Contig p.base s.A
  atag : BufTagged p.conv s.A.snd_buf
  ahas : ∀ x ∈ s.A.snd_buf, x.acked = true → Has p.base s.B.rcv_nxt s.B.rcv_buf x.sn
  arel : ∀ sn, o p.base sn < o p.base s.A.snd_una → Has p.base s.B.rcv_nxt s.B.rcv_buf sn
  bK  : Total.InvK s.B
  bconv : s.B.conv = p.conv
  bsb : s.B.snd_buf = []
  bsq : s.B.snd_queue = []
  bub : o p.base s.B.rcv_nxt ≤ o p.base s.A.snd_nxt
  bbuf : ∀ x ∈ s.B.rcv_buf, o p.base x.sn < o p.base s.A.snd_nxt
  back : ∀ a ∈ s.B.acklist, Has p.base s.B.rcv_nxt s.B.rcv_buf a.sn
  fab : ∀ d ∈ gab, ∀ fr ∈ d.2, fr.conv = p.conv ∧ DataLike fr ∧
          (fr.cmd.toNat = IKCP_CMD_PUSH → o p.base fr.sn < o p.base s.A.snd_nxt)
  fba : ∀ d ∈ gba, ∀ fr ∈ d.2, fr.conv = p.conv ∧ fr.data = [] ∧ AckGen p.base s.B.rcv_nxt s.B.rcv_buf fr

/-! ### the unfair network -/

/-- any rearrangement of what is in flight: every datagram of the new links is one of the old ones
(so: drop, duplicate, reorder — not forge) -/
def shuffle (s : State) (ab' ba' : List Dgram) : State := { s with ab := ab', ba := ba' }

theorem encL_sub : ∀ (l : List Dgram) (g : GLink), (∀ d ∈ l, d ∈ encL g) → ∃ g', l = encL g' ∧ ∀ d ∈ g', d ∈ g := by
  intro l
  induction l with
  | nil => intro g _; exact ⟨[], rfl, fun d hd => by simp at hd⟩
  | cons d r ih =>
    intro g h
    obtain ⟨g', e, hs⟩ := ih g (fun x hx => h x (List.mem_cons_of_mem _ hx))
    have hd := h d (List.mem_cons_self ..)
    unfold encL at hd
    obtain ⟨d0, hd0, rfl⟩ := List.mem_map.mp hd
    refine ⟨d0 :: g', by rw [e]; rfl, fun x hx => ?_⟩
    rcases List.mem_cons.mp hx with rfl | hx
    · exact hd0
    · exact hs x hx

theorem cons_shuffle {p : Par} {s : State} {gab gba : GLink} (h : Cons p s gab gba) (ab' ba' : List Dgram)
    (h1 : ∀ d ∈ ab', d ∈ s.ab) (h2 : ∀ d ∈ ba', d ∈ s.ba) :
    ∃ gab' gba', Cons p (shuffle s ab' ba') gab' gba' := by
  obtain ⟨ga, ea, sa⟩ := encL_sub ab' gab (by rw [← h.hab]; exact h1)
  obtain ⟨gb, eb, sb⟩ := encL_sub ba' gba (by rw [← h.hba]; exact h2)
  exact ⟨ga, gb, { h with hab := ea, hba := eb, fab := fun d hd => h.fab d (sa d hd), fba := fun d hd => h.fba d (sb d hd) }⟩

/-! ### a receive-side step of B -/

/-- B changes by a receive-side step (and A, the links and the panic flag are as given) -/
theorem cons_rcvStep {p : Par} {s : State} {gab gba : GLink} (h : Cons p s gab gba) (k' : Kcp)
    (hs : RcvStep p.base (o p.base s.A.snd_nxt) s.B k') (hK : Total.InvK k') (gab' : GLink)
    (hsub : ∀ d ∈ gab', d ∈ gab) (ab' : List Dgram) (hab' : ab' = encL gab') :
    Cons p { s with B := k', ab := ab' } gab' gba :=
  { h with
    hab := hab'
    ahas := fun x hx ha => hs.has _ (h.ahas x hx ha)
    arel := fun sn hsn => hs.has _ (h.arel sn hsn)
    bK := hK
    bconv := hs.cv.trans h.bconv
    bsb := hs.sb
    bsq := hs.sq.trans h.bsq
    bub := hs.hi
    bbuf := hs.bnd
    back := fun a ha => by
      rcases hs.ack a ha with h1 | h1
      · exact hs.has _ (h.back a h1)
      · exact h1
    fab := fun d hd => h.fab d (hsub d hd)
    fba := fun d hd fr hfr => by
      obtain ⟨e1, e2, e3, e4, e5⟩ := h.fba d hd fr hfr
      exact ⟨e1, e2, e3, Nat.le_trans e4 hs.lo, fun hc => hs.has _ (e5 hc)⟩ }

/-- a flush of B (of either type) -/
theorem cons_flushB {p : Par} {s : State} {gab gba : GLink} (h : Cons p s gab gba) (full : Bool) (nf : Nat) :
    ∃ gba', Cons p (afterFlushB s full nf) gab gba' := by
  obtain ⟨hfr, pw, tp, st, ss, cw, inc, hk⟩ := flush_empty s.B full (clk s.now) h.bsb h.bsq
  obtain ⟨hpan, hK, hal, hcfg⟩ := Total.flush_total h.bK full (clk s.now)
  obtain ⟨gs, hgs, hfl⟩ := flush_frames s.B full (clk s.now) hpan
  rw [hfr] at hfl
  have hrn : (s.B.flush full (clk s.now)).k.rcv_nxt = s.B.rcv_nxt := by rw [hk]
  have hrb : (s.B.flush full (clk s.now)).k.rcv_buf = s.B.rcv_buf := by rw [hk]
  refine ⟨gba ++ gs.map (fun g => (s.now + s.D, g)), ?_⟩
  exact
  { hab := h.hab
    hba := by
      show s.ba ++ stamp (s.now + s.D) (s.B.flush full (clk s.now)).outs = _
      rw [hgs, stamp_groups, encL_append, h.hba]
    np := by show (s.panic || (s.B.flush full (clk s.now)).panic) = false; rw [h.np, hpan]; rfl
    aK := h.aK, aconv := h.aconv, aack := h.aack, aq := h.aq, acon := h.acon, atag := h.atag
    ahas := by
      show ∀ x ∈ s.A.snd_buf, x.acked = true →
        Has p.base (s.B.flush full (clk s.now)).k.rcv_nxt (s.B.flush full (clk s.now)).k.rcv_buf x.sn
      rw [hrn, hrb]; exact h.ahas
    arel := by
      show ∀ sn, o p.base sn < o p.base s.A.snd_una →
        Has p.base (s.B.flush full (clk s.now)).k.rcv_nxt (s.B.flush full (clk s.now)).k.rcv_buf sn
      rw [hrn, hrb]; exact h.arel
    bK := hK
    bconv := by show (s.B.flush full (clk s.now)).k.conv = _; rw [hk]; exact h.bconv
    bsb := by show (s.B.flush full (clk s.now)).k.snd_buf = _; rw [hk]
    bsq := by show (s.B.flush full (clk s.now)).k.snd_queue = _; rw [hk]
    bub := by show o p.base (s.B.flush full (clk s.now)).k.rcv_nxt ≤ _; rw [hrn]; exact h.bub
    bbuf := by show ∀ x ∈ (s.B.flush full (clk s.now)).k.rcv_buf, _; rw [hrb]; exact h.bbuf
    back := by show ∀ a ∈ (s.B.flush full (clk s.now)).k.acklist, _; rw [hal]; intro a ha; simp at ha
    fab := h.fab
    fba := by
      show ∀ d ∈ gba ++ gs.map (fun g => (s.now + s.D, g)), ∀ fr ∈ d.2, fr.conv = p.conv ∧ fr.data = [] ∧
        AckGen p.base (s.B.flush full (clk s.now)).k.rcv_nxt (s.B.flush full (clk s.now)).k.rcv_buf fr
      rw [hrn, hrb]
      intro d hd fr hfr'
      rcases List.mem_append.mp hd with hd | hd
      · exact h.fba d hd fr hfr'
      · have hin := (groups_mem hd).2 fr hfr'
        rw [hfl] at hin
        rcases List.mem_append.mp hin with hin | hin
        · obtain ⟨e1, e2, e3, e4, e5⟩ := ackFrsOf_mem s.B fr hin
          exact ⟨by rw [e1]; exact h.bconv, e4, Or.inl e2, by rw [e3]; exact Nat.le_refl _, fun _ => h.back _ e5⟩
        · obtain ⟨e1, e2, e3, e4⟩ := probeFrs_mem s.B (clk s.now) fr hin
          refine ⟨by rw [e1]; exact h.bconv, e4, Or.inr e2, by rw [e3]; exact Nat.le_refl _, fun hc => ?_⟩
          unfold IKCP_CMD_ACK at hc; unfold IKCP_CMD_WASK IKCP_CMD_WINS at e2; omega }

/-- B inputs the head datagram of the link A → B: ANY genuine frames -/
theorem cons_dlvB {p : Par} {s : State} {t0 : Nat} {frs : List Frm} {grest gba : GLink}
    (h : Cons p s ((t0, frs) :: grest) gba) (hnw : NoWrap p.base s) (nd : Bool) :
    ∃ gba', Cons p { s with B := (s.B.input (encFrames frs) true nd (clk s.now)).k, ab := encL grest,
                            ba := s.ba ++ stamp (s.now + s.D) (s.B.input (encFrames frs) true nd (clk s.now)).outs,
                            panic := s.panic || (s.B.input (encFrames frs) true nd (clk s.now)).panic } grest gba' := by
  unfold NoWrap at hnw
  have hN : o p.base s.A.snd_nxt < 2 ^ 31 := by omega
  have hd0 : ((t0, frs) : Nat × List Frm) ∈ (t0, frs) :: grest := List.mem_cons_self ..
  have hv : ∀ fr ∈ frs, FrValid s.B.conv fr := by
    intro fr hfr
    obtain ⟨e1, e2, _⟩ := h.fab (t0, frs) hd0 fr hfr
    refine ⟨by rw [e1, h.bconv], ?_, e2.2⟩
    unfold Live.validCmd
    rcases e2.1 with e | e | e
    · exact Or.inl e
    · exact Or.inr (Or.inr (Or.inl e))
    · exact Or.inr (Or.inr (Or.inr e))
  obtain ⟨r1, r2, r3, r4, r5⟩ := inFrs_rcv_gen p.base (o p.base s.A.snd_nxt) hN frs { k := s.B } h.bsb
    (fun fr hfr => ⟨(h.fab (t0, frs) hd0 fr hfr).2.1, (h.fab (t0, frs) hd0 fr hfr).2.2⟩) h.bub h.bbuf rfl
  obtain ⟨cw, inc, hcw⟩ := cwndOnAck_shape' (inFrs true frs { k := s.B }).k s.B.snd_una
  have hK2 : RcvStep p.base (o p.base s.A.snd_nxt) s.B (cwndOnAck (inFrs true frs { k := s.B }).k s.B.snd_una) := by
    rw [hcw]
    exact ⟨r1.sb, r1.sq, r1.cv, r1.rw, r1.iv, r1.nx, r1.lo, r1.hi, r1.bnd, r1.has, r1.ack⟩
  have hKl : Total.InvK (inFrs true frs { k := s.B }).k := by
    have := (Total.inputLoop_ok true ((encFrames frs).length / IKCP_OVERHEAD + 1) (encFrames frs) { k := s.B } rfl rfl).2.2
    have e := inSt_encFrames s.B frs true hv
    unfold inSt at e
    rw [e] at this
    exact h.bK.of_pres this
  have hKm : Total.InvK (cwndOnAck (inFrs true frs { k := s.B }).k s.B.snd_una) :=
    hKl.of_pres (Total.cwndOnAck_pres _ _)
  have hmid := cons_rcvStep h _ hK2 hKm grest (fun d hd => List.mem_cons_of_mem _ hd) _ rfl
  rcases inputB_cases s.B frs nd (clk s.now) hv r2 r3 r4 r5 with hin | hin | ⟨rfl, hin⟩
  · rw [hin]
    simp only [stamp, List.map_nil, List.append_nil, Bool.or_false]
    exact ⟨gba, hmid⟩
  · rw [hin]
    exact cons_flushB hmid false s.nfB
  · rw [hin]
    simp only [stamp, List.map_nil, List.append_nil, Bool.or_false]
    exact ⟨gba, cons_rcvStep h s.B (RcvStep.refl _ _ _ h.bsb h.bub h.bbuf) h.bK grest
      (fun d hd => List.mem_cons_of_mem _ hd) _ rfl⟩

/-! ### the remaining events that do not involve A's `Input` -/

theorem cons_tick {p : Par} {s : State} {gab gba : GLink} (h : Cons p s gab gba) :
    Cons p { s with now := s.now + 1 } gab gba := { h with }

theorem send_unacked (k : Kcp) (b : Bytes) (hq : ∀ x ∈ k.snd_queue, x.acked = false) :
    ∀ x ∈ (send k b).k.snd_queue, x.acked = false := by
  have hq1 : ∀ x ∈ Frame.sendQ1 k b, x.acked = false := by
    unfold Frame.sendQ1
    split
    · split
      · rename_i s hs
        intro x hx
        unfold setLast at hx
        rcases List.mem_append.mp hx with h | h
        · exact hq x (List.dropLast_subset _ h)
        · rw [List.mem_singleton.mp h]
          exact hq s (List.mem_of_getLast? hs)
      · exact hq
    · exact hq
  have hnew : ∀ x ∈ Frame.sendNew k b, x.acked = false := fun x hx => (mkSegs_fresh _ _ _ _ x hx).2.2
  rw [Frame.send_eq]
  repeat' split
  all_goals first
    | exact hq
    | exact hq1
    | (intro x hx
       rcases List.mem_append.mp hx with h | h
       · exact hq1 x h
       · exact hnew x h)

theorem cons_send {p : Par} {s : State} {gab gba : GLink} (h : Cons p s gab gba) (b : Bytes) :
    Cons p (Sys.step s (.send b)) gab gba := by
  have hq := Frame.send_k s.A b
  obtain ⟨hpan, hK⟩ := Total.send_total h.aK b
  have e : ∀ (P : Kcp → Prop), P { s.A with snd_queue := (s.A.send b).k.snd_queue } → P (s.A.send b).k := by
    intro P hp; rw [hq]; exact hp
  show Cons p { s with A := (s.A.send b).k, panic := s.panic || (s.A.send b).panic } gab gba
  exact { h with
    np := by show (s.panic || (s.A.send b).panic) = false; rw [h.np, hpan]; rfl
    aK := hK
    aconv := e (fun k => k.conv = p.conv) h.aconv
    aack := e (fun k => k.acklist = []) h.aack
    aq := send_unacked s.A b h.aq
    acon := e (Contig p.base) h.acon
    atag := e (fun k => BufTagged p.conv k.snd_buf) h.atag
    ahas := e (fun k => ∀ x ∈ k.snd_buf, x.acked = true → Has p.base s.B.rcv_nxt s.B.rcv_buf x.sn) h.ahas
    arel := e (fun k => ∀ sn, o p.base sn < o p.base k.snd_una → Has p.base s.B.rcv_nxt s.B.rcv_buf sn) h.arel
    bub := e (fun k => o p.base s.B.rcv_nxt ≤ o p.base k.snd_nxt) h.bub
    bbuf := e (fun k => ∀ x ∈ s.B.rcv_buf, o p.base x.sn < o p.base k.snd_nxt) h.bbuf
    fab := e (fun k => ∀ d ∈ gab, ∀ fr ∈ d.2, fr.conv = p.conv ∧ DataLike fr ∧
      (fr.cmd.toNat = IKCP_CMD_PUSH → o p.base fr.sn < o p.base k.snd_nxt)) h.fab }

theorem cons_read {p : Par} {s : State} {gab gba : GLink} (h : Cons p s gab gba) (hnw : NoWrap p.base s) :
    Cons p (Sys.step s .read) gab gba := by
  unfold NoWrap at hnw
  have hs := recv_rcvStep p.base (o p.base s.A.snd_nxt) (by omega) s.B s.B.peekSize.toNat h.bsb h.bub h.bbuf
  have hK := Total.recv_total h.bK s.B.peekSize.toNat
  show Cons p (if (s.B.recv s.B.peekSize.toNat).n < 0 then s
    else { s with B := (s.B.recv s.B.peekSize.toNat).k, got := s.got ++ (s.B.recv s.B.peekSize.toNat).data }) gab gba
  split
  · exact h
  · have := cons_rcvStep h _ hs hK gab (fun d hd => hd) s.ab h.hab
    exact { this with }

theorem cons_flushA {p : Par} {s : State} {gab gba : GLink} (h : Cons p s gab gba) (hnw : NoWrap p.base s) (nf : Nat) :
    ∃ gab', Cons p (afterFlushA s nf) gab' gba := by
  obtain ⟨g1, g2, g3, g4, g5, g6, g7⟩ := flush_gen p.base s.A (clk s.now) h.aK h.aack h.acon
    (by rw [h.aconv]; exact h.atag) h.aq hnw
  obtain ⟨hpan, hK, hal, hcfg⟩ := Total.flush_total h.aK true (clk s.now)
  obtain ⟨gs, hgs, hfl⟩ := flush_frames s.A true (clk s.now) hpan
  obtain ⟨pw, tp, st, ss, cw, inc, hk⟩ := flush_frame s.A true (clk s.now)
  refine ⟨gab ++ gs.map (fun g => (s.now + s.D, g)), ?_⟩
  exact
  { hab := by
      show s.ab ++ stamp (s.now + s.D) (s.A.flush true (clk s.now)).outs = _
      rw [hgs, stamp_groups, encL_append, h.hab]
    hba := h.hba
    np := by show (s.panic || (s.A.flush true (clk s.now)).panic) = false; rw [h.np, hpan]; rfl
    aK := hK
    aconv := by show (s.A.flush true (clk s.now)).k.conv = _; rw [hk]; exact h.aconv
    aack := hal
    aq := fun x hx => h.aq x (g6 x hx)
    acon := g1
    atag := by rw [← h.aconv]; exact g2
    ahas := fun x' hx' ha => by
      obtain ⟨x, hx, e1, e2⟩ := g5 x' hx' ha
      rw [← e1]; exact h.ahas x hx e2
    arel := by
      show ∀ sn, o p.base sn < o p.base (s.A.flush true (clk s.now)).k.snd_una → _
      rw [g4]; exact h.arel
    bK := h.bK, bconv := h.bconv, bsb := h.bsb, bsq := h.bsq
    bub := Nat.le_trans h.bub g3
    bbuf := fun x hx => Nat.lt_of_lt_of_le (h.bbuf x hx) g3
    back := h.back
    fab := by
      intro d hd fr hfr
      rcases List.mem_append.mp hd with hd | hd
      · obtain ⟨e1, e2, e3⟩ := h.fab d hd fr hfr
        exact ⟨e1, e2, fun hc => Nat.lt_of_lt_of_le (e3 hc) g3⟩
      · have hin := (groups_mem hd).2 fr hfr
        rw [hfl] at hin
        obtain ⟨e1, e2, e3⟩ := g7 fr hin
        exact ⟨by rw [e1]; exact h.aconv, e2, e3⟩
    fba := h.fba }

end KcpVerif.SysC
