/-
C12 — shift simulation, flush part 1: the output buffer (`Fl`), ackFlush, probePhase, admitSegs,
wndUnused.
-/
import KcpVerif.Lemmas.KcpShiftBasic

namespace KcpVerif.Shift
open KcpVerif KcpVerif.Gen KcpVerif.Kcp

structure FlSim (σ : Sigma) (f f' : Fl) : Prop where
  k     : Sim σ f.k f'.k
  cur   : OutRel σ f.cur f'.cur
  outs  : All₂ (OutRel σ) f.outs f'.outs
  panic : f'.panic = f.panic

theorem makeSpace_sim {σ : Sigma} {f f' : Fl} (h : FlSim σ f f') (n : Nat) :
    FlSim σ (f.makeSpace n) (f'.makeSpace n) := by
  have hc : (f'.cur.length + n > f'.k.mtu.toNat) ↔ (f.cur.length + n > f.k.mtu.toNat) := by
    rw [← h.cur.length_eq, h.k.mtu]
  unfold Fl.makeSpace
  simp only [hc]
  by_cases c : f.cur.length + n > f.k.mtu.toNat
  · simp only [if_pos c]
    exact { h with outs := forall₂_append h.outs (forall₂_single h.cur), cur := OutRel.nil }
  · simp only [if_neg c]
    exact h

theorem makeSpace_k (f : Fl) (n : Nat) : (f.makeSpace n).k = f.k := by
  unfold Fl.makeSpace; split <;> rfl

theorem putHdr_sim {σ : Sigma} {f f' : Fl} (h : FlSim σ f f') (hd hd' : Bytes)
    (ho : OutRel σ (f.cur ++ hd) (f'.cur ++ hd')) : FlSim σ (f.putHdr hd) (f'.putHdr hd') := by
  have hc : (f'.k.bufLen - f'.cur.length < IKCP_OVERHEAD) ↔ (f.k.bufLen - f.cur.length < IKCP_OVERHEAD) := by
    rw [← h.cur.length_eq, h.k.bufLen]
  unfold Fl.putHdr
  simp only [hc]
  by_cases c : f.k.bufLen - f.cur.length < IKCP_OVERHEAD
  · simp only [if_pos c]
    exact { h with panic := rfl }
  · simp only [if_neg c]
    exact { h with cur := ho }

theorem putData_sim {σ : Sigma} {f f' : Fl} (h : FlSim σ f f') (d : Bytes) :
    FlSim σ (f.putData d) (f'.putData d) := by
  have hc : (d.length > f'.k.bufLen - f'.cur.length) ↔ (d.length > f.k.bufLen - f.cur.length) := by
    rw [← h.cur.length_eq, h.k.bufLen]
  unfold Fl.putData
  simp only [hc]
  by_cases c : d.length > f.k.bufLen - f.cur.length
  · simp only [if_pos c]
    exact { h with panic := rfl }
  · simp only [if_neg c]
    exact { h with cur := OutRel.data d h.cur }

theorem wndUnused_sim {σ : Sigma} {k k' : Kcp} (h : Sim σ k k') : wndUnused k' = wndUnused k := by
  unfold wndUnused
  rw [h.rcv_queue, List.length_map, h.rcv_wnd]

/-! ### Phase 1 -/

theorem ackFlush_sim {σ : Sigma} (wnd : BitVec 16) (una : U32) (total : Nat) (l : List Ack) (i : Nat)
    (st st' : AckSt) (hf : FlSim σ st.f st'.f) (hc : st.sc.cmd = BitVec.ofNat 8 IKCP_CMD_ACK)
    (hc' : st'.sc.cmd = BitVec.ofNat 8 IKCP_CMD_ACK) :
    FlSim σ (ackFlush wnd una total l i st).f
      (ackFlush wnd (una + σ.b) total (l.map (shAck σ)) i st').f := by
  induction l generalizing i st st' with
  | nil => exact hf
  | cons a rest ih =>
    have h1 := makeSpace_sim hf IKCP_OVERHEAD
    have e : itimediff (shAck σ a).sn (st'.f.makeSpace IKCP_OVERHEAD).k.rcv_nxt =
        itimediff a.sn (st.f.makeSpace IKCP_OVERHEAD).k.rcv_nxt := by
      rw [h1.k.rcv_nxt]; exact itd_shift _ _ _
    simp only [List.map_cons, ackFlush, e]
    by_cases c : itimediff a.sn (st.f.makeSpace IKCP_OVERHEAD).k.rcv_nxt ≥ 0 ∨ total - 1 = i
    · simp only [if_pos c]
      apply ih
      · apply putHdr_sim h1
        rw [h1.k.conv, hc, hc']
        exact OutRel.ack _ _ _ _ _ h1.cur
      · exact hc
      · exact hc'
    · simp only [if_neg c]
      exact ih _ _ _ h1 hc hc'

/-! ### Phase 2 -/

theorem probePhase_sim {σ : Sigma} {k k' : Kcp} (h : Sim σ k k') (now : U32) :
    Sim σ (probePhase k now) (probePhase k' (now + σ.t)) := by
  have e1 : (k'.rmt_wnd = 0) ↔ (k.rmt_wnd = 0) := by rw [h.rmt_wnd]
  have e2 : (k'.probe_wait = 0) ↔ (k.probe_wait = 0) := by rw [h.probe_wait]
  unfold probePhase
  simp only [e1, e2]
  generalize u32 IKCP_PROBE_INIT = w0
  generalize u32 IKCP_ASK_SEND = w1
  by_cases c1 : k.rmt_wnd = 0
  · simp only [if_pos c1]
    by_cases c2 : k.probe_wait = 0
    · simp only [if_pos c2]
      exact { h with probe_wait := rfl, ts_probe := fun _ => add_shift now w0 σ.t }
    · simp only [if_neg c2]
      have e : itimediff (now + σ.t) k'.ts_probe = itimediff now k.ts_probe := by
        rw [h.ts_probe c2, itd_shift]
      simp only [e]
      by_cases c3 : itimediff now k.ts_probe ≥ 0
      · simp only [if_pos c3]
        have e4 : now + σ.t + nextProbeWait k'.probe_wait = now + nextProbeWait k.probe_wait + σ.t := by
          rw [h.probe_wait, add_shift]
        exact { h with probe_wait := congrArg nextProbeWait h.probe_wait, ts_probe := fun _ => e4,
                       probe := congrArg (· ||| w1) h.probe }
      · simp only [if_neg c3]
        exact h
  · simp only [if_neg c1]
    exact { h with probe_wait := rfl, ts_probe := fun hh => absurd rfl hh }

/-! ### Phase 4 -/

theorem admitSegs_sim {σ : Sigma} (conv una cwnd now : U32) (q : List Seg) (hq : Fresh q)
    (buf buf' : List Seg) (nxt : U32) (c : Nat) (hb : All₂ (SndRel σ) buf buf') :
    (admitSegs conv (una + σ.a) cwnd (now + σ.t) q buf' (nxt + σ.a) c).queue
        = (admitSegs conv una cwnd now q buf nxt c).queue ∧
      All₂ (SndRel σ) (admitSegs conv una cwnd now q buf nxt c).buf
        (admitSegs conv (una + σ.a) cwnd (now + σ.t) q buf' (nxt + σ.a) c).buf ∧
      (admitSegs conv (una + σ.a) cwnd (now + σ.t) q buf' (nxt + σ.a) c).nxt
        = (admitSegs conv una cwnd now q buf nxt c).nxt + σ.a ∧
      (admitSegs conv (una + σ.a) cwnd (now + σ.t) q buf' (nxt + σ.a) c).count
        = (admitSegs conv una cwnd now q buf nxt c).count ∧
      Fresh (admitSegs conv una cwnd now q buf nxt c).queue := by
  induction q generalizing buf buf' nxt c with
  | nil => exact ⟨rfl, hb, rfl, rfl, hq⟩
  | cons s rest ih =>
    simp only [admitSegs, itd_shift_add]
    by_cases c1 : itimediff nxt (una + cwnd) ≥ 0
    · simp only [if_pos c1]
      exact ⟨trivial, hb, trivial, trivial, hq⟩
    · simp only [if_neg c1, succ_shift]
      have hx : s.xmit = 0 := hq s (List.mem_cons_self)
      apply ih (fun x hx => hq x (List.mem_cons_of_mem _ hx))
      apply forall₂_append hb
      apply forall₂_single
      constructor <;> (try rfl)
      · intro hh; exact absurd hx hh

end KcpVerif.Shift
