/-
The return path of the progress step of C02 extended backwards by one phase (repaired model, arbitrary
consistent states): a PUSH of a segment B has already delivered is on its way to B (a retransmission
whose ACK was lost) — B re-acknowledges it, and A's `snd_una` passes everything B has delivered no later
than the arrival of that PUSH plus B's flush interval plus the one-way delay.
-/
import KcpVerif.Lemmas.SysDrainReturn

namespace KcpVerif.SysC
open KcpVerif KcpVerif.Gen KcpVerif.Kcp KcpVerif.Live KcpVerif.Wire KcpVerif.SysW KcpVerif.Sys

/-- run hypothesis of this file: fewer than 2^30 segments, a receive window below 2^30 -/
def Small (base : U32) (s : State) : Prop :=
  o base s.A.snd_nxt + s.A.snd_queue.length < 2 ^ 30 ∧ s.B.rcv_wnd.toNat < 2 ^ 30

theorem Small.noWrap {base : U32} {s : State} (h : Small base s) : NoWrap base s := by
  unfold NoWrap; have := h.1; omega

/-- one arbitrary genuine frame from the sender at a pure receiver -/
theorem inFr_rcv_gen (base : U32) (N : Nat) (hN : N < 2 ^ 31) (st : InLoop) (fr : Frm) (h1 : st.k.snd_buf = [])
    (hdl : DataLike fr) (hsn : fr.cmd.toNat = IKCP_CMD_PUSH → o base fr.sn < N)
    (h2 : o base st.k.rcv_nxt ≤ N) (h3 : ∀ x ∈ st.k.rcv_buf, o base x.sn < N) (hp : st.panic = false) :
    RcvStep base N st.k (inFr true st fr).k ∧ (inFr true st fr).panic = false := by
  by_cases hc : fr.cmd.toNat = IKCP_CMD_PUSH
  · obtain ⟨a1, a2, _, _, _⟩ := inFr_push_gen base N hN st fr h1 hc hdl.2 (hsn hc) h2 h3
    exact ⟨a1, by rcases a2 with h | h; rw [h, hp]; exact h⟩
  · obtain ⟨a1, a2, _, _, _⟩ := inFr_probe_gen base N st fr h1 (hdl.1.resolve_left hc) h2 h3
    exact ⟨a1, by rw [a2, hp]⟩

/-- a PUSH of an already delivered segment anywhere in the datagram: the ack list is not empty after the loop -/
theorem inFrs_old_push_acks (base : U32) (N : Nat) (hN : N < 2 ^ 30) (frs : List Frm) : ∀ (st : InLoop),
    st.k.snd_buf = [] → (∀ fr ∈ frs, DataLike fr ∧ (fr.cmd.toNat = IKCP_CMD_PUSH → o base fr.sn < N)) →
    o base st.k.rcv_nxt ≤ N → (∀ x ∈ st.k.rcv_buf, o base x.sn < N) → st.panic = false →
    st.k.rcv_wnd.toNat < 2 ^ 30 →
    (∃ fr ∈ frs, fr.cmd.toNat = IKCP_CMD_PUSH ∧ o base fr.sn < o base st.k.rcv_nxt) →
    (inFrs true frs st).k.acklist ≠ [] := by
  induction frs with
  | nil => intro st _ _ _ _ _ _ ⟨fr, hfr, _⟩; simp at hfr
  | cons f rest ih =>
    intro st h1 hall h2 h3 hp hw ⟨fr, hfr, hpush, hold⟩
    obtain ⟨hdl, hsn⟩ := hall f (List.mem_cons_self ..)
    obtain ⟨s1, s2⟩ := inFr_rcv_gen base N (by omega) st f h1 hdl hsn h2 h3 hp
    unfold inFrs
    rw [if_neg (by rw [s2]; simp)]
    rcases List.mem_cons.mp hfr with rfl | hfr
    · -- this frame is the old PUSH: it is inside the window, so it is listed
      have hwin : itimediff fr.sn (st.k.rcv_nxt + st.k.rcv_wnd) < 0 := by
        have e : o base (st.k.rcv_nxt + st.k.rcv_wnd) = o base st.k.rcv_nxt + st.k.rcv_wnd.toNat := by
          have := o_add base st.k.rcv_nxt st.k.rcv_wnd.toNat (by omega)
          unfold u32 at this
          rw [BitVec.ofNat_toNat, BitVec.setWidth_eq] at this
          exact this
        have := itd base fr.sn (st.k.rcv_nxt + st.k.rcv_wnd) (by omega) (by rw [e]; omega)
        rw [e] at this
        omega
      have hl : (inFr true st fr).k.acklist = st.k.acklist ++ [⟨fr.sn, fr.ts⟩] :=
        inStep_push_acklist _ _ _ _ _ _ _ _ _ _ hpush hwin
      obtain ⟨t, ht⟩ := inFrs_acklist_mono rest (inFr true st fr)
      rw [ht, hl]
      simp
    · exact ih (inFr true st f) s1.sb (fun x hx => hall x (List.mem_cons_of_mem _ hx)) s1.hi s1.bnd s2
        (by rw [s1.rw]; exact hw) ⟨fr, hfr, hpush, by have := s1.lo; omega⟩

/-- B's `Input` of the head datagram, given that the ack list is not empty after the parse loop -/
theorem dlvB_listed {p : Par} {s : State} {t0 : Nat} {frs : List Frm} {grest gba : GLink}
    (h : Cons p s ((t0, frs) :: grest) gba) (hnw : NoWrap p.base s)
    (hloop : (inFrs true frs { k := s.B }).k.acklist ≠ []) (U : Nat) (hU : U < o p.base s.B.rcv_nxt) :
    (U < o p.base (s.B.input (encFrames frs) true s.ndB (clk s.now)).k.rcv_nxt ∧
      (s.B.input (encFrames frs) true s.ndB (clk s.now)).k.acklist ≠ [] ∧
      (s.B.input (encFrames frs) true s.ndB (clk s.now)).outs = []) ∨
    (∃ g, ⟨s.now + s.D, encFrames g⟩ ∈ stamp (s.now + s.D) (s.B.input (encFrames frs) true s.ndB (clk s.now)).outs ∧
      (∀ fr ∈ g, fr.data.length ≤ mtuLimit) ∧ ∃ fr ∈ g, U < o p.base fr.una) := by
  have hnw' := hnw
  unfold NoWrap at hnw'
  have hN : o p.base s.A.snd_nxt < 2 ^ 31 := by omega
  have hd0 : ((t0, frs) : Nat × List Frm) ∈ (t0, frs) :: grest := List.mem_cons_self ..
  have hv : ∀ fr ∈ frs, FrValid s.B.conv fr := by
    intro fr hfr
    obtain ⟨e1, e2, _⟩ := h.fab (t0, frs) hd0 fr hfr
    refine ⟨by rw [e1, h.bconv], ?_, e2.2⟩
    unfold Live.validCmd
    rcases e2.1 with e | e | e
    · exact Or.inl e
    · exact Or.inr (Or.inr (Or.inl e))
    · exact Or.inr (Or.inr (Or.inr e))
  obtain ⟨r1, r2, r3, r4, r5⟩ := inFrs_rcv_gen p.base (o p.base s.A.snd_nxt) hN frs { k := s.B } h.bsb
    (fun fr hfr => ⟨(h.fab (t0, frs) hd0 fr hfr).2.1, (h.fab (t0, frs) hd0 fr hfr).2.2⟩) h.bub h.bbuf rfl
  obtain ⟨cw, inc, hcw⟩ := cwndOnAck_shape' (inFrs true frs { k := s.B }).k s.B.snd_una
  have hK2a : (cwndOnAck (inFrs true frs { k := s.B }).k s.B.snd_una).acklist ≠ [] := by rw [hcw]; exact hloop
  have hK2n : U < o p.base (cwndOnAck (inFrs true frs { k := s.B }).k s.B.snd_una).rcv_nxt := by
    rw [hcw]
    show U < o p.base (inFrs true frs { k := s.B }).k.rcv_nxt
    have : o p.base s.B.rcv_nxt ≤ o p.base (inFrs true frs { k := s.B }).k.rcv_nxt := r1.lo
    omega
  have hK2sb : (cwndOnAck (inFrs true frs { k := s.B }).k s.B.snd_una).snd_buf = [] := by rw [hcw]; exact r1.sb
  have hK2sq : (cwndOnAck (inFrs true frs { k := s.B }).k s.B.snd_una).snd_queue = [] := by
    rw [hcw]; exact r1.sq.trans h.bsq
  have hKl : Total.InvK (inFrs true frs { k := s.B }).k := by
    have := (Total.inputLoop_ok true ((encFrames frs).length / IKCP_OVERHEAD + 1) (encFrames frs) { k := s.B } rfl rfl).2.2
    have e := inSt_encFrames s.B frs true hv
    unfold inSt at e
    rw [e] at this
    exact h.bK.of_pres this
  have hKm : Total.InvK (cwndOnAck (inFrs true frs { k := s.B }).k s.B.snd_una) :=
    hKl.of_pres (Total.cwndOnAck_pres _ _)
  rcases inputB_cases s.B frs s.ndB (clk s.now) hv r2 r3 r4 r5 with hin | hin | ⟨rfl, hin⟩
  · left
    rw [hin]; exact ⟨hK2n, hK2a, rfl⟩
  · right
    rw [hin]
    generalize cwndOnAck (inFrs true frs { k := s.B }).k s.B.snd_una = K2 at hK2a hK2n hK2sb hK2sq hKm
    obtain ⟨hfr, _⟩ := flush_empty K2 false (clk s.now) hK2sb hK2sq
    obtain ⟨hpan, _, _, _⟩ := Total.flush_total hKm false (clk s.now)
    obtain ⟨gs, hgs, hfl⟩ := flush_frames K2 false (clk s.now) hpan
    rw [hfr] at hfl
    obtain ⟨fr0, rest0, hf0⟩ := List.exists_cons_of_ne_nil (ackFrsOf_ne_nil K2 hK2a)
    have hm0 : fr0 ∈ ackFrsOf K2 := by rw [hf0]; exact List.mem_cons_self ..
    have hin' : fr0 ∈ gs.flatten := by rw [hfl]; exact List.mem_append_left _ hm0
    obtain ⟨g, hg, hfg⟩ := List.mem_flatten.mp hin'
    refine ⟨g, ?_, ?_, fr0, hfg, by rw [(ackFrsOf_mem K2 fr0 hm0).2.2.1]; exact hK2n⟩
    · show _ ∈ stamp (s.now + s.D) (flush K2 false (clk s.now)).outs
      rw [hgs]
      unfold stamp
      exact List.mem_map.mpr ⟨encFrames g, List.mem_map.mpr ⟨g, hg, rfl⟩, rfl⟩
    · intro fr hfr'
      have : fr ∈ gs.flatten := List.mem_flatten.mpr ⟨g, hg, hfr'⟩
      rw [hfl] at this
      rcases List.mem_append.mp this with hx | hx
      · rw [(ackFrsOf_mem K2 fr hx).2.2.2.1]; simp
      · rw [(probeFrs_mem K2 (clk s.now) fr hx).2.2.2]; simp
  · left
    rw [hin]
    exact ⟨hU, hloop, rfl⟩

/-- what B's `Input` of the head datagram leaves of `rcv_nxt`, `rcv_wnd` and `interval` -/
theorem dlvB_keeps {p : Par} {s : State} {t0 : Nat} {frs : List Frm} {grest gba : GLink}
    (h : Cons p s ((t0, frs) :: grest) gba) (hnw : NoWrap p.base s) :
    o p.base s.B.rcv_nxt ≤ o p.base (s.B.input (encFrames frs) true s.ndB (clk s.now)).k.rcv_nxt ∧
    (s.B.input (encFrames frs) true s.ndB (clk s.now)).k.rcv_wnd = s.B.rcv_wnd ∧
    (s.B.input (encFrames frs) true s.ndB (clk s.now)).k.interval = s.B.interval := by
  have hnw' := hnw
  unfold NoWrap at hnw'
  have hN : o p.base s.A.snd_nxt < 2 ^ 31 := by omega
  have hd0 : ((t0, frs) : Nat × List Frm) ∈ (t0, frs) :: grest := List.mem_cons_self ..
  have hv : ∀ fr ∈ frs, FrValid s.B.conv fr := by
    intro fr hfr
    obtain ⟨e1, e2, _⟩ := h.fab (t0, frs) hd0 fr hfr
    refine ⟨by rw [e1, h.bconv], ?_, e2.2⟩
    unfold Live.validCmd
    rcases e2.1 with e | e | e
    · exact Or.inl e
    · exact Or.inr (Or.inr (Or.inl e))
    · exact Or.inr (Or.inr (Or.inr e))
  obtain ⟨r1, r2, r3, r4, r5⟩ := inFrs_rcv_gen p.base (o p.base s.A.snd_nxt) hN frs { k := s.B } h.bsb
    (fun fr hfr => ⟨(h.fab (t0, frs) hd0 fr hfr).2.1, (h.fab (t0, frs) hd0 fr hfr).2.2⟩) h.bub h.bbuf rfl
  obtain ⟨cw, inc, hcw⟩ := cwndOnAck_shape' (inFrs true frs { k := s.B }).k s.B.snd_una
  have k1 : o p.base s.B.rcv_nxt ≤ o p.base (cwndOnAck (inFrs true frs { k := s.B }).k s.B.snd_una).rcv_nxt := by
    rw [hcw]; exact r1.lo
  have k2 : (cwndOnAck (inFrs true frs { k := s.B }).k s.B.snd_una).rcv_wnd = s.B.rcv_wnd := by rw [hcw]; exact r1.rw
  have k3 : (cwndOnAck (inFrs true frs { k := s.B }).k s.B.snd_una).interval = s.B.interval := by rw [hcw]; exact r1.iv
  rcases inputB_cases s.B frs s.ndB (clk s.now) hv r2 r3 r4 r5 with hin | hin | ⟨rfl, hin⟩
  · rw [hin]; exact ⟨k1, k2, k3⟩
  · rw [hin]
    obtain ⟨pw, tp, st, ss, cw', inc', hk⟩ := flush_frame (cwndOnAck (inFrs true frs { k := s.B }).k s.B.snd_una) false (clk s.now)
    show o p.base s.B.rcv_nxt ≤ o p.base (flush _ false (clk s.now)).k.rcv_nxt ∧
      (flush _ false (clk s.now)).k.rcv_wnd = _ ∧ (flush _ false (clk s.now)).k.interval = _
    rw [hk]; exact ⟨k1, k2, k3⟩
  · rw [hin]; exact ⟨Nat.le_refl _, rfl, rfl⟩

/-- B flushes at least every `I` milliseconds -/
structure Tm (I : Nat) (s : State) : Prop where
  iv : s.B.interval.toNat = I
  nf : s.nfB ≤ s.now + I

theorem tm_step {p : Par} {s : State} {gab gba : GLink} (h : Cons p s gab gba) (hnw : NoWrap p.base s) (I : Nat)
    (ht : Tm I s) (ev : Ev) : Tm I (Sys.step s ev) := by
  cases ev with
  | tick =>
    rw [show Sys.step s .tick = (if quiet s then { s with now := s.now + 1 } else s) from rfl]
    split
    · exact ⟨ht.iv, by show s.nfB ≤ s.now + 1 + I; have := ht.nf; omega⟩
    · exact ht
  | send b => exact ⟨ht.iv, ht.nf⟩
  | read =>
    rw [show Sys.step s .read = (if (s.B.recv s.B.peekSize.toNat).n < 0 then s
      else { s with B := (s.B.recv s.B.peekSize.toNat).k, got := s.got ++ (s.B.recv s.B.peekSize.toNat).data }) from rfl]
    split
    · exact ht
    · have hnw' := hnw
      unfold NoWrap at hnw'
      have hs := recv_rcvStep p.base (o p.base s.A.snd_nxt) (by omega) s.B s.B.peekSize.toNat h.bsb h.bub h.bbuf
      exact ⟨by show (s.B.recv s.B.peekSize.toNat).k.interval.toNat = I; rw [hs.iv]; exact ht.iv, ht.nf⟩
  | flushA => exact ⟨ht.iv, ht.nf⟩
  | flushB =>
    obtain ⟨pw, tp, st, ss, cw, inc, hk⟩ := flush_frame s.B true (clk s.now)
    have hle := flush_interval_le s.B (clk s.now)
    rw [BitVec.le_def, ht.iv] at hle
    exact ⟨by show (s.B.flush true (clk s.now)).k.interval.toNat = I; rw [hk]; exact ht.iv,
      by show s.now + (s.B.flush true (clk s.now)).interval.toNat ≤ s.now + I; omega⟩
  | dlvB =>
    cases gab with
    | nil =>
      have : Sys.step s .dlvB = s := by simp only [Sys.step, h.hab, encL, List.map_nil]
      rw [this]; exact ht
    | cons d0 grest =>
      obtain ⟨t0, frs⟩ := d0
      have hab : s.ab = ⟨t0, encFrames frs⟩ :: encL grest := h.hab
      rw [step_dlvB_cons s _ _ hab]
      split
      · exact ⟨by show (s.B.input (encFrames frs) true s.ndB (clk s.now)).k.interval.toNat = I
                  rw [(dlvB_keeps h hnw).2.2]; exact ht.iv, ht.nf⟩
      · exact ht
  | dlvA =>
    cases hba : s.ba with
    | nil =>
      have : Sys.step s .dlvA = s := by simp only [Sys.step, hba]
      rw [this]; exact ht
    | cons d rest =>
      rw [step_dlvA_cons s _ _ hba]
      split
      · exact ⟨ht.iv, ht.nf⟩
      · exact ht

/-- a PUSH of a segment B has already delivered is on its way to B, arriving by `T2` -/
def PushOld (base : U32) (U T2 : Nat) (s : State) : Prop :=
  U < o base s.B.rcv_nxt ∧ s.now ≤ T2 ∧ ∃ d ∈ s.ab, d.arr ≤ T2 ∧ ∃ frs, d.data = encFrames frs ∧
    (∀ fr ∈ frs, fr.data.length ≤ mtuLimit) ∧
    ∃ fr ∈ frs, fr.cmd.toNat = IKCP_CMD_PUSH ∧ o base fr.sn < o base s.B.rcv_nxt

def Ret2 (p : Par) (U T2 I : Nat) (s : State) : Prop := Ret p U (T2 + I) s ∨ PushOld p.base U T2 s

theorem ret2_step {p : Par} {s : State} {gab gba : GLink} (h : Cons p s gab gba) (hsm : Small p.base s) (U T2 I : Nat)
    (ht : Tm I s) (hr : Ret2 p U T2 I s) (ev : Ev) : Ret2 p U T2 I (Sys.step s ev) := by
  have hnw := hsm.noWrap
  rcases hr with hr | ⟨q1, q2, d, hd, hda, frs, hdd, hval, fr, hfr, hpush, hold⟩
  · exact Or.inl (ret_step h hnw U (T2 + I) hr ev)
  · have keep : ∀ s' : State, (∀ x ∈ s.ab, x ∈ s'.ab) → s'.now = s.now → o p.base s.B.rcv_nxt ≤ o p.base s'.B.rcv_nxt →
        Ret2 p U T2 I s' := by
      intro s' hsub hnow hmono
      exact Or.inr ⟨by omega, by rw [hnow]; exact q2, d, hsub d hd, hda, frs, hdd, hval, fr, hfr, hpush, by omega⟩
    cases ev with
    | tick =>
      rw [show Sys.step s .tick = (if quiet s then { s with now := s.now + 1 } else s) from rfl]
      split
      · rename_i hq
        unfold quiet at hq
        simp only [Bool.and_eq_true, List.all_eq_true, decide_eq_true_eq] at hq
        have := hq.1.1.1.1 d hd
        exact Or.inr ⟨q1, by show s.now + 1 ≤ T2; omega, d, hd, hda, frs, hdd, hval, fr, hfr, hpush, hold⟩
      · exact keep s (fun x hx => hx) rfl (Nat.le_refl _)
    | send b => exact keep _ (fun x hx => hx) rfl (Nat.le_refl _)
    | read =>
      rw [show Sys.step s .read = (if (s.B.recv s.B.peekSize.toNat).n < 0 then s
        else { s with B := (s.B.recv s.B.peekSize.toNat).k, got := s.got ++ (s.B.recv s.B.peekSize.toNat).data }) from rfl]
      split
      · exact keep s (fun x hx => hx) rfl (Nat.le_refl _)
      · have hnw' := hnw
        unfold NoWrap at hnw'
        have hs := recv_rcvStep p.base (o p.base s.A.snd_nxt) (by omega) s.B s.B.peekSize.toNat h.bsb h.bub h.bbuf
        exact keep _ (fun x hx => hx) rfl hs.lo
    | flushA => exact keep _ (fun x hx => List.mem_append_left _ hx) rfl (Nat.le_refl _)
    | flushB =>
      obtain ⟨pw, tp, st, ss, cw, inc, hk⟩ := flush_frame s.B true (clk s.now)
      exact keep _ (fun x hx => hx) rfl (by show _ ≤ o p.base (s.B.flush true (clk s.now)).k.rcv_nxt; rw [hk]; exact Nat.le_refl _)
    | dlvA =>
      cases hba : s.ba with
      | nil =>
        have : Sys.step s .dlvA = s := by simp only [Sys.step, hba]
        rw [this]; exact keep s (fun x hx => hx) rfl (Nat.le_refl _)
      | cons d' rest =>
        rw [step_dlvA_cons s _ _ hba]
        split
        · exact keep _ (fun x hx => List.mem_append_left _ hx) rfl (Nat.le_refl _)
        · exact keep s (fun x hx => hx) rfl (Nat.le_refl _)
    | dlvB =>
      cases gab with
      | nil =>
        have : s.ab = [] := h.hab
        rw [this] at hd; simp at hd
      | cons d0 grest =>
        obtain ⟨t0, frs0⟩ := d0
        have hab : s.ab = ⟨t0, encFrames frs0⟩ :: encL grest := h.hab
        rw [step_dlvB_cons s _ _ hab]
        by_cases hdue : t0 ≤ s.now
        · rw [if_pos hdue]
          have hkeeps := dlvB_keeps h hnw
          rw [hab] at hd
          rcases List.mem_cons.mp hd with rfl | hd
          · -- the head is the datagram with the old PUSH
            have hd0 : ((t0, frs0) : Nat × List Frm) ∈ (t0, frs0) :: grest := List.mem_cons_self ..
            have hfe : frs = frs0 := by
              apply encFrames_inj frs frs0 hval
              · exact fun x hx => (h.fab (t0, frs0) hd0 x hx).2.1.2
              · exact hdd.symm
            subst hfe
            have hloop := inFrs_old_push_acks p.base (o p.base s.A.snd_nxt) (by have := hsm.1; omega) frs { k := s.B } h.bsb
              (fun x hx => ⟨(h.fab (t0, frs) hd0 x hx).2.1, (h.fab (t0, frs) hd0 x hx).2.2⟩) h.bub h.bbuf rfl hsm.2
              ⟨fr, hfr, hpush, hold⟩
            rcases dlvB_listed h hnw hloop U q1 with ⟨c1, c2, c3⟩ | ⟨g, c1, c2, c3⟩
            · left
              refine Or.inr (Or.inl ⟨c1, c2, ?_, ?_⟩)
              · show s.nfB ≤ T2 + I; have := ht.nf; omega
              · show s.now ≤ T2 + I; omega
            · left
              refine Or.inr (Or.inr ⟨⟨⟨s.now + s.D, encFrames g⟩, List.mem_append_right _ c1, ?_, g, rfl, c2, c3⟩, ?_⟩)
              · show s.now + s.D ≤ T2 + I + s.D; omega
              · show s.now ≤ T2 + I + s.D; omega
          · have hk1 := hkeeps.1
            exact Or.inr ⟨by show U < o p.base (s.B.input (encFrames frs0) true s.ndB (clk s.now)).k.rcv_nxt; omega,
              q2, d, hd, hda, frs, hdd, hval, fr, hfr, hpush,
              by show _ < o p.base (s.B.input (encFrames frs0) true s.ndB (clk s.now)).k.rcv_nxt; omega⟩
        · rw [if_neg hdue]
          exact keep s (fun x hx => hx) rfl (Nat.le_refl _)

/-- `Small` in every state of the run -/
def RunSmall (base : U32) : State → List Ev → Prop
  | s, [] => Small base s
  | s, ev :: rest => Small base s ∧ RunSmall base (Sys.step s ev) rest

theorem ret2_run {p : Par} (U T2 I : Nat) (evs : List Ev) : ∀ (s : State) (gab gba : GLink), Cons p s gab gba →
    RunSmall p.base s evs → Tm I s → Ret2 p U T2 I s → Ret2 p U T2 I (Sys.run s evs) := by
  induction evs with
  | nil => intro s _ _ _ _ _ hr; exact hr
  | cons ev rest ih =>
    intro s gab gba h hsm ht hr
    obtain ⟨gab', gba', hc⟩ := cons_step h hsm.1.noWrap ev
    exact ih _ gab' gba' hc hsm.2 (tm_step h hsm.1.noWrap I ht ev) (ret2_step h hsm.1 U T2 I ht hr ev)

/-- **a retransmission whose ACK was lost**: if in a consistent state a PUSH of a segment B has already
delivered is on its way to B, arriving by `T2`, and B flushes at least every `I` ms, then in every later
state of the fair system whose clock is past `T2 + I + D`, A's `snd_una` is beyond everything B had
delivered (`U` is any offset below B's `rcv_nxt`) -/
theorem ret2_done {p : Par} {s : State} {gab gba : GLink} (h : Cons p s gab gba) (U T2 I : Nat) (ht : Tm I s)
    (hr : Ret2 p U T2 I s) (evs : List Ev) (hsm : RunSmall p.base s evs) (hnow : T2 + I + s.D < (Sys.run s evs).now) :
    U < o p.base (Sys.run s evs).A.snd_una := by
  have := ret2_run U T2 I evs s gab gba h hsm ht hr
  rcases this with hR | ⟨_, hn, _⟩
  · unfold Ret at hR
    rw [run_D] at hR
    rcases hR with hG | ⟨_, _, _, hn⟩ | ⟨_, hn⟩
    · exact hG
    · omega
    · omega
  · omega

end KcpVerif.SysC
