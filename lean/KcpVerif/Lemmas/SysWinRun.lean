/-
Clean path with the window precondition instead of the room hypothesis (C18 Tier 2): every event
preserves `Clean ∧ Win`; runs; the start state.
-/
import KcpVerif.Lemmas.SysWinStep

namespace KcpVerif.SysC
open KcpVerif KcpVerif.Gen KcpVerif.Kcp KcpVerif.Live KcpVerif.Wire KcpVerif.SysW KcpVerif.Sys

theorem input_empty (k : Kcp) (nd : Bool) (now : U32) : input k (encFrames []) true nd now = ⟨k, -1, [], false⟩ := by
  rw [Live.input_eq, if_pos (by simp [encFrames, IKCP_OVERHEAD])]

/-- **every event preserves the clean-path invariant together with the window bookkeeping**; the only
run hypothesis left is `NoWrap` on the state the event starts from -/
theorem cleanwin_step {p : Par} {s : State} {gab gba : GLink} (h : Clean p s gab gba) (w : Win p s gba)
    (hnw : NoWrap p.base s) (ev : Ev) :
    ∃ gab' gba', Clean p (Sys.step s ev) gab' gba' ∧ Win p (Sys.step s ev) gba' := by
  cases ev with
  | tick =>
    show ∃ gab' gba', Clean p (if quiet s then { s with now := s.now + 1 } else s) gab' gba' ∧
      Win p (if quiet s then { s with now := s.now + 1 } else s) gba'
    split
    · rename_i hq; exact ⟨gab, gba, clean_tick h hq, win_tick w⟩
    · exact ⟨gab, gba, h, w⟩
  | send b => exact ⟨gab, gba, clean_send h b, win_send w b⟩
  | read => exact ⟨gab, gba, clean_read h, win_read h w⟩
  | flushA =>
    obtain ⟨gab', hc, _, _⟩ := clean_flushA h hnw (s.now + (s.A.flush true (clk s.now)).interval.toNat)
    exact ⟨gab', gba, hc, win_flushA h w hnw _⟩
  | flushB =>
    have hle := flush_interval_le s.B (clk s.now)
    rw [BitVec.le_def, h.bint] at hle
    obtain ⟨gba', hc, hw⟩ := cleanwin_flushB h w true (s.now + (s.B.flush true (clk s.now)).interval.toNat)
      ⟨by omega, by omega⟩
    exact ⟨gab, gba', hc, hw⟩
  | dlvB =>
    cases gab with
    | nil =>
      have : Sys.step s .dlvB = s := by simp only [Sys.step, h.hab, encL, List.map_nil]
      rw [this]; exact ⟨[], gba, h, w⟩
    | cons d0 grest =>
      obtain ⟨t0, frs⟩ := d0
      have hab : s.ab = ⟨t0, encFrames frs⟩ :: encL grest := h.hab
      rw [step_dlvB_cons s _ _ hab]
      split
      · rename_i hdue
        obtain ⟨hv, hp, hr, hf, hu, hclean⟩ := clean_inB h hdue (w.room h) hnw
        have hwin := win_inB h w hnw
        rcases inputB_cases s.B frs s.ndB (clk s.now) hv hp hr hf hu with hin | hin | ⟨rfl, hin⟩
        · simp only [hin, stamp, List.map_nil, List.append_nil, Bool.or_false]
          exact ⟨grest, gba, hclean, hwin⟩
        · simp only [hin]
          obtain ⟨gba', hc, hw⟩ := cleanwin_flushB hclean hwin false s.nfB h.tnf
          exact ⟨grest, gba', hc, hw⟩
        · simp only [hin, stamp, List.map_nil, List.append_nil, Bool.or_false]
          have hc := hclean
          have hw := hwin
          rw [show cwndOnAck (inFrs true [] { k := s.B }).k s.B.snd_una = s.B from cwndOnAck_self s.B] at hc hw
          exact ⟨grest, gba, hc, hw⟩
      · exact ⟨_, gba, h, w⟩
  | dlvA =>
    cases gba with
    | nil =>
      have : Sys.step s .dlvA = s := by simp only [Sys.step, h.hba, encL, List.map_nil]
      rw [this]; exact ⟨gab, [], h, w⟩
    | cons d0 grest =>
      obtain ⟨t0, frs⟩ := d0
      have hba : s.ba = ⟨t0, encFrames frs⟩ :: encL grest := h.hba
      rw [step_dlvA_cons s _ _ hba]
      split
      · obtain ⟨hv, hp, hr, _, _, _, hclean0⟩ := clean_inA h hnw (inFrs true frs { k := s.A }).k (Or.inl rfl)
        by_cases hne : frs = []
        · subst hne
          simp only [input_empty, stamp, List.map_nil, List.append_nil, Bool.or_false]
          have hc := hclean0
          rw [show cwndOnAck (inFrs true [] { k := s.A }).k s.A.snd_una = s.A from cwndOnAck_self s.A] at hc
          exact ⟨gab, grest, hc, win_dropA w⟩
        · obtain ⟨k1, hk1, himp⟩ := inputA_cases s.A frs s.ndA (clk s.now) hv hp hr
          obtain ⟨_, _, _, hal, hnx, hsq, hclean⟩ := clean_inA h hnw k1 hk1
          have hwin := win_inA h w hnw k1 hk1 hne
          rcases himp hal hclean.aK with hin | hin | ⟨hnil, _⟩
          · simp only [hin, stamp, List.map_nil, List.append_nil, Bool.or_false]
            exact ⟨gab, grest, hclean, hwin⟩
          · simp only [hin]
            have hnw1 : NoWrap p.base { s with A := cwndOnAck k1 s.A.snd_una, ba := encL grest } := by
              unfold NoWrap at hnw ⊢
              show o p.base (cwndOnAck k1 s.A.snd_una).snd_nxt + (cwndOnAck k1 s.A.snd_una).snd_queue.length < _
              rw [hnx, hsq]; exact hnw
            obtain ⟨gab', hc, _, _⟩ := clean_flushA hclean hnw1 s.nfA
            exact ⟨gab', grest, hc, win_flushA hclean hwin hnw1 s.nfA⟩
          · exact absurd hnil hne
      · exact ⟨gab, _, h, w⟩

/-- `NoWrap` in every state of the run (including the last) -/
def RunNoWrap (base : U32) : State → List Ev → Prop
  | s, [] => NoWrap base s
  | s, ev :: rest => NoWrap base s ∧ RunNoWrap base (Sys.step s ev) rest

instance runNoWrapDec (base : U32) : (s : State) → (evs : List Ev) → Decidable (RunNoWrap base s evs)
  | s, [] => by unfold RunNoWrap; infer_instance
  | s, ev :: rest => by
    unfold RunNoWrap
    have := runNoWrapDec base (Sys.step s ev) rest
    infer_instance

theorem cleanwin_run {p : Par} (evs : List Ev) : ∀ (s : State) (gab gba : GLink), Clean p s gab gba → Win p s gba →
    RunNoWrap p.base s evs →
    ∃ gab' gba', Clean p (Sys.run s evs) gab' gba' ∧ Win p (Sys.run s evs) gba' ∧ NoWrap p.base (Sys.run s evs) := by
  induction evs with
  | nil => intro s gab gba h w hr; exact ⟨gab, gba, h, w, hr⟩
  | cons ev rest ih =>
    intro s gab gba h w hr
    obtain ⟨gab', gba', hc, hw⟩ := cleanwin_step h w hr.1 ev
    exact ih _ gab' gba' hc hw hr.2

/-- the window precondition of the property, with the rest of the start conditions it needs: A has
nothing outstanding, B's receive queue is empty, and B's receive window is at least
`min(snd_wnd, rmt_wnd)` of A — `rmt_wnd` being the 32 segments (`IKCP_WND_RCV`) a sender assumes
before it is told -/
def WinInit (A B : Kcp) : Prop :=
  A.snd_una = A.snd_nxt ∧ B.rcv_queue = [] ∧ min A.snd_wnd.toNat A.rmt_wnd.toNat ≤ B.rcv_wnd.toNat

instance (A B : Kcp) : Decidable (WinInit A B) := by unfold WinInit; infer_instance

theorem win_init (A B : Kcp) (D t0 : Nat) (ndA ndB : Bool) (h : CleanInit A B D) (hw : WinInit A B) :
    Win (parOf A B) (Sys.init A B D t0 ndA ndB) [] := by
  obtain ⟨h1, h2, h3, h4, h5, h6, h7, h8, h9, h10, h11, h12, h13, h14, h15⟩ := h
  obtain ⟨w1, w2, w3⟩ := hw
  have z1 : o A.snd_nxt A.snd_nxt = 0 := o_self _
  constructor
  · show Contig A.snd_nxt A
    unfold Contig
    rw [h5, w1, z1]; simp
  · show o A.snd_nxt A.snd_una ≤ o A.snd_nxt B.rcv_nxt
    rw [w1, h11]; exact Nat.le_refl _
  · show o A.snd_nxt A.snd_una + min A.snd_wnd.toNat A.rmt_wnd.toNat + B.rcv_queue.length ≤
      o A.snd_nxt B.rcv_nxt + B.rcv_wnd.toNat
    rw [w1, h11, z1, w2]; simp; exact w3
  · show o A.snd_nxt A.snd_nxt + B.rcv_queue.length ≤ o A.snd_nxt B.rcv_nxt + B.rcv_wnd.toNat
    rw [h11, w2]; simp
  · intro d hd; simp at hd
  · intro d hd; simp at hd
  · exact List.Pairwise.nil

end KcpVerif.SysC
