/-
C15 (ownership, protocol core): the operations of the instrumented core as a transition system,
erasure for `Input` / `Update`, and the ownership invariant `OwnInv` for every operation with
arbitrary arguments.  Core Lean only.
-/
import KcpVerif.Lemmas.KcpOwnSync

namespace KcpVerif.Own
open KcpVerif KcpVerif.Gen KcpVerif.Kcp KcpVerif.Pool

/-! ### erasure for Input and Update -/

theorem inputO_k (o : KcpO) (data : Bytes) (regular ackNoDelay : Bool) (now : U32) :
    (inputO o data regular ackNoDelay now).o.k = (o.k.input data regular ackNoDelay now).k := by
  rw [input_eq]
  unfold inputO
  simp only []
  by_cases c0 : data.length < IKCP_OVERHEAD
  · rw [if_pos c0, if_pos c0]
  rw [if_neg c0, if_neg c0]
  rw [inputLoopO_m]
  unfold inputTail
  generalize inputLoop regular (data.length / IKCP_OVERHEAD + 1) data { k := o.k } = m
  by_cases c1 : m.panic = true
  · rw [if_pos c1, if_pos c1]
  rw [if_neg c1, if_neg c1]
  by_cases c2 : m.ret < 0
  · rw [if_pos c2, if_pos c2]
  rw [if_neg c2, if_neg c2]
  unfold inputFin
  by_cases c3 : m.flushSeg = true
  · rw [if_pos c3, if_pos c3]; rfl
  rw [if_neg c3, if_neg c3]
  split
  · rfl
  · split <;> rfl

/-- the return value, the output datagrams and the panic flag are the model's as well -/
theorem inputO_obs (o : KcpO) (data : Bytes) (regular ackNoDelay : Bool) (now : U32) :
    (inputO o data regular ackNoDelay now).ret = (o.k.input data regular ackNoDelay now).ret ∧
    (inputO o data regular ackNoDelay now).outs = (o.k.input data regular ackNoDelay now).outs ∧
    (inputO o data regular ackNoDelay now).panic = (o.k.input data regular ackNoDelay now).panic := by
  rw [input_eq]
  unfold inputO
  simp only []
  by_cases c0 : data.length < IKCP_OVERHEAD
  · rw [if_pos c0, if_pos c0]; exact ⟨rfl, rfl, rfl⟩
  rw [if_neg c0, if_neg c0]
  rw [inputLoopO_m]
  unfold inputTail
  generalize inputLoop regular (data.length / IKCP_OVERHEAD + 1) data { k := o.k } = m
  by_cases c1 : m.panic = true
  · rw [if_pos c1, if_pos c1]; exact ⟨rfl, rfl, rfl⟩
  rw [if_neg c1, if_neg c1]
  by_cases c2 : m.ret < 0
  · rw [if_pos c2, if_pos c2]; exact ⟨rfl, rfl, rfl⟩
  rw [if_neg c2, if_neg c2]
  unfold inputFin
  by_cases c3 : m.flushSeg = true
  · rw [if_pos c3, if_pos c3]; exact ⟨rfl, rfl, rfl⟩
  rw [if_neg c3, if_neg c3]
  split
  · exact ⟨rfl, rfl, rfl⟩
  · split <;> exact ⟨rfl, rfl, rfl⟩

theorem inputO_sync {o : KcpO} (h : Sync o) (data : Bytes) (regular ackNoDelay : Bool) (now : U32) :
    Sync (inputO o data regular ackNoDelay now).o := by
  unfold inputO
  simp only []
  split
  · exact h
  have hl : SyncL (inputLoopO regular (data.length / IKCP_OVERHEAD + 1) data
      { m := { k := o.k }, sb := o.sb, rb := o.rb, rq := o.rq, gh := o.gh }) :=
    inputLoopO_sync regular _ data ⟨h.sb, h.rb, h.rq⟩
  have hq : (inputLoopO regular (data.length / IKCP_OVERHEAD + 1) data
      { m := { k := o.k }, sb := o.sb, rb := o.rb, rq := o.rq, gh := o.gh }).m.k.snd_queue = er o.sq := by
    rw [inputLoopO_m, inputLoop_snd_queue]; exact h.sq
  generalize inputLoopO regular (data.length / IKCP_OVERHEAD + 1) data
      { m := { k := o.k }, sb := o.sb, rb := o.rb, rq := o.rq, gh := o.gh } = st at hl hq
  have h1 : Sync { k := st.m.k, sq := o.sq, sb := st.sb, rb := st.rb, rq := st.rq, gh := st.gh } :=
    ⟨hq, hl.sb, hl.rb, hl.rq⟩
  split; · exact h1
  split; · exact h1
  obtain ⟨a1, a2, a3, a4⟩ := inputK1_queues st.m regular now
  obtain ⟨b1, b2, b3, b4⟩ := cwndOnAck_queues (inputK1 st.m regular now) o.k.snd_una
  have h2 : Sync { k := cwndOnAck (inputK1 st.m regular now) o.k.snd_una, sq := o.sq, sb := st.sb, rb := st.rb,
                   rq := st.rq, gh := st.gh } :=
    h1.setK (b1.trans a1) (b2.trans a2) (b3.trans a3) (b4.trans a4)
  split; · exact flushO_sync h2 _ _
  split; · exact flushO_sync h2 _ _
  split; · exact flushO_sync h2 _ _
  exact h2

theorem updateO_k (o : KcpO) (now : U32) : (updateO o now).o.k = (o.k.update now).k := by
  rw [update_eq]
  unfold updateO
  split <;> rfl

theorem updateO_sync {o : KcpO} (h : Sync o) (now : U32) : Sync (updateO o now).o := by
  obtain ⟨u, t, hk⟩ := updK2_shape o.k now
  unfold updateO
  split
  · apply flushO_sync
    apply h.setK <;> (rw [hk])
  · apply h.setK <;> (rw [hk])

/-! ### the ownership invariant -/

/-- number of queue positions of the core that hold buffer `id` -/
def held (o : KcpO) (id : Nat) : Nat := cnt id o.sq + cnt id o.sb + cnt id o.rb + cnt id o.rq

/-- **The ownership invariant**, with a frame: `F id` counts the holders of buffer `id` outside this
core (other cores, FEC decoders, callers that share the pool; `F = 0` for a core on its own).
The instrumented queues are the model's queues (`sync`); the event log so far is accepted by the
sanitizer, every buffer the sanitizer considers owned is held at exactly one position — of
`snd_queue ++ snd_buf ++ rcv_buf ++ rcv_queue` of this core or outside (or was dropped next to a
panic) — no other buffer, in particular no recycled one, is held anywhere, and ids handed out
later are fresh (`w`). -/
structure OwnInvF (F : Nat → Nat) (o : KcpO) : Prop where
  sync : Sync o
  w    : W o.gh (fun id => held o id + F id)

/-- the invariant of a core that has the pool for itself -/
abbrev OwnInv (o : KcpO) : Prop := OwnInvF (fun _ => 0) o

theorem OwnInv.new (conv : U32) : OwnInv (KcpO.new conv) :=
  ⟨Sync.new conv, W.init.congr (fun _ => rfl)⟩

/-- an operation on the scalar fields only -/
theorem OwnInvF.setK {F : Nat → Nat} {o : KcpO} (h : OwnInvF F o) {k' : Kcp} (h1 : k'.snd_queue = o.k.snd_queue)
    (h2 : k'.snd_buf = o.k.snd_buf) (h3 : k'.rcv_buf = o.k.rcv_buf) (h4 : k'.rcv_queue = o.k.rcv_queue) :
    OwnInvF F { o with k := k' } :=
  ⟨h.sync.setK h1 h2 h3 h4, h.w⟩

theorem recvO_inv {F : Nat → Nat} {o : KcpO} (h : OwnInvF F o) (n : Nat) : OwnInvF F (recvO o n).o := by
  refine ⟨recvO_sync h.sync n, ?_⟩
  unfold recvO
  simp only []
  split
  · exact h.w
  · split
    · exact h.w
    · have h1 : W o.gh (fun id => cnt id o.rq + (cnt id o.sq + cnt id o.sb + cnt id o.rb + F id)) :=
        h.w.congr (fun id => by unfold held; omega)
      have h2 := popMsgO_W _ _ _ h1
      refine h2.congr (fun id => ?_)
      have := moveLoopO_cnt id o.k.rcv_wnd.toNat o.rb (popMsgO o.rq o.gh).rest o.k.rcv_nxt
      unfold held
      simp only []
      omega

theorem sendO_inv {F : Nat → Nat} {o : KcpO} (h : OwnInvF F o) (b : Bytes) : OwnInvF F (sendO o b).o := by
  refine ⟨sendO_sync h.sync b, ?_⟩
  have h0 : W o.gh (fun id => cnt id o.sq + (cnt id o.sb + cnt id o.rb + cnt id o.rq + F id)) :=
    h.w.congr (fun id => by unfold held; omega)
  have h1 : W (if sendExt o.k b > 0 then o.gh.use (lastBuf o.sq) else o.gh)
      (fun id => cnt id (if sendExt o.k b > 0 then appendLastO o.sq (b.take (sendExt o.k b)) else o.sq) +
        (cnt id o.sb + cnt id o.rb + cnt id o.rq + F id)) := by
    split
    · exact h0.use_last.congr (fun id => by rw [cnt_appendLastO])
    · exact h0
  unfold sendO
  simp only []
  split; · exact h.w
  split; · exact h.w
  split; · exact h.w
  split; · exact h1.congr (fun id => by unfold held; simp only []; omega)
  split; · exact h1.getLost.congr (fun id => by unfold held; simp only []; omega)
  exact (mkSegsO_W _ _ _ _ _ _ h1).congr (fun id => by unfold held; simp only [cnt_append]; omega)

theorem flushO_inv {F : Nat → Nat} {o : KcpO} (h : OwnInvF F o) (full : Bool) (now : U32) :
    OwnInvF F (flushO o full now).o := by
  refine ⟨flushO_sync h.sync full now, ?_⟩
  obtain ⟨l1, l2⟩ := flushO_lens h.sync full now
  have hc : ∀ id, cnt id (reattach (flushAd o.k now).buf (o.sb ++ o.sq.take (flushAd o.k now).count)) +
      (cnt id (o.sq.drop (flushAd o.k now).count) + cnt id o.rb + cnt id o.rq + F id) = held o id + F id := by
    intro id
    rw [cnt_reattach id _ _ l1, cnt_append]
    have := cnt_take_drop id o.sq (flushAd o.k now).count
    unfold held; omega
  have h0 : W o.gh (fun id => cnt id (reattach (flushAd o.k now).buf (o.sb ++ o.sq.take (flushAd o.k now).count)) +
      (cnt id (o.sq.drop (flushAd o.k now).count) + cnt id o.rb + cnt id o.rq + F id)) := h.w.congr hc
  unfold flushO
  simp only []
  split
  · exact (useSent_W _ _ _ _ _ _ h0).congr
      (fun id => by unfold held; simp only []; rw [cnt_reattach id _ _ l2]; omega)
  · exact h0.congr (fun id => by unfold held; simp only []; rw [cnt_reattach id _ _ l2]; omega)

/-! #### the parse loop of Input -/

theorem inBodyO_W (regular : Bool) (data : Bytes) {st : InLoopO} (F : Nat → Nat) (hs : SyncL st)
    (h : W st.gh (fun id => cnt id st.sb + cnt id st.rb + cnt id st.rq + F id)) :
    W (inBodyO regular data st).gh
      (fun id => cnt id (inBodyO regular data st).sb + cnt id (inBodyO regular data st).rb +
        cnt id (inBodyO regular data st).rq + F id) := by
  have hu : W (dropAckedO (unaO (rd32 data 16) st.sb st.gh).l (unaO (rd32 data 16) st.sb st.gh).g).g
      (fun id => cnt id (dropAckedO (unaO (rd32 data 16) st.sb st.gh).l (unaO (rd32 data 16) st.sb st.gh).g).l +
        (cnt id st.rb + cnt id st.rq + F id)) :=
    dropAckedO_W _ _ _ (unaO_W _ _ _ _ (h.congr (fun id => by omega)))
  have hue := unaShrinkO_er regular (rd16 data 6) (rd32 data 16) hs.sb
  unfold inBodyO
  simp only []
  generalize dropAckedO (unaO (rd32 data 16) st.sb st.gh).l (unaO (rd32 data 16) st.sb st.gh).g = u at hu hue ⊢
  split
  · -- ACK
    rename_i hc
    have hb : inBody regular data st.m = inAck (inSt1 regular (rd16 data 6) (rd32 data 16) st.m) (rd32 data 12) (rd32 data 8) := by
      unfold inBody; simp only []; rw [if_pos hc]
    obtain ⟨_, _, _, a4⟩ := inAck_queues (inSt1 regular (rd16 data 6) (rd32 data 16) st.m) (rd32 data 12) (rd32 data 8)
    have ha0 : W (if itimediff (rd32 data 12) (inSt1 regular (rd16 data 6) (rd32 data 16) st.m).k.snd_una < 0 ∨
          itimediff (rd32 data 12) (inSt1 regular (rd16 data 6) (rd32 data 16) st.m).k.snd_nxt ≥ 0
          then u else ackLoopO (rd32 data 12) u.l u.g).g
        (fun id => cnt id (if itimediff (rd32 data 12) (inSt1 regular (rd16 data 6) (rd32 data 16) st.m).k.snd_una < 0 ∨
          itimediff (rd32 data 12) (inSt1 regular (rd16 data 6) (rd32 data 16) st.m).k.snd_nxt ≥ 0
          then u else ackLoopO (rd32 data 12) u.l u.g).l + (cnt id st.rb + cnt id st.rq + F id)) := by
      split
      · exact hu
      · exact ackLoopO_W (rd32 data 12) _ _ _ hu
    have hl := congrArg List.length (ackO_er (inSt1 regular (rd16 data 6) (rd32 data 16) st.m).k (rd32 data 12) u hue)
    rw [er_length] at hl
    refine (dropAckedO_W _ _ _ ha0).congr (fun id => ?_)
    simp only []
    rw [cnt_reattach id _ _ (by rw [hb, a4, hl])]
    omega
  · split
    · split
      · have hd := parseDataO_W (inSt1 regular (rd16 data 6) (rd32 data 16) st.m).k
          { conv := rd32 data 0, cmd := BitVec.ofNat 8 (byteAt data 4), frg := BitVec.ofNat 8 (byteAt data 5), wnd := rd16 data 6,
            ts := rd32 data 8, sn := rd32 data 12, una := rd32 data 16,
            data := (data.drop IKCP_OVERHEAD).take (rd32 data 20).toNat }
          st.rb st.rq u.g
          (fun id => cnt id u.l + F id) (hu.congr (fun id => by omega))
        exact hd.congr (fun id => by simp only []; omega)
      · exact hu.congr (fun id => by simp only []; omega)
    · exact hu.congr (fun id => by simp only []; omega)

theorem inputLoopO_W (regular : Bool) (fuel : Nat) (data : Bytes) {st : InLoopO} (F : Nat → Nat) (hs : SyncL st)
    (h : W st.gh (fun id => cnt id st.sb + cnt id st.rb + cnt id st.rq + F id)) :
    W (inputLoopO regular fuel data st).gh
      (fun id => cnt id (inputLoopO regular fuel data st).sb + cnt id (inputLoopO regular fuel data st).rb +
        cnt id (inputLoopO regular fuel data st).rq + F id) := by
  induction fuel generalizing data st with
  | zero => exact h
  | succ fuel ih =>
    unfold inputLoopO
    split; · exact h
    split; · exact h
    split; · exact h
    split; · exact h
    split
    · exact inBodyO_W regular data F hs h
    · exact ih _ (inBodyO_sync regular data hs) (inBodyO_W regular data F hs h)

theorem inputO_inv {F : Nat → Nat} {o : KcpO} (h : OwnInvF F o) (data : Bytes) (regular ackNoDelay : Bool) (now : U32) :
    OwnInvF F (inputO o data regular ackNoDelay now).o := by
  unfold inputO
  simp only []
  split
  · exact h
  have hl : SyncL (inputLoopO regular (data.length / IKCP_OVERHEAD + 1) data
      { m := { k := o.k }, sb := o.sb, rb := o.rb, rq := o.rq, gh := o.gh }) :=
    inputLoopO_sync regular _ data ⟨h.sync.sb, h.sync.rb, h.sync.rq⟩
  have hq : (inputLoopO regular (data.length / IKCP_OVERHEAD + 1) data
      { m := { k := o.k }, sb := o.sb, rb := o.rb, rq := o.rq, gh := o.gh }).m.k.snd_queue = er o.sq := by
    rw [inputLoopO_m, inputLoop_snd_queue]; exact h.sync.sq
  have hw := inputLoopO_W regular (data.length / IKCP_OVERHEAD + 1) data
    (st := { m := { k := o.k }, sb := o.sb, rb := o.rb, rq := o.rq, gh := o.gh }) (fun id => cnt id o.sq + F id)
    ⟨h.sync.sb, h.sync.rb, h.sync.rq⟩ (h.w.congr (fun id => by unfold held; simp only []; omega))
  generalize inputLoopO regular (data.length / IKCP_OVERHEAD + 1) data
      { m := { k := o.k }, sb := o.sb, rb := o.rb, rq := o.rq, gh := o.gh } = st at hl hq hw
  have h1 : OwnInvF F { k := st.m.k, sq := o.sq, sb := st.sb, rb := st.rb, rq := st.rq, gh := st.gh } :=
    ⟨⟨hq, hl.sb, hl.rb, hl.rq⟩, hw.congr (fun id => by unfold held; simp only []; omega)⟩
  split; · exact h1
  split; · exact h1
  obtain ⟨a1, a2, a3, a4⟩ := inputK1_queues st.m regular now
  obtain ⟨b1, b2, b3, b4⟩ := cwndOnAck_queues (inputK1 st.m regular now) o.k.snd_una
  have h2 : OwnInvF F { k := cwndOnAck (inputK1 st.m regular now) o.k.snd_una, sq := o.sq, sb := st.sb, rb := st.rb,
                         rq := st.rq, gh := st.gh } :=
    h1.setK (b1.trans a1) (b2.trans a2) (b3.trans a3) (b4.trans a4)
  split; · exact flushO_inv h2 _ _
  split; · exact flushO_inv h2 _ _
  split; · exact flushO_inv h2 _ _
  exact h2

theorem updateO_inv {F : Nat → Nat} {o : KcpO} (h : OwnInvF F o) (now : U32) : OwnInvF F (updateO o now).o := by
  obtain ⟨u, t, hk⟩ := updK2_shape o.k now
  unfold updateO
  split
  · apply flushO_inv
    apply h.setK <;> (rw [hk])
  · apply h.setK <;> (rw [hk])

end KcpVerif.Own
