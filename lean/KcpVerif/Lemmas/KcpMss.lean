/-
Helper lemmas for C10 (core half): the MTU invariant `InvMss` is inductive over every operation of the
protocol core, with arbitrary arguments, and `setMtu` accepts exactly the values it can honour.
Core Lean only.
-/
import KcpVerif.Lemmas.KcpFlush

namespace KcpVerif.Lemmas.KcpMss
open KcpVerif KcpVerif.Gen KcpVerif.Kcp KcpVerif.Lemmas.KcpFlush

/-- exactly what `InvMss` reads of a core -/
def mssView (k : Kcp) : U32 × U32 × Nat × List Seg × List Seg := (k.mtu, k.mss, k.bufLen, k.snd_queue, k.snd_buf)

/-- `k` has the MTU configuration and send queue of `a`, and its `snd_buf` is no larger segment-wise -/
structure Keep (a k : Kcp) : Prop where
  mtu   : k.mtu = a.mtu
  mss   : k.mss = a.mss
  buf   : k.bufLen = a.bufLen
  queue : k.snd_queue = a.snd_queue
  sbuf  : ∀ n, SegsLe n a.snd_buf → SegsLe n k.snd_buf

theorem Keep.refl (a : Kcp) : Keep a a := ⟨rfl, rfl, rfl, rfl, fun _ h => h⟩

theorem Keep.of_view {a k k' : Kcp} (h : Keep a k) (hv : mssView k' = mssView k) : Keep a k' := by
  simp only [mssView, Prod.mk.injEq] at hv
  obtain ⟨h1, h2, h3, h4, h5⟩ := hv
  exact ⟨h1.trans h.mtu, h2.trans h.mss, h3.trans h.buf, h4.trans h.queue, fun n hn => by rw [h5]; exact h.sbuf n hn⟩

theorem Keep.of_buf {a k k' : Kcp} (h : Keep a k) (h1 : k'.mtu = k.mtu) (h2 : k'.mss = k.mss)
    (h3 : k'.bufLen = k.bufLen) (h4 : k'.snd_queue = k.snd_queue)
    (h5 : ∀ n, SegsLe n k.snd_buf → SegsLe n k'.snd_buf) : Keep a k' :=
  ⟨h1.trans h.mtu, h2.trans h.mss, h3.trans h.buf, h4.trans h.queue, fun n hn => h5 n (h.sbuf n hn)⟩

theorem Keep.inv {a k : Kcp} (h : Keep a k) (hi : InvMss a) : InvMss k :=
  hi.of_cfg h.mtu h.mss h.buf (by rw [h.queue]; exact hi.segs_queue) (h.sbuf _ hi.segs_buf)

theorem inv_of_view {k k' : Kcp} (h : InvMss k) (hv : mssView k' = mssView k) : InvMss k' :=
  ((Keep.refl k).of_view hv).inv h

/-! ### Send -/

theorem mkSegs_le (mss : Nat) (stream : Bool) (c : Nat) (buf : Bytes) : SegsLe mss (mkSegs mss stream c buf) := by
  induction c generalizing buf with
  | zero => intro s hs; cases hs
  | succ c ih =>
    unfold mkSegs
    intro s hs
    rcases List.mem_cons.mp hs with hs | hs
    · subst hs; exact List.length_take_le _ _
    · exact ih _ s hs

theorem setLast_le {n : Nat} {l : List Seg} {s : Seg} (hl : SegsLe n l) (hs : s.data.length ≤ n) :
    SegsLe n (setLast l s) := by
  intro x hx
  unfold setLast at hx
  rcases List.mem_append.mp hx with hx | hx
  · exact hl x (List.dropLast_subset l hx)
  · have : x = s := by simpa using hx
    subst this; exact hs

theorem mem_of_getLast? {l : List Seg} {s : Seg} (h : l.getLast? = some s) : s ∈ l := by
  obtain ⟨ys, rfl⟩ := List.getLast?_eq_some_iff.mp h
  simp

theorem send_ok (k : Kcp) (b : Bytes) (h : InvMss k) :
    (send k b).panic = false ∧ InvMss (send k b).k ∧ (send k b).k.mtu = k.mtu := by
  unfold send
  split
  · exact ⟨rfl, h, rfl⟩
  extract_lets mss ext buf count0 panic1 q1 k1 count
  have hlim : mss ≤ mtuLimit := h.mss_le_limit
  have hkey : ∀ s, k.snd_queue.getLast? = some s → ext = 0 ∨ s.data.length + ext ≤ mss := by
    intro s hs
    simp only [ext, hs]
    split
    · split
      · right; omega
      · left; rfl
    · left; rfl
  have hp1 : panic1 = false := by
    simp only [panic1]
    split
    · rename_i s hs
      have := hkey s hs
      simp only [decide_eq_false_iff_not]
      omega
    · rfl
  have hq1 : SegsLe mss q1 := by
    simp only [q1]
    split
    · rename_i hpos
      split
      · rename_i s hs
        apply setLast_le h.segs_queue
        have := hkey s hs
        simp only [List.length_append, List.length_take]
        omega
      · exact h.segs_queue
    · exact h.segs_queue
  have hk1 : InvMss k1 := h.of_cfg rfl rfl rfl hq1 h.segs_buf
  rw [hp1]
  simp only [Bool.false_eq_true, ↓reduceIte]
  split
  · exact ⟨rfl, h, rfl⟩
  split
  · exact ⟨rfl, hk1, rfl⟩
  split
  · rename_i hbad
    have : min buf.length mss ≤ mss := Nat.min_le_right _ _
    omega
  · refine ⟨rfl, h.of_cfg rfl rfl rfl ?_ h.segs_buf, rfl⟩
    intro s hs
    rcases List.mem_append.mp hs with hs | hs
    · exact hq1 s hs
    · exact mkSegs_le _ _ _ _ s hs

/-! ### Recv and the setters: they do not touch anything the invariant reads -/

theorem recv_view (k : Kcp) (n : Nat) : mssView (recv k n).k = mssView k := by
  unfold recv
  simp only []
  repeat' split
  all_goals rfl

theorem noDelay_view (k : Kcp) (a b c d : Int) : mssView (noDelay k a b c d) = mssView k := by
  unfold noDelay
  simp only []
  repeat' split
  all_goals rfl

theorem wndSize_view (k : Kcp) (a b : Int) : mssView (wndSize k a b) = mssView k := by
  unfold wndSize
  simp only []
  repeat' split
  all_goals rfl

/-! ### SetMtu -/

/-- the exact acceptance condition of `SetMtu` -/
def MtuAcceptable (k : Kcp) (m : Int) : Prop :=
  (IKCP_OVERHEAD : Int) < m ∧ m ≤ (mtuLimit : Int) + (IKCP_OVERHEAD : Int)
    ∧ ∀ s ∈ k.snd_queue ++ k.snd_buf, (s.data.length : Int) ≤ m - (IKCP_OVERHEAD : Int)

theorem any_gt_false_iff (l : List Seg) (b : Int) :
    (l.any (fun s => decide ((s.data.length : Int) > b)) = false) ↔ ∀ s ∈ l, (s.data.length : Int) ≤ b := by
  rw [List.any_eq_false]
  constructor
  · intro h s hs; have := h s hs; simp only [decide_eq_true_eq] at this; omega
  · intro h s hs; have := h s hs; simp only [decide_eq_true_eq]; omega

/-- an acceptable value is installed … -/
theorem setMtu_of_acceptable (k : Kcp) (m : Int) (h : MtuAcceptable k m) :
    setMtu k m = ({ k with mtu := BitVec.ofInt 32 m, mss := BitVec.ofInt 32 m - u32 IKCP_OVERHEAD,
                           bufLen := (m.toNat + IKCP_OVERHEAD) * 3 }, 0) := by
  obtain ⟨h1, h2, h3⟩ := h
  have hq := (any_gt_false_iff k.snd_queue (m - (IKCP_OVERHEAD : Int))).mpr
    (fun s hs => h3 s (List.mem_append_left _ hs))
  have hb := (any_gt_false_iff k.snd_buf (m - (IKCP_OVERHEAD : Int))).mpr
    (fun s hs => h3 s (List.mem_append_right _ hs))
  unfold setMtu
  rw [if_neg (by omega), if_neg (by omega), hq, hb]
  rfl

/-- … and any other value is refused and changes nothing -/
theorem setMtu_of_not_acceptable (k : Kcp) (m : Int) (h : ¬ MtuAcceptable k m) : setMtu k m = (k, -1) := by
  unfold setMtu
  split
  · rfl
  split
  · rfl
  split
  · rfl
  split
  · rfl
  · exfalso
    apply h
    rename_i h1 h2 h3 h4
    refine ⟨by omega, by omega, ?_⟩
    intro s hs
    rcases List.mem_append.mp hs with hs | hs
    · exact (any_gt_false_iff _ _).mp (by simpa using h3) s hs
    · exact (any_gt_false_iff _ _).mp (by simpa using h4) s hs

theorem setMtu_accept_iff (k : Kcp) (m : Int) : (setMtu k m).2 = 0 ↔ MtuAcceptable k m := by
  constructor
  · intro h
    apply Classical.byContradiction
    intro hn
    rw [setMtu_of_not_acceptable k m hn] at h
    cases h
  · intro h
    rw [setMtu_of_acceptable k m h]

theorem setMtu_ret (k : Kcp) (m : Int) : (setMtu k m).2 = 0 ∨ (setMtu k m).2 = -1 := by
  by_cases h : MtuAcceptable k m
  · left; rw [setMtu_of_acceptable k m h]
  · right; rw [setMtu_of_not_acceptable k m h]

/-- an accepted value becomes the MTU in force (no 32-bit truncation) -/
theorem setMtu_accepted_mtu (k : Kcp) (m : Int) (h : MtuAcceptable k m) :
    ((setMtu k m).1.mtu.toNat : Int) = m := by
  rw [setMtu_of_acceptable k m h]
  obtain ⟨h1, h2, _⟩ := h
  simp only [BitVec.toNat_ofInt]
  simp only [IKCP_OVERHEAD, mtuLimit] at h1 h2
  omega

/-- the state `SetMtu` installs for an acceptable value satisfies the invariant (whatever the state before) -/
theorem setMtu_installed_inv (k : Kcp) (m : Int) (ha : MtuAcceptable k m) :
    InvMss { k with mtu := BitVec.ofInt 32 m, mss := BitVec.ofInt 32 m - u32 IKCP_OVERHEAD,
                    bufLen := (m.toNat + IKCP_OVERHEAD) * 3 } := by
  have hm := setMtu_accepted_mtu k m ha
  rw [setMtu_of_acceptable k m ha] at hm
  obtain ⟨h1, h2, h3⟩ := ha
  change ((BitVec.ofInt 32 m).toNat : Int) = m at hm
  have hgt : (BitVec.ofInt 32 m).toNat > IKCP_OVERHEAD := by omega
  have hmss : (BitVec.ofInt 32 m - u32 IKCP_OVERHEAD).toNat = (BitVec.ofInt 32 m).toNat - IKCP_OVERHEAD := by
    simp only [u32, IKCP_OVERHEAD] at hgt ⊢
    bv_omega
  have hle : (BitVec.ofInt 32 m).toNat ≤ mtuLimit + IKCP_OVERHEAD := by omega
  refine ⟨?_, rfl, hgt, hle, ?_⟩
  · intro s hs
    have := h3 s hs
    show s.data.length ≤ (BitVec.ofInt 32 m - u32 IKCP_OVERHEAD).toNat
    rw [hmss]; omega
  · show (m.toNat + IKCP_OVERHEAD) * 3 = ((BitVec.ofInt 32 m).toNat + IKCP_OVERHEAD) * 3
    have : m.toNat = (BitVec.ofInt 32 m).toNat := by omega
    rw [this]

/-- `SetMtu` preserves the invariant for EVERY integer argument -/
theorem setMtu_inv (k : Kcp) (m : Int) (h : InvMss k) : InvMss (setMtu k m).1 := by
  by_cases ha : MtuAcceptable k m
  · rw [setMtu_of_acceptable k m ha]; exact setMtu_installed_inv k m ha
  · rw [setMtu_of_not_acceptable k m ha]; exact h

/-! ### Input -/

theorem ackLoop_le {n : Nat} (sn : U32) (l : List Seg) (h : SegsLe n l) : SegsLe n (ackLoop sn l) := by
  induction l with
  | nil => exact h
  | cons s rest ih =>
    unfold ackLoop
    have hr : SegsLe n rest := fun x hx => h x (List.mem_cons_of_mem _ hx)
    split
    · intro x hx
      rcases List.mem_cons.mp hx with hx | hx
      · subst hx; exact Nat.zero_le _
      · exact hr x hx
    · split
      · exact h
      · intro x hx
        rcases List.mem_cons.mp hx with hx | hx
        · subst hx; exact h _ (List.mem_cons_self ..)
        · exact ih hr x hx

theorem fastLoop_le {n : Nat} (sn ts fr : U32) (l : List Seg) (h : SegsLe n l) : SegsLe n (fastLoop sn ts fr l).buf := by
  induction l with
  | nil => exact h
  | cons s rest ih =>
    unfold fastLoop
    have hr : SegsLe n rest := fun x hx => h x (List.mem_cons_of_mem _ hx)
    have hs : s.data.length ≤ n := h _ (List.mem_cons_self ..)
    split
    · exact h
    · split
      · intro x hx
        rcases List.mem_cons.mp hx with hx | hx
        · subst hx; exact hs
        · exact ih hr x hx
      · intro x hx
        rcases List.mem_cons.mp hx with hx | hx
        · subst hx; exact hs
        · exact ih hr x hx

theorem keep_parseUna {a k : Kcp} (h : Keep a k) (una : U32) : Keep a (parseUna k una).1 :=
  h.of_buf rfl rfl rfl rfl (fun _ hn x hx => hn x (List.mem_of_mem_drop hx))

theorem dropAcked_le {n : Nat} (l : List Seg) (h : SegsLe n l) : SegsLe n (dropAcked l) := by
  induction l with
  | nil => exact h
  | cons s rest ih =>
    unfold dropAcked
    split
    · exact ih (fun x hx => h x (List.mem_cons_of_mem _ hx))
    · exact h

/-- `shrink_buf` only pops acknowledged head segments (and moves `snd_una`) -/
theorem keep_shrinkBuf {a k : Kcp} (h : Keep a k) : Keep a (shrinkBuf k) := by
  unfold shrinkBuf
  split
  · rename_i s rest hd
    exact h.of_buf rfl rfl rfl rfl (fun n hn => by
      show SegsLe n (s :: rest); rw [← hd]; exact dropAcked_le _ hn)
  · exact h.of_buf rfl rfl rfl rfl (fun n _ x hx => by cases hx)

theorem keep_parseAck {a k : Kcp} (h : Keep a k) (sn : U32) : Keep a (parseAck k sn) := by
  unfold parseAck
  split
  · exact h
  · exact h.of_buf rfl rfl rfl rfl (fun _ hn => ackLoop_le sn _ hn)

theorem keep_parseFastack {a k : Kcp} (h : Keep a k) (sn ts : U32) : Keep a (parseFastack k sn ts).1 := by
  unfold parseFastack
  split
  · exact h
  · exact h.of_buf rfl rfl rfl rfl (fun _ hn => fastLoop_le sn ts _ _ hn)

theorem parseData_view (k : Kcp) (s : Seg) : mssView (parseData k s).k = mssView k := by
  unfold parseData
  repeat' split
  all_goals rfl

theorem parseData_panic (k : Kcp) (s : Seg) (h : s.data.length ≤ mtuLimit) : (parseData k s).panic = false := by
  unfold parseData
  repeat' split
  all_goals first | rfl | omega

theorem updateAck_view (k : Kcp) (rtt : U32) : mssView (updateAck k rtt) = mssView k := by
  unfold updateAck smoothRtt
  simp only []
  repeat' split
  all_goals rfl

theorem cwndOnAck_view (k : Kcp) (u : U32) : mssView (cwndOnAck k u) = mssView k := by
  unfold cwndOnAck
  simp only []
  repeat' split
  all_goals rfl

/-- the part of one iteration of the parse loop of `Input` that is common to all commands:
remote window, `parse_una`, `shrink_buf` -/
def inputPre (regular : Bool) (data : Bytes) (st : InLoop) : InLoop :=
  let k1 := if regular then { st.k with rmt_wnd := (rd16 data 6).setWidth 32 } else st.k
  let pu := parseUna k1 (rd32 data 16)
  { st with k := shrinkBuf pu.1, flushSeg := st.flushSeg || decide (pu.2 > 0) }

/-- the command dispatch of one iteration -/
def inputCmd (data : Bytes) (st1 : InLoop) : InLoop :=
  let conv := rd32 data 0
  let cmd := BitVec.ofNat 8 (byteAt data 4)
  let frg := BitVec.ofNat 8 (byteAt data 5)
  let wnd := rd16 data 6
  let ts := rd32 data 8
  let sn := rd32 data 12
  let una := rd32 data 16
  let length := (rd32 data 20).toNat
  let body := data.drop IKCP_OVERHEAD
  if cmd.toNat = IKCP_CMD_ACK then
    let k2 := shrinkBuf (parseAck st1.k sn)
    let pf := parseFastack k2 sn ts
    { st1 with k := pf.1, flushSeg := st1.flushSeg || pf.2, updRtt := true, latest := ts }
  else if cmd.toNat = IKCP_CMD_PUSH then
    if itimediff sn (st1.k.rcv_nxt + st1.k.rcv_wnd) < 0 then
      let k2 := { st1.k with acklist := st1.k.acklist ++ [⟨sn, ts⟩] }
      if itimediff sn k2.rcv_nxt ≥ 0 then
        let r := parseData k2 { conv := conv, cmd := cmd, frg := frg, wnd := wnd, ts := ts, sn := sn, una := una,
                                data := body.take length }
        { st1 with k := r.k, panic := r.panic }
      else { st1 with k := k2 }
    else st1
  else if cmd.toNat = IKCP_CMD_WASK then
    { st1 with k := { st1.k with probe := st1.k.probe ||| u32 IKCP_ASK_TELL } }
  else st1

/-- one iteration of the parse loop of `Input` once the header has passed the three checks -/
def inputSeg (regular : Bool) (data : Bytes) (st : InLoop) : InLoop := inputCmd data (inputPre regular data st)

theorem inputLoop_succ (regular : Bool) (fuel : Nat) (data : Bytes) (st : InLoop) :
    inputLoop regular (fuel + 1) data st =
      if data.length < IKCP_OVERHEAD then st else
      if rd32 data 0 ≠ st.k.conv then { st with ret := -1 } else
      if (data.drop IKCP_OVERHEAD).length < (rd32 data 20).toNat ∨ (rd32 data 20).toNat > mtuLimit then
        { st with ret := -2 } else
      if (BitVec.ofNat 8 (byteAt data 4)).toNat ≠ IKCP_CMD_PUSH ∧ (BitVec.ofNat 8 (byteAt data 4)).toNat ≠ IKCP_CMD_ACK
          ∧ (BitVec.ofNat 8 (byteAt data 4)).toNat ≠ IKCP_CMD_WASK ∧ (BitVec.ofNat 8 (byteAt data 4)).toNat ≠ IKCP_CMD_WINS then
        { st with ret := -3 } else
      if (inputSeg regular data st).panic then inputSeg regular data st else
      inputLoop regular fuel ((data.drop IKCP_OVERHEAD).drop (rd32 data 20).toNat) (inputSeg regular data st) := by
  rw [inputLoop]
  rfl

theorem inputPre_keep (regular : Bool) (data : Bytes) (st : InLoop) {a : Kcp} (h : Keep a st.k) :
    Keep a (inputPre regular data st).k ∧ (inputPre regular data st).panic = st.panic := by
  have hk1 : Keep a (if regular then { st.k with rmt_wnd := (rd16 data 6).setWidth 32 } else st.k) := by
    split
    · exact h.of_view rfl
    · exact h
  exact ⟨keep_shrinkBuf (keep_parseUna hk1 (rd32 data 16)), rfl⟩

theorem inputCmd_keep (data : Bytes) (st1 : InLoop) {a : Kcp} (h : Keep a st1.k)
    (hp : st1.panic = false) (hlen : (rd32 data 20).toNat ≤ mtuLimit) :
    Keep a (inputCmd data st1).k ∧ (inputCmd data st1).panic = false := by
  unfold inputCmd
  simp only []
  split
  · exact ⟨keep_parseFastack (keep_shrinkBuf (keep_parseAck h _)) _ _, hp⟩
  split
  · split
    · split
      · refine ⟨(h.of_view (k' := { st1.k with acklist := st1.k.acklist ++ [⟨rd32 data 12, rd32 data 8⟩] }) rfl).of_view
          (parseData_view _ _), ?_⟩
        apply parseData_panic
        show (List.take _ _).length ≤ _
        exact Nat.le_trans (List.length_take_le _ _) hlen
      · exact ⟨h.of_view rfl, hp⟩
    · exact ⟨h, hp⟩
  split
  · exact ⟨h.of_view rfl, hp⟩
  · exact ⟨h, hp⟩

/-- one accepted segment: configuration kept, `snd_buf` only loses data, no panic when `len ≤ mtuLimit` -/
theorem inputSeg_keep (regular : Bool) (data : Bytes) (st : InLoop) {a : Kcp} (h : Keep a st.k)
    (hp : st.panic = false) (hlen : (rd32 data 20).toNat ≤ mtuLimit) :
    Keep a (inputSeg regular data st).k ∧ (inputSeg regular data st).panic = false := by
  have h1 := inputPre_keep regular data st h
  exact inputCmd_keep data _ h1.1 (h1.2.trans hp) hlen

theorem inputLoop_keep (regular : Bool) (fuel : Nat) (data : Bytes) (st : InLoop) {a : Kcp} (h : Keep a st.k)
    (hp : st.panic = false) :
    Keep a (inputLoop regular fuel data st).k ∧ (inputLoop regular fuel data st).panic = false := by
  induction fuel generalizing data st with
  | zero => rw [inputLoop]; exact ⟨h, hp⟩
  | succ fuel ih =>
    rw [inputLoop_succ]
    split
    · exact ⟨h, hp⟩
    split
    · exact ⟨h, hp⟩
    split
    · exact ⟨h, hp⟩
    split
    · exact ⟨h, hp⟩
    rename_i hlen _
    have hs := inputSeg_keep regular data st h hp (by omega)
    split
    · exact hs
    · exact ih _ _ hs.1 hs.2

/-- `Input` with ANY byte string -/
theorem input_ok (k : Kcp) (data : Bytes) (regular ackNoDelay : Bool) (now : U32) (h : InvMss k) :
    (input k data regular ackNoDelay now).panic = false
      ∧ (∀ o ∈ (input k data regular ackNoDelay now).outs, 0 < o.length ∧ o.length ≤ k.mtu.toNat)
      ∧ InvMss (input k data regular ackNoDelay now).k ∧ (input k data regular ackNoDelay now).k.mtu = k.mtu := by
  have hnil : ∀ o ∈ ([] : List Bytes), 0 < o.length ∧ o.length ≤ k.mtu.toNat := by intro o ho; cases ho
  unfold input
  split
  · exact ⟨rfl, hnil, h, rfl⟩
  have hl := inputLoop_keep regular (data.length / IKCP_OVERHEAD + 1) data { k := k } (Keep.refl k) rfl
  generalize inputLoop regular (data.length / IKCP_OVERHEAD + 1) data { k := k } = st at hl
  obtain ⟨hk, hpan⟩ := hl
  simp only []
  rw [if_neg (by simp [hpan])]
  split
  · exact ⟨rfl, hnil, hk.inv h, hk.mtu⟩
  have hk1 : Keep k (if st.updRtt = true ∧ regular = true ∧ itimediff now st.latest ≥ 0
      then updateAck st.k (now - st.latest) else st.k) := by
    split
    · exact hk.of_view (updateAck_view _ _)
    · exact hk
  generalize (if st.updRtt = true ∧ regular = true ∧ itimediff now st.latest ≥ 0
      then updateAck st.k (now - st.latest) else st.k) = k1 at hk1
  have hk2 : Keep k (cwndOnAck k1 k.snd_una) := hk1.of_view (cwndOnAck_view _ _)
  generalize cwndOnAck k1 k.snd_una = k2 at hk2
  have hi2 : InvMss k2 := hk2.inv h
  have hf : ∀ full, (flush k2 full now).panic = false
      ∧ (∀ o ∈ (flush k2 full now).outs, 0 < o.length ∧ o.length ≤ k.mtu.toNat) ∧ InvMss (flush k2 full now).k
      ∧ (flush k2 full now).k.mtu = k.mtu := by
    intro full
    have := flush_ok k2 full now hi2
    rw [hk2.mtu] at this
    exact this
  split
  · exact hf true
  split
  · exact hf false
  split
  · exact hf false
  · exact ⟨rfl, hnil, hi2, hk2.mtu⟩

/-! ### Update -/

theorem update_ok (k : Kcp) (now : U32) (h : InvMss k) :
    (update k now).panic = false
      ∧ (∀ o ∈ (update k now).outs, 0 < o.length ∧ o.length ≤ k.mtu.toNat)
      ∧ InvMss (update k now).k ∧ (update k now).k.mtu = k.mtu := by
  unfold update
  extract_lets k1 slap0 reset k2 slap tf0 tf
  have hk1 : mssView k1 = mssView k := by
    simp only [k1]; split <;> rfl
  have hk2 : mssView k2 = mssView k := by
    rw [← hk1]; simp only [k2]; split <;> rfl
  have hi2 : InvMss k2 := inv_of_view h hk2
  have hmtu : k2.mtu = k.mtu := congrArg (·.1) hk2
  split
  · obtain ⟨p, q, r, r2⟩ := flush_ok { k2 with ts_flush := tf } true now (inv_of_view hi2 rfl)
    refine ⟨p, ?_, r, r2.trans hmtu⟩
    intro o ho
    have := q o ho
    have e : ({ k2 with ts_flush := tf } : Kcp).mtu = k.mtu := hmtu
    exact ⟨this.1, Nat.le_trans this.2 (Nat.le_of_eq (congrArg BitVec.toNat e))⟩
  · exact ⟨rfl, (by intro o ho; cases ho), hi2, hmtu⟩

/-! ### histories of operations -/

/-- every state-changing operation of the protocol core (arguments arbitrary).  `stream` is the field write of
`UDPSession.SetStreamMode`, `shift` the harness hook that offsets the sequence numbers; `PeekSize`, `Check`
and `WaitSnd` are pure and therefore not listed. -/
inductive Op where
  | send (b : Bytes)
  | recv (buflen : Nat)
  | input (data : Bytes) (regular ackNoDelay : Bool) (now : U32)
  | flush (full : Bool) (now : U32)
  | update (now : U32)
  | setMtu (m : Int)
  | noDelay (nodelay interval resend nc : Int)
  | wndSize (snd rcv : Int)
  | stream (v : U32)
  | shift (snd rcv : U32)

structure StepRes where
  k     : Kcp
  outs  : List Bytes := []     -- what the output callback received during the operation
  panic : Bool := false

def step (k : Kcp) : Op → StepRes
  | .send b => { k := (k.send b).k, panic := (k.send b).panic }
  | .recv n => { k := (k.recv n).k }
  | .input d r a now => { k := (k.input d r a now).k, outs := (k.input d r a now).outs, panic := (k.input d r a now).panic }
  | .flush full now => { k := (k.flush full now).k, outs := (k.flush full now).outs, panic := (k.flush full now).panic }
  | .update now => { k := (k.update now).k, outs := (k.update now).outs, panic := (k.update now).panic }
  | .setMtu m => { k := (k.setMtu m).1 }
  | .noDelay a b c d => { k := k.noDelay a b c d }
  | .wndSize a b => { k := k.wndSize a b }
  | .stream v => { k := { k with stream := v } }
  | .shift s r => { k := { k with snd_una := s, snd_nxt := s, rcv_nxt := r } }

/-- the state after a history -/
def run (k : Kcp) (ops : List Op) : Kcp := ops.foldl (fun k op => (step k op).k) k

/-- every packet handed to the output callback during a history, with the MTU in force at that moment -/
def trace (k : Kcp) : List Op → List (Nat × Bytes)
  | [] => []
  | op :: rest => (step k op).outs.map (fun o => (k.mtu.toNat, o)) ++ trace (step k op).k rest

/-- did any operation of the history panic -/
def anyPanic (k : Kcp) : List Op → Bool
  | [] => false
  | op :: rest => (step k op).panic || anyPanic (step k op).k rest

theorem new_inv (c : U32) : InvMss (Kcp.new c) where
  segs := by intro s hs; cases hs
  mss_eq := rfl
  mtu_gt := by show (u32 IKCP_MTU_DEF).toNat > IKCP_OVERHEAD; decide
  mtu_le := by show (u32 IKCP_MTU_DEF).toNat ≤ mtuLimit + IKCP_OVERHEAD; decide
  buf := by show (IKCP_MTU_DEF + IKCP_OVERHEAD) * 3 = ((u32 IKCP_MTU_DEF).toNat + IKCP_OVERHEAD) * 3; decide

/-- one operation, any arguments: no panic, every output non-empty and within the MTU in force, invariant kept -/
theorem step_ok (k : Kcp) (op : Op) (h : InvMss k) :
    (step k op).panic = false
      ∧ (∀ o ∈ (step k op).outs, 0 < o.length ∧ o.length ≤ k.mtu.toNat)
      ∧ InvMss (step k op).k := by
  have hnil : ∀ o ∈ ([] : List Bytes), 0 < o.length ∧ o.length ≤ k.mtu.toNat := by intro o ho; cases ho
  cases op with
  | send b => exact ⟨(send_ok k b h).1, hnil, (send_ok k b h).2.1⟩
  | recv n => exact ⟨rfl, hnil, inv_of_view h (recv_view k n)⟩
  | input d r a now => have := input_ok k d r a now h; exact ⟨this.1, this.2.1, this.2.2.1⟩
  | flush full now => have := flush_ok k full now h; exact ⟨this.1, this.2.1, this.2.2.1⟩
  | update now => have := update_ok k now h; exact ⟨this.1, this.2.1, this.2.2.1⟩
  | setMtu m => exact ⟨rfl, hnil, setMtu_inv k m h⟩
  | noDelay a b c d => exact ⟨rfl, hnil, inv_of_view h (noDelay_view k a b c d)⟩
  | wndSize a b => exact ⟨rfl, hnil, inv_of_view h (wndSize_view k a b)⟩
  | stream v => exact ⟨rfl, hnil, inv_of_view h rfl⟩
  | shift s r => exact ⟨rfl, hnil, inv_of_view h rfl⟩

/-- only `SetMtu` changes the MTU in force -/
theorem step_mtu (k : Kcp) (op : Op) (h : InvMss k) (hop : ∀ m, op ≠ .setMtu m) : (step k op).k.mtu = k.mtu := by
  cases op with
  | send b => exact (send_ok k b h).2.2
  | recv n => exact congrArg (·.1) (recv_view k n)
  | input d r a now => exact (input_ok k d r a now h).2.2.2
  | flush full now => exact (flush_ok k full now h).2.2.2
  | update now => exact (update_ok k now h).2.2.2
  | setMtu m => exact absurd rfl (hop m)
  | noDelay a b c d => exact congrArg (·.1) (noDelay_view k a b c d)
  | wndSize a b => exact congrArg (·.1) (wndSize_view k a b)
  | stream v => rfl
  | shift s r => rfl

theorem run_append (k : Kcp) (a b : List Op) : run k (a ++ b) = run (run k a) b := by
  unfold run; rw [List.foldl_append]

theorem run_inv (k : Kcp) (ops : List Op) (h : InvMss k) : InvMss (run k ops) := by
  induction ops generalizing k with
  | nil => exact h
  | cons op rest ih => exact ih _ (step_ok k op h).2.2

theorem trace_ok (k : Kcp) (ops : List Op) (h : InvMss k) :
    anyPanic k ops = false ∧ ∀ p ∈ trace k ops, 0 < p.2.length ∧ p.2.length ≤ p.1 := by
  induction ops generalizing k with
  | nil => exact ⟨rfl, by intro p hp; cases hp⟩
  | cons op rest ih =>
    obtain ⟨h1, h2, h3⟩ := step_ok k op h
    obtain ⟨i1, i2⟩ := ih _ h3
    unfold anyPanic trace
    refine ⟨by rw [h1, i1]; rfl, ?_⟩
    intro p hp
    rcases List.mem_append.mp hp with hp | hp
    · obtain ⟨o, ho, rfl⟩ := List.mem_map.mp hp
      exact h2 o ho
    · exact i2 p hp

/-- `InvMss` is decidable -/
def invMssB (k : Kcp) : Bool :=
  (k.snd_queue ++ k.snd_buf).all (fun s => decide (s.data.length ≤ k.mss.toNat))
    && decide (k.mss = k.mtu - u32 IKCP_OVERHEAD) && decide (k.mtu.toNat > IKCP_OVERHEAD)
    && decide (k.mtu.toNat ≤ mtuLimit + IKCP_OVERHEAD) && decide (k.bufLen = (k.mtu.toNat + IKCP_OVERHEAD) * 3)

theorem invMssB_iff (k : Kcp) : invMssB k = true ↔ InvMss k := by
  unfold invMssB
  simp only [Bool.and_eq_true, List.all_eq_true, decide_eq_true_eq]
  constructor
  · rintro ⟨⟨⟨⟨a, b⟩, c⟩, d⟩, e⟩; exact ⟨a, b, c, d, e⟩
  · rintro ⟨a, b, c, d, e⟩; exact ⟨⟨⟨⟨a, b⟩, c⟩, d⟩, e⟩

instance (k : Kcp) : Decidable (InvMss k) := decidable_of_iff _ (invMssB_iff k)

end KcpVerif.Lemmas.KcpMss
