/-
The probe timer of A in reachable states: when armed, it stands at most `IKCP_PROBE_LIMIT` (120 s) ahead
of the clock and not more than one flush interval behind A's next flush (`PInv`, an invariant of every
event).  With it, the bound of one probe round from ANY reachable state.
-/
import KcpVerif.Lemmas.SysDrainProbe3

namespace KcpVerif.SysC
open KcpVerif KcpVerif.Gen KcpVerif.Kcp KcpVerif.Live KcpVerif.Wire KcpVerif.SysW KcpVerif.Sys

theorem npw_le (w : U32) : (nextProbeWait w).toNat ≤ IKCP_PROBE_LIMIT := by
  unfold nextProbeWait
  simp only []
  generalize (if w < u32 IKCP_PROBE_INIT then u32 IKCP_PROBE_INIT else w) = w0
  generalize w0 + w0 / 2 = w1
  by_cases h : w1 > u32 IKCP_PROBE_LIMIT
  · rw [if_pos h]; decide
  · rw [if_neg h]
    unfold u32 IKCP_PROBE_LIMIT at h
    simp only [gt_iff_lt, BitVec.lt_def, BitVec.toNat_ofNat] at h
    unfold IKCP_PROBE_LIMIT
    omega

def PInv (IA : Nat) (s : State) : Prop :=
  s.now ≤ s.nfA ∧
  (s.A.probe_wait = 0 ∨ ∃ P, s.A.ts_probe = clk P ∧ P ≤ s.now + IKCP_PROBE_LIMIT ∧ s.nfA ≤ P + IA)

/-- the probe timer after a full flush at time `t` -/
theorem pinv_flush (K : Kcp) (t IA : Nat) (hIA : IA < 2 ^ 30)
    (hK : K.probe_wait = 0 ∨ ∃ P, K.ts_probe = clk P ∧ P ≤ t + IKCP_PROBE_LIMIT ∧ t ≤ P + IA) :
    (flush K true (clk t)).k.probe_wait = 0 ∨
    ∃ P, (flush K true (clk t)).k.ts_probe = clk P ∧ P ≤ t + IKCP_PROBE_LIMIT ∧ t ≤ P := by
  by_cases h0 : K.rmt_wnd = 0
  · obtain ⟨f0, f1, f2⟩ := flush_probe_closed K true (clk t) h0
    by_cases hw : K.probe_wait = 0
    · right
      obtain ⟨_, e2⟩ := f0 hw
      exact ⟨t + IKCP_PROBE_INIT, by rw [e2, clk_add], by unfold IKCP_PROBE_INIT IKCP_PROBE_LIMIT; omega, by omega⟩
    · rcases hK with hK | ⟨P, zP, z1, z2⟩
      · exact absurd hK hw
      · right
        by_cases hdue : itimediff (clk t) K.ts_probe ≥ 0
        · obtain ⟨_, e2, _⟩ := f2 hw hdue
          refine ⟨t + (nextProbeWait K.probe_wait).toNat, ?_, by have := npw_le K.probe_wait; omega, by omega⟩
          rw [e2, ← clk_add]
          unfold u32
          rw [BitVec.ofNat_toNat, BitVec.setWidth_eq]
        · obtain ⟨_, e2⟩ := f1 hw (by omega)
          have hlt : t < P := by
            rcases Nat.lt_or_ge t P with hlt | hge
            · exact hlt
            · exfalso
              apply hdue
              rw [zP]
              exact clk_due t P hge (by omega)
          exact ⟨P, by rw [e2]; exact zP, z1, by omega⟩
  · left
    have hf := flush_probe_timer K true (clk t)
    have hpp : (probePhase { K with acklist := [] } (clk t)).probe_wait = 0 := by
      unfold probePhase
      rw [if_neg h0]
    rw [hf.1, hpp]

theorem pinv_step {p : Par} {s : State} {gab gba : GLink} (h : Cons p s gab gba) (hnw : NoWrap p.base s)
    (IA : Nat) (hIA : IA < 2 ^ 30) (hta : TmA IA s) (hpi : PInv IA s) (ev : Ev) : PInv IA (Sys.step s ev) := by
  obtain ⟨hn, hpr⟩ := hpi
  have hK : ∀ K : Kcp, K.probe_wait = s.A.probe_wait → K.ts_probe = s.A.ts_probe →
      (K.probe_wait = 0 ∨ ∃ P, K.ts_probe = clk P ∧ P ≤ s.now + IKCP_PROBE_LIMIT ∧ s.now ≤ P + IA) := by
    intro K e1 e2
    rcases hpr with a | ⟨P, a, b, c⟩
    · exact Or.inl (e1.trans a)
    · exact Or.inr ⟨P, e2.trans a, b, by omega⟩
  have keep : ∀ s' : State, s'.A.probe_wait = s.A.probe_wait → s'.A.ts_probe = s.A.ts_probe → s'.nfA = s.nfA →
      s'.now = s.now → PInv IA s' := by
    intro s' e1 e2 e3 e4
    refine ⟨by rw [e3, e4]; exact hn, ?_⟩
    rcases hpr with a | ⟨P, a, b, c⟩
    · exact Or.inl (e1.trans a)
    · exact Or.inr ⟨P, e2.trans a, by rw [e4]; exact b, by rw [e3]; exact c⟩
  cases ev with
  | tick =>
    rw [show Sys.step s .tick = (if quiet s then { s with now := s.now + 1 } else s) from rfl]
    split
    · rename_i hq
      have := (quiet_facts s hq).2.2.1
      refine ⟨by show s.now + 1 ≤ s.nfA; omega, ?_⟩
      rcases hpr with a | ⟨P, a, b, c⟩
      · exact Or.inl a
      · exact Or.inr ⟨P, a, by show P ≤ s.now + 1 + _; omega, c⟩
    · exact keep s rfl rfl rfl rfl
  | send b =>
    have hq := Frame.send_k s.A b
    exact keep _ (by show (s.A.send b).k.probe_wait = _; rw [hq]) (by show (s.A.send b).k.ts_probe = _; rw [hq]) rfl rfl
  | read =>
    rw [show Sys.step s .read = (if (s.B.recv s.B.peekSize.toNat).n < 0 then s
      else { s with B := (s.B.recv s.B.peekSize.toNat).k, got := s.got ++ (s.B.recv s.B.peekSize.toNat).data }) from rfl]
    split
    · exact keep s rfl rfl rfl rfl
    · exact keep _ rfl rfl rfl rfl
  | flushB => exact keep _ rfl rfl rfl rfl
  | flushA =>
    have hle := flush_interval_le s.A (clk s.now)
    rw [BitVec.le_def, hta.iv] at hle
    refine ⟨by show s.now ≤ s.now + _; omega, ?_⟩
    rcases pinv_flush s.A s.now IA hIA (hK s.A rfl rfl) with a | ⟨P, a, b, c⟩
    · exact Or.inl a
    · exact Or.inr ⟨P, a, b, by show s.now + (s.A.flush true (clk s.now)).interval.toNat ≤ P + IA; omega⟩
  | dlvB =>
    cases hab : s.ab with
    | nil =>
      have : Sys.step s .dlvB = s := by simp only [Sys.step, hab]
      rw [this]; exact keep s rfl rfl rfl rfl
    | cons d rest =>
      rw [step_dlvB_cons s _ _ hab]
      split
      · exact keep _ rfl rfl rfl rfl
      · exact keep s rfl rfl rfl rfl
  | dlvA =>
    cases gba with
    | nil =>
      have : Sys.step s .dlvA = s := by simp only [Sys.step, h.hba, encL, List.map_nil]
      rw [this]; exact keep s rfl rfl rfl rfl
    | cons d0 grest =>
      obtain ⟨t0, frs⟩ := d0
      have hba : s.ba = ⟨t0, encFrames frs⟩ :: encL grest := h.hba
      rw [step_dlvA_cons s _ _ hba]
      split
      · by_cases hne : frs = []
        · subst hne
          simp only [input_empty]
          exact keep _ rfl rfl rfl rfl
        · obtain ⟨hv, hp, hr, _, _, _, _⟩ := cons_inA h hnw (inFrs true frs { k := s.A }).k (Or.inl rfl)
          obtain ⟨k1, hk1, himp⟩ := inputA_cases s.A frs s.ndA (clk s.now) hv hp hr
          obtain ⟨_, _, _, hal, _, _, hclean⟩ := cons_inA h hnw k1 hk1
          obtain ⟨i1, i2, _, _⟩ := inA_probe (inFrs true frs { k := s.A }) k1 hk1 s.A.snd_una
          obtain ⟨j1, j2, _⟩ := inFrs_probe_timer frs { k := s.A }
          have e1 : (cwndOnAck k1 s.A.snd_una).probe_wait = s.A.probe_wait := i1.trans j1
          have e2 : (cwndOnAck k1 s.A.snd_una).ts_probe = s.A.ts_probe := i2.trans j2
          rcases himp hal hclean.aK with hin | hin | ⟨hnil, _⟩
          · simp only [hin]
            exact keep _ e1 e2 rfl rfl
          · simp only [hin]
            refine ⟨hn, ?_⟩
            have := hta.nf
            rcases pinv_flush (cwndOnAck k1 s.A.snd_una) s.now IA hIA (hK _ e1 e2) with a | ⟨P, a, b, c⟩
            · exact Or.inl a
            · exact Or.inr ⟨P, a, b, by show s.nfA ≤ P + IA; omega⟩
          · exact absurd hnil hne
      · exact keep s rfl rfl rfl rfl

theorem pinv_netStep {p : Par} {IA IB : Nat} {s : State} (hi : Inv p IA IB s) (hnw : NoWrap p.base s) (hIA : IA < 2 ^ 30)
    (hpi : PInv IA s) (ev : NetEv) : PInv IA (netStep s ev) := by
  obtain ⟨gab, gba, hc⟩ := hi.cons
  cases ev with
  | fair ev => exact pinv_step hc hnw IA hIA hi.ta hpi ev
  | shuffle ab' ba' =>
    show PInv IA (if (ab'.all fun d => decide (d ∈ s.ab)) && (ba'.all fun d => decide (d ∈ s.ba))
      then shuffle s ab' ba' else s)
    split
    · exact hpi
    · exact hpi

theorem inv_pinv_netRun {p : Par} {IA IB : Nat} (hIA : IA < 2 ^ 30) (evs : List NetEv) : ∀ (s : State), Inv p IA IB s →
    PInv IA s → NetNoWrap p.base s evs → Inv p IA IB (netRun s evs) ∧ PInv IA (netRun s evs) := by
  induction evs with
  | nil => intro s h hp _; exact ⟨h, hp⟩
  | cons ev rest ih =>
    intro s h hp hr
    exact ih _ (inv_netStep h hr.1 ev) (pinv_netStep h hr.1 hIA hp ev) hr.2

theorem pinv_init (A B : Kcp) (D t0 : Nat) (ndA ndB : Bool) (h : A.probe_wait = 0) :
    PInv A.interval.toNat (Sys.init A B D t0 ndA ndB) :=
  ⟨by show t0 ≤ t0 + A.interval.toNat; omega, Or.inl h⟩

/-- **zero-window probing, one round with its bound**: from ANY state that satisfies the invariants
(in particular after any history of losses), in every run whose clock advances by more than
`IKCP_PROBE_LIMIT + 2·IA + D + IB + D` ms, A's `rmt_wnd` is non-zero in some state — provided B's receive
queue is not full in the states of the run (`ProbeHyp`) -/
theorem probe_opens {p : Par} {IA IB : Nat} {s : State} (hi : Inv p IA IB s) (hpi : PInv IA s) (hIA : IA < 2 ^ 29)
    (evs : List Ev) (hr : RunP (ProbeHyp p) s evs)
    (hnow : s.now + IKCP_PROBE_LIMIT + 2 * IA + s.D + IB + s.D < (Sys.run s evs).now) :
    ∃ a b, evs = a ++ b ∧ (Sys.run s a).A.rmt_wnd ≠ 0 := by
  obtain ⟨hn, hpr⟩ := hpi
  have hnf := hi.ta.nf
  by_cases hw : s.A.probe_wait = 0
  · apply probe_round hi (s.now + IA) (s.now + IA + IKCP_PROBE_INIT + IA) (Or.inl ⟨hw, hnf, by omega, by omega, by omega⟩) evs hr
    unfold IKCP_PROBE_INIT
    unfold IKCP_PROBE_LIMIT at hnow
    omega
  · rcases hpr with a | ⟨P, a, b, c⟩
    · exact absurd a hw
    · apply probe_round hi 0 (s.now + IKCP_PROBE_LIMIT + IA)
        (Or.inr ⟨hw, by omega, by omega, P, a, by omega, by unfold IKCP_PROBE_LIMIT at *; omega⟩) evs hr
      omega

instance runPDec (P : State → Prop) [DecidablePred P] : (s : State) → (evs : List Ev) → Decidable (RunP P s evs)
  | s, [] => by unfold RunP; infer_instance
  | s, ev :: rest => by
    unfold RunP
    have := runPDec P (Sys.step s ev) rest
    infer_instance

instance (p : Par) : DecidablePred (ProbeHyp p) := fun s => by unfold ProbeHyp Small QB; infer_instance

instance netNoWrapDec2 (base : U32) : (s : State) → (evs : List NetEv) → Decidable (NetNoWrap base s evs)
  | s, [] => by unfold NetNoWrap; infer_instance
  | s, ev :: rest => by
    unfold NetNoWrap
    have := netNoWrapDec2 base (netStep s ev) rest
    infer_instance

end KcpVerif.SysC
