/-
C04 (truthful window): every segment that `flush` writes into a datagram carries the window value
`wndUnused k` computed at the start of that flush — the ACK / WASK / WINS headers through the scratch
header, the PUSH headers because `xmitOne` stamps `wnd` on every segment it (re)sends.
Core Lean only.
-/
import KcpVerif.Lemmas.KcpOps

namespace KcpVerif.Kcp
open KcpVerif KcpVerif.Gen

/-- a segment as it appears on the wire -/
structure WireSeg where
  conv : U32
  cmd  : BitVec 8
  frg  : BitVec 8
  wnd  : BitVec 16
  ts   : U32
  sn   : U32
  una  : U32
  data : Bytes
deriving Repr, DecidableEq

/-- 24 header bytes (with `len = data.length`) followed by the payload -/
def WireSeg.enc (w : WireSeg) : Bytes :=
  encodeHdr w.conv w.cmd w.frg w.wnd w.ts w.sn w.una w.data.length ++ w.data

def encSegs (l : List WireSeg) : Bytes := (l.map WireSeg.enc).flatten

/-- `b` is a concatenation of whole encoded segments, each advertising the window `wnd` -/
def AllWnd (wnd : BitVec 16) (b : Bytes) : Prop := ∃ l : List WireSeg, b = encSegs l ∧ ∀ w ∈ l, w.wnd = wnd

theorem allWnd_nil (wnd : BitVec 16) : AllWnd wnd [] := ⟨[], rfl, fun _ h => absurd h List.not_mem_nil⟩

theorem allWnd_append {wnd : BitVec 16} {a b : Bytes} (ha : AllWnd wnd a) (hb : AllWnd wnd b) :
    AllWnd wnd (a ++ b) := by
  obtain ⟨l1, e1, h1⟩ := ha
  obtain ⟨l2, e2, h2⟩ := hb
  refine ⟨l1 ++ l2, ?_, ?_⟩
  · rw [e1, e2]; unfold encSegs; rw [List.map_append, List.flatten_append]
  · intro w hw
    rcases List.mem_append.1 hw with h | h
    · exact h1 w h
    · exact h2 w h

theorem allWnd_one (w : WireSeg) : AllWnd w.wnd w.enc :=
  ⟨[w], by unfold encSegs; simp, fun x hx => by rw [List.mem_singleton.1 hx]⟩

/-- a header-only segment (ACK, WASK, WINS) -/
theorem allWnd_hdr (conv : U32) (cmd frg : BitVec 8) (wnd : BitVec 16) (ts sn una : U32) :
    AllWnd wnd (encodeHdr conv cmd frg wnd ts sn una 0) := by
  have := allWnd_one ⟨conv, cmd, frg, wnd, ts, sn, una, []⟩
  unfold WireSeg.enc at this
  simpa using this

/-- the output state of a flush is well formed: unless a slice-bounds panic was recorded, the pending
buffer and every datagram already handed to `output` consist of whole segments advertising `wnd` -/
def FlOK (wnd : BitVec 16) (f : Fl) : Prop :=
  f.panic = false → AllWnd wnd f.cur ∧ ∀ o ∈ f.outs, AllWnd wnd o

theorem FlOK.setK {wnd : BitVec 16} {f : Fl} (h : FlOK wnd f) (k : Kcp) : FlOK wnd { f with k := k } := h

theorem FlOK.makeSpace {wnd : BitVec 16} {f : Fl} (h : FlOK wnd f) (n : Nat) : FlOK wnd (f.makeSpace n) := by
  unfold Fl.makeSpace
  split
  · intro hp
    obtain ⟨hc, ho⟩ := h hp
    refine ⟨allWnd_nil wnd, ?_⟩
    intro o hm
    rcases List.mem_append.1 hm with hm | hm
    · exact ho o hm
    · rw [List.mem_singleton.1 hm]; exact hc
  · exact h

theorem FlOK.putHdr {wnd : BitVec 16} {f : Fl} (h : FlOK wnd f) (hdr : Bytes) (hh : AllWnd wnd hdr) :
    FlOK wnd (f.putHdr hdr) := by
  unfold Fl.putHdr
  split
  · intro hp; cases hp
  · intro hp
    obtain ⟨hc, ho⟩ := h hp
    exact ⟨allWnd_append hc hh, ho⟩

/-- a header followed by its payload -/
theorem FlOK.putSeg {wnd : BitVec 16} {f : Fl} (h : FlOK wnd f) (w : WireSeg) (hw : w.wnd = wnd) :
    FlOK wnd ((f.putHdr (encodeHdr w.conv w.cmd w.frg w.wnd w.ts w.sn w.una w.data.length)).putData w.data) := by
  unfold Fl.putData
  split
  · intro hp; cases hp
  · unfold Fl.putHdr
    split
    · intro hp; cases hp
    · intro hp
      obtain ⟨hc, ho⟩ := h hp
      refine ⟨?_, ho⟩
      show AllWnd wnd (f.cur ++ encodeHdr w.conv w.cmd w.frg w.wnd w.ts w.sn w.una w.data.length ++ w.data)
      rw [List.append_assoc]
      exact allWnd_append hc (hw ▸ allWnd_one w)

theorem ackFlush_ok (wnd : BitVec 16) (una : U32) (t : Nat) (l : List Ack) (i : Nat) (st : AckSt)
    (h : FlOK wnd st.f) : FlOK wnd (ackFlush wnd una t l i st).f := by
  induction l generalizing i st with
  | nil => exact h
  | cons a rest ih =>
    unfold ackFlush
    simp only []
    split
    · exact ih _ _ ((h.makeSpace _).putHdr _ (allWnd_hdr ..))
    · exact ih _ _ (h.makeSpace _)

theorem probeCmd_ok {wnd : BitVec 16} {f : Fl} (h : FlOK wnd f) (flag cmd : Nat) (sc : Scratch) (una : U32) :
    FlOK wnd (probeCmd f flag cmd wnd sc una) := by
  unfold probeCmd
  split
  · exact (h.makeSpace _).putHdr _ (allWnd_hdr ..)
  · exact h

theorem flushP3_ok (k : Kcp) (now : U32) : FlOK (wndUnused k) (flushP3 k now) := by
  unfold flushP3
  simp only []
  apply FlOK.setK
  apply probeCmd_ok
  apply probeCmd_ok
  apply FlOK.setK
  unfold flushP1
  apply ackFlush_ok
  intro _
  exact ⟨allWnd_nil _, fun _ hm => absurd hm List.not_mem_nil⟩

theorem xmitStamp_wnd (s : Seg) (now : U32) (wnd : BitVec 16) (una : U32) :
    (xmitStamp true s now wnd una).wnd = wnd := rfl

theorem xmitEmit_ok {wnd : BitVec 16} {f : Fl} (h : FlOK wnd f) (s : Seg) (hs : s.wnd = wnd) :
    FlOK wnd (xmitEmit f s) := by
  have := (h.makeSpace (IKCP_OVERHEAD + s.data.length)).putSeg ⟨s.conv, s.cmd, s.frg, s.wnd, s.ts, s.sn, s.una, s.data⟩ hs
  unfold xmitEmit
  simp only []
  split
  · exact this.setK _
  · exact this

theorem xmitOne_ok (now resent : U32) (wnd : BitVec 16) (una : U32) (n : Nat) (st : XmitSt) (s : Seg)
    (h : FlOK wnd st.f) : FlOK wnd (xmitOne now resent wnd una n st s).f := by
  rw [xmitOne_eq]
  split
  · exact h
  · simp only []
    split
    · rename_i hr
      apply xmitEmit_ok h
      rw [hr]; rfl
    · exact h

theorem xmitFold_ok (now resent : U32) (wnd : BitVec 16) (una : U32) (n : Nat) (l : List Seg) (st : XmitSt)
    (h : FlOK wnd st.f) : FlOK wnd (l.foldl (xmitOne now resent wnd una n) st).f := by
  induction l generalizing st with
  | nil => exact h
  | cons s r ih => exact ih _ (xmitOne_ok _ _ _ _ _ _ _ h)

theorem flushX_ok {wnd : BitVec 16} {f : Fl} (h : FlOK wnd f) (full : Bool) (now : U32) (una : U32) (c : Nat) :
    FlOK wnd (flushX f full now wnd una c).f := by
  unfold flushX
  split
  · exact xmitFold_ok _ _ _ _ _ _ _ h
  · exact h

/-- every datagram a flush hands to `output` consists of whole segments that all advertise the
`wnd_unused()` value computed at the start of the flush (unless the model recorded a panic) -/
theorem flush_allWnd (k : Kcp) (full : Bool) (now : U32) (hp : (flush k full now).panic = false) :
    ∀ o ∈ (flush k full now).outs, AllWnd (wndUnused k) o := by
  rw [flush_eq] at hp ⊢
  simp only [] at hp ⊢
  have h4 : FlOK (wndUnused k) (flushP4 (flushP3 k now) now) := (flushP3_ok k now).setK _
  have hx := flushX_ok h4 full now k.rcv_nxt (flushAd (flushP3 k now).k now).count
  obtain ⟨hc, ho⟩ := hx hp
  intro o hm
  split at hm
  · rcases List.mem_append.1 hm with hm | hm
    · exact ho o hm
    · rw [List.mem_singleton.1 hm]; exact hc
  · exact ho o hm

/-- `flush` does not touch what `wnd_unused()` reads -/
theorem flush_wndUnused (k : Kcp) (full : Bool) (now : U32) : wndUnused (flush k full now).k = wndUnused k := by
  obtain ⟨pw, tp, st, ss, cw, inc, done, hk, _⟩ := flush_k k full now
  rw [hk]; rfl

/-- the advertised window never exceeds the free space of the delivery queue (the `uint16`
truncation can only lower it) -/
theorem wndUnused_le (k : Kcp) : (wndUnused k).toNat ≤ k.rcv_wnd.toNat - k.rcv_queue.length := by
  unfold wndUnused
  split
  · rw [BitVec.toNat_ofNat]; exact Nat.mod_le _ _
  · exact Nat.zero_le _

/-- … and is exact below 2^16 -/
theorem wndUnused_eq (k : Kcp) (h : k.rcv_wnd.toNat - k.rcv_queue.length < 2^16) :
    (wndUnused k).toNat = k.rcv_wnd.toNat - k.rcv_queue.length := by
  unfold wndUnused
  split
  · rw [BitVec.toNat_ofNat]; exact Nat.mod_eq_of_lt h
  · show 0 = _; omega

/-- stated with the state AFTER the flush (which is what a monitor sees) -/
theorem flush_allWnd_post (k : Kcp) (full : Bool) (now : U32) (hp : (flush k full now).panic = false) :
    ∀ o ∈ (flush k full now).outs, AllWnd (wndUnused (flush k full now).k) o := by
  rw [flush_wndUnused]; exact flush_allWnd k full now hp

theorem update_allWnd_post (k : Kcp) (now : U32) (hp : (update k now).panic = false) :
    ∀ o ∈ (update k now).outs, AllWnd (wndUnused (update k now).k) o := by
  rw [update_eq] at hp ⊢
  split at hp
  · rename_i hg
    rw [if_pos hg]
    exact flush_allWnd_post _ _ _ hp
  · rename_i hg
    rw [if_neg hg]
    intro o hm; exact absurd hm List.not_mem_nil

theorem inputFin_allWnd_post (k2 : Kcp) (fs nd : Bool) (now : U32) (hp : (inputFin k2 fs nd now).panic = false) :
    ∀ o ∈ (inputFin k2 fs nd now).outs, AllWnd (wndUnused (inputFin k2 fs nd now).k) o := by
  unfold inputFin at hp ⊢
  split
  · rename_i h1; rw [if_pos h1] at hp; exact flush_allWnd_post _ _ _ hp
  · rename_i h1; rw [if_neg h1] at hp
    split
    · rename_i h2; rw [if_pos h2] at hp; exact flush_allWnd_post _ _ _ hp
    · rename_i h2; rw [if_neg h2] at hp
      split
      · rename_i h3; rw [if_pos h3] at hp; exact flush_allWnd_post _ _ _ hp
      · intro o hm; exact absurd hm List.not_mem_nil

theorem input_allWnd_post (k : Kcp) (data : Bytes) (regular ackNoDelay : Bool) (now : U32)
    (hp : (input k data regular ackNoDelay now).panic = false) :
    ∀ o ∈ (input k data regular ackNoDelay now).outs,
      AllWnd (wndUnused (input k data regular ackNoDelay now).k) o := by
  rw [input_eq] at hp ⊢
  split
  · intro o hm; exact absurd hm List.not_mem_nil
  · rename_i h0; rw [if_neg h0] at hp
    unfold inputTail at hp ⊢
    split
    · intro o hm; exact absurd hm List.not_mem_nil
    · rename_i h1; rw [if_neg h1] at hp
      split
      · intro o hm; exact absurd hm List.not_mem_nil
      · rename_i h2; rw [if_neg h2] at hp
        exact inputFin_allWnd_post _ _ _ _ hp

/-! ### reading the segments back, the way `Input` walks a datagram -/

theorem encodeHdr_length (conv : U32) (cmd frg : BitVec 8) (wnd : BitVec 16) (ts sn una : U32) (len : Nat) :
    (encodeHdr conv cmd frg wnd ts sn una len).length = IKCP_OVERHEAD := by
  unfold encodeHdr le32 le16; rfl

theorem rd16_hdr (conv : U32) (cmd frg : BitVec 8) (wnd : BitVec 16) (ts sn una : U32) (len : Nat) (rest : Bytes) :
    rd16 (encodeHdr conv cmd frg wnd ts sn una len ++ rest) 6 = wnd := by
  unfold encodeHdr le32 le16 rd16 byteAt
  simp only [List.cons_append, List.nil_append, List.getD_cons_succ, List.getD_cons_zero]
  apply BitVec.eq_of_toNat_eq
  simp only [BitVec.toNat_ofNat, UInt8.toNat_ofNat']
  have := wnd.isLt
  omega

theorem rd32_hdr_len (conv : U32) (cmd frg : BitVec 8) (wnd : BitVec 16) (ts sn una : U32) (len : Nat) (rest : Bytes) :
    rd32 (encodeHdr conv cmd frg wnd ts sn una len ++ rest) 20 = u32 len := by
  unfold encodeHdr le32 le16 rd32 byteAt
  simp only [List.cons_append, List.nil_append, List.getD_cons_succ, List.getD_cons_zero]
  apply BitVec.eq_of_toNat_eq
  simp only [BitVec.toNat_ofNat, UInt8.toNat_ofNat']
  have := (u32 len).isLt
  omega

/-- the `wnd` fields a receiver reads from a datagram, walking it exactly as the parse loop of `Input`
does: 24-byte header, `wnd` at offset 6, `len` at offset 20, skip `len` payload bytes -/
def wndFields : Nat → Bytes → List (BitVec 16)
  | 0, _ => []
  | fuel + 1, data =>
    if data.length < IKCP_OVERHEAD then []
    else rd16 data 6 :: wndFields fuel ((data.drop IKCP_OVERHEAD).drop (rd32 data 20).toNat)

theorem encSegs_cons (w : WireSeg) (l : List WireSeg) : encSegs (w :: l) = w.enc ++ encSegs l := by
  unfold encSegs; simp

theorem wndFields_enc (l : List WireSeg) (hl : ∀ w ∈ l, w.data.length < 2^32) (fuel : Nat) (hf : l.length ≤ fuel) :
    wndFields fuel (encSegs l) = l.map (·.wnd) := by
  induction l generalizing fuel with
  | nil => cases fuel <;> simp [wndFields, encSegs, IKCP_OVERHEAD]
  | cons w t ih =>
    cases fuel with
    | zero => simp at hf
    | succ fuel =>
      have hw := hl w (List.mem_cons_self ..)
      rw [encSegs_cons]
      unfold wndFields WireSeg.enc
      rw [List.append_assoc, rd16_hdr, rd32_hdr_len]
      have hlen : ¬ (encodeHdr w.conv w.cmd w.frg w.wnd w.ts w.sn w.una w.data.length ++ (w.data ++ encSegs t)).length < IKCP_OVERHEAD := by
        rw [List.length_append, encodeHdr_length]; omega
      rw [if_neg hlen]
      have hd : List.drop IKCP_OVERHEAD (encodeHdr w.conv w.cmd w.frg w.wnd w.ts w.sn w.una w.data.length ++ (w.data ++ encSegs t))
          = w.data ++ encSegs t := by
        rw [← encodeHdr_length w.conv w.cmd w.frg w.wnd w.ts w.sn w.una w.data.length]
        exact List.drop_left
      have hu : (u32 w.data.length).toNat = w.data.length := by
        unfold u32; rw [BitVec.toNat_ofNat]; exact Nat.mod_eq_of_lt hw
      rw [hd, hu, List.drop_left]
      rw [ih (fun x hx => hl x (List.mem_cons_of_mem _ hx)) fuel (by simpa using hf)]
      rfl

theorem encSegs_length_ge (l : List WireSeg) : IKCP_OVERHEAD * l.length ≤ (encSegs l).length := by
  induction l with
  | nil => simp
  | cons w t ih =>
    rw [encSegs_cons, List.length_append]
    unfold WireSeg.enc
    rw [List.length_append, encodeHdr_length, List.length_cons, Nat.mul_succ]
    omega

/-- with the fuel `Input` uses -/
theorem wndFields_enc' (l : List WireSeg) (hl : ∀ w ∈ l, w.data.length < 2^32) :
    wndFields ((encSegs l).length / IKCP_OVERHEAD + 1) (encSegs l) = l.map (·.wnd) := by
  apply wndFields_enc l hl
  have := encSegs_length_ge l
  have h24 : 0 < IKCP_OVERHEAD := by decide
  have : l.length ≤ (encSegs l).length / IKCP_OVERHEAD := by
    rw [Nat.le_div_iff_mul_le h24]; rw [Nat.mul_comm]; exact this
  omega

theorem encSegs_data_le (l : List WireSeg) (w : WireSeg) (hw : w ∈ l) : w.data.length ≤ (encSegs l).length := by
  induction l with
  | nil => exact absurd hw List.not_mem_nil
  | cons x t ih =>
    rw [encSegs_cons, List.length_append]
    rcases List.mem_cons.1 hw with rfl | h
    · unfold WireSeg.enc; rw [List.length_append]; omega
    · have := ih h; omega

/-- every `wnd` field a receiver parses out of a datagram made of whole segments advertising `wnd` IS `wnd` -/
theorem allWnd_fields {wnd : BitVec 16} {o : Bytes} (h : AllWnd wnd o) (hlen : o.length < 2^32) :
    ∀ x ∈ wndFields (o.length / IKCP_OVERHEAD + 1) o, x = wnd := by
  obtain ⟨l, e, hw⟩ := h
  subst e
  rw [wndFields_enc' l (fun w hm => Nat.lt_of_le_of_lt (encSegs_data_le l w hm) hlen)]
  intro x hx
  obtain ⟨w, hm, rfl⟩ := List.mem_map.1 hx
  exact hw w hm

/-- … and there are as many of them as segments -/
theorem allWnd_count {o : Bytes} (l : List WireSeg) (e : o = encSegs l) (hlen : o.length < 2^32) :
    (wndFields (o.length / IKCP_OVERHEAD + 1) o).length = l.length := by
  subst e
  rw [wndFields_enc' l (fun w hm => Nat.lt_of_le_of_lt (encSegs_data_le l w hm) hlen), List.length_map]


/-! ### all operations -/

/-- the datagrams an operation hands to `output` -/
def stepOuts (k : Kcp) : Op → List Bytes
  | .input d reg nd now => (k.input d reg nd now).outs
  | .flush full now => (k.flush full now).outs
  | .update now => (k.update now).outs
  | _ => []

/-- whether the model recorded a slice-bounds panic of the real code during the operation -/
def stepPanic (k : Kcp) : Op → Bool
  | .send b => (k.send b).panic
  | .input d reg nd now => (k.input d reg nd now).panic
  | .flush full now => (k.flush full now).panic
  | .update now => (k.update now).panic
  | _ => false

/-- every datagram emitted by any operation consists of whole segments that all advertise
`wnd_unused()` of the state the operation leaves behind -/
theorem step_allWnd (k : Kcp) (op : Op) (hp : stepPanic k op = false) :
    ∀ o ∈ stepOuts k op, AllWnd (wndUnused (step k op)) o := by
  cases op with
  | input d reg nd now => exact input_allWnd_post k d reg nd now hp
  | flush full now => exact flush_allWnd_post k full now hp
  | update now => exact update_allWnd_post k now hp
  | _ => intro o hm; exact absurd hm List.not_mem_nil

end KcpVerif.Kcp
