/-
The wire format of the KCP core (C01, DESIGN.md 7.1 item 2): what `flush` writes into its output
buffers is a sequence of frames `encodeHdr … ++ data`; the header parse of `inputLoop` reads the
fields back (`C01_hdr_roundtrip`), so a datagram made of frames whose PUSH members are genuine
satisfies the receive side's premise `GenuineIn`.
-/
import KcpVerif.Model.Kcp
import KcpVerif.Lemmas.KcpFrame
import KcpVerif.Lemmas.KcpRecv

namespace KcpVerif.Wire
open KcpVerif KcpVerif.Gen KcpVerif.Kcp KcpVerif.Frame KcpVerif.Recv

theorem u8_toNat (n : Nat) : (UInt8.ofNat n).toNat = n % 256 := by simp

theorem asm32 (v : U32) :
    BitVec.ofNat 32 (v.toNat % 256 % 256 + 256 * (v.toNat / 256 % 256 % 256) + 65536 * (v.toNat / 65536 % 256 % 256)
      + 16777216 * (v.toNat / 16777216 % 256 % 256)) = v := by
  have := v.isLt
  apply BitVec.eq_of_toNat_eq
  simp only [BitVec.toNat_ofNat]
  omega

theorem asm16 (v : BitVec 16) : BitVec.ofNat 16 (v.toNat % 256 % 256 + 256 * (v.toNat / 256 % 256 % 256)) = v := by
  have := v.isLt
  apply BitVec.eq_of_toNat_eq
  simp only [BitVec.toNat_ofNat]
  omega

theorem asm8 (v : BitVec 8) : BitVec.ofNat 8 (v.toNat % 256) = v := by
  have := v.isLt
  apply BitVec.eq_of_toNat_eq
  simp only [BitVec.toNat_ofNat]
  omega

theorem encodeHdr_length (conv : U32) (cmd frg : BitVec 8) (wnd : BitVec 16) (ts sn una : U32) (len : Nat) :
    (encodeHdr conv cmd frg wnd ts sn una len).length = IKCP_OVERHEAD := by
  simp [encodeHdr, le32, le16, IKCP_OVERHEAD]

/-- the field reads of `inputLoop` give back what `segment.encode` wrote, whatever follows -/
theorem hdr_roundtrip (conv : U32) (cmd frg : BitVec 8) (wnd : BitVec 16) (ts sn una : U32) (len : Nat)
    (rest : Bytes) :
    parseHdr (encodeHdr conv cmd frg wnd ts sn una len ++ rest) =
      ⟨conv, cmd, frg, wnd, ts, sn, una, len % 2 ^ 32⟩ := by
  unfold parseHdr
  simp only [encodeHdr, le32, le16, List.cons_append, List.nil_append, rd32, rd16, byteAt,
    List.getD_cons_zero, List.getD_cons_succ, u8_toNat, Nat.reduceAdd, asm32, asm16, asm8]
  simp [u32]

/-! ### frames -/

structure Frm where
  conv : U32
  cmd  : BitVec 8
  frg  : BitVec 8
  wnd  : BitVec 16
  ts   : U32
  sn   : U32
  una  : U32
  data : Bytes

def encFrame (fr : Frm) : Bytes :=
  encodeHdr fr.conv fr.cmd fr.frg fr.wnd fr.ts fr.sn fr.una fr.data.length ++ fr.data

def encFrames (frs : List Frm) : Bytes := (frs.map encFrame).flatten

/-- a frame that cannot mislead the peer: the payload fits a pool buffer and, if the frame is a
PUSH, its `(frg, payload)` is the genuine content of its sequence number -/
def FrameOk (G : U32 → Content) (fr : Frm) : Prop :=
  fr.data.length ≤ mtuLimit ∧ (fr.cmd.toNat = IKCP_CMD_PUSH → (fr.frg, fr.data) = G fr.sn)

/-- a byte string that is a concatenation of good frames -/
def Framed (G : U32 → Content) (b : Bytes) : Prop := ∃ frs, b = encFrames frs ∧ ∀ fr ∈ frs, FrameOk G fr

theorem Framed.nil (G : U32 → Content) : Framed G [] := ⟨[], rfl, by simp⟩

theorem Framed.snoc {G : U32 → Content} {b : Bytes} (h : Framed G b) (fr : Frm) (hf : FrameOk G fr) :
    Framed G (b ++ encFrame fr) := by
  obtain ⟨frs, hb, hall⟩ := h
  refine ⟨frs ++ [fr], by rw [hb]; simp [encFrames], ?_⟩
  intro x hx
  rcases List.mem_append.mp hx with h1 | h1
  · exact hall x h1
  · rw [List.mem_singleton.mp h1]; exact hf

/-- **round trip**: a concatenation of good frames, parsed by the peer's `Input` loop (any `conv`,
any fuel), shows only genuine PUSH segments -/
theorem framed_genuine (G : U32 → Content) (conv : U32) :
    ∀ (frs : List Frm), (∀ fr ∈ frs, FrameOk G fr) → ∀ fuel, GenuineFrames G conv fuel (encFrames frs) := by
  intro frs
  induction frs with
  | nil =>
    intro _ fuel
    cases fuel with
    | zero => trivial
    | succ f => unfold GenuineFrames; simp [encFrames, IKCP_OVERHEAD]
  | cons fr frs ih =>
    intro hall fuel
    cases fuel with
    | zero => trivial
    | succ f =>
      have hfr := hall fr (List.mem_cons_self ..)
      have e : encFrames (fr :: frs) =
          encodeHdr fr.conv fr.cmd fr.frg fr.wnd fr.ts fr.sn fr.una fr.data.length ++ (fr.data ++ encFrames frs) := by
        simp [encFrames, encFrame]
      have hlen : fr.data.length % 2 ^ 32 = fr.data.length := by
        have := hfr.1; unfold mtuLimit at this; omega
      unfold GenuineFrames
      rw [e, hdr_roundtrip, hlen]
      have hdrop : (encodeHdr fr.conv fr.cmd fr.frg fr.wnd fr.ts fr.sn fr.una fr.data.length ++
          (fr.data ++ encFrames frs)).drop IKCP_OVERHEAD = fr.data ++ encFrames frs := by
        rw [← encodeHdr_length fr.conv fr.cmd fr.frg fr.wnd fr.ts fr.sn fr.una fr.data.length, List.drop_left]
      rw [hdrop]
      simp only []
      split
      · trivial
      · split
        · trivial
        · split
          · trivial
          · split
            · trivial
            · refine ⟨fun hpush => ?_, ?_⟩
              · unfold content pushSeg
                simp only [List.take_left]
                exact hfr.2 hpush
              · rw [List.drop_left]
                exact ih (fun x hx => hall x (List.mem_cons_of_mem _ hx)) f

theorem Framed.genuineIn {G : U32 → Content} {b : Bytes} (h : Framed G b) (conv : U32) : GenuineIn G conv b := by
  obtain ⟨frs, hb, hall⟩ := h
  unfold GenuineIn
  rw [hb]
  exact framed_genuine G conv frs hall _

/-! ### the output buffers of `flush` -/

/-- unless a slice-bounds panic happened, the pending bytes and every finished output are framed -/
def FlOk (G : U32 → Content) (f : Fl) : Prop :=
  f.panic = false → Framed G f.cur ∧ ∀ o ∈ f.outs, Framed G o

theorem FlOk.init (G : U32 → Content) (k : Kcp) : FlOk G { k := k } :=
  fun _ => ⟨Framed.nil G, by simp⟩

theorem FlOk.congr {G : U32 → Content} {f f' : Fl} (h1 : f'.cur = f.cur) (h2 : f'.outs = f.outs)
    (h3 : f'.panic = f.panic) (h : FlOk G f) : FlOk G f' := by
  unfold FlOk; rw [h1, h2, h3]; exact h

theorem makeSpace_flOk {G : U32 → Content} {f : Fl} (h : FlOk G f) (n : Nat) : FlOk G (f.makeSpace n) := by
  unfold Fl.makeSpace
  split
  · intro hp
    obtain ⟨h1, h2⟩ := h hp
    refine ⟨Framed.nil G, fun o ho => ?_⟩
    rcases List.mem_append.mp ho with h3 | h3
    · exact h2 o h3
    · rw [List.mem_singleton.mp h3]; exact h1
  · exact h

/-- a header-only frame (ACK, WASK, WINS) -/
theorem putHdr_flOk {G : U32 → Content} {f : Fl} (h : FlOk G f) (conv : U32) (cmd : BitVec 8) (wnd : BitVec 16)
    (ts sn una : U32) (hc : cmd.toNat ≠ IKCP_CMD_PUSH) :
    FlOk G (f.putHdr (encodeHdr conv cmd 0 wnd ts sn una 0)) := by
  unfold Fl.putHdr
  split
  · intro hp; cases hp
  · intro hp
    obtain ⟨h1, h2⟩ := h hp
    refine ⟨?_, h2⟩
    have := h1.snoc ⟨conv, cmd, 0, wnd, ts, sn, una, []⟩ ⟨by simp, fun hx => absurd hx hc⟩
    simpa [encFrame] using this

/-- the header + payload of a transmitted segment -/
theorem xmitEmit_flOk {G : U32 → Content} {f : Fl} (h : FlOk G f) (s2 : Seg)
    (hs : s2.data.length ≤ mtuLimit ∧ content s2 = G s2.sn) : FlOk G (xmitEmit f s2) := by
  have h1 := makeSpace_flOk h (IKCP_OVERHEAD + s2.data.length)
  have key : FlOk G (((f.makeSpace (IKCP_OVERHEAD + s2.data.length)).putHdr (encodeHdr s2.conv s2.cmd s2.frg s2.wnd s2.ts s2.sn s2.una s2.data.length)).putData
      s2.data) := by
    unfold Fl.putHdr
    split
    · unfold Fl.putData; split <;> (intro hp; cases hp)
    · unfold Fl.putData
      split
      · intro hp; cases hp
      · intro hp
        obtain ⟨h2, h3⟩ := h1 hp
        refine ⟨?_, h3⟩
        have := h2.snoc ⟨s2.conv, s2.cmd, s2.frg, s2.wnd, s2.ts, s2.sn, s2.una, s2.data⟩ ⟨hs.1, fun _ => hs.2⟩
        simpa [encFrame, List.append_assoc] using this
  unfold xmitEmit
  simp only []
  split
  · exact FlOk.congr rfl rfl rfl key
  · exact key

theorem ackFlush_flOk {G : U32 → Content} (wnd : BitVec 16) (una : U32) (total : Nat) :
    ∀ (l : List Ack) (i : Nat) (st : AckSt), FlOk G st.f → st.sc.cmd.toNat ≠ IKCP_CMD_PUSH →
      FlOk G (ackFlush wnd una total l i st).f := by
  intro l
  induction l with
  | nil => intro i st h _; exact h
  | cons a rest ih =>
    intro i st h hc
    unfold ackFlush
    simp only []
    split
    · exact ih _ _ (putHdr_flOk (makeSpace_flOk h _) _ _ _ _ _ _ hc) hc
    · exact ih _ _ (makeSpace_flOk h _) hc

theorem flushA_flOk (G : U32 → Content) (k : Kcp) (now : U32) : FlOk G (flushA k now) := by
  unfold flushA
  simp only []
  have h0 : FlOk G (ackFlush (wndUnused k) k.rcv_nxt k.acklist.length k.acklist 0
      ⟨{ k := k }, { cmd := BitVec.ofNat 8 IKCP_CMD_ACK }⟩).f :=
    ackFlush_flOk _ _ _ _ _ _ (FlOk.init G k)
      (show (BitVec.ofNat 8 IKCP_CMD_ACK).toNat ≠ IKCP_CMD_PUSH by decide)
  generalize (ackFlush (wndUnused k) k.rcv_nxt k.acklist.length k.acklist 0
      ⟨{ k := k }, { cmd := BitVec.ofNat 8 IKCP_CMD_ACK }⟩) = a at h0 ⊢
  have step : ∀ (f : Fl) (c : Prop) [Decidable c] (conv : U32) (cmd : BitVec 8) (ts sn : U32),
      cmd.toNat ≠ IKCP_CMD_PUSH → FlOk G f →
      FlOk G (if c then (f.makeSpace IKCP_OVERHEAD).putHdr (encodeHdr conv cmd 0 (wndUnused k) ts sn k.rcv_nxt 0) else f) := by
    intro f c _ conv cmd ts sn hc hf
    split
    · exact putHdr_flOk (makeSpace_flOk hf _) _ _ _ _ _ _ hc
    · exact hf
  have h1 : FlOk G { a.f with k := probePhase { a.f.k with acklist := [] } now } := h0
  have h2 := step _ (({ a.f with k := probePhase { a.f.k with acklist := [] } now } : Fl).k.probe &&& u32 IKCP_ASK_SEND ≠ 0)
    ({ a.f with k := probePhase { a.f.k with acklist := [] } now } : Fl).k.conv (BitVec.ofNat 8 IKCP_CMD_WASK) a.sc.ts a.sc.sn
    (by decide) h1
  have h3 := step _ ((if ({ a.f with k := probePhase { a.f.k with acklist := [] } now } : Fl).k.probe &&& u32 IKCP_ASK_SEND ≠ 0 then
      (({ a.f with k := probePhase { a.f.k with acklist := [] } now } : Fl).makeSpace IKCP_OVERHEAD).putHdr
        (encodeHdr ({ a.f with k := probePhase { a.f.k with acklist := [] } now } : Fl).k.conv (BitVec.ofNat 8 IKCP_CMD_WASK) 0
          (wndUnused k) a.sc.ts a.sc.sn k.rcv_nxt 0)
      else ({ a.f with k := probePhase { a.f.k with acklist := [] } now } : Fl)).k.probe &&& u32 IKCP_ASK_TELL ≠ 0)
    (if ({ a.f with k := probePhase { a.f.k with acklist := [] } now } : Fl).k.probe &&& u32 IKCP_ASK_SEND ≠ 0 then
      (({ a.f with k := probePhase { a.f.k with acklist := [] } now } : Fl).makeSpace IKCP_OVERHEAD).putHdr
        (encodeHdr ({ a.f with k := probePhase { a.f.k with acklist := [] } now } : Fl).k.conv (BitVec.ofNat 8 IKCP_CMD_WASK) 0
          (wndUnused k) a.sc.ts a.sc.sn k.rcv_nxt 0)
      else ({ a.f with k := probePhase { a.f.k with acklist := [] } now } : Fl)).k.conv
    (BitVec.ofNat 8 IKCP_CMD_WINS) a.sc.ts a.sc.sn (by decide) h2
  exact h3

end KcpVerif.Wire
