/-
Why `Lawful` (Lemmas/FecSpec) is restricted to `d + p ≤ 256`: the same law quantified over ALL ratios
(`LawfulAll`, the form it had before) is satisfied by NO codec constructor, so theorems assuming it
would be vacuous.  The instance `d = 2`, `p = 300`, one-byte shards would be a `[302, 2]` MDS code over
an alphabet of 256 letters: two distinct codewords agree in at most one position (`two_positions`); the
256 codewords of the data `(0, b)` agree in position 0, hence differ pairwise in every other position,
so in each position `j ≥ 1` they take all 256 values and one of them meets the codeword of `(1, 0)`
there; distinct positions give distinct `b` — an injection of 301 positions into 256 bytes.
-/
import KcpVerif.Lemmas.FecSpec
import Mathlib.Data.Fintype.Card
import Mathlib.Data.Fintype.EquivFin

namespace KcpVerif.Lemmas.LawRange
open KcpVerif.Fec KcpVerif.Lemmas.FecSpec

/-- the list-level MDS law WITHOUT a restriction of the ratio (unsatisfiable) -/
structure LawfulAll (C : CodecNew) : Prop where
  enc_length : ∀ (d p : Nat) (data : List Bytes), data.length = d → ((C d p).enc data).length = p
  enc_size : ∀ (d p L : Nat) (data : List Bytes), data.length = d → (∀ s ∈ data, s.length = L) →
    ∀ s ∈ (C d p).enc data, s.length = L
  recon : ∀ (d p L : Nat) (data : List Bytes) (present : List Bool), 0 < d → 0 < L →
    data.length = d → (∀ s ∈ data, s.length = L) → present.length = d + p →
    d ≤ present.count true →
    (C d p).recon (mask present (data ++ (C d p).enc data)) = some data

/-- presence pattern: exactly the positions `i` and `j` of `n` -/
def pres (n i j : Nat) : List Bool := (List.range n).map fun k => k == i || k == j

theorem count_range_mono (f : Nat → Bool) {m n : Nat} (h : m ≤ n) :
    ((List.range m).map f).count true ≤ ((List.range n).map f).count true :=
  (((List.range_sublist).2 h).map f).count_le true

theorem count_range_succ (f : Nat → Bool) (n : Nat) (h : f n = true) :
    ((List.range (n + 1)).map f).count true = ((List.range n).map f).count true + 1 := by
  rw [List.range_succ, List.map_append, List.count_append, List.map_singleton, h]
  rfl

theorem count_pres {n i j : Nat} (hij : i < j) (hj : j < n) : 2 ≤ (pres n i j).count true := by
  unfold pres
  have h1 := count_range_mono (fun k => k == i || k == j) (show j + 1 ≤ n by omega)
  have h2 := count_range_succ (fun k => k == i || k == j) j (by simp)
  have h3 := count_range_mono (fun k => k == i || k == j) (show i + 1 ≤ j by omega)
  have h4 := count_range_succ (fun k => k == i || k == j) i (by simp)
  omega

theorem mask_pres {n i j : Nat} {cw : List Bytes} (hcw : cw.length = n) :
    mask (pres n i j) cw
      = (List.range n).map fun k => if (k == i || k == j) = true then some (cw.getD k []) else none := by
  unfold mask pres
  apply List.ext_getElem
  · simp [hcw]
  · intro k h1 h2
    have hk : k < n := by simpa using h2
    simp only [List.getElem_zipWith, List.getElem_map, List.getElem_range]
    rw [List.getD_eq_getElem?_getD, List.getElem?_eq_getElem (hcw ▸ hk)]
    rfl

theorem singleton_of_length {s : Bytes} (h : s.length = 1) : s = [s.headD 0] := by
  match s, h with
  | [x], _ => rfl

theorem ofFin_inj {a b : Fin 256} (h : UInt8.ofFin a = UInt8.ofFin b) : a = b := by
  have := congrArg UInt8.toFin h
  simpa using this

section
variable {C : CodecNew} (hC : LawfulAll C)

/-- data `(a, b)`: two one-byte shards -/
def dat (a b : Fin 256) : List Bytes := [[UInt8.ofFin a], [UInt8.ofFin b]]

/-- the codeword of `(a, b)` under the ratio 2/300 -/
def cw (C : CodecNew) (a b : Fin 256) : List Bytes := dat a b ++ (C 2 300).enc (dat a b)

/-- the symbol at position `j` -/
def sym (C : CodecNew) (a b : Fin 256) (j : Nat) : Fin 256 := (((cw C a b).getD j []).headD 0).toFin

include hC

theorem cw_length (a b : Fin 256) : (cw C a b).length = 302 := by
  unfold cw; rw [List.length_append, hC.enc_length 2 300 _ rfl]; rfl

theorem cw_size (a b : Fin 256) : ∀ s ∈ cw C a b, s.length = 1 := by
  intro s hs
  rcases List.mem_append.1 hs with h | h
  · simp only [dat, List.mem_cons, List.not_mem_nil, or_false] at h
    rcases h with rfl | rfl <;> rfl
  · exact hC.enc_size 2 300 1 (dat a b) rfl (by intro t ht; simp only [dat, List.mem_cons, List.not_mem_nil, or_false] at ht; rcases ht with rfl | rfl <;> rfl) s h

theorem shard_eq (a b : Fin 256) {j : Nat} (hj : j < 302) :
    (cw C a b).getD j [] = [UInt8.ofFin (sym C a b j)] := by
  have hmem : (cw C a b).getD j [] ∈ cw C a b := by
    rw [List.getD_eq_getElem?_getD, List.getElem?_eq_getElem (by rw [cw_length hC]; exact hj)]
    exact List.getElem_mem _
  rw [singleton_of_length (cw_size hC a b _ hmem)]
  simp [sym]

/-- two distinct codewords agree in at most one position -/
theorem two_positions {a b a' b' : Fin 256} {i j : Nat} (hij : i < j) (hj : j < 302)
    (h1 : sym C a b i = sym C a' b' i) (h2 : sym C a b j = sym C a' b' j) : a = a' ∧ b = b' := by
  have hr := hC.recon 2 300 1 (dat a b) (pres 302 i j) (by decide) (by decide) rfl
    (by intro t ht; simp only [dat, List.mem_cons, List.not_mem_nil, or_false] at ht; rcases ht with rfl | rfl <;> rfl)
    (by simp [pres]) (count_pres hij hj)
  have hr' := hC.recon 2 300 1 (dat a' b') (pres 302 i j) (by decide) (by decide) rfl
    (by intro t ht; simp only [dat, List.mem_cons, List.not_mem_nil, or_false] at ht; rcases ht with rfl | rfl <;> rfl)
    (by simp [pres]) (count_pres hij hj)
  have hmask : mask (pres 302 i j) (cw C a b) = mask (pres 302 i j) (cw C a' b') := by
    rw [mask_pres (cw_length hC a b), mask_pres (cw_length hC a' b')]
    apply List.map_congr_left
    intro k hk
    have hk' : k < 302 := List.mem_range.1 hk
    split
    · rename_i hkk
      rw [shard_eq hC a b hk', shard_eq hC a' b' hk']
      simp only [Bool.or_eq_true, beq_iff_eq] at hkk
      rcases hkk with rfl | rfl
      · rw [h1]
      · rw [h2]
    · rfl
  have : some (dat a b) = some (dat a' b') := by
    rw [← hr, ← hr']; exact congrArg _ hmask
  simp only [dat, Option.some.injEq, List.cons.injEq, and_true] at this
  exact ⟨ofFin_inj this.1, ofFin_inj this.2⟩

omit hC in
theorem sym_zero (a b : Fin 256) : sym C a b 0 = a := by
  simp [sym, cw, dat]

theorem impossible : False := by
  -- in every position j ≥ 1 the codewords of (0, b) take all values
  have hinj : ∀ j, 1 ≤ j → j < 302 → Function.Injective (fun b : Fin 256 => sym C 0 b j) := by
    intro j h1 h2 b b' hbb
    exact (two_positions hC (i := 0) (j := j) (by omega) h2
      (by rw [sym_zero, sym_zero]) hbb).2
  have hsurj : ∀ j, 1 ≤ j → j < 302 → ∃ b : Fin 256, sym C 0 b j = sym C 1 0 j := by
    intro j h1 h2
    exact (Finite.injective_iff_surjective.1 (hinj j h1 h2)) _
  choose g hg using hsurj
  let G : Fin 301 → Fin 256 := fun j => g (j.val + 1) (by omega) (by omega)
  have hG : Function.Injective G := by
    intro x y hxy
    by_contra hne
    have hne' : x.val ≠ y.val := fun h => hne (Fin.ext h)
    rcases Nat.lt_or_gt_of_ne hne' with hlt | hlt
    · have := two_positions hC (a := 0) (b := G x) (a' := 1) (b' := 0) (i := x.val + 1) (j := y.val + 1)
        (by omega) (by omega) (hg _ _ _) (by rw [hxy]; exact hg _ _ _)
      exact absurd this.1 (by decide)
    · have := two_positions hC (a := 0) (b := G y) (a' := 1) (b' := 0) (i := y.val + 1) (j := x.val + 1)
        (by omega) (by omega) (hg _ _ _) (by rw [← hxy]; exact hg _ _ _)
      exact absurd this.1 (by decide)
  have := Fintype.card_le_of_injective G hG
  simp at this

end

/-- no codec constructor satisfies the unrestricted law -/
theorem lawfulAll_impossible (C : CodecNew) : ¬ LawfulAll C := fun hC => impossible hC

end KcpVerif.Lemmas.LawRange
