/-
Send side of C01 (DESIGN.md 7.1 items 1–2): the invariant `InvS` of the send half of the KCP core
(`snd_una`, `snd_nxt`, `snd_queue`, `snd_buf`) against the ghost log `L` of the contents of the
segments that have been given a sequence number so far.
-/
import KcpVerif.Model.Kcp
import KcpVerif.Lemmas.KcpFrame
import KcpVerif.Lemmas.KcpRecv
import KcpVerif.Lemmas.KcpWire

namespace KcpVerif.Send
open KcpVerif KcpVerif.Gen KcpVerif.Kcp KcpVerif.Frame KcpVerif.Recv KcpVerif.Wire

/-- `buf` lists the sequence numbers `sn0 + a, sn0 + a + 1, …` consecutively; every entry that has
not been acknowledged still carries the content logged under its index (`parse_ack` clears the
payload of an acknowledged entry); payloads fit a pool buffer -/
def BufS (sn0 : U32) (L : List Content) : Nat → List Seg → Prop
  | _, [] => True
  | a, s :: rest =>
    (s.sn = sn0 + BitVec.ofNat 32 a ∧ s.data.length ≤ mtuLimit ∧
      (s.acked = false → L[a]? = some (content s))) ∧ BufS sn0 L (a + 1) rest

theorem BufS.drop {sn0 : U32} {L : List Content} : ∀ {a : Nat} {buf : List Seg} (c : Nat),
    BufS sn0 L a buf → c ≤ buf.length → BufS sn0 L (a + c) (buf.drop c) := by
  intro a buf c
  induction c generalizing a buf with
  | zero => intro h _; simpa using h
  | succ c ih =>
    intro h hc
    cases buf with
    | nil => simp at hc
    | cons s rest =>
      have := ih (a := a + 1) (buf := rest) h.2 (by simpa using hc)
      rw [List.drop_succ_cons]
      have e : a + (c + 1) = a + 1 + c := by omega
      rw [e]; exact this

theorem BufS.append {sn0 : U32} {L : List Content} : ∀ {a : Nat} {buf new : List Seg},
    BufS sn0 L a buf → BufS sn0 L (a + buf.length) new → BufS sn0 L a (buf ++ new) := by
  intro a buf
  induction buf generalizing a with
  | nil => intro new _ h; simpa using h
  | cons s rest ih =>
    intro new h hn
    refine ⟨h.1, ih h.2 ?_⟩
    have e : a + (s :: rest).length = a + 1 + rest.length := by simp; omega
    rw [e] at hn; exact hn

/-- the log only grows -/
theorem BufS.mono {sn0 : U32} {L : List Content} (X : List Content) : ∀ {a : Nat} {buf : List Seg},
    BufS sn0 L a buf → BufS sn0 (L ++ X) a buf := by
  intro a buf
  induction buf generalizing a with
  | nil => intro _; trivial
  | cons s rest ih =>
    intro h
    refine ⟨⟨h.1.1, h.1.2.1, fun hac => ?_⟩, ih h.2⟩
    have h1 := h.1.2.2 hac
    have hlt : a < L.length := by
      rcases Nat.lt_or_ge a L.length with h2 | h2
      · exact h2
      · rw [List.getElem?_eq_none h2] at h1; cases h1
    rw [List.getElem?_append_left hlt]; exact h1

theorem BufS.get {sn0 : U32} {L : List Content} : ∀ {a : Nat} {buf : List Seg},
    BufS sn0 L a buf → ∀ s ∈ buf, ∃ i, s.sn = sn0 + BitVec.ofNat 32 i ∧ s.data.length ≤ mtuLimit ∧
      (s.acked = false → L[i]? = some (content s)) := by
  intro a buf
  induction buf generalizing a with
  | nil => intro _ s hs; cases hs
  | cons x rest ih =>
    intro h s hs
    rcases List.mem_cons.mp hs with h1 | h1
    · rw [h1]; exact ⟨a, h.1⟩
    · exact ih h.2 s h1

/-- segments that differ only in retransmission bookkeeping -/
def SegSim (s s' : Seg) : Prop :=
  s'.sn = s.sn ∧ s'.acked = s.acked ∧ s'.frg = s.frg ∧ s'.data = s.data ∧ s'.conv = s.conv ∧ s'.cmd = s.cmd

theorem SegSim.refl (s : Seg) : SegSim s s := ⟨rfl, rfl, rfl, rfl, rfl, rfl⟩

def SimL : List Seg → List Seg → Prop
  | [], [] => True
  | s :: l, s' :: l' => SegSim s s' ∧ SimL l l'
  | _, _ => False

theorem SimL.refl : ∀ l : List Seg, SimL l l
  | [] => trivial
  | s :: l => ⟨SegSim.refl s, SimL.refl l⟩

theorem SimL.length : ∀ {l l' : List Seg}, SimL l l' → l'.length = l.length
  | [], [], _ => rfl
  | _ :: l, _ :: l', h => by simp [SimL.length (l := l) (l' := l') h.2]
  | [], _ :: _, h => h.elim
  | _ :: _, [], h => h.elim

theorem SimL.append : ∀ {a a' b b' : List Seg}, SimL a a' → SimL b b' → SimL (a ++ b) (a' ++ b')
  | [], [], _, _, _, h => h
  | _ :: a, _ :: a', _, _, h1, h2 => ⟨h1.1, SimL.append (a := a) (a' := a') h1.2 h2⟩
  | [], _ :: _, _, _, h, _ => h.elim
  | _ :: _, [], _, _, h, _ => h.elim

theorem BufS.sim {sn0 : U32} {L : List Content} : ∀ {a : Nat} {buf buf' : List Seg},
    SimL buf buf' → BufS sn0 L a buf → BufS sn0 L a buf'
  | _, [], [], _, _ => trivial
  | a, s :: l, s' :: l', h, hb => by
    obtain ⟨h1, h2, h3, h4, _, _⟩ := h.1
    refine ⟨⟨by rw [h1]; exact hb.1.1, by rw [h4]; exact hb.1.2.1, fun hac => ?_⟩, BufS.sim h.2 hb.2⟩
    have : content s' = content s := by unfold content; rw [h3, h4]
    rw [this]; exact hb.1.2.2 (by rw [← h2]; exact hac)
  | _, [], _ :: _, h, _ => h.elim
  | _, _ :: _, [], h, _ => h.elim

/-! ### parse_una / parse_ack / parse_fastack -/

theorem unaCount_le (una : U32) (l : List Seg) : unaCount una l ≤ l.length := by
  induction l with
  | nil => exact Nat.le_refl _
  | cons s rest ih => unfold unaCount; split <;> simp <;> omega

theorem ackLoop_bufS {sn0 : U32} {L : List Content} (sn : U32) : ∀ {a : Nat} {buf : List Seg},
    BufS sn0 L a buf → BufS sn0 L a (ackLoop sn buf) := by
  intro a buf
  induction buf generalizing a with
  | nil => intro _; trivial
  | cons s rest ih =>
    intro h
    unfold ackLoop
    split
    · exact ⟨⟨h.1.1, by simp, fun hc => by simp at hc⟩, h.2⟩
    · split
      · exact h
      · exact ⟨h.1, ih h.2⟩

theorem ackLoop_length (sn : U32) (l : List Seg) : (ackLoop sn l).length = l.length := by
  induction l with
  | nil => rfl
  | cons s rest ih =>
    unfold ackLoop
    split
    · rfl
    · split
      · rfl
      · simp [ih]

theorem fastLoop_sim (sn ts fr : U32) : ∀ l : List Seg, SimL l (fastLoop sn ts fr l).buf := by
  intro l
  induction l with
  | nil => trivial
  | cons s rest ih =>
    unfold fastLoop
    split
    · exact SimL.refl _
    · split
      · exact ⟨⟨rfl, rfl, rfl, rfl, rfl, rfl⟩, ih⟩
      · exact ⟨SegSim.refl _, ih⟩

/-! ### the send-side invariant -/

structure InvS (sn0 : U32) (k : Kcp) (L : List Content) : Prop where
  nxt : k.snd_nxt = sn0 + BitVec.ofNat 32 L.length
  buf : ∃ a, a + k.snd_buf.length = L.length ∧ k.snd_una = sn0 + BitVec.ofNat 32 a ∧ BufS sn0 L a k.snd_buf
  que : ∀ s ∈ k.snd_queue, s.data.length ≤ mtuLimit

theorem InvS.congr {sn0 : U32} {k k' : Kcp} {L : List Content} (h : InvS sn0 k L)
    (h1 : k'.snd_nxt = k.snd_nxt) (h2 : k'.snd_una = k.snd_una) (h3 : k'.snd_buf = k.snd_buf)
    (h4 : k'.snd_queue = k.snd_queue) : InvS sn0 k' L :=
  ⟨by rw [h1]; exact h.nxt, by rw [h2, h3]; exact h.buf, by rw [h4]; exact h.que⟩

theorem InvS.same {sn0 : U32} {k k' : Kcp} {L : List Content} (h : InvS sn0 k L) (hs : SndSame k k') :
    InvS sn0 k' L := h.congr hs.snd_nxt hs.snd_una hs.snd_buf hs.snd_queue

theorem InvS.fresh (k : Kcp) (hq : k.snd_queue = []) (hb : k.snd_buf = []) (hu : k.snd_una = k.snd_nxt) :
    InvS k.snd_nxt k [] :=
  ⟨by simp, ⟨0, by simp [hb], by simp [hu], by rw [hb]; trivial⟩, by simp [hq]⟩

/-! `shrink_buf`: drop the individually acknowledged head segments, then set `snd_una` -/

theorem dropAcked_drop (l : List Seg) : ∃ c, c ≤ l.length ∧ dropAcked l = l.drop c := by
  induction l with
  | nil => exact ⟨0, Nat.le_refl _, rfl⟩
  | cons s rest ih =>
    unfold dropAcked
    split
    · obtain ⟨c, hc, h⟩ := ih
      exact ⟨c + 1, by simp; omega, by simpa using h⟩
    · exact ⟨0, Nat.zero_le _, rfl⟩

theorem shrinkBuf_nil (k : Kcp) (h : dropAcked k.snd_buf = []) :
    shrinkBuf k = { k with snd_buf := [], snd_una := k.snd_nxt } := by
  unfold shrinkBuf; rw [h]

theorem shrinkBuf_cons (k : Kcp) (s : Seg) (rest : List Seg) (h : dropAcked k.snd_buf = s :: rest) :
    shrinkBuf k = { k with snd_buf := s :: rest, snd_una := s.sn } := by
  unfold shrinkBuf; rw [h]

theorem shrinkBuf_queue (k : Kcp) : (shrinkBuf k).snd_queue = k.snd_queue ∧ (shrinkBuf k).snd_nxt = k.snd_nxt ∧
    (shrinkBuf k).mss = k.mss ∧ (shrinkBuf k).stream = k.stream := by
  unfold shrinkBuf
  split <;> exact ⟨rfl, rfl, rfl, rfl⟩

/-- `shrink_buf` establishes the invariant from its `snd_una`-free part (what `parse_una` and
`parse_ack` leave behind): popping acknowledged heads and advancing `snd_una` go together -/
theorem shrinkBuf_invS {sn0 : U32} {k : Kcp} {L : List Content}
    (hn : k.snd_nxt = sn0 + BitVec.ofNat 32 L.length)
    (hb : ∃ a, a + k.snd_buf.length = L.length ∧ BufS sn0 L a k.snd_buf)
    (hq : ∀ s ∈ k.snd_queue, s.data.length ≤ mtuLimit) : InvS sn0 (shrinkBuf k) L := by
  obtain ⟨a, hlen, hbs⟩ := hb
  obtain ⟨c, hc, hd⟩ := dropAcked_drop k.snd_buf
  have hdrop := hbs.drop c hc
  cases hx : dropAcked k.snd_buf with
  | nil =>
    rw [shrinkBuf_nil k hx]
    exact ⟨hn, ⟨L.length, by simp, hn, trivial⟩, hq⟩
  | cons s rest =>
    rw [shrinkBuf_cons k s rest hx]
    rw [hx] at hd
    rw [← hd] at hdrop
    refine ⟨hn, ⟨a + c, ?_, hdrop.1.1, hdrop⟩, hq⟩
    have := congrArg List.length hd
    simp at this
    show a + c + (s :: rest).length = L.length
    simp; omega

theorem InvS.shrink {sn0 : U32} {k : Kcp} {L : List Content} (h : InvS sn0 k L) : InvS sn0 (shrinkBuf k) L := by
  obtain ⟨a, hlen, _, hb⟩ := h.buf
  exact shrinkBuf_invS h.nxt ⟨a, hlen, hb⟩ h.que

/-- window update + `parse_una` + `shrink_buf` -/
theorem inSt1_invS {sn0 : U32} {st : InLoop} {L : List Content} (h : InvS sn0 st.k L) (regular : Bool) (hd : Hdr) :
    InvS sn0 (inSt1 regular st hd).k L := by
  obtain ⟨a, hlen, huna, hb⟩ := h.buf
  have key : ∀ k1 : Kcp, k1.snd_buf = st.k.snd_buf → k1.snd_nxt = st.k.snd_nxt → k1.snd_queue = st.k.snd_queue →
      InvS sn0 (shrinkBuf (parseUna k1 hd.una).1) L := by
    intro k1 e1 e2 e3
    have hc := unaCount_le hd.una st.k.snd_buf
    have hdrop := hb.drop (unaCount hd.una st.k.snd_buf) hc
    apply shrinkBuf_invS
    · show k1.snd_nxt = _; rw [e2]; exact h.nxt
    · refine ⟨a + unaCount hd.una st.k.snd_buf, ?_, ?_⟩
      · show _ + (k1.snd_buf.drop (unaCount hd.una k1.snd_buf)).length = _
        rw [e1, List.length_drop]; omega
      · show BufS sn0 L _ (k1.snd_buf.drop (unaCount hd.una k1.snd_buf))
        rw [e1]; exact hdrop
    · show ∀ s ∈ k1.snd_queue, _; rw [e3]; exact h.que
  unfold inSt1
  simp only []
  split
  · exact key _ rfl rfl rfl
  · exact key _ rfl rfl rfl

theorem parseAck_invS {sn0 : U32} {k : Kcp} {L : List Content} (h : InvS sn0 k L) (sn : U32) :
    InvS sn0 (parseAck k sn) L := by
  unfold parseAck
  split
  · exact h
  · obtain ⟨a, hlen, huna, hb⟩ := h.buf
    exact ⟨h.nxt, ⟨a, by show a + (ackLoop sn k.snd_buf).length = _; rw [ackLoop_length]; exact hlen, huna,
      ackLoop_bufS sn hb⟩, h.que⟩

theorem parseFastack_invS {sn0 : U32} {k : Kcp} {L : List Content} (h : InvS sn0 k L) (sn ts : U32) :
    InvS sn0 (parseFastack k sn ts).1 L := by
  unfold parseFastack
  split
  · exact h
  · obtain ⟨a, hlen, huna, hb⟩ := h.buf
    have hs := fastLoop_sim sn ts k.fastresend k.snd_buf
    exact ⟨h.nxt, ⟨a, by show a + (fastLoop sn ts k.fastresend k.snd_buf).buf.length = _; rw [hs.length]; exact hlen,
      huna, hb.sim hs⟩, h.que⟩

theorem inSt2_invS {sn0 : U32} {st1 : InLoop} {L : List Content} (h : InvS sn0 st1.k L) (hd : Hdr) (body : Bytes) :
    InvS sn0 (inSt2 st1 hd body).k L := by
  unfold inSt2
  simp only []
  split
  · exact parseFastack_invS (parseAck_invS h _).shrink _ _
  · split
    · split
      · split
        · exact (h.congr (k' := { st1.k with acklist := st1.k.acklist ++ [⟨hd.sn, hd.ts⟩] }) rfl rfl rfl rfl).same
            (parseData_sndSame _ _)
        · exact h.congr rfl rfl rfl rfl
      · exact h
    · split
      · exact h.congr rfl rfl rfl rfl
      · exact h

theorem inputLoop_invS {sn0 : U32} {L : List Content} (regular : Bool) :
    ∀ (fuel : Nat) (data : Bytes) (st : InLoop), InvS sn0 st.k L → InvS sn0 (inputLoop regular fuel data st).k L := by
  intro fuel
  induction fuel with
  | zero => intro data st h; exact h
  | succ fuel ih =>
    intro data st h
    rw [inputLoop_succ]
    have h2 := inSt2_invS (inSt1_invS h regular (parseHdr data)) (parseHdr data) (data.drop IKCP_OVERHEAD)
    split
    · exact h
    · split
      · exact h
      · split
        · exact h
        · split
          · exact h
          · split
            · exact h2
            · exact ih _ _ h2

/-! ### flush: admission (phase 4) -/

/-- `admitSegs` moves a prefix of the queue to the buffer, numbering it consecutively from `snd_nxt`;
with the log extended by the contents of that prefix the buffer invariant carries over -/
theorem admitSegs_spec (sn0 conv una cwnd now : U32) :
    ∀ (q buf : List Seg) (nxt : U32) (c : Nat) (L : List Content) (a : Nat),
      nxt = sn0 + BitVec.ofNat 32 L.length → a + buf.length = L.length → BufS sn0 L a buf →
      (∀ s ∈ q, s.data.length ≤ mtuLimit) →
      ∃ j, j ≤ q.length ∧ (admitSegs conv una cwnd now q buf nxt c).queue = q.drop j ∧
        (admitSegs conv una cwnd now q buf nxt c).nxt = sn0 + BitVec.ofNat 32 (L.length + j) ∧
        (admitSegs conv una cwnd now q buf nxt c).count = c + j ∧
        a + (admitSegs conv una cwnd now q buf nxt c).buf.length = L.length + j ∧
        BufS sn0 (L ++ (q.take j).map content) a (admitSegs conv una cwnd now q buf nxt c).buf := by
  intro q
  induction q with
  | nil =>
    intro buf nxt c L a h1 h2 h3 _
    unfold admitSegs
    exact ⟨0, Nat.le_refl _, rfl, by simpa using h1, rfl, by simpa using h2, by simpa using h3⟩
  | cons s rest ih =>
    intro buf nxt c L a h1 h2 h3 h4
    unfold admitSegs
    split
    · exact ⟨0, Nat.zero_le _, rfl, by simpa using h1, rfl, by simpa using h2, by simpa using h3⟩
    · have hn : nxt + 1 = sn0 + BitVec.ofNat 32 (L ++ [content s]).length := by
        rw [h1]; simp only [List.length_append, List.length_singleton, BitVec.ofNat_add, BitVec.add_assoc]; rfl
      have hb : BufS sn0 (L ++ [content s]) a
          (buf ++ [{ s with conv := conv, cmd := BitVec.ofNat 8 IKCP_CMD_PUSH, sn := nxt, ts := now, resendts := now }]) := by
        refine (h3.mono [content s]).append ⟨⟨?_, h4 s (List.mem_cons_self ..), fun _ => ?_⟩, trivial⟩
        · show nxt = _; rw [h1, h2]
        · rw [h2, List.getElem?_append_right (Nat.le_refl _)]; simp [content]
      obtain ⟨j, hj, r1, r2, r3, r4, r5⟩ := ih _ (nxt + 1) (c + 1) (L ++ [content s]) a hn
        (by simp; omega) hb (fun x hx => h4 x (List.mem_cons_of_mem _ hx))
      have hl : (L ++ [content s]).length = L.length + 1 := by simp
      rw [hl] at r2 r4
      refine ⟨j + 1, by simp; omega, by simpa using r1, ?_, by omega, ?_, ?_⟩
      · rw [r2]; congr 2; omega
      · rw [r4]; omega
      · simpa [List.append_assoc] using r5

/-! ### flush: transmission (phase 5) -/

theorem xmitDecide_sim (now resent : U32) (newSegs : Nat) (k : Kcp) (s : Seg) :
    SegSim s (xmitDecide now resent newSegs k s).2.1 := by
  unfold xmitDecide
  simp only []
  repeat' split
  all_goals exact ⟨rfl, rfl, rfl, rfl, rfl, rfl⟩

theorem xmitSeg_sim (now : U32) (wnd : BitVec 16) (una : U32) (r : Bool × Seg × Nat × Nat) :
    SegSim r.2.1 (xmitSeg now wnd una r) := by
  unfold xmitSeg
  split <;> exact ⟨rfl, rfl, rfl, rfl, rfl, rfl⟩

theorem SegSim.trans {a b c : Seg} (h1 : SegSim a b) (h2 : SegSim b c) : SegSim a c :=
  ⟨h2.1.trans h1.1, h2.2.1.trans h1.2.1, h2.2.2.1.trans h1.2.2.1, h2.2.2.2.1.trans h1.2.2.2.1,
   h2.2.2.2.2.1.trans h1.2.2.2.2.1, h2.2.2.2.2.2.trans h1.2.2.2.2.2⟩

/-- what may go on the wire for a buffered segment -/
def SegG (G : U32 → Content) (s : Seg) : Prop :=
  s.acked = false → s.data.length ≤ mtuLimit ∧ content s = G s.sn

theorem xmitOne_spec (G : U32 → Content) (now resent : U32) (wnd : BitVec 16) (una : U32) (newSegs : Nat)
    (st : XmitSt) (s : Seg) :
    ∃ s2, (xmitOne now resent wnd una newSegs st s).done = st.done ++ [s2] ∧ SegSim s s2 ∧
      (FlOk G st.f → SegG G s → FlOk G (xmitOne now resent wnd una newSegs st s).f) := by
  rw [xmitOne_eq]
  by_cases hac : s.acked = true
  · rw [if_pos hac]
    exact ⟨s, rfl, SegSim.refl s, fun h _ => h⟩
  · rw [if_neg hac]
    have hsim : SegSim s (xmitSeg now wnd una (xmitDecide now resent newSegs st.f.k s)) :=
      (xmitDecide_sim now resent newSegs st.f.k s).trans (xmitSeg_sim now wnd una _)
    refine ⟨xmitSeg now wnd una (xmitDecide now resent newSegs st.f.k s), rfl, hsim, fun h hg => ?_⟩
    unfold xmitCore
    simp only []
    split
    · apply xmitEmit_flOk h
      obtain ⟨e1, _, e3, e4, _, _⟩ := hsim
      have hg' := hg (by simpa using hac)
      unfold content at hg' ⊢
      rw [e1, e3, e4]; exact hg'
    · exact h

theorem xmitFold_spec (G : U32 → Content) (now resent : U32) (wnd : BitVec 16) (una : U32) (newSegs : Nat) :
    ∀ (l : List Seg) (st : XmitSt),
      ∃ l', (l.foldl (xmitOne now resent wnd una newSegs) st).done = st.done ++ l' ∧ SimL l l' ∧
        (FlOk G st.f → (∀ s ∈ l, SegG G s) → FlOk G (l.foldl (xmitOne now resent wnd una newSegs) st).f) := by
  intro l
  induction l with
  | nil => intro st; exact ⟨[], by simp, trivial, fun h _ => h⟩
  | cons s rest ih =>
    intro st
    rw [List.foldl_cons]
    obtain ⟨s2, h1, h2, h3⟩ := xmitOne_spec G now resent wnd una newSegs st s
    obtain ⟨l', r1, r2, r3⟩ := ih (xmitOne now resent wnd una newSegs st s)
    refine ⟨s2 :: l', by rw [r1, h1]; simp, ⟨h2, r2⟩, fun hf hall => ?_⟩
    exact r3 (h3 hf (hall s (List.mem_cons_self ..))) (fun x hx => hall x (List.mem_cons_of_mem _ hx))

/-! ### flush as a whole -/

/-- contents of the segments that left `snd_queue` between `k` and `k'` (an operation that admits
segments removes a prefix of the queue and appends nothing) -/
def admitted (k k' : Kcp) : List Content :=
  (k.snd_queue.take (k.snd_queue.length - k'.snd_queue.length)).map content

/-- `G` agrees with the log: the content function the peer's receive side is measured against -/
def Agree (G : U32 → Content) (sn0 : U32) (L : List Content) : Prop :=
  ∀ i c, L[i]? = some c → G (sn0 + BitVec.ofNat 32 i) = c

theorem Agree.prefix {G : U32 → Content} {sn0 : U32} {L X : List Content} (h : Agree G sn0 (L ++ X)) :
    Agree G sn0 L := by
  intro i c hc
  apply h i c
  have hlt : i < L.length := by
    rcases Nat.lt_or_ge i L.length with h2 | h2
    · exact h2
    · rw [List.getElem?_eq_none h2] at hc; cases hc
  rw [List.getElem?_append_left hlt]; exact hc

theorem BufS.segG {G : U32 → Content} {sn0 : U32} {L : List Content} {a : Nat} {buf : List Seg}
    (h : BufS sn0 L a buf) (hG : Agree G sn0 L) : ∀ s ∈ buf, SegG G s := by
  intro s hs hac
  obtain ⟨i, h1, h2, h3⟩ := h.get s hs
  exact ⟨h2, by rw [h1]; exact (hG i _ (h3 hac)).symm⟩

theorem flushAdmit_spec {sn0 : U32} {k : Kcp} {L : List Content} (h : InvS sn0 k L) (now : U32) :
    ∃ j, j ≤ k.snd_queue.length ∧ (flushAdmit k now).queue = k.snd_queue.drop j ∧
      (flushAdmit k now).nxt = sn0 + BitVec.ofNat 32 (L.length + j) ∧ (flushAdmit k now).count = j ∧
      ∃ a, a + (flushAdmit k now).buf.length = L.length + j ∧ k.snd_una = sn0 + BitVec.ofNat 32 a ∧
        BufS sn0 (L ++ (k.snd_queue.take j).map content) a (flushAdmit k now).buf := by
  obtain ⟨a, hlen, huna, hb⟩ := h.buf
  obtain ⟨j, hj, r1, r2, r3, r4, r5⟩ := admitSegs_spec sn0 k.conv k.snd_una (flushCwnd k) now k.snd_queue k.snd_buf
    k.snd_nxt 0 L a h.nxt hlen hb h.que
  exact ⟨j, hj, r1, r2, by unfold flushAdmit; simpa using r3, a, r4, huna, r5⟩

theorem flushX_spec (G : U32 → Content) (f : Fl) (full : Bool) (now : U32) (wnd : BitVec 16) (una : U32)
    (count : Nat) :
    SimL f.k.snd_buf (flushX f full now wnd una count).done ∧
      (FlOk G f → (∀ s ∈ f.k.snd_buf, SegG G s) → FlOk G (flushX f full now wnd una count).f) := by
  unfold flushX
  split
  · obtain ⟨l', h1, h2, h3⟩ := xmitFold_spec G now (flushResent f.k) wnd una count f.k.snd_buf
      { f := f, next := f.k.interval }
    rw [h1]
    exact ⟨by simpa using h2, h3⟩
  · exact ⟨SimL.refl _, fun h _ => h⟩

/-- **`flush` on the send side**: the log grows by the contents of the admitted prefix of the queue,
the invariant carries over, and — unless a modelled panic occurred — every output datagram is a
concatenation of frames whose PUSH members carry the logged content of their sequence number -/
theorem flush_invS {sn0 : U32} {k : Kcp} {L : List Content} (h : InvS sn0 k L) (full : Bool) (now : U32) :
    InvS sn0 (flush k full now).k (L ++ admitted k (flush k full now).k) ∧
    ∀ G, Agree G sn0 (L ++ admitted k (flush k full now).k) → (flush k full now).panic = false →
      ∀ o ∈ (flush k full now).outs, Framed G o := by
  have hA := flushA_keep k now
  have hIA : InvS sn0 (flushA k now).k L := h.congr hA.2.snd_nxt hA.1.snd_una hA.2.snd_buf hA.2.snd_queue
  obtain ⟨j, hj, q1, q2, q3, a, q4, q5, q6⟩ := flushAdmit_spec hIA now
  rw [hA.2.snd_queue] at hj q1 q6
  have hX := fun G => flushX_spec G (flushB (flushA k now) now) full now (wndUnused k) k.rcv_nxt
    (flushAdmit (flushA k now).k now).count
  obtain ⟨v, hv⟩ := flushX_k (flushB (flushA k now) now) full now (wndUnused k) k.rcv_nxt
    (flushAdmit (flushA k now).k now).count
  -- the send-side fields of the result
  have eq : (flush k full now).k.snd_queue = k.snd_queue.drop j := by
    rw [flush_eq]; simp only []
    rw [(flushTail_keep _ _ _ _ _).2.snd_queue]
    show (flushX _ _ _ _ _ _).f.k.snd_queue = _
    rw [hv]; exact q1
  have en : (flush k full now).k.snd_nxt = sn0 + BitVec.ofNat 32 (L.length + j) := by
    rw [flush_eq]; simp only []
    rw [(flushTail_keep _ _ _ _ _).2.snd_nxt]
    show (flushX _ _ _ _ _ _).f.k.snd_nxt = _
    rw [hv]; exact q2
  have eu : (flush k full now).k.snd_una = k.snd_una := (flush_keep k full now).snd_una
  have eb : (flush k full now).k.snd_buf = (flushX (flushB (flushA k now) now) full now (wndUnused k) k.rcv_nxt
      (flushAdmit (flushA k now).k now).count).done := by
    rw [flush_eq]; simp only []
    rw [(flushTail_keep _ _ _ _ _).2.snd_buf]
  have eadm : admitted k (flush k full now).k = (k.snd_queue.take j).map content := by
    unfold admitted
    rw [eq, List.length_drop]
    congr 2; omega
  have hsim := (hX (fun _ => (0, []))).1
  have hbufB : (flushB (flushA k now) now).k.snd_buf = (flushAdmit (flushA k now).k now).buf := rfl
  rw [hbufB] at hsim
  rw [eadm]
  refine ⟨⟨?_, ⟨a, ?_, ?_, ?_⟩, ?_⟩, ?_⟩
  · rw [en]; simp [Nat.min_eq_left hj]
  · rw [eb, hsim.length, q4]; simp [Nat.min_eq_left hj]
  · rw [eu, ← hA.1.snd_una]; exact q5
  · rw [eb]; exact q6.sim hsim
  · rw [eq]; intro s hs; exact h.que s (List.mem_of_mem_drop hs)
  · intro G hG hp o ho
    have hfl : FlOk G (flushX (flushB (flushA k now) now) full now (wndUnused k) k.rcv_nxt
        (flushAdmit (flushA k now).k now).count).f := by
      apply (hX G).2
      · exact FlOk.congr (f := flushA k now) rfl rfl rfl (flushA_flOk G k now)
      · rw [hbufB]; exact q6.segG hG
    rw [flush_eq] at hp ho
    simp only [] at hp ho
    obtain ⟨h1, h2⟩ := hfl hp
    split at ho
    · rcases List.mem_append.mp ho with h3 | h3
      · exact h2 o h3
      · rw [List.mem_singleton.mp h3]; exact h1
    · exact h2 o ho

/-! ### Send -/

theorem mkSegs_len (mss : Nat) (st : Bool) : ∀ (c : Nat) (buf : Bytes), ∀ s ∈ mkSegs mss st c buf,
    s.data.length ≤ min buf.length mss := by
  intro c
  induction c with
  | zero => intro buf s hs; simp [mkSegs] at hs
  | succ c ih =>
    intro buf s hs
    unfold mkSegs at hs
    rcases List.mem_cons.mp hs with h1 | h1
    · rw [h1]; simp; omega
    · have := ih (buf.drop mss) s h1
      simp at this; omega

theorem mem_setLast (l : List Seg) (x s : Seg) (h : s ∈ setLast l x) : s = x ∨ s ∈ l := by
  unfold setLast at h
  rcases List.mem_append.mp h with h1 | h1
  · rw [List.dropLast_eq_take] at h1; exact Or.inr (List.mem_of_mem_take h1)
  · exact Or.inl (List.mem_singleton.mp h1)

theorem sendQ1_len (k : Kcp) (buffer : Bytes) (hq : ∀ s ∈ k.snd_queue, s.data.length ≤ mtuLimit)
    (hp : sendPanic1 k buffer = false) : ∀ s ∈ sendQ1 k buffer, s.data.length ≤ mtuLimit := by
  unfold sendQ1
  split
  · rename_i hext
    cases hl : k.snd_queue.getLast? with
    | none => simpa using hq
    | some x =>
      simp only []
      intro s hs
      rcases mem_setLast _ _ _ hs with h1 | h1
      · rw [h1]
        unfold sendPanic1 at hp
        rw [hl] at hp
        simp only [decide_eq_false_iff_not] at hp
        simp only [List.length_append, List.length_take]
        have : ¬ (x.data.length + sendExt k buffer > mtuLimit) := fun hc => hp ⟨hext, hc⟩
        omega
      · exact hq s h1
  · exact hq

/-- `Send` keeps the invariant (it only appends to / extends the tail of `snd_queue`) -/
theorem send_invS {sn0 : U32} {k : Kcp} {L : List Content} (h : InvS sn0 k L) (buffer : Bytes)
    (hp : (send k buffer).panic = false) : InvS sn0 (send k buffer).k L := by
  rw [send_eq] at hp ⊢
  split
  · exact h
  · rename_i h0
    rw [if_neg h0] at hp
    split
    · exact h
    · rename_i hc
      rw [if_neg hc] at hp
      split
      · exact h
      · rename_i h1
        rw [if_neg h1] at hp
        have hq1 := sendQ1_len k buffer h.que (by simpa using h1)
        split
        · exact ⟨h.nxt, h.buf, hq1⟩
        · rename_i h3
          rw [if_neg h3] at hp
          split
          · rename_i h4; rw [if_pos h4] at hp; cases hp
          · rename_i h4
            refine ⟨h.nxt, h.buf, ?_⟩
            intro s hs
            rcases List.mem_append.mp hs with h5 | h5
            · exact hq1 s h5
            · have := mkSegs_len _ _ _ _ s h5
              omega

/-! ### Input / Update on the send side -/

theorem inSt1_queue (regular : Bool) (st : InLoop) (hd : Hdr) :
    (inSt1 regular st hd).k.snd_queue = st.k.snd_queue := by
  unfold inSt1
  simp only []
  rw [(shrinkBuf_queue _).1]
  unfold parseUna
  split <;> rfl

theorem parseAck_queue (k : Kcp) (sn : U32) : (parseAck k sn).snd_queue = k.snd_queue := by
  unfold parseAck; split <;> rfl

theorem parseFastack_queue (k : Kcp) (sn ts : U32) : (parseFastack k sn ts).1.snd_queue = k.snd_queue := by
  unfold parseFastack; split <;> rfl

theorem inSt2_queue (st1 : InLoop) (hd : Hdr) (body : Bytes) :
    (inSt2 st1 hd body).k.snd_queue = st1.k.snd_queue := by
  unfold inSt2
  simp only []
  split
  · show (parseFastack (shrinkBuf (parseAck st1.k hd.sn)) hd.sn hd.ts).1.snd_queue = _
    rw [parseFastack_queue, (shrinkBuf_queue _).1, parseAck_queue]
  · split
    · split
      · split
        · exact (parseData_sndSame _ _).snd_queue
        · rfl
      · rfl
    · split <;> rfl

theorem inputLoop_queue (regular : Bool) :
    ∀ (fuel : Nat) (data : Bytes) (st : InLoop), (inputLoop regular fuel data st).k.snd_queue = st.k.snd_queue := by
  intro fuel
  induction fuel with
  | zero => intro data st; rfl
  | succ fuel ih =>
    intro data st
    rw [inputLoop_succ]
    have h2 : (inSt2 (inSt1 regular st (parseHdr data)) (parseHdr data) (data.drop IKCP_OVERHEAD)).k.snd_queue =
        st.k.snd_queue := (inSt2_queue _ _ _).trans (inSt1_queue _ _ _)
    split
    · rfl
    · split
      · rfl
      · split
        · rfl
        · split
          · rfl
          · split
            · exact h2
            · rw [ih]; exact h2

theorem admitted_self (k k' : Kcp) (h : k'.snd_queue = k.snd_queue) : admitted k k' = [] := by
  unfold admitted; rw [h]; simp

theorem admitted_congr (k k1 k' : Kcp) (h : k1.snd_queue = k.snd_queue) : admitted k k' = admitted k1 k' := by
  unfold admitted; rw [h]

theorem input_invS {sn0 : U32} {k : Kcp} {L : List Content} (h : InvS sn0 k L) (data : Bytes)
    (regular ackNoDelay : Bool) (now : U32) :
    InvS sn0 (input k data regular ackNoDelay now).k (L ++ admitted k (input k data regular ackNoDelay now).k) ∧
    ∀ G, Agree G sn0 (L ++ admitted k (input k data regular ackNoDelay now).k) →
      (input k data regular ackNoDelay now).panic = false →
      ∀ o ∈ (input k data regular ackNoDelay now).outs, Framed G o := by
  rw [input_eq]
  split
  · rw [admitted_self k k rfl]
    exact ⟨by simpa using h, fun _ _ _ o ho => by cases ho⟩
  · have hl := inputLoop_invS (sn0 := sn0) (L := L) regular (data.length / IKCP_OVERHEAD + 1) data { k := k } h
    have hq := inputLoop_queue regular (data.length / IKCP_OVERHEAD + 1) data { k := k }
    generalize inputLoop regular (data.length / IKCP_OVERHEAD + 1) data { k := k } = st at hl hq
    have h2 : InvS sn0 (inputK2 k st regular now) L := hl.same (inputK2_same _ _ _ _).2
    have hq2 : (inputK2 k st regular now).snd_queue = k.snd_queue :=
      (inputK2_same k st regular now).2.snd_queue.trans hq
    rcases inputTail_cases k st regular ackNoDelay now with h1 | h1 | ⟨full, h1⟩
    · rw [h1.1, h1.2, admitted_self k st.k hq]
      exact ⟨by simpa using hl, fun _ _ _ o ho => by cases ho⟩
    · rw [h1.1, h1.2, admitted_self k _ hq2]
      exact ⟨by simpa using h2, fun _ _ _ o ho => by cases ho⟩
    · have hf := flush_invS h2 full now
      rw [h1.1, h1.2.1, h1.2.2, admitted_congr k (inputK2 k st regular now) _ hq2]
      exact hf

theorem update_invS {sn0 : U32} {k : Kcp} {L : List Content} (h : InvS sn0 k L) (now : U32) :
    InvS sn0 (update k now).k (L ++ admitted k (update k now).k) ∧
    ∀ G, Agree G sn0 (L ++ admitted k (update k now).k) → (update k now).panic = false →
      ∀ o ∈ (update k now).outs, Framed G o := by
  rw [update_eq]
  split
  · obtain ⟨h1, h2, _, _⟩ := updPre_same k now (updTf k now)
    have h' : InvS sn0 { updPre k now with ts_flush := updTf k now } L :=
      h.congr h2.snd_nxt h1.snd_una h2.snd_buf h2.snd_queue
    have hf := flush_invS h' true now
    rw [admitted_congr k { updPre k now with ts_flush := updTf k now } _ h2.snd_queue]
    exact hf
  · obtain ⟨_, _, h1, h2⟩ := updPre_same k now 0
    rw [admitted_self k (updPre k now) h2.snd_queue]
    exact ⟨by simpa using h.congr h2.snd_nxt h1.snd_una h2.snd_buf h2.snd_queue, fun _ _ _ o ho => by cases ho⟩

end KcpVerif.Send
