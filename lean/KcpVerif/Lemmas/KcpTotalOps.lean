/-
C05 (protocol core): every operation of the core is total under `InvK` and preserves it; hence,
by induction over an arbitrary operation list starting from `NewKCP`, no operation ever panics.
-/
import KcpVerif.Lemmas.KcpTotalInput

namespace KcpVerif.Total
open KcpVerif KcpVerif.Gen KcpVerif.Kcp

/-! ### `NewKCP` -/

theorem invK_new (conv : U32) : InvK (Kcp.new conv) := by
  refine ⟨?_, ?_, ?_, ?_, DataLe.nil _, DataLe.nil _, DataLe.nil _, DataLe.nil _⟩
  · show IKCP_OVERHEAD < (u32 IKCP_MTU_DEF).toNat; decide
  · show (u32 IKCP_MTU_DEF - u32 IKCP_OVERHEAD).toNat + IKCP_OVERHEAD = (u32 IKCP_MTU_DEF).toNat; decide
  · show (u32 IKCP_MTU_DEF - u32 IKCP_OVERHEAD).toNat ≤ mtuLimit; decide
  · show (IKCP_MTU_DEF + IKCP_OVERHEAD) * 3 = ((u32 IKCP_MTU_DEF).toNat + IKCP_OVERHEAD) * 3; decide

/-! ### `Send` -/

/-- how many bytes stream mode appends to the last queued segment -/
def sendExt (k : Kcp) (buffer : Bytes) : Nat :=
  if k.stream ≠ 0 then
    match k.snd_queue.getLast? with
    | some s => if s.data.length < k.mss.toNat then min buffer.length (k.mss.toNat - s.data.length) else 0
    | none => 0
  else 0

/-- the send queue after the stream-mode extension -/
def sendQ1 (k : Kcp) (buffer : Bytes) : List Seg :=
  if sendExt k buffer > 0 then
    match k.snd_queue.getLast? with
    | some s => setLast k.snd_queue { s with data := s.data ++ buffer.take (sendExt k buffer) }
    | none => k.snd_queue
  else k.snd_queue

def sendPanic1 (k : Kcp) (buffer : Bytes) : Bool :=
  match k.snd_queue.getLast? with
  | some s => decide (sendExt k buffer > 0 ∧ s.data.length + sendExt k buffer > mtuLimit)
  | none => false

theorem send_eq (k : Kcp) (buffer : Bytes) :
    send k buffer =
      if buffer.length = 0 then ⟨k, -1, false⟩ else
      let buf := buffer.drop (sendExt k buffer)
      let count := if buf.length ≤ k.mss.toNat then 1 else (buf.length + k.mss.toNat - 1) / k.mss.toNat
      if count > 255 then ⟨k, -2, false⟩ else
      if sendPanic1 k buffer then ⟨k, 0, true⟩ else
      let k1 := { k with snd_queue := sendQ1 k buffer }
      if k.stream ≠ 0 ∧ buf.length = 0 then ⟨k1, 0, false⟩ else
      let count := if count = 0 then 1 else count
      if min buf.length k.mss.toNat > mtuLimit then ⟨k1, 0, true⟩ else
      ⟨{ k1 with snd_queue := sendQ1 k buffer ++ mkSegs k.mss.toNat (k.stream ≠ 0) count buf }, 0, false⟩ := rfl

theorem sendExt_le {k : Kcp} (h : InvK k) (buffer : Bytes) (s : Seg) (hs : k.snd_queue.getLast? = some s) :
    s.data.length + sendExt k buffer ≤ k.mss.toNat := by
  have hm := h.sndq s (List.mem_of_getLast? hs)
  unfold sendExt
  rw [hs]
  simp only []
  split
  · split <;> omega
  · omega

theorem sendPanic1_false {k : Kcp} (h : InvK k) (buffer : Bytes) : sendPanic1 k buffer = false := by
  unfold sendPanic1
  split
  · rename_i s hs
    have := sendExt_le h buffer s hs
    have := h.mss_le
    simp only [decide_eq_false_iff_not]
    omega
  · rfl

theorem sendQ1_dataLe {k : Kcp} (h : InvK k) (buffer : Bytes) : DataLe k.mss.toNat (sendQ1 k buffer) := by
  unfold sendQ1
  split
  · split
    · rename_i s hs
      have := sendExt_le h buffer s hs
      unfold setLast
      apply h.sndq.dropLast.append
      apply DataLe.cons _ (DataLe.nil _)
      simp only [List.length_append, List.length_take]
      omega
    · exact h.sndq
  · exact h.sndq

theorem mkSegs_dataLe (mss : Nat) (stream : Bool) (c : Nat) (buf : Bytes) : DataLe mss (mkSegs mss stream c buf) := by
  induction c generalizing buf with
  | zero => exact DataLe.nil _
  | succ c ih =>
    unfold mkSegs
    exact DataLe.cons (by simp only [List.length_take]; omega) (ih _)

/-- **`Send` is total under `InvK`**: this is what `mss ≤ mtuLimit` (the repaired `SetMtu`) buys. -/
theorem send_total {k : Kcp} (h : InvK k) (buffer : Bytes) :
    (send k buffer).panic = false ∧ InvK (send k buffer).k := by
  rw [send_eq]
  have hq1 := sendQ1_dataLe h buffer
  have hk1 : InvK { k with snd_queue := sendQ1 k buffer } :=
    h.congr rfl rfl rfl hq1 h.sndb h.rcvb h.rcvq
  split
  · exact ⟨rfl, h⟩
  · rw [sendPanic1_false h buffer]
    simp only [Bool.false_eq_true, if_false]
    generalize (if (List.drop (sendExt k buffer) buffer).length ≤ k.mss.toNat then 1 else _) = count
    split
    · exact ⟨rfl, h⟩
    · split
      · exact ⟨rfl, hk1⟩
      · have hm := h.mss_le
        rw [if_neg (by omega)]
        exact ⟨rfl, h.congr rfl rfl rfl (hq1.append (mkSegs_dataLe _ _ _ _)) h.sndb h.rcvb h.rcvq⟩

/-! ### `Recv` -/

theorem recv_pres (k : Kcp) (buflen : Nat) : PresN 0 k (recv k buflen).k := by
  unfold recv
  simp only []
  split
  · exact PresN.refl k
  · split
    · exact PresN.refl k
    · have h1 : PresN 0 k { k with rcv_queue := (popMsg k.rcv_queue).rest } :=
        ⟨rfl, rfl, rfl, rfl, rfl, fun _ hb => hb, fun hb hq => ⟨hb, popMsg_dataLe hq⟩, Nat.le_refl _⟩
      have h2 := h1.trans (moveReady_pres _)
      generalize moveReady { k with rcv_queue := (popMsg k.rcv_queue).rest } = k1 at h2
      split
      · apply h2.trans (b := 0)
        exact PresN.of_eq rfl rfl rfl rfl rfl rfl rfl rfl rfl
      · exact h2

theorem recv_total {k : Kcp} (h : InvK k) (buflen : Nat) : InvK (recv k buflen).k :=
  h.of_pres (recv_pres k buflen)

/-! ### `Recv` copies exactly `PeekSize` bytes -/

theorem popMsg_length (l : List Seg) : (popMsg l).data.length = peekSum l := by
  induction l with
  | nil => rfl
  | cons s rest ih =>
    unfold popMsg peekSum
    split
    · rfl
    · simp only [List.length_append, ih]

theorem peekSize_eq (k : Kcp) (h : ¬ peekSize k < 0) : peekSize k = (peekSum k.rcv_queue : Int) := by
  unfold peekSize at *
  split at h
  · exact absurd (by decide) h
  · rename_i s rest hq
    rw [hq] at h ⊢
    split
    · rename_i hf
      unfold peekSum; rw [if_pos hf]
    · rename_i hf
      rw [if_neg hf] at h
      split
      · rename_i hlt; rw [if_pos hlt] at h; exact absurd (by decide) h
      · rfl

/-- the slicing `buffer = buffer[len(seg.data):]` of `Recv` cannot fail: what the merge loop copies
is exactly `PeekSize()`, which was checked against `len(buffer)` -/
theorem recv_fits (k : Kcp) (buflen : Nat) : (recv k buflen).data.length ≤ buflen := by
  unfold recv
  simp only []
  split
  · exact Nat.zero_le _
  · rename_i h1
    split
    · exact Nat.zero_le _
    · rename_i h2
      simp only []
      rw [popMsg_length]
      rw [peekSize_eq k h1] at h2
      omega

/-! ### `Update` -/

theorem update_total {k : Kcp} (h : InvK k) (now : U32) :
    (update k now).panic = false ∧ InvK (update k now).k ∧
    (update k now).k.acklist.length ≤ k.acklist.length := by
  have key : ∀ (k2 : Kcp) (tf : U32), PresN 0 k k2 →
      (flush { k2 with ts_flush := tf } true now).panic = false ∧
      InvK (flush { k2 with ts_flush := tf } true now).k ∧
      (flush { k2 with ts_flush := tf } true now).k.acklist.length ≤ k.acklist.length := by
    intro k2 tf h2
    have h3 : InvK { k2 with ts_flush := tf } := by
      apply h.of_pres (h2.trans (b := 0) _)
      exact PresN.of_eq rfl rfl rfl rfl rfl rfl rfl rfl rfl
    have := flush_total h3 true now
    exact ⟨this.1, this.2.1, by rw [this.2.2.1]; exact Nat.zero_le _⟩
  unfold update
  simp only []
  have h1 : PresN 0 k (if k.updated = 0 then { k with updated := 1, ts_flush := now } else k) := by
    split
    · exact PresN.of_eq rfl rfl rfl rfl rfl rfl rfl rfl rfl
    · exact PresN.refl _
  generalize (if k.updated = 0 then { k with updated := 1, ts_flush := now } else k) = k1 at h1
  generalize decide (itimediff now k1.ts_flush ≥ 10000 ∨ itimediff now k1.ts_flush < -10000) = reset
  have h2 : PresN 0 k (if reset then { k1 with ts_flush := now } else k1) := by
    split
    · apply h1.trans (b := 0)
      exact PresN.of_eq rfl rfl rfl rfl rfl rfl rfl rfl rfl
    · exact h1
  generalize (if reset then { k1 with ts_flush := now } else k1) = k2 at h2
  generalize (if reset = true then 0 else itimediff now k1.ts_flush) = slap
  split
  · exact key k2 _ h2
  · exact ⟨rfl, h.of_pres h2, h2.ackl⟩

/-! ### the setters -/

theorem dataLe_of_not_any {l : List Seg} {b : Int} {n : Nat} (hn : b ≤ (n : Int))
    (h : ¬ (l.any (fun s => decide ((s.data.length : Int) > b)) = true)) : DataLe n l := by
  intro s hs
  have : ¬ ((s.data.length : Int) > b) := by
    intro hc
    apply h
    rw [List.any_eq_true]
    exact ⟨s, hs, by simpa using hc⟩
  omega

/-- **the repaired `SetMtu` keeps the invariant**: it refuses values whose segment size exceeds a
pool buffer and values below the size of a queued segment. -/
theorem setMtu_total {k : Kcp} (h : InvK k) (m : Int) : InvK (setMtu k m).1 := by
  unfold setMtu
  split
  · exact h
  · split
    · exact h
    · split
      · exact h
      · split
        · exact h
        · rename_i h1 h2 h3 h4
          simp only []
          have hm : (BitVec.ofInt 32 m).toNat = m.toNat := by
            rw [BitVec.toNat_ofInt]
            unfold IKCP_OVERHEAD mtuLimit at *
            omega
          have hgt : IKCP_OVERHEAD < (BitVec.ofInt 32 m).toNat := by
            rw [hm]; unfold IKCP_OVERHEAD at *; omega
          have hmss : (BitVec.ofInt 32 m - u32 IKCP_OVERHEAD).toNat + IKCP_OVERHEAD = (BitVec.ofInt 32 m).toNat := by
            generalize BitVec.ofInt 32 m = mm at *
            unfold u32 IKCP_OVERHEAD at *
            bv_omega
          have hle : (m - (IKCP_OVERHEAD : Int)) ≤ ((BitVec.ofInt 32 m - u32 IKCP_OVERHEAD).toNat : Int) := by
            omega
          refine ⟨hgt, hmss, ?_, ?_, dataLe_of_not_any hle h3, dataLe_of_not_any hle h4, h.rcvb, h.rcvq⟩
          · show (BitVec.ofInt 32 m - u32 IKCP_OVERHEAD).toNat ≤ mtuLimit
            unfold IKCP_OVERHEAD mtuLimit at *; omega
          · show (m.toNat + IKCP_OVERHEAD) * 3 = ((BitVec.ofInt 32 m).toNat + IKCP_OVERHEAD) * 3
            rw [hm]

theorem noDelay_pres (k : Kcp) (a b c d : Int) : PresN 0 k (noDelay k a b c d) := by
  unfold noDelay
  simp only []
  repeat' split
  all_goals exact PresN.of_eq rfl rfl rfl rfl rfl rfl rfl rfl rfl

theorem noDelay_total {k : Kcp} (h : InvK k) (a b c d : Int) : InvK (noDelay k a b c d) :=
  h.of_pres (noDelay_pres k a b c d)

theorem wndSize_pres (k : Kcp) (s r : Int) : PresN 0 k (wndSize k s r) := by
  unfold wndSize
  simp only []
  repeat' split
  all_goals exact PresN.of_eq rfl rfl rfl rfl rfl rfl rfl rfl rfl

theorem wndSize_total {k : Kcp} (h : InvK k) (s r : Int) : InvK (wndSize k s r) :=
  h.of_pres (wndSize_pres k s r)

theorem setMtu_acklist (k : Kcp) (m : Int) : (setMtu k m).1.acklist = k.acklist := by
  unfold setMtu
  repeat' split
  all_goals rfl

theorem send_acklist (k : Kcp) (b : Bytes) : (send k b).k.acklist = k.acklist := by
  rw [send_eq]
  simp only []
  split
  · rfl
  · generalize (if (List.drop (sendExt k b) b).length ≤ k.mss.toNat then 1 else _) = count
    split
    · rfl
    · split
      · rfl
      · split
        · rfl
        · split <;> rfl

/-! ### operation lists -/

/-- every entry point of the core, with arbitrary arguments -/
inductive Op where
  | send (b : Bytes)
  | recv (buflen : Nat)
  | input (d : Bytes) (regular ackNoDelay : Bool) (now : U32)
  | flush (full : Bool) (now : U32)
  | update (now : U32)
  | check (now : U32)
  | peekSize
  | waitSnd
  | setMtu (m : Int)
  | noDelay (nodelay interval resend nc : Int)
  | wndSize (snd rcv : Int)
deriving Repr

structure StepRes where
  k     : Kcp
  panic : Bool
deriving Repr

/-- one operation: the next state and whether the Go code would have panicked -/
def step (k : Kcp) : Op → StepRes
  | .send b => ⟨(send k b).k, (send k b).panic⟩
  | .recv n => ⟨(recv k n).k, false⟩
  | .input d r a now => ⟨(input k d r a now).k, (input k d r a now).panic⟩
  | .flush full now => ⟨(flush k full now).k, (flush k full now).panic⟩
  | .update now => ⟨(update k now).k, (update k now).panic⟩
  | .check _ => ⟨k, false⟩
  | .peekSize => ⟨k, false⟩
  | .waitSnd => ⟨k, false⟩
  | .setMtu m => ⟨(setMtu k m).1, false⟩
  | .noDelay a b c d => ⟨noDelay k a b c d, false⟩
  | .wndSize s r => ⟨wndSize k s r, false⟩

/-- run a list of operations, stopping at the first panic -/
def run (k : Kcp) : List Op → StepRes
  | [] => ⟨k, false⟩
  | op :: rest => if (step k op).panic then step k op else run (step k op).k rest

/-- **every operation is total under `InvK` and preserves it** -/
theorem step_total {k : Kcp} (h : InvK k) (op : Op) : (step k op).panic = false ∧ InvK (step k op).k := by
  cases op with
  | send b => exact send_total h b
  | recv n => exact ⟨rfl, recv_total h n⟩
  | input d r a now => exact ⟨(input_total h d r a now).1, (input_total h d r a now).2.1⟩
  | flush full now => exact ⟨(flush_total h full now).1, (flush_total h full now).2.1⟩
  | update now => exact ⟨(update_total h now).1, (update_total h now).2.1⟩
  | check _ => exact ⟨rfl, h⟩
  | peekSize => exact ⟨rfl, h⟩
  | waitSnd => exact ⟨rfl, h⟩
  | setMtu m => exact ⟨rfl, setMtu_total h m⟩
  | noDelay a b c d => exact ⟨rfl, noDelay_total h a b c d⟩
  | wndSize s r => exact ⟨rfl, wndSize_total h s r⟩

theorem run_total {k : Kcp} (h : InvK k) (ops : List Op) : (run k ops).panic = false ∧ InvK (run k ops).k := by
  induction ops generalizing k with
  | nil => exact ⟨rfl, h⟩
  | cons op rest ih =>
    have hs := step_total h op
    unfold run
    rw [if_neg (by rw [hs.1]; decide)]
    exact ih hs.2

/-- the states the core can be in: `NewKCP` followed by any operations that did not panic -/
inductive Reachable : Kcp → Prop where
  | new (conv : U32) : Reachable (Kcp.new conv)
  | step {k : Kcp} (op : Op) : Reachable k → (step k op).panic = false → Reachable (step k op).k

theorem Reachable.invK {k : Kcp} (h : Reachable k) : InvK k := by
  induction h with
  | new conv => exact invK_new conv
  | step op _ _ ih => exact (step_total ih op).2

/-! ### the ack list along a history -/

/-- bound on the ack-list length as a function of the operations alone: an `Input` of `n` bytes may
add `n / 24` entries, a flush resets to zero, nothing else adds -/
def ackBound (acc : Nat) : List Op → Nat
  | [] => acc
  | .input d _ _ _ :: rest => ackBound (acc + d.length / IKCP_OVERHEAD) rest
  | .flush _ _ :: rest => ackBound 0 rest
  | _ :: rest => ackBound acc rest

theorem ackBound_mono {a b : Nat} (h : a ≤ b) (ops : List Op) : ackBound a ops ≤ ackBound b ops := by
  induction ops generalizing a b with
  | nil => exact h
  | cons op rest ih =>
    cases op <;> simp only [ackBound]
    all_goals first | exact ih h | exact ih (Nat.add_le_add_right h _) | exact Nat.le_refl _

/-- one operation: only `Input` can lengthen the ack list, by at most `|d| / 24` -/
theorem step_acklist {k : Kcp} (h : InvK k) (op : Op) :
    (step k op).k.acklist.length ≤
      (match op with
       | .input d _ _ _ => k.acklist.length + d.length / IKCP_OVERHEAD
       | .flush _ _ => 0
       | _ => k.acklist.length) := by
  cases op with
  | send b => show (send k b).k.acklist.length ≤ _; rw [send_acklist]; exact Nat.le_refl _
  | recv n => exact (recv_pres k n).ackl
  | input d r a now =>
    have h1 := (input_total h d r a now).2.2.2.2.1
    have h2 := pushSpec_le k.conv (d.length / IKCP_OVERHEAD + 1) d
    exact Nat.le_trans h1 (Nat.add_le_add_left h2 _)
  | flush full now => show (flush k full now).k.acklist.length ≤ 0; rw [(flush_total h full now).2.2.1]; exact Nat.le_refl _
  | update now => exact (update_total h now).2.2
  | check _ => exact Nat.le_refl _
  | peekSize => exact Nat.le_refl _
  | waitSnd => exact Nat.le_refl _
  | setMtu m => show (setMtu k m).1.acklist.length ≤ _; rw [setMtu_acklist]; exact Nat.le_refl _
  | noDelay a b c d => exact (noDelay_pres k a b c d).ackl
  | wndSize s r => exact (wndSize_pres k s r).ackl

theorem run_acklist {k : Kcp} (h : InvK k) (acc : Nat) (hacc : k.acklist.length ≤ acc) (ops : List Op) :
    (run k ops).k.acklist.length ≤ ackBound acc ops := by
  induction ops generalizing k acc with
  | nil => exact hacc
  | cons op rest ih =>
    have hs := step_total h op
    have ha := step_acklist h op
    unfold run
    rw [if_neg (by rw [hs.1]; decide)]
    cases op <;> simp only [ackBound] <;> simp only [] at ha
    all_goals first
      | exact ih hs.2 _ (Nat.le_trans ha hacc)
      | exact ih hs.2 _ (Nat.le_trans ha (Nat.add_le_add_right hacc _))
      | exact ih hs.2 _ ha

end KcpVerif.Total
