/-
C12 — shift simulation for the KCP core model: basic definitions.

A shift `σ = (a, b, t, u)`:
* `a` is added to the endpoint's own SEND sequence space (`snd_una`, `snd_nxt`, `sn` of `snd_buf`
  entries, `sn` and `una` of incoming ACKs, `una` of every incoming segment),
* `b` to its RECEIVE space (`rcv_nxt`, `sn` of `rcv_buf` / `rcv_queue` / `acklist` entries, `sn` of
  incoming PUSHes, `una` of every outgoing header, `sn` of outgoing ACKs),
* `t` to its own clock (`now`, `resendts`, `ts_probe`, `ts_flush`, `ts` of outgoing PUSH and of
  incoming ACK),
* `u` to the peer's clock (`ts` of incoming PUSH, of `acklist`, of outgoing ACK).

`Sim σ k k'` is "k' is k shifted by σ": equality up to σ on every field, except on fields that
are dead where they may differ:
* `ts_flush` while `updated = 0` (`new` initialises it with the literal `IKCP_INTERVAL`),
* `ts_probe` while `probe_wait = 0` (reset to the literal 0),
* `una` of a `snd_buf` entry while its `xmit = 0` (never transmitted: still the literal 0 of
  `newSegment`; overwritten at the first transmission, never read before).
(`ts` of a `snd_buf` entry is set to the clock on admission — fix 8db4321 — and is related
unconditionally.)
Core Lean only.
-/
import KcpVerif.Model.Kcp

namespace KcpVerif.Shift
open KcpVerif KcpVerif.Gen KcpVerif.Kcp

structure Sigma where
  a : U32
  b : U32
  t : U32
  u : U32
deriving Repr, DecidableEq

/-! ### the three arithmetic facts everything rests on -/

theorem itd_shift (x y c : U32) : itimediff (x + c) (y + c) = itimediff x y := by
  unfold itimediff
  congr 1
  bv_omega

theorem eq_shift (x y c : U32) : (x + c = y + c) ↔ x = y := by
  constructor
  · intro h; bv_omega
  · intro h; rw [h]

theorem succ_shift (x c : U32) : (x + c) + 1 = (x + 1) + c := by bv_omega

theorem add_shift (x d c : U32) : (x + c) + d = (x + d) + c := by bv_omega

theorem sub_shift (x y c : U32) : (x + c) - (y + c) = x - y := by bv_omega

/-- `itimediff` against a sum whose first summand is shifted (`snd_una + cwnd`, `rcv_nxt + rcv_wnd`) -/
theorem itd_shift_add (x y d c : U32) : itimediff (x + c) ((y + c) + d) = itimediff x (y + d) := by
  rw [add_shift y d c, itd_shift]

/-! ### pointwise relation of two lists (core Lean has no `Forall₂`) -/

inductive All₂ {α β} (R : α → β → Prop) : List α → List β → Prop
  | nil : All₂ R [] []
  | cons {a b l₁ l₂} : R a b → All₂ R l₁ l₂ → All₂ R (a :: l₁) (b :: l₂)

theorem forall₂_length {α β} {R : α → β → Prop} {l : List α} {l' : List β}
    (h : All₂ R l l') : l.length = l'.length := by
  induction h with
  | nil => rfl
  | cons _ _ ih => simp only [List.length_cons, ih]

theorem forall₂_append {α β} {R : α → β → Prop} {l₁ l₂ : List α} {l₁' l₂' : List β}
    (h₁ : All₂ R l₁ l₁') (h₂ : All₂ R l₂ l₂') :
    All₂ R (l₁ ++ l₂) (l₁' ++ l₂') := by
  induction h₁ with
  | nil => exact h₂
  | cons hr _ ih => exact All₂.cons hr ih

theorem forall₂_drop {α β} {R : α → β → Prop} {l : List α} {l' : List β}
    (h : All₂ R l l') (n : Nat) : All₂ R (l.drop n) (l'.drop n) := by
  induction h generalizing n with
  | nil => simp only [List.drop_nil]; exact All₂.nil
  | cons hr ht ih =>
    cases n with
    | zero => exact All₂.cons hr ht
    | succ n => exact ih n

theorem forall₂_single {α β} {R : α → β → Prop} {x : α} {y : β} (h : R x y) :
    All₂ R [x] [y] := All₂.cons h All₂.nil

/-! ### segments -/

/-- shift of a segment of the RECEIVE side (`rcv_buf`, `rcv_queue`): it is a received PUSH -/
def shRcv (σ : Sigma) (s : Seg) : Seg :=
  { s with sn := s.sn + σ.b, ts := s.ts + σ.u, una := s.una + σ.a }

def shAck (σ : Sigma) (x : Ack) : Ack := ⟨x.sn + σ.b, x.ts + σ.u⟩

/-- relation between a `snd_buf` entry and its shifted version -/
structure SndRel (σ : Sigma) (s s' : Seg) : Prop where
  conv     : s'.conv = s.conv
  cmd      : s'.cmd = s.cmd
  frg      : s'.frg = s.frg
  wnd      : s'.wnd = s.wnd
  rto      : s'.rto = s.rto
  xmit     : s'.xmit = s.xmit
  fastack  : s'.fastack = s.fastack
  acked    : s'.acked = s.acked
  data     : s'.data = s.data
  sn       : s'.sn = s.sn + σ.a
  resendts : s'.resendts = s.resendts + σ.t
  ts       : s'.ts = s.ts + σ.t
  una      : s.xmit ≠ 0 → s'.una = s.una + σ.b

/-- the canonical shifted `snd_buf` entry -/
def shSnd (σ : Sigma) (s : Seg) : Seg :=
  { s with sn := s.sn + σ.a, resendts := s.resendts + σ.t,
           ts := s.ts + σ.t,
           una := if s.xmit = 0 then s.una else s.una + σ.b }

theorem sndRel_shSnd (σ : Sigma) (s : Seg) : SndRel σ s (shSnd σ s) := by
  constructor <;> (try rfl)
  · intro h; simp only [shSnd, if_neg h]

/-! ### states -/

/-- segments waiting in `snd_queue` have never been transmitted (`Send` creates them with `xmit = 0`) -/
def Fresh (l : List Seg) : Prop := ∀ s ∈ l, s.xmit = 0

structure Sim (σ : Sigma) (k k' : Kcp) : Prop where
  conv       : k'.conv = k.conv
  mtu        : k'.mtu = k.mtu
  mss        : k'.mss = k.mss
  state      : k'.state = k.state
  ssthresh   : k'.ssthresh = k.ssthresh
  rx_rttvar  : k'.rx_rttvar = k.rx_rttvar
  rx_srtt    : k'.rx_srtt = k.rx_srtt
  rx_rto     : k'.rx_rto = k.rx_rto
  rx_minrto  : k'.rx_minrto = k.rx_minrto
  snd_wnd    : k'.snd_wnd = k.snd_wnd
  rcv_wnd    : k'.rcv_wnd = k.rcv_wnd
  rmt_wnd    : k'.rmt_wnd = k.rmt_wnd
  cwnd       : k'.cwnd = k.cwnd
  incr       : k'.incr = k.incr
  probe      : k'.probe = k.probe
  probe_wait : k'.probe_wait = k.probe_wait
  interval   : k'.interval = k.interval
  nodelay    : k'.nodelay = k.nodelay
  updated    : k'.updated = k.updated
  dead_link  : k'.dead_link = k.dead_link
  fastresend : k'.fastresend = k.fastresend
  nocwnd     : k'.nocwnd = k.nocwnd
  stream     : k'.stream = k.stream
  bufLen     : k'.bufLen = k.bufLen
  snd_queue  : k'.snd_queue = k.snd_queue
  snd_una    : k'.snd_una = k.snd_una + σ.a
  snd_nxt    : k'.snd_nxt = k.snd_nxt + σ.a
  rcv_nxt    : k'.rcv_nxt = k.rcv_nxt + σ.b
  ts_probe   : k.probe_wait ≠ 0 → k'.ts_probe = k.ts_probe + σ.t
  ts_flush   : k.updated ≠ 0 → k'.ts_flush = k.ts_flush + σ.t
  rcv_queue  : k'.rcv_queue = k.rcv_queue.map (shRcv σ)
  rcv_buf    : k'.rcv_buf = k.rcv_buf.map (shRcv σ)
  acklist    : k'.acklist = k.acklist.map (shAck σ)
  snd_buf    : All₂ (SndRel σ) k.snd_buf k'.snd_buf
  fresh      : Fresh k.snd_queue

/-- the canonical shifted state -/
def shiftK (σ : Sigma) (k : Kcp) : Kcp :=
  { k with snd_una := k.snd_una + σ.a, snd_nxt := k.snd_nxt + σ.a, rcv_nxt := k.rcv_nxt + σ.b,
           ts_probe := if k.probe_wait = 0 then k.ts_probe else k.ts_probe + σ.t,
           ts_flush := if k.updated = 0 then k.ts_flush else k.ts_flush + σ.t,
           rcv_queue := k.rcv_queue.map (shRcv σ), rcv_buf := k.rcv_buf.map (shRcv σ),
           acklist := k.acklist.map (shAck σ), snd_buf := k.snd_buf.map (shSnd σ) }

theorem forall₂_map_shSnd (σ : Sigma) (l : List Seg) : All₂ (SndRel σ) l (l.map (shSnd σ)) := by
  induction l with
  | nil => exact All₂.nil
  | cons s t ih => exact All₂.cons (sndRel_shSnd σ s) ih

theorem sim_shiftK (σ : Sigma) (k : Kcp) (hf : Fresh k.snd_queue) : Sim σ k (shiftK σ k) := by
  constructor <;> (try rfl)
  · intro h; simp only [shiftK, if_neg h]
  · intro h; simp only [shiftK, if_neg h]
  · exact forall₂_map_shSnd σ k.snd_buf
  · exact hf

/-! ### output bytes -/

/-- `o'` is the datagram (or partial buffer) `o` shifted by `σ`: the same sequence of pieces, where
* a data segment header (written by phase 5 from a `snd_buf` entry) has `ts+t`, `sn+a`, `una+b`,
* an ACK header has `ts+u` (the echoed peer timestamp), `sn+b`, `una+b`,
* a WASK / WINS header has `una+b`; its `sn` and `ts` are DEAD fields (copied from the scratch
  header of flush: those of the last ACK written in the same call, else 0; the receiver never
  reads them) and are not related,
* payload bytes are identical. -/
inductive OutRel (σ : Sigma) : Bytes → Bytes → Prop
  | nil : OutRel σ [] []
  | seg {x x' : Bytes} (conv : U32) (cmd frg : BitVec 8) (wnd : BitVec 16) (ts sn una : U32) (len : Nat) :
      OutRel σ x x' →
      OutRel σ (x ++ encodeHdr conv cmd frg wnd ts sn una len)
               (x' ++ encodeHdr conv cmd frg wnd (ts + σ.t) (sn + σ.a) (una + σ.b) len)
  | ack {x x' : Bytes} (conv : U32) (wnd : BitVec 16) (ts sn una : U32) :
      OutRel σ x x' →
      OutRel σ (x ++ encodeHdr conv (BitVec.ofNat 8 IKCP_CMD_ACK) 0 wnd ts sn una 0)
               (x' ++ encodeHdr conv (BitVec.ofNat 8 IKCP_CMD_ACK) 0 wnd (ts + σ.u) (sn + σ.b) (una + σ.b) 0)
  | probe {x x' : Bytes} (conv : U32) (cmd : BitVec 8) (wnd : BitVec 16) (ts sn ts' sn' una : U32) :
      (cmd = BitVec.ofNat 8 IKCP_CMD_WASK ∨ cmd = BitVec.ofNat 8 IKCP_CMD_WINS) →
      OutRel σ x x' →
      OutRel σ (x ++ encodeHdr conv cmd 0 wnd ts sn una 0)
               (x' ++ encodeHdr conv cmd 0 wnd ts' sn' (una + σ.b) 0)
  | data {x x' : Bytes} (d : Bytes) : OutRel σ x x' → OutRel σ (x ++ d) (x' ++ d)

theorem encodeHdr_length (conv : U32) (cmd frg : BitVec 8) (wnd : BitVec 16) (ts sn una : U32) (len : Nat) :
    (encodeHdr conv cmd frg wnd ts sn una len).length = 24 := by
  simp [encodeHdr, le32, le16]

theorem OutRel.length_eq {σ : Sigma} {x x' : Bytes} (h : OutRel σ x x') : x.length = x'.length := by
  induction h with
  | nil => rfl
  | seg _ _ _ _ _ _ _ _ _ ih => simp only [List.length_append, encodeHdr_length, ih]
  | ack _ _ _ _ _ _ ih => simp only [List.length_append, encodeHdr_length, ih]
  | probe _ _ _ _ _ _ _ _ _ _ ih => simp only [List.length_append, encodeHdr_length, ih]
  | data _ _ ih => simp only [List.length_append, ih]

end KcpVerif.Shift
