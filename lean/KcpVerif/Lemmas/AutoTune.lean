/-
Lemmas about the period detector model `KcpVerif.Model.AutoTune` (kcp-go `autotune.go`).

Core Lean only.  Contents:

1. `sort_run`: an in-order run of genuine samples is a fixed point of the sort.
2. `period_run_*_sound`: on such a run the scan returns `-1` or the true pulse width.
3. `period_run_*_complete`: explicit window-length conditions under which it returns the width;
   `period_run_*_iff`, `period_run_*_short`: these conditions are also necessary.
4. `findPeriod_*`: the same for `Tune.findPeriod` when the ring window is such a run.
5. `Tune.WF`, `wf_init`, `wf_sample`, `window_sample`: the ring is a sliding window;
   `feed_run`, `findPeriod_feed_run`: a fresh detector fed an in-order run holds its last
   `min len maxAutoTuneSamples` samples.
6. `mismatch_detect`: two different ratios disagree on some id among any `2 * (d + p)`
   consecutive ids.
-/
import KcpVerif.Model.AutoTune

namespace KcpVerif.Lemmas.AutoTune
open KcpVerif.AutoTune KcpVerif.Gen

/-- type bit of id `k` under sender ratio (d, p): data iff `k % (d+p) < d` -/
def label (d p k : Nat) : Bool := decide (k % (d + p) < d)

/-- the in-order run of `len` genuine samples with ids `s, s+1, …` (as naturals; no 2^32 wrap) -/
def run (d p : Nat) : Nat → Nat → List Pulse
  | _, 0 => []
  | s, len + 1 => { bit := label d p s, seq := BitVec.ofNat 32 s } :: run d p (s + 1) len

/-! ## 1. A run is already sorted -/

/-- the sample with id `k` -/
def pulseAt (d p k : Nat) : Pulse := { bit := label d p k, seq := BitVec.ofNat 32 k }

theorem run_succ (d p s len : Nat) :
    run d p s (len + 1) = pulseAt d p s :: run d p (s + 1) len := rfl

theorem length_run (d p s len : Nat) : (run d p s len).length = len := by
  induction len generalizing s with
  | zero => rfl
  | succ len ih => simp only [run, List.length_cons, ih]

theorem mem_run {d p s len : Nat} {x : Pulse} (h : x ∈ run d p s len) :
    ∃ j, j < len ∧ x = pulseAt d p (s + j) := by
  induction len generalizing s with
  | zero => simp only [run, List.not_mem_nil] at h
  | succ len ih =>
    simp only [run_succ, List.mem_cons] at h
    rcases h with h | h
    · exact ⟨0, by omega, h⟩
    · obtain ⟨j, hj, hx⟩ := ih h
      refine ⟨j + 1, by omega, ?_⟩
      rw [hx]; congr 1; omega

theorem pulseLe_of_close (a j : Nat) (_h : a + j < 2 ^ 32) (hj : j < 2 ^ 31) (x y : Bool) :
    pulseLe ⟨x, BitVec.ofNat 32 a⟩ ⟨y, BitVec.ofNat 32 (a + j)⟩ = true := by
  simp only [pulseLe, itimediff, Bool.not_eq_true']
  simp only [decide_eq_false_iff_not, BitVec.toInt_eq_toNat_cond, BitVec.toNat_sub,
    BitVec.toNat_ofNat]
  omega

theorem pairwise_run {d p s len : Nat} (h : s + len ≤ 2 ^ 32) (hl : len ≤ 2 ^ 31) :
    (run d p s len).Pairwise (fun a b => pulseLe a b = true) := by
  induction len generalizing s with
  | zero => exact List.Pairwise.nil
  | succ len ih =>
    rw [run_succ]
    refine List.Pairwise.cons ?_ (ih (by omega) (by omega))
    intro b hb
    obtain ⟨j, hj, rfl⟩ := mem_run hb
    have := pulseLe_of_close s (1 + j) (by omega) (by omega) (label d p s) (label d p (s + 1 + j))
    simp only [pulseAt]
    rw [show s + 1 + j = s + (1 + j) by omega]
    exact this

theorem sort_run {d p s len : Nat} (h : s + len ≤ 2 ^ 32) (hl : len ≤ 2 ^ 31) :
    sortPulses (run d p s len) = run d p s len :=
  List.mergeSort_of_pairwise (pairwise_run h hl)

example : sortPulses (run 3 2 7 20) = run 3 2 7 20 := sort_run (by decide) (by decide)
/-- the bounds are attained: the last id is `2^32 - 1`, the window spans half the id space -/
example : sortPulses (run 3 2 (2 ^ 31) (2 ^ 31)) = run 3 2 (2 ^ 31) (2 ^ 31) :=
  sort_run (by decide) (by decide)

/-! ## 2, 3. The scan on a run -/

/-- residue (mod `d + p`) of the ids at which the signal changes to `want`: a data pulse starts
    at residue `0`, a parity pulse at residue `d` -/
def phase (d : Nat) (want : Bool) : Nat := if want then 0 else d

/-- the test made by `scanEdge want` between ids `b` and `b + 1` -/
def isEdge (d p : Nat) (want : Bool) (b : Nat) : Bool :=
  (label d p b != want) && (label d p (b + 1) == want)

theorem succ_mod (b n : Nat) (hn : 0 < n) :
    (b + 1) % n = if b % n + 1 = n then 0 else b % n + 1 := by
  have h1 := Nat.div_add_mod b n
  have h2 := Nat.mod_lt b hn
  split
  · next h =>
    have : b + 1 = n * (b / n + 1) := by rw [Nat.mul_add, Nat.mul_one]; omega
    rw [this, Nat.mul_mod_right]
  · next h =>
    have : b + 1 = n * (b / n) + (b % n + 1) := by omega
    rw [this, Nat.mul_add_mod, Nat.mod_eq_of_lt (by omega)]

theorem add_mod_cases (k i n : Nat) (hn : 0 < n) (hi : i ≤ n) :
    (k + i) % n = if k % n + i < n then k % n + i else k % n + i - n := by
  have h2 := Nat.mod_lt k hn
  rw [Nat.add_mod]
  rcases Nat.lt_or_ge i n with h | h
  · rw [Nat.mod_eq_of_lt h]
    split
    · next h' => exact Nat.mod_eq_of_lt h'
    · rw [Nat.mod_eq_sub_mod (by omega), Nat.mod_eq_of_lt (by omega)]
  · have : i = n := by omega
    subst this
    rw [Nat.mod_self, Nat.add_zero, Nat.mod_mod, if_neg (by omega)]; omega

theorem isEdge_iff {d p : Nat} (hd : 0 < d) (hp : 0 < p) (want : Bool) (b : Nat) :
    isEdge d p want b = true ↔ (b + 1) % (d + p) = phase d want := by
  have h2 := Nat.mod_lt b (show 0 < d + p by omega)
  simp only [isEdge, label, phase, succ_mod b (d + p) (by omega)]
  generalize b % (d + p) = r at *
  cases want
  · simp only [Bool.bne_false, beq_false, Bool.and_eq_true, decide_eq_true_eq,
      Bool.not_eq_eq_eq_not, Bool.not_true, decide_eq_false_iff_not, Nat.not_lt,
      Bool.false_eq_true, ↓reduceIte]
    split <;> omega
  · simp only [Bool.bne_true, beq_true, Bool.and_eq_true, Bool.not_eq_eq_eq_not, Bool.not_true,
      decide_eq_false_iff_not, Nat.not_lt, decide_eq_true_eq, ↓reduceIte]
    split <;> omega

theorem isEdge_false_iff {d p : Nat} (hd : 0 < d) (hp : 0 < p) (want : Bool) (b : Nat) :
    isEdge d p want b = false ↔ (b + 1) % (d + p) ≠ phase d want := by
  simp only [ne_eq, ← isEdge_iff hd hp want b, Bool.not_eq_true]

theorem ofNat_succ (b : Nat) : BitVec.ofNat 32 b + 1 = BitVec.ofNat 32 (b + 1) := by
  bv_omega

theorem scan_run_cons (d p : Nat) (want : Bool) (b idx m : Nat) :
    scanEdge want (pulseAt d p b) idx (run d p (b + 1) (m + 1)) =
      if isEdge d p want b = true then some (idx, pulseAt d p (b + 1), run d p (b + 2) m)
      else scanEdge want (pulseAt d p (b + 1)) (idx + 1) (run d p (b + 2) m) := by
  simp only [run_succ, scanEdge, pulseAt, ofNat_succ, beq_self_eq_true, if_true, isEdge,
    show b + 1 + 1 = b + 2 from rfl]
  rfl

theorem scan_some (d p : Nat) (want : Bool) :
    ∀ (t b idx m : Nat), t < m → (∀ i, i < t → isEdge d p want (b + i) = false) →
      isEdge d p want (b + t) = true →
      scanEdge want (pulseAt d p b) idx (run d p (b + 1) m) =
        some (idx + t, pulseAt d p (b + t + 1), run d p (b + t + 2) (m - t - 1)) := by
  intro t
  induction t with
  | zero =>
    intro b idx m hm _ he
    obtain ⟨m, rfl⟩ : ∃ m', m = m' + 1 := ⟨m - 1, by omega⟩
    rw [Nat.add_zero] at he
    rw [scan_run_cons, if_pos he]
    simp only [Nat.add_zero, Nat.add_sub_cancel, Nat.sub_zero]
  | succ t ih =>
    intro b idx m hm hne he
    obtain ⟨m, rfl⟩ : ∃ m', m = m' + 1 := ⟨m - 1, by omega⟩
    have h0 : isEdge d p want b = false := hne 0 (by omega)
    rw [scan_run_cons, if_neg (by simp only [h0]; decide)]
    rw [ih (b + 1) (idx + 1) m (by omega)
      (fun i hi => by rw [show b + 1 + i = b + (i + 1) by omega]; exact hne (i + 1) (by omega))
      (by rw [show b + 1 + t = b + (t + 1) by omega]; exact he)]
    simp only [show idx + 1 + t = idx + (t + 1) by omega,
      show b + 1 + t + 1 = b + (t + 1) + 1 by omega,
      show b + 1 + t + 2 = b + (t + 1) + 2 by omega,
      show m - t - 1 = m + 1 - (t + 1) - 1 by omega]

theorem scan_cases (d p : Nat) (want : Bool) :
    ∀ (m b idx : Nat), scanEdge want (pulseAt d p b) idx (run d p (b + 1) m) = none ∨
      ∃ t, t < m ∧ (∀ i, i < t → isEdge d p want (b + i) = false) ∧
        isEdge d p want (b + t) = true ∧
        scanEdge want (pulseAt d p b) idx (run d p (b + 1) m) =
          some (idx + t, pulseAt d p (b + t + 1), run d p (b + t + 2) (m - t - 1)) := by
  intro m
  induction m with
  | zero => intro b idx; exact Or.inl rfl
  | succ m ih =>
    intro b idx
    cases he : isEdge d p want b with
    | true =>
      refine Or.inr ⟨0, by omega, fun i hi => by omega, he, ?_⟩
      exact scan_some d p want 0 b idx (m + 1) (by omega) (fun i hi => by omega) he
    | false =>
      rcases ih (b + 1) (idx + 1) with h | ⟨t, ht, hne, het, _⟩
      · left
        rw [scan_run_cons, if_neg (by simp only [he]; decide)]; exact h
      · right
        have hne' : ∀ i, i < t + 1 → isEdge d p want (b + i) = false := by
          intro i hi
          rcases i with _ | i
          · exact he
          · rw [show b + (i + 1) = b + 1 + i by omega]; exact hne i (by omega)
        have het' : isEdge d p want (b + (t + 1)) = true := by
          rw [show b + (t + 1) = b + 1 + t by omega]; exact het
        exact ⟨t + 1, by omega, hne', het',
          scan_some d p want (t + 1) b idx (m + 1) (by omega) hne' het'⟩


/-- every outcome of the two scans on a run: `-1`, or a first left edge between ids `s + t1` and
    `s + t1 + 1`, a first right edge `t2 + 1` ids later, both inside the window -/
theorem period_cases (d p : Nat) (want : Bool) (s len : Nat) :
    periodOfSorted want (run d p s len) = -1 ∨
    ∃ t1 t2, t1 + t2 + 2 < len ∧
      (∀ i, i < t1 → isEdge d p want (s + i) = false) ∧
      isEdge d p want (s + t1) = true ∧
      (∀ i, i < t2 → isEdge d p (!want) (s + t1 + 1 + i) = false) ∧
      isEdge d p (!want) (s + t1 + 1 + t2) = true ∧
      periodOfSorted want (run d p s len) = ((t2 + 1 : Nat) : Int) := by
  rcases len with _ | len
  · exact Or.inl rfl
  · rw [run_succ]
    simp only [periodOfSorted]
    rcases scan_cases d p want len s 1 with h | ⟨t1, ht1, hne1, he1, h⟩
    · left; rw [h]
    · rw [h]; simp only
      have h2 := scan_cases d p (!want) (len - t1 - 1) (s + t1 + 1) (1 + t1 + 1)
      rw [show s + t1 + 1 + 1 = s + t1 + 2 from rfl] at h2
      rcases h2 with h' | ⟨t2, ht2, hne2, he2, h'⟩
      · left; rw [h']
      · right; rw [h']
        refine ⟨t1, t2, by omega, hne1, he1, hne2, he2, ?_⟩; simp only; omega

theorem period_some (d p : Nat) (want : Bool) (s len t1 t2 : Nat) (hlen : t1 + t2 + 2 < len)
    (hne1 : ∀ i, i < t1 → isEdge d p want (s + i) = false)
    (he1 : isEdge d p want (s + t1) = true)
    (hne2 : ∀ i, i < t2 → isEdge d p (!want) (s + t1 + 1 + i) = false)
    (he2 : isEdge d p (!want) (s + t1 + 1 + t2) = true) :
    periodOfSorted want (run d p s len) = ((t2 + 1 : Nat) : Int) := by
  obtain ⟨len, rfl⟩ : ∃ l, len = l + 1 := ⟨len - 1, by omega⟩
  rw [run_succ]
  simp only [periodOfSorted]
  rw [scan_some d p want t1 s 1 len (by omega) hne1 he1]
  simp only
  have h2 := scan_some d p (!want) t2 (s + t1 + 1) (1 + t1 + 1) (len - t1 - 1) (by omega) hne2 he2
  rw [show s + t1 + 1 + 1 = s + t1 + 2 from rfl] at h2
  rw [h2]; simp only; omega

/-- length of a pulse of `want`: `d` data ids, `p` parity ids -/
def width (d p : Nat) (want : Bool) : Nat := if want then d else p

/-- from the start of a pulse of `want`, the next start of a pulse of `!want` is exactly
    `width d p want` ids later -/
theorem hit {d p k : Nat} (hd : 0 < d) (hp : 0 < p) (want : Bool)
    (hk : k % (d + p) = phase d want) (i : Nat) (h1 : 1 ≤ i) (hi : i ≤ width d p want) :
    (k + i) % (d + p) = phase d (!want) ↔ i = width d p want := by
  cases want
  · simp only [phase, width, Bool.false_eq_true, if_false, Bool.not_false, if_true] at *
    rw [add_mod_cases k i (d + p) (by omega) (by omega), hk]; split <;> omega
  · simp only [phase, width, Bool.false_eq_true, if_false, Bool.not_true, if_true] at *
    rw [add_mod_cases k i (d + p) (by omega) (by omega), hk]; split <;> omega

theorem width_pos {d p : Nat} (hd : 0 < d) (hp : 0 < p) (want : Bool) : 1 ≤ width d p want := by
  cases want
  · simp only [width, Bool.false_eq_true, if_false]; omega
  · simp only [width, if_true]; omega

/-- the scan on a run, arithmetically: `-1`, or the first id after `s` at which a pulse of `want`
    starts is `s + t1 + 1`, the whole pulse and the id after it are inside the window, and the
    result is the pulse width -/
theorem period_run_cases {d p : Nat} (hd : 0 < d) (hp : 0 < p) (want : Bool) (s len : Nat) :
    periodOfSorted want (run d p s len) = -1 ∨
    ∃ t1, (∀ i, i < t1 → (s + i + 1) % (d + p) ≠ phase d want) ∧
      (s + t1 + 1) % (d + p) = phase d want ∧
      t1 + width d p want + 1 < len ∧
      periodOfSorted want (run d p s len) = (width d p want : Int) := by
  rcases period_cases d p want s len with h | ⟨t1, t2, hlen, hne1, he1, hne2, he2, h⟩
  · exact Or.inl h
  · right
    rw [isEdge_iff hd hp] at he1 he2
    have hne1' : ∀ i, i < t1 → (s + i + 1) % (d + p) ≠ phase d want :=
      fun i hi => (isEdge_false_iff hd hp _ _).1 (hne1 i hi)
    have hne2' : ∀ i, i < t2 → (s + t1 + 1 + i + 1) % (d + p) ≠ phase d (!want) :=
      fun i hi => (isEdge_false_iff hd hp _ _).1 (hne2 i hi)
    have hw := width_pos hd hp want
    have H := hit hd hp want he1
    have : t2 + 1 = width d p want := by
      rcases Nat.lt_or_ge (width d p want) (t2 + 1) with hlt | hge
      · exfalso
        have := hne2' (width d p want - 1) (by omega)
        rw [show s + t1 + 1 + (width d p want - 1) + 1 = s + t1 + 1 + width d p want by omega]
          at this
        exact this ((H _ hw (Nat.le_refl _)).2 rfl)
      · exact (H (t2 + 1) (by omega) hge).1 he2
    exact ⟨t1, hne1', he1, by omega, by rw [h, this]⟩

theorem period_run_sound {d p : Nat} (hd : 0 < d) (hp : 0 < p) (want : Bool) (s len : Nat) :
    periodOfSorted want (run d p s len) = -1 ∨
    periodOfSorted want (run d p s len) = (width d p want : Int) := by
  rcases period_run_cases hd hp want s len with h | ⟨_, _, _, _, h⟩
  · exact Or.inl h
  · exact Or.inr h

theorem period_run_complete_aux {d p : Nat} (hd : 0 < d) (hp : 0 < p) (want : Bool)
    (s len t1 : Nat) (hlen : t1 + width d p want + 1 < len)
    (hne1 : ∀ i, i < t1 → (s + i + 1) % (d + p) ≠ phase d want)
    (he1 : (s + t1 + 1) % (d + p) = phase d want) :
    periodOfSorted want (run d p s len) = (width d p want : Int) := by
  have hw := width_pos hd hp want
  have H := hit hd hp want he1
  have := period_some d p want s len t1 (width d p want - 1) (by omega)
    (fun i hi => (isEdge_false_iff hd hp _ _).2 (hne1 i hi))
    ((isEdge_iff hd hp _ _).2 he1)
    (fun i hi => (isEdge_false_iff hd hp _ _).2 (by
      rw [Nat.add_assoc (s + t1 + 1) i 1, ne_eq, H (i + 1) (by omega) (by omega)]; omega))
    ((isEdge_iff hd hp _ _).2 (by
      rw [Nat.add_assoc (s + t1 + 1) _ 1, H _ (by omega) (by omega)]; omega))
  rw [this, show width d p want - 1 + 1 = width d p want by omega]

/-- if `s + t1 + 1` is the first id after `s` at which a pulse of `want` starts, the scan succeeds
    exactly when that pulse and the id after it are inside the window -/
theorem period_run_iff_aux {d p : Nat} (hd : 0 < d) (hp : 0 < p) (want : Bool)
    (s len t1 : Nat)
    (hne1 : ∀ i, i < t1 → (s + i + 1) % (d + p) ≠ phase d want)
    (he1 : (s + t1 + 1) % (d + p) = phase d want) :
    periodOfSorted want (run d p s len) = (width d p want : Int) ↔
      t1 + width d p want + 1 < len := by
  constructor
  · intro h
    rcases period_run_cases hd hp want s len with h' | ⟨t1', hne1', he1', hlen, _⟩
    · rw [h'] at h; omega
    · have : t1' = t1 := by
        rcases Nat.lt_trichotomy t1' t1 with h | h | h
        · exact absurd he1' (hne1 t1' h)
        · exact h
        · exact absurd he1 (hne1' t1 h)
      rw [← this]; exact hlen
  · exact fun hlen => period_run_complete_aux hd hp want s len t1 hlen hne1 he1

theorem period_run_true_sound {d p : Nat} (hd : 0 < d) (hp : 0 < p) (s len : Nat) :
    periodOfSorted true (run d p s len) = -1 ∨ periodOfSorted true (run d p s len) = (d : Int) :=
  period_run_sound hd hp true s len

theorem period_run_false_sound {d p : Nat} (hd : 0 < d) (hp : 0 < p) (s len : Nat) :
    periodOfSorted false (run d p s len) = -1 ∨
    periodOfSorted false (run d p s len) = (p : Int) :=
  period_run_sound hd hp false s len

/-- the data period is found iff the first group start strictly after `s`, the `d` data ids from
    there and the parity id after them are inside the window -/
theorem period_run_true_iff {d p : Nat} (hd : 0 < d) (hp : 0 < p) (s len : Nat) :
    periodOfSorted true (run d p s len) = (d : Int) ↔
      (s + ((d + p) - s % (d + p))) + d < s + len := by
  have hr := Nat.mod_lt s (show 0 < d + p by omega)
  refine (period_run_iff_aux hd hp true s len ((d + p) - s % (d + p) - 1) ?_ ?_).trans ?_
  · intro i hi
    rw [Nat.add_assoc, add_mod_cases s (i + 1) (d + p) (by omega) (by omega)]
    simp only [phase, if_true]
    split <;> omega
  · rw [Nat.add_assoc, add_mod_cases s _ (d + p) (by omega) (by omega)]
    simp only [phase, if_true]
    split <;> omega
  · simp only [width, if_true]; omega

/-- the parity period is found iff the first id `k' > s` with `k' % (d + p) = d`, the `p` parity
    ids from there and the data id after them are inside the window -/
theorem period_run_false_iff {d p : Nat} (hd : 0 < d) (hp : 0 < p) (s len : Nat) :
    periodOfSorted false (run d p s len) = (p : Int) ↔
      (if s % (d + p) < d then s + (d - s % (d + p)) else s + ((d + p) - s % (d + p)) + d) + p
        < s + len := by
  have hr := Nat.mod_lt s (show 0 < d + p by omega)
  by_cases hc : s % (d + p) < d
  · rw [if_pos hc]
    refine (period_run_iff_aux hd hp false s len (d - s % (d + p) - 1) ?_ ?_).trans ?_
    · intro i hi
      rw [Nat.add_assoc, add_mod_cases s (i + 1) (d + p) (by omega) (by omega)]
      simp only [phase, Bool.false_eq_true, if_false]
      split <;> omega
    · rw [Nat.add_assoc, add_mod_cases s _ (d + p) (by omega) (by omega)]
      simp only [phase, Bool.false_eq_true, if_false]
      split <;> omega
    · simp only [width, Bool.false_eq_true, if_false]; omega
  · rw [if_neg hc]
    refine (period_run_iff_aux hd hp false s len ((d + p) - s % (d + p) + d - 1) ?_ ?_).trans ?_
    · intro i hi
      rw [Nat.add_assoc, add_mod_cases s (i + 1) (d + p) (by omega) (by omega)]
      simp only [phase, Bool.false_eq_true, if_false]
      split <;> omega
    · rw [Nat.add_assoc, add_mod_cases s _ (d + p) (by omega) (by omega)]
      simp only [phase, Bool.false_eq_true, if_false]
      split <;> omega
    · simp only [width, Bool.false_eq_true, if_false]; omega

theorem period_run_true_complete {d p : Nat} (hd : 0 < d) (hp : 0 < p) (s len : Nat)
    (h : (s + ((d + p) - s % (d + p))) + d < s + len) :
    periodOfSorted true (run d p s len) = (d : Int) :=
  (period_run_true_iff hd hp s len).2 h

theorem period_run_false_complete {d p : Nat} (hd : 0 < d) (hp : 0 < p) (s len : Nat)
    (h : (if s % (d + p) < d then s + (d - s % (d + p)) else s + ((d + p) - s % (d + p)) + d) + p
          < s + len) :
    periodOfSorted false (run d p s len) = (p : Int) :=
  (period_run_false_iff hd hp s len).2 h

/-- the window-length conditions are necessary: otherwise the result is `-1` -/
theorem period_run_true_short {d p : Nat} (hd : 0 < d) (hp : 0 < p) (s len : Nat)
    (h : ¬ (s + ((d + p) - s % (d + p))) + d < s + len) :
    periodOfSorted true (run d p s len) = -1 :=
  (period_run_true_sound hd hp s len).resolve_right
    (fun h' => h ((period_run_true_iff hd hp s len).1 h'))

theorem period_run_false_short {d p : Nat} (hd : 0 < d) (hp : 0 < p) (s len : Nat)
    (h : ¬ (if s % (d + p) < d then s + (d - s % (d + p)) else s + ((d + p) - s % (d + p)) + d) + p
          < s + len) :
    periodOfSorted false (run d p s len) = -1 :=
  (period_run_false_sound hd hp s len).resolve_right
    (fun h' => h ((period_run_false_iff hd hp s len).1 h'))

example : periodOfSorted true (run 3 2 7 20) = 3 := by decide
example : periodOfSorted false (run 3 2 7 20) = 2 := by decide
example : periodOfSorted true (run 3 2 7 20) = 3 :=
  period_run_true_complete (by decide) (by decide) 7 20 (by decide)
example : periodOfSorted false (run 3 2 7 20) = 2 :=
  period_run_false_complete (by decide) (by decide) 7 20 (by decide)
/-- the length conditions are tight: one sample less and the right edge is outside the window -/
example : (7 + ((3 + 2) - 7 % (3 + 2))) + 3 = 7 + 6 ∧ periodOfSorted true (run 3 2 7 6) = -1 ∧
    periodOfSorted true (run 3 2 7 7) = 3 := by decide
example : (if 7 % (3 + 2) < 3 then 7 + (3 - 7 % (3 + 2)) else 7 + ((3 + 2) - 7 % (3 + 2)) + 3) + 2
      = 7 + 3 ∧ periodOfSorted false (run 3 2 7 3) = -1 ∧
    periodOfSorted false (run 3 2 7 4) = 2 := by decide
example : (if 9 % (3 + 2) < 3 then 9 + (3 - 9 % (3 + 2)) else 9 + ((3 + 2) - 9 % (3 + 2)) + 3) + 2
      = 9 + 6 ∧ periodOfSorted false (run 3 2 9 6) = -1 ∧
    periodOfSorted false (run 3 2 9 7) = 2 := by decide

/-! ## 4. Lifting to `Tune.findPeriod` -/

theorem findPeriod_run {d p s : Nat} {t : Tune} (hc : 3 ≤ t.count)
    (hw : t.window = run d p s t.count) (h : s + t.count ≤ 2 ^ 32) (hl : t.count ≤ 2 ^ 31)
    (bit : Bool) : t.findPeriod bit = periodOfSorted bit (run d p s t.count) := by
  simp only [Tune.findPeriod, if_neg (show ¬ t.count < 3 by omega), hw, sort_run h hl]

theorem findPeriod_true_sound {d p s : Nat} {t : Tune} (hd : 0 < d) (hp : 0 < p)
    (hc : 3 ≤ t.count) (hw : t.window = run d p s t.count) (h : s + t.count ≤ 2 ^ 32)
    (hl : t.count ≤ 2 ^ 31) : t.findPeriod true = -1 ∨ t.findPeriod true = (d : Int) := by
  rw [findPeriod_run hc hw h hl]; exact period_run_true_sound hd hp s t.count

theorem findPeriod_false_sound {d p s : Nat} {t : Tune} (hd : 0 < d) (hp : 0 < p)
    (hc : 3 ≤ t.count) (hw : t.window = run d p s t.count) (h : s + t.count ≤ 2 ^ 32)
    (hl : t.count ≤ 2 ^ 31) : t.findPeriod false = -1 ∨ t.findPeriod false = (p : Int) := by
  rw [findPeriod_run hc hw h hl]; exact period_run_false_sound hd hp s t.count

theorem findPeriod_true_complete {d p s : Nat} {t : Tune} (hd : 0 < d) (hp : 0 < p)
    (hc : 3 ≤ t.count) (hw : t.window = run d p s t.count) (h : s + t.count ≤ 2 ^ 32)
    (hl : t.count ≤ 2 ^ 31)
    (hlen : (s + ((d + p) - s % (d + p))) + d < s + t.count) :
    t.findPeriod true = (d : Int) := by
  rw [findPeriod_run hc hw h hl]; exact period_run_true_complete hd hp s t.count hlen

theorem findPeriod_false_complete {d p s : Nat} {t : Tune} (hd : 0 < d) (hp : 0 < p)
    (hc : 3 ≤ t.count) (hw : t.window = run d p s t.count) (h : s + t.count ≤ 2 ^ 32)
    (hl : t.count ≤ 2 ^ 31)
    (hlen : (if s % (d + p) < d then s + (d - s % (d + p))
              else s + ((d + p) - s % (d + p)) + d) + p < s + t.count) :
    t.findPeriod false = (p : Int) := by
  rw [findPeriod_run hc hw h hl]; exact period_run_false_complete hd hp s t.count hlen

theorem findPeriod_true_iff {d p s : Nat} {t : Tune} (hd : 0 < d) (hp : 0 < p)
    (hc : 3 ≤ t.count) (hw : t.window = run d p s t.count) (h : s + t.count ≤ 2 ^ 32)
    (hl : t.count ≤ 2 ^ 31) :
    t.findPeriod true = (d : Int) ↔ (s + ((d + p) - s % (d + p))) + d < s + t.count := by
  rw [findPeriod_run hc hw h hl]; exact period_run_true_iff hd hp s t.count

theorem findPeriod_false_iff {d p s : Nat} {t : Tune} (hd : 0 < d) (hp : 0 < p)
    (hc : 3 ≤ t.count) (hw : t.window = run d p s t.count) (h : s + t.count ≤ 2 ^ 32)
    (hl : t.count ≤ 2 ^ 31) :
    t.findPeriod false = (p : Int) ↔
      (if s % (d + p) < d then s + (d - s % (d + p))
        else s + ((d + p) - s % (d + p)) + d) + p < s + t.count := by
  rw [findPeriod_run hc hw h hl]; exact period_run_false_iff hd hp s t.count

/-- `Sample` applied to a list of samples in order -/
def feed (t : Tune) (l : List Pulse) : Tune := l.foldl (fun t x => t.sample x.bit x.seq) t

example : (feed Tune.init (run 3 2 7 20)).count = 20 ∧
    (feed Tune.init (run 3 2 7 20)).window = run 3 2 7 20 := by decide +kernel
example : (feed Tune.init (run 3 2 7 20)).findPeriod true = 3 :=
  findPeriod_true_complete (d := 3) (p := 2) (s := 7) (by decide) (by decide) (by decide +kernel)
    (by decide +kernel) (by decide +kernel) (by decide +kernel) (by decide +kernel)
example : (feed Tune.init (run 3 2 7 20)).findPeriod false = 2 :=
  findPeriod_false_complete (d := 3) (p := 2) (s := 7) (by decide) (by decide) (by decide +kernel)
    (by decide +kernel) (by decide +kernel) (by decide +kernel) (by decide +kernel)

/-! ## 5. The ring is a sliding window -/

theorem mod_wrap (h i M : Nat) (hh : h < M) (hi : i ≤ M) :
    (h + i) % M = if h + i < M then h + i else h + i - M := by
  split
  · next h' => exact Nat.mod_eq_of_lt h'
  · rw [Nat.mod_eq_sub_mod (by omega), Nat.mod_eq_of_lt (by omega)]

def _root_.KcpVerif.AutoTune.Tune.WF (t : Tune) : Prop :=
  t.pulses.length = maxAutoTuneSamples ∧ t.head < maxAutoTuneSamples ∧
  t.tail < maxAutoTuneSamples ∧ t.count ≤ maxAutoTuneSamples ∧
  t.tail = (t.head + t.count) % maxAutoTuneSamples

theorem maxAutoTuneSamples_pos : 0 < maxAutoTuneSamples := by decide

theorem wf_init : Tune.init.WF := by
  have hM := maxAutoTuneSamples_pos
  refine ⟨?_, hM, hM, Nat.zero_le _, ?_⟩
  · simp only [Tune.init, List.length_replicate]
  · simp only [Tune.init, Nat.add_zero, Nat.zero_mod]

theorem wf_sample {t : Tune} (b : Bool) (q : BitVec 32) (h : t.WF) : (t.sample b q).WF := by
  have hM := maxAutoTuneSamples_pos
  obtain ⟨hlen, hhead, htail, hcount, heq⟩ := h
  simp only [Tune.sample]
  split
  · next hc =>
    refine ⟨?_, hhead, Nat.mod_lt _ hM, hc, ?_⟩
    · simp only [List.length_set, hlen]
    · simp only [heq, Nat.mod_add_mod, Nat.add_assoc]
  · next hc =>
    have hcM : t.count = maxAutoTuneSamples := by omega
    refine ⟨?_, Nat.mod_lt _ hM, Nat.mod_lt _ hM, hcount, ?_⟩
    · simp only [List.length_set, hlen]
    · simp only [heq, hcM, Nat.add_mod_right, Nat.mod_mod, Nat.mod_add_mod]

theorem window_sample {t : Tune} (b : Bool) (q : BitVec 32) (h : t.WF) :
    (t.sample b q).window =
      ((t.window ++ [({ bit := b, seq := q } : Pulse)]).drop
        (if t.count < maxAutoTuneSamples then 0 else 1)) := by
  have hM := maxAutoTuneSamples_pos
  obtain ⟨hlen, hhead, htail, hcount, heq⟩ := h
  simp only [Tune.sample]
  split
  · next hc =>
    simp only [Tune.window, List.drop_zero, List.range_succ, List.map_append, List.map_cons,
      List.map_nil]
    congr 1
    · apply List.map_congr_left
      intro i hi
      rw [List.mem_range] at hi
      have hne : t.tail ≠ (t.head + i) % maxAutoTuneSamples := by
        rw [heq, mod_wrap _ _ _ hhead (by omega), mod_wrap _ _ _ hhead (by omega)]
        split <;> split <;> omega
      simp only [List.getD_eq_getElem?_getD, List.getElem?_set_ne hne]
    · simp only [List.getD_eq_getElem?_getD, ← heq]
      rw [List.getElem?_set_self (by omega)]
      rfl
  · next hc =>
    have hcM : t.count = maxAutoTuneSamples := by omega
    have htl : t.tail = t.head := by
      rw [heq, hcM, Nat.add_mod_right, Nat.mod_eq_of_lt hhead]
    simp only [Tune.window]
    apply List.ext_getElem
    · simp only [List.length_map, List.length_range, List.length_drop, List.length_append,
        List.length_cons, List.length_nil]; omega
    · intro i h1 h2
      simp only [List.length_map, List.length_range] at h1
      simp only [List.getElem_map, List.getElem_range, List.getElem_drop,
        List.getD_eq_getElem?_getD]
      by_cases hi : 1 + i < t.count
      · rw [List.getElem_append_left (by simpa using hi)]
        simp only [List.getElem_map, List.getElem_range]
        have hne : t.tail ≠ ((t.head + 1) % maxAutoTuneSamples + i) % maxAutoTuneSamples := by
          rw [htl, Nat.mod_add_mod, Nat.add_assoc, mod_wrap _ _ _ hhead (by omega)]
          split <;> omega
        rw [List.getElem?_set_ne hne, Nat.mod_add_mod, Nat.add_assoc]
      · have hiM : 1 + i = maxAutoTuneSamples := by omega
        rw [List.getElem_append_right (by simp only [List.length_map, List.length_range]; omega)]
        simp only [List.getElem_singleton]
        have : ((t.head + 1) % maxAutoTuneSamples + i) % maxAutoTuneSamples = t.tail := by
          rw [htl, Nat.mod_add_mod, Nat.add_assoc, hiM, Nat.add_mod_right, Nat.mod_eq_of_lt hhead]
        rw [this, List.getElem?_set_self (by omega)]
        rfl

example : (Tune.init.sample true 5#32).window = [{ bit := true, seq := 5#32 }] := by
  rw [window_sample true 5#32 wf_init]; decide +kernel

/-! ## 5b. Feeding a run into the zero-value ring -/

theorem feed_append (t : Tune) (l : List Pulse) (x : Pulse) :
    feed t (l ++ [x]) = (feed t l).sample x.bit x.seq := by
  simp only [feed, List.foldl_append, List.foldl_cons, List.foldl_nil]

theorem run_succ_right (d p : Nat) : ∀ (len s : Nat),
    run d p s (len + 1) = run d p s len ++ [pulseAt d p (s + len)] := by
  intro len
  induction len with
  | zero => intro s; rfl
  | succ len ih =>
    intro s
    rw [run_succ, ih (s + 1), run_succ, List.cons_append,
      show s + 1 + len = s + (len + 1) by omega]

theorem wf_feed {t : Tune} (l : List Pulse) (h : t.WF) : (feed t l).WF := by
  induction l generalizing t with
  | nil => exact h
  | cons x l ih => exact ih (wf_sample x.bit x.seq h)

theorem count_sample (t : Tune) (b : Bool) (q : BitVec 32) :
    (t.sample b q).count = if t.count < maxAutoTuneSamples then t.count + 1 else t.count := by
  simp only [Tune.sample]; split <;> rfl

/-- after `len` in-order samples the ring holds the last `min len maxAutoTuneSamples` of them -/
theorem feed_run (d p s : Nat) : ∀ len : Nat,
    (feed Tune.init (run d p s len)).count = min len maxAutoTuneSamples ∧
    (feed Tune.init (run d p s len)).window =
      run d p (s + (len - maxAutoTuneSamples)) (min len maxAutoTuneSamples) := by
  intro len
  induction len with
  | zero => exact ⟨rfl, rfl⟩
  | succ len ih =>
    obtain ⟨hc, hw⟩ := ih
    have hwf : (feed Tune.init (run d p s len)).WF := wf_feed _ wf_init
    rw [run_succ_right, feed_append]
    refine ⟨?_, ?_⟩
    · rw [count_sample, hc]; split <;> omega
    · rw [window_sample _ _ hwf, hw, hc]
      by_cases hlt : len < maxAutoTuneSamples
      · rw [if_pos (by omega), List.drop_zero, show min len maxAutoTuneSamples = len by omega,
          show min (len + 1) maxAutoTuneSamples = len + 1 by omega,
          show len - maxAutoTuneSamples = 0 by omega,
          show len + 1 - maxAutoTuneSamples = 0 by omega, Nat.add_zero, run_succ_right]
      · rw [if_neg (by omega), show min len maxAutoTuneSamples = maxAutoTuneSamples by omega,
          show min (len + 1) maxAutoTuneSamples = maxAutoTuneSamples by omega]
        have e : pulseAt d p (s + len) =
            pulseAt d p (s + (len - maxAutoTuneSamples) + maxAutoTuneSamples) := by
          rw [show s + (len - maxAutoTuneSamples) + maxAutoTuneSamples = s + len by omega]
        rw [show ({ bit := (pulseAt d p (s + len)).bit,
                    seq := (pulseAt d p (s + len)).seq } : Pulse) = pulseAt d p (s + len)
              from rfl, e, ← run_succ_right, run_succ, List.drop_one, List.tail_cons,
          show s + (len - maxAutoTuneSamples) + 1 = s + (len + 1 - maxAutoTuneSamples) by omega]

/-- end to end: `FindPeriod` after `len` in-order samples into a fresh detector -/
theorem findPeriod_feed_run (d p s len : Nat) (bit : Bool) (h3 : 3 ≤ len)
    (h : s + len ≤ 2 ^ 32) :
    (feed Tune.init (run d p s len)).findPeriod bit =
      periodOfSorted bit
        (run d p (s + (len - maxAutoTuneSamples)) (min len maxAutoTuneSamples)) := by
  obtain ⟨hc, hw⟩ := feed_run d p s len
  have hM : 3 ≤ maxAutoTuneSamples ∧ maxAutoTuneSamples ≤ 2 ^ 31 := by decide
  rw [← hc] at hw
  rw [findPeriod_run (by omega) hw (by omega) (by omega), hc]

/-- 300 samples into the 258-slot ring: the oldest 42 have been overwritten -/
example : (feed Tune.init (run 3 2 0 300)).window = run 3 2 42 258 := (feed_run 3 2 0 300).2

example : (feed Tune.init (run 3 2 7 1000)).findPeriod true = 3 := by
  rw [findPeriod_feed_run 3 2 7 1000 true (by decide) (by decide)]
  exact period_run_true_complete (by decide) (by decide) _ _ (by decide)

/-! ## 6. Mismatch detection -/

theorem run_congr {d p d' p' : Nat} :
    ∀ (len s : Nat), (∀ k, s ≤ k → k < s + len → label d p k = label d' p' k) →
      run d p s len = run d' p' s len := by
  intro len
  induction len with
  | zero => intro s _; rfl
  | succ len ih =>
    intro s h
    rw [run_succ, run_succ, pulseAt, pulseAt, h s (Nat.le_refl _) (by omega),
      ih (s + 1) (fun k h1 h2 => h k (by omega) (by omega))]

/-- among any `2 * (d + p)` consecutive ids, a labelling with a different ratio disagrees with
    the (d, p) labelling somewhere -/
theorem mismatch_detect {d p d' p' : Nat} (hd : 0 < d) (hp : 0 < p) (hd' : 0 < d') (hp' : 0 < p')
    (hne : (d', p') ≠ (d, p)) (s : Nat) :
    ∃ k, s ≤ k ∧ k < s + 2 * (d + p) ∧ label d p k ≠ label d' p' k := by
  apply Classical.byContradiction
  intro hno
  have hall : ∀ k, s ≤ k → k < s + 2 * (d + p) → label d p k = label d' p' k := by
    intro k h1 h2
    apply Classical.byContradiction
    intro h; exact hno ⟨k, h1, h2, h⟩
  have hrun := run_congr _ _ hall
  have hr := Nat.mod_lt s (show 0 < d + p by omega)
  have ht := period_run_true_complete hd hp s (2 * (d + p)) (by omega)
  have hf := period_run_false_complete hd hp s (2 * (d + p)) (by split <;> omega)
  rw [hrun] at ht hf
  have hdd : d' = d := by
    rcases period_run_true_sound hd' hp' s (2 * (d + p)) with h | h <;> rw [ht] at h <;> omega
  have hpp : p' = p := by
    rcases period_run_false_sound hd' hp' s (2 * (d + p)) with h | h <;> rw [hf] at h <;> omega
  exact hne (by rw [hdd, hpp])

example : ∃ k, 7 ≤ k ∧ k < 7 + 2 * (3 + 2) ∧ label 3 2 k ≠ label 4 1 k :=
  mismatch_detect (by decide) (by decide) (by decide) (by decide) (by decide) 7

end KcpVerif.Lemmas.AutoTune
