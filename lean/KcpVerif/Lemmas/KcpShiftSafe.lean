/-
C12 — a sufficient condition for the side condition `inputSafe` of the shift theorem:
if every segment in `snd_buf` has been transmitted at least once (`AllSent`), then EVERY datagram
(forged ones included) is safe.  `AllSent` fails only between an ACK-only flush that admitted
segments and the next full flush.
-/
import KcpVerif.Lemmas.KcpShiftOps

namespace KcpVerif.Shift
open KcpVerif KcpVerif.Gen KcpVerif.Kcp

/-- every segment in the send buffer has been transmitted at least once -/
def AllSent (l : List Seg) : Prop := ∀ s ∈ l, s.xmit ≠ 0

theorem fastSafe_of_allSent (sn : U32) (l : List Seg) (h : AllSent l) : fastSafe sn l = true := by
  induction l with
  | nil => rfl
  | cons s rest ih =>
    simp only [fastSafe, Bool.or_eq_true, Bool.and_eq_true, decide_eq_true_eq]
    exact Or.inr ⟨Or.inr (h s List.mem_cons_self), ih (fun x hx => h x (List.mem_cons_of_mem _ hx))⟩

theorem allSent_ackLoop (sn : U32) (l : List Seg) (h : AllSent l) : AllSent (ackLoop sn l) := by
  induction l with
  | nil => exact h
  | cons s rest ih =>
    have hs := h s List.mem_cons_self
    have hr : AllSent rest := fun x hx => h x (List.mem_cons_of_mem _ hx)
    unfold ackLoop
    split
    · intro x hx
      rcases List.mem_cons.mp hx with e | e
      · rw [e]; exact hs
      · exact hr x e
    split
    · exact h
    · intro x hx
      rcases List.mem_cons.mp hx with e | e
      · rw [e]; exact hs
      · exact ih hr x e

theorem allSent_fastLoop (sn ts fr : U32) (l : List Seg) (h : AllSent l) : AllSent (fastLoop sn ts fr l).buf := by
  induction l with
  | nil => exact h
  | cons s rest ih =>
    have hs := h s List.mem_cons_self
    have hr : AllSent rest := fun x hx => h x (List.mem_cons_of_mem _ hx)
    unfold fastLoop
    split
    · exact h
    split
    · intro x hx
      rcases List.mem_cons.mp hx with e | e
      · rw [e]; exact hs
      · exact ih hr x e
    · intro x hx
      rcases List.mem_cons.mp hx with e | e
      · rw [e]; exact hs
      · exact ih hr x e

theorem parseAck_snd_buf_allSent (k : Kcp) (sn : U32) (h : AllSent k.snd_buf) : AllSent (parseAck k sn).snd_buf := by
  unfold parseAck
  split
  · exact h
  · exact allSent_ackLoop sn _ h

theorem parseFastack_snd_buf_allSent (k : Kcp) (sn ts : U32) (h : AllSent k.snd_buf) :
    AllSent (parseFastack k sn ts).1.snd_buf := by
  unfold parseFastack
  split
  · exact h
  · exact allSent_fastLoop sn ts _ _ h

theorem moveReady_snd_buf (k : Kcp) : (moveReady k).snd_buf = k.snd_buf := rfl

theorem parseData_snd_buf (k : Kcp) (s : Seg) : (parseData k s).k.snd_buf = k.snd_buf := by
  unfold parseData
  split
  · rfl
  split
  · rfl
  split
  · rfl
  · rfl

theorem procCommon_allSent (regular : Bool) (st : InLoop) (wnd : BitVec 16) (una : U32)
    (h : AllSent st.k.snd_buf) : AllSent (procCommon regular st wnd una).k.snd_buf := by
  have e : (procCommon regular st wnd una).k.snd_buf =
      st.k.snd_buf.drop (unaCount una st.k.snd_buf) := by
    unfold procCommon
    rw [shrinkBuf_eq]
    cases regular <;> rfl
  rw [e]
  exact fun x hx => h x (List.mem_of_mem_drop hx)

theorem procSeg_allSent (regular : Bool) (st : InLoop) (conv : U32) (cmd frg : BitVec 8) (wnd : BitVec 16)
    (ts sn una : U32) (payload : Bytes) (h : AllSent st.k.snd_buf) :
    AllSent (procSeg regular st conv cmd frg wnd ts sn una payload).k.snd_buf := by
  have h1 := procCommon_allSent regular st wnd una h
  unfold procSeg
  split
  · exact parseFastack_snd_buf_allSent _ sn ts (parseAck_snd_buf_allSent _ sn h1)
  split
  · unfold procPush
    split
    · split
      · show AllSent (parseData _ _).k.snd_buf
        rw [parseData_snd_buf]; exact h1
      · exact h1
    · exact h1
  split
  · exact h1
  · exact h1

theorem segSafe_of_allSent (regular : Bool) (st : InLoop) (cmd : BitVec 8) (wnd : BitVec 16) (sn una : U32)
    (h : AllSent st.k.snd_buf) : segSafe regular st cmd wnd sn una = true := by
  unfold segSafe
  split
  · unfold fastackSafe
    rw [Bool.or_eq_true]
    exact Or.inr (fastSafe_of_allSent sn _ (parseAck_snd_buf_allSent _ sn (procCommon_allSent regular st wnd una h)))
  · rfl

theorem inputLoopSafe_of_allSent (regular : Bool) (fuel : Nat) (data : Bytes) (st : InLoop)
    (h : AllSent st.k.snd_buf) : inputLoopSafe regular fuel data st = true := by
  induction fuel generalizing data st with
  | zero => rfl
  | succ fuel ih =>
    unfold inputLoopSafe
    split
    · rfl
    split
    · rfl
    split
    · rfl
    split
    · rfl
    rw [Bool.and_eq_true]
    refine ⟨segSafe_of_allSent regular st _ _ _ _ h, ?_⟩
    split
    · rfl
    · exact ih _ _ (procSeg_allSent regular st _ _ _ _ _ _ _ _ h)

/-- if every segment in `snd_buf` has been transmitted, every datagram is safe -/
theorem inputSafe_of_allSent (k : Kcp) (data : Bytes) (regular : Bool) (h : AllSent k.snd_buf) :
    inputSafe k data regular = true :=
  inputLoopSafe_of_allSent regular _ data { k := k } h

end KcpVerif.Shift
