/-
Two sessions with FEC (`Model/SessFec.lean`, no cipher) connected by a network that drops,
duplicates, reorders and delays datagrams, for `C01_session_fec`.

* `FecG`: a session with ghost history (`rd`, `wr`, `log` as in `SessG`; `cwire` = what the core
  handed to `output`; `wire` = what the FEC stage put on the wire; `recvd` = the FEC packets that
  reached the decoder; `dead`);
* `fecStep`: one call of `WriteBuffers` / `Read` / `update` / `packetInput` / a setter, defined with
  the functions of `Model/SessFec.lean` (the model the `sessfec` component ties to real sessions);
* every step other than `packetInput` is a step of the plain ghost session `toSessG` (the FEC
  stage only transforms what goes on the wire): `fecStep_plain`;
* `packetInput` is a run of core `Input`s (`fecInput_ref`, arbitrary bytes) and — for a genuine FEC
  packet, a decoder that has only seen genuine packets, and the soundness of the decoder
  (`C01_fec_reduction_full`) — a sequence of deliveries of datagrams the peer's core emitted
  (`fecInput_dlv`).
-/
import KcpVerif.Lemmas.C01FecChain

namespace KcpVerif.C01
open KcpVerif KcpVerif.Gen KcpVerif.Kcp KcpVerif.Frame KcpVerif.Recv KcpVerif.Send KcpVerif.Wire
open KcpVerif.SessFec KcpVerif.Props

structure FecG where
  x     : SessFec
  rd    : Bytes := []
  wr    : Bytes := []
  log   : List Content := []
  cwire : List Bytes := []
  wire  : List Bytes := []
  recvd : List Bytes := []
  dead  : Bool := false

inductive FecOp where
  | write (v : List Bytes) (now : U32) (gap : Int)
  | read (blen : Nat)
  | update (now : U32) (gap : Int)
  | input (d : Bytes) (now : U32) (gap : Int)
  | setWriteDelay (b : Bool)
  | setAckNoDelay (b : Bool)
  | noDelay (a b c d : Int)
  | wndSize (a b : Int)
  | setMtu (mtu : Int)

def fecStep (C : Fec.CodecNew) (f : FecG) (op : FecOp) : FecG :=
  if f.dead then f else
  match op with
  | .write v now gap =>
    if (f.x.writeBuffers v now gap).panic then { f with dead := true } else
    if (f.x.writeBuffers v now gap).blocked then f else
    { f with x := (f.x.writeBuffers v now gap).s, wr := f.wr ++ v.flatten,
             log := f.log ++ admitted (Sess.sendAll v f.x.s.k).k (f.x.writeBuffers v now gap).s.s.k,
             cwire := f.cwire ++ (f.x.s.writeBuffers v now).outs,
             wire := f.wire ++ (f.x.writeBuffers v now gap).outs }
  | .read blen => { f with x := { f.x with s := (f.x.read blen).s }, rd := f.rd ++ (f.x.read blen).data }
  | .update now gap =>
    if (f.x.update now gap).panic then { f with dead := true } else
    { f with x := (f.x.update now gap).s, log := f.log ++ admitted f.x.s.k (f.x.update now gap).s.s.k,
             cwire := f.cwire ++ (f.x.s.update now).outs, wire := f.wire ++ (f.x.update now gap).outs }
  | .input d now gap =>
    if (packetInput C f.x d now gap).panic then { f with dead := true } else
    { f with x := (packetInput C f.x d now gap).s,
             log := f.log ++ admitted f.x.s.k (kcpInputCore C f.x d now).c.k,
             cwire := f.cwire ++ (kcpInputCore C f.x d now).c.outs,
             wire := f.wire ++ (packetInput C f.x d now gap).outs,
             recvd := f.recvd ++ (if toDecoder d then [d] else []) }
  | .setWriteDelay b => { f with x := { f.x with s := { f.x.s with writeDelay := b } } }
  | .setAckNoDelay b => { f with x := { f.x with s := { f.x.s with ackNoDelay := b } } }
  | .noDelay a b c d => { f with x := { f.x with s := { f.x.s with k := noDelay f.x.s.k a b c d } } }
  | .wndSize a b => { f with x := { f.x with s := { f.x.s with k := wndSize f.x.s.k a b } } }
  | .setMtu mtu => { f with x := (f.x.setMtu mtu).1 }

/-- the plain ghost session underneath: the core's own output is its wire -/
def toSessG (f : FecG) : SessG :=
  { s := f.x.s, rd := f.rd, wr := f.wr, log := f.log, wire := f.cwire, dead := f.dead }

/-- the plain session operation a non-input FEC operation performs -/
def plainOp (f : FecG) : FecOp → Option SessOp
  | .write v now _ => some (.write v now)
  | .read blen => some (.read blen)
  | .update now _ => some (.update now)
  | .input .. => none
  | .setWriteDelay b => some (.setWriteDelay b)
  | .setAckNoDelay b => some (.setAckNoDelay b)
  | .noDelay a b c d => some (.noDelay a b c d)
  | .wndSize a b => some (.wndSize a b)
  | .setMtu mtu =>
    some (.setMtu ((if mtu < (mtuLimit : Int) then mtu else (mtuLimit : Int)) - (f.x.headerSize : Int)))

theorem postProcess_nil (enc : Option Fec.Encoder) (hs : Nat) (gap : Int) :
    postProcess enc hs [] gap = ⟨enc, [], false⟩ := by
  cases enc <;> rfl

/-- **every step other than `packetInput` is a step of the plain session** (or the session dies in
the FEC stage); the decoder and the list of received packets are untouched; the wire only grows -/
theorem fecStep_plain (C : Fec.CodecNew) (f : FecG) (op : FecOp) (sop : SessOp) (h : plainOp f op = some sop) :
    (toSessG (fecStep C f op) = sessStep (toSessG f) sop ∨
      toSessG (fecStep C f op) = { toSessG f with dead := true }) ∧
    (fecStep C f op).x.dec = f.x.dec ∧ (fecStep C f op).recvd = f.recvd ∧
    ∃ X, (fecStep C f op).wire = f.wire ++ X := by
  unfold fecStep sessStep
  by_cases hd : f.dead = true
  · have hd' : (toSessG f).dead = true := hd
    rw [if_pos hd, if_pos hd']
    exact ⟨Or.inl rfl, rfl, rfl, [], by simp⟩
  · have hd' : ¬ (toSessG f).dead = true := hd
    rw [if_neg hd, if_neg hd']
    cases op with
    | write v now gap =>
      have : sop = .write v now := by simp [plainOp] at h; exact h.symm
      subst this
      simp only []
      have hs : (toSessG f).s = f.x.s := rfl
      rw [hs]
      unfold SessFec.writeBuffers
      simp only []
      by_cases hp : (f.x.s.writeBuffers v now).panic = true
      · rw [if_pos hp]
        simp only [↓reduceIte]
        rw [if_pos hp]
        refine ⟨?_, ?_, ?_, ⟨[], ?_⟩⟩
        all_goals first | trivial | rfl | exact Or.inl rfl | simp
      · rw [if_neg hp]
        simp only []
        by_cases hpp : (postProcess f.x.enc f.x.headerSize (f.x.s.writeBuffers v now).outs gap).panic = true
        · rw [if_pos hpp]
          exact ⟨Or.inr rfl, rfl, rfl, [], by simp⟩
        · rw [if_neg hpp, if_neg hp]
          by_cases hb : (f.x.s.writeBuffers v now).blocked = true
          · rw [if_pos hb, if_pos hb]
            exact ⟨Or.inl rfl, rfl, rfl, [], by simp⟩
          · rw [if_neg hb, if_neg hb]
            exact ⟨Or.inl rfl, rfl, rfl, _, rfl⟩
    | read blen =>
      have : sop = .read blen := by simp [plainOp] at h; exact h.symm
      subst this
      exact ⟨Or.inl rfl, rfl, rfl, [], by simp⟩
    | update now gap =>
      have : sop = .update now := by simp [plainOp] at h; exact h.symm
      subst this
      simp only []
      have hs : (toSessG f).s = f.x.s := rfl
      rw [hs]
      unfold SessFec.update
      simp only []
      by_cases hp : (f.x.s.update now).panic = true
      · rw [if_pos hp]
        simp only [↓reduceIte]
        rw [if_pos hp]
        refine ⟨?_, ?_, ?_, ⟨[], ?_⟩⟩
        all_goals first | trivial | rfl | exact Or.inl rfl | simp
      · rw [if_neg hp]
        simp only []
        by_cases hpp : (postProcess f.x.enc f.x.headerSize (f.x.s.update now).outs gap).panic = true
        · rw [if_pos hpp]
          exact ⟨Or.inr rfl, rfl, rfl, [], by simp⟩
        · rw [if_neg hpp, if_neg hp]
          exact ⟨Or.inl rfl, rfl, rfl, _, rfl⟩
    | input d now gap => simp [plainOp] at h
    | setWriteDelay b =>
      have : sop = .setWriteDelay b := by simp [plainOp] at h; exact h.symm
      subst this
      exact ⟨Or.inl rfl, rfl, rfl, [], by simp⟩
    | setAckNoDelay b =>
      have : sop = .setAckNoDelay b := by simp [plainOp] at h; exact h.symm
      subst this
      exact ⟨Or.inl rfl, rfl, rfl, [], by simp⟩
    | noDelay a b c d =>
      have : sop = .noDelay a b c d := by simp [plainOp] at h; exact h.symm
      subst this
      exact ⟨Or.inl rfl, rfl, rfl, [], by simp⟩
    | wndSize a b =>
      have : sop = .wndSize a b := by simp [plainOp] at h; exact h.symm
      subst this
      exact ⟨Or.inl rfl, rfl, rfl, [], by simp⟩
    | setMtu mtu =>
      have : sop = .setMtu ((if mtu < (mtuLimit : Int) then mtu else (mtuLimit : Int)) - (f.x.headerSize : Int)) := by
        simp [plainOp] at h; exact h.symm
      subst this
      exact ⟨Or.inl rfl, rfl, rfl, [], by simp⟩

theorem plainOp_some (f : FecG) (op : FecOp) : (∃ d now gap, op = .input d now gap) ∨ ∃ sop, plainOp f op = some sop := by
  cases op <;> first | exact Or.inl ⟨_, _, _, rfl⟩ | exact Or.inr ⟨_, rfl⟩

/-- the plain operation of a non-input FEC operation is not an input -/
theorem plainOp_notInput (f : FecG) (op : FecOp) (sop : SessOp) (h : plainOp f op = some sop) :
    isSessInput sop = false := by
  cases op <;> simp [plainOp] at h <;> subst h <;> rfl

/-! ### `packetInput` -/

/-- the core part of `kcpInput` is a chain of `Input` calls from the session's core, unless the
(unreachable) decoder constructor failure is hit -/
theorem kcpInputCore_chain (C : Fec.CodecNew) (x : SessFec) (d : Bytes) (now : U32) :
    (kcpInputCore C x d now).c.panic = true ∨
    ∃ (c0 : CoreIn) (calls : List (Bytes × Bool)), c0.k = x.s.k ∧ c0.outs = [] ∧ c0.panic = false ∧
      (kcpInputCore C x d now).c = chain x.s.ackNoDelay now c0 calls := by
  unfold kcpInputCore
  split
  · exact Or.inr ⟨{ k := x.s.k, errs := 1 }, [], rfl, rfl, rfl, rfl⟩
  · split
    · split
      · exact Or.inr ⟨{ k := x.s.k }, [], rfl, rfl, rfl, rfl⟩
      · split
        · exact Or.inl rfl
        · rename_i dc _
          right
          refine ⟨{ k := x.s.k }, (if Fec.flag d = typeData then [(d.drop fecHeaderSizePlus2, true)] else []) ++
            ((dc.decode C d).recovered.filterMap Fec.trim).map (fun pl => (pl, false)), rfl, rfl, rfl, ?_⟩
          simp only []
          rw [feedRecovered_chain, chain_append]
          congr 1
          split <;> rfl
    · split
      · exact Or.inr ⟨{ k := x.s.k }, [], rfl, rfl, rfl, rfl⟩
      · exact Or.inr ⟨{ k := x.s.k }, [(d, true)], rfl, rfl, rfl, rfl⟩

/-- with a decoder in place, a datagram that reaches it makes exactly the calls of `C01_fecInputCalls` -/
theorem kcpInputCore_fec (C : Fec.CodecNew) (x : SessFec) (d : Bytes) (now : U32) (dc : Fec.Decoder)
    (hdec : x.dec = some dc) (ht : toDecoder d = true) :
    (kcpInputCore C x d now).c = chain x.s.ackNoDelay now { k := x.s.k } (C01_fecInputCalls C dc d) ∧
    (kcpInputCore C x d now).dec = some (dc.decode C d).st := by
  unfold toDecoder at ht
  have ht' := of_decide_eq_true ht
  unfold kcpInputCore
  rw [if_neg ht'.1, if_pos ht'.2.1, if_neg ht'.2.2, hdec]
  simp only []
  refine ⟨?_, by first | trivial | rfl⟩
  unfold C01_fecInputCalls
  rw [feedRecovered_chain, chain_append]
  congr 1
  split <;> rfl

/-- a datagram that does not reach the decoder and is an FEC or OOB packet has no effect on the core -/
theorem kcpInputCore_skip (C : Fec.CodecNew) (x : SessFec) (d : Bytes) (now : U32)
    (ht : toDecoder d = false) (hf : Fec.flag d = typeData ∨ Fec.flag d = typeParity) :
    (kcpInputCore C x d now).c.k = x.s.k ∧ (kcpInputCore C x d now).c.outs = [] ∧
    (kcpInputCore C x d now).c.panic = false ∧ (kcpInputCore C x d now).dec = x.dec := by
  unfold toDecoder at ht
  have ht' := of_decide_eq_false ht
  unfold kcpInputCore
  by_cases h1 : d.length < min IKCP_OVERHEAD (fecHeaderSizePlus2 + convSize)
  · rw [if_pos h1]; exact ⟨rfl, rfl, rfl, rfl⟩
  · rw [if_neg h1, if_pos hf]
    have h2 : d.length < fecHeaderSizePlus2 := by
      apply Classical.byContradiction
      intro hc
      exact ht' ⟨h1, hf, hc⟩
    rw [if_pos h2]; exact ⟨rfl, rfl, rfl, rfl⟩

/-- what `packetInput` leaves behind when it does not panic -/
theorem packetInput_ok (C : Fec.CodecNew) (x : SessFec) (d : Bytes) (now : U32) (gap : Int)
    (hp : (packetInput C x d now gap).panic = false) :
    (kcpInputCore C x d now).c.panic = false ∧
    (packetInput C x d now gap).s.s = { x.s with k := (kcpInputCore C x d now).c.k } ∧
    (packetInput C x d now gap).s.dec = (kcpInputCore C x d now).dec := by
  unfold packetInput finishInput at hp ⊢
  by_cases h : (kcpInputCore C x d now).c.panic = true ∨ (kcpInputCore C x d now).decPanic = true
  · rw [if_pos h] at hp; cases hp
  · rw [if_neg h]
    refine ⟨?_, rfl, rfl⟩
    cases hc : (kcpInputCore C x d now).c.panic with
    | false => rfl
    | true => exact absurd (Or.inl hc) h

theorem fecStep_wire (C : Fec.CodecNew) (f : FecG) (op : FecOp) : ∃ X, (fecStep C f op).wire = f.wire ++ X := by
  rcases plainOp_some f op with ⟨d, now, gap, rfl⟩ | ⟨sop, h⟩
  · unfold fecStep
    split
    · exact ⟨[], by simp⟩
    · simp only []
      split
      · exact ⟨[], by simp⟩
      · exact ⟨_, rfl⟩
  · exact (fecStep_plain C f op sop h).2.2.2

/-- **`packetInput` of arbitrary bytes as a run of core `Input`s** (the writer's side) -/
theorem fecInput_ref (C : Fec.CodecNew) {f : FecG} {g : GSt} (h : RefK (toSessG f) g) (hw : InvW (toSessG f))
    (d : Bytes) (now : U32) (gap : Int) :
    ∃ ops : List Op, RefK (toSessG (fecStep C f (.input d now gap))) (run g ops) ∧
      InvW (toSessG (fecStep C f (.input d now gap))) := by
  have hk : f.x.s.k = g.k := h.k
  unfold fecStep
  by_cases hd : f.dead = true
  · rw [if_pos hd]; exact ⟨[], h, hw⟩
  · rw [if_neg hd]
    simp only []
    by_cases hp : (packetInput C f.x d now gap).panic = true
    · rw [if_pos hp]
      exact ⟨[], ⟨h.k, h.log, h.wire, h.alive⟩, ⟨hw.mss, hw.acc⟩⟩
    · rw [if_neg hp]
      obtain ⟨hcp, hs, _⟩ := packetInput_ok C f.x d now gap (by simpa using hp)
      rcases kcpInputCore_chain C f.x d now with hbad | ⟨c0, calls, h1, h2, h3, h4⟩
      · rw [hbad] at hcp; cases hcp
      · rw [h4] at hcp
        obtain ⟨X, j, o1, o2, o3, o4, o5, o6, o7, _, _, o10⟩ :=
          chain_run f.x.s.ackNoDelay now calls c0 g (h1.trans hk) h.alive h3 hcp
        rw [h2, List.nil_append] at o1
        refine ⟨calls.map fun cl => Op.input cl.1 cl.2 f.x.s.ackNoDelay now, ⟨?_, ?_, ?_, o3⟩, ⟨?_, ?_⟩⟩
        · show (packetInput C f.x d now gap).s.s.k = _
          rw [hs, o2, h4]
        · show f.log ++ admitted f.x.s.k (kcpInputCore C f.x d now).c.k = _
          rw [o5, h4, h1]
          have : f.log = g.log := h.log
          rw [this]
        · show f.cwire ++ (kcpInputCore C f.x d now).c.outs = _
          rw [o4, h4, o1]
          have : f.cwire = g.wire := h.wire
          rw [this]
        · show 0 < (packetInput C f.x d now gap).s.s.k.mss.toNat
          rw [hs, h4]
          show 0 < (chain f.x.s.ackNoDelay now c0 calls).k.mss.toNat
          rw [o10, h1]; exact hw.mss
        · show f.wr = bytesOf ((f.log ++ admitted f.x.s.k (kcpInputCore C f.x d now).c.k) ++
            (packetInput C f.x d now gap).s.s.k.snd_queue.map content)
          rw [hs, h4]
          show f.wr = bytesOf ((f.log ++ admitted f.x.s.k (chain f.x.s.ackNoDelay now c0 calls).k) ++
            (chain f.x.s.ackNoDelay now c0 calls).k.snd_queue.map content)
          rw [h1] at o6 o7
          rw [pending_eq f.log f.x.s.k _ j o6 o7]
          exact hw.acc

end KcpVerif.C01
