/-
Clean-path lemmas, receiver side (C18 Tier 2): an in-order PUSH with room in the receive queue is
acknowledged, delivered to the queue at once and advances `rcv_nxt`; a datagram of in-order PUSH and
probe frames; a flush of an endpoint that has nothing to send writes only ACK and probe frames that
carry `una = rcv_nxt`.
-/
import KcpVerif.Lemmas.SysCleanA

namespace KcpVerif.SysC
open KcpVerif KcpVerif.Gen KcpVerif.Kcp KcpVerif.Live KcpVerif.Wire KcpVerif.SysW

theorem inPre_empty (wnd : BitVec 16) (una : U32) (k : Kcp) (h : k.snd_buf = []) :
    inPre true wnd una k = { k with rmt_wnd := wnd.setWidth 32, snd_buf := [], snd_una := k.snd_nxt } ∧
    inCnt true wnd una k = 0 := by
  constructor
  · rw [inPre_true _ _ _ (by rw [h]; intro x hx; simp at hx), h]; rfl
  · unfold inCnt parseUna
    simp only [↓reduceIte]
    rw [h]; rfl

theorem itimediff_self (x : U32) : itimediff x x = 0 := by unfold itimediff; simp

/-- `parse_data` of the segment the receiver is waiting for, with an empty reorder buffer and room in
the queue: delivered to the queue at once -/
theorem parseData_inorder (k : Kcp) (s : Seg) (hrb : k.rcv_buf = []) (hsn : s.sn = k.rcv_nxt)
    (hroom : k.rcv_queue.length < k.rcv_wnd.toNat) (hw : k.rcv_wnd.toNat < 2 ^ 31) (hl : s.data.length ≤ mtuLimit) :
    parseData k s = ⟨{ k with rcv_buf := [], rcv_queue := k.rcv_queue ++ [s], rcv_nxt := k.rcv_nxt + 1 }, false, false⟩ := by
  have hneg : itimediff s.sn (k.rcv_nxt + k.rcv_wnd) < 0 := by
    rw [hsn, (itimediff_add_self k.rcv_nxt k.rcv_wnd hw).2]; omega
  have hge : itimediff s.sn k.rcv_nxt ≥ 0 := by rw [hsn, itimediff_self]; omega
  unfold parseData
  rw [if_neg (by intro h; rcases h with h | h <;> omega)]
  rw [hrb]
  simp only [List.any_nil, Bool.false_eq_true, ↓reduceIte]
  rw [if_neg (by omega)]
  unfold moveReady heapInsert
  simp only []
  unfold moveLoop
  rw [if_pos ⟨hsn, hroom⟩]
  unfold moveLoop
  rfl

/-- an in-order PUSH that finds room -/
theorem inFr_push (st : InLoop) (fr : Frm) (hsb : st.k.snd_buf = []) (hrb : st.k.rcv_buf = [])
    (hc : fr.cmd.toNat = IKCP_CMD_PUSH) (hsn : fr.sn = st.k.rcv_nxt)
    (hroom : st.k.rcv_queue.length < st.k.rcv_wnd.toNat) (hw : st.k.rcv_wnd.toNat < 2 ^ 31)
    (hl : fr.data.length ≤ mtuLimit) :
    ∃ seg, inFr true st fr =
      { st with k := { st.k with rmt_wnd := fr.wnd.setWidth 32, snd_buf := [], snd_una := st.k.snd_nxt,
                                 acklist := st.k.acklist ++ [⟨fr.sn, fr.ts⟩], rcv_buf := [],
                                 rcv_queue := st.k.rcv_queue ++ [seg], rcv_nxt := st.k.rcv_nxt + 1 },
                flushSeg := st.flushSeg || false, panic := false } ∧ seg.data.length ≤ mtuLimit := by
  obtain ⟨hpre, hcnt⟩ := inPre_empty fr.wnd fr.una st.k hsb
  have hnA : ¬ fr.cmd.toNat = IKCP_CMD_ACK := by rw [hc]; decide
  have hneg : itimediff fr.sn (st.k.rcv_nxt + st.k.rcv_wnd) < 0 := by
    rw [hsn, (itimediff_add_self st.k.rcv_nxt st.k.rcv_wnd hw).2]; omega
  have hge : itimediff fr.sn st.k.rcv_nxt ≥ 0 := by rw [hsn, itimediff_self]; omega
  refine ⟨pushSeg fr.conv fr.cmd fr.frg fr.wnd fr.ts fr.sn fr.una fr.data, ?_, hl⟩
  unfold inFr
  rw [inStep_eq, if_neg hnA, if_pos hc, hpre, hcnt]
  simp only []
  rw [if_pos hneg, if_pos hge]
  rw [parseData_inorder _ _ ?_ ?_ ?_ ?_ ?_]
  · simp
  · exact hrb
  · exact hsn
  · exact hroom
  · exact hw
  · exact hl

/-- a WASK / WINS frame at an endpoint with an empty send buffer -/
theorem inFr_probe (st : InLoop) (fr : Frm) (hsb : st.k.snd_buf = [])
    (hc : fr.cmd.toNat = IKCP_CMD_WASK ∨ fr.cmd.toNat = IKCP_CMD_WINS) :
    ∃ pr, inFr true st fr =
      { st with k := { st.k with rmt_wnd := fr.wnd.setWidth 32, snd_buf := [], snd_una := st.k.snd_nxt, probe := pr },
                flushSeg := st.flushSeg || false } := by
  obtain ⟨hpre, hcnt⟩ := inPre_empty fr.wnd fr.una st.k hsb
  have hnA : ¬ fr.cmd.toNat = IKCP_CMD_ACK := by
    unfold IKCP_CMD_ACK; unfold IKCP_CMD_WASK IKCP_CMD_WINS at hc; omega
  have hnP : ¬ fr.cmd.toNat = IKCP_CMD_PUSH := by
    unfold IKCP_CMD_PUSH; unfold IKCP_CMD_WASK IKCP_CMD_WINS at hc; omega
  unfold inFr
  rw [inStep_eq, if_neg hnA, if_neg hnP, hpre, hcnt]
  split
  · exact ⟨st.k.probe ||| u32 IKCP_ASK_TELL, by simp⟩
  · exact ⟨st.k.probe, by simp⟩

/-- the PUSH frames of a datagram arrive in sequence order starting at `nxt` -/
def InOrder : U32 → List Frm → Prop
  | _, [] => True
  | nxt, fr :: r => if fr.cmd.toNat = IKCP_CMD_PUSH then fr.sn = nxt ∧ InOrder (nxt + 1) r else InOrder nxt r

/-- the PUSH frames of a list -/
def pushes (frs : List Frm) : List Frm := frs.filter (fun fr => decide (fr.cmd.toNat = IKCP_CMD_PUSH))

/-- the frames A sends on a clean path -/
def DataLike (fr : Frm) : Prop :=
  (fr.cmd.toNat = IKCP_CMD_PUSH ∨ fr.cmd.toNat = IKCP_CMD_WASK ∨ fr.cmd.toNat = IKCP_CMD_WINS) ∧
  fr.data.length ≤ mtuLimit

/-- a whole datagram of in-order PUSH and probe frames at the receiver -/
theorem inFrs_dataLike (frs : List Frm) : ∀ (st : InLoop),
    st.k.snd_buf = [] → st.k.rcv_buf = [] → (∀ fr ∈ frs, DataLike fr) → InOrder st.k.rcv_nxt frs →
    st.k.rcv_queue.length + (pushes frs).length ≤ st.k.rcv_wnd.toNat → st.k.rcv_wnd.toNat < 2 ^ 31 →
    st.panic = false →
    ∃ rw su pr q, (inFrs true frs st).k =
        { st.k with rmt_wnd := rw, snd_buf := [], snd_una := su, probe := pr,
                    acklist := st.k.acklist ++ (pushes frs).map (fun fr => ⟨fr.sn, fr.ts⟩), rcv_buf := [],
                    rcv_queue := st.k.rcv_queue ++ q, rcv_nxt := st.k.rcv_nxt + u32 (pushes frs).length } ∧
      q.length = (pushes frs).length ∧ (∀ x ∈ q, x.data.length ≤ mtuLimit) ∧
      (inFrs true frs st).flushSeg = st.flushSeg ∧ (inFrs true frs st).updRtt = st.updRtt ∧
      (inFrs true frs st).panic = false ∧ (inFrs true frs st).ret = st.ret := by
  induction frs with
  | nil =>
    intro st hsb hrb _ _ _ _ hp
    refine ⟨st.k.rmt_wnd, st.k.snd_una, st.k.probe, [], ?_, rfl, by simp, rfl, rfl, hp, rfl⟩
    simp only [inFrs, pushes, List.filter_nil, List.map_nil, List.append_nil, List.length_nil]
    have : st.k.rcv_nxt + u32 0 = st.k.rcv_nxt := by simp [u32]
    rw [this]
    have e : ({ st.k with snd_buf := st.k.snd_buf, rcv_buf := st.k.rcv_buf } : Kcp) =
        { st.k with snd_buf := [], rcv_buf := [] } := by rw [hsb, hrb]
    exact e
  | cons fr rest ih =>
    intro st hsb hrb hd hio hroom hw hp
    have hdl := hd fr (List.mem_cons_self ..)
    by_cases hc : fr.cmd.toNat = IKCP_CMD_PUSH
    · have hpu : pushes (fr :: rest) = fr :: pushes rest := by
        unfold pushes; rw [List.filter_cons_of_pos (by simpa using hc)]
      unfold InOrder at hio
      rw [if_pos hc] at hio
      rw [hpu, List.length_cons] at hroom
      obtain ⟨seg, he, hseg⟩ := inFr_push st fr hsb hrb hc hio.1 (by omega) hw hdl.2
      unfold inFrs
      rw [if_neg (by rw [he]; simp)]
      obtain ⟨rw2, su2, pr2, q2, hk2, hq2, hq2l, hf2, hu2, hp2, hr2⟩ := ih (inFr true st fr)
        (by rw [he]) (by rw [he]) (fun x hx => hd x (List.mem_cons_of_mem _ hx))
        (by rw [he]; exact hio.2)
        (by rw [he]; simp only [List.length_append, List.length_cons, List.length_nil]; omega)
        (by rw [he]; exact hw) (by rw [he])
      refine ⟨rw2, su2, pr2, seg :: q2, ?_, by rw [hpu]; simp [hq2], ?_, by rw [hf2, he]; simp, by rw [hu2, he],
        hp2, by rw [hr2, he]⟩
      · rw [hk2, he, hpu]
        simp only [List.map_cons, List.length_cons, List.append_assoc, List.cons_append, List.nil_append, u32_succ]
        have : st.k.rcv_nxt + 1 + u32 (pushes rest).length = st.k.rcv_nxt + (u32 (pushes rest).length + 1) := by bv_omega
        rw [this]
      · intro x hx
        rcases List.mem_cons.mp hx with rfl | hx
        · exact hseg
        · exact hq2l x hx
    · have hpu : pushes (fr :: rest) = pushes rest := by
        unfold pushes; rw [List.filter_cons_of_neg (by simpa using hc)]
      unfold InOrder at hio
      rw [if_neg hc] at hio
      rw [hpu] at hroom
      obtain ⟨pr, he⟩ := inFr_probe st fr hsb (hdl.1.resolve_left hc)
      unfold inFrs
      rw [if_neg (by rw [he, hp]; simp)]
      obtain ⟨rw2, su2, pr2, q2, hk2, hq2, hq2l, hf2, hu2, hp2, hr2⟩ := ih (inFr true st fr)
        (by rw [he]) (by rw [he]; exact hrb) (fun x hx => hd x (List.mem_cons_of_mem _ hx))
        (by rw [he]; exact hio) (by rw [he]; exact hroom) (by rw [he]; exact hw) (by rw [he]; exact hp)
      refine ⟨rw2, su2, pr2, q2, ?_, by rw [hpu]; exact hq2, hq2l, by rw [hf2, he]; simp, by rw [hu2, he], hp2,
        by rw [hr2, he]⟩
      rw [hk2, he, hpu]

/-! ### the flush of an endpoint that has nothing to send -/

theorem probeFrs_mem (k : Kcp) (now : U32) : ∀ fr ∈ probeFrs k now,
    fr.conv = k.conv ∧ (fr.cmd.toNat = IKCP_CMD_WASK ∨ fr.cmd.toNat = IKCP_CMD_WINS) ∧ fr.una = k.rcv_nxt ∧ fr.data = [] := by
  intro fr hfr
  have hc2 : (flF2 k now).k.conv = k.conv := by
    rw [flF2_k]
    obtain ⟨pw, tp, pr, hp⟩ := probePhase_frame { k with acklist := [] } now
    rw [hp]
  have hc3 : (flF3a k now).k.conv = k.conv := by rw [flF3a_k, hc2]
  unfold probeFrs waskFrs winsFrs at hfr
  rcases List.mem_append.mp hfr with h | h
  · split at h
    · rw [List.mem_singleton.mp h]; exact ⟨hc2, Or.inl (show (BitVec.ofNat 8 IKCP_CMD_WASK).toNat = IKCP_CMD_WASK by decide), rfl, rfl⟩
    · simp at h
  · split at h
    · rw [List.mem_singleton.mp h]; exact ⟨hc3, Or.inr (show (BitVec.ofNat 8 IKCP_CMD_WINS).toNat = IKCP_CMD_WINS by decide), rfl, rfl⟩
    · simp at h

theorem ackFrsOf_mem (k : Kcp) : ∀ fr ∈ ackFrsOf k,
    fr.conv = k.conv ∧ fr.cmd.toNat = IKCP_CMD_ACK ∧ fr.una = k.rcv_nxt ∧ fr.data = [] ∧ (⟨fr.sn, fr.ts⟩ : Ack) ∈ k.acklist := by
  intro fr hfr
  obtain ⟨h1, h2, _, h4, h5, h6⟩ := ackFrs_mem _ _ _ _ _ _ _ _ fr hfr
  exact ⟨h1, by rw [h2]; decide, h4, h5, h6⟩

theorem ackFrsOf_ne_nil (k : Kcp) (h : k.acklist ≠ []) : ackFrsOf k ≠ [] :=
  ackFrs_ne_nil _ _ _ _ _ _ _ 0 h (by omega)

/-- a flush (of either type) of an endpoint whose send queue and send buffer are empty -/
theorem flush_empty (k : Kcp) (full : Bool) (now : U32) (hsb : k.snd_buf = []) (hsq : k.snd_queue = []) :
    flushFrs k full now = ackFrsOf k ++ probeFrs k now ∧
    ∃ pw tp st ss cw inc, (flush k full now).k =
      { k with acklist := [], probe_wait := pw, ts_probe := tp, probe := 0, snd_queue := [], snd_buf := [],
               state := st, ssthresh := ss, cwnd := cw, incr := inc } := by
  obtain ⟨pw3, tp3, h3⟩ := flF3_frame k now
  have hq : (flF3 k now).k.snd_queue = [] := by rw [h3]; exact hsq
  have hb : (flF3 k now).k.snd_buf = [] := by rw [h3]; exact hsb
  have hn : (flF3 k now).k.snd_nxt = k.snd_nxt := by rw [h3]
  have had : flAd k now = ⟨[], [], k.snd_nxt, 0⟩ := by
    unfold flAd; rw [hq, hb, hn]; rfl
  obtain ⟨pw4, tp4, hk4⟩ := flF4_frame k now
  have hbuf : (flF4 k now).k.snd_buf = [] := by rw [hk4, had]
  have hdone : (flX k full now).done = [] := by
    unfold flX
    cases full
    · simp only [Bool.false_eq_true, ↓reduceIte]; exact hbuf
    · simp only [↓reduceIte]; rw [hbuf]; rfl
  constructor
  · unfold flushFrs pushFrs
    rw [had]
    cases full <;> simp
  · obtain ⟨pw, tp, st, ss, cw, inc, hk⟩ := flush_frame k full now
    refine ⟨pw, tp, st, ss, cw, inc, ?_⟩
    rw [hk, hdone, had]

/-- the interval returned by a FULL flush never exceeds the configured interval -/
theorem flush_interval_le (k : Kcp) (now : U32) : (flush k true now).interval ≤ k.interval := by
  rw [flush_eq]
  have h := (flX_full k now).next_le
  obtain ⟨pw4, tp4, hk4⟩ := flF4_frame k now
  have : (flF4 k now).k.interval = k.interval := by rw [hk4]
  rw [this] at h
  exact h

end KcpVerif.SysC
