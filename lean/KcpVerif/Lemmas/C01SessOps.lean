/-
Session-level operations for C01 (`C01_session_plain`): the sequential data path of a session
(`Model/Sess.lean`: `Read`, `WriteBuffers`, `update`, `packetInput`, configuration without cipher and
FEC) with ghost history, and the facts about the chunking loop of `WriteBuffers`:

* every `Send` it issues carries at most `mss` bytes (`sendChunks_run`, `ChunkOps`), so a session
  never produces a multi-fragment message and `Send` never refuses (−2);
* the queued payload bytes grow by exactly the bytes of the slices (`sendAll_bytes`);
* every session operation is a (possibly empty) sequence of core operations (`Lemmas/C01Ops.lean`).

Facts about `Kcp.send` are proved from the mirror `send_eq`; with at most `mss` bytes the refusal
branch (−2) is unreachable.
-/
import KcpVerif.Model.Sess
import KcpVerif.Lemmas.C01Msg

namespace KcpVerif.C01
open KcpVerif KcpVerif.Gen KcpVerif.Kcp KcpVerif.Frame KcpVerif.Recv KcpVerif.Send KcpVerif.Wire

/-! ### `Send` with at most `mss` bytes -/

theorem sendRest_le (k : Kcp) (b : Bytes) : (sendRest k b).length ≤ b.length := by
  unfold sendRest; rw [List.length_drop]; omega

theorem sendCount_chunk (k : Kcp) (b : Bytes) (hle : b.length ≤ k.mss.toNat) : sendCount k b = 1 := by
  unfold sendCount
  have := sendRest_le k b
  rw [if_pos (by omega)]

/-- a `Send` of at most `mss` bytes that does not panic appends exactly its bytes to the queue and
changes nothing else; it is never refused with −2 -/
theorem send_chunk (k : Kcp) (b : Bytes) (hm : 0 < k.mss.toNat) (hle : b.length ≤ k.mss.toNat)
    (hp : (send k b).panic = false) :
    qbytes (send k b).k.snd_queue = qbytes k.snd_queue ++ b ∧ (send k b).ret ≠ -2 ∧
      frgs (send k b).k.snd_queue = frgs k.snd_queue ++ List.replicate ((send k b).k.snd_queue.length - k.snd_queue.length) 0 := by
  have hse := send_eq k b
  have hsplit : b.take (sendExt k b) ++ sendRest k b = b := List.take_append_drop _ _
  have hcnt := sendCount_chunk k b hle
  by_cases c0 : b.length = 0
  · rw [if_pos c0] at hse
    rw [hse]
    have : b = [] := List.length_eq_zero_iff.mp c0
    subst this
    exact ⟨by simp, (by show (-1 : Int) ≠ -2; decide), by simp⟩
  · rw [if_neg c0] at hse
    have c3 : ¬ sendCount k b > 255 := by omega
    rw [if_neg c3] at hse
    by_cases c1 : sendPanic1 k b = true
    · rw [if_pos c1] at hse; rw [hse] at hp; cases hp
    · rw [if_neg c1] at hse
      have hq1 : (sendQ1 k b).length = k.snd_queue.length := by
        have := congrArg List.length (sendQ1_frgs k b)
        simpa [frgs] using this
      by_cases c2 : k.stream ≠ 0 ∧ (sendRest k b).length = 0
      · rw [if_pos c2] at hse
        rw [hse]
        refine ⟨?_, (by show (0 : Int) ≠ -2; decide), ?_⟩
        · show qbytes (sendQ1 k b) = _
          rw [sendQ1_bytes]
          have : sendRest k b = [] := List.eq_nil_of_length_eq_zero c2.2
          rw [this] at hsplit
          simp at hsplit
          rw [hsplit]
        · show frgs (sendQ1 k b) = frgs k.snd_queue ++ List.replicate ((sendQ1 k b).length - _) 0
          rw [sendQ1_frgs, hq1]; simp
      · rw [if_neg c2] at hse
        by_cases c4 : min (sendRest k b).length k.mss.toNat > mtuLimit
        · rw [if_pos c4] at hse; rw [hse] at hp; cases hp
        · rw [if_neg c4] at hse
          rw [hse]
          refine ⟨?_, (by show (0 : Int) ≠ -2; decide), ?_⟩
          · show qbytes (sendQ1 k b ++ sendNew k b) = _
            rw [qbytes_append, sendQ1_bytes, sendNew_bytes k b hm, List.append_assoc, hsplit]
          · show frgs (sendQ1 k b ++ sendNew k b) =
              frgs k.snd_queue ++ List.replicate ((sendQ1 k b ++ sendNew k b).length - _) 0
            have hn : frgs (sendNew k b) = [0] := by
              unfold sendNew
              rw [mkSegs_frgs, hcnt]
              split <;> rfl
            have hl : (sendNew k b).length = 1 := by
              have := congrArg List.length hn
              simpa [frgs] using this
            have : frgs (sendQ1 k b ++ sendNew k b) = frgs (sendQ1 k b) ++ frgs (sendNew k b) := by
              unfold frgs; rw [List.map_append]
            rw [this, sendQ1_frgs, hn, List.length_append, hq1, hl]
            have : k.snd_queue.length + 1 - k.snd_queue.length = 1 := by omega
            rw [this]; rfl

/-! ### the chunking loop of `WriteBuffers` as a sequence of core `Send`s -/

/-- everything but the core state (and the send-side accounting ghosts) is unchanged, and the
endpoint is alive -/
structure SameG (g g' : GSt) : Prop where
  dl   : g'.dl = g.dl
  got  : g'.got = g.got
  log  : g'.log = g.log
  wire : g'.wire = g.wire
  dead : g'.dead = false

theorem SameG.trans {a b c : GSt} (h1 : SameG a b) (h2 : SameG b c) : SameG a c :=
  ⟨h2.dl.trans h1.dl, h2.got.trans h1.got, h2.log.trans h1.log, h2.wire.trans h1.wire, h2.dead⟩

/-- a list of core operations consisting of `Send`s of at most `mss` bytes -/
def ChunkOps (mss : Nat) (ops : List Op) : Prop := ∀ o ∈ ops, ∃ c : Bytes, o = .send c ∧ c.length ≤ mss

theorem step_send_alive (g : GSt) (c : Bytes) (hd : g.dead = false) (hp : (send g.k c).panic = false) :
    (step g (.send c)).k = (send g.k c).k ∧ SameG g (step g (.send c)) := by
  unfold step
  rw [if_neg (by simp [hd])]
  simp only []
  rw [if_neg (by simp [hp])]
  exact ⟨rfl, rfl, rfl, rfl, rfl, hd⟩

theorem run_cons (g : GSt) (o : Op) (ops : List Op) : run g (o :: ops) = run (step g o) ops := rfl

theorem sendChunks_run (fuel : Nat) : ∀ (k : Kcp) (b : Bytes) (g : GSt), g.k = k → g.dead = false →
    (Sess.sendChunks fuel k b).panic = false →
    ∃ ops : List Op, ChunkOps k.mss.toNat ops ∧ SameG g (run g ops) ∧ (run g ops).k = (Sess.sendChunks fuel k b).k := by
  induction fuel with
  | zero =>
    intro k b g hk hd _
    exact ⟨[], (fun o ho => by cases ho), ⟨rfl, rfl, rfl, rfl, hd⟩, hk⟩
  | succ fuel ih =>
    intro k b g hk hd hp
    unfold Sess.sendChunks at hp ⊢
    by_cases hle : b.length ≤ k.mss.toNat
    · rw [if_pos hle] at hp ⊢
      simp only [] at hp ⊢
      subst hk
      obtain ⟨h1, h2⟩ := step_send_alive g b hd hp
      refine ⟨[.send b], ?_, h2, h1⟩
      show ∀ o ∈ _, _
      intro o ho
      rw [List.mem_singleton.mp ho]; exact ⟨b, rfl, hle⟩
    · rw [if_neg hle] at hp ⊢
      simp only [] at hp ⊢
      subst hk
      by_cases hp1 : (send g.k (b.take g.k.mss.toNat)).panic = true
      · rw [if_pos hp1] at hp; cases hp
      · rw [if_neg hp1] at hp ⊢
        have hp1' : (send g.k (b.take g.k.mss.toNat)).panic = false := by simpa using hp1
        obtain ⟨h1, h2⟩ := step_send_alive g (b.take g.k.mss.toNat) hd hp1'
        have hmss : (send g.k (b.take g.k.mss.toNat)).k.mss = g.k.mss := by rw [send_k]
        obtain ⟨ops, ho, hs, hk'⟩ := ih (send g.k (b.take g.k.mss.toNat)).k (b.drop g.k.mss.toNat)
          (step g (.send (b.take g.k.mss.toNat))) h1 h2.dead hp
        rw [hmss] at ho
        refine ⟨.send (b.take g.k.mss.toNat) :: ops, ?_, ?_, ?_⟩
        · show ∀ o ∈ _, _
          intro o hmem
          rcases List.mem_cons.mp hmem with h | h
          · rw [h]; exact ⟨_, rfl, by rw [List.length_take]; omega⟩
          · exact ho o h
        · rw [run_cons]; exact h2.trans hs
        · rw [run_cons]; exact hk'

theorem sendChunks_bytes (fuel : Nat) : ∀ (k : Kcp) (b : Bytes), 0 < k.mss.toNat → b.length < fuel →
    (Sess.sendChunks fuel k b).panic = false →
    qbytes (Sess.sendChunks fuel k b).k.snd_queue = qbytes k.snd_queue ++ b ∧
      (Sess.sendChunks fuel k b).k.mss = k.mss ∧ (Sess.sendChunks fuel k b).k.stream = k.stream ∧
      ∃ z, frgs (Sess.sendChunks fuel k b).k.snd_queue = frgs k.snd_queue ++ List.replicate z 0 := by
  induction fuel with
  | zero => intro k b _ hf _; omega
  | succ fuel ih =>
    intro k b hm hf hp
    unfold Sess.sendChunks at hp ⊢
    by_cases hle : b.length ≤ k.mss.toNat
    · rw [if_pos hle] at hp ⊢
      simp only [] at hp ⊢
      obtain ⟨h1, _, h3⟩ := send_chunk k b hm hle hp
      exact ⟨h1, by rw [send_k], by rw [send_k], _, h3⟩
    · rw [if_neg hle] at hp ⊢
      simp only [] at hp ⊢
      by_cases hp1 : (send k (b.take k.mss.toNat)).panic = true
      · rw [if_pos hp1] at hp; cases hp
      · rw [if_neg hp1] at hp ⊢
        have hp1' : (send k (b.take k.mss.toNat)).panic = false := by simpa using hp1
        have hmss : (send k (b.take k.mss.toNat)).k.mss = k.mss := by rw [send_k]
        have hst : (send k (b.take k.mss.toNat)).k.stream = k.stream := by rw [send_k]
        obtain ⟨h1, _, h3⟩ := send_chunk k (b.take k.mss.toNat) hm (by rw [List.length_take]; omega) hp1'
        obtain ⟨g1, g2, g3, z, g4⟩ := ih (send k (b.take k.mss.toNat)).k (b.drop k.mss.toNat) (by rw [hmss]; exact hm)
          (by rw [List.length_drop]; omega) hp
        refine ⟨?_, g2.trans hmss, g3.trans hst,
          ((send k (b.take k.mss.toNat)).k.snd_queue.length - k.snd_queue.length) + z, ?_⟩
        · rw [g1, h1, List.append_assoc, List.take_append_drop]
        · rw [g4, h3, List.append_assoc, List.replicate_append_replicate]

theorem sendAll_run : ∀ (v : List Bytes) (k : Kcp) (g : GSt), g.k = k → g.dead = false →
    (Sess.sendAll v k).panic = false →
    ∃ ops : List Op, ChunkOps k.mss.toNat ops ∧ SameG g (run g ops) ∧ (run g ops).k = (Sess.sendAll v k).k := by
  intro v
  induction v with
  | nil =>
    intro k g hk hd _
    exact ⟨[], (fun o ho => by cases ho), ⟨rfl, rfl, rfl, rfl, hd⟩, hk⟩
  | cons b rest ih =>
    intro k g hk hd hp
    unfold Sess.sendAll at hp ⊢
    simp only [] at hp ⊢
    by_cases hp1 : (Sess.sendChunks (b.length + 1) k b).panic = true
    · rw [if_pos hp1] at hp; rw [hp1] at hp; cases hp
    · rw [if_neg hp1] at hp ⊢
      have hp1' : (Sess.sendChunks (b.length + 1) k b).panic = false := by simpa using hp1
      obtain ⟨ops1, ho1, hs1, hk1⟩ := sendChunks_run (b.length + 1) k b g hk hd hp1'
      obtain ⟨ops2, ho2, hs2, hk2⟩ := ih (Sess.sendChunks (b.length + 1) k b).k (run g ops1) hk1 hs1.dead hp
      refine ⟨ops1 ++ ops2, ?_, ?_, ?_⟩
      · show ∀ o ∈ _, _
        intro o hmem
        rcases List.mem_append.mp hmem with h | h
        · exact ho1 o h
        · have hmss : (Sess.sendChunks (b.length + 1) k b).k.mss = k.mss := by
            by_cases hm : 0 < k.mss.toNat
            · exact (sendChunks_bytes _ k b hm (by omega) hp1').2.1
            · -- `mss = 0`: every `Send` keeps `mss` anyway
              have : ∀ (fuel : Nat) (k : Kcp) (b : Bytes), (Sess.sendChunks fuel k b).k.mss = k.mss := by
                intro fuel
                induction fuel with
                | zero => intro k b; rfl
                | succ fuel ih =>
                  intro k b
                  unfold Sess.sendChunks
                  split
                  · simp only []; rw [send_k]
                  · simp only []
                    split
                    · simp only []; rw [send_k]
                    · rw [ih]; rw [send_k]
              exact this _ _ _
          have := ho2 o h
          rw [hmss] at this
          exact this
      · rw [run_append]; exact hs1.trans hs2
      · rw [run_append]; exact hk2

theorem sendAll_bytes : ∀ (v : List Bytes) (k : Kcp), 0 < k.mss.toNat → (Sess.sendAll v k).panic = false →
    qbytes (Sess.sendAll v k).k.snd_queue = qbytes k.snd_queue ++ v.flatten ∧
      (Sess.sendAll v k).k.mss = k.mss ∧ (Sess.sendAll v k).k.stream = k.stream ∧
      ∃ z, frgs (Sess.sendAll v k).k.snd_queue = frgs k.snd_queue ++ List.replicate z 0 := by
  intro v
  induction v with
  | nil => intro k _ _; exact ⟨by simp [Sess.sendAll], rfl, rfl, 0, by simp [Sess.sendAll]⟩
  | cons b rest ih =>
    intro k hm hp
    unfold Sess.sendAll at hp ⊢
    simp only [] at hp ⊢
    by_cases hp1 : (Sess.sendChunks (b.length + 1) k b).panic = true
    · rw [if_pos hp1] at hp; rw [hp1] at hp; cases hp
    · rw [if_neg hp1] at hp ⊢
      have hp1' : (Sess.sendChunks (b.length + 1) k b).panic = false := by simpa using hp1
      obtain ⟨h1, h2, h3, z1, h4⟩ := sendChunks_bytes (b.length + 1) k b hm (by omega) hp1'
      obtain ⟨g1, g2, g3, z2, g4⟩ := ih (Sess.sendChunks (b.length + 1) k b).k (by rw [h2]; exact hm) hp
      refine ⟨?_, g2.trans h2, g3.trans h3, z1 + z2, ?_⟩
      · rw [g1, h1, List.append_assoc]; simp
      · rw [g4, h4, List.append_assoc, List.replicate_append_replicate]

end KcpVerif.C01
