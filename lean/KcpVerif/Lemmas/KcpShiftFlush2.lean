/-
C12 — shift simulation, flush part 2: phase 5 (xmitOne and the fold).
-/
import KcpVerif.Lemmas.KcpShiftFlush1

namespace KcpVerif.Shift
open KcpVerif KcpVerif.Gen KcpVerif.Kcp

/-! ### a decomposition of `xmitOne` (proved equal to the model's by `rfl`) -/

/-- write one data segment into the output buffer -/
def emit (f : Fl) (s2 : Seg) : Fl :=
  let f := f.makeSpace (IKCP_OVERHEAD + s2.data.length)
  let f := f.putHdr (encodeHdr s2.conv s2.cmd s2.frg s2.wnd s2.ts s2.sn s2.una s2.data.length)
  let f := f.putData s2.data
  if s2.xmit ≥ f.k.dead_link then { f with k := { f.k with state := 0xFFFFFFFF#32 } } else f

/-- the retransmission decision: (needsend, segment', change+, lost+) -/
def xmitR (rx_rto nodelay now resent : U32) (newSegs : Nat) (s : Seg) : Bool × Seg × Nat × Nat :=
  if s.xmit = 0 then (true, { s with rto := rx_rto, resendts := now + rx_rto }, 0, 0)
  else if s.fastack ≥ resent ∧ s.fastack ≠ 0xFFFFFFFF#32 then
    (true, { s with fastack := 0xFFFFFFFF#32, rto := rx_rto, resendts := now + rx_rto }, 1, 0)
  else if s.fastack > 0 ∧ s.fastack ≠ 0xFFFFFFFF#32 ∧ newSegs = 0 then
    (true, { s with fastack := 0xFFFFFFFF#32, rto := rx_rto, resendts := now + rx_rto }, 1, 0)
  else if itimediff now s.resendts ≥ 0 then
    let rto' := if nodelay = 0 then s.rto + rx_rto else s.rto + rx_rto / 2
    (true, { s with rto := rto', fastack := 0, resendts := now + rto' }, 0, 1)
  else (false, s, 0, 0)

def stamp (now : U32) (wnd : BitVec 16) (una : U32) (needsend : Bool) (s1 : Seg) : Seg :=
  if needsend then { s1 with xmit := s1.xmit + 1, ts := now, wnd := wnd, una := una } else s1

def nextUpd (d : Int) (next : U32) : U32 :=
  if d > 0 ∧ BitVec.ofInt 32 d < next then BitVec.ofInt 32 d else next

def xmitOne' (now resent : U32) (wnd : BitVec 16) (una : U32) (newSegs : Nat) (st : XmitSt) (s : Seg) : XmitSt :=
  if s.acked then { st with done := st.done ++ [s] } else
  { f := if (xmitR st.f.k.rx_rto st.f.k.nodelay now resent newSegs s).1
         then emit st.f (stamp now wnd una (xmitR st.f.k.rx_rto st.f.k.nodelay now resent newSegs s).1
                           (xmitR st.f.k.rx_rto st.f.k.nodelay now resent newSegs s).2.1)
         else st.f,
    done := st.done ++ [stamp now wnd una (xmitR st.f.k.rx_rto st.f.k.nodelay now resent newSegs s).1
                           (xmitR st.f.k.rx_rto st.f.k.nodelay now resent newSegs s).2.1],
    change := st.change + (xmitR st.f.k.rx_rto st.f.k.nodelay now resent newSegs s).2.2.1,
    lost := st.lost + (xmitR st.f.k.rx_rto st.f.k.nodelay now resent newSegs s).2.2.2,
    next := nextUpd (itimediff (stamp now wnd una (xmitR st.f.k.rx_rto st.f.k.nodelay now resent newSegs s).1
                           (xmitR st.f.k.rx_rto st.f.k.nodelay now resent newSegs s).2.1).resendts now) st.next }

theorem xmitOne_eq (now resent : U32) (wnd : BitVec 16) (una : U32) (newSegs : Nat) (st : XmitSt) (s : Seg) :
    xmitOne now resent wnd una newSegs st s = xmitOne' now resent wnd una newSegs st s := rfl

/-! ### simulation -/

theorem emit_sim {σ : Sigma} {f f' : Fl} (h : FlSim σ f f') {s s' : Seg} (hr : SndRel σ s s')
    (huna : s'.una = s.una + σ.b) : FlSim σ (emit f s) (emit f' s') := by
  unfold emit
  simp only []
  rw [hr.data]
  have h1 := makeSpace_sim h (IKCP_OVERHEAD + s.data.length)
  have h2 : FlSim σ ((f.makeSpace (IKCP_OVERHEAD + s.data.length)).putHdr
        (encodeHdr s.conv s.cmd s.frg s.wnd s.ts s.sn s.una s.data.length))
      ((f'.makeSpace (IKCP_OVERHEAD + s.data.length)).putHdr
        (encodeHdr s'.conv s'.cmd s'.frg s'.wnd s'.ts s'.sn s'.una s.data.length)) := by
    apply putHdr_sim h1
    rw [hr.conv, hr.cmd, hr.frg, hr.wnd, hr.ts, hr.sn, huna]
    exact OutRel.seg _ _ _ _ _ _ _ _ h1.cur
  have h3 := putData_sim h2 s.data
  generalize ((f.makeSpace (IKCP_OVERHEAD + s.data.length)).putHdr
        (encodeHdr s.conv s.cmd s.frg s.wnd s.ts s.sn s.una s.data.length)).putData s.data = g at h3 ⊢
  generalize ((f'.makeSpace (IKCP_OVERHEAD + s.data.length)).putHdr
        (encodeHdr s'.conv s'.cmd s'.frg s'.wnd s'.ts s'.sn s'.una s.data.length)).putData s.data = g' at h3 ⊢
  have hc : (s'.xmit ≥ g'.k.dead_link) ↔ (s.xmit ≥ g.k.dead_link) := by rw [hr.xmit, h3.k.dead_link]
  simp only [hc]
  by_cases c : s.xmit ≥ g.k.dead_link
  · simp only [if_pos c]
    exact { h3 with k := { h3.k with state := rfl } }
  · simp only [if_neg c]
    exact h3

theorem xmitR_sim {σ : Sigma} {s s' : Seg} (hr : SndRel σ s s') (rx_rto nodelay now resent : U32) (n : Nat) :
    (xmitR rx_rto nodelay (now + σ.t) resent n s').1 = (xmitR rx_rto nodelay now resent n s).1 ∧
      SndRel σ (xmitR rx_rto nodelay now resent n s).2.1 (xmitR rx_rto nodelay (now + σ.t) resent n s').2.1 ∧
      (xmitR rx_rto nodelay (now + σ.t) resent n s').2.2 = (xmitR rx_rto nodelay now resent n s).2.2 := by
  have e0 : (s'.xmit = 0) ↔ (s.xmit = 0) := by rw [hr.xmit]
  have e1 : (s'.fastack ≥ resent ∧ s'.fastack ≠ 0xFFFFFFFF#32) ↔ (s.fastack ≥ resent ∧ s.fastack ≠ 0xFFFFFFFF#32) := by
    rw [hr.fastack]
  have e2 : (s'.fastack > 0 ∧ s'.fastack ≠ 0xFFFFFFFF#32 ∧ n = 0) ↔ (s.fastack > 0 ∧ s.fastack ≠ 0xFFFFFFFF#32 ∧ n = 0) := by
    rw [hr.fastack]
  have e3 : itimediff (now + σ.t) s'.resendts = itimediff now s.resendts := by rw [hr.resendts, itd_shift]
  unfold xmitR
  simp only [e0, e1, e2, e3]
  by_cases c0 : s.xmit = 0
  · simp only [if_pos c0]
    exact ⟨trivial, { hr with rto := rfl, resendts := add_shift _ _ _ }, trivial⟩
  simp only [if_neg c0]
  by_cases c1 : s.fastack ≥ resent ∧ s.fastack ≠ 0xFFFFFFFF#32
  · simp only [if_pos c1]
    exact ⟨trivial, { hr with rto := rfl, fastack := rfl, resendts := add_shift _ _ _ }, trivial⟩
  simp only [if_neg c1]
  by_cases c2 : s.fastack > 0 ∧ s.fastack ≠ 0xFFFFFFFF#32 ∧ n = 0
  · simp only [if_pos c2]
    exact ⟨trivial, { hr with rto := rfl, fastack := rfl, resendts := add_shift _ _ _ }, trivial⟩
  simp only [if_neg c2]
  by_cases c3 : itimediff now s.resendts ≥ 0
  · simp only [if_pos c3]
    have er : (if nodelay = 0 then s'.rto + rx_rto else s'.rto + rx_rto / 2) =
        (if nodelay = 0 then s.rto + rx_rto else s.rto + rx_rto / 2) := by rw [hr.rto]
    refine ⟨trivial, { hr with rto := er, fastack := rfl, resendts := ?_ }, trivial⟩
    show now + σ.t + (if nodelay = 0 then s'.rto + rx_rto else s'.rto + rx_rto / 2) = _
    rw [er]; exact add_shift _ _ _
  · simp only [if_neg c3]
    exact ⟨trivial, hr, trivial⟩

theorem stamp_sim {σ : Sigma} {s s' : Seg} (hr : SndRel σ s s') (now : U32) (wnd : BitVec 16) (una : U32)
    (b : Bool) : SndRel σ (stamp now wnd una b s) (stamp (now + σ.t) wnd (una + σ.b) b s') := by
  cases b
  · exact hr
  · exact { hr with xmit := congrArg (· + 1) hr.xmit, ts := rfl, wnd := rfl, una := fun _ => rfl }

structure XSim (σ : Sigma) (x x' : XmitSt) : Prop where
  f      : FlSim σ x.f x'.f
  done   : All₂ (SndRel σ) x.done x'.done
  change : x'.change = x.change
  lost   : x'.lost = x.lost
  next   : x'.next = x.next

theorem xmitOne_sim {σ : Sigma} {st st' : XmitSt} (h : XSim σ st st') {s s' : Seg} (hr : SndRel σ s s')
    (now resent : U32) (wnd : BitVec 16) (una : U32) (n : Nat) :
    XSim σ (xmitOne now resent wnd una n st s) (xmitOne (now + σ.t) resent wnd (una + σ.b) n st' s') := by
  rw [xmitOne_eq, xmitOne_eq]
  unfold xmitOne'
  rw [hr.acked]
  by_cases c : s.acked = true
  · simp only [if_pos c]
    exact { h with done := forall₂_append h.done (forall₂_single hr) }
  simp only [if_neg c]
  rw [h.f.k.rx_rto, h.f.k.nodelay]
  obtain ⟨r1, r2, r3⟩ := xmitR_sim hr st.f.k.rx_rto st.f.k.nodelay now resent n
  generalize xmitR st.f.k.rx_rto st.f.k.nodelay now resent n s = R at r1 r2 r3 ⊢
  generalize xmitR st.f.k.rx_rto st.f.k.nodelay (now + σ.t) resent n s' = R' at r1 r2 r3 ⊢
  rw [r1, r3]
  have hs := stamp_sim r2 now wnd una R.1
  have hd : itimediff (stamp (now + σ.t) wnd (una + σ.b) R.1 R'.2.1).resendts (now + σ.t) =
      itimediff (stamp now wnd una R.1 R.2.1).resendts now := by rw [hs.resendts, itd_shift]
  rw [hd, h.next, h.change, h.lost]
  refine ⟨?_, forall₂_append h.done (forall₂_single hs), rfl, rfl, rfl⟩
  show FlSim σ (if R.1 = true then _ else _) (if R.1 = true then _ else _)
  cases hb : R.1
  · simp only [Bool.false_eq_true, if_false]
    exact h.f
  · simp only [if_true]
    apply emit_sim h.f
    · rw [← hb]; exact hs
    · simp only [stamp, if_true]

theorem xmitFold_sim {σ : Sigma} {l l' : List Seg} (hl : All₂ (SndRel σ) l l') {st st' : XmitSt}
    (h : XSim σ st st') (now resent : U32) (wnd : BitVec 16) (una : U32) (n : Nat) :
    XSim σ (l.foldl (xmitOne now resent wnd una n) st)
      (l'.foldl (xmitOne (now + σ.t) resent wnd (una + σ.b) n) st') := by
  induction hl generalizing st st' with
  | nil => exact h
  | cons hr _ ih =>
    simp only [List.foldl_cons]
    exact ih (xmitOne_sim h hr now resent wnd una n)

end KcpVerif.Shift
