/-
The per-segment retransmission timer as an inductive invariant over all operations:
every segment of `snd_buf` that has been sent has `resendts = ts + rto`.  Core Lean only.
-/
import KcpVerif.Lemmas.KcpLiveOps

namespace KcpVerif.Live
open KcpVerif KcpVerif.Gen KcpVerif.Kcp

/-- a sent segment's timer is its last transmission time plus its rto -/
def SegTimer (s : Seg) : Prop := s.xmit ≠ 0 → s.resendts = s.ts + s.rto

/-- every segment in `snd_buf` obeys `SegTimer`; nothing in `snd_queue` has been sent -/
def TimerInv (k : Kcp) : Prop := (∀ s ∈ k.snd_buf, SegTimer s) ∧ (∀ s ∈ k.snd_queue, s.xmit = 0)

/-- the send side is untouched -/
def SndSame (a b : Kcp) : Prop := a.snd_buf = b.snd_buf ∧ a.snd_queue = b.snd_queue

theorem TimerInv.of_same {a b : Kcp} (h : SndSame a b) (hb : TimerInv b) : TimerInv a := by
  unfold TimerInv; rw [h.1, h.2]; exact hb

/-! ### segment-level steps -/

theorem segAfter_timer (now resent : U32) (wnd : BitVec 16) (una : U32) (newSegs : Nat) (rx_rto nodelay : U32) (s : Seg)
    (h : SegTimer s) : SegTimer (segAfter now resent wnd una newSegs rx_rto nodelay s) := by
  by_cases hn : s.acked = true ∨ cause now resent newSegs s = .none
  · rw [segAfter_none _ _ _ _ _ _ _ _ hn]; exact h
  · have ha : s.acked = false := by
      cases hs : s.acked with
      | false => rfl
      | true => exact absurd (Or.inl hs) hn
    have hc : cause now resent newSegs s ≠ .none := fun c => hn (Or.inr c)
    rw [segAfter_sent _ _ _ _ _ _ _ _ ha hc]
    intro _
    show (retimed now rx_rto nodelay (cause now resent newSegs s) s).resendts =
      now + (retimed now rx_rto nodelay (cause now resent newSegs s) s).rto
    exact retimed_resendts _ _ _ _ _ hc

theorem ackLoop_timer (sn : U32) (l : List Seg) (h : ∀ s ∈ l, SegTimer s) : ∀ s ∈ ackLoop sn l, SegTimer s := by
  induction l with
  | nil => intro s hs; simp [ackLoop] at hs
  | cons a t ih =>
    unfold ackLoop
    have ha := h a List.mem_cons_self
    have ht : ∀ s ∈ t, SegTimer s := fun s hs => h s (List.mem_cons_of_mem _ hs)
    split
    · intro s hs
      rcases List.mem_cons.mp hs with rfl | hs
      · exact ha
      · exact ht s hs
    · split
      · exact h
      · intro s hs
        rcases List.mem_cons.mp hs with rfl | hs
        · exact ha
        · exact ih ht s hs

theorem fastLoop_timer (sn ts fr : U32) (l : List Seg) (h : ∀ s ∈ l, SegTimer s) :
    ∀ s ∈ (fastLoop sn ts fr l).buf, SegTimer s := by
  induction l with
  | nil => intro s hs; simp [fastLoop] at hs
  | cons a t ih =>
    unfold fastLoop
    have ha := h a List.mem_cons_self
    have ht : ∀ s ∈ t, SegTimer s := fun s hs => h s (List.mem_cons_of_mem _ hs)
    split
    · exact h
    · split
      · intro s hs
        rcases List.mem_cons.mp hs with rfl | hs
        · exact ha
        · exact ih ht s hs
      · intro s hs
        rcases List.mem_cons.mp hs with rfl | hs
        · exact ha
        · exact ih ht s hs

/-- admission: the buffer gains only never-sent segments, the queue only loses -/
theorem admitSegs_timer (conv una cwnd now : U32) (q buf : List Seg) (nxt : U32) (c : Nat)
    (hq : ∀ s ∈ q, s.xmit = 0) (hb : ∀ s ∈ buf, SegTimer s) :
    (∀ s ∈ (admitSegs conv una cwnd now q buf nxt c).buf, SegTimer s) ∧
    (∀ s ∈ (admitSegs conv una cwnd now q buf nxt c).queue, s.xmit = 0) := by
  induction q generalizing buf nxt c with
  | nil => exact ⟨hb, hq⟩
  | cons a t ih =>
    unfold admitSegs
    split
    · exact ⟨hb, hq⟩
    · apply ih
      · exact fun s hs => hq s (List.mem_cons_of_mem _ hs)
      · intro s hs
        rcases List.mem_append.mp hs with hs | hs
        · exact hb s hs
        · simp only [List.mem_singleton] at hs
          subst hs
          intro hx
          exact absurd (hq a List.mem_cons_self) hx

/-! ### operations -/

theorem flush_timer (k : Kcp) (full : Bool) (now : U32) (h : TimerInv k) : TimerInv (flush k full now).k := by
  obtain ⟨_, _, _, _, _, _, hk⟩ := flush_frame k full now
  obtain ⟨pw, tp, h3⟩ := flF3_frame k now
  obtain ⟨pw', tp', h4⟩ := flF4_frame k now
  have had := admitSegs_timer (flF3 k now).k.conv (flF3 k now).k.snd_una (effWnd (flF3 k now).k) now
    (flF3 k now).k.snd_queue (flF3 k now).k.snd_buf (flF3 k now).k.snd_nxt 0 (by rw [h3]; exact h.2) (by rw [h3]; exact h.1)
  have hb : ∀ s ∈ (flAd k now).buf, SegTimer s := had.1
  have hq : ∀ s ∈ (flAd k now).queue, s.xmit = 0 := had.2
  unfold TimerInv
  rw [hk]
  refine ⟨?_, hq⟩
  show ∀ s ∈ (flX k full now).done, SegTimer s
  cases full
  · rw [flX_ackonly, h4]; exact hb
  · have hd := (flX_full k now).done
    rw [hd, h4]
    intro s hs
    simp only [List.nil_append] at hs
    obtain ⟨s0, hs0, rfl⟩ := List.mem_map.mp hs
    exact segAfter_timer _ _ _ _ _ _ _ _ (hb s0 hs0)

theorem recv_snd (k : Kcp) (n : Nat) : SndSame (recv k n).k k := by
  unfold recv moveReady
  simp only []
  repeat' split
  all_goals exact ⟨rfl, rfl⟩

theorem setMtu_snd (k : Kcp) (m : Int) : SndSame (setMtu k m).1 k := by
  unfold setMtu
  simp only []
  repeat' split
  all_goals exact ⟨rfl, rfl⟩

theorem wndSize_snd (k : Kcp) (s r : Int) : SndSame (wndSize k s r) k := by
  unfold wndSize
  simp only []
  repeat' split
  all_goals exact ⟨rfl, rfl⟩

theorem noDelay_snd (k : Kcp) (nd iv rs nc : Int) : SndSame (noDelay k nd iv rs nc) k := by
  unfold noDelay
  simp only []
  repeat' split
  all_goals exact ⟨rfl, rfl⟩

theorem cwndOnAck_snd (k : Kcp) (old : U32) : SndSame (cwndOnAck k old) k := by
  unfold cwndOnAck
  simp only []
  repeat' split
  all_goals exact ⟨rfl, rfl⟩

theorem updateAck_snd (k : Kcp) (rtt : U32) : SndSame (updateAck k rtt) k := by
  unfold updateAck smoothRtt
  simp only []
  repeat' split
  all_goals exact ⟨rfl, rfl⟩

theorem update_timer (k : Kcp) (now : U32) (h : TimerInv k) : TimerInv (update k now).k := by
  unfold update
  simp only []
  refine ite_pred (fun r : FlushRes => TimerInv r.k) _ (flush_timer _ true now ?_) ?_
  · refine TimerInv.of_same ?_ h
    repeat' split
    all_goals exact ⟨rfl, rfl⟩
  · refine TimerInv.of_same ?_ h
    repeat' split
    all_goals exact ⟨rfl, rfl⟩

/-! ### `input` -/

theorem mem_of_mem_dropAcked {s : Seg} {l : List Seg} (h : s ∈ dropAcked l) : s ∈ l := by
  induction l with
  | nil => simp [dropAcked] at h
  | cons a t ih =>
    unfold dropAcked at h
    split at h
    · exact List.mem_cons_of_mem _ (ih h)
    · exact h

theorem shrinkBuf_timer (k : Kcp) (h : TimerInv k) : TimerInv (shrinkBuf k) := by
  rw [shrinkBuf_eq]
  exact ⟨fun s hs => h.1 s (mem_of_mem_dropAcked hs), h.2⟩

theorem inStep_timer (regular : Bool) (conv : U32) (cmd frg : BitVec 8) (wnd : BitVec 16) (ts sn una : U32)
    (payload : Bytes) (st : InLoop) (h : TimerInv st.k) :
    TimerInv (inStep regular conv cmd frg wnd ts sn una payload st).k := by
  have hpre : TimerInv (inPre regular wnd una st.k) := by
    unfold inPre parseUna
    apply shrinkBuf_timer
    cases regular
    · exact ⟨fun s hs => h.1 s (List.mem_of_mem_drop hs), h.2⟩
    · exact ⟨fun s hs => h.1 s (List.mem_of_mem_drop hs), h.2⟩
  have hset : ∀ (f : Kcp → Kcp), SndSame (f (inPre regular wnd una st.k)) (inPre regular wnd una st.k) →
      TimerInv (f (inPre regular wnd una st.k)) := fun f hf => TimerInv.of_same hf hpre
  rw [inStep_k]
  split
  · -- ACK
    have h1 : TimerInv (parseAck (inPre regular wnd una st.k) sn) := by
      unfold parseAck
      split
      · exact hpre
      · exact ⟨ackLoop_timer sn _ hpre.1, hpre.2⟩
    have h1' := shrinkBuf_timer _ h1
    unfold parseFastack
    split
    · exact h1'
    · exact ⟨fastLoop_timer sn ts _ _ h1'.1, h1'.2⟩
  · split
    · split
      · split
        · obtain ⟨rb, rq, rn, hf⟩ := parseData_frame
            { inPre regular wnd una st.k with acklist := (inPre regular wnd una st.k).acklist ++ [⟨sn, ts⟩] }
            (pushSeg conv cmd frg wnd ts sn una payload)
          rw [hf]; exact hpre
        · exact hpre
      · exact hpre
    · split
      · exact hpre
      · exact hpre

theorem inSt_timer (k : Kcp) (data : Bytes) (regular : Bool) (h : TimerInv k) : TimerInv (inSt k data regular).k := by
  unfold inSt
  apply inputLoop_induct regular (fun x => TimerInv x.k)
  · intro st r h'; exact h'
  · intro conv cmd frg wnd ts sn una payload st _ _ _ h'
    exact inStep_timer regular conv cmd frg wnd ts sn una payload st h'
  · exact h

theorem input_timer (k : Kcp) (data : Bytes) (regular ackNoDelay : Bool) (now : U32) (h : TimerInv k) :
    TimerInv (input k data regular ackNoDelay now).k := by
  have hst := inSt_timer k data regular h
  have h2 : TimerInv (inK2 k data regular now) := by
    unfold inK2
    refine TimerInv.of_same (cwndOnAck_snd _ _) ?_
    split
    · exact TimerInv.of_same (updateAck_snd _ _) hst
    · exact hst
  rw [input_eq]
  split
  · exact h
  · split
    · exact hst
    · split
      · exact hst
      · split
        · exact flush_timer _ _ _ h2
        · split
          · exact flush_timer _ _ _ h2
          · split
            · exact flush_timer _ _ _ h2
            · exact h2

/-! ### `send` -/

theorem mkSegs_xmit (mss : Nat) (stream : Bool) (c : Nat) (buf : Bytes) : ∀ s ∈ mkSegs mss stream c buf, s.xmit = 0 := by
  induction c generalizing buf with
  | zero => intro s hs; simp [mkSegs] at hs
  | succ n ih =>
    intro s hs
    unfold mkSegs at hs
    rcases List.mem_cons.mp hs with rfl | hs
    · rfl
    · exact ih _ s hs

theorem setLast_xmit (l : List Seg) (x : Seg) (hl : ∀ s ∈ l, s.xmit = 0) (hx : x.xmit = 0) :
    ∀ s ∈ setLast l x, s.xmit = 0 := by
  intro s hs
  unfold setLast at hs
  rcases List.mem_append.mp hs with h | h
  · exact hl s (List.dropLast_subset l h)
  · simp only [List.mem_singleton] at h; subst h; exact hx

theorem send_timer (k : Kcp) (b : Bytes) (h : TimerInv k) : TimerInv (send k b).k := by
  have hq1 : ∀ (c : Prop) [Decidable c] (d : Seg → Bytes),
      ∀ s ∈ (if c then (match k.snd_queue.getLast? with
                        | some s => setLast k.snd_queue { s with data := d s }
                        | none => k.snd_queue) else k.snd_queue), s.xmit = 0 := by
    intro c _ d
    split
    · split
      · rename_i s0 hs0
        exact setLast_xmit _ _ h.2 (h.2 s0 (List.mem_of_getLast? hs0))
      · exact h.2
    · exact h.2
  unfold send
  simp only []
  refine ite_pred (fun r : SendRes => TimerInv r.k) _ h ?_
  refine ite_pred (fun r : SendRes => TimerInv r.k) _ h ?_
  refine ite_pred (fun r : SendRes => TimerInv r.k) _ h ?_
  refine ite_pred (fun r : SendRes => TimerInv r.k) _ ⟨h.1, hq1 _ _⟩ ?_
  refine ite_pred (fun r : SendRes => TimerInv r.k) _ ⟨h.1, hq1 _ _⟩ ?_
  refine ⟨h.1, ?_⟩
  intro s hs
  rcases List.mem_append.mp hs with hs | hs
  · exact hq1 _ _ s hs
  · exact mkSegs_xmit _ _ _ _ s hs

/-! ### all operations, reachable states -/

theorem step_timer (k : Kcp) (op : Op) (h : TimerInv k) : TimerInv (step k op) := by
  cases op with
  | send b => exact send_timer k b h
  | recv n => exact TimerInv.of_same (recv_snd k n) h
  | input d r a now => exact input_timer k d r a now h
  | flush full now => exact flush_timer k full now h
  | update now => exact update_timer k now h
  | setMtu m => exact TimerInv.of_same (setMtu_snd k m) h
  | noDelay nd iv rs nc => exact TimerInv.of_same (noDelay_snd k nd iv rs nc) h
  | wndSize s r => exact TimerInv.of_same (wndSize_snd k s r) h

theorem run_timer (k : Kcp) (ops : List Op) (h : TimerInv k) : TimerInv (run k ops) := by
  induction ops generalizing k with
  | nil => exact h
  | cons op rest ih => rw [run_cons]; exact ih _ (step_timer k op h)

theorem new_timer (conv : U32) : TimerInv (Kcp.new conv) :=
  ⟨fun s hs => by simp [Kcp.new] at hs, fun s hs => by simp [Kcp.new] at hs⟩

/-- with the timer at `ts + rto`, at any `now` not before the last transmission (in the signed
32-bit comparison) the remaining time is `rto − (now − ts)`, in particular at most `rto` -/
theorem timer_remaining (s : Seg) (now : U32) (ht : s.resendts = s.ts + s.rto) (hr : s.rto.toNat < 2 ^ 31)
    (hn : itimediff now s.ts ≥ 0) :
    itimediff s.resendts now = (s.rto.toNat : Int) - itimediff now s.ts ∧ itimediff s.resendts now ≤ s.rto.toNat := by
  rw [ht]
  unfold itimediff at hn ⊢
  generalize s.ts = t at hn ⊢
  generalize s.rto = r at hr hn ⊢
  have h1 : (now - t).toInt = (now - t).toNat := by
    rw [BitVec.toInt_eq_toNat_cond] at hn ⊢; split at hn <;> rename_i hc
    · rw [if_pos hc]
    · omega
  have h2 : (now - t).toNat < 2 ^ 31 := by
    rw [BitVec.toInt_eq_toNat_cond] at hn; split at hn <;> omega
  have e : t + r - now = r - (now - t) := by bv_omega
  rw [e, h1]
  generalize now - t = d at h2 ⊢
  have : (r - d).toInt = (r.toNat : Int) - d.toNat := by
    rw [BitVec.toInt_eq_toNat_cond, BitVec.toNat_sub]
    split <;> omega
  rw [this]
  omega

/-- under the same hypotheses the two signed differences are opposite: "not due" is the same as
"time left is positive" -/
theorem timer_antisymm (s : Seg) (now : U32) (ht : s.resendts = s.ts + s.rto) (hr : s.rto.toNat < 2 ^ 31)
    (hn : itimediff now s.ts ≥ 0) : itimediff now s.resendts = -(itimediff s.resendts now) := by
  have h1 := (timer_remaining s now ht hr hn).1
  rw [h1]
  rw [ht]
  unfold itimediff at hn ⊢
  generalize s.ts = t at hn ⊢
  generalize s.rto = r at hr hn ⊢
  have hd1 : (now - t).toInt = (now - t).toNat := by
    rw [BitVec.toInt_eq_toNat_cond] at hn ⊢; split at hn <;> rename_i hc
    · rw [if_pos hc]
    · omega
  have hd2 : (now - t).toNat < 2 ^ 31 := by
    rw [BitVec.toInt_eq_toNat_cond] at hn; split at hn <;> omega
  have e : now - (t + r) = (now - t) - r := by bv_omega
  rw [e, hd1]
  generalize now - t = d at hd2 ⊢
  rw [BitVec.toInt_eq_toNat_cond, BitVec.toNat_sub]
  split <;> omega

theorem run_append (k : Kcp) (ops : List Op) (op : Op) : run k (ops ++ [op]) = step (run k ops) op := by
  unfold run; rw [List.foldl_append]; rfl

end KcpVerif.Live
