/-
The general drain under the reader condition only (`FairHyp`: `QOk` instead of "B's queue is never
full"): a stage starts at a clock tick; if something is outstanding the head is released (B is not
behind at a tick); otherwise, until A numbers a segment, nothing fills B's queue (`qp_prefix`), so the
old datagrams leave the link, a probe round re-opens the window and A numbers a segment within
`quietLen` (`quiet_bounded`), and its head is released.
-/
import KcpVerif.Lemmas.SysDrainFair

namespace KcpVerif.SysC
open KcpVerif KcpVerif.Gen KcpVerif.Kcp KcpVerif.Live KcpVerif.Wire KcpVerif.SysW KcpVerif.Sys

theorem arrOk_run (evs : List Ev) : ∀ (s : State), ArrOk s → ArrOk (Sys.run s evs) := by
  induction evs with
  | nil => intro s h; exact h
  | cons ev rest ih => intro s h; exact ih _ (arrOk_step s h ev)

theorem inv_pinv_run {p : Par} {IA IB : Nat} (hIA : IA < 2 ^ 30) (evs : List Ev) : ∀ (s : State), Inv p IA IB s →
    PInv IA s → RunNoWrap p.base s evs → Inv p IA IB (Sys.run s evs) ∧ PInv IA (Sys.run s evs) := by
  induction evs with
  | nil => intro s h hp _; exact ⟨h, hp⟩
  | cons ev rest ih =>
    intro s h hp hr
    obtain ⟨gab, gba, hc⟩ := h.cons
    exact ih _ (inv_step h hr.1 ev) (pinv_step hc hr.1 IA hIA h.ta hp ev) hr.2

/-- while the send buffer stays empty, `snd_una` and the length of the queue stand still -/
theorem quiet_const_run {p : Par} (evs : List Ev) : ∀ (s : State) (gab gba : GLink), Cons p s gab gba →
    RunNoWrap p.base s evs → (∀ ev ∈ evs, isSend ev = false) →
    (∀ a b, evs = a ++ b → (Sys.run s a).A.snd_buf = []) →
    (Sys.run s evs).A.snd_una = s.A.snd_una ∧ (Sys.run s evs).A.snd_queue.length = s.A.snd_queue.length := by
  intro s gab gba h hr hns hall
  have huna : ∀ (evs : List Ev) (s : State) (gab gba : GLink), Cons p s gab gba → RunNoWrap p.base s evs →
      (∀ a b, evs = a ++ b → (Sys.run s a).A.snd_buf = []) → (Sys.run s evs).A.snd_una = s.A.snd_una := by
    intro evs
    induction evs with
    | nil => intro s _ _ _ _ _; rfl
    | cons ev rest ih =>
      intro s gab gba h hr hall
      obtain ⟨gab', gba', hc⟩ := cons_step h hr.1 ev
      have hb : s.A.snd_buf = [] := hall [] (ev :: rest) rfl
      have h1 := quiet_una_step h hr.1 hb ev
      have h2 := ih _ gab' gba' hc hr.2 (fun a b e => hall (ev :: a) b (by rw [e]; rfl))
      exact h2.trans h1
  have hu := huna evs s gab gba h hr hall
  refine ⟨hu, ?_⟩
  obtain ⟨g1, g2, hc'⟩ := cons_run evs s gab gba h hr
  have hq := qn_run evs s gab gba h hr hns
  have hb : s.A.snd_buf = [] := hall [] evs rfl
  have hb' : (Sys.run s evs).A.snd_buf = [] := hall evs [] (by simp)
  have c1 := h.acon.2
  have c2 := hc'.acon.2
  rw [hb] at c1
  rw [hb', hu] at c2
  simp only [List.length_nil] at c1 c2
  omega

/-- how long A can have something queued and nothing outstanding -/
def quietLen (IA IB D : Nat) : Nat := (D + 1) + (IKCP_PROBE_LIMIT + 2 * IA + D + IB + D + 1) + 2 * IA

/-- **a segment is numbered within `quietLen`**: a run along which the send buffer stays empty although
something is queued cannot last longer -/
theorem quiet_bounded {p : Par} {IA IB Rmax : Nat} (hIA : IA < 2 ^ 29) {s : State} (hi : Inv p IA IB s) (hpi : PInv IA s)
    (ha : ArrOk s) (hq : s.A.snd_queue ≠ []) (evs : List Ev) (hns : ∀ ev ∈ evs, isSend ev = false)
    (hr : RunP (FullHyp p Rmax IA) s evs) (hall : ∀ a b, evs = a ++ b → (Sys.run s a).A.snd_buf = []) :
    (Sys.run s evs).now ≤ s.now + quietLen IA IB s.D := by
  rcases Nat.lt_or_ge (s.now + quietLen IA IB s.D) (Sys.run s evs).now with hgt | hle
  · exfalso
    unfold quietLen at hgt
    obtain ⟨gab, gba, hc⟩ := hi.cons
    -- the old datagrams leave the link
    obtain ⟨a0, b0, e0, t0⟩ := run_reaches (s.now + s.D + 1) evs s (by omega) (by omega)
    obtain ⟨hra0, hrb0⟩ := RunP.split a0 b0 s (by rw [← e0]; exact hr)
    have hof : OF (s.now + s.D) s := ⟨s.ba, [], by simp, ha, fun _ => by omega, fun d hd => by simp at hd⟩
    obtain ⟨hi0, hpi0, hof0⟩ := of_inv_run (by omega) (s.now + s.D) a0 s hi hpi hra0 hof
    have hf0 := of_fresh hof0 (by rw [t0]; omega)
    have hD0 : (Sys.run s a0).D = s.D := run_D a0 s
    have hrun0 : Sys.run s evs = Sys.run (Sys.run s a0) b0 := by rw [e0, run_append]
    rw [hrun0] at hgt
    -- the window re-opens
    obtain ⟨a1, b1, e1, hq1, t1⟩ := ev_bound (P := FullHyp p Rmax IA) (Q := fun s' => s'.A.rmt_wnd ≠ 0) (Sys.run s a0)
      ((Sys.run s a0).now + IKCP_PROBE_LIMIT + 2 * IA + (Sys.run s a0).D + IB + (Sys.run s a0).D) b0
      (fun c d _ hrc hn => probe_opens hi0 hpi0 hIA c (RunP.mono (fun _ h => ⟨h.1, h.2.1⟩) c _ hrc) hn)
      hrb0 (by rw [hD0, t0]; omega)
    obtain ⟨hra1, hrb1⟩ := RunP.split a1 b1 _ (by rw [← e1]; exact hrb0)
    have hi1 := inv3_run (by omega) a1 _ ⟨hi0, hpi0, hf0⟩ hra1
    have hrun1 : Sys.run (Sys.run s a0) b0 = Sys.run (Sys.run (Sys.run s a0) a1) b1 := by rw [e1, run_append]
    rw [hrun1] at hgt
    have he01 : evs = (a0 ++ a1) ++ b1 := by rw [e0, e1]; simp
    have hs1 : Sys.run (Sys.run s a0) a1 = Sys.run s (a0 ++ a1) := (run_append s a0 a1).symm
    have hb1 : (Sys.run (Sys.run s a0) a1).A.snd_buf = [] := by rw [hs1]; exact hall (a0 ++ a1) b1 he01
    have hns01 : ∀ ev ∈ a0 ++ a1, isSend ev = false := fun ev he => hns ev (by rw [he01]; exact List.mem_append_left _ he)
    have hnsb1 : ∀ ev ∈ b1, isSend ev = false := fun ev he => hns ev (by rw [he01]; exact List.mem_append_right _ he)
    obtain ⟨hr01, _⟩ := RunP.split (a0 ++ a1) b1 s (by rw [← he01]; exact hr)
    have hqc := quiet_const_run (a0 ++ a1) s gab gba hc (full_noWrap _ s hr01) hns01
      (fun a b e => hall a (b ++ b1) (by rw [he01, e]; simp))
    have hq1' : (Sys.run (Sys.run s a0) a1).A.snd_queue ≠ [] := by
      rw [hs1]
      intro hnil
      have := hqc.2
      rw [hnil] at this
      exact hq (List.length_eq_zero_iff.mp this.symm)
    -- a segment is numbered
    rcases adm_run (by omega) ((Sys.run (Sys.run s a0) a1).now + IA) ((Sys.run (Sys.run s a0) a1).now + 2 * IA) (by omega)
      b1 _ hi1 hrb1 hnsb1 hb1 hq1' hq1 (Or.inl ⟨hi1.inv.ta.nf, by omega⟩) with ⟨a2, b2, e2, hne⟩ | hT
    · apply hne
      rw [hs1, ← run_append]
      exact hall ((a0 ++ a1) ++ a2) b2 (by rw [he01, e2]; simp)
    · rw [hD0, t0] at t1
      omega
  · exact hle

/-- the length of one stage under the reader condition -/
def fairStage (Rmax IA IB D : Nat) : Nat := quietLen IA IB D + 1 + (Rmax + IA + D + IB + D)

/-- **one stage under the reader condition**: from a state where B's queue is not full (a clock tick),
something waiting ⇒ `snd_una` advances within `fairStage` -/
theorem stage_fair {p : Par} {IA IB Rmax : Nat} (hIA : IA < 2 ^ 29) (hR : Rmax + IA < 2 ^ 31) {s : State}
    (hi : Inv p IA IB s) (hpi : PInv IA s) (ha : ArrOk s) (hqB : s.B.rcv_queue.length < s.B.rcv_wnd.toNat)
    (hw : 0 < s.A.waitSnd) (evs : List Ev) (hns : ∀ ev ∈ evs, isSend ev = false)
    (hr : RunP (FairHyp p Rmax IA) s evs) (hnow : s.now + fairStage Rmax IA IB s.D < (Sys.run s evs).now) :
    o p.base s.A.snd_una < o p.base (Sys.run s evs).A.snd_una := by
  obtain ⟨gab, gba, hc⟩ := hi.cons
  unfold fairStage at hnow
  have hnb := not_behind hc hi.side.srt hi.side.fix hqB
  by_cases hb : s.A.snd_buf = []
  · have hq : s.A.snd_queue ≠ [] := by
      intro hq
      unfold waitSnd at hw
      rw [hb, hq] at hw
      simp at hw
    have hcon := hc.acon.2
    rw [hb] at hcon
    simp only [List.length_nil] at hcon
    have hqp : QP p s := ⟨hb, by omega, hqB⟩
    obtain ⟨c, d, e1, e2, e3, e4, e5⟩ := qp_prefix evs s hi hqp hr
    have hnsc : ∀ ev ∈ c, isSend ev = false := fun ev he => hns ev (by rw [e1]; exact List.mem_append_left _ he)
    have hbound := quiet_bounded (IB := IB) hIA hi hpi ha hq c hnsc e2 e4
    rcases e5 with rfl | ⟨ev, d', rfl, hne⟩
    · exfalso
      rw [List.append_nil] at e1
      rw [e1] at hnow
      omega
    · obtain ⟨hrc, hrd⟩ := RunP.split c (ev :: d') s (by rw [← e1]; exact hr)
      have hnwc := full_noWrap c s e2
      have hic := inv_run c s hi hnwc
      obtain ⟨gc1, gc2, hcc⟩ := hic.cons
      have hnw2 := hrd.1.1.noWrap
      have hi2 := inv_step hic hnw2 ev
      have hu2 := quiet_una_step hcc hnw2 e3.1 ev
      have hr2 := rnxt_mono_step hcc hnw2 ev
      have hconc := hcc.acon.2
      rw [e3.1] at hconc
      simp only [List.length_nil] at hconc
      have hm := una_mono_run c s gab gba hc hnwc
      have hrun : Sys.run s evs = Sys.run (Sys.step (Sys.run s c) ev) d' := by rw [e1, run_append]; rfl
      have hD2 : (Sys.step (Sys.run s c) ev).D = s.D := (step_D _ ev).trans (run_D c s)
      have hn2 : (Sys.step (Sys.run s c) ev).now ≤ (Sys.run s c).now + 1 := by
        rcases step_now (Sys.run s c) ev with e | e <;> omega
      rw [hrun] at hnow ⊢
      have := head_stage_rb hi2 hR hne (by rw [hu2]; have := e3.2.1; omega) d' hrd.2 (by rw [hD2]; omega)
      rw [hu2] at this
      omega
  · exact head_stage_rb hi hR hb hnb evs hr (by unfold quietLen at hnow; omega)

/-- **the general drain under the reader condition** (writer stopped): `WaitSnd ≤ n` ⇒ after `n` stages
nothing is waiting -/
theorem drain_fair_all {p : Par} {IA IB Rmax : Nat} (hIA : IA < 2 ^ 29) (hR : Rmax + IA < 2 ^ 31) : ∀ (n : Nat) (s : State),
    Inv p IA IB s → PInv IA s → ArrOk s → s.B.rcv_queue.length < s.B.rcv_wnd.toNat → s.A.waitSnd ≤ n →
    ∀ evs : List Ev, (∀ ev ∈ evs, isSend ev = false) → RunP (FairHyp p Rmax IA) s evs →
    s.now + n * (fairStage Rmax IA IB s.D + 2) ≤ (Sys.run s evs).now → (Sys.run s evs).A.waitSnd = 0 := by
  intro n
  induction n with
  | zero =>
    intro s hi _ _ _ hw evs hns hr _
    obtain ⟨gab, gba, hc⟩ := hi.cons
    have h1 := wait_run hc evs (fair_noWrap evs s hr) hns
    have h2 := una_mono_run evs s gab gba hc (fair_noWrap evs s hr)
    omega
  | succ n ih =>
    intro s hi hpi ha hqB hw evs hns hr hnow
    obtain ⟨gab, gba, hc⟩ := hi.cons
    by_cases hw0 : s.A.waitSnd = 0
    · have h1 := wait_run hc evs (fair_noWrap evs s hr) hns
      have h2 := una_mono_run evs s gab gba hc (fair_noWrap evs s hr)
      omega
    · rw [Nat.succ_mul] at hnow
      obtain ⟨a, b, he, hqt, hτ⟩ := run_reaches_tick (s.now + (fairStage Rmax IA IB s.D + 2)) evs s (by omega) (by omega)
      have he' : evs = (a ++ [Ev.tick]) ++ b := by rw [he, List.append_assoc]; rfl
      obtain ⟨hr1, hr2⟩ := RunP.split (a ++ [Ev.tick]) b s (by rw [← he']; exact hr)
      obtain ⟨hra, _⟩ := RunP.split a [Ev.tick] s hr1
      have hPa := RunP.last a s hra
      have hrun1 : Sys.run s (a ++ [Ev.tick]) = Sys.step (Sys.run s a) .tick := by rw [run_append]; rfl
      have hnow1 : (Sys.run s (a ++ [Ev.tick])).now = s.now + (fairStage Rmax IA IB s.D + 2) := by
        rw [hrun1]
        show (if quiet (Sys.run s a) then { (Sys.run s a) with now := (Sys.run s a).now + 1 } else (Sys.run s a)).now = _
        rw [if_pos hqt]
        exact hτ
      have hns1 : ∀ ev ∈ a ++ [Ev.tick], isSend ev = false := fun ev hev => hns ev (by rw [he']; exact List.mem_append_left _ hev)
      have hns2 : ∀ ev ∈ b, isSend ev = false := fun ev hev => hns ev (by rw [he']; exact List.mem_append_right _ hev)
      have hnw1 := fair_noWrap (a ++ [Ev.tick]) s hr1
      have hst := stage_fair hIA hR hi hpi ha hqB (by omega) (a ++ [Ev.tick]) hns1 hr1 (by rw [hnow1]; omega)
      have hw1 := wait_run hc (a ++ [Ev.tick]) hnw1 hns1
      obtain ⟨hi1, hpi1⟩ := inv_pinv_run (by omega) (a ++ [Ev.tick]) s hi hpi hnw1
      have ha1 := arrOk_run (a ++ [Ev.tick]) s ha
      have hq1 : (Sys.run s (a ++ [Ev.tick])).B.rcv_queue.length < (Sys.run s (a ++ [Ev.tick])).B.rcv_wnd.toNat := by
        rw [hrun1, tick_B]
        exact hPa.2.2.1 (quiet_peek _ hqt)
      have hD1 : (Sys.run s (a ++ [Ev.tick])).D = s.D := run_D _ s
      have := ih (Sys.run s (a ++ [Ev.tick])) hi1 hpi1 ha1 hq1 (by omega) b hns2 hr2 (by
        rw [hD1, hnow1, ← run_append, ← he']; omega)
      rw [← run_append, ← he'] at this
      exact this

/-- **the general drain from any state that satisfies the invariants**: one more millisecond for the
first clock tick, at which B's queue is not full -/
theorem drain_fair_any {p : Par} {IA IB Rmax : Nat} (hIA : IA < 2 ^ 29) (hR : Rmax + IA < 2 ^ 31) {s : State}
    (hi : Inv p IA IB s) (hpi : PInv IA s) (ha : ArrOk s) (evs : List Ev) (hns : ∀ ev ∈ evs, isSend ev = false)
    (hr : RunP (FairHyp p Rmax IA) s evs)
    (hnow : s.now + 1 + s.A.waitSnd * (fairStage Rmax IA IB s.D + 2) ≤ (Sys.run s evs).now) :
    (Sys.run s evs).A.waitSnd = 0 := by
  obtain ⟨gab, gba, hc⟩ := hi.cons
  obtain ⟨a, b, he, hqt, hτ⟩ := run_reaches_tick (s.now + 1) evs s (by omega) (by omega)
  have he' : evs = (a ++ [Ev.tick]) ++ b := by rw [he, List.append_assoc]; rfl
  obtain ⟨hr1, hr2⟩ := RunP.split (a ++ [Ev.tick]) b s (by rw [← he']; exact hr)
  obtain ⟨hra, _⟩ := RunP.split a [Ev.tick] s hr1
  have hPa := RunP.last a s hra
  have hrun1 : Sys.run s (a ++ [Ev.tick]) = Sys.step (Sys.run s a) .tick := by rw [run_append]; rfl
  have hnow1 : (Sys.run s (a ++ [Ev.tick])).now = s.now + 1 := by
    rw [hrun1]
    show (if quiet (Sys.run s a) then { (Sys.run s a) with now := (Sys.run s a).now + 1 } else (Sys.run s a)).now = _
    rw [if_pos hqt]
    exact hτ
  have hns1 : ∀ ev ∈ a ++ [Ev.tick], isSend ev = false := fun ev hev => hns ev (by rw [he']; exact List.mem_append_left _ hev)
  have hns2 : ∀ ev ∈ b, isSend ev = false := fun ev hev => hns ev (by rw [he']; exact List.mem_append_right _ hev)
  have hnw1 := fair_noWrap (a ++ [Ev.tick]) s hr1
  have hw1 := wait_run hc (a ++ [Ev.tick]) hnw1 hns1
  have hm1 := una_mono_run (a ++ [Ev.tick]) s gab gba hc hnw1
  obtain ⟨hi1, hpi1⟩ := inv_pinv_run (by omega) (a ++ [Ev.tick]) s hi hpi hnw1
  have ha1 := arrOk_run (a ++ [Ev.tick]) s ha
  have hq1 : (Sys.run s (a ++ [Ev.tick])).B.rcv_queue.length < (Sys.run s (a ++ [Ev.tick])).B.rcv_wnd.toNat := by
    rw [hrun1, tick_B]
    exact hPa.2.2.1 (quiet_peek _ hqt)
  have hD1 : (Sys.run s (a ++ [Ev.tick])).D = s.D := run_D _ s
  have := drain_fair_all hIA hR s.A.waitSnd (Sys.run s (a ++ [Ev.tick])) hi1 hpi1 ha1 hq1 (by omega) b hns2 hr2 (by
    rw [hD1, hnow1, ← run_append, ← he']; omega)
  rw [← run_append, ← he'] at this
  exact this

theorem full_fair {p : Par} {Rmax IA : Nat} (s : State) (h : FullHyp p Rmax IA s) : FairHyp p Rmax IA s :=
  ⟨h.1, ⟨by have := h.2.1.1; omega, h.2.1.2⟩, fun _ => h.2.1.1, h.2.2.1, h.2.2.2⟩

/-! ### a Boolean check of the run hypotheses (for examples) -/

def fairChk (base : U32) (Rmax IA : Nat) (s : State) : Bool :=
  decide (o base s.A.snd_nxt + s.A.snd_queue.length < 2 ^ 30 ∧ s.B.rcv_wnd.toNat < 2 ^ 30) &&
  decide (0 < s.B.rcv_wnd.toNat ∧ s.B.rcv_wnd.toNat < 65536) &&
  decide (s.B.peekSize < 0 → s.B.rcv_queue.length < s.B.rcv_wnd.toNat) && tmrChk Rmax IA s &&
  decide (s.A.snd_wnd ≠ 0 ∧ s.A.snd_wnd.toNat < 2 ^ 31)

def runFairChk (base : U32) (Rmax IA : Nat) : State → List Ev → Bool
  | s, [] => fairChk base Rmax IA s
  | s, ev :: rest => fairChk base Rmax IA s && runFairChk base Rmax IA (Sys.step s ev) rest

theorem fairChk_sound (p : Par) (Rmax IA : Nat) (s : State) (h : fairChk p.base Rmax IA s = true) : FairHyp p Rmax IA s := by
  unfold fairChk at h
  simp only [Bool.and_eq_true, decide_eq_true_eq] at h
  exact ⟨h.1.1.1.1, h.1.1.1.2, h.1.1.2, tmrChk_sound Rmax IA s h.1.2, h.2⟩

theorem runFairChk_sound (p : Par) (Rmax IA : Nat) : ∀ (evs : List Ev) (s : State), runFairChk p.base Rmax IA s evs = true →
    RunP (FairHyp p Rmax IA) s evs := by
  intro evs
  induction evs with
  | nil => intro s h; exact fairChk_sound p Rmax IA s h
  | cons ev rest ih =>
    intro s h
    unfold runFairChk at h
    simp only [Bool.and_eq_true] at h
    exact ⟨fairChk_sound p Rmax IA s h.1, ih _ h.2⟩

end KcpVerif.SysC
