/-
Window bookkeeping for the clean path (C18 Tier 2), system part: the invariant `Win` — every
`(una, wnd)` pair on its way to A, and A's current `(snd_una, min(snd_wnd, rmt_wnd))`, satisfy
`una + wnd + |rcv_queue| ≤ rcv_nxt + rcv_wnd` at B — is preserved by every event, and it yields the run
hypothesis `RoomOk` of `C18_clean_path_partial`.
-/
import KcpVerif.Lemmas.SysWinBase

namespace KcpVerif.SysC
open KcpVerif KcpVerif.Gen KcpVerif.Kcp KcpVerif.Live KcpVerif.Wire KcpVerif.SysW KcpVerif.Sys

structure Win (p : Par) (s : State) (gba : GLink) : Prop where
  wc  : Contig p.base s.A
  wAu : o p.base s.A.snd_una ≤ o p.base s.B.rcv_nxt
  wA  : o p.base s.A.snd_una + min s.A.snd_wnd.toNat s.A.rmt_wnd.toNat + s.B.rcv_queue.length ≤
          o p.base s.B.rcv_nxt + p.W
  wR  : o p.base s.A.snd_nxt + s.B.rcv_queue.length ≤ o p.base s.B.rcv_nxt + p.W
  wB  : ∀ d ∈ gba, ∀ fr ∈ d.2,
          o p.base fr.una + fr.wnd.toNat + s.B.rcv_queue.length ≤ o p.base s.B.rcv_nxt + p.W ∧
          o p.base s.A.snd_una ≤ o p.base fr.una
  wU  : ∀ d ∈ gba, ∀ fr ∈ d.2, ∀ fr' ∈ d.2, fr.una = fr'.una ∧ fr.wnd = fr'.wnd
  wS  : gba.Pairwise (fun d d' => ∀ fr ∈ d.2, ∀ fr' ∈ d'.2, o p.base fr.una ≤ o p.base fr'.una)

theorem Clean.rn {p : Par} {s : State} {gab gba : GLink} (h : Clean p s gab gba) :
    o p.base s.B.rcv_nxt ≤ o p.base s.A.snd_nxt := by have := h.ord.2; omega

/-- the bookkeeping invariant gives the room hypothesis -/
theorem Win.room {p : Par} {s : State} {gab gba : GLink} (h : Clean p s gab gba) (w : Win p s gba) : RoomOk s := by
  unfold RoomOk
  rw [o_sub p.base s.B.rcv_nxt s.A.snd_nxt h.rn, h.bw.1]
  have := w.wR
  have := h.rn
  omega

theorem pairwise_of_all {α : Type} {R : α → α → Prop} : ∀ (l : List α), (∀ a ∈ l, ∀ b ∈ l, R a b) → l.Pairwise R := by
  intro l
  induction l with
  | nil => intro _; exact List.Pairwise.nil
  | cons x r ih =>
    intro h
    exact List.pairwise_cons.mpr ⟨fun b hb => h x (List.mem_cons_self ..) b (List.mem_cons_of_mem _ hb),
      ih (fun a ha b hb => h a (List.mem_cons_of_mem _ ha) b (List.mem_cons_of_mem _ hb))⟩

theorem probeFrs_wnd (k : Kcp) (now : U32) : ∀ fr ∈ probeFrs k now, fr.wnd = wndUnused k := by
  intro fr hfr
  unfold probeFrs waskFrs winsFrs at hfr
  rcases List.mem_append.mp hfr with h | h
  · split at h
    · rw [List.mem_singleton.mp h]
    · simp at h
  · split at h
    · rw [List.mem_singleton.mp h]
    · simp at h

theorem ackFrsOf_wnd (k : Kcp) : ∀ fr ∈ ackFrsOf k, fr.wnd = wndUnused k :=
  fun fr hfr => (ackFrs_mem _ _ _ _ _ _ _ _ fr hfr).2.2.1

/-! ### events that leave both links' ghosts alone -/

theorem win_tick {p : Par} {s : State} {gba : GLink} (w : Win p s gba) : Win p { s with now := s.now + 1 } gba :=
  ⟨w.wc, w.wAu, w.wA, w.wR, w.wB, w.wU, w.wS⟩

theorem win_send {p : Par} {s : State} {gba : GLink} (w : Win p s gba) (b : Bytes) : Win p (Sys.step s (.send b)) gba := by
  have hq := Frame.send_k s.A b
  have e1 : (s.A.send b).k.snd_una = s.A.snd_una := by rw [hq]
  have e2 : (s.A.send b).k.snd_nxt = s.A.snd_nxt := by rw [hq]
  have e3 : (s.A.send b).k.snd_buf = s.A.snd_buf := by rw [hq]
  have e4 : (s.A.send b).k.snd_wnd = s.A.snd_wnd := by rw [hq]
  have e5 : (s.A.send b).k.rmt_wnd = s.A.rmt_wnd := by rw [hq]
  show Win p { s with A := (s.A.send b).k, panic := s.panic || (s.A.send b).panic } gba
  constructor
  · show Contig p.base (s.A.send b).k
    unfold Contig; rw [e1, e2, e3]; exact w.wc
  · show o p.base (s.A.send b).k.snd_una ≤ _
    rw [e1]; exact w.wAu
  · show o p.base (s.A.send b).k.snd_una + min (s.A.send b).k.snd_wnd.toNat (s.A.send b).k.rmt_wnd.toNat + _ ≤ _
    rw [e1, e4, e5]; exact w.wA
  · show o p.base (s.A.send b).k.snd_nxt + _ ≤ _
    rw [e2]; exact w.wR
  · show ∀ d ∈ gba, ∀ fr ∈ d.2, _ ∧ o p.base (s.A.send b).k.snd_una ≤ _
    rw [e1]; exact w.wB
  · exact w.wU
  · exact w.wS

theorem win_read {p : Par} {s : State} {gab gba : GLink} (h : Clean p s gab gba) (w : Win p s gba) :
    Win p (Sys.step s .read) gba := by
  obtain ⟨q1, q2, q3⟩ := recv_queue_le s.B s.B.peekSize.toNat h.brb
  show Win p (if (s.B.recv s.B.peekSize.toNat).n < 0 then s
    else { s with B := (s.B.recv s.B.peekSize.toNat).k, got := s.got ++ (s.B.recv s.B.peekSize.toNat).data }) gba
  split
  · exact w
  · constructor
    · exact w.wc
    · show _ ≤ o p.base (s.B.recv s.B.peekSize.toNat).k.rcv_nxt
      rw [q2]; exact w.wAu
    · show o p.base s.A.snd_una + min s.A.snd_wnd.toNat s.A.rmt_wnd.toNat +
        (s.B.recv s.B.peekSize.toNat).k.rcv_queue.length ≤ o p.base (s.B.recv s.B.peekSize.toNat).k.rcv_nxt + p.W
      rw [q2]; have := w.wA; omega
    · show o p.base s.A.snd_nxt + (s.B.recv s.B.peekSize.toNat).k.rcv_queue.length ≤
        o p.base (s.B.recv s.B.peekSize.toNat).k.rcv_nxt + p.W
      rw [q2]; have := w.wR; omega
    · show ∀ d ∈ gba, ∀ fr ∈ d.2, o p.base fr.una + fr.wnd.toNat + (s.B.recv s.B.peekSize.toNat).k.rcv_queue.length ≤
        o p.base (s.B.recv s.B.peekSize.toNat).k.rcv_nxt + p.W ∧ o p.base s.A.snd_una ≤ o p.base fr.una
      rw [q2]
      intro d hd fr hfr
      have := w.wB d hd fr hfr
      exact ⟨by omega, this.2⟩
    · exact w.wU
    · exact w.wS

/-! ### A's FULL flush -/

theorem win_flushA {p : Par} {s : State} {gab gba : GLink} (h : Clean p s gab gba) (w : Win p s gba)
    (hnw : NoWrap p.base s) (nf : Nat) : Win p (afterFlushA s nf) gba := by
  have hquiet : ∀ x ∈ s.A.snd_buf, Quiet (clk s.now) x := fun x hx => h.age (h.aseg x hx)
  obtain ⟨m, hm, f1, f2, f3, f4, f5, f6⟩ := flush_clean s.A (clk s.now) h.aq hquiet h.aack
  obtain ⟨pw, tp, st, ss, cw, inc, hk⟩ := flush_frame s.A true (clk s.now)
  unfold NoWrap at hnw
  have hlen : (s.A.snd_queue.take m).length = m := by rw [List.length_take]; omega
  obtain ⟨n1, n2, n3⟩ := stamp_facts p.base s.A (clk s.now) (s.A.snd_queue.take m) s.A.snd_nxt (by rw [hlen]; omega)
  rw [hlen] at n3
  have hl : (stampSegs s.A.conv (clk s.now) s.A.snd_nxt (s.A.snd_queue.take m)).length = m := by
    have := congrArg List.length n3
    simpa using this
  have hnxt : o p.base (s.A.snd_nxt + u32 m) = o p.base s.A.snd_nxt + m := o_add _ _ _ (by omega)
  have e1 : (s.A.flush true (clk s.now)).k.snd_una = s.A.snd_una := by rw [hk]
  have e4 : (s.A.flush true (clk s.now)).k.snd_wnd = s.A.snd_wnd := by rw [hk]
  have e5 : (s.A.flush true (clk s.now)).k.rmt_wnd = s.A.rmt_wnd := by rw [hk]
  have hc := w.wc
  have hrn := h.rn
  have hbw := h.bw
  constructor
  · show Contig p.base (s.A.flush true (clk s.now)).k
    unfold Contig
    rw [e1, f1, f3, hnxt, List.map_append, List.length_append, hc.1, n3, List.length_map, hl]
    constructor
    · rw [← hc.2, List.range'_append_1]
    · have := hc.2; omega
  · show o p.base (s.A.flush true (clk s.now)).k.snd_una ≤ _
    rw [e1]; exact w.wAu
  · show o p.base (s.A.flush true (clk s.now)).k.snd_una +
      min (s.A.flush true (clk s.now)).k.snd_wnd.toNat (s.A.flush true (clk s.now)).k.rmt_wnd.toNat + _ ≤ _
    rw [e1, e4, e5]; exact w.wA
  · show o p.base (s.A.flush true (clk s.now)).k.snd_nxt + s.B.rcv_queue.length ≤ o p.base s.B.rcv_nxt + p.W
    have hb := flush_nxt_bound p.base s.A (clk s.now) (by have := hc.2; omega)
      (by rw [f3, hnxt]; omega) (by rw [f3, hnxt]; omega) (by have := w.wA; omega)
    rcases hb with hb | hb
    · rw [hb]; exact w.wR
    · have := w.wA; omega
  · show ∀ d ∈ gba, ∀ fr ∈ d.2, _ ∧ o p.base (s.A.flush true (clk s.now)).k.snd_una ≤ _
    rw [e1]; exact w.wB
  · exact w.wU
  · exact w.wS

/-! ### B's flush -/

theorem cleanwin_flushB {p : Par} {s : State} {gab gba : GLink} (h : Clean p s gab gba) (w : Win p s gba)
    (full : Bool) (nf : Nat) (hnf : s.now ≤ nf ∧ nf ≤ s.now + p.I) :
    ∃ gba', Clean p (afterFlushB s full nf) gab gba' ∧ Win p (afterFlushB s full nf) gba' := by
  obtain ⟨gba', hc'⟩ := clean_flushB h full nf hnf
  obtain ⟨hfr, pw, tp, st, ss, cw, inc, hk⟩ := flush_empty s.B full (clk s.now) h.bsb h.bsq
  obtain ⟨hpan, hK, hal, hcfg⟩ := Total.flush_total h.bK full (clk s.now)
  obtain ⟨gs, hgs, hfl⟩ := flush_frames s.B full (clk s.now) hpan
  rw [hfr] at hfl
  have hrn : (s.B.flush full (clk s.now)).k.rcv_nxt = s.B.rcv_nxt := by rw [hk]
  have hrq : (s.B.flush full (clk s.now)).k.rcv_queue = s.B.rcv_queue := by rw [hk]
  -- the frames of this flush
  have hnew : ∀ d ∈ gs.map (fun g => (s.now + s.D, g)), ∀ fr ∈ d.2,
      fr.una = s.B.rcv_nxt ∧ fr.wnd = wndUnused s.B ∧ fr.data = [] := by
    intro d hd fr hfr'
    have hin := (groups_mem hd).2 fr hfr'
    rw [hfl] at hin
    rcases List.mem_append.mp hin with hin | hin
    · exact ⟨(ackFrsOf_mem s.B fr hin).2.2.1, ackFrsOf_wnd s.B fr hin, (ackFrsOf_mem s.B fr hin).2.2.2.1⟩
    · exact ⟨(probeFrs_mem s.B (clk s.now) fr hin).2.2.1, probeFrs_wnd s.B (clk s.now) fr hin,
        (probeFrs_mem s.B (clk s.now) fr hin).2.2.2⟩
  -- the ghost of the invariant is this one
  have hghost : gba' = gba ++ gs.map (fun g => (s.now + s.D, g)) := by
    apply encL_inj
    · intro d hd f hf; rw [(hc'.fba d hd f hf).2.1]; simp
    · intro d hd f hf
      rcases List.mem_append.mp hd with hd | hd
      · rw [(h.fba d hd f hf).2.1]; simp
      · rw [(hnew d hd f hf).2.2]; simp
    · rw [← hc'.hba]
      show s.ba ++ stamp (s.now + s.D) (s.B.flush full (clk s.now)).outs = _
      rw [hgs, stamp_groups, encL_append, h.hba]
  refine ⟨gba', hc', ?_⟩
  rw [hghost]
  have hql : s.B.rcv_queue.length ≤ p.W := by have := w.wR; have := h.rn; omega
  constructor
  · exact w.wc
  · show _ ≤ o p.base (s.B.flush full (clk s.now)).k.rcv_nxt
    rw [hrn]; exact w.wAu
  · show _ + (s.B.flush full (clk s.now)).k.rcv_queue.length ≤ o p.base (s.B.flush full (clk s.now)).k.rcv_nxt + _
    rw [hrn, hrq]; exact w.wA
  · show _ + (s.B.flush full (clk s.now)).k.rcv_queue.length ≤ o p.base (s.B.flush full (clk s.now)).k.rcv_nxt + _
    rw [hrn, hrq]; exact w.wR
  · show ∀ d ∈ gba ++ gs.map (fun g => (s.now + s.D, g)), ∀ fr ∈ d.2,
      o p.base fr.una + fr.wnd.toNat + (s.B.flush full (clk s.now)).k.rcv_queue.length ≤
        o p.base (s.B.flush full (clk s.now)).k.rcv_nxt + p.W ∧ o p.base s.A.snd_una ≤ o p.base fr.una
    rw [hrn, hrq]
    intro d hd fr hfr'
    rcases List.mem_append.mp hd with hd | hd
    · exact w.wB d hd fr hfr'
    · obtain ⟨a1, a2, _⟩ := hnew d hd fr hfr'
      rw [a1, a2]
      have := wndUnused_le s.B
      rw [h.bw.1] at this
      exact ⟨by omega, w.wAu⟩
  · intro d hd fr hfr' fr' hfr''
    rcases List.mem_append.mp hd with hd | hd
    · exact w.wU d hd fr hfr' fr' hfr''
    · obtain ⟨a1, a2, _⟩ := hnew d hd fr hfr'
      obtain ⟨b1, b2, _⟩ := hnew d hd fr' hfr''
      exact ⟨by rw [a1, b1], by rw [a2, b2]⟩
  · apply List.pairwise_append.mpr
    refine ⟨w.wS, ?_, ?_⟩
    · apply pairwise_of_all
      intro d hd d' hd' fr hfr' fr' hfr''
      rw [(hnew d hd fr hfr').1, (hnew d' hd' fr' hfr'').1]
      exact Nat.le_refl _
    · intro d hd d' hd' fr hfr' fr' hfr''
      rw [(hnew d' hd' fr' hfr'').1]
      exact (h.fba d hd fr hfr').2.2.2.1

/-! ### B's input of a datagram from A -/

theorem win_inB {p : Par} {s : State} {t0 : Nat} {frs : List Frm} {grest gba : GLink}
    (h : Clean p s ((t0, frs) :: grest) gba) (w : Win p s gba) (hnw : NoWrap p.base s) :
    Win p { s with B := cwndOnAck (inFrs true frs { k := s.B }).k s.B.snd_una, ab := encL grest } gba := by
  have hroom := w.room h
  have hord := h.ord
  rw [allFrs_cons, pushes_append, List.map_append, List.length_append] at hord
  simp only at hord
  have hsplit := range_split (l1 := (pushes frs).map (fun fr => o p.base fr.sn))
    (l2 := (pushes (allFrs grest)).map (fun fr => o p.base fr.sn)) (r := o p.base s.B.rcv_nxt)
    (by simpa using hord.1)
  simp only [List.length_map] at hsplit
  unfold NoWrap at hnw
  have hio : InOrder s.B.rcv_nxt frs := inOrder_of_range p.base frs s.B.rcv_nxt hsplit.1 (by omega)
  have hrm : s.B.rcv_queue.length + (pushes frs).length ≤ s.B.rcv_wnd.toNat := by
    unfold RoomOk at hroom
    rw [o_sub p.base s.B.rcv_nxt s.A.snd_nxt (by omega)] at hroom
    omega
  obtain ⟨rw, su, pr, q, hk, hq, hql, hfs, hur, hpn, hrt⟩ := inFrs_dataLike frs { k := s.B } h.bsb h.brb
    (fun fr hfr => (h.fab (t0, frs) (List.mem_cons_self ..) fr hfr).2) hio hrm (by rw [h.bw.1]; exact h.bw.2) rfl
  obtain ⟨cw, inc, hcw⟩ := cwndOnAck_shape' (inFrs true frs { k := s.B }).k s.B.snd_una
  have hk2 : cwndOnAck (inFrs true frs { k := s.B }).k s.B.snd_una =
      { s.B with rmt_wnd := rw, snd_buf := [], snd_una := su, probe := pr,
                 acklist := s.B.acklist ++ (pushes frs).map (fun fr => ⟨fr.sn, fr.ts⟩), rcv_buf := [],
                 rcv_queue := s.B.rcv_queue ++ q, rcv_nxt := s.B.rcv_nxt + u32 (pushes frs).length,
                 cwnd := cw, incr := inc } := by
    rw [hcw, hk]
  have hrn : o p.base (s.B.rcv_nxt + u32 (pushes frs).length) = o p.base s.B.rcv_nxt + (pushes frs).length :=
    o_add _ _ _ (by omega)
  have e1 : o p.base (cwndOnAck (inFrs true frs { k := s.B }).k s.B.snd_una).rcv_nxt =
      o p.base s.B.rcv_nxt + (pushes frs).length := by rw [hk2]; exact hrn
  have e2 : (cwndOnAck (inFrs true frs { k := s.B }).k s.B.snd_una).rcv_queue.length =
      s.B.rcv_queue.length + (pushes frs).length := by
    rw [hk2]; show (s.B.rcv_queue ++ q).length = _; rw [List.length_append, hq]
  constructor
  · exact w.wc
  · show o p.base s.A.snd_una ≤ o p.base (cwndOnAck (inFrs true frs { k := s.B }).k s.B.snd_una).rcv_nxt
    rw [e1]; have := w.wAu; omega
  · show o p.base s.A.snd_una + min s.A.snd_wnd.toNat s.A.rmt_wnd.toNat + (cwndOnAck (inFrs true frs { k := s.B }).k s.B.snd_una).rcv_queue.length ≤
      o p.base (cwndOnAck (inFrs true frs { k := s.B }).k s.B.snd_una).rcv_nxt + p.W
    rw [e1, e2]; have := w.wA; omega
  · show o p.base s.A.snd_nxt + (cwndOnAck (inFrs true frs { k := s.B }).k s.B.snd_una).rcv_queue.length ≤ o p.base (cwndOnAck (inFrs true frs { k := s.B }).k s.B.snd_una).rcv_nxt + p.W
    rw [e1, e2]; have := w.wR; omega
  · show ∀ d ∈ gba, ∀ fr ∈ d.2, o p.base fr.una + fr.wnd.toNat + (cwndOnAck (inFrs true frs { k := s.B }).k s.B.snd_una).rcv_queue.length ≤
      o p.base (cwndOnAck (inFrs true frs { k := s.B }).k s.B.snd_una).rcv_nxt + p.W ∧ o p.base s.A.snd_una ≤ o p.base fr.una
    rw [e1, e2]
    intro d hd fr hfr
    have := w.wB d hd fr hfr
    exact ⟨by omega, this.2⟩
  · exact w.wU
  · exact w.wS

/-! ### A's input of a datagram from B -/

theorem win_inA {p : Par} {s : State} {t0 : Nat} {frs : List Frm} {gab grest : GLink}
    (h : Clean p s gab ((t0, frs) :: grest)) (w : Win p s ((t0, frs) :: grest)) (hnw : NoWrap p.base s) (k1 : Kcp)
    (hk1 : k1 = (inFrs true frs { k := s.A }).k ∨ ∃ rtt, k1 = updateAck (inFrs true frs { k := s.A }).k rtt)
    (hne : frs ≠ []) :
    Win p { s with A := cwndOnAck k1 s.A.snd_una, ba := encL grest } grest := by
  unfold NoWrap at hnw
  obtain ⟨fr0, rest0, hfrs⟩ := List.exists_cons_of_ne_nil hne
  have hm0 : fr0 ∈ frs := by rw [hfrs]; exact List.mem_cons_self ..
  have hd0 : ((t0, frs) : Nat × List Frm) ∈ (t0, frs) :: grest := List.mem_cons_self ..
  have hall : ∀ fr ∈ frs, AckLike p.base s.A.snd_nxt fr ∧ fr.una = fr0.una ∧ fr.wnd = fr0.wnd := by
    intro fr hfr
    obtain ⟨_, _, e3, e4, e5⟩ := h.fba (t0, frs) hd0 fr hfr
    have := h.ord.2
    exact ⟨⟨e3, by omega, e5⟩, (w.wU (t0, frs) hd0 fr hfr fr0 hm0).1, (w.wU (t0, frs) hd0 fr hfr fr0 hm0).2⟩
  obtain ⟨q1, q2, q3, q4, q5⟩ := inFrs_win p.base fr0.una fr0.wnd frs { k := s.A } hne
    (fun x hx => (h.aseg x hx).1) w.wc
    (w.wB (t0, frs) hd0 fr0 hm0).2 (by show o p.base s.A.snd_nxt < 2 ^ 31; omega) rfl hall
  -- the RTT sample and the cwnd update do not touch these fields
  have hk1s : k1.snd_una = fr0.una ∧ k1.snd_buf = (inFrs true frs { k := s.A }).k.snd_buf ∧ k1.snd_nxt = s.A.snd_nxt ∧
      k1.rmt_wnd = fr0.wnd.setWidth 32 ∧ k1.snd_wnd = s.A.snd_wnd := by
    rcases hk1 with rfl | ⟨rtt, rfl⟩
    · exact ⟨q1, rfl, q4, q3, q5⟩
    · obtain ⟨a, b, r, he⟩ := updateAck_shape' (inFrs true frs { k := s.A }).k rtt
      rw [he]; exact ⟨q1, rfl, q4, q3, q5⟩
  obtain ⟨cw, inc, hcw⟩ := cwndOnAck_shape' k1 s.A.snd_una
  have e1 : (cwndOnAck k1 s.A.snd_una).snd_una = fr0.una := by rw [hcw]; exact hk1s.1
  have e2 : (cwndOnAck k1 s.A.snd_una).snd_buf = (inFrs true frs { k := s.A }).k.snd_buf := by rw [hcw]; exact hk1s.2.1
  have e3 : (cwndOnAck k1 s.A.snd_una).snd_nxt = s.A.snd_nxt := by rw [hcw]; exact hk1s.2.2.1
  have e4 : (cwndOnAck k1 s.A.snd_una).rmt_wnd = fr0.wnd.setWidth 32 := by rw [hcw]; exact hk1s.2.2.2.1
  have e5 : (cwndOnAck k1 s.A.snd_una).snd_wnd = s.A.snd_wnd := by rw [hcw]; exact hk1s.2.2.2.2
  have hwn : (fr0.wnd.setWidth 32).toNat = fr0.wnd.toNat := by
    rw [BitVec.toNat_setWidth]; have := fr0.wnd.isLt; omega
  have hcred := w.wB (t0, frs) hd0 fr0 hm0
  have hS := List.pairwise_cons.mp w.wS
  constructor
  · show Contig p.base (cwndOnAck k1 s.A.snd_una)
    unfold Contig at q2 ⊢
    rw [e1, e2, e3]
    rw [q1, q4] at q2
    exact q2
  · show o p.base (cwndOnAck k1 s.A.snd_una).snd_una ≤ _
    rw [e1]; exact (h.fba (t0, frs) hd0 fr0 hm0).2.2.2.1
  · show o p.base (cwndOnAck k1 s.A.snd_una).snd_una +
      min (cwndOnAck k1 s.A.snd_una).snd_wnd.toNat (cwndOnAck k1 s.A.snd_una).rmt_wnd.toNat + s.B.rcv_queue.length ≤
      o p.base s.B.rcv_nxt + p.W
    rw [e1, e4, e5, hwn]
    have := hcred.1
    omega
  · show o p.base (cwndOnAck k1 s.A.snd_una).snd_nxt + _ ≤ _
    rw [e3]; exact w.wR
  · show ∀ d ∈ grest, ∀ fr ∈ d.2, _ ∧ o p.base (cwndOnAck k1 s.A.snd_una).snd_una ≤ _
    rw [e1]
    intro d hd fr hfr
    exact ⟨(w.wB d (List.mem_cons_of_mem _ hd) fr hfr).1, hS.1 d hd fr0 hm0 fr hfr⟩
  · exact fun d hd => w.wU d (List.mem_cons_of_mem _ hd)
  · exact hS.2

/-- an empty datagram (never produced by a flush with something to say, but not excluded) -/
theorem win_dropA {p : Par} {s : State} {d0 : Nat × List Frm} {grest : GLink} (w : Win p s (d0 :: grest)) :
    Win p { s with ba := encL grest } grest :=
  ⟨w.wc, w.wAu, w.wA, w.wR, fun d hd => w.wB d (List.mem_cons_of_mem _ hd),
    fun d hd => w.wU d (List.mem_cons_of_mem _ hd), (List.pairwise_cons.mp w.wS).2⟩

end KcpVerif.SysC
