/-
C07 over whole histories, part 2: what the decoder holds and emits for ONE group `G`, as a pure
function of the history.  Core Lean only.

* `trackStep` / `track`: the ghost of group `g = G.base / n` — the indices of the distinct packets
  of the group received since its shard set was last (re)created or emptied.  A duplicate changes
  nothing; a new packet is appended, and the list is emptied when it reaches `d` (the recovery block
  pops the whole heap); after every placed packet the list is dropped iff the group is not `alive`
  w.r.t. the new `newestShardId` (`discardShards`).
* `track_decode`: ONE `decode` of ANY genuine packet (of this or another group) moves the shard set
  of `G` exactly as `trackStep` says.  `run_track`: hence after ANY history of genuine packets the
  decoder holds for `G` exactly `(track … hist).map (G.packet C)` — the invariant over whole
  histories that discharges the hypothesis `hset` of `C07_dec_any_k`.
* `decode_out`: what a `decode` call on a packet of `G` returns, from the ghost: the zero-padded
  bodies of the data packets outside `got ++ [j]` iff `j` is new and is the `d`-th, `[]` otherwise.
* `step_out`: both together, for the call at any position of any history.
-/
import KcpVerif.Lemmas.FecHist

namespace KcpVerif.Lemmas.FecHist
open KcpVerif.Fec KcpVerif.Gen KcpVerif.AutoTune KcpVerif.Lemmas.FecSpec KcpVerif.Lemmas.FecDec

/-! ## the ghost of one group -/

/-- one packet `q` arrives; `cur` is the horizon before it, `got` the indices held for group `g` -/
def trackStep (n d : Nat) (g : BitVec 32) (cur : Option (BitVec 32)) (got : List Nat) (q : Bytes) :
    List Nat :=
  if sidOf n q = g then
    if posOf n q ∈ got then got
    else if alive n (nextNewest n cur (sidOf n q)) g then
      (if got.length + 1 ≥ d then [] else got ++ [posOf n q])
    else []
  else if alive n (nextNewest n cur (sidOf n q)) g then got else []

def track (n d : Nat) (g : BitVec 32) : Option (BitVec 32) → List Nat → List Bytes → List Nat
  | _, got, [] => got
  | cur, got, q :: rest =>
    track n d g (some (nextNewest n cur (sidOf n q))) (trackStep n d g cur got q) rest

theorem track_append (n d : Nat) (g : BitVec 32) (a b : List Bytes) :
    ∀ (cur : Option (BitVec 32)) (got : List Nat),
      track n d g cur got (a ++ b)
        = track n d g (curAfter n cur (a.map (sidOf n))) (track n d g cur got a) b := by
  induction a with
  | nil => intro cur got; rfl
  | cons q rest ih =>
    intro cur got
    simp only [List.cons_append, track, List.map_cons, curAfter, List.foldl_cons]
    exact ih _ _

/-- the zero-padded bodies of the data packets of `G` whose index is not in `idxs`, in index order -/
def missing (G : Group) (idxs : List Nat) : List Bytes :=
  (List.range G.d).filterMap
    (fun k => if k ∈ idxs then none else some (pad G.maxLen (G.bodies.getD k [])))

/-- … and their payloads, as the size check of `kcpInput` returns them -/
def missingPayloads (G : Group) (idxs : List Nat) : List (Option Bytes) :=
  (List.range G.d).filterMap
    (fun k => if k ∈ idxs then none else some (some (G.payloads.getD k [])))

theorem missing_trim {G : Group} (hG : G.WF) (idxs : List Nat) :
    (missing G idxs).map trim = missingPayloads G idxs := map_trim_recovered hG idxs

/-- a legal ghost: distinct indices below `n`, fewer than `d` -/
structure Ghost (G : Group) (got : List Nat) : Prop where
  nodup : got.Pairwise (· ≠ ·)
  bound : ∀ i ∈ got, i < G.n
  short : got.length < G.d

theorem Ghost.nil {G : Group} (hG : G.WF) : Ghost G [] :=
  ⟨List.Pairwise.nil, fun _ h => (by cases h), hG.d_pos⟩

/-- the decoder state after a list of packets -/
def run (C : CodecNew) (dec : Decoder) (pkts : List Bytes) : Decoder :=
  pkts.foldl (fun st q => (st.decode C q).st) dec

theorem run_eq_feed (C : CodecNew) (dec : Decoder) (pkts : List Bytes) :
    run C dec pkts = (feed C dec pkts).1 := (feed_fst dec pkts).symm

theorem run_append (C : CodecNew) (dec : Decoder) (a b : List Bytes) :
    run C dec (a ++ b) = run C (run C dec a) b := by
  unfold run; rw [List.foldl_append]

section Step
variable {C : CodecNew}

theorem sidOf_packet {G : Group} (hG : G.WF) (j : Nat) (hj : j < G.n) :
    sidOf G.n (G.packet C j) = G.base / u32 G.n := shardId_packet hG j hj

/-- the shard set of ANY id `g` after one `decode` of a genuine packet of group `G'` -/
theorem held_decode {G' : Group} (hG' : G'.WF) (dec : Decoder) (hM : Matches C G' dec)
    (got' : List Nat) (hb' : ∀ i ∈ got', i < G'.n)
    (hset' : held (G'.base / u32 G'.n) dec = got'.map (G'.packet C)) (j' : Nat) (hj' : j' < G'.n)
    (g : BitVec 32) :
    held g (dec.decode C (G'.packet C j')).st =
      if j' ∈ got' then held g dec
      else if alive G'.n (nextNewest G'.n (horizonOf dec) (G'.base / u32 G'.n)) g then
        (if G'.base / u32 G'.n = g then
          (if got'.length + 1 ≥ G'.d then [] else (got' ++ [j']).map (G'.packet C))
         else held g dec)
      else [] := by
  obtain ⟨hdup, hnew⟩ := decode_sets hG' dec hM got' hb' hset' j' hj'
  by_cases hmem : j' ∈ got'
  · rw [if_pos hmem, (hdup hmem).1]; rfl
  · rw [if_neg hmem]
    obtain ⟨hsets, _⟩ := hnew hmem
    unfold held
    rw [hsets, lookup_discard]
    cases ha : alive G'.n (nextNewest G'.n (horizonOf dec) (G'.base / u32 G'.n)) g with
    | false => simp
    | true =>
      simp only [if_true]
      by_cases hg : G'.base / u32 G'.n = g
      · rw [if_pos hg, ← hg, lookup_store]; rfl
      · rw [if_neg hg, lookup_store_ne g _ hg]

variable {G : Group}

/-- **one step of the history invariant**: `decode` of any genuine packet moves the shard set of
    the tracked group `G` exactly as the ghost says -/
theorem track_decode (grp : Family) (dec : Decoder) (hI : HInv C grp dec) (hG : G.WF)
    (hgrp : grp (G.base / u32 G.n) = some G) (hd : G.d = dec.d) (hp : G.p = dec.p)
    (got : List Nat) (hgh : Ghost G got)
    (hset : held (G.base / u32 G.n) dec = got.map (G.packet C))
    (q : Bytes) (hq : GenuinePkt C grp dec.d dec.p q) :
    held (G.base / u32 G.n) (dec.decode C q).st
      = (trackStep G.n G.d (G.base / u32 G.n) (horizonOf dec) got q).map (G.packet C) ∧
    Ghost G (trackStep G.n G.d (G.base / u32 G.n) (horizonOf dec) got q) := by
  obtain ⟨G', j', hgrp', hG', hd', hp', hj', rfl⟩ := hq
  have hn : G'.n = G.n := by unfold Group.n; rw [hd', hp', hd, hp]
  have hM' : Matches C G' dec := hI.steady.matches (hd'.trans rfl) (hp'.trans rfl)
  by_cases hg : G'.base / u32 G'.n = G.base / u32 G.n
  · -- a packet of the tracked group itself
    have hGG : G' = G := by
      rw [hg, hgrp] at hgrp'
      exact (Option.some.inj hgrp').symm
    subst hGG
    have hh := held_decode hG' dec hM' got hgh.bound hset j' hj' (G'.base / u32 G'.n)
    have hsid := sidOf_packet (C := C) hG' j' hj'
    have hpos := posOf_packet (C := C) hG' j' hj'
    unfold trackStep
    rw [hsid, hpos, if_pos rfl]
    by_cases hmem : j' ∈ got
    · rw [if_pos hmem] at hh ⊢
      exact ⟨hh.trans hset, hgh⟩
    · rw [if_neg hmem] at hh ⊢
      cases ha : alive G'.n (nextNewest G'.n (horizonOf dec) (G'.base / u32 G'.n)) (G'.base / u32 G'.n) with
      | false =>
        rw [ha] at hh
        exact ⟨by simpa using hh, Ghost.nil hG'⟩
      | true =>
        rw [ha] at hh
        simp only [if_true] at hh ⊢
        by_cases hfull : got.length + 1 ≥ G'.d
        · rw [if_pos hfull] at hh ⊢
          exact ⟨by simpa using hh, Ghost.nil hG'⟩
        · rw [if_neg hfull] at hh ⊢
          refine ⟨hh, pairwise_snoc got hgh.nodup j' hmem, bounded_snoc got hgh.bound j' hj', ?_⟩
          simp only [List.length_append, List.length_singleton]; omega
  · -- a packet of another group
    obtain ⟨got', _, hb', _, hset'⟩ := held_genuine grp dec hI.genuine hG' hgrp'
    have hh := held_decode hG' dec hM' got' hb' hset' j' hj' (G.base / u32 G.n)
    have hsid := sidOf_packet (C := C) hG' j' hj'
    rw [hn] at hh hsid hg
    unfold trackStep
    rw [hsid, if_neg hg]
    by_cases hmem : j' ∈ got'
    · -- a duplicate: nothing moves, and the tracked set (if non-empty) is alive
      rw [if_pos hmem] at hh
      obtain ⟨hst, hne⟩ := (decode_sets hG' dec hM' got' hb' hset' j' hj').1 hmem
      have hhor := (hinv_decode grp dec hI hG' hgrp' (hd'.trans rfl) (hp'.trans rfl) j' hj').2
      rw [hst, hn] at hhor
      have hhor' : horizonOf dec = some dec.newest := by
        unfold horizonOf
        cases he : dec.sets.isEmpty with
        | true => exact absurd (List.isEmpty_iff.1 he) hne
        | false => rfl
      have hnw : nextNewest G.n (horizonOf dec) (G'.base / u32 G.n) = dec.newest := by
        have h1 : horizonOf (sampled dec (G'.packet C j')) = horizonOf dec := rfl
        rw [h1] at hhor
        rw [hhor'] at hhor ⊢
        exact (Option.some.inj hhor).symm
      rw [hnw]
      cases hgot : got with
      | nil =>
        refine ⟨?_, by simpa using Ghost.nil hG⟩
        rw [hh, hset, hgot]; simp
      | cons a l =>
        have hex : ∃ s ∈ dec.sets, s.id = G.base / u32 G.n := by
          unfold held at hset
          cases hl : lookup (G.base / u32 G.n) dec.sets with
          | none => rw [hl, hgot] at hset; simp at hset
          | some s => exact ⟨s, (lookup_some _ _ _ hl).1, (lookup_some _ _ _ hl).2⟩
        obtain ⟨s, hs, hid⟩ := hex
        have hal := hI.alive s hs
        rw [hM'.n, hid, hn] at hal
        rw [hal, if_pos rfl, ← hgot]
        exact ⟨hh.trans hset, hgh⟩
    · rw [if_neg hmem, if_neg hg] at hh
      cases ha : alive G.n (nextNewest G.n (horizonOf dec) (G'.base / u32 G.n)) (G.base / u32 G.n) with
      | false =>
        rw [ha] at hh
        exact ⟨by simpa using hh, Ghost.nil hG⟩
      | true =>
        rw [ha] at hh
        simp only [if_true] at hh ⊢
        exact ⟨hh.trans hset, hgh⟩

/-- what a `decode` call on packet `j` of the tracked group returns, from the ghost -/
theorem decode_out (hC : Lawful C) (dec : Decoder) (hM : Matches C G dec) (hG : G.WF)
    (got : List Nat) (hgh : Ghost G got)
    (hset : held (G.base / u32 G.n) dec = got.map (G.packet C)) (j : Nat) (hj : j < G.n) :
    (dec.decode C (G.packet C j)).recovered
      = (if j ∉ got ∧ got.length + 1 = G.d then missing G (got ++ [j]) else []) ∧
    (dec.decode C (G.packet C j)).panic = false := by
  by_cases hmem : j ∈ got
  · rw [if_neg (fun h => h.1 hmem)]
    exact ⟨(decode_duplicate hG dec hM got hgh.bound hset j hj hmem).1,
      (decode_duplicate hG dec hM got hgh.bound hset j hj hmem).2.1⟩
  · by_cases hlen : got.length + 1 = G.d
    · rw [if_pos ⟨hmem, hlen⟩]
      exact decode_completes hC hG dec hM got hgh.nodup hgh.bound hset hlen j hj hmem
    · rw [if_neg (fun h => hlen h.2)]
      have hlt : got.length + 1 < G.d := by have := hgh.short; omega
      exact decode_incomplete hC hG dec hM got hgh.bound hset hlt j hj hmem

end Step

/-! ## whole histories -/

section Hist
variable {C : CodecNew} {G : Group}

/-- **the invariant over whole histories.**  From any state satisfying `HInv`, after ANY list of
    genuine packets of the decoder's ratio (any groups, order, duplicates, late arrivals, wrap):
    `HInv` still holds, the ratio is unchanged, the horizon is `curAfter` of the shard ids, and the
    decoder holds for `G` exactly the packets the ghost lists. -/
theorem run_track (grp : Family) (hG : G.WF) (hgrp : grp (G.base / u32 G.n) = some G) :
    ∀ (hist : List Bytes) (dec : Decoder) (got : List Nat), HInv C grp dec → G.d = dec.d →
      G.p = dec.p → Ghost G got → held (G.base / u32 G.n) dec = got.map (G.packet C) →
      (∀ q ∈ hist, GenuinePkt C grp G.d G.p q) →
      HInv C grp (run C dec hist) ∧ G.d = (run C dec hist).d ∧ G.p = (run C dec hist).p ∧
      horizonOf (run C dec hist) = curAfter G.n (horizonOf dec) (hist.map (sidOf G.n)) ∧
      held (G.base / u32 G.n) (run C dec hist)
        = (track G.n G.d (G.base / u32 G.n) (horizonOf dec) got hist).map (G.packet C) ∧
      Ghost G (track G.n G.d (G.base / u32 G.n) (horizonOf dec) got hist) := by
  intro hist
  induction hist with
  | nil => intro dec got hI hd hp hgh hset _; exact ⟨hI, hd, hp, rfl, hset, hgh⟩
  | cons q rest ih =>
    intro dec got hI hd hp hgh hset hgen
    have hq := hgen q (List.mem_cons_self ..)
    have hq' : GenuinePkt C grp dec.d dec.p q := by rw [← hd, ← hp]; exact hq
    obtain ⟨hT, hgh'⟩ := track_decode grp dec hI hG hgrp hd hp got hgh hset q hq'
    obtain ⟨G', j', hgrp', hG', hd', hp', hj', rfl⟩ := hq
    have hn : G'.n = G.n := by unfold Group.n; rw [hd', hp']
    have hst := decode_fields hG' dec hI.steady (hd'.trans hd) (hp'.trans hp) j' hj'
    obtain ⟨hI', hhor⟩ := hinv_decode grp dec hI hG' hgrp' (hd'.trans hd) (hp'.trans hp) j' hj'
    have hsid := sidOf_packet (C := C) hG' j' hj'
    rw [hn] at hhor hsid
    have := ih (dec.decode C (G'.packet C j')).st _ hI' (hd.trans hst.1.symm) (hp.trans hst.2.1.symm)
      hgh' hT (fun q hq => hgen q (List.mem_cons_of_mem _ hq))
    rw [hhor, ← hsid] at this
    exact this

/-- **the decode call at any position of any history**: after the genuine packets `a`, the call on
    packet `j` of `G` returns the absent data packets iff `j` is a new packet of the group's current
    shard set and its `d`-th; nothing otherwise; it never panics. -/
theorem step_out (hC : Lawful C) (grp : Family) (hG : G.WF) (hgrp : grp (G.base / u32 G.n) = some G)
    (dec : Decoder) (got : List Nat) (hI : HInv C grp dec) (hd : G.d = dec.d) (hp : G.p = dec.p)
    (hgh : Ghost G got) (hset : held (G.base / u32 G.n) dec = got.map (G.packet C))
    (a : List Bytes) (hgen : ∀ q ∈ a, GenuinePkt C grp G.d G.p q) (j : Nat) (hj : j < G.n) :
    ((run C dec a).decode C (G.packet C j)).recovered
      = (if j ∉ track G.n G.d (G.base / u32 G.n) (horizonOf dec) got a ∧
            (track G.n G.d (G.base / u32 G.n) (horizonOf dec) got a).length + 1 = G.d
         then missing G (track G.n G.d (G.base / u32 G.n) (horizonOf dec) got a ++ [j]) else []) ∧
    ((run C dec a).decode C (G.packet C j)).panic = false := by
  obtain ⟨hI', hd', hp', _, hT, hgh'⟩ := run_track grp hG hgrp a dec got hI hd hp hgh hset hgen
  exact decode_out hC _ (hI'.steady.matches hd' hp') hG _ hgh' hT j hj

end Hist

end KcpVerif.Lemmas.FecHist
