/-
Phase A of the progress step of C02 with its deadline (repaired model, arbitrary consistent states):
no `Input` touches the timer or the transmission count of a segment that stays in the send buffer
(`Keeps`), the head of the send buffer is never flagged (`Live.LiveInv`, Lemmas/KcpHead.lean), so the
head segment is retransmitted by the first flush at or after its `resendts`, and A flushes at least
every `interval_A` milliseconds.
-/
import KcpVerif.Lemmas.SysDrainReturn2
import KcpVerif.Lemmas.KcpHead

namespace KcpVerif.SysC
open KcpVerif KcpVerif.Gen KcpVerif.Kcp KcpVerif.Live KcpVerif.Wire KcpVerif.SysW KcpVerif.Sys

/-- every segment of `l'` is a segment of `l` with the same number, timer and transmission count -/
def Keeps (l l' : List Seg) : Prop :=
  ∀ x' ∈ l', ∃ x ∈ l, x'.sn = x.sn ∧ x'.resendts = x.resendts ∧ x'.xmit = x.xmit

theorem Keeps.refl (l : List Seg) : Keeps l l := fun x hx => ⟨x, hx, rfl, rfl, rfl⟩

theorem Keeps.trans {a b c : List Seg} (h1 : Keeps a b) (h2 : Keeps b c) : Keeps a c := by
  intro z hz
  obtain ⟨y, hy, e1, e2, e3⟩ := h2 z hz
  obtain ⟨x, hx, f1, f2, f3⟩ := h1 y hy
  exact ⟨x, hx, e1.trans f1, e2.trans f2, e3.trans f3⟩

theorem Keeps.of_subset {a b : List Seg} (h : ∀ x ∈ b, x ∈ a) : Keeps a b := fun x hx => ⟨x, h x hx, rfl, rfl, rfl⟩

theorem ackLoop_keeps (sn : U32) : ∀ l, Keeps l (ackLoop sn l) := by
  intro l
  induction l with
  | nil => intro x hx; simp [ackLoop] at hx
  | cons s rest ih =>
    unfold ackLoop
    split
    · intro x hx
      rcases List.mem_cons.mp hx with rfl | hx
      · exact ⟨s, List.mem_cons_self .., rfl, rfl, rfl⟩
      · exact ⟨x, List.mem_cons_of_mem _ hx, rfl, rfl, rfl⟩
    · split
      · exact Keeps.refl _
      · intro x hx
        rcases List.mem_cons.mp hx with rfl | hx
        · exact ⟨x, List.mem_cons_self .., rfl, rfl, rfl⟩
        · obtain ⟨y, hy, r⟩ := ih x hx
          exact ⟨y, List.mem_cons_of_mem _ hy, r⟩

theorem fastLoop_keeps (sn ts fr : U32) : ∀ l, Keeps l (fastLoop sn ts fr l).buf := by
  intro l
  induction l with
  | nil => intro x hx; simp [fastLoop] at hx
  | cons s rest ih =>
    unfold fastLoop
    split
    · exact Keeps.refl _
    · split
      · intro x hx
        rcases List.mem_cons.mp hx with rfl | hx
        · exact ⟨s, List.mem_cons_self .., rfl, rfl, rfl⟩
        · obtain ⟨y, hy, r⟩ := ih x hx
          exact ⟨y, List.mem_cons_of_mem _ hy, r⟩
      · intro x hx
        rcases List.mem_cons.mp hx with rfl | hx
        · exact ⟨x, List.mem_cons_self .., rfl, rfl, rfl⟩
        · obtain ⟨y, hy, r⟩ := ih x hx
          exact ⟨y, List.mem_cons_of_mem _ hy, r⟩

theorem dropAcked_subset (l : List Seg) : ∀ x ∈ dropAcked l, x ∈ l := by
  obtain ⟨n, _, e, _⟩ := dropAcked_drop l
  rw [e]; exact fun x hx => List.mem_of_mem_drop hx

theorem shrinkBuf_keeps (k : Kcp) : Keeps k.snd_buf (shrinkBuf k).snd_buf := by
  rw [shrinkBuf_eq]; exact Keeps.of_subset (dropAcked_subset _)

theorem parseAck_keeps (k : Kcp) (sn : U32) : Keeps k.snd_buf (parseAck k sn).snd_buf := by
  unfold parseAck
  split
  · exact Keeps.refl _
  · exact ackLoop_keeps sn _

theorem parseFastack_keeps (k : Kcp) (sn ts : U32) : Keeps k.snd_buf (parseFastack k sn ts).1.snd_buf := by
  unfold parseFastack
  split
  · exact Keeps.refl _
  · exact fastLoop_keeps sn ts _ _

theorem inPre_keeps (w : BitVec 16) (u : U32) (k : Kcp) : Keeps k.snd_buf (inPre true w u k).snd_buf := by
  have hP : inPre true w u k = shrinkBuf { ({ k with rmt_wnd := w.setWidth 32 } : Kcp) with
      snd_buf := k.snd_buf.drop (unaCount u k.snd_buf) } := rfl
  rw [hP]
  have h1 : Keeps k.snd_buf (k.snd_buf.drop (unaCount u k.snd_buf)) := Keeps.of_subset (fun x hx => List.mem_of_mem_drop hx)
  exact h1.trans (shrinkBuf_keeps _)

/-- one ACK / WASK / WINS frame: whatever stays in the send buffer keeps its timer and its count -/
theorem inFr_keeps (st : InLoop) (fr : Frm)
    (hcmd : fr.cmd.toNat = IKCP_CMD_ACK ∨ fr.cmd.toNat = IKCP_CMD_WASK ∨ fr.cmd.toNat = IKCP_CMD_WINS) :
    Keeps st.k.snd_buf (inFr true st fr).k.snd_buf := by
  have hk : (inFr true st fr).k =
      if fr.cmd.toNat = IKCP_CMD_ACK then
        (parseFastack (shrinkBuf (parseAck (inPre true fr.wnd fr.una st.k) fr.sn)) fr.sn fr.ts).1
      else if fr.cmd.toNat = IKCP_CMD_WASK then
        { inPre true fr.wnd fr.una st.k with probe := (inPre true fr.wnd fr.una st.k).probe ||| u32 IKCP_ASK_TELL }
      else inPre true fr.wnd fr.una st.k := by
    unfold inFr
    rw [inStep_k]
    by_cases hA : fr.cmd.toNat = IKCP_CMD_ACK
    · rw [if_pos hA, if_pos hA]
    · have hP' : ¬ fr.cmd.toNat = IKCP_CMD_PUSH := by
        unfold IKCP_CMD_PUSH; unfold IKCP_CMD_ACK IKCP_CMD_WASK IKCP_CMD_WINS at hcmd; omega
      rw [if_neg hA, if_neg hP', if_neg hA]
  rw [hk]
  have h0 := inPre_keeps fr.wnd fr.una st.k
  split
  · exact ((h0.trans (parseAck_keeps _ _)).trans (shrinkBuf_keeps _)).trans (parseFastack_keeps _ _ _)
  · split
    · exact h0
    · exact h0

theorem inFrs_keeps (frs : List Frm) : ∀ (st : InLoop),
    (∀ fr ∈ frs, fr.cmd.toNat = IKCP_CMD_ACK ∨ fr.cmd.toNat = IKCP_CMD_WASK ∨ fr.cmd.toNat = IKCP_CMD_WINS) →
    Keeps st.k.snd_buf (inFrs true frs st).k.snd_buf := by
  induction frs with
  | nil => intro st _; exact Keeps.refl _
  | cons fr rest ih =>
    intro st h
    have h1 := inFr_keeps st fr (h fr (List.mem_cons_self ..))
    unfold inFrs
    split
    · exact h1
    · exact h1.trans (ih _ (fun x hx => h x (List.mem_cons_of_mem _ hx)))

theorem inA_buf (st : InLoop) (k1 : Kcp) (hk1 : k1 = st.k ∨ ∃ rtt, k1 = updateAck st.k rtt) (u : U32) :
    (cwndOnAck k1 u).snd_buf = st.k.snd_buf ∧ (cwndOnAck k1 u).interval = st.k.interval := by
  obtain ⟨cw, inc, hcw⟩ := cwndOnAck_shape' k1 u
  rw [hcw]
  rcases hk1 with rfl | ⟨rtt, rfl⟩
  · exact ⟨rfl, rfl⟩
  · obtain ⟨a, b, r, he⟩ := updateAck_shape' st.k rtt
    rw [he]; exact ⟨rfl, rfl⟩

/-- in a contiguous buffer the head is the only segment with its number -/
theorem Contig.head_unique {base : U32} {k : Kcp} (hc : Contig base k) {x y : Seg} {rest : List Seg}
    (hb : k.snd_buf = x :: rest) (hy : y ∈ k.snd_buf) (hs : y.sn = x.sn) : y = x := by
  rw [hb] at hy
  rcases List.mem_cons.mp hy with h | h
  · exact h
  · exfalso
    have h1 := hc.1
    rw [hb] at h1
    simp only [List.map_cons, List.length_cons, List.range'_succ, List.cons.injEq] at h1
    have hm : o base y.sn ∈ rest.map (fun x => o base x.sn) := List.mem_map.mpr ⟨y, h, rfl⟩
    rw [h1.2] at hm
    have := List.mem_range'_1.mp hm
    rw [hs] at this
    omega

end KcpVerif.SysC
