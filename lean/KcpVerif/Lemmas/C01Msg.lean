/-
Message-mode composition for C01: the invariants behind `C01_core_msg`.

* writer: in message mode (`stream = 0`) the list of messages `Send` has accepted (`accM`) is the
  grouping of `L ++ snd_queue` at the `frg = 0` boundaries (`InvM`);
* reader: the list of byte strings returned by `Recv` (`got`) is the grouping of the delivered
  contents `dl`, which end on a boundary (`InvMB`);
* system: the reader has never accepted more segments than the writer has numbered (`rcv_le_log`).

The facts about `Kcp.send` used here are proved from the mirror `send_eq` (a refused `Send`, −2,
takes nothing: finding F2, repaired).
-/
import KcpVerif.Lemmas.C01Grp

namespace KcpVerif.C01
open KcpVerif KcpVerif.Gen KcpVerif.Kcp KcpVerif.Frame KcpVerif.Recv KcpVerif.Send KcpVerif.Wire

/-! ### `Send` in message mode -/

theorem sendExt_msg (k : Kcp) (buf : Bytes) (hs : k.stream = 0) : sendExt k buf = 0 := by
  unfold sendExt; simp [hs]

theorem sendQ1_msg (k : Kcp) (buf : Bytes) (hs : k.stream = 0) : sendQ1 k buf = k.snd_queue := by
  unfold sendQ1; rw [sendExt_msg k buf hs]; simp

theorem sendRest_msg (k : Kcp) (buf : Bytes) (hs : k.stream = 0) : sendRest k buf = buf := by
  unfold sendRest; rw [sendExt_msg k buf hs]; rfl

/-- `Send` in message mode: either the call is accepted (0) and appends the fragments of `buf`,
numbered `c … 0` with `c < 255`, or it is refused and the queue is untouched -/
theorem send_msg (k : Kcp) (buf : Bytes) (hs : k.stream = 0) (hm : 0 < k.mss.toNat)
    (hp : (send k buf).panic = false) :
    ((send k buf).ret = 0 ∧ ∃ (new : List Seg) (c : Nat), (send k buf).k.snd_queue = k.snd_queue ++ new ∧
        c < 255 ∧ frgs new = cd (c + 1) ∧ qbytes new = buf) ∨
    ((send k buf).ret ≠ 0 ∧ (send k buf).k.snd_queue = k.snd_queue) := by
  have hse := send_eq k buf
  by_cases c0 : buf.length = 0
  · rw [if_pos c0] at hse
    rw [hse]; right
    exact ⟨show (-1 : Int) ≠ 0 by decide, rfl⟩
  · rw [if_neg c0] at hse
    by_cases c3 : sendCount k buf > 255
    · rw [if_pos c3] at hse
      rw [hse]; right
      exact ⟨show (-2 : Int) ≠ 0 by decide, rfl⟩
    · rw [if_neg c3] at hse
      by_cases c1 : sendPanic1 k buf = true
      · rw [if_pos c1] at hse; rw [hse] at hp; cases hp
      · rw [if_neg c1] at hse
        have c2 : ¬ (k.stream ≠ 0 ∧ (sendRest k buf).length = 0) := fun h => h.1 hs
        rw [if_neg c2] at hse
        by_cases c4 : min (sendRest k buf).length k.mss.toNat > mtuLimit
        · rw [if_pos c4] at hse; rw [hse] at hp; cases hp
        · rw [if_neg c4] at hse
          rw [hse]; left
          refine ⟨rfl, sendNew k buf, (if sendCount k buf = 0 then 1 else sendCount k buf) - 1, ?_, ?_, ?_, ?_⟩
          · show sendQ1 k buf ++ sendNew k buf = _
            rw [sendQ1_msg k buf hs]
          · split <;> omega
          · unfold sendNew
            rw [mkSegs_frgs]
            have : (decide (k.stream ≠ 0)) = false := by simp [hs]
            rw [this]
            simp only [Bool.false_eq_true, ↓reduceIte]
            congr 1
            split <;> omega
          · rw [sendNew_bytes k buf hm, sendRest_msg k buf hs]

/-! ### configuration fields under the remaining operations -/

theorem setMtu_stream (k : Kcp) (mtu : Int) : (setMtu k mtu).1.stream = k.stream := by
  unfold setMtu
  repeat' split
  all_goals rfl

theorem noDelay_cfg (k : Kcp) (a b c d : Int) : Cfg k (noDelay k a b c d) := by
  unfold noDelay; simp only []
  repeat' split
  all_goals exact ⟨rfl, rfl⟩

theorem wndSize_cfg (k : Kcp) (a b : Int) : Cfg k (wndSize k a b) := by
  unfold wndSize; simp only []
  repeat' split
  all_goals exact ⟨rfl, rfl⟩

/-! ### the writer's invariant -/

theorem closed_of_countOk : ∀ (l : List Content), CountOkF (l.map (·.1)) → Closed l
  | [], _ => Closed.nil
  | [x], h => by
    intro y hy
    have : x = y := by simpa using hy
    rw [← this]; exact h
  | x :: y :: r, h => by
    have ih := closed_of_countOk (y :: r) h.2.2
    intro z hz
    exact ih z (by simpa [List.getLast?_cons_cons] using hz)

/-- message mode, `mss > 0`, and the accepted messages are the grouping of numbered ++ queued -/
structure InvM0 (s : GSt) : Prop where
  st  : s.k.stream = 0
  mss : 0 < s.k.mss.toNat
  acc : s.accM = grp (s.log ++ s.k.snd_queue.map content)

theorem invM0_flushLike (s : GSt) (k' : Kcp) (outs : List Bytes) (h : InvM0 s) (hc : Cfg s.k k')
    (hq : ∃ j, j ≤ s.k.snd_queue.length ∧ k'.snd_queue = s.k.snd_queue.drop j) :
    InvM0 { s with k := k', log := s.log ++ admitted s.k k', wire := s.wire ++ outs } := by
  obtain ⟨j, hj, hq⟩ := hq
  refine ⟨by show k'.stream = 0; rw [hc.stream]; exact h.st,
    by show 0 < k'.mss.toNat; rw [hc.mss]; exact h.mss, ?_⟩
  show s.accM = grp ((s.log ++ admitted s.k k') ++ k'.snd_queue.map content)
  rw [pending_eq s.log s.k k' j hj hq]; exact h.acc

theorem invM0_same (s : GSt) (k' : Kcp) (h : InvM0 s) (hs : k'.stream = s.k.stream) (hm : 0 < k'.mss.toNat)
    (hq : k'.snd_queue = s.k.snd_queue) : InvM0 { s with k := k' } :=
  ⟨by show k'.stream = 0; rw [hs]; exact h.st, hm,
   by show s.accM = grp (s.log ++ k'.snd_queue.map content); rw [hq]; exact h.acc⟩

theorem step_invM0 {s : GSt} (h : InvM0 s) (hc : CountOkF (pendFrgs s)) (op : Op) : InvM0 (step s op) := by
  unfold step
  by_cases hd : s.dead = true
  · rw [if_pos hd]; exact h
  · rw [if_neg hd]
    cases op with
    | send buf =>
      simp only []
      split
      · exact ⟨h.st, h.mss, h.acc⟩
      · rename_i hp
        have hk := send_k s.k buf
        refine ⟨by show (send s.k buf).k.stream = 0; rw [hk]; exact h.st,
          by show 0 < (send s.k buf).k.mss.toNat; rw [hk]; exact h.mss, ?_⟩
        show (if (send s.k buf).ret = 0 then s.accM ++ [buf] else s.accM) =
          grp (s.log ++ (send s.k buf).k.snd_queue.map content)
        rcases send_msg s.k buf h.st h.mss (by simpa using hp) with ⟨hr, new, c, hq, hc255, hf, hb⟩ | ⟨hr, hq⟩
        · rw [if_pos hr, hq, List.map_append, ← List.append_assoc]
          have hcl : Closed (s.log ++ s.k.snd_queue.map content) := closed_of_countOk _ hc
          rw [grp_append _ _ hcl, ← h.acc]
          have hmap : (new.map content).map (·.1) = cd (c + 1) := by
            rw [← hf]; unfold frgs content; simp [List.map_map, Function.comp_def]
          have hg := (grpAux_cd c (new.map content) [] hc255 hmap).1
          have hbb : bytesOf (new.map content) = buf := hb
          unfold grp
          rw [hg, hbb]; rfl
        · rw [if_neg hr, hq]; exact h.acc
    | recv buflen =>
      simp only []
      split
      · exact h
      · have hs := recv_sndSame s.k buflen
        exact ⟨by show (recv s.k buflen).k.stream = 0; rw [hs.stream]; exact h.st,
          by show 0 < (recv s.k buflen).k.mss.toNat; rw [hs.mss]; exact h.mss,
          by show s.accM = grp (s.log ++ (recv s.k buflen).k.snd_queue.map content); rw [hs.snd_queue]; exact h.acc⟩
    | input data regular ackNoDelay now =>
      simp only []
      split
      · exact ⟨h.st, h.mss, h.acc⟩
      · exact invM0_flushLike s _ _ h (input_cfg _ _ _ _ _) (input_queue _ _ _ _ _)
    | flush full now =>
      simp only []
      split
      · exact ⟨h.st, h.mss, h.acc⟩
      · exact invM0_flushLike s _ _ h ⟨(flush_keep _ _ _).mss, (flush_keep _ _ _).stream⟩ (flush_queue _ _ _)
    | update now =>
      simp only []
      split
      · exact ⟨h.st, h.mss, h.acc⟩
      · exact invM0_flushLike s _ _ h ⟨(update_keep _ _).mss, (update_keep _ _).stream⟩ (update_queue _ _)
    | setMtu mtu =>
      exact invM0_same s _ h (setMtu_stream _ _) (setMtu_mss _ _ h.mss) (setMtu_sndQ _ _).snd_queue
    | noDelay a b c d =>
      exact invM0_same s _ h (noDelay_cfg _ _ _ _ _).stream (by rw [(noDelay_cfg _ _ _ _ _).mss]; exact h.mss)
        (noDelay_sndQ _ _ _ _ _).snd_queue
    | wndSize a b =>
      exact invM0_same s _ h (wndSize_cfg _ _ _).stream (by rw [(wndSize_cfg _ _ _).mss]; exact h.mss)
        (wndSize_sndQ _ _ _).snd_queue

/-- the writer's message-mode invariant: `InvM0` and the countdown invariant of `KcpFrg` -/
structure InvM (s : GSt) : Prop where
  m0  : InvM0 s
  cnt : CountOkF (pendFrgs s)

theorem step_invM {s : GSt} (h : InvM s) (op : Op) : InvM (step s op) :=
  ⟨step_invM0 h.m0 h.cnt op, step_countOk h.cnt op⟩

theorem fresh_invM (k : Kcp) (hf : Fresh k) (hm : 0 < k.mss.toNat) (hs : k.stream = 0) : InvM { k := k } :=
  ⟨⟨hs, hm, by simp [hf.sq, grp, grpAux]⟩, fresh_countOk k hf⟩

/-! ### the reader's invariant -/

/-- the strings returned by `Recv` are the messages of the delivered contents, which end on a
message boundary -/
structure InvMB (s : GSt) : Prop where
  got : s.got = grp s.dl
  cl  : Closed s.dl

theorem step_invMB {G : U32 → Content} {sn0 conv : U32} {s : GSt} {n : Nat}
    (hr : InvRG G sn0 conv s n) (hf : FrgOk G sn0 n) (h : InvMB s) (op : Op) : InvMB (step s op) := by
  unfold step
  by_cases hd : s.dead = true
  · rw [if_pos hd]; exact h
  · rw [if_neg hd]
    cases op with
    | send buf => simp only []; split <;> exact ⟨h.got, h.cl⟩
    | recv buflen =>
      simp only []
      split
      · exact h
      · rename_i hn
        have hok : 0 ≤ (recv s.k buflen).n := by omega
        obtain ⟨j, hj1, hjn, hpc, _, hdata, _, _, hz⟩ := recv_msg hr.inv hf buflen hok
        have hcnt := hr.inv.count
        have hjl : j - 1 < s.k.rcv_queue.length := by omega
        have hex : ∃ x ∈ s.k.rcv_queue, x.frg = 0 := by
          refine ⟨s.k.rcv_queue[j - 1], List.getElem_mem hjl, ?_⟩
          have hg := (hr.inv.queue_get (j - 1) _ (List.getElem?_eq_getElem hjl)).1
          have e : s.dl.length + j - 1 = s.dl.length + (j - 1) := by omega
          rw [e, ← hg] at hz
          exact hz
        obtain ⟨hg, hcl, hne⟩ := grpAux_pop s.k.rcv_queue [] hex
        refine ⟨?_, ?_⟩
        · show s.got ++ [(recv s.k buflen).data] =
            grp (s.dl ++ (s.k.rcv_queue.take (popCount s.k.rcv_queue)).map content)
          rw [grp_append _ _ h.cl, ← h.got, hdata, ← hpc]
          unfold grp
          rw [hg]; rfl
        · show Closed (s.dl ++ (s.k.rcv_queue.take (popCount s.k.rcv_queue)).map content)
          exact hcl.append_right hne
    | input data regular ackNoDelay now => simp only []; split <;> exact ⟨h.got, h.cl⟩
    | flush full now => simp only []; split <;> exact ⟨h.got, h.cl⟩
    | update now => simp only []; split <;> exact ⟨h.got, h.cl⟩
    | setMtu mtu => exact ⟨h.got, h.cl⟩
    | noDelay a b c d => exact ⟨h.got, h.cl⟩
    | wndSize a b => exact ⟨h.got, h.cl⟩

/-! ### the reader never runs ahead of the writer -/

theorem gRange_get (G : U32 → Content) (sn0 : U32) (n i : Nat) (hi : i < n) :
    (gRange G sn0 n)[i]? = some (G (sn0 + BitVec.ofNat 32 i)) := by
  unfold gRange
  rw [List.getElem?_map, List.getElem?_range hi]; rfl

/-- a content function that agrees with the log reproduces every prefix of the log -/
theorem gRange_agree {G : U32 → Content} {sn0 : U32} {L : List Content} (hG : Agree G sn0 L) (n : Nat)
    (hn : n ≤ L.length) : gRange G sn0 n = L.take n := by
  apply List.ext_getElem?
  intro i
  by_cases hi : i < n
  · have hl : i < L.length := by omega
    rw [gRange_get G sn0 n i hi, List.getElem?_take, if_pos hi, List.getElem?_eq_getElem hl]
    exact congrArg some (hG i _ (List.getElem?_eq_getElem hl))
  · rw [List.getElem?_eq_none (by rw [gRange_length]; omega),
      List.getElem?_eq_none (by rw [List.length_take]; omega)]

/-- **The reader cannot have accepted a sequence number the writer has not numbered.**  The
system invariant holds for EVERY content function agreeing with the writer's log; two such functions
that differ at index `|L|` would both have to describe the reader's accepted prefix. -/
theorem rcv_le_log {sn0 conv : U32} {s : Sys} (h : SysInv sn0 conv s) (hL : s.A.log.length < 2 ^ 32)
    {G : U32 → Content} {n : Nat} (hG : Agree G sn0 s.A.log) (hn : InvRG G sn0 conv s.B n) :
    n ≤ s.A.log.length := by
  apply Classical.byContradiction
  intro hlt
  have hlt : s.A.log.length < n := by omega
  let x : U32 := sn0 + BitVec.ofNat 32 s.A.log.length
  let G' : U32 → Content := fun sn => if sn = x then ((G sn).1 + 1, (G sn).2) else G sn
  have hG' : Agree G' sn0 s.A.log := by
    intro i c hc
    have hi : i < s.A.log.length := by
      rcases Nat.lt_or_ge i s.A.log.length with h2 | h2
      · exact h2
      · rw [List.getElem?_eq_none h2] at hc; cases hc
    have hne : sn0 + BitVec.ofNat 32 i ≠ x := by
      intro heq
      have h1 : BitVec.ofNat 32 i = BitVec.ofNat 32 s.A.log.length := by
        have : sn0 + BitVec.ofNat 32 i = sn0 + BitVec.ofNat 32 s.A.log.length := heq
        bv_omega
      have h2 := congrArg BitVec.toNat h1
      simp only [BitVec.toNat_ofNat] at h2
      omega
    show (if sn0 + BitVec.ofNat 32 i = x then _ else _) = c
    rw [if_neg hne]; exact hG i c hc
  obtain ⟨n', hn'⟩ := h.rcv G' hG'
  have e : n' = n := by rw [hn'.inv.count, hn.inv.count]
  rw [e] at hn'
  have hpre : gRange G sn0 n = gRange G' sn0 n := by rw [← hn.inv.pre, ← hn'.inv.pre]
  have h1 := gRange_get G sn0 n _ hlt
  rw [hpre, gRange_get G' sn0 n _ hlt] at h1
  have h2 : G' x = G x := Option.some.inj h1
  have h3 : (G x).1 + 1 = (G x).1 := by
    have : G' x = ((G x).1 + 1, (G x).2) := by show (if x = x then _ else _) = _; rw [if_pos rfl]
    rw [this] at h2
    exact congrArg Prod.fst h2
  generalize (G x).1 = a at h3
  bv_omega

/-! ### the system invariant in message mode -/

structure MsgInv (sn0 conv : U32) (s : Sys) : Prop where
  sys : SysInv sn0 conv s
  a   : InvM s.A
  b   : s.A.log.length < 2 ^ 32 → InvMB s.B

/-- the reader's premises at a system state with a log shorter than 2^32 -/
theorem MsgInv.reader {sn0 conv : U32} {s : Sys} (h : MsgInv sn0 conv s) (hL : s.A.log.length < 2 ^ 32) :
    ∃ n, n ≤ s.A.log.length ∧ InvRG (gOf sn0 s.A.log) sn0 conv s.B n ∧ FrgOk (gOf sn0 s.A.log) sn0 n := by
  have hG := gOf_agree sn0 s.A.log (by omega)
  obtain ⟨n, hn⟩ := h.sys.rcv _ hG
  have hle := rcv_le_log h.sys hL hG hn
  exact ⟨n, hle, hn, frgOk_of_log h.a.cnt _ sn0 hG n hle⟩

theorem sstep_msgInv {sn0 conv : U32} {s : Sys} (h : MsgInv sn0 conv s) (op : SOp) :
    MsgInv sn0 conv (sstep s op) := by
  have hsys := sstep_inv h.sys op
  cases op with
  | a op =>
    obtain ⟨_, X, hX⟩ := step_invSG h.sys.snd op
    refine ⟨hsys, step_invM h.a op, fun hL => ?_⟩
    have hL' : (step s.A op).log.length < 2 ^ 32 := hL
    rw [hX, List.length_append] at hL'
    exact h.b (by omega)
  | b op =>
    by_cases hi : isInput op = true
    · have e : sstep s (.b op) = s := by simp [sstep, hi]
      rw [e]; exact h
    · have e : sstep s (.b op) = { s with B := step s.B op } := by simp [sstep, hi]
      rw [e] at hsys ⊢
      refine ⟨hsys, h.a, fun hL => ?_⟩
      obtain ⟨n, _, hn, hf⟩ := h.reader hL
      exact step_invMB hn hf (h.b hL) op
  | dlv i regular ackNoDelay now =>
    cases hd : s.A.wire[i]? with
    | none =>
      have e : sstep s (.dlv i regular ackNoDelay now) = s := by simp [sstep, hd]
      rw [e]; exact h
    | some d =>
      have e : sstep s (.dlv i regular ackNoDelay now) =
          { s with B := step s.B (.input d regular ackNoDelay now) } := by simp [sstep, hd]
      rw [e] at hsys ⊢
      refine ⟨hsys, h.a, fun hL => ?_⟩
      obtain ⟨n, _, hn, hf⟩ := h.reader hL
      exact step_invMB hn hf (h.b hL) (.input d regular ackNoDelay now)

theorem srun_msgInv {sn0 conv : U32} (ops : List SOp) :
    ∀ s : Sys, MsgInv sn0 conv s → MsgInv sn0 conv (srun s ops) := by
  induction ops with
  | nil => intro s h; exact h
  | cons op rest ih => intro s h; exact ih _ (sstep_msgInv h op)

theorem fresh_msgInv (kA kB : Kcp) (hA : Fresh kA) (hB : Fresh kB) (hsn : kB.rcv_nxt = kA.snd_nxt)
    (hm : 0 < kA.mss.toNat) (hs : kA.stream = 0) :
    MsgInv kA.snd_nxt kB.conv ⟨{ k := kA }, { k := kB }⟩ :=
  ⟨fresh_sysInv kA kB hA hB hsn, fresh_invM kA hA hm hs, fun _ => ⟨rfl, Closed.nil⟩⟩

/-- what the reader has got, in terms of the writer's log -/
theorem MsgInv.result {sn0 conv : U32} {s : Sys} (h : MsgInv sn0 conv s) (hL : s.A.log.length < 2 ^ 32) :
    s.B.dl.length ≤ s.A.log.length ∧ s.B.dl = s.A.log.take s.B.dl.length ∧
      s.B.got = grp (s.A.log.take s.B.dl.length) ∧
      s.A.accM = s.B.got ++ grp (s.A.log.drop s.B.dl.length ++ s.A.k.snd_queue.map content) := by
  obtain ⟨n, hle, hn, _⟩ := h.reader hL
  have hb := h.b hL
  have hcnt := hn.inv.count
  have hpre := hn.inv.pre
  rw [gRange_agree (gOf_agree sn0 s.A.log (by omega)) n hle] at hpre
  have hdl : s.B.dl = s.A.log.take s.B.dl.length := by
    have := congrArg (List.take s.B.dl.length) hpre
    rw [List.take_left, List.take_take, Nat.min_eq_left (by omega)] at this
    exact this
  refine ⟨by omega, hdl, by rw [← hdl]; exact hb.got, ?_⟩
  rw [h.a.m0.acc]
  conv => lhs; rw [← List.take_append_drop s.B.dl.length s.A.log, ← hdl, List.append_assoc]
  rw [grp_append _ _ hb.cl, ← hb.got]

end KcpVerif.C01
