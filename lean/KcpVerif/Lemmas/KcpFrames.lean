/-
Frame ("shape") lemmas for the receive path, the parse loop of `Input` and `wndSize`:
which fields each function can change.  Complements the shape lemmas in `KcpOps.lean`.
Core Lean only.
-/
import KcpVerif.Lemmas.KcpOps

namespace KcpVerif.Kcp
open KcpVerif KcpVerif.Gen

theorem moveReady_shape (k : Kcp) :
    ∃ q b n, moveReady k = { k with rcv_queue := q, rcv_buf := b, rcv_nxt := n } := ⟨_, _, _, rfl⟩

theorem recv_shape (k : Kcp) (n : Nat) :
    ∃ q b x p, (recv k n).k = { k with rcv_queue := q, rcv_buf := b, rcv_nxt := x, probe := p } := by
  unfold recv
  simp only []
  split; · exact ⟨k.rcv_queue, k.rcv_buf, k.rcv_nxt, k.probe, rfl⟩
  split; · exact ⟨k.rcv_queue, k.rcv_buf, k.rcv_nxt, k.probe, rfl⟩
  split
  · exact ⟨_, _, _, _, rfl⟩
  · exact ⟨_, _, _, k.probe, rfl⟩

theorem parseData_shape (k : Kcp) (s : Seg) :
    ∃ q b n, (parseData k s).k = { k with rcv_queue := q, rcv_buf := b, rcv_nxt := n } := by
  unfold parseData
  split; · exact ⟨k.rcv_queue, k.rcv_buf, k.rcv_nxt, rfl⟩
  split; · exact ⟨_, _, _, rfl⟩
  split; · exact ⟨k.rcv_queue, k.rcv_buf, k.rcv_nxt, rfl⟩
  exact ⟨_, _, _, rfl⟩

/-- `shrink_buf` can change `snd_buf` (it drops acknowledged heads) and `snd_una` only -/
theorem shrinkBuf_shape (k : Kcp) : ∃ b u, shrinkBuf k = { k with snd_buf := b, snd_una := u } := by
  unfold shrinkBuf
  split <;> exact ⟨_, _, rfl⟩

theorem shrinkUna_shape (k : Kcp) (una : U32) :
    ∃ b u, shrinkBuf (parseUna k una).1 = { k with snd_buf := b, snd_una := u } := by
  obtain ⟨b, u, e⟩ := shrinkBuf_shape (parseUna k una).1
  exact ⟨b, u, by rw [e]; rfl⟩

theorem parseAck_shape (k : Kcp) (sn : U32) : ∃ b, parseAck k sn = { k with snd_buf := b } := by
  unfold parseAck; split
  · exact ⟨k.snd_buf, rfl⟩
  · exact ⟨_, rfl⟩

theorem parseFastack_shape (k : Kcp) (sn ts : U32) : ∃ b, (parseFastack k sn ts).1 = { k with snd_buf := b } := by
  unfold parseFastack; split
  · exact ⟨k.snd_buf, rfl⟩
  · exact ⟨_, rfl⟩

/-- the fields the parse loop of `Input` can change -/
def LoopShape (k k' : Kcp) : Prop :=
  ∃ rw sb su al rq rb rn pr,
    k' = { k with rmt_wnd := rw, snd_buf := sb, snd_una := su, acklist := al, rcv_queue := rq, rcv_buf := rb,
                  rcv_nxt := rn, probe := pr }

theorem LoopShape.refl (k : Kcp) : LoopShape k k :=
  ⟨k.rmt_wnd, k.snd_buf, k.snd_una, k.acklist, k.rcv_queue, k.rcv_buf, k.rcv_nxt, k.probe, rfl⟩

theorem LoopShape.trans {a b c : Kcp} (h1 : LoopShape a b) (h2 : LoopShape b c) : LoopShape a c := by
  obtain ⟨rw, sb, su, al, rq, rb, rn, pr, e1⟩ := h1
  obtain ⟨rw', sb', su', al', rq', rb', rn', pr', e2⟩ := h2
  exact ⟨rw', sb', su', al', rq', rb', rn', pr', by rw [e2, e1]⟩

theorem inSt1_shape (regular : Bool) (wnd : BitVec 16) (una : U32) (st : InLoop) :
    LoopShape st.k (inSt1 regular wnd una st).k := by
  unfold inSt1
  simp only []
  obtain ⟨b, u, e⟩ := shrinkUna_shape (if regular then { st.k with rmt_wnd := wnd.setWidth 32 } else st.k) una
  rw [e]
  split
  · exact ⟨_, b, u, st.k.acklist, st.k.rcv_queue, st.k.rcv_buf, st.k.rcv_nxt, st.k.probe, rfl⟩
  · exact ⟨st.k.rmt_wnd, b, u, st.k.acklist, st.k.rcv_queue, st.k.rcv_buf, st.k.rcv_nxt, st.k.probe, rfl⟩

theorem inAck_shape (st : InLoop) (sn ts : U32) : LoopShape st.k (inAck st sn ts).k := by
  unfold inAck
  simp only []
  obtain ⟨b1, e1⟩ := parseAck_shape st.k sn
  obtain ⟨b2, u2, e2⟩ := shrinkBuf_shape (parseAck st.k sn)
  obtain ⟨b3, e3⟩ := parseFastack_shape (shrinkBuf (parseAck st.k sn)) sn ts
  rw [e3, e2, e1]
  exact ⟨st.k.rmt_wnd, b3, u2, st.k.acklist, st.k.rcv_queue, st.k.rcv_buf, st.k.rcv_nxt, st.k.probe, rfl⟩

theorem inPush_shape (st : InLoop) (seg : Seg) : LoopShape st.k (inPush st seg).k := by
  unfold inPush
  split
  · simp only []
    split
    · obtain ⟨q, b, n, e⟩ := parseData_shape { st.k with acklist := st.k.acklist ++ [⟨seg.sn, seg.ts⟩] } seg
      show LoopShape st.k (parseData { st.k with acklist := st.k.acklist ++ [⟨seg.sn, seg.ts⟩] } seg).k
      rw [e]
      exact ⟨st.k.rmt_wnd, st.k.snd_buf, st.k.snd_una, _, q, b, n, st.k.probe, rfl⟩
    · exact ⟨st.k.rmt_wnd, st.k.snd_buf, st.k.snd_una, _, st.k.rcv_queue, st.k.rcv_buf, st.k.rcv_nxt, st.k.probe, rfl⟩
  · exact LoopShape.refl _

theorem inBody_shape (regular : Bool) (data : Bytes) (st : InLoop) : LoopShape st.k (inBody regular data st).k := by
  have h1 := inSt1_shape regular (rd16 data 6) (rd32 data 16) st
  unfold inBody
  simp only []
  split; · exact h1.trans (inAck_shape _ _ _)
  split; · exact h1.trans (inPush_shape _ _)
  split
  · refine h1.trans ?_
    generalize (inSt1 regular (rd16 data 6) (rd32 data 16) st).k = k1
    exact ⟨k1.rmt_wnd, k1.snd_buf, k1.snd_una, k1.acklist, k1.rcv_queue, k1.rcv_buf, k1.rcv_nxt, _, rfl⟩
  · exact h1

theorem inputLoop_shape (regular : Bool) (fuel : Nat) (data : Bytes) (st : InLoop) :
    LoopShape st.k (inputLoop regular fuel data st).k := by
  induction fuel generalizing data st with
  | zero => exact LoopShape.refl _
  | succ fuel ih =>
    rw [inputLoop_succ]
    split; · exact LoopShape.refl _
    split; · exact LoopShape.refl _
    split; · exact LoopShape.refl _
    split; · exact LoopShape.refl _
    split
    · exact inBody_shape regular data st
    · exact (inBody_shape regular data st).trans (ih _ _)

theorem wndSize_shape (k : Kcp) (s r : Int) : ∃ sw rw, wndSize k s r = { k with snd_wnd := sw, rcv_wnd := rw } := by
  unfold wndSize
  simp only []
  split <;> split <;> exact ⟨_, _, rfl⟩

end KcpVerif.Kcp
