import KcpVerif.Model.Wire
/-! helper lemmas about the wire encoders and the specification decoder (core Lean only) -/
namespace KcpVerif.Wire
open KcpVerif.Gen

theorem byteOf_toNat (n : Nat) : (byteOf n).toNat = n % 256 := by
  simp [byteOf, UInt8.toNat_ofNat']

theorem u32_le32_bytes (x : BitVec 32) :
    u32 (byteOf x.toNat) (byteOf (x.toNat / 256)) (byteOf (x.toNat / 65536)) (byteOf (x.toNat / 16777216)) = x := by
  have h := x.isLt
  apply BitVec.eq_of_toNat_eq
  simp only [u32, byteOf_toNat, BitVec.toNat_ofNat]
  omega

theorem u16_le16_bytes (x : BitVec 16) : u16 (byteOf x.toNat) (byteOf (x.toNat / 256)) = x := by
  have h := x.isLt
  apply BitVec.eq_of_toNat_eq
  simp only [u16, byteOf_toNat, BitVec.toNat_ofNat]
  omega

theorem le32_length (x : BitVec 32) : (le32 x).length = 4 := rfl
theorem le16_length (x : BitVec 16) : (le16 x).length = 2 := rfl

theorem encodeSeg_length (s : Seg) : (encodeSeg s).length = IKCP_OVERHEAD := rfl

theorem cmdKnown_iff (c : UInt8) :
    cmdKnown c = (c.toNat == 81 || c.toNat == 82 || c.toNat == 83 || c.toNat == 84) := by
  simp [cmdKnown, IKCP_CMD_PUSH, IKCP_CMD_ACK, IKCP_CMD_WASK, IKCP_CMD_WINS]

/-- the specification decoder inverts `segment.encode` + payload copy, whatever follows -/
theorem decodeSeg_encode (s : Seg) (h : s.WF) (tail : Bytes) :
    Spec.decodeSeg (encodeSeg s ++ s.data ++ tail) = some { hdr := s.hdr, data := s.data, rest := tail } := by
  obtain ⟨hc, hl⟩ := h
  rw [cmdKnown_iff] at hc
  have hlen : (BitVec.ofNat 32 s.data.length).toNat = s.data.length := by
    simp only [BitVec.toNat_ofNat]; omega
  generalize hL : BitVec.ofNat 32 s.data.length = L at hlen
  have hle : L.toNat ≤ (s.data ++ tail).length := by simp only [List.length_append]; omega
  simp only [encodeSeg, le32, le16, List.cons_append, List.nil_append, List.append_assoc, Spec.decodeSeg,
    u32_le32_bytes, u16_le16_bytes, hc, hL, hle, if_true, Seg.hdr, List.take_left' hlen.symm,
    List.drop_left' hlen.symm]

theorem encodeSegFull_ne_nil (s : Seg) (tail : Bytes) : ∃ x xs, encodeSegFull s ++ tail = x :: xs := by
  simp only [encodeSegFull, encodeSeg, le32, List.cons_append]
  exact ⟨_, _, rfl⟩

theorem decodeN_encodeSegs (segs : List Seg) (h : ∀ s ∈ segs, s.WF) :
    ∀ n, segs.length ≤ n → Spec.decodeN n (encodeSegs segs) = some (segs.map fun s => (s.hdr, s.data)) := by
  induction segs with
  | nil => intro n _; cases n <;> rfl
  | cons s rest ih =>
    intro n hn
    cases n with
    | zero => simp at hn
    | succ n =>
      have hs : s.WF := h s (by simp)
      have hr : ∀ t ∈ rest, t.WF := fun t ht => h t (by simp [ht])
      have e : encodeSegs (s :: rest) = encodeSeg s ++ s.data ++ encodeSegs rest := by
        simp [encodeSegs, encodeSegFull]
      obtain ⟨x, xs, hx⟩ := encodeSegFull_ne_nil s (encodeSegs rest)
      have e2 : encodeSegs (s :: rest) = x :: xs := by rw [e, ← hx, encodeSegFull]
      have hd := decodeSeg_encode s hs (encodeSegs rest)
      rw [← e, e2] at hd
      rw [e2]
      simp only [Spec.decodeN, hd, ih hr n (by simpa using hn), List.map_cons]

theorem encodeSegs_length_ge (segs : List Seg) : segs.length ≤ (encodeSegs segs).length := by
  induction segs with
  | nil => simp [encodeSegs]
  | cons s rest ih =>
    have : encodeSegs (s :: rest) = encodeSeg s ++ s.data ++ encodeSegs rest := by
      simp [encodeSegs, encodeSegFull]
    rw [this]
    simp only [List.length_append, encodeSeg_length, IKCP_OVERHEAD, List.length_cons]
    omega

/-- any non-empty list of well-formed segments laid out back to back is accepted by the
specification decoder, which returns exactly that list and consumes every byte -/
theorem decode_encodeSegs (segs : List Seg) (hne : segs ≠ []) (h : ∀ s ∈ segs, s.WF) :
    Spec.decode (encodeSegs segs) = some (segs.map fun s => (s.hdr, s.data)) := by
  cases segs with
  | nil => exact absurd rfl hne
  | cons s rest =>
    obtain ⟨x, xs, hx⟩ := encodeSegFull_ne_nil s (encodeSegs rest)
    have e2 : encodeSegs (s :: rest) = x :: xs := by
      rw [← hx]; simp [encodeSegs]
    have := decodeN_encodeSegs (s :: rest) h (encodeSegs (s :: rest)).length (encodeSegs_length_ge _)
    rw [e2] at this ⊢
    simpa [Spec.decode] using this

end KcpVerif.Wire
